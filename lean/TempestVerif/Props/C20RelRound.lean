import TempestVerif.Model.Ess
import TempestVerif.Lemmas.Rounded
import TempestVerif.Lemmas.ScReal
import TempestVerif.Props.C20Audit
import Mathlib.Tactic
/-
  C20 — clause audit, part 5: `ESS ∈ [1, N]` in floating point, up to an explicit allowance.

  `Model.Ess.ess` — the very definition the driver executes at `Float` — is evaluated at the rounded reals `Rd rnd`
  (`Lemmas/Rounded.lean`: every `+ * /` is the exact operation followed by `rnd`).  Hypothesis **H_rel(u)** (`RelRound rnd u`):
  for `x ≥ 0`,  `(1-u)·x ≤ rnd x ≤ (1+u)·x`  — the standard model of binary floating point with unit roundoff `u`
  (binary64: `u = 2^-53`), valid as long as nothing overflows or becomes subnormal.

  Error calculus: `Acc k x̃ x`  :=  `θ^k·x ≤ x̃`  and  `x̃·θ^k ≤ x`  with `θ = 1-u`  ("x̃ carries at most k roundings").
  Rounding adds 1 to `k`, sums keep the maximum, products and quotients add.  The ESS of `n` weights carries `3n+4`:

    C20_relround_ess_close    θ^(3n+4) · ESS_exact ≤ ESS_float   and   ESS_float · θ^(3n+4) ≤ ESS_exact
    C20_relround_ess_bounds   1 - (3n+4)u ≤ ESS_float   and   ESS_float · (1 - (3n+4)u) ≤ n
    C20_relround_ess_upper    ESS_float ≤ n · (1 + (6n+8)u)      when (3n+4)u ≤ 1/2
    C20_relround_ess_uniform  the same two-sided bound around `n` for equal weights

  These are the allowances suite ess-property-F uses on the real code, `τ = (4N+16)·2^-52 = (8N+32)·2^-53 ≥ (6N+8)·2^-53`.
  (The model sums left to right, numpy pairwise: the calculus gives the same exponent for every order of summation, since a sum
  of `n` terms passes through at most `n` roundings on any path.)
-/
namespace Props.C20
open Model.Ess

/-- H_rel(u): relative-error model of rounding on the non-negative reals -/
structure RelRound (rnd : ℝ → ℝ) (u : ℝ) : Prop where
  u_nonneg : 0 ≤ u
  u_lt : u < 1
  lo : ∀ x, 0 ≤ x → (1 - u) * x ≤ rnd x
  hi : ∀ x, 0 ≤ x → rnd x ≤ (1 + u) * x

/-- `x̃` approximates `x ≥ 0` through at most `k` roundings -/
def Acc (u : ℝ) (k : ℕ) (xt x : ℝ) : Prop := 0 ≤ x ∧ (1 - u) ^ k * x ≤ xt ∧ xt * (1 - u) ^ k ≤ x

section Calculus
variable {rnd : ℝ → ℝ} {u : ℝ}

theorem theta_pos (h : RelRound rnd u) : 0 < 1 - u := by linarith [h.u_lt]
theorem theta_le_one (h : RelRound rnd u) : 1 - u ≤ 1 := by linarith [h.u_nonneg]

theorem Acc.nonneg (h : RelRound rnd u) {k : ℕ} {xt x : ℝ} (a : Acc u k xt x) : 0 ≤ xt :=
  le_trans (mul_nonneg (pow_nonneg (theta_pos h).le k) a.1) a.2.1

theorem Acc.exact {x : ℝ} (hx : 0 ≤ x) : Acc u 0 x x := ⟨hx, by simp, by simp⟩

theorem Acc.mono (h : RelRound rnd u) {j k : ℕ} (hjk : j ≤ k) {xt x : ℝ} (a : Acc u j xt x) : Acc u k xt x := by
  have hθ := theta_pos h
  have hpow : (1 - u) ^ k ≤ (1 - u) ^ j := pow_le_pow_of_le_one hθ.le (theta_le_one h) hjk
  have hxt := a.nonneg h
  refine ⟨a.1, le_trans (mul_le_mul_of_nonneg_right hpow a.1) a.2.1, le_trans (mul_le_mul_of_nonneg_left hpow hxt) a.2.2⟩

theorem Acc.round (h : RelRound rnd u) {k : ℕ} {xt x : ℝ} (a : Acc u k xt x) : Acc u (k + 1) (rnd xt) x := by
  have hθ := theta_pos h
  have hxt := a.nonneg h
  have hpk : 0 ≤ (1 - u) ^ k := pow_nonneg hθ.le k
  refine ⟨a.1, ?_, ?_⟩
  · calc (1 - u) ^ (k + 1) * x = (1 - u) * ((1 - u) ^ k * x) := by ring
      _ ≤ (1 - u) * xt := mul_le_mul_of_nonneg_left a.2.1 hθ.le
      _ ≤ rnd xt := h.lo xt hxt
  · have h1 : rnd xt * (1 - u) ^ (k + 1) ≤ ((1 + u) * xt) * (1 - u) ^ (k + 1) :=
      mul_le_mul_of_nonneg_right (h.hi xt hxt) (pow_nonneg hθ.le _)
    have h2 : ((1 + u) * xt) * (1 - u) ^ (k + 1) = ((1 + u) * (1 - u)) * (xt * (1 - u) ^ k) := by ring
    have h3 : (1 + u) * (1 - u) ≤ 1 := by nlinarith [h.u_nonneg]
    have h4 : 0 ≤ xt * (1 - u) ^ k := mul_nonneg hxt hpk
    have h5 : 0 ≤ (1 + u) * (1 - u) := mul_nonneg (by linarith [h.u_nonneg]) hθ.le
    calc rnd xt * (1 - u) ^ (k + 1) ≤ ((1 + u) * (1 - u)) * (xt * (1 - u) ^ k) := by rw [← h2]; exact h1
      _ ≤ 1 * (xt * (1 - u) ^ k) := mul_le_mul_of_nonneg_right h3 h4
      _ ≤ x := by rw [one_mul]; exact a.2.2

theorem Acc.add {k : ℕ} {at' a bt b : ℝ} (ha : Acc u k at' a) (hb : Acc u k bt b) : Acc u k (at' + bt) (a + b) := by
  refine ⟨add_nonneg ha.1 hb.1, ?_, ?_⟩
  · rw [mul_add]; exact add_le_add ha.2.1 hb.2.1
  · rw [add_mul]; exact add_le_add ha.2.2 hb.2.2

theorem Acc.mul (h : RelRound rnd u) {j k : ℕ} {at' a bt b : ℝ} (ha : Acc u j at' a) (hb : Acc u k bt b) :
    Acc u (j + k) (at' * bt) (a * b) := by
  have hθ := theta_pos h
  have hj : 0 ≤ (1 - u) ^ j := pow_nonneg hθ.le j
  have hk : 0 ≤ (1 - u) ^ k := pow_nonneg hθ.le k
  have hat := ha.nonneg h
  have hbt := hb.nonneg h
  refine ⟨mul_nonneg ha.1 hb.1, ?_, ?_⟩
  · calc (1 - u) ^ (j + k) * (a * b) = ((1 - u) ^ j * a) * ((1 - u) ^ k * b) := by rw [pow_add]; ring
      _ ≤ at' * bt := mul_le_mul ha.2.1 hb.2.1 (mul_nonneg hk hb.1) hat
  · calc at' * bt * (1 - u) ^ (j + k) = (at' * (1 - u) ^ j) * (bt * (1 - u) ^ k) := by rw [pow_add]; ring
      _ ≤ a * b := mul_le_mul ha.2.2 hb.2.2 (mul_nonneg hbt hk) ha.1

theorem Acc.div (h : RelRound rnd u) {j k : ℕ} {at' a bt b : ℝ} (ha : Acc u j at' a) (hb : Acc u k bt b) (hbpos : 0 < b) :
    Acc u (j + k) (at' / bt) (a / b) := by
  have hθ := theta_pos h
  have hj : 0 < (1 - u) ^ j := pow_pos hθ j
  have hk : 0 < (1 - u) ^ k := pow_pos hθ k
  have hat := ha.nonneg h
  have hbt : 0 < bt := lt_of_lt_of_le (mul_pos hk hbpos) hb.2.1
  refine ⟨div_nonneg ha.1 hbpos.le, ?_, ?_⟩
  · rw [le_div_iff₀ hbt]
    calc (1 - u) ^ (j + k) * (a / b) * bt = ((1 - u) ^ j * a) * ((bt * (1 - u) ^ k) / b) := by
          rw [pow_add]; field_simp
      _ ≤ at' * 1 := by
          apply mul_le_mul ha.2.1 _ (div_nonneg (mul_nonneg hbt.le hk.le) hbpos.le) hat
          rw [div_le_one hbpos]; exact hb.2.2
      _ = at' := mul_one _
  · rw [div_mul_eq_mul_div, div_le_div_iff₀ hbt hbpos]
    calc at' * (1 - u) ^ (j + k) * b = (at' * (1 - u) ^ j) * ((1 - u) ^ k * b) := by rw [pow_add]; ring
      _ ≤ a * bt := mul_le_mul ha.2.2 hb.2.1 (mul_nonneg hk.le hbpos.le) ha.1

end Calculus

/-! ### the rounded left-fold sum -/

/-- `np.sum` as the driver's `Float` model computes it: left fold with a rounding after every addition -/
def rdsum (rnd : ℝ → ℝ) (acc : ℝ) : List ℝ → ℝ
  | [] => acc
  | a :: l => rdsum rnd (rnd (acc + a)) l

variable {rnd : ℝ → ℝ} {u : ℝ}

theorem rd_foldl_add_v (l : List (Rd rnd)) (acc : Rd rnd) :
    (l.foldl Sc.add acc).v = rdsum rnd acc.v (l.map Rd.v) := by
  induction l generalizing acc with
  | nil => rfl
  | cons a l ih => simp only [List.foldl_cons, List.map_cons, rdsum]; rw [ih]; rfl

theorem rd_sum_v (l : List (Rd rnd)) : (Sc.sum l).v = rdsum rnd 0 (l.map Rd.v) := by
  unfold Sc.sum; rw [rd_foldl_add_v]; simp

/-- a sum of `n` terms, each carrying at most `m` roundings, carries at most `m + n` -/
theorem rdsum_acc (h : RelRound rnd u) (m : ℕ) (lt l : List ℝ) (hl : List.Forall₂ (Acc u m) lt l)
    (j : ℕ) (acct acc : ℝ) (ha : Acc u (m + j) acct acc) :
    Acc u (m + j + lt.length) (rdsum rnd acct lt) (acc + l.sum) := by
  induction hl generalizing j acct acc with
  | nil => simpa [rdsum] using ha
  | @cons at' a lt' l' hab _ ih =>
    simp only [rdsum, List.sum_cons, List.length_cons]
    have h1 : Acc u (m + j) at' a := hab.mono h (by omega)
    have h2 := (ha.add h1).round h
    have h3 := ih (j + 1) _ _ (by rw [← add_assoc]; exact h2)
    have e : m + (j + 1) + lt'.length = m + j + (lt'.length + 1) := by omega
    rw [e, add_assoc acc a] at h3
    exact h3

/-! ### effective sample size -/

/-- **the computed ESS is the exact ESS up to `3n+4` roundings** -/
theorem C20_relround_ess_close (h : RelRound rnd u) (w : List (Rd rnd)) (h0 : ∀ x ∈ w, 0 ≤ x.v)
    (hs : 0 < (w.map Rd.v).sum) :
    Acc u (3 * w.length + 4) (ess w).v (ess (w.map Rd.v)) := by
  set n := w.length with hn
  set wr := w.map Rd.v with hwr
  have hwr0 : ∀ x ∈ wr, 0 ≤ x := by
    intro x hx; obtain ⟨y, hy, rfl⟩ := List.mem_map.mp hx; exact h0 y hy
  have hlen : wr.length = n := by simp [hwr, hn]
  -- 1. the sum
  have hS : Acc u n (Sc.sum w).v wr.sum := by
    rw [rd_sum_v]
    have hf : List.Forall₂ (Acc u 0) wr wr := by
      rw [List.forall₂_same]; intro x hx; exact Acc.exact (hwr0 x hx)
    have := rdsum_acc h 0 wr wr hf 0 0 0 (Acc.exact (le_refl _))
    simpa [hlen] using this
  -- 2. the normalised weights
  have hU : List.Forall₂ (Acc u (n + 1)) ((normalise w).map Rd.v) (wr.map (fun x => x / wr.sum)) := by
    simp only [normalise, List.map_map, hwr]
    rw [List.forall₂_map_left_iff, List.forall₂_map_right_iff, List.forall₂_same]
    intro x hx
    have := ((Acc.exact (u := u) (h0 x hx)).div h hS hs).round h
    simpa [hwr] using this
  -- 3. their squares
  have hQi : List.Forall₂ (Acc u (2 * n + 3)) (((normalise w).map fun x => Sc.mul x x).map Rd.v)
      ((wr.map (fun x => x / wr.sum)).map (fun x => x * x)) := by
    rw [List.map_map]
    have : ((normalise w).map (Rd.v ∘ fun x => Sc.mul x x))
        = ((normalise w).map Rd.v).map (fun v => rnd (v * v)) := by
      rw [List.map_map]; rfl
    rw [this, List.forall₂_map_left_iff, List.forall₂_map_right_iff]
    refine hU.imp ?_
    intro a b hab
    have := (hab.mul h hab).round h
    have e : n + 1 + (n + 1) + 1 = 2 * n + 3 := by omega
    rwa [e] at this
  -- 4. the sum of squares
  have hQ : Acc u (3 * n + 3) (sumSq (normalise w)).v ((wr.map (fun x => x / wr.sum)).map (fun x => x * x)).sum := by
    unfold sumSq
    rw [rd_sum_v]
    have := rdsum_acc h (2 * n + 3) _ _ hQi 0 0 0 ((Acc.exact (le_refl _)).mono h (by omega))
    have hl : (((normalise w).map fun x => Sc.mul x x).map Rd.v).length = n := by simp [normalise, hn]
    rw [hl, zero_add] at this
    have e : 2 * n + 3 + 0 + n = 3 * n + 3 := by omega
    rwa [e] at this
  -- 5. the reciprocal
  obtain ⟨_, _, hqpos, _, _⟩ := sumsq_normalised_bounds wr hwr0 hs
  have hE := ((Acc.exact (u := u) (zero_le_one)).div h hQ hqpos).round h
  have e : 0 + (3 * n + 3) + 1 = 3 * n + 4 := by omega
  rw [e] at hE
  have hess : ess wr = 1 / ((wr.map (fun x => x / wr.sum)).map (fun x => x * x)).sum := ess_def wr
  rw [hess]
  have hv : (ess w).v = rnd (1 / (sumSq (normalise w)).v) := by
    unfold ess; rw [Rd.div_v, Rd.one_v]
  rw [hv]
  exact hE

theorem pow_ge_one_sub_mul (h : RelRound rnd u) (k : ℕ) : 1 - (k : ℝ) * u ≤ (1 - u) ^ k := by
  have := one_add_mul_le_pow (show (-2 : ℝ) ≤ -u by linarith [h.u_lt]) k
  simpa [sub_eq_add_neg, mul_neg] using this

/-- **`1 ≤ ESS ≤ N` in floating point, with the allowance `(3N+4)u`** -/
theorem C20_relround_ess_bounds (h : RelRound rnd u) (w : List (Rd rnd)) (h0 : ∀ x ∈ w, 0 ≤ x.v)
    (hs : 0 < (w.map Rd.v).sum) :
    1 - (3 * w.length + 4 : ℕ) * u ≤ (ess w).v ∧ (ess w).v * (1 - (3 * w.length + 4 : ℕ) * u) ≤ w.length := by
  obtain ⟨_, hlo, hhi⟩ := C20_relround_ess_close h w h0 hs
  have hwr0 : ∀ x ∈ w.map Rd.v, 0 ≤ x := by
    intro x hx; obtain ⟨y, hy, rfl⟩ := List.mem_map.mp hx; exact h0 y hy
  obtain ⟨hb1, hb2⟩ := C20_ess_bounds (w.map Rd.v) hwr0 hs
  rw [List.length_map] at hb2
  have hp := pow_ge_one_sub_mul h (3 * w.length + 4)
  have hθk : 0 ≤ (1 - u) ^ (3 * w.length + 4) := pow_nonneg (theta_pos h).le _
  have hv : 0 ≤ (ess w).v := le_trans (mul_nonneg hθk (le_trans zero_le_one hb1)) hlo
  constructor
  · calc 1 - ((3 * w.length + 4 : ℕ) : ℝ) * u ≤ (1 - u) ^ (3 * w.length + 4) := hp
      _ = (1 - u) ^ (3 * w.length + 4) * 1 := (mul_one _).symm
      _ ≤ (1 - u) ^ (3 * w.length + 4) * ess (w.map Rd.v) := mul_le_mul_of_nonneg_left hb1 hθk
      _ ≤ (ess w).v := hlo
  · calc (ess w).v * (1 - ((3 * w.length + 4 : ℕ) : ℝ) * u) ≤ (ess w).v * (1 - u) ^ (3 * w.length + 4) :=
          mul_le_mul_of_nonneg_left hp hv
      _ ≤ ess (w.map Rd.v) := hhi
      _ ≤ w.length := hb2

/-- the upper bound in the form the oracle uses: `ESS_float ≤ N·(1 + (6N+8)u)` as long as `(3N+4)u ≤ 1/2` -/
theorem C20_relround_ess_upper (h : RelRound rnd u) (w : List (Rd rnd)) (h0 : ∀ x ∈ w, 0 ≤ x.v)
    (hs : 0 < (w.map Rd.v).sum) (hsmall : ((3 * w.length + 4 : ℕ) : ℝ) * u ≤ 1 / 2) :
    (ess w).v ≤ w.length * (1 + 2 * ((3 * w.length + 4 : ℕ) : ℝ) * u) := by
  obtain ⟨hlo, hhi⟩ := C20_relround_ess_bounds h w h0 hs
  set t := ((3 * w.length + 4 : ℕ) : ℝ) * u with ht
  have ht0 : 0 ≤ t := mul_nonneg (Nat.cast_nonneg _) h.u_nonneg
  have hv : 0 ≤ (ess w).v := by linarith
  have hN : (0 : ℝ) ≤ w.length := Nat.cast_nonneg _
  -- v (1 - t) ≤ N  and  (1 - t)(1 + 2t) ≥ 1  for t ≤ 1/2
  have hkey : 1 ≤ (1 - t) * (1 + 2 * t) := by nlinarith
  have h1 : (ess w).v ≤ (ess w).v * ((1 - t) * (1 + 2 * t)) := by
    calc (ess w).v = (ess w).v * 1 := (mul_one _).symm
      _ ≤ (ess w).v * ((1 - t) * (1 + 2 * t)) := mul_le_mul_of_nonneg_left hkey hv
  calc (ess w).v ≤ ((ess w).v * (1 - t)) * (1 + 2 * t) := by rw [mul_assoc]; exact h1
    _ ≤ w.length * (1 + 2 * t) := mul_le_mul_of_nonneg_right hhi (by linarith)
    _ = w.length * (1 + 2 * ((3 * w.length + 4 : ℕ) : ℝ) * u) := by rw [ht]; ring

/-- equal weights: the computed ESS is `N` up to the same allowance -/
theorem C20_relround_ess_uniform (h : RelRound rnd u) (N : ℕ) (hN : 0 < N) (c : ℝ) (hc : 0 < c) :
    (1 - u) ^ (3 * N + 4) * N ≤ (ess (List.replicate N (⟨c⟩ : Rd rnd))).v ∧
    (ess (List.replicate N (⟨c⟩ : Rd rnd))).v * (1 - u) ^ (3 * N + 4) ≤ N := by
  have hmap : (List.replicate N (⟨c⟩ : Rd rnd)).map Rd.v = List.replicate N c := by simp
  have h0 : ∀ x ∈ List.replicate N (⟨c⟩ : Rd rnd), 0 ≤ x.v := by
    intro x hx; rw [List.eq_of_mem_replicate hx]; exact hc.le
  have hs : 0 < ((List.replicate N (⟨c⟩ : Rd rnd)).map Rd.v).sum := by
    rw [hmap, List.sum_replicate, nsmul_eq_mul]
    exact mul_pos (by exact_mod_cast hN) hc
  obtain ⟨_, hlo, hhi⟩ := C20_relround_ess_close h _ h0 hs
  rw [hmap, C20_ess_uniform N hN c hc, List.length_replicate] at hlo hhi
  exact ⟨hlo, hhi⟩

/-- H_rel is satisfiable: exact arithmetic (`u = 0`), and then the calculus gives back the exact bounds -/
example : RelRound (fun x => x) 0 := ⟨le_refl _, zero_lt_one, fun x _ => by simp, fun x _ => by simp⟩

/-- a genuinely inexact instance: always rounding down by a relative `1/4` -/
example : RelRound (fun x => (3 / 4 : ℝ) * x) (1 / 4) :=
  ⟨by norm_num, by norm_num, fun x _ => by norm_num, fun x hx => by nlinarith⟩

end Props.C20
