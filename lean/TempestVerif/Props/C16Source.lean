import TempestVerif.Model.BoundaryPy
import TempestVerif.Gen.BoundarySrc
import TempestVerif.Props.C16Py
/-
  C16 — the executable boundary model is built from the statements that are in /repo's `tempest/mcmc.py` NOW.

  `Gen/BoundarySrc.lean` is regenerated from the source on every run of the check (translator G15, `translate/g15_boundary.py`):
  `apply_boundary_conditions` and `check_bounds` COMPILED statement by statement — scalar expressions (`% 1.0`, `np.floor`,
  `val - n_reflect`, the parity test `np.mod(n_reflect, 2.0) == 0`, the flip `1.0 - remainder`, `>= 0`, `<= 1`) into terms over
  the scalar interface `Sc α`, statements (`if … is not None`, `for idx in …`, the read-modify-write of `u[..., idx]`, the set
  arithmetic, the early exits, `np.all … and / &`) into `applySrc` / `checkSrc` over the numpy dictionary `Model.Np` — plus the
  statement skeleton, signatures and call sites as string tables.

  The theorems below say that the hand-written model — `Model.Boundary.periodic / reflect / apply / apply2 / inUnit /
  checkBounds / checkBounds2` and `Model.BoundaryPy.applyPy / checkPy`, i.e. what the driver executes for the suites
  boundary-Q/F, pycall-Q/F/S, callsite-* — IS that compiled source, for EVERY scalar type (`Float`, `Float32`, `Rat` included).
  The scalar ones hold by `rfl`; `C16_src_applyPy` by `rfl` after the case split on the two `None` tests; `C16_src_checkPy` is a
  proof (the model folds the set arithmetic into a membership test and the two `np.all` passes into `List.all`), valid for every
  scalar type because it never looks inside a scalar operation.  A change of a literal, an operator, an operand order, a test, a
  branch or a statement in the source changes the generated file and breaks the theorem that pins it (table in clauses/C16.md).
-/
namespace Props.C16Src
open Model Model.Boundary Model.BoundaryPy Gen.BoundarySrc
open Props.C16Py (idx)

variable {α : Type} [Sc α]

/-! ### scalar expressions (by `rfl`, every scalar type) -/

/-- `u[..., idx] = u[..., idx] % 1.0`: the model's `periodic` is the source's right-hand side (operator `%`, literal `1.0`) -/
theorem C16_src_periodic (x : α) : periodic x = applyLoop0 x := rfl

/-- `val = u[..., idx]; n_reflect = np.floor(val); remainder = val - n_reflect;
    u[..., idx] = np.where(np.mod(n_reflect, 2.0) == 0, remainder, 1.0 - remainder)`: the model's `reflect` is this body
    (floor, operand order of the subtraction, modulus `2.0`, comparison with `0`, order of the `np.where` branches, `1.0 - r`) -/
theorem C16_src_reflect (x : α) : reflect x = applyLoop1 x := rfl

/-- `u_strict >= 0`, `u_strict <= 1` (1-D pair and 2-D pair): the model's closed-interval test -/
theorem C16_src_inUnit (x : α) :
    inUnit x = (checkCmp0 x && checkCmp1 x) ∧ inUnit x = (checkCmp2 x && checkCmp3 x) := ⟨rfl, rfl⟩

/-- the two passes of `rowCheck` are the source's comparisons, in the source's order, for the 1-D and the 2-D return -/
theorem C16_src_rowCheck (strict : List Nat) (u : List α) :
    rowCheck strict u =
      ((strict.all fun i => match u[i]? with | some x => checkCmp0 x | none => true) &&
       (strict.all fun i => match u[i]? with | some x => checkCmp1 x | none => true)) ∧
    rowCheck strict u =
      ((strict.all fun i => match u[i]? with | some x => checkCmp2 x | none => true) &&
       (strict.all fun i => match u[i]? with | some x => checkCmp3 x | none => true)) := ⟨rfl, rfl⟩

/-! ### `apply_boundary_conditions` -/

/-- **the whole function**: `u = u.copy()`; `if periodic is not None: for idx in periodic: u[..., idx] = …`;
    `if reflective is not None: for idx in reflective: …`; `return u` — periodic loop first, `None` skips a loop,
    whole columns `u[..., idx]` are updated.  (Python argument order `(u, periodic, reflective)`.) -/
theorem C16_src_applyPy (per refl : Option (List Nat)) (a : Arr α) : applyPy per refl a = applySrc a per refl := by
  cases per <;> cases refl <;> rfl

/-- the core model on one point (what `bc.Q` / `bc.F` execute) is the compiled source on a 1-D array -/
theorem C16_src_apply (per refl : List Nat) (u : List α) :
    Arr.d1 (apply per refl u) = applySrc (Arr.d1 u) (some per) (some refl) := by
  rw [← C16_src_applyPy, Props.C16Py.C16_applyPy_d1]; rfl

/-- … and row by row on a 2-D array -/
theorem C16_src_apply2 (per refl : List Nat) (n : Nat) (us : List (List α)) :
    Arr.d2 n (apply2 per refl us) = applySrc (Arr.d2 n us) (some per) (some refl) := by
  rw [← C16_src_applyPy, Props.C16Py.C16_applyPy_d2]; rfl

/-! ### `check_bounds` -/

omit [Sc α] in
theorem all_take {β : Type} (p : β → Bool) (u : List β) (l : List Nat) :
    ((l.filterMap fun i => u[i]?).map p).all id = l.all fun i => match u[i]? with | some x => p x | none => true := by
  induction l with
  | nil => rfl
  | cons a l ih => cases h : u[a]? <;> simp_all

omit [Sc α] in
theorem zipWith_map_same {β γ : Type} (f : γ → γ → γ) (g h : β → γ) (l : List β) :
    List.zipWith f (l.map g) (l.map h) = l.map fun x => f (g x) (h x) := by
  induction l with
  | nil => rfl
  | cons a l ih => simp [ih]

omit [Sc α] in
theorem isEmpty_len (l : List Nat) : (l.length == 0) = l.isEmpty := by cases l <;> rfl

/-- `n_dim = u.shape[-1]` … `strict_indices = list(all_indices - special_indices)`: the source's set arithmetic (statements 1–5
    of `check_bounds`: `set(range(n_dim))`, `set()`, the two guarded `update`s, the difference, `list`) is the model's `strictIdx` -/
theorem C16_src_strictIdx (per refl : Option (List Nat)) (n : Nat) :
    Np.toList (Np.setDiff (Np.setOf (List.range n))
      (Np.ifSome refl (Np.ifSome per Np.setEmpty fun l => Np.setUpdate Np.setEmpty l)
        fun l' => Np.setUpdate (Np.ifSome per Np.setEmpty fun l => Np.setUpdate Np.setEmpty l) l'))
      = strictIdx per refl n := by
  cases per <;> cases refl <;>
    simp [Np.ifSome, Np.toList, Np.setDiff, Np.setOf, Np.setEmpty, Np.setUpdate, strictIdx, special]

/-- **the whole function**: the index bookkeeping, `if len(strict_indices) == 0:` with its two early exits (`True` for 1-D,
    `np.ones(u.shape[0], dtype=bool)` otherwise), `u_strict = u[..., strict_indices]`, `if u.ndim == 1:` `np.all(u_strict >= 0) and
    np.all(u_strict <= 1)`, else `np.all(…, axis=-1) & np.all(…, axis=-1)` -/
theorem C16_src_checkPy (per refl : Option (List Nat)) (a : Arr α) : checkPy per refl a = checkSrc a per refl := by
  cases a with
  | d1 u =>
    simp only [checkSrc, checkPy, Np.shapeAt, Np.ndim, true_or, ite_true, C16_src_strictIdx, isEmpty_len, BEq.rfl]
    split
    · rfl
    · simp only [Np.take, Np.cmp, Np.allFlat, Np.andPy, all_take, rowCheck]; rfl
  | d2 n us =>
    have h21 : ((2 : Nat) == 1) = false := rfl
    have h0 : ¬ ((0 : Int) = -1 ∨ (0 : Int) = 1) := by decide
    simp only [checkSrc, checkPy, Np.shapeAt, Np.ndim, true_or, ite_true, C16_src_strictIdx, isEmpty_len, h21, h0, ite_false,
      Bool.false_eq_true]
    split
    · rfl
    · simp only [Np.take, Np.cmp, Np.allAxis, Np.andBit, true_or, ite_true, List.map_map, zipWith_map_same, Res.vec.injEq]
      apply List.map_congr_left
      intro row _
      simp only [Function.comp, all_take, rowCheck]; rfl

/-- the core model on one point (what `bc.Q` / `bc.F` execute) is the compiled source on a 1-D array -/
theorem C16_src_checkBounds (per refl : List Nat) (u : List α) :
    Res.scalar (checkBounds per refl u) = checkSrc (Arr.d1 u) (some per) (some refl) := by
  rw [← C16_src_checkPy, Props.C16Py.C16_checkPy_d1]; rfl

/-- … and one flag per row on an (n_walkers, n_dim) array -/
theorem C16_src_checkBounds2 (per refl : List Nat) (n : Nat) (us : List (List α)) (hrows : ∀ row ∈ us, row.length = n) :
    Res.vec (checkBounds2 per refl us) = checkSrc (Arr.d2 n us) (some per) (some refl) := by
  rw [← C16_src_checkPy, Props.C16Py.C16_checkPy_d2 _ _ _ _ hrows]; rfl

/-- `check_bounds` does not distinguish the two index lists (only their union is read): the order of the two arguments at a
    call site is immaterial, which is why `callSites` lists them sorted for `check_bounds` (and in call order for
    `apply_boundary_conditions`, where the periodic wrap comes first) -/
theorem C16_src_check_symm (per refl : Option (List Nat)) (a : Arr α) : checkSrc a per refl = checkSrc a refl per := by
  have hs : ∀ n, strictIdx per refl n = strictIdx refl per n := by
    intro n; unfold strictIdx special; simp only [Bool.or_comm]
  rw [← C16_src_checkPy, ← C16_src_checkPy]
  cases a <;> simp only [checkPy, hs]

/-! ### the compiled source, run (non-vacuity: the generated terms compute; `Rat` instance, kernel evaluation) -/

example : applyLoop0 (-7/4 : Rat) = 1/4 := by decide +kernel
example : applyLoop1 (5/2 : Rat) = 1/2 ∧ applyLoop1 (7/2 : Rat) = 1/2 ∧ applyLoop1 (-1/4 : Rat) = 1/4 := by decide +kernel
example : applySrc (Arr.d1 [(5/2 : Rat), -7/4, 9]) (some [1]) (some [0]) = Arr.d1 [1/2, 1/4, 9] := by decide +kernel
example : checkSrc (Arr.d1 [(5/2 : Rat), 1, 9]) (some [2]) (some [0]) = Res.scalar true ∧
          checkSrc (Arr.d2 2 [[(5/2 : Rat), 1], [0, 9/8]]) none (some [0]) = Res.vec [true, false] ∧
          checkSrc (Arr.d2 2 [[(5/2 : Rat), 1], [0, 9/8]]) (some [1]) (some [0]) = Res.vec [true, true] := by decide +kernel

/-! ### the statement skeletons, signatures and call sites the model was written against

  `path: statement` in program order (`t` / `e` = then / else block; docstrings and comments dropped; local variables renamed
  `v0, v1, …` in order of first assignment, so a renamed local or a re-formatted line changes nothing).  This is the catch-all:
  whatever the compiled terms abstract (`u.copy()` is the identity of a functional model, `dtype=bool`, the defaults `=None` of
  the signature) or cannot express (a construct outside the term language keeps the previous terms) still changes a row here. -/

def expected_applySkeleton : List String :=
  ["def apply_boundary_conditions(u, periodic=None, reflective=None)",
   "0: u = u.copy()",
   "1: if periodic is not None",
   "1t.0: for v0 in periodic",
   "1t.0.0: u[..., v0] = u[..., v0] % 1.0",
   "2: if reflective is not None",
   "2t.0: for v0 in reflective",
   "2t.0.0: v1 = u[..., v0]",
   "2t.0.1: v2 = np.floor(v1)",
   "2t.0.2: v3 = v1 - v2",
   "2t.0.3: u[..., v0] = np.where(np.mod(v2, 2.0) == 0, v3, 1.0 - v3)",
   "3: return u"]

theorem C16_src_applySkeleton : Gen.BoundarySrc.applySkeleton = expected_applySkeleton := by decide

def expected_checkSkeleton : List String :=
  ["def check_bounds(u, periodic=None, reflective=None)",
   "0: v0 = u.shape[-1]",
   "1: v1 = set(range(v0))",
   "2: v2 = set()",
   "3: if periodic is not None",
   "3t.0: v2.update(periodic)",
   "4: if reflective is not None",
   "4t.0: v2.update(reflective)",
   "5: v3 = list(v1 - v2)",
   "6: if len(v3) == 0",
   "6t.0: if u.ndim == 1",
   "6t.0t.0: return True",
   "6t.1: return np.ones(u.shape[0], dtype=bool)",
   "7: v4 = u[..., v3]",
   "8: if u.ndim == 1",
   "8t.0: return np.all(v4 >= 0) and np.all(v4 <= 1)",
   "9: return np.all(v4 >= 0, axis=-1) & np.all(v4 <= 1, axis=-1)"]

theorem C16_src_checkSkeleton : Gen.BoundarySrc.checkSkeleton = expected_checkSkeleton := by decide

/-- every call of the two functions in the package: the ONE 2-D check of `BaseMCMCRunner.run` (`proposeAll`) and the two 1-D folds
    of `TPCNRunner._propose` / `RWMRunner._propose` (`proposeRow`), each handing over `(<array>, periodic, reflective)` — in this
    order for the fold; for the check the two names are listed sorted (`C16_src_check_symm`) -/
def expected_callSites : List String :=
  ["tempest/mcmc.py check_bounds(#, periodic, reflective)",
   "tempest/mcmc.py apply_boundary_conditions(#, periodic, reflective)",
   "tempest/mcmc.py apply_boundary_conditions(#, periodic, reflective)"]

theorem C16_src_callSites : Gen.BoundarySrc.callSites = expected_callSites := by decide

end Props.C16Src
