import TempestVerif.Props.C16
import TempestVerif.Props.C07SM
import TempestVerif.Model.RecSM2
/-
  C07 (clause audit) — "its unit-cube coordinates lie in [0,1]^d": the hypothesis `hfold` of the run theorems of
  `Props.C07SM` (a proposal that passed the bounds check after the boundary fold lies in the cube) is DISCHARGED
  here for the real maps `Model.Boundary.apply` / `checkBounds` (C16), in exact arithmetic and in rounded
  arithmetic (`RR r`: any monotone idempotent rounding fixing 0 and 1, binary64 included), and the run theorem
  is instantiated with them.  What remains an assumption is that `np.random.rand` returns numbers in [0,1).
-/
namespace Props.C07Cube
open Model.Boundary Model.RecSM Props.C07SM

/-- every coordinate lies in the closed unit interval -/
def InCube {α : Type} [Sc α] (u : List α) : Prop := ∀ x ∈ u, inUnit x = true

theorem inCube_real_iff (u : List ℝ) : InCube u ↔ ∀ x ∈ u, 0 ≤ x ∧ x ≤ 1 := by
  simp [InCube, inUnit]

/-- exact arithmetic: after `apply_boundary_conditions`, a point accepted by `check_bounds` lies in [0,1]^d
    (designated coordinates by the fold, the others by the check) -/
theorem C07_fold_check_in_cube (per refl : List Nat) (raw : List ℝ)
    (h : checkBounds per refl (apply per refl raw) = true) : InCube (apply per refl raw) := by
  rw [inCube_real_iff]
  intro x hx
  obtain ⟨i, hi, rfl⟩ := List.getElem_of_mem hx
  by_cases hd : i ∈ per ∨ i ∈ refl
  · exact Props.C16.C16_apply_range per refl raw i _ hd (List.getElem?_eq_getElem hi)
  · rw [not_or] at hd
    exact (Props.C16.C16_checkBounds_iff per refl _).mp h i hi hd.1 hd.2

/-- the same in rounded arithmetic (a periodic coordinate may come out as exactly 1: still in the cube) -/
theorem C07_fold_check_in_cube_round (r : Rounding) (per refl : List Nat) (raw : List (RR r))
    (h : checkBounds per refl (apply per refl raw) = true) : InCube (apply per refl raw) := by
  intro x hx
  obtain ⟨i, hi, rfl⟩ := List.getElem_of_mem hx
  by_cases hd : i ∈ per ∨ i ∈ refl
  · have := Props.C16.C16_round_apply_range r per refl raw i _ hd (List.getElem?_eq_getElem hi)
    simp [inUnit, this.1, this.2]
  · rw [not_or] at hd
    exact (Props.C16.C16_checkBounds_iff_generic per refl _).mp h i hi hd.1 hd.2

/-- the walker's own position substituted for a rejected proposal needs no check: it is in the cube by the invariant.
    Together: EVERY point `prior_transform` / `log_likelihood` are evaluated at during mutation lies in the cube -/
theorem C07_evaluated_points_in_cube (per refl : List Nat) (raws : List (List ℝ)) (cur : List (List ℝ))
    (hcur : ∀ u ∈ cur, InCube u) :
    ∀ u ∈ substitute (raws.map (apply per refl)) ((raws.map (apply per refl)).map (checkBounds per refl)) cur,
      InCube u := by
  intro u hu
  rcases substitute_mem _ _ _ u hu with ⟨i, h1, h2⟩ | hmem
  · simp only [List.getElem?_map, Option.map_eq_some_iff] at h1 h2
    obtain ⟨a, ha, rfl⟩ := h1
    obtain ⟨b, ⟨a', ha', rfl⟩, hb2⟩ := h2
    rw [ha] at ha'
    obtain rfl := Option.some.inj ha'
    exact C07_fold_check_in_cube per refl _ hb2
  · exact hcur u hmem

variable {X L B : Type}

/-- C07 over a whole run with the REAL boundary maps (exact arithmetic): no hypothesis about proposals is left — only
    that the prior draws (`np.random.rand`) lie in the cube -/
theorem C07_sm_run_boundary (T : List ℝ → X) (Lk : X → L × B) (cfg : Cfg) (hg : GateOk cfg) (isInf : L → Bool)
    (per refl : List Nat) (ts : List (TapeR (List ℝ))) {s' : St (List ℝ) X L B} {rets : List (Cur (List ℝ) X L B)}
    (hts : ∀ t ∈ ts, TapeOk InCube t)
    (h : runItersR cfg T Lk isInf (apply per refl) (checkBounds per refl) init ts = some (s', rets)) :
    Inv T Lk InCube cfg s' ∧ rets.length = ts.length ∧ ∀ c ∈ rets, CurCoh T Lk InCube cfg c :=
  C07_sm_run_fresh T Lk InCube cfg hg isInf _ _ (fun p hp => C07_fold_check_in_cube per refl p hp) ts hts h

/-- … and in rounded arithmetic -/
theorem C07_sm_run_boundary_round (r : Rounding) (T : List (RR r) → X) (Lk : X → L × B) (cfg : Cfg) (hg : GateOk cfg)
    (isInf : L → Bool) (per refl : List Nat) (ts : List (TapeR (List (RR r)))) {s' : St (List (RR r)) X L B}
    {rets : List (Cur (List (RR r)) X L B)} (hts : ∀ t ∈ ts, TapeOk InCube t)
    (h : runItersR cfg T Lk isInf (apply per refl) (checkBounds per refl) init ts = some (s', rets)) :
    Inv T Lk InCube cfg s' ∧ rets.length = ts.length ∧ ∀ c ∈ rets, CurCoh T Lk InCube cfg c :=
  C07_sm_run_fresh T Lk InCube cfg hg isInf _ _ (fun p hp => C07_fold_check_in_cube_round r per refl p hp) ts hts h

/-- non-vacuity of the bounds-check hypothesis: a folded periodic coordinate and an untouched one inside the cube -/
example : checkBounds [0] [] (apply [0] [] [(5 / 4 : ℝ), 1 / 2]) = true ∧
    InCube (apply [0] [] [(5 / 4 : ℝ), 1 / 2]) := by
  have h : checkBounds [0] [] (apply [0] [] [(5 / 4 : ℝ), 1 / 2]) = true := by
    rw [Props.C16.C16_checkBounds_iff]
    intro i hi h1 h2
    have hl : (apply [0] [] [(5 / 4 : ℝ), 1 / 2]).length = 2 := by simp [Props.C16.C16_apply_length]
    have : i = 1 := by
      rw [hl] at hi
      have : i ≠ 0 := by simpa using h1
      omega
    subst this
    simp [apply]
    norm_num
  exact ⟨h, C07_fold_check_in_cube _ _ _ h⟩

end Props.C07Cube
