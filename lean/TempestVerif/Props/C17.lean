import TempestVerif.Model.StateMgr
import TempestVerif.Lemmas.StateMgr
/-
  C17 — No array obtained through a public accessor shares memory with internal state, so mutating it never
  changes any later result; committed history is append-only.

  Model: `Model/StateMgr.lean` (heap of arrays, `StateManager` as it manipulates references; the code as of the
  `fix:` commits that made `to_dict()` / `compute_results()` hand out copies and `update_from_dict()` / `from_dict()`
  store copies).  Vocabulary (Lemmas/StateMgr.lean):
    reach s        addresses reachable from `_current ∪ _history ∪ _results_dict`
    s.escaped      (ghost) addresses of arrays the caller holds: returned by an accessor, or created by the caller
                   (this includes every array inside a dictionary the caller passes to `update_from_dict`)
    s.imported     (ghost) addresses the caller holds that were stored by reference into `_current` at its request:
                   `set_current/update_current(copy=False)` only
    poke / scribble  the caller overwrites an array it holds
    observe s      payloads of everything readable: current values, every history entry, `compute_results()`,
                   `compute_logw_and_logz()`
-/
namespace Props.C17
open Model.StateMgr

/-- every internally reachable array is allocated, and it is not one the caller holds — except, in `_current` only,
    those the caller itself asked to be stored by reference with `copy=False`:
      current ∩ escaped ⊆ imported,      (history ∪ cache) ∩ escaped = ∅.
    Arrays that the caller passes into `update_from_dict` (new ones, or the arrays of an exported dictionary) are
    caller-held addresses like any other: they are never reachable afterwards. -/
def Inv (s : State) : Prop :=
  (∀ a : Nat, a ∈ reach s → a < s.next) ∧
  (∀ a : Nat, a ∈ s.escaped → a < s.next) ∧
  (∀ a : Nat, a ∈ dictAddrs s.current → a ∈ s.escaped → a ∈ s.imported) ∧
  (∀ a : Nat, a ∈ histAddrs s.history ∨ a ∈ cacheAddrs s.cache → a ∉ s.escaped)

theorem C17_inv_iff (s : State) : Inv s ↔ Model.StateMgr.Inv s :=
  ⟨fun h => ⟨h.1, h.2.1, h.2.2.1, h.2.2.2⟩, fun h => ⟨h.reach_lt, h.esc_lt, h.sep, h.sepH⟩⟩

/-- the form asked for: reachable ∩ escaped ⊆ imported, and the shared array is then reachable from `_current` only -/
theorem C17_inv_sep (s : State) (h : Inv s) (a : Nat) (hr : a ∈ reach s) (he : a ∈ s.escaped) :
    a ∈ s.imported ∧ a ∈ dictAddrs s.current ∧ a ∉ histAddrs s.history ∧ a ∉ cacheAddrs s.cache := by
  have hh : a ∉ histAddrs s.history ∧ a ∉ cacheAddrs s.cache :=
    ⟨fun x => h.2.2.2 a (Or.inl x) he, fun x => h.2.2.2 a (Or.inr x) he⟩
  rcases mem_reach.1 hr with h1 | h1 | h1
  · exact ⟨h.2.2.1 a h1 he, h1, hh⟩
  · exact absurd h1 hh.1
  · exact absurd h1 hh.2

/-- what `reach` means -/
theorem C17_reach_iff (s : State) (a : Nat) :
    a ∈ reach s ↔ (∃ k, (k, Val.ref a) ∈ s.current) ∨ (∃ k l, (k, l) ∈ s.history ∧ Val.ref a ∈ l) ∨
      (∃ c k, s.cache = some c ∧ (k, Val.ref a) ∈ c) := by
  rw [mem_reach, mem_dictAddrs, mem_histAddrs]
  cases hc : s.cache with
  | none => simp [cacheAddrs]
  | some c => simp [cacheAddrs, mem_dictAddrs]

/-- the invariant is preserved by every operation of the full alphabet (set/update with either copy flag, all
    getters, commit, `compute_results`, `compute_logw_and_logz`, `to_dict`, `update_from_dict`, and the caller's
    in-place writes) -/
theorem C17_step_inv (s : State) (o : Op) (h : Inv s) : Inv (step s o).1 :=
  (C17_inv_iff _).2 (step_inv s o ((C17_inv_iff s).1 h))

/-- hence it holds after every operation sequence from a fresh `StateManager` -/
theorem C17_reachable_inv (ops : List Op) : Inv (run init ops) :=
  (C17_inv_iff _).2 (run_inv ops init init_inv)

/-- ghost bookkeeping is complete: whatever an operation returns is recorded as held by the caller -/
theorem C17_returned_is_escaped (s : State) (o : Op) (b : Nat) (hb : b ∈ (step s o).2.addrs) :
    b ∈ (step s o).1.escaped :=
  step_res_escaped s o b hb

/-- accessors only hand out arrays allocated during the call: never an array that existed before -/
theorem C17_returned_is_fresh (s : State) (o : Op) (b : Nat) (hb : b ∈ (step s o).2.addrs) : s.next ≤ b :=
  step_res_fresh s o b hb

/-- no returned array is reachable from internal state afterwards (as long as the caller never opted into sharing) -/
theorem C17_returned_not_internal (s : State) (o : Op) (h : Inv s) (hopt : o.optIn = false) (himp : s.imported = [])
    (b : Nat) (hb : b ∈ (step s o).2.addrs) : b ∉ reach (step s o).1 := by
  have hI := step_inv s o ((C17_inv_iff s).1 h)
  exact not_reach_of_inv hI (step_res_escaped s o b hb) (by rw [step_imported s o hopt, himp]; simp)

/-- overwriting an array the caller holds — other than one it stored with `copy=False` — changes no observable read -/
theorem C17_read_indep_of_scribble (s : State) (a : Addr) (p : Content) (h : Inv s)
    (hesc : a ∈ s.escaped) (himp : a ∉ s.imported) :
    observe (step s (.scribble a p)).1 = observe s := by
  have hI := (C17_inv_iff s).1 h
  have hstep : (step s (.scribble a p)).1 = poke s a (some p) := by
    simp [step, hesc, poke]
  rw [hstep]
  exact observe_poke (hI.esc_lt a hesc) (not_reach_of_inv hI hesc himp)

/-- NO array the caller holds — not even one stored with `copy=False`, not one it passed into `update_from_dict` — is
    shared with committed history or with the results: overwriting it leaves every history read, `compute_results()`
    and `compute_logw_and_logz()` unchanged -/
theorem C17_history_indep_of_scribble (s : State) (a : Addr) (p : Content) (h : Inv s)
    (hesc : a ∈ s.escaped) :
    (observe (step s (.scribble a p)).1).history = (observe s).history ∧
    (observe (step s (.scribble a p)).1).results = (observe s).results ∧
    (observe (step s (.scribble a p)).1).logw = (observe s).logw := by
  have hI := (C17_inv_iff s).1 h
  have hstep : (step s (.scribble a p)).1 = poke s a (some p) := by
    simp [step, hesc, poke]
  rw [hstep]
  exact observe_poke_hist (hI.esc_lt a hesc) (fun hr => hI.sepH a (Or.inl hr) hesc)
    (fun hr => hI.sepH a (Or.inr hr) hesc)

/-- `compute_logw_and_logz` is an accessor like the others: what it returns is a new array, recorded as held by the
    caller, not reachable from internal state (in particular not from any cache), and calling it changes no read -/
theorem C17_logw_is_fresh (s : State) (beta : Int) (h : Inv s) :
    ∃ a : Nat, (step s (.logw beta)).2 = .val (.ref a) ∧ a = s.next ∧ a ∈ (step s (.logw beta)).1.escaped ∧
      a ∉ reach (step s (.logw beta)).1 ∧
      (step s (.logw beta)).1.current = s.current ∧ (step s (.logw beta)).1.history = s.history ∧
      (step s (.logw beta)).1.cache = s.cache := by
  have hI := (C17_inv_iff s).1 h
  refine ⟨s.heap.length, rfl, rfl, by simp [step], ?_, rfl, rfl, rfl⟩
  intro hr
  have : s.heap.length ∈ reach s := hr
  have := hI.reach_lt _ this
  omega

/-- `imported` grows only through the opt-in operations … -/
theorem C17_copy_false_is_opt_in (s : State) (o : Op) (ho : o.optIn = false) : (step s o).1.imported = s.imported :=
  step_imported s o ho

/-- … which are exactly `set_current(copy=False)` and `update_current(copy=False)` (`update_from_dict` is not one) -/
theorem C17_opt_in_ops (o : Op) :
    o.optIn = true ↔ (∃ k x, o = .setCurrent k x false) ∨ (∃ kvs, o = .updateCurrent kvs false) := by
  cases o <;> simp [Op.optIn]

/-- `update_from_dict` (hence `from_dict`) stores copies.  Every array in the dictionary the caller passes — one it
    obtained earlier (`held`, e.g. the arrays of an exported dictionary) or one it creates for the call — is a
    caller-held address afterwards, `imported` does not grow, and no caller-held address is reachable from `_history`
    or the cache; one reachable from `_current` was put there by an earlier `copy=False`. -/
theorem C17_import_never_aliases (s : State) (cur : Option (List (Key × Arg))) (hist : Option (List (Key × List Arg)))
    (h : Inv s) (hok : (step s (.updateFromDict cur hist)).2 = .unit) :
    (step s (.updateFromDict cur hist)).1.imported = s.imported ∧
    (∀ a : Nat, a ∈ (Op.updateFromDict cur hist).heldAddrs → a ∈ (step s (.updateFromDict cur hist)).1.escaped) ∧
    (∀ a : Nat, a ∈ (step s (.updateFromDict cur hist)).1.escaped →
      a ∉ histAddrs (step s (.updateFromDict cur hist)).1.history ∧
      a ∉ cacheAddrs (step s (.updateFromDict cur hist)).1.cache ∧
      (a ∈ dictAddrs (step s (.updateFromDict cur hist)).1.current → a ∈ s.imported)) := by
  have hI' := step_inv s (.updateFromDict cur hist) ((C17_inv_iff s).1 h)
  have himp := step_imported s (.updateFromDict cur hist) rfl
  refine ⟨himp, fun a ha => ?_, fun a ha => ⟨fun x => hI'.sepH a (Or.inl x) ha, fun x => hI'.sepH a (Or.inr x) ha,
    fun x => by rw [← himp]; exact hI'.sep a x ha⟩⟩
  apply step_escaped_mono
  by_cases hl : (dictLegal s.escaped (entries cur) && histLegal s.escaped (entries hist)) = true
  · simp only [Bool.and_eq_true] at hl
    simp only [Op.heldAddrs, List.mem_append] at ha
    rcases ha with ha | ha
    · exact dictLegal_held hl.1 a ha
    · exact histLegal_held hl.2 a ha
  · simp [step, hl] at hok

/-- Combined statement.  Take any operation sequence in which the caller never stores with `copy=False` and never passes
    back in an array after having overwritten it (`okSeq`; everything else is allowed: new arrays, arrays it obtained
    earlier, re-importing an exported dictionary), interleaved with arbitrary in-place writes to arrays it holds
    (`scribble`, any address, any payload, at any time — in particular to the exported dictionary after importing it).
    Then everything the caller ever sees — the payload of every returned value and all observable reads after every
    operation — is exactly what it sees when the writes are left out. -/
theorem C17_full (ops : List Op) (h : okSeq [] ops = true) :
    trace init ops = trace init (ops.filter (fun o => !o.isScribble)) :=
  trace_pokeMany ops init [] [] init_inv rfl (fun _ h => by cases h) h

/-- special case: the caller passes only `None`, scalars or arrays it creates for the call -/
theorem C17_full_clean (ops : List Op) (h : ∀ o ∈ ops, o.isScribble = true ∨ o.clean = true) :
    trace init ops = trace init (ops.filter (fun o => !o.isScribble)) :=
  C17_full ops (okSeq_of_clean h [])

theorem C17_commitKeys (k : Key) : k ∈ commitKeys ↔ k ∈ currentKeys ∧ k ∈ historyKeys := by
  simp [commitKeys]

/-- a successful commit appends to the history list of key `k` exactly one entry — carrying the payload of the
    current value — when `k` is a current key and a history key and its current value is not `None`; it appends
    nothing otherwise; earlier entries keep their payloads -/
theorem C17_commit_appends_one (s : State) (strict : Bool) (h : Inv s)
    (hok : (step s (.commit strict)).2 = .unit) (k : Key) (l : List Val) (hl : lookup k s.history = some l) :
    ∃ ext : List Val,
      lookup k (step s (.commit strict)).1.history = some (l ++ ext) ∧
      l.map (deref (step s (.commit strict)).1.heap) = l.map (deref s.heap) ∧
      ext.map (deref (step s (.commit strict)).1.heap) =
        (if k ∈ commitKeys then
          match lookup k s.current with
          | some v => if v = Val.none then [] else [deref s.heap v]
          | none => []
         else []) := by
  have hI := (C17_inv_iff s).1 h
  have hcur : ∀ b : Nat, b ∈ dictAddrs s.current → b < s.heap.length :=
    fun b hb => hI.reach_lt b (mem_reach.2 (Or.inl hb))
  have hlist : ∀ b : Nat, b ∈ listAddrs l → b < s.heap.length := fun b hb =>
    hI.reach_lt b (mem_reach.2 (Or.inr (Or.inl (mem_histAddrs.2 ⟨k, l, lookup_mem hl, mem_listAddrs.1 hb⟩))))
  have hnd : commitKeys.Nodup := by decide
  obtain ⟨ext, e1, _, e3⟩ := commitLoop_history hnd s hcur k
  have hfr := (commitLoop_frame commitKeys s).2.2.2.2
  by_cases hc : (strict && (isNone (lookup "beta" s.current) || isNone (lookup "logl" s.current))) = true
  · simp [step, hc] at hok
  · have hst : (step s (.commit strict)).1 = { commitLoop commitKeys s with cache := none } := by
      simp [step, hc]
    rw [hst]
    refine ⟨ext, ?_, ?_, ?_⟩
    · simp only [e1, hl, Option.map_some]
    · exact derefList_ext hfr hlist
    · exact e3

/-- append-only: for every operation other than `update_from_dict` (which replaces history by design), including ANY
    in-place write by the caller, the old history of every key — as payloads — is a prefix of the new one -/
theorem C17_history_prefix_stable (s : State) (o : Op) (h : Inv s) (hni : o.isImport = false)
    (k : Key) (l : List Val) (hl : lookup k s.history = some l) :
    ∃ l' : List Val, lookup k (step s o).1.history = some l' ∧
      l.map (deref s.heap) <+: l'.map (deref (step s o).1.heap) := by
  have hI := (C17_inv_iff s).1 h
  have hlist : ∀ b : Nat, b ∈ listAddrs l → b < s.heap.length := fun b hb =>
    hI.reach_lt b (mem_reach.2 (Or.inr (Or.inl (mem_histAddrs.2 ⟨k, l, lookup_mem hl, mem_listAddrs.1 hb⟩))))
  cases hsc : o.isScribble with
  | true =>
    cases o with
    | scribble a p =>
      by_cases hm : a ∈ s.escaped
      · have hst : (step s (.scribble a p)).1 = poke s a (some p) := by simp [step, hm, poke]
        have hnot : a ∉ listAddrs l := fun hb =>
          hI.sepH a (Or.inl (mem_histAddrs.2 ⟨k, l, lookup_mem hl, mem_listAddrs.1 hb⟩)) hm
        rw [hst]
        exact ⟨l, hl, by simp only [poke, derefList_set hnot]; exact List.prefix_refl _⟩
      · have hst : (step s (.scribble a p)).1 = s := by simp [step, hm]
        rw [hst]
        exact ⟨l, hl, List.prefix_refl _⟩
    | _ => simp [Op.isScribble] at hsc
  | false =>
    have hext := step_ext s o hsc
    cases hcm : o.isCommit with
    | false =>
      refine ⟨l, by rw [step_history_eq s o hcm hni]; exact hl, ?_⟩
      rw [derefList_ext hext hlist]
      exact List.prefix_refl _
    | true =>
      cases o with
      | commit strict =>
        by_cases hc : (strict && (isNone (lookup "beta" s.current) || isNone (lookup "logl" s.current))) = true
        · have hst : (step s (.commit strict)).1 = s := by simp [step, hc]
          rw [hst]
          exact ⟨l, hl, List.prefix_refl _⟩
        · have hok : (step s (.commit strict)).2 = .unit := by simp [step, hc]
          obtain ⟨ext, e1, e2, _⟩ := C17_commit_appends_one s strict h hok k l hl
          refine ⟨l ++ ext, e1, ?_⟩
          rw [List.map_append, e2]
          exact List.prefix_append _ _
      | _ => simp [Op.isCommit] at hcm

/-- the results cache never outlives the history it was computed from: an operation either leaves `_history` as it
    is or leaves the cache empty (`_invalidate_cache`), so a cached `compute_results()` is never stale w.r.t. commits/imports -/
theorem C17_history_change_invalidates_cache (s : State) (o : Op) :
    (step s o).1.history = s.history ∨ (step s o).1.cache = none := by
  cases hcm : o.isCommit with
  | false =>
    cases him : o.isImport with
    | false => exact Or.inl (step_history_eq s o hcm him)
    | true =>
      cases o with
      | updateFromDict cur hist => simp only [step]; split <;> simp
      | _ => simp [Op.isImport] at him
  | true =>
    cases o with
    | commit strict => simp only [step]; split <;> simp
    | _ => simp [Op.isCommit] at hcm

/-! ### non-vacuity: concrete runs that satisfy the hypotheses -/

/-- set → set → commit → to_dict : address 0 is the caller's own array, 1 the stored copy, 2 the committed batch,
    3 and 4 the exported copies -/
def demo : List Op :=
  [.setCurrent "u" (.fresh [3, 4]) true, .setCurrent "beta" (.scalar 1) true, .commit false, .toDict]

example : Inv (run init demo) := C17_reachable_inv demo
example : (run init demo).escaped = [3, 4, 0] ∧ (run init demo).imported = [] ∧
    reach (run init demo) = [1, 2] := by decide
example : lookup "u" (observe (run init demo)).history = some [PVal.arr [3, 4]] := by decide

/-- `C17_read_indep_of_scribble` applies to the exported batch (address 4), and the reads it protects are not trivial -/
example : observe (step (run init demo) (.scribble 4 [-9, -9])).1 = observe (run init demo) :=
  C17_read_indep_of_scribble _ 4 [-9, -9] (C17_reachable_inv demo) (by decide) (by decide)

/-- the exclusion of `imported` is necessary: with `copy=False` the same write is visible (that is the opt-in) -/
example : observe (run init [.setCurrent "u" (.fresh [3, 4]) false, .scribble 0 [-9, -9]]) ≠
          observe (run init [.setCurrent "u" (.fresh [3, 4]) false]) := by decide

/-- … but even then committed history is not shared (`C17_history_indep_of_scribble`): address 0 is in `_current`
    by reference, the committed batch is a copy -/
def demoShare : List Op := [.setCurrent "u" (.fresh [3, 4]) false, .commit false]
example : (run init demoShare).imported = [0] ∧ lookup "u" (run init demoShare).current = some (Val.ref 0) := by decide
example : (observe (step (run init demoShare) (.scribble 0 [-9, -9])).1).history = (observe (run init demoShare)).history :=
  (C17_history_indep_of_scribble _ 0 [-9, -9] (C17_reachable_inv demoShare) (by decide)).1
example : lookup "u" (observe (step (run init demoShare) (.scribble 0 [-9, -9])).1).current = some (PVal.arr [-9, -9]) ∧
          lookup "u" (observe (step (run init demoShare) (.scribble 0 [-9, -9])).1).history = some [PVal.arr [3, 4]] := by
  decide

/-- export → re-import of the exported dictionary itself (its arrays are addresses 3 and 4) → the caller overwrites
    both: `C17_import_never_aliases` applies (the import succeeds), 3 and 4 stay caller-held, nothing internal points
    to them, and the writes change no read -/
def demoImport : List Op :=
  demo ++ [.updateFromDict (some [("u", .held 3), ("beta", .scalar 1)]) (some [("u", [.held 4]), ("beta", [.scalar 1])])]
example : (step (run init demo) (.updateFromDict (some [("u", .held 3), ("beta", .scalar 1)])
    (some [("u", [.held 4]), ("beta", [.scalar 1])]))).2 = .unit := by decide
example : (run init demoImport).escaped = [3, 4, 0] ∧ (run init demoImport).imported = [] ∧
    reach (run init demoImport) = [5, 6] := by decide
example : observe (run init (demoImport ++ [.scribble 3 [-9, -9], .scribble 4 [-9, -9]])) = observe (run init demoImport) ∧
    lookup "u" (observe (run init demoImport)).history = some [PVal.arr [3, 4]] := by decide

/-- `C17_full` covers that sequence too (the dictionary is passed back in before it is overwritten), but not one in
    which the caller overwrites an array and then passes it in (`okSeq` is false: the caller changed its own input) -/
example : trace init (demoImport ++ [.scribble 3 [-9, -9], .scribble 4 [-9, -9], .getHistory "u" (some 0) false,
      .getCurrent (some "u"), .computeResults]) =
    trace init (demoImport ++ [.getHistory "u" (some 0) false, .getCurrent (some "u"), .computeResults]) :=
  C17_full _ (by decide)
example : okSeq [] (demo ++ [.scribble 3 [-9, -9], .updateFromDict (some [("u", .held 3)]) none]) = false := by decide

/-- `C17_full` on a sequence with interleaved writes to everything the caller was given -/
def demoFull : List Op :=
  demo ++ [.scribble 3 [-9, -9], .scribble 4 [-9, -9], .scribble 0 [7, 7], .getCurrent (some "u"),
           .getHistory "u" (some 0) false, .scribble 5 [0, 0], .computeResults, .logw 1, .scribble 33 [],
           .logw 1, .getLastHistory "u"]

example : trace init demoFull = trace init (demoFull.filter (fun o => !o.isScribble)) :=
  C17_full_clean demoFull (by decide)
example : (trace init demoFull).length = 10 := by decide

/-- `C17_commit_appends_one` / `C17_history_prefix_stable`: a second commit on `demo` -/
example : lookup "u" (step (run init demo) (.commit false)).1.history = some [Val.ref 2, Val.ref 5] ∧
          lookup "x" (step (run init demo) (.commit false)).1.history = some [] ∧
          (step (run init demo) (.commit false)).2 = .unit := by decide

end Props.C17
