import TempestVerif.Lemmas.StateMgrN
/-
  C17 for NESTED values (clause audit): object-dtype arrays, lists, dicts — containers whose elements are references to
  further arrays.  Model: `Model/StateMgrN.lean` (heap of `data | objs | opaque` cells, each with a ghost owner
  `lib | usr`; every copy the manager makes goes through `copyVal deep`).  `deep = true` is the code as it is since
  b0f244e (`copy.deepcopy` for object arrays / list / tuple / dict; `get_history` deep-copies an object-dtype stack);
  `deep = false` is the rule before it, kept for the counter-example.

  Vocabulary (Lemmas/StateMgrN.lean):
    Inv s            `_history` and the results cache point to library-owned cells only, `_current` too unless the caller
                     stored its own object with `copy=False` (ghost `imported`), and every element of a library-owned
                     container is library-owned
    Agree h g        g is h after the caller wrote into cells it owns
    observe          payloads of all current values, all history entries, and of what `compute_results()` returns
-/
namespace Props.C17N
open Model.StateMgr (Addr Content Key Val lookup dictAddrs listAddrs histAddrs cacheAddrs)
open Model.StateMgrN

/-- the invariant, spelled out -/
def Inv (s : State) : Prop :=
  (∀ a : Nat, a ∈ dictAddrs s.current → ownerAt s.heap a = some .lib ∨ a ∈ s.imported) ∧
  (∀ a : Nat, a ∈ histAddrs s.history → ownerAt s.heap a = some .lib) ∧
  (∀ a : Nat, a ∈ cacheAddrs s.cache → ownerAt s.heap a = some .lib) ∧
  (∀ (a : Nat) (es : List Val), s.heap[a]? = some ⟨.objs es, .lib⟩ → ∀ b : Nat, b ∈ listAddrs es → ownerAt s.heap b = some .lib)

theorem C17N_inv_iff (s : State) : Inv s ↔ Model.StateMgrN.Inv s :=
  ⟨fun h => ⟨h.1, h.2.1, h.2.2.1, h.2.2.2⟩, fun h => ⟨h.cur, h.hist, h.cache, h.closed⟩⟩

/-- preserved by every operation of the alphabet: set (either copy flag, nested arguments included), all getters, commit,
    `compute_results`, `to_dict`, `update_from_dict`, and the caller's writes into arrays and into containers -/
theorem C17N_step_inv (s : State) (o : Op) (h : Inv s) : Inv (step true s o).1 :=
  (C17N_inv_iff _).2 (step_inv s o ((C17N_inv_iff s).1 h))

theorem C17N_reachable_inv (ops : List Op) : Inv (run true init ops) :=
  (C17N_inv_iff _).2 (run_inv ops init init_inv)

/-- Internal state is library-owned down to the elements: a root of `_history` / the cache (and of `_current`, when the
    caller never used `copy=False`), and every array inside a container such a root refers to. -/
theorem C17N_internal_is_library_owned (s : State) (h : Inv s) (a : Nat)
    (ha : a ∈ histAddrs s.history ∨ a ∈ cacheAddrs s.cache ∨ (a ∈ dictAddrs s.current ∧ s.imported = [])) :
    ownerAt s.heap a = some .lib ∧ ∀ b : Nat, b ∈ kids s.heap a → ownerAt s.heap b = some .lib := by
  have hlib : ownerAt s.heap a = some .lib := by
    rcases ha with ha | ha | ⟨ha, himp⟩
    · exact h.2.1 a ha
    · exact h.2.2.1 a ha
    · rcases h.1 a ha with h1 | h1
      · exact h1
      · rw [himp] at h1; cases h1
  refine ⟨hlib, fun b hb => ?_⟩
  obtain ⟨es, hes, hbe⟩ := kids_mem hb
  exact h.2.2.2 a es (cell_of_body_owner hes hlib) b hbe

/-- What an operation returns is allocated by that call and caller-owned, down to the elements. -/
theorem C17N_returned_is_new_and_caller_owned (s : State) (o : Op) (a : Nat) (ha : a ∈ (step true s o).2.addrs) :
    (s.heap.length ≤ a ∧ ownerAt (step true s o).1.heap a = some .usr) ∧
    ∀ b : Nat, b ∈ kids (step true s o).1.heap a → s.heap.length ≤ b ∧ ownerAt (step true s o).1.heap b = some .usr :=
  step_res_new s o a ha

/-- Hence no cell — container or element — of a returned value is a cell of internal state (history, cache; current too
    when `copy=False` was never used). -/
theorem C17N_returned_shares_nothing (s : State) (o : Op) (h : Inv s) (a : Nat) (ha : a ∈ (step true s o).2.addrs)
    (x : Nat) (hx : x = a ∨ x ∈ kids (step true s o).1.heap a)
    (r : Nat) (hr : r ∈ histAddrs (step true s o).1.history ∨ r ∈ cacheAddrs (step true s o).1.cache ∨
      (r ∈ dictAddrs (step true s o).1.current ∧ (step true s o).1.imported = [])) :
    x ≠ r ∧ x ∉ kids (step true s o).1.heap r := by
  have hI := C17N_step_inv s o h
  have hint := C17N_internal_is_library_owned _ hI r hr
  have hret := step_res_new s o a ha
  have hxu : ownerAt (step true s o).1.heap x = some .usr := by
    rcases hx with hx | hx
    · subst hx; exact hret.1.2
    · exact (hret.2 x hx).2
  refine ⟨fun heq => ?_, fun hk => ?_⟩
  · subst heq
    rw [hint.1] at hxu
    cases hxu
  · have := hint.2 x hk
    rw [this] at hxu
    cases hxu

/-- The caller overwrites the buffer of an array it owns (possibly an element of a container it was handed): nothing
    readable changes. -/
theorem C17N_read_indep_of_scribble (s : State) (a : Addr) (p : Content) (h : Inv s) (himp : s.imported = []) :
    observe true (step true s (.scribble a p)).1 = observe true s := by
  simp only [step]
  split
  · rename_i heq
    exact observe_agree ((C17N_inv_iff s).1 h) himp (agree_set_usr heq)
  · rfl

/-- The caller overwrites every element of a container it owns (`o[...] = x`): nothing readable changes. -/
theorem C17N_read_indep_of_scribbleElems (s : State) (a : Addr) (x : Int) (h : Inv s) (himp : s.imported = []) :
    observe true (step true s (.scribbleElems a x)).1 = observe true s := by
  simp only [step]
  split
  · rename_i heq
    exact observe_agree ((C17N_inv_iff s).1 h) himp (agree_set_usr heq)
  · rfl

/-- Even after `copy=False` stores: committed history and results never depend on anything the caller can write. -/
theorem C17N_history_indep_of_caller_writes (s : State) (o : Op) (h : Inv s)
    (ho : (∃ a p, o = .scribble a p) ∨ (∃ a x, o = .scribbleElems a x)) :
    (observe true (step true s o).1).history = (observe true s).history ∧
    (observe true (step true s o).1).results = (observe true s).results := by
  rcases ho with ⟨a, p, rfl⟩ | ⟨a, x, rfl⟩
  · simp only [step]
    split
    · rename_i heq
      exact observe_agree_hist ((C17N_inv_iff s).1 h) (agree_set_usr heq)
    · exact ⟨rfl, rfl⟩
  · simp only [step]
    split
    · rename_i heq
      exact observe_agree_hist ((C17N_inv_iff s).1 h) (agree_set_usr heq)
    · exact ⟨rfl, rfl⟩

/-- Append-only with nested values: for every operation other than `update_from_dict` — the caller's writes included —
    the history list of every key keeps its entries (the same cells, in the same order, new ones only at the end) and
    every old entry keeps its payload, elements of containers included. -/
theorem C17N_history_prefix_stable (s : State) (o : Op) (h : Inv s) (hni : o.isImport = false)
    (k : Key) (l : List Val) (hl : lookup k s.history = some l) :
    ∃ ext : List Val, lookup k (step true s o).1.history = some (l ++ ext) ∧
      l.map (deref (step true s o).1.heap) = l.map (deref s.heap) := by
  have hI := (C17N_inv_iff s).1 h
  have hpay : l.map (deref (step true s o).1.heap) = l.map (deref s.heap) :=
    derefList_libSame (step_libSame s o) hI.closed l (fun a ha =>
      hI.hist a (Model.StateMgr.mem_histAddrs.2 ⟨k, l, Model.StateMgr.lookup_mem hl, Model.StateMgr.mem_listAddrs.1 ha⟩))
  cases hcm : o.isCommit with
  | false => exact ⟨[], by rw [step_history_eq s o hcm hni]; simpa using hl, hpay⟩
  | true =>
    cases o with
    | commit strict =>
      by_cases hc : (strict && (Model.StateMgr.isNone (lookup "beta" s.current) || Model.StateMgr.isNone (lookup "logl" s.current))) = true
      · have hst : (step true s (.commit strict)).1 = s := by simp [step, hc]
        rw [hst] at hpay ⊢
        exact ⟨[], by simpa using hl, hpay⟩
      · obtain ⟨ext, he⟩ := commitLoop_history Model.StateMgr.commitKeys s k
        refine ⟨ext, ?_, hpay⟩
        simp only [step, hc, Bool.false_eq_true, if_false]
        rw [he, hl]; rfl
    | _ => simp [Op.isCommit] at hcm

/-! ### the rule before b0f244e (`deep = false`): a copy of a container keeps the element references -/

/-- set an object array holding one array → commit → `get_history(key, 0)` → the caller writes into the element it
    finds in the returned container.  Cells: 0 the caller's array, 1 its container, 2 the stored container, 3 the
    committed container, 4 the returned container; under the old rule all four containers refer to cell 0. -/
def witness : List Op :=
  [.setCurrent "blobs" (.freshObjs [.fresh [3, 4]]) true, .commit false, .getHistory "blobs" (some 0) false,
   .scribble 0 [-9, -9]]

/-- Under the shallow rule the write is visible in the committed batch (and in `_current`): the accessor handed out an
    array that IS internal state. -/
theorem C17N_old_shallow_copy_aliases :
    lookup "blobs" (observe false (run false init witness)).history = some [PVal.objs [P1.arr [-9, -9]]] ∧
    lookup "blobs" (observe false (run false init (witness.take 3))).history = some [PVal.objs [P1.arr [3, 4]]] ∧
    kids (run false init witness).heap 4 = [0] ∧ kids (run false init witness).heap 3 = [0] := by decide

/-- Under the deep rule the same calls leave everything as it was: the element of the returned container (cell 7) is
    cell 6, a new array; the committed container (cell 5) refers to its own copy (cell 4), the stored one (3) to cell 2. -/
theorem C17N_deep_copy_protects_witness :
    lookup "blobs" (observe true (run true init (witness.take 3 ++ [.scribble 6 [-9, -9], .scribble 0 [-9, -9]]))).history
      = some [PVal.objs [P1.arr [3, 4]]] ∧
    lookup "blobs" (observe true (run true init (witness.take 3 ++ [.scribble 6 [-9, -9], .scribble 0 [-9, -9]]))).current
      = some (PVal.objs [P1.arr [3, 4]]) ∧
    kids (run true init (witness.take 3)).heap 7 = [6] ∧ kids (run true init (witness.take 3)).heap 5 = [4] ∧
    kids (run true init (witness.take 3)).heap 3 = [2] := by decide

/-- the general theorems apply to that run: their hypotheses are met, the writes are legal caller actions, and a write
    into a library cell is not a possible caller action -/
example : observe true (step true (run true init (witness.take 3)) (.scribble 6 [-9, -9])).1 =
    observe true (run true init (witness.take 3)) :=
  C17N_read_indep_of_scribble _ 6 [-9, -9] (C17N_reachable_inv _) (by decide)
example : (step true (run true init (witness.take 3)) (.scribble 6 [-9, -9])).2 = .unit := by decide
example : (step true (run true init (witness.take 3)) (.scribbleElems 7 0)).2 = .unit := by decide
example : (step true (run true init (witness.take 3)) (.scribble 4 [-9, -9])).2 = .err .illegal := by decide
example : (run true init (witness.take 3)).imported = [] := by decide
example : (step true (run true init (witness.take 3)) (.getHistory "blobs" none true)).2.addrs = [9] ∧
    kids (step true (run true init (witness.take 3)) (.getHistory "blobs" none true)).1.heap 9 = [8] := by decide

end Props.C17N
