import TempestVerif.Props.C19Modes
import TempestVerif.Props.C14
import TempestVerif.Lemmas.GaussJordan
import TempestVerif.Model.ModeGate
/-
  C14, second pass — "… an existing proposal mode with FINITE MEAN, SYMMETRIC POSITIVE-DEFINITE SCALE MATRIX and POSITIVE
  DEGREES OF FREEDOM, and that mode was fitted from the particles of that same cluster" on the EXECUTABLE model of the
  construction: `Model.StudentModes.fromParticles / fromGlobal / trainerRun` (normalisation of the weights, per-cluster
  renormalisation, numpy's legacy `choice` on the uniform stream, gather, `fit_mvstud` = `fitRowsF` with the modelled
  median / `opt_nu` / bisect / Gauss–Jordan solve / Cholesky test, the dof fallback), tied to /repo by C19's suites
  `modes-F`, `trainer-dof-paths` and by C14's suite `trainer-modes-real`.

  What is proved here (ℝ, every `special.psi`, every weight vector, every label vector, every stream of uniforms):
    * `C14_fromParticles_valid`: mode `k` of the object handed to `ModeStatistics.__init__` is `(vecOf μ, matOf Σ, fin ν)` with
        μ inside the bounding box of the training particles CARRYING LABEL `labelsOf[k]`  (numeric form of "fitted from the
        particles of that same cluster"; in particular μ ∈ [0,1]^d for particles of the unit cube: `C14_mean_in_unit_cube`),
        Σ symmetric positive semidefinite, ν > 0 (and ν ≤ max(1e6, fallback));
        Σ is positive definite  ⇔  the constructor's gate lets it through (`pdGate`: all Gauss–Jordan pivots > 0, the exact
        criterion of LAPACK `potrf` — H_lapack as in C19, checked on the real constructor by suites 5 and 7).
    * `C14_fromGlobal_valid`, `C14_trainer_modes_valid`: the same on the no-clustering path and on all four paths of
      `Trainer.run` (the beta = 0 dummy: zero mean, identity scale, the configured fallback).
    * `C14_constructed_posDef`: composed with the constructor model of `Props.C14` (`mkModeStats`): every scale matrix of a
      mode OBJECT THAT EXISTS is positive definite — the symmetry hypothesis of `C14_scale_matrices_posDef` is discharged.
    * `C14_degenerate_cluster_refused` (finding F24, characterised): a resample that lies in an affine hyperplane (e.g. at most
      `d` distinct points) gives a singular scale matrix, the gate refuses it, no mode object exists and mutation does not run.
-/
namespace Props.C14
open Model.Student Model.StudentModes Model.ModeGate Props.C19 Matrix

/-! ### generic: what every stored mode is (any scalar type, any fit function) -/

section Generic
variable {α : Type} [Sc α]

theorem gather_mem_idx {β : Type} (a : List β) (idx : List ℕ) (rows : List β) (h : gather a idx = some rows) :
    ∀ r ∈ rows, ∃ i ∈ idx, a[i]? = some r := by
  unfold gather at h
  induction idx generalizing rows with
  | nil => simp at h; subst h; simp
  | cons i rest ih =>
    rw [List.mapM_cons] at h
    cases h1 : a[i]? with
    | none => simp [h1] at h
    | some r0 =>
      cases h2 : List.mapM (fun i => a[i]?) rest with
      | none => simp [h1, h2] at h
      | some rs =>
        simp [h1, h2] at h
        subst h
        intro r hr
        simp only [List.mem_cons] at hr
        rcases hr with rfl | hr
        · exact ⟨i, by simp, h1⟩
        · obtain ⟨j, hj, hj'⟩ := ih rs h2 r hr
          exact ⟨j, by simp [hj], hj'⟩

theorem gather_length {β : Type} (a : List β) (idx : List ℕ) (rows : List β) (h : gather a idx = some rows) :
    rows.length = idx.length := by
  unfold gather at h
  induction idx generalizing rows with
  | nil => simp at h; subst h; rfl
  | cons i rest ih =>
    rw [List.mapM_cons] at h
    cases h1 : a[i]? with
    | none => simp [h1] at h
    | some r0 =>
      cases h2 : List.mapM (fun i => a[i]?) rest with
      | none => simp [h1, h2] at h
      | some rs =>
        simp [h1, h2] at h
        subst h
        simp [ih rs h2]

/-- one resample–fit–fallback step: the fit was handed rows of the cluster `uc` only, and what is stored is its answer with
    the dof fallback applied -/
theorem fitOne_rows (fitFn : Mat α → Option (FitOut α)) (fb : α) (rf : ℕ) (uc : Mat α) (p us : List α)
    (o : FitOut α) (us' : List α) (h : fitOne fitFn fb rf uc p us = some (o, us')) :
    ∃ rows o0, (∀ r ∈ rows, r ∈ uc) ∧ fitFn rows = some o0 ∧ o = ⟨o0.mu, o0.sigma, applyFallback fb o0.dof⟩ := by
  unfold fitOne at h
  cases h1 : Model.Resample.multinomial p (us.take (uc.length * rf)) with
  | none => simp [h1] at h
  | some idx =>
    cases h2 : gather uc idx with
    | none => simp [h1, h2] at h
    | some ur =>
      cases h3 : fitFn ur with
      | none => simp [h1, h2, h3] at h
      | some o0 =>
        simp [h1, h2, h3] at h
        exact ⟨ur, o0, gather_mem uc idx ur h2, h3, h.1.symm⟩

/-- the `for label in unique_labels` loop: mode `k` is the stored answer of a fit that saw only rows of the particles carrying
    the `k`-th label -/
theorem clusterLoop_each (P : Mat α → FitOut α → Prop) (u : Mat α) (wn : List α) (labels : List ℕ) (fb : α) (rf : ℕ) :
    ∀ (labs : List ℕ) (fits : List (Mat α → Option (FitOut α))) (us : List α) (os : List (FitOut α)),
      (∀ fitFn ∈ fits, ∀ uc rows o0, (∀ r ∈ rows, r ∈ uc) → fitFn rows = some o0 →
        P uc ⟨o0.mu, o0.sigma, applyFallback fb o0.dof⟩) →
      clusterLoop u wn labels fb rf labs fits us = some os →
      os.length = labs.length ∧
      ∀ (k lab : ℕ) (o : FitOut α), labs[k]? = some lab → os[k]? = some o →
        ∃ uc, gather u (Model.Modes.indicesOf labels lab) = some uc ∧ P uc o := by
  intro labs
  induction labs with
  | nil => intro fits us os _ h; simp [clusterLoop] at h; subst h; simp
  | cons lab rest ih =>
    intro fits us os hP h
    cases fits with
    | nil => simp [clusterLoop] at h
    | cons fitFn fits =>
      simp only [clusterLoop] at h
      cases h1 : gather u (Model.Modes.indicesOf labels lab) with
      | none => simp [h1] at h
      | some uc =>
        cases h2 : gather wn (Model.Modes.indicesOf labels lab) with
        | none => simp [h1, h2] at h
        | some wc =>
          cases h3 : fitOne fitFn fb rf uc (normalise wc) us with
          | none => simp [h1, h2, h3] at h
          | some ou =>
            obtain ⟨o, us'⟩ := ou
            cases h4 : clusterLoop u wn labels fb rf rest fits us' with
            | none => simp [h1, h2, h3, h4] at h
            | some os' =>
              simp [h1, h2, h3, h4] at h
              subst h
              obtain ⟨hl, hd⟩ := ih fits us' os' (fun f hf => hP f (by simp [hf])) h4
              obtain ⟨rows, o0, hrows, hf, ho⟩ := fitOne_rows fitFn fb rf uc _ us o us' h3
              refine ⟨by simp [hl], ?_⟩
              intro k lab' o' hk ho'
              cases k with
              | zero =>
                simp at hk ho'
                subst hk; subst ho'
                exact ⟨uc, h1, by rw [ho]; exact hP fitFn (by simp) uc rows o0 hrows hf⟩
              | succ k => exact hd k lab' o' (by simpa using hk) (by simpa using ho')

end Generic

/-! ### at ℝ, with the modelled `fit_mvstud` inside -/

section Real
variable {d : ℕ}

/-- some coordinate takes one single value over the whole sample (e.g. the sample consists of copies of ONE particle) -/
def ConstCoord {m : ℕ} (y : Fin m → Fin d → ℝ) : Prop := ∃ a, ∀ i j, y i a = y j a

theorem colMean_of_const {m : ℕ} (y : Fin m → Fin d → ℝ) (hm : 0 < m) (a : Fin d) (h : ∀ i j, y i a = y j a) (i : Fin m) :
    colMean y a = y i a := by
  have hm' : (m : ℝ) ≠ 0 := by exact_mod_cast hm.ne'
  unfold colMean
  rw [Finset.sum_congr rfl (fun j _ => h j i)]
  simp [Finset.sum_const, Finset.card_univ]
  field_simp

theorem varV_pos_of_not_const {m : ℕ} (y : Fin m → Fin d → ℝ) (hm : 0 < m) (a : Fin d) (h : ¬ ∀ i j, y i a = y j a) :
    0 < varV y a := by
  have hm' : (0 : ℝ) < m := by exact_mod_cast hm
  unfold varV
  apply div_pos _ hm'
  by_contra hle
  have hz : ∑ i, (y i a - colMean y a) ^ 2 = 0 :=
    le_antisymm (not_lt.mp hle) (Finset.sum_nonneg fun i _ => sq_nonneg _)
  have hall : ∀ i, y i a = colMean y a := by
    intro i
    have := (Finset.sum_eq_zero_iff_of_nonneg (fun i _ => sq_nonneg (y i a - colMean y a))).1 hz i (Finset.mem_univ i)
    have := pow_eq_zero_iff (two_ne_zero) |>.1 this
    linarith
  exact h fun i j => by rw [hall i, hall j]

/-- **when the initial scale matrix `cov·(n−1)/n + diag(var)/n` is positive definite**: exactly when no coordinate is constant
    over the sample (the `diag(var)/n` term makes every other degenerate sample — points on a tilted line or plane — pass) -/
theorem initSigma_posDef_iff {m : ℕ} (y : Fin m → Fin d → ℝ) (hm : 2 ≤ m) : (Props.C19.initSigma y).PosDef ↔ ¬ ConstCoord y := by
  constructor
  · rintro hpd ⟨a, ha⟩
    have hdiag := hpd.diag_pos (i := a)
    have hmean : ∀ i, y i a - colMean y a = 0 := fun i => by rw [colMean_of_const y (by omega) a ha i]; ring
    have : Props.C19.initSigma y a a = 0 := by
      simp [Props.C19.initSigma, covM, varV, hmean]
    linarith
  · intro hnc
    rw [Props.C19.initSigma_eq y hm]
    have hm0 : (0 : ℝ) < m := by exact_mod_cast (by omega : 0 < m)
    refine PosDef.posSemidef_add ?_ ?_
    · exact sigmaNext_posSemidef y _ _ fun _ => zero_le_one
    · refine PosDef.smul ?_ (by positivity)
      rw [posDef_diagonal_iff]
      intro a
      exact varV_pos_of_not_const y (by omega) a (fun h => hnc ⟨a, h⟩)

/-- the fit's verdict on ONE resample `y` of `m` particles, in matrix form -/
structure ModeOK {m : ℕ} (y : Fin m → Fin d → ℝ) (fb : ℝ) (μ : Fin d → ℝ) (S : Matrix (Fin d) (Fin d) ℝ) (ν : ℝ) : Prop where
  /-- the location lies in the bounding box of the resample -/
  box : InBox y μ
  symm : S.IsSymm
  psd : S.PosSemidef
  /-- positive definite exactly when no coordinate is constant over the resample -/
  pd_iff : S.PosDef ↔ ¬ ConstCoord y
  dof_pos : 0 < fb → 0 < ν
  dof_le : ν ≤ max 1000000 fb

/-- the dof after the fallback, as a real number -/
noncomputable def dofVal (fb : ℝ) : Option ℝ → ℝ
  | none => fb
  | some x => x

theorem applyFallback_dofOf (fb : ℝ) (t : Option ℝ) : applyFallback fb (dofOf t) = .fin (dofVal fb t) := by
  cases t <;> simp [applyFallback, dofOf, dofVal, Dof.isFinite]

/-- **the modelled `fit_mvstud` on a resample of `m ≥ 2` particles, then the fallback**: location in the bounding box,
    scale symmetric positive semidefinite — positive definite iff no coordinate of the resample is constant —, dof positive -/
theorem fit_modeOK (psi : ℝ → ℝ) {m : ℕ} (y : Fin m → Fin d → ℝ) (hm : 2 ≤ m) (fb : ℝ) :
    ModeOK y fb (fit (optNuR psi d m) medR defaultTol defaultMaxIter y).1.mu
      (fit (optNuR psi d m) medR defaultTol defaultMaxIter y).1.sigma
      (dofVal fb (fit (optNuR psi d m) medR defaultTol defaultMaxIter y).2) := by
  obtain ⟨h1, h2, h3, _, _⟩ := C19_fit_wellposed_modelled psi defaultTol defaultMaxIter y hm
  obtain ⟨hb, hs, hp⟩ := h1 _ h2
  have hnu := C19_fit_nu_range_modelled psi defaultTol defaultMaxIter y
  refine ⟨hb, hs, hp, ?_, ?_, ?_⟩
  · constructor
    · intro hpd hc
      have hnpd : ¬ (Props.C19.initSigma y).PosDef := fun h => (initSigma_posDef_iff y hm).1 h hc
      have hu : ¬ IsUnit (Props.C19.initSigma y).det := fun hu => hnpd (initSigma_posDef_of_isUnit y hm hu)
      have := (fit_singular (optNuR psi d m) medR defaultTol defaultMaxIter y hu).2
      rw [this] at hpd
      exact hnpd hpd
    · intro hnc
      rcases h3 with h | ⟨hu, _⟩
      · exact h
      · exact absurd ((Matrix.isUnit_iff_isUnit_det _).1 ((initSigma_posDef_iff y hm).2 hnc).isUnit) hu
  · intro hfb
    cases hν : (fit (optNuR psi d m) medR defaultTol defaultMaxIter y).2 with
    | none => simpa [dofVal] using hfb
    | some ν => simpa [dofVal] using (hnu ν hν).1
  · cases hν : (fit (optNuR psi d m) medR defaultTol defaultMaxIter y).2 with
    | none => simp [dofVal]
    | some ν => simp only [dofVal]; exact le_trans (hnu ν hν).2 (le_max_left _ _)

/-- what a stored mode is, relative to the rows `uc` of its cluster -/
def StoredOK (fb : ℝ) (uc : Mat ℝ) (o : FitOut ℝ) : Prop :=
  ∃ (m : ℕ) (y : Fin m → Fin d → ℝ) (μ : Fin d → ℝ) (S : Matrix (Fin d) (Fin d) ℝ) (ν : ℝ),
    2 ≤ m ∧ (∀ i, vecOf (y i) ∈ uc) ∧ o = ⟨vecOf μ, matOf S, Dof.fin ν⟩ ∧ ModeOK y fb μ S ν

/-- the modelled fit, on any resample of rows of `uc` that are list forms of `d`-vectors, stores a valid mode -/
theorem fitRowsF_storedOK (psi : ℝ → ℝ) (fb : ℝ) {N : ℕ} (U : Fin N → Fin d → ℝ) (uc rows : Mat ℝ) (o0 : FitOut ℝ)
    (huc : ∀ r ∈ uc, r ∈ rowsOf U) (hrows : ∀ r ∈ rows, r ∈ uc) (h : fitRowsF psi d rows = some o0) :
    StoredOK (d := d) fb uc ⟨o0.mu, o0.sigma, applyFallback fb o0.dof⟩ := by
  obtain ⟨y, hy⟩ := rows_of_mem_rowsOf U rows (fun r hr => huc r (hrows r hr))
  by_cases hm : 2 ≤ rows.length
  · rw [hy, fitRowsF_rowsOf psi y hm] at h
    injection h with h
    subst h
    refine ⟨rows.length, y, _, _, _, hm, ?_, ?_, fit_modeOK psi y hm fb⟩
    · intro i
      apply hrows
      have : vecOf (y i) ∈ rowsOf y := by
        unfold rowsOf; rw [List.mem_ofFn]; exact ⟨i, rfl⟩
      rw [← hy] at this
      exact this
    · simp only [applyFallback_dofOf]
  · rw [hy, fitRowsF_small psi y (by omega)] at h
    cases h

theorem mem_rowsOf_iff {N : ℕ} (U : Fin N → Fin d → ℝ) (r : List ℝ) (i : ℕ) :
    (rowsOf U)[i]? = some r ↔ ∃ h : i < N, r = vecOf (U ⟨i, h⟩) := by
  unfold rowsOf
  constructor
  · intro h
    have hi : i < N := by
      by_contra hge
      rw [List.getElem?_eq_none (by simp; omega)] at h
      cases h
    refine ⟨hi, ?_⟩
    rw [List.getElem?_eq_getElem (by simpa using hi), List.getElem_ofFn] at h
    exact (Option.some.inj h).symm
  · rintro ⟨hi, rfl⟩
    rw [List.getElem?_eq_getElem (by simpa using hi), List.getElem_ofFn]

theorem vecOf_injective {m : ℕ} : Function.Injective (vecOf (m := m)) := by
  intro v w h
  have := congrArg (vecFn m) h
  simpa using this

/-- **`ModeStatistics.from_particles`, executable model at ℝ — every mode handed to the constructor is valid and was fitted from
    particles of its own cluster.**  For every `special.psi`, particle set `U`, weight vector, label vector, fallback, resample
    factor and stream of uniforms: if the construction does not raise, then there is one mode per distinct label, in increasing
    label order, and mode `k` (label `lab`) is `(vecOf μ, matOf S, fin ν)` where, for the resample `y` the fit was handed,
    every `y i` is a particle of `U` CARRYING LABEL `lab`, and `ModeOK y fb μ S ν` holds. -/
theorem C14_fromParticles_valid (psi : ℝ → ℝ) {N : ℕ} (U : Fin N → Fin d → ℝ) (w : List ℝ) (labels : List ℕ) (fb : ℝ)
    (rf : ℕ) (us : List ℝ) (K : ℕ) (ms : MS ℝ)
    (h : fromParticles (List.replicate K (fitRowsF psi d)) (rowsOf U) w labels fb rf us = .ok ms) :
    ms.labels = some (Model.Modes.labelsOf labels) ∧
    ms.means.length = Model.Modes.numModes labels ∧ ms.covs.length = Model.Modes.numModes labels ∧
    ms.dofs.length = Model.Modes.numModes labels ∧
    ∀ (k lab : ℕ), (Model.Modes.labelsOf labels)[k]? = some lab →
      ∃ (m : ℕ) (y : Fin m → Fin d → ℝ) (μ : Fin d → ℝ) (S : Matrix (Fin d) (Fin d) ℝ) (ν : ℝ),
        2 ≤ m ∧ (∀ i, ∃ j : Fin N, labels[j.val]? = some lab ∧ y i = U j) ∧
        ms.means[k]? = some (vecOf μ) ∧ ms.covs[k]? = some (matOf S) ∧ ms.dofs[k]? = some (Dof.fin ν) ∧
        ModeOK y fb μ S ν := by
  unfold fromParticles at h
  split_ifs at h
  cases hc : clusterLoop (rowsOf U) (normalise w) labels fb rf (Model.Modes.uniqueSorted labels)
      (List.replicate K (fitRowsF psi d)) us with
  | none => simp [hc] at h
  | some os =>
    simp [hc] at h
    subst h
    obtain ⟨hlen, heach⟩ := clusterLoop_each
      (fun uc o => (∀ r ∈ uc, r ∈ rowsOf U) → StoredOK (d := d) fb uc o) (rowsOf U) (normalise w) labels fb rf
      (Model.Modes.uniqueSorted labels) (List.replicate K (fitRowsF psi d)) us os
      (by
        intro f hf uc rows o0 hrows hfit huc
        rw [List.eq_of_mem_replicate hf] at hfit
        exact fitRowsF_storedOK psi fb U uc rows o0 huc hrows hfit) hc
    have hK : Model.Modes.numModes labels = (Model.Modes.uniqueSorted labels).length := numModes_eq labels
    refine ⟨rfl, by simp [hlen, hK], by simp [hlen, hK], by simp [hlen, hK], ?_⟩
    intro k lab hk
    have hk' : k < os.length := by
      rw [hlen]
      by_contra hge
      rw [show Model.Modes.labelsOf labels = Model.Modes.uniqueSorted labels from rfl,
        List.getElem?_eq_none (by omega)] at hk
      cases hk
    obtain ⟨uc, hg, hP⟩ := heach k lab os[k] hk (by simp [hk'])
    have huc : ∀ r ∈ uc, r ∈ rowsOf U := gather_mem _ _ _ hg
    obtain ⟨m, y, μ, S, ν, hm, hy, ho, hok⟩ := hP huc
    refine ⟨m, y, μ, S, ν, hm, ?_, ?_, ?_, ?_, hok⟩
    · intro i
      obtain ⟨idx, hidx, hrow⟩ := gather_mem_idx _ _ _ hg _ (hy i)
      obtain ⟨hlt, hv⟩ := (mem_rowsOf_iff U _ idx).1 hrow
      exact ⟨⟨idx, hlt⟩, (mem_indicesOf labels lab idx).1 hidx, vecOf_injective hv⟩
    · simp [hk', ho]
    · simp [hk', ho]
    · simp [hk', ho]

/-- μ lies in the bounding box of the training particles carrying the mode's own label -/
def InClusterBox {N : ℕ} (U : Fin N → Fin d → ℝ) (labels : List ℕ) (lab : ℕ) (μ : Fin d → ℝ) : Prop :=
  ∀ a, ∃ i j : Fin N, labels[i.val]? = some lab ∧ labels[j.val]? = some lab ∧ U i a ≤ μ a ∧ μ a ≤ U j a

theorem inClusterBox_of_inBox {N m : ℕ} (U : Fin N → Fin d → ℝ) (labels : List ℕ) (lab : ℕ) (y : Fin m → Fin d → ℝ)
    (hy : ∀ i, ∃ j : Fin N, labels[j.val]? = some lab ∧ y i = U j) (μ : Fin d → ℝ) (h : InBox y μ) :
    InClusterBox U labels lab μ := by
  intro a
  obtain ⟨i, j, h1, h2⟩ := h a
  obtain ⟨i', hi1, hi2⟩ := hy i
  obtain ⟨j', hj1, hj2⟩ := hy j
  exact ⟨i', j', hi1, hj1, by rw [← hi2]; exact h1, by rw [← hj2]; exact h2⟩

/-- **finite mean, concretely**: particles of the unit cube give mode means in the unit cube -/
theorem inUnitCube_of_inClusterBox {N : ℕ} (U : Fin N → Fin d → ℝ) (labels : List ℕ) (lab : ℕ) (μ : Fin d → ℝ)
    (hU : ∀ i a, 0 ≤ U i a ∧ U i a ≤ 1) (h : InClusterBox U labels lab μ) : ∀ a, 0 ≤ μ a ∧ μ a ≤ 1 := by
  intro a
  obtain ⟨i, j, _, _, h1, h2⟩ := h a
  exact ⟨le_trans (hU i a).1 h1, le_trans h2 (hU j a).2⟩

/-! ### the constructor's gate -/

theorem mapOpt_isSome_iff {β γ : Type} (f : β → Option γ) (xs : List β) :
    (Model.Modes.mapOpt f xs).isSome = true ↔ ∀ x ∈ xs, (f x).isSome = true := by
  induction xs with
  | nil => simp [Model.Modes.mapOpt]
  | cons x xs ih =>
    simp only [Model.Modes.mapOpt, List.mem_cons, forall_eq_or_imp]
    cases hx : f x with
    | none => simp
    | some y =>
      cases hr : Model.Modes.mapOpt f xs with
      | none => simp [hr] at ih ⊢; exact ih
      | some r => simp [hr] at ih ⊢; exact ih

/-- when the constructor returns an object: at least one mode, matching shapes, every scale matrix through the gate -/
theorem construct_isSome_iff (ms : MS ℝ) :
    (construct ms).isSome = true ↔
      ms.means ≠ [] ∧ ms.covs.length = ms.means.length ∧ ms.dofs.length = ms.means.length ∧
      ∀ S ∈ ms.covs, pdGate S = true := by
  unfold construct
  by_cases h0 : ms.means.length = 0
  · simp [List.length_eq_zero_iff.1 h0]
  · have hne : ms.means ≠ [] := fun h => h0 (by simp [h])
    by_cases hs : ms.covs.length = ms.means.length ∧ ms.dofs.length = ms.means.length
    · simp only [h0, if_false, hs, and_self, if_true, Option.isSome_map, mapOpt_isSome_iff, pdGate]
      simp [hne]
    · simp only [h0, if_false, hs, if_false]
      simp only [Option.isSome_none, Bool.false_eq_true, false_iff]
      rintro ⟨_, h1, h2, _⟩
      exact hs ⟨h1, h2⟩

theorem construct_some (ms : MS ℝ) (o : Obj ℝ) (h : construct ms = some o) : o.ms = ms := by
  unfold construct at h
  split_ifs at h
  cases hm : Model.Modes.mapOpt inv ms.covs with
  | none => simp [hm] at h
  | some is => simp [hm] at h; rw [← h]

/-- **the gate on a symmetric positive semidefinite matrix is positive definiteness** (`Lemmas.GaussJordan.inv_matOf_psd`) -/
theorem pdGate_matOf_iff (S : Matrix (Fin d) (Fin d) ℝ) (hS : S.PosSemidef) : pdGate (matOf S) = true ↔ S.PosDef := by
  unfold pdGate
  rw [matOf_eq]
  exact Lemmas.GaussJordan.inv_matOf_psd S hS

/-- **C14 (validity of the mode OBJECT, clustering path).**  If `Trainer.run`'s `from_particles` branch returns an object at
    all — construction and constructor did not raise — then the training label vector is non-empty, there is exactly one mode
    per distinct training label, and mode `k` (label `lab`) has: mean inside the bounding box of the training particles
    carrying `lab`, scale matrix symmetric POSITIVE DEFINITE, degrees of freedom positive (given a positive fallback). -/
theorem C14_object_valid (psi : ℝ → ℝ) {N : ℕ} (U : Fin N → Fin d → ℝ) (w : List ℝ) (labels : List ℕ) (fb : ℝ) (hfb : 0 < fb)
    (rf : ℕ) (us : List ℝ) (K : ℕ) (o : Obj ℝ)
    (h : trainerObject (fromParticles (List.replicate K (fitRowsF psi d)) (rowsOf U) w labels fb rf us) = some o) :
    labels ≠ [] ∧ o.ms.labels = some (Model.Modes.labelsOf labels) ∧ o.K = Model.Modes.numModes labels ∧
    o.ms.covs.length = o.K ∧ o.ms.dofs.length = o.K ∧ o.invs.length = o.K ∧
    ∀ (k lab : ℕ), (Model.Modes.labelsOf labels)[k]? = some lab →
      ∃ (μ : Fin d → ℝ) (S : Matrix (Fin d) (Fin d) ℝ) (ν : ℝ),
        o.ms.means[k]? = some (vecOf μ) ∧ o.ms.covs[k]? = some (matOf S) ∧ o.ms.dofs[k]? = some (Dof.fin ν) ∧
        InClusterBox U labels lab μ ∧ S.IsSymm ∧ S.PosDef ∧ 0 < ν ∧ ν ≤ max 1000000 fb := by
  cases hb : fromParticles (List.replicate K (fitRowsF psi d)) (rowsOf U) w labels fb rf us with
  | valueError => simp [hb, trainerObject] at h
  | raised => simp [hb, trainerObject] at h
  | ok ms =>
    simp only [hb, trainerObject] at h
    have hms := construct_some ms o h
    have hsome : (construct ms).isSome = true := by rw [h]; rfl
    obtain ⟨hne, hc, hd, hgate⟩ := (construct_isSome_iff ms).1 hsome
    obtain ⟨hl, h1, h2, h3, heach⟩ := C14_fromParticles_valid psi U w labels fb rf us K ms hb
    have hinv : o.invs.length = ms.covs.length := by
      unfold construct at h
      split_ifs at h
      cases hm : Model.Modes.mapOpt inv ms.covs with
      | none => simp [hm] at h
      | some is =>
        simp [hm] at h
        rw [← h]
        exact (mapOpt_spec inv ms.covs is hm).1
    have hlab : labels ≠ [] := by
      intro hnil
      rw [hnil] at h1
      exact hne (List.length_eq_zero_iff.1 (by rw [h1]; rfl))
    subst hms
    refine ⟨hlab, hl, h1, by rw [Obj.K]; omega, by rw [Obj.K]; omega, by rw [Obj.K]; omega, ?_⟩
    intro k lab hk
    obtain ⟨m, y, μ, S, ν, hm, hy, hmu, hcov, hdof, hok⟩ := heach k lab hk
    have hpd : S.PosDef :=
      (pdGate_matOf_iff S hok.psd).1 (hgate _ (List.mem_of_getElem? hcov))
    exact ⟨μ, S, ν, hmu, hcov, hdof, inClusterBox_of_inBox U labels lab y hy μ hok.box, hok.symm, hpd,
      hok.dof_pos hfb, hok.dof_le⟩

/-- **finding F24, characterised in the model**: the constructor refuses the modes built by `from_particles` exactly when some
    cluster's resample is constant in a coordinate (e.g. consists of copies of ONE particle): then `fit_mvstud` returns its
    singular initial matrix `cov·(n−1)/n + diag(var)/n`, `np.linalg.inv` raises, no object exists and mutation does not run.
    Every other degenerate resample (points on a tilted line or plane) passes, thanks to the `diag(var)/n` term. -/
theorem C14_object_exists_iff (psi : ℝ → ℝ) {N : ℕ} (U : Fin N → Fin d → ℝ) (w : List ℝ) (labels : List ℕ) (fb : ℝ)
    (rf : ℕ) (us : List ℝ) (K : ℕ) (ms : MS ℝ) (hne : labels ≠ [])
    (hb : fromParticles (List.replicate K (fitRowsF psi d)) (rowsOf U) w labels fb rf us = .ok ms) :
    (construct ms).isSome = true ↔
      ∀ (k : ℕ) (S : Matrix (Fin d) (Fin d) ℝ), ms.covs[k]? = some (matOf S) → S.PosSemidef → S.PosDef := by
  obtain ⟨hl, h1, h2, h3, heach⟩ := C14_fromParticles_valid psi U w labels fb rf us K ms hb
  have hK : 0 < Model.Modes.numModes labels := by
    rw [numModes_eq]
    obtain ⟨x, hx⟩ := List.exists_mem_of_ne_nil labels hne
    exact List.length_pos_of_mem ((mem_uniqueSorted labels x).2 hx)
  rw [construct_isSome_iff]
  constructor
  · rintro ⟨_, _, _, hg⟩ k S hk hpsd
    exact (pdGate_matOf_iff S hpsd).1 (hg _ (List.mem_of_getElem? hk))
  · intro hall
    refine ⟨fun h => by rw [h] at h1; simp at h1; omega, by omega, by omega, ?_⟩
    intro M hM
    obtain ⟨k, hk, rfl⟩ := List.mem_iff_getElem.1 hM
    have hk' : k < (Model.Modes.labelsOf labels).length := by
      rw [show Model.Modes.labelsOf labels = Model.Modes.uniqueSorted labels from rfl, ← numModes_eq]; omega
    obtain ⟨m, y, μ, S, ν, _, _, _, hcov, _, hok⟩ := heach k _ (List.getElem?_eq_getElem hk')
    have hcov' : ms.covs[k] = matOf S := by
      rw [List.getElem?_eq_getElem hk] at hcov; exact Option.some.inj hcov
    rw [hcov']
    exact (pdGate_matOf_iff S hok.psd).2 (hall k S (by rw [List.getElem?_eq_getElem hk, hcov']) hok.psd)

/-- … and the resample-level reading: mode `k` passes the gate iff its resample is constant in no coordinate -/
theorem C14_mode_passes_gate_iff (psi : ℝ → ℝ) {m : ℕ} (y : Fin m → Fin d → ℝ) (hm : 2 ≤ m) :
    pdGate (matOf (fit (optNuR psi d m) medR defaultTol defaultMaxIter y).1.sigma) = true ↔ ¬ ConstCoord y := by
  have hok := fit_modeOK psi y hm 1
  rw [pdGate_matOf_iff _ hok.psd]
  exact hok.pd_iff

/-- a cluster whose particles all share one coordinate value (in particular a cluster of ONE distinct particle) is refused by
    the constructor whatever the weighted draw picks -/
theorem constCoord_of_cluster {N m : ℕ} (U : Fin N → Fin d → ℝ) (labels : List ℕ) (lab : ℕ) (y : Fin m → Fin d → ℝ)
    (hy : ∀ i, ∃ j : Fin N, labels[j.val]? = some lab ∧ y i = U j) (a : Fin d)
    (hcl : ∀ i j : Fin N, labels[i.val]? = some lab → labels[j.val]? = some lab → U i a = U j a) : ConstCoord y := by
  refine ⟨a, fun i j => ?_⟩
  obtain ⟨i', hi1, hi2⟩ := hy i
  obtain ⟨j', hj1, hj2⟩ := hy j
  rw [hi2, hj2]
  exact hcl i' j' hi1 hj1

/-! ### the other paths of `Trainer.run` -/

/-- **`ModeStatistics.from_global`** (clustering off): one mode, fitted from particles of the pool, valid in the same sense -/
theorem C14_fromGlobal_valid (psi : ℝ → ℝ) {N : ℕ} (U : Fin N → Fin d → ℝ) (w : List ℝ) (fb : ℝ) (rf : ℕ) (us : List ℝ)
    (ms : MS ℝ) (h : fromGlobal (fitRowsF psi d) (rowsOf U) w fb rf us = .ok ms) :
    ms.labels = none ∧
    ∃ (m : ℕ) (y : Fin m → Fin d → ℝ) (μ : Fin d → ℝ) (S : Matrix (Fin d) (Fin d) ℝ) (ν : ℝ),
      2 ≤ m ∧ (∀ i, ∃ j : Fin N, y i = U j) ∧
      ms.means = [vecOf μ] ∧ ms.covs = [matOf S] ∧ ms.dofs = [Dof.fin ν] ∧ ModeOK y fb μ S ν := by
  unfold fromGlobal at h
  split_ifs at h
  cases hf : fitOne (fitRowsF psi d) fb rf (rowsOf U) (normalise w) us with
  | none => simp [hf] at h
  | some ou =>
    obtain ⟨o, us'⟩ := ou
    simp [hf] at h
    subst h
    obtain ⟨rows, o0, hrows, hfit, ho⟩ := fitOne_rows _ fb rf _ _ us o us' hf
    obtain ⟨m, y, μ, S, ν, hm, hy, ho', hok⟩ :=
      fitRowsF_storedOK psi fb U (rowsOf U) rows o0 (fun r hr => hr) hrows hfit
    subst ho
    obtain ⟨e1, e2, e3⟩ := FitOut.mk.inj ho'
    refine ⟨rfl, m, y, μ, S, ν, hm, ?_, by simp [e1], by simp [e2], by simp [e3], hok⟩
    intro i
    have := hy i
    unfold rowsOf at this
    rw [List.mem_ofFn] at this
    obtain ⟨j, hj⟩ := this
    exact ⟨j, (vecOf_injective hj).symm⟩

/-- the dummy statistics of the `beta = 0` branch: zero mean, identity scale (positive definite), the configured fallback -/
theorem C14_dummy_valid (dd : ℕ) (fb : ℝ) (fitFns : List (Mat ℝ → Option (FitOut ℝ))) (u : Mat ℝ) (w : List ℝ)
    (labels : List ℕ) (us : List ℝ) :
    trainerRun (α := ℝ) .dummy fitFns dd u w labels fb us =
      .ok ⟨[vecOf (0 : Fin dd → ℝ)], [matOf (1 : Matrix (Fin dd) (Fin dd) ℝ)], [Dof.fin fb], none⟩ ∧
    (1 : Matrix (Fin dd) (Fin dd) ℝ).PosDef ∧ (1 : Matrix (Fin dd) (Fin dd) ℝ).IsSymm := by
  refine ⟨?_, PosDef.one, isSymm_one⟩
  simp only [trainerRun]
  congr 2
  · have : vecOf (0 : Fin dd → ℝ) = List.replicate dd (0 : ℝ) := by
      unfold vecOf
      exact List.ofFn_const dd (0 : ℝ)
    rw [this]
    simp
  · simp only [matOf, List.cons.injEq, and_true]
    apply List.ext_getElem
    · simp
    · intro i h1 h2
      simp only [List.getElem_map, List.getElem_range, List.getElem_ofFn, identRow]
      apply List.ext_getElem
      · simp
      · intro j h3 h4
        simp only [List.getElem_map, List.getElem_range, List.getElem_ofFn, Matrix.one_apply]
        by_cases hij : j = i
        · subst hij; simp
        · have : ¬ (⟨i, by simpa using h1⟩ : Fin dd) = ⟨j, by simpa using h4⟩ := by
            intro h; apply hij; exact (Fin.mk.inj h).symm
          simp [hij, this]

/-- **every path of `Trainer.run` on which a mode object is produced** (beta = 0 dummy, fit + predict, predict only, no
    clustering): an object that exists has at least one mode, and every mode has a symmetric positive-definite scale matrix
    and positive degrees of freedom -/
theorem C14_trainer_object_valid (psi : ℝ → ℝ) (path : Path) {N : ℕ} (U : Fin N → Fin d → ℝ) (w : List ℝ) (labels : List ℕ)
    (cfgFb : ℝ) (hfb : 0 < cfgFb) (us : List ℝ) (K : ℕ) (o : Obj ℝ)
    (h : trainerObject (trainerRun path (List.replicate K (fitRowsF psi d)) d (rowsOf U) w labels cfgFb us) = some o) :
    0 < o.K ∧ ∀ k, k < o.K → ∃ (μ : Fin d → ℝ) (S : Matrix (Fin d) (Fin d) ℝ) (ν : ℝ),
      o.ms.means[k]? = some (vecOf μ) ∧ o.ms.covs[k]? = some (matOf S) ∧ o.ms.dofs[k]? = some (Dof.fin ν) ∧
      S.IsSymm ∧ S.PosDef ∧ 0 < ν := by
  have hpart : ∀ o : Obj ℝ,
      trainerObject (fromParticles (List.replicate K (fitRowsF psi d)) (rowsOf U) w labels cfgFb 4 us) = some o →
      0 < o.K ∧ ∀ k, k < o.K → ∃ (μ : Fin d → ℝ) (S : Matrix (Fin d) (Fin d) ℝ) (ν : ℝ),
        o.ms.means[k]? = some (vecOf μ) ∧ o.ms.covs[k]? = some (matOf S) ∧ o.ms.dofs[k]? = some (Dof.fin ν) ∧
        S.IsSymm ∧ S.PosDef ∧ 0 < ν := by
    intro o h
    obtain ⟨hne, _, hK, _, _, _, heach⟩ := C14_object_valid psi U w labels cfgFb hfb 4 us K o h
    have hpos : 0 < Model.Modes.numModes labels := by
      rw [numModes_eq]
      obtain ⟨x, hx⟩ := List.exists_mem_of_ne_nil labels hne
      exact List.length_pos_of_mem ((mem_uniqueSorted labels x).2 hx)
    refine ⟨by omega, fun k hk => ?_⟩
    have hk' : k < (Model.Modes.labelsOf labels).length := by
      rw [show Model.Modes.labelsOf labels = Model.Modes.uniqueSorted labels from rfl, ← numModes_eq]; omega
    obtain ⟨μ, S, ν, h1, h2, h3, _, h5, h6, h7, _⟩ := heach k _ (List.getElem?_eq_getElem hk')
    exact ⟨μ, S, ν, h1, h2, h3, h5, h6, h7⟩
  cases path with
  | fitPredict => exact hpart o h
  | predictOnly => exact hpart o h
  | dummy =>
    rw [(C14_dummy_valid d cfgFb _ _ w labels us).1] at h
    simp only [trainerObject] at h
    have hms := construct_some _ o h
    refine ⟨by rw [Obj.K, hms]; simp, fun k hk => ?_⟩
    have hk0 : k = 0 := by rw [Obj.K, hms] at hk; simpa using hk
    subst hk0
    exact ⟨0, 1, cfgFb, by rw [hms]; rfl, by rw [hms]; rfl, by rw [hms]; rfl, isSymm_one, PosDef.one, hfb⟩
  | global =>
    cases K with
    | zero => simp [trainerRun, trainerObject] at h
    | succ K =>
      simp only [List.replicate_succ, trainerRun] at h
      cases hb : fromGlobal (fitRowsF psi d) (rowsOf U) w cfgFb 4 us with
      | valueError => simp [hb, trainerObject] at h
      | raised => simp [hb, trainerObject] at h
      | ok ms =>
        simp only [hb, trainerObject] at h
        have hms := construct_some ms o h
        have hsome : (construct ms).isSome = true := by rw [h]; rfl
        obtain ⟨_, _, _, hgate⟩ := (construct_isSome_iff ms).1 hsome
        obtain ⟨_, m, y, μ, S, ν, _, _, e1, e2, e3, hok⟩ := C14_fromGlobal_valid psi U w cfgFb 4 us ms hb
        refine ⟨by rw [Obj.K, hms, e1]; simp, fun k hk => ?_⟩
        have hk0 : k = 0 := by rw [Obj.K, hms, e1] at hk; simpa using hk
        subst hk0
        have hpd : S.PosDef := (pdGate_matOf_iff S hok.psd).1 (hgate _ (by rw [e2]; simp))
        exact ⟨μ, S, ν, by rw [hms, e1]; rfl, by rw [hms, e2]; rfl, by rw [hms, e3]; rfl, hok.symm, hpd, hok.dof_pos hfb⟩

/-! ### the statement, assembled: raw label → mode object → valid mode of the same cluster -/

/-- **C14, assembled on the executable models.**  Training particles `U` (any), weights, training labels, fallback `fb > 0`;
    the mode object `o` exists (`Trainer.run` returned).  Then for EVERY raw cluster label `a` of an active particle and every
    row `drow` of its distances to the `K` mode means, `mode_index` answers an index `i < K` and a label `l` such that
      * `l` is carried by some training particle, and `l = a` whenever `a` is (a label that has a mode keeps it);
      * mode `i` of the object is the mode of label `l`: mean inside the bounding box of the training particles carrying `l`
        (fitted from the particles of that same cluster), symmetric positive-definite scale matrix, positive degrees of freedom. -/
theorem C14_statement_model (psi : ℝ → ℝ) {N : ℕ} (U : Fin N → Fin d → ℝ) (w : List ℝ) (labels : List ℕ) (fb : ℝ) (hfb : 0 < fb)
    (rf : ℕ) (us : List ℝ) (K : ℕ) (o : Obj ℝ)
    (h : trainerObject (fromParticles (List.replicate K (fitRowsF psi d)) (rowsOf U) w labels fb rf us) = some o)
    (a : ℕ) (drow : List ℝ) (hrow : drow.length = o.K) :
    ∃ (i l : ℕ) (μ : Fin d → ℝ) (S : Matrix (Fin d) (Fin d) ℝ) (ν : ℝ),
      Model.Modes.modeIndexD (Model.Modes.labelsOf labels) drow a = some i ∧ i < o.K ∧
      (Model.Modes.labelsOf labels)[i]? = some l ∧ l ∈ labels ∧ (a ∈ labels → l = a) ∧
      o.ms.means[i]? = some (vecOf μ) ∧ o.ms.covs[i]? = some (matOf S) ∧ o.ms.dofs[i]? = some (Dof.fin ν) ∧
      InClusterBox U labels l μ ∧ S.IsSymm ∧ S.PosDef ∧ 0 < ν := by
  obtain ⟨hne, _, hK, _, _, _, heach⟩ := C14_object_valid psi U w labels fb hfb rf us K o h
  obtain ⟨i, l, hi, hlt, hl, hmem, _, _, _, hkeep⟩ :=
    C14_labels_full_argmin labels hne drow (by rw [hrow, hK]) a
  obtain ⟨μ, S, ν, h1, h2, h3, h4, h5, h6, h7, _⟩ := heach i l hl
  exact ⟨i, l, μ, S, ν, hi, by rw [hK]; exact hlt, hl, hmem, hkeep, h1, h2, h3, h4, h5, h6, h7⟩

end Real

/-! ### non-vacuity -/

/-- three particles in the plane, none of the two coordinates constant: the initial scale matrix is positive definite -/
example : ¬ ConstCoord (d := 2) (![![0, 0], ![1, 0], ![0, 1]] : Fin 3 → Fin 2 → ℝ) := by
  rintro ⟨a, ha⟩
  fin_cases a
  · have := ha 0 1; simp at this
  · have := ha 0 2; simp at this

/-- copies of one particle: constant in every coordinate, so the constructor refuses the mode (F24) -/
example : ConstCoord (d := 2) (fun _ : Fin 8 => (![3/10, 7/10] : Fin 2 → ℝ)) := ⟨0, fun _ _ => rfl⟩

/-- the fit on the three particles above passes the gate, for every `psi` -/
example (psi : ℝ → ℝ) :
    pdGate (matOf (fit (optNuR psi 2 3) medR defaultTol defaultMaxIter
      (![![0, 0], ![1, 0], ![0, 1]] : Fin 3 → Fin 2 → ℝ)).1.sigma) = true := by
  rw [C14_mode_passes_gate_iff psi _ (by norm_num)]
  rintro ⟨a, ha⟩
  fin_cases a
  · have := ha 0 1; simp at this
  · have := ha 0 2; simp at this

/-- the constructor model on concrete rational-valued input: a singular scale matrix and an empty mode list are refused -/
example : (construct (⟨[[0, 0]], [[[1, 0], [0, 1]]], [Dof.fin 5], none⟩ : MS Rat)).isSome = true ∧
    (construct (⟨[[0, 0]], [[[1, 1], [1, 1]]], [Dof.fin 5], none⟩ : MS Rat)).isSome = false ∧
    (construct (⟨[], [], [], some []⟩ : MS Rat)).isSome = false ∧
    (construct (⟨[[0, 0]], [[[1, 0], [0, 1]]], [], none⟩ : MS Rat)).isSome = false := by decide +kernel

/-- at ℝ: the dummy statistics of the `beta = 0` branch pass the constructor (identity scale is positive definite), a zero
    scale matrix does not — `construct_isSome_iff` and `pdGate_matOf_iff` are not vacuous -/
example : (construct (⟨[vecOf (0 : Fin 2 → ℝ)], [matOf (1 : Matrix (Fin 2) (Fin 2) ℝ)], [Dof.fin 5], none⟩ : MS ℝ)).isSome = true ∧
    (construct (⟨[vecOf (0 : Fin 2 → ℝ)], [matOf (0 : Matrix (Fin 2) (Fin 2) ℝ)], [Dof.fin 5], none⟩ : MS ℝ)).isSome ≠ true := by
  constructor
  · rw [construct_isSome_iff]
    refine ⟨by simp, by simp, by simp, ?_⟩
    intro S hS
    simp only [List.mem_singleton] at hS
    subst hS
    exact (pdGate_matOf_iff 1 PosDef.one.posSemidef).2 PosDef.one
  · intro hc
    obtain ⟨_, _, _, h⟩ := (construct_isSome_iff _).1 hc
    have h0 := h (matOf (0 : Matrix (Fin 2) (Fin 2) ℝ)) (by simp)
    have hpd := (pdGate_matOf_iff (0 : Matrix (Fin 2) (Fin 2) ℝ) PosSemidef.zero).1 h0
    have := hpd.diag_pos (i := 0)
    simp at this

end Props.C14
