import TempestVerif.Model.PosteriorX
import TempestVerif.Props.C12
import TempestVerif.Props.C12Run
import TempestVerif.Gen.RunEntry
import Mathlib.Tactic
/-
  C12, second pass — `compute_posterior` with OPTIONAL blobs (declared through `blobs_dtype` or merely returned by the
  likelihood, /repo 9130321) and its four `return` statements (`Model.PosteriorX`).  The contract of the first pass
  (`C12_posterior_contract`, blobs always there, tuple selection outside) is carried over by two bridge lemmas.
-/
namespace Props.C12
open Model.Posterior Model.PosteriorX Model.Records

variable {X L B : Type}

/-! ### bridges between the gathers with and without a blob array -/

theorem gatherArrsO_some_blobs {α : Type} (f : List String) (idx : List Nat) (x : List X) (l : List L) (b : List B)
    (lw w : List α) :
    gatherArrsO f idx (⟨x, l, some b, lw, w⟩ : ArrsO X L B α)
      = (gatherArrs f idx (⟨x, l, b, lw, w⟩ : Arrs X L B α α)).map fun r => ⟨r.x, r.l, some r.b, r.lw, r.w⟩ := by
  unfold gatherArrsO gatherArrs gatherBlobs
  simp only
  cases (if f.contains "x" = true then gather? x idx else some x) <;>
  cases (if f.contains "logl" = true then gather? l idx else some l) <;>
  cases (if f.contains "logw" = true then gather? lw idx else some lw) <;>
  by_cases hb : f.contains "blobs" = true <;> simp only [hb, if_true, if_false, Bool.false_eq_true] <;>
  cases gather? b idx <;> simp

/-- without blobs nothing is gathered for them: the result is that of the blob-carrying routine run with the `x` column
    standing in for the blobs (a column that is gathered exactly when `x` is), forgetting that column -/
theorem gatherArrsO_no_blobs {α : Type} (f : List String) (hx : f.contains "x" = true) (hbl : f.contains "blobs" = true)
    (idx : List Nat) (x : List X) (l : List L) (lw w : List α) :
    gatherArrsO f idx (⟨x, l, none, lw, w⟩ : ArrsO X L B α)
      = (gatherArrs f idx (⟨x, l, x, lw, w⟩ : Arrs X L X α α)).map fun r => ⟨r.x, r.l, none, r.lw, r.w⟩ := by
  unfold gatherArrsO gatherArrs gatherBlobs
  simp only [hx, hbl, if_true]
  cases gather? x idx <;>
  cases (if f.contains "logl" = true then gather? l idx else some l) <;>
  cases (if f.contains "logw" = true then gather? lw idx else some lw) <;> simp

/-- carry a first-pass record over: the blob column is re-attached (`eb = some`) or forgotten (`eb = fun _ => none`) -/
def embB {α : Type} {B' : Type} (eb : List B' → Option (List B)) (r : Arrs X L B' α α) : ArrsO X L B α :=
  ⟨r.x, r.l, eb r.b, r.lw, r.w⟩

/-- the part of `Model.Posterior.posterior` after the weights were computed -/
def tailP {α : Type} [ScT α] {B' : Type} (tf rf : List String) (e : α) (bins : Nat) (u0 : α) (o : Opts) (w0 : List α)
    (a : Arrs X L B' α α) : Option (Arrs X L B' α α) :=
  (if o.trim then Model.Trim.trim (List.range w0.length) w0 e bins else some ([], [])).bind fun t =>
  (if o.resample then Model.Resample.systematic (if o.trim then t.2 else w0).length (if o.trim then t.2 else w0) u0
    else some []).bind fun ridx =>
  body tf rf (fun _ => t) (fun _ => ridx) uniformW o { a with w := w0 }

theorem posterior_eq_tailP {α : Type} [ScT α] {B' : Type} (tf rf : List String) (e : α) (bins : Nat) (u0 : α) (o : Opts)
    (a : Arrs X L B' α α) :
    posterior tf rf e bins u0 o a = (weights0 a.lw).bind fun w0 => tailP tf rf e bins u0 o w0 a := rfl

/-- `bodyO` against the first-pass pipeline, generic in how one gather of the one relates to a gather of the other; `I` is an
    invariant of the first-pass record under which the relation holds (none needed with blobs; "the stand-in column equals
    the x column" without) -/
theorem bodyO_bridge {α : Type} [ScT α] {B' : Type} (tf rf : List String) (e : α) (bins : Nat) (u0 : α) (o : Opts)
    (eb : List B' → Option (List B)) (I : Arrs X L B' α α → Prop)
    (hIw : ∀ r (w : List α), I r → I { r with w := w })
    (hI1 : ∀ idx r r', I r → gatherArrs tf idx r = some r' → I r')
    (hg1 : ∀ idx (r : Arrs X L B' α α), I r → gatherArrsO tf idx (embB eb r) = (gatherArrs tf idx r).map (embB eb))
    (hg2 : ∀ idx (r : Arrs X L B' α α), I r → gatherArrsO rf idx (embB eb r) = (gatherArrs rf idx r).map (embB eb))
    (a : Arrs X L B' α α) (ha : I a) (w0 : List α) :
    bodyO tf rf e bins u0 o (embB eb { a with w := w0 }) = (tailP tf rf e bins u0 o w0 a).map (embB eb) := by
  have hw : ∀ r : Arrs X L B' α α, (embB eb r).w = r.w := fun _ => rfl
  have hset : ∀ (r : Arrs X L B' α α) (w : List α),
      ({ embB eb r with w := w } : ArrsO X L B α) = embB eb { r with w := w } := fun _ _ => rfl
  have ha0 : I { a with w := w0 } := hIw a w0 ha
  unfold bodyO bodyOWith tailP body
  by_cases ht : o.trim = true <;> by_cases hr : o.resample = true
  · simp only [ht, hr, if_true, hw]
    cases Model.Trim.trim (List.range w0.length) w0 e bins with
    | none => simp
    | some t =>
      simp only [Option.bind_some, hg1 _ _ ha0]
      cases hgt : gatherArrs tf t.1 { a with w := w0 } with
      | none => simp
      | some g =>
        have hIg : I { g with w := t.2 } := hIw g t.2 (hI1 _ _ _ ha0 hgt)
        simp only [Option.map_some, Option.bind_some, hset, hw]
        cases Model.Resample.systematic t.2.length t.2 u0 with
        | none => simp
        | some ridx =>
          simp only [Option.bind_some, hg2 _ _ hIg]
          cases gatherArrs rf ridx { g with w := t.2 } with
          | none => simp
          | some g2 => simp only [Option.map_some, hset]
  · simp only [ht, hr, if_true, Bool.false_eq_true, if_false, hw]
    cases Model.Trim.trim (List.range w0.length) w0 e bins with
    | none => simp
    | some t =>
      simp only [Option.bind_some, hg1 _ _ ha0]
      cases gatherArrs tf t.1 { a with w := w0 } with
      | none => simp
      | some g => simp only [Option.map_some, Option.bind_some, hset]
  · simp only [ht, hr, if_true, Bool.false_eq_true, if_false, hw, Option.bind_some]
    cases Model.Resample.systematic w0.length w0 u0 with
    | none => simp
    | some ridx =>
      simp only [Option.bind_some, hg2 _ _ ha0]
      cases gatherArrs rf ridx { a with w := w0 } with
      | none => simp
      | some g => simp only [Option.map_some, hset]
  · simp [ht, hr]

/-- with blobs (declared or merely present): `compute_posterior` is the first-pass routine followed by the return selection -/
theorem computePosterior_with_blobs (tf rf : List String) (e : ℝ) (bins : Nat) (u0 : ℝ) (o : Opts) (h : Hist X L B ℝ)
    (bl : List B) (hb : blobsOf h = some (some bl)) :
    computePosterior tf rf e bins u0 o h
      = (posterior tf rf e bins u0 o (⟨h.x, h.l, bl, h.lw, []⟩ : Arrs X L B ℝ ℝ)).map fun r => select o (embB some r) := by
  unfold computePosterior computePosteriorWith
  rw [hb, posterior_eq_tailP]
  cases weights0 h.lw with
  | none => simp
  | some w0 =>
    simp only [Option.bind_some]
    have := bodyO_bridge (B := B) tf rf e bins u0 o some (fun _ => True) (fun _ _ _ => trivial) (fun _ _ _ _ _ => trivial)
      (fun idx r _ => gatherArrsO_some_blobs tf idx r.x r.l r.b r.lw r.w)
      (fun idx r _ => gatherArrsO_some_blobs rf idx r.x r.l r.b r.lw r.w)
      (⟨h.x, h.l, bl, h.lw, []⟩ : Arrs X L B ℝ ℝ) trivial w0
    have e1 : (embB some ({ (⟨h.x, h.l, bl, h.lw, []⟩ : Arrs X L B ℝ ℝ) with w := w0 }) : ArrsO X L B ℝ)
        = ⟨h.x, h.l, some bl, h.lw, w0⟩ := rfl
    rw [e1] at this
    unfold bodyO at this
    rw [this, Option.map_map]
    rfl

theorem gatherArrs_keeps_standin {α : Type} (f : List String) (hx : f.contains "x" = true) (hbl : f.contains "blobs" = true)
    (idx : List Nat) (r r' : Arrs X L X α α) (hI : r.b = r.x) (h : gatherArrs f idx r = some r') : r'.b = r'.x := by
  unfold gatherArrs at h
  simp only [hx, hbl, if_true, hI] at h
  split at h
  · rename_i x l b lw h1 _ h3 _
    injection h with h; subst h
    simp only
    rw [h1] at h3; injection h3 with h3; exact h3.symm
  · cases h

/-- without blobs (`blobs_dtype is None` and the likelihood returned none): the same routine with the `x` column standing in
    for the blobs, which are then forgotten; `return_blobs=True` cannot bring them back -/
theorem computePosterior_without_blobs (tf rf : List String) (htx : tf.contains "x" = true) (htb : tf.contains "blobs" = true)
    (hrx : rf.contains "x" = true) (hrb : rf.contains "blobs" = true)
    (e : ℝ) (bins : Nat) (u0 : ℝ) (o : Opts) (h : Hist X L B ℝ) (hb : blobsOf h = some none) :
    computePosterior tf rf e bins u0 o h
      = (posterior tf rf e bins u0 o (⟨h.x, h.l, h.x, h.lw, []⟩ : Arrs X L X ℝ ℝ)).map fun r =>
          select o (embB (fun _ => (none : Option (List B))) r) := by
  unfold computePosterior computePosteriorWith
  rw [hb, posterior_eq_tailP]
  cases weights0 h.lw with
  | none => simp
  | some w0 =>
    simp only [Option.bind_some]
    have := bodyO_bridge (B := B) tf rf e bins u0 o (fun _ => (none : Option (List B))) (fun r => r.b = r.x)
      (fun _ _ hI => hI) (fun idx r r' hI hg => gatherArrs_keeps_standin tf htx htb idx r r' hI hg)
      (fun idx r hI => by
        obtain ⟨x, l, b, lw, w⟩ := r
        simp only at hI
        subst hI
        exact gatherArrsO_no_blobs (B := B) tf htx htb idx b l lw w)
      (fun idx r hI => by
        obtain ⟨x, l, b, lw, w⟩ := r
        simp only at hI
        subst hI
        exact gatherArrsO_no_blobs (B := B) rf hrx hrb idx b l lw w)
      (⟨h.x, h.l, h.x, h.lw, []⟩ : Arrs X L X ℝ ℝ) rfl w0
    have e1 : (embB (fun _ => (none : Option (List B))) ({ (⟨h.x, h.l, h.x, h.lw, []⟩ : Arrs X L X ℝ ℝ) with w := w0 })
        : ArrsO X L B ℝ) = ⟨h.x, h.l, none, h.lw, w0⟩ := rfl
    rw [e1] at this
    unfold bodyO at this
    rw [this, Option.map_map]
    rfl

/-! ### the contract of the whole routine, optional blobs and return tuple included -/

/-- row `k` of a returned array is stored particle `i` (`bl` = the flat blob history, if there is one) -/
def Col.rowIs (h : Hist X L B ℝ) (bl : Option (List B)) (k i : Nat) : Col X L B ℝ → Prop
  | .x v => v[k]? = h.x[i]?
  | .logl v => v[k]? = h.l[i]?
  | .logw v => v[k]? = h.lw[i]?
  | .blobs v => ∃ b, bl = some b ∧ v[k]? = b[i]?
  | .weights _ => True

/-- the tuple layout: names in the order of the source's `return` statements; blobs appear iff asked for AND present -/
theorem select_names {α : Type} (o : Opts) (a : ArrsO X L B α) :
    (select o a).map Col.name = returnNames a.b.isSome o := by
  unfold select returnNames
  cases hb : a.b <;> cases hrb : o.returnBlobs <;> cases hrl : o.returnLogw <;> simp [Col.name]

theorem gen_tables_contain :
    Gen.Tables.posteriorTrimGather.contains "x" = true ∧ Gen.Tables.posteriorTrimGather.contains "blobs" = true ∧
    Gen.Tables.posteriorResampleGather.contains "x" = true ∧ Gen.Tables.posteriorResampleGather.contains "blobs" = true := by
  decide

/-- **C12 (posterior), whole routine with optional blobs.**  For every non-empty stored history whose arrays have one length
    (the blob history too, when there is one), whether blobs are declared, merely present, or absent; for every combination
    of the four flags, every `ess_trim`, `bins_trim ≥ 1` and resampling offset: `compute_posterior` returns (does not raise);
    the tuple is the one the flags select, with the blob array iff `return_blobs` AND blobs exist; all returned arrays have
    ONE positive length; every row is one stored particle in every returned array alike (x, logl, blobs, logw); the weights are
    ≥ 0, sum to one, and are exactly `1/m` with resampling. -/
theorem C12x_posterior_full (e : ℝ) (bins : Nat) (hb : 0 < bins) (u0 : ℝ) (o : Opts) (h : Hist X L B ℝ)
    (bl : Option (List B)) (hbo : blobsOf h = some bl) (hne : h.lw ≠ [])
    (hx : h.x.length = h.lw.length) (hl : h.l.length = h.lw.length) (hbl : ∀ b, bl = some b → b.length = h.lw.length) :
    ∃ cs, computePosterior Gen.Tables.posteriorTrimGather Gen.Tables.posteriorResampleGather e bins u0 o h = some cs ∧
      cs.map Col.name = returnNames bl.isSome o ∧
      ∃ m, 0 < m ∧ (∀ c ∈ cs, c.len = m) ∧
        (∀ k, k < m → ∃ i, i < h.lw.length ∧ ∀ c ∈ cs, Col.rowIs h bl k i c) ∧
        ∃ w, Col.weights w ∈ cs ∧ (∀ y ∈ w, 0 ≤ y) ∧ w.sum = 1 ∧ (o.resample = true → w = List.replicate m (1 / (m : ℝ))) := by
  obtain ⟨g1, g2, g3, g4⟩ := gen_tables_contain
  cases bl with
  | some b =>
    have hb' := hbl b rfl
    obtain ⟨r, hr, m, hm, hsl, hrows, hnn, hsum, hres⟩ :=
      C12_posterior_contract_gen e bins hb u0 o (⟨h.x, h.l, b, h.lw, []⟩ : Arrs X L B ℝ ℝ) hne hx hl hb'
    refine ⟨select o (embB some r), ?_, ?_, m, hm, ?_, ?_, r.w, ?_, hnn, hsum, hres⟩
    · rw [computePosterior_with_blobs _ _ _ _ _ _ h b hbo, hr]; rfl
    · rw [select_names]; rfl
    · intro c hc
      obtain ⟨s1, s2, s3, s4, s5⟩ := hsl
      unfold select embB at hc
      cases hrb : o.returnBlobs <;> cases hrl : o.returnLogw <;> simp only [hrb, hrl, if_true, if_false, Bool.false_eq_true] at hc <;>
        simp only [List.mem_cons, List.not_mem_nil, or_false] at hc <;> rcases hc with rfl | rfl | rfl | rfl | rfl <;>
        simp [Col.len, s1, s2, s3, s4, s5]
    · intro k hk
      obtain ⟨i, hi, r1, r2, r3, r4⟩ := hrows k hk
      refine ⟨i, hi, ?_⟩
      intro c hc
      unfold select embB at hc
      cases hrb : o.returnBlobs <;> cases hrl : o.returnLogw <;> simp only [hrb, hrl, if_true, if_false, Bool.false_eq_true] at hc <;>
        simp only [List.mem_cons, List.not_mem_nil, or_false] at hc <;> rcases hc with rfl | rfl | rfl | rfl | rfl <;>
        first
          | exact r1
          | exact r2
          | exact r4
          | exact ⟨b, rfl, r3⟩
          | trivial
    · unfold select embB
      cases hrb : o.returnBlobs <;> cases hrl : o.returnLogw <;> simp
  | none =>
    obtain ⟨r, hr, m, hm, hsl, hrows, hnn, hsum, hres⟩ :=
      C12_posterior_contract_gen e bins hb u0 o (⟨h.x, h.l, h.x, h.lw, []⟩ : Arrs X L X ℝ ℝ) hne hx hl hx
    refine ⟨select o (embB (fun _ => (none : Option (List B))) r), ?_, ?_, m, hm, ?_, ?_, r.w, ?_, hnn, hsum, hres⟩
    · rw [computePosterior_without_blobs _ _ g1 g2 g3 g4 _ _ _ _ h hbo, hr]; rfl
    · rw [select_names]; rfl
    · intro c hc
      obtain ⟨s1, s2, s3, s4, s5⟩ := hsl
      unfold select embB at hc
      cases hrb : o.returnBlobs <;> cases hrl : o.returnLogw <;> simp only [hrb, hrl, if_true, if_false, Bool.false_eq_true] at hc <;>
        simp only [List.mem_cons, List.not_mem_nil, or_false] at hc <;> rcases hc with rfl | rfl | rfl | rfl <;>
        simp [Col.len, s1, s2, s4, s5]
    · intro k hk
      obtain ⟨i, hi, r1, r2, r3, r4⟩ := hrows k hk
      refine ⟨i, hi, ?_⟩
      intro c hc
      unfold select embB at hc
      cases hrb : o.returnBlobs <;> cases hrl : o.returnLogw <;> simp only [hrb, hrl, if_true, if_false, Bool.false_eq_true] at hc <;>
        simp only [List.mem_cons, List.not_mem_nil, or_false] at hc <;> rcases hc with rfl | rfl | rfl | rfl <;>
        first
          | exact r1
          | exact r2
          | exact r4
          | trivial
    · unfold select embB
      cases hrb : o.returnBlobs <;> cases hrl : o.returnLogw <;> simp

/-! ### error paths -/

/-- before anything was committed `posterior()` raises, whatever the options and the blob configuration -/
theorem C12x_posterior_empty_history (tf rf : List String) (e : ℝ) (bins : Nat) (u0 : ℝ) (o : Opts) (h : Hist X L B ℝ)
    (hlw : h.lw = []) : computePosterior tf rf e bins u0 o h = none := by
  simp [computePosterior, computePosteriorWith, hlw, weights0]

/-- `blobs_dtype` declared but the likelihood never returned a blob (nothing was committed under the key): `posterior()`
    raises (the `ValueError` of `np.concatenate([])`) — for EVERY flag combination, also with `return_blobs=False` -/
theorem C12x_posterior_declared_without_blobs (tf rf : List String) (e : ℝ) (bins : Nat) (u0 : ℝ) (o : Opts)
    (h : Hist X L B ℝ) (hd : h.declared = true) (hb : h.blobsHist = []) :
    computePosterior tf rf e bins u0 o h = none := by
  have : blobsOf h = none := by simp [blobsOf, hd, hb]
  unfold computePosterior computePosteriorWith
  rw [this]
  cases weights0 h.lw <;> simp

/-- the blob gate, case by case -/
theorem C12x_blob_gate (h : Hist X L B ℝ) :
    (h.declared = false → h.curBlobs = false → blobsOf h = some none) ∧
    ((h.declared = true ∨ h.curBlobs = true) → h.blobsHist ≠ [] → blobsOf h = some (some h.blobsHist.flatten)) := by
  constructor
  · intro a b; simp [blobsOf, a, b]
  · intro a b
    have : (h.declared || h.curBlobs) = true := by rcases a with a | a <;> simp [a]
    unfold blobsOf
    rw [this]
    cases hh : h.blobsHist with
    | nil => exact absurd hh b
    | cons _ _ => rfl

/-! ### on the history a run leaves behind -/

open Model.ClosedLoop Model.Weights in
/-- what `compute_posterior` reads from a closed-loop state: `x` and the blobs are the stored records, one blob array per
    committed batch when the likelihood returns blobs (`hasBlobs`), none otherwise -/
noncomputable def histOf {P TS G : Type} (declared hasBlobs : Bool) (s : CState ℝ P TS G) : Hist P ℝ P ℝ :=
  ⟨poolOf s.hist, flatLogl (batchesOf s.hist), if hasBlobs then s.hist.map (·.pts) else [], lw1 s, declared, hasBlobs⟩

open Model.ClosedLoop Model.Weights in
/-- **after every returned `run()`** (any good non-empty history): `posterior()` meets its contract whether the blobs are
    declared (`blobs_dtype`), undeclared but returned by the likelihood, or absent; with blobs the returned blob of a row is the
    stored record of the same particle as the returned `x` -/
theorem C12x_posterior_full_on_run {P TS G : Type} (s : CState ℝ P TS G) (g : Good s) (hne : s.hist ≠ [])
    (declared hasBlobs : Bool) (hd : declared = true → hasBlobs = true) (e : ℝ) (bins : Nat) (hb : 0 < bins) (u0 : ℝ)
    (o : Opts) :
    ∃ cs, computePosterior Gen.Tables.posteriorTrimGather Gen.Tables.posteriorResampleGather e bins u0 o
        (histOf declared hasBlobs s) = some cs ∧
      cs.map Col.name = returnNames hasBlobs o ∧
      ∃ m, 0 < m ∧ (∀ c ∈ cs, c.len = m) ∧
        (∀ k, k < m → ∃ i, i < (lw1 s).length ∧
          ∀ c ∈ cs, Col.rowIs (histOf declared hasBlobs s) (if hasBlobs then some (poolOf s.hist) else none) k i c) := by
  obtain ⟨h0, hx, hl, _⟩ := posteriorArrs_lengths s g hne
  have hbo : blobsOf (histOf declared hasBlobs s) = some (if hasBlobs then some (poolOf s.hist) else none) := by
    cases hh : hasBlobs with
    | false =>
      have : declared = false := by cases declared <;> simp_all
      simp [blobsOf, histOf, this]
    | true =>
      have hmap : s.hist.map (·.pts) ≠ [] := by simpa using hne
      have := (C12x_blob_gate (histOf declared true s)).2 (Or.inr rfl) (by simpa [histOf] using hne)
      rw [this]
      simp [histOf, poolOf, List.flatMap]
  obtain ⟨cs, h1, h2, m, hm, h3, h4, _⟩ := C12x_posterior_full e bins hb u0 o (histOf declared hasBlobs s) _ hbo h0 hx hl
    (by
      intro b hb'
      cases hh : hasBlobs with
      | false => simp [hh] at hb'
      | true =>
        simp only [hh, if_true, Option.some.injEq] at hb'
        subst hb'
        exact hx)
  refine ⟨cs, h1, ?_, m, hm, h3, h4⟩
  rw [h2]; cases hasBlobs <;> rfl

/-! ### non-vacuity -/

/-- undeclared blobs (`declared = false`, the likelihood returned some), all four flags on: a 5-tuple -/
example : ∃ cs, computePosterior Gen.Tables.posteriorTrimGather Gen.Tables.posteriorResampleGather (0.99 : ℝ) 1000 0.5
      ⟨true, true, true, true⟩ (⟨[10, 11, 12], [20, 21, 22], [[30, 31], [32]], [-1, 0, -2], false, true⟩ : Hist Nat Nat Nat ℝ)
      = some cs ∧ cs.map Col.name = ["x", "weights", "logl", "blobs", "logw"] := by
  obtain ⟨cs, h, hn, _⟩ := C12x_posterior_full (X := Nat) (L := Nat) (B := Nat) (0.99 : ℝ) 1000 (by norm_num) 0.5
    ⟨true, true, true, true⟩ ⟨[10, 11, 12], [20, 21, 22], [[30, 31], [32]], [-1, 0, -2], false, true⟩ (some [30, 31, 32]) rfl
    (by simp) rfl rfl (by intro b hb; cases hb; rfl)
  exact ⟨cs, h, hn⟩

/-- no blobs at all, `return_blobs=True` asked for: the blob-less 4-tuple -/
example : ∃ cs, computePosterior Gen.Tables.posteriorTrimGather Gen.Tables.posteriorResampleGather (0.99 : ℝ) 1000 0.5
      ⟨false, true, true, true⟩ (⟨[10, 11, 12], [20, 21, 22], [], [-1, 0, -2], false, false⟩ : Hist Nat Nat Nat ℝ)
      = some cs ∧ cs.map Col.name = ["x", "weights", "logl", "logw"] := by
  obtain ⟨cs, h, hn, _⟩ := C12x_posterior_full (X := Nat) (L := Nat) (B := Nat) (0.99 : ℝ) 1000 (by norm_num) 0.5
    ⟨false, true, true, true⟩ ⟨[10, 11, 12], [20, 21, 22], [], [-1, 0, -2], false, false⟩ none rfl
    (by simp) rfl rfl (by intro b hb; cases hb)
  exact ⟨cs, h, hn⟩

/-- declared, never committed: raises -/
example : computePosterior Gen.Tables.posteriorTrimGather Gen.Tables.posteriorResampleGather (0.99 : ℝ) 1000 0.5
      ⟨false, false, false, false⟩ (⟨[10], [20], [], [0], true, false⟩ : Hist Nat Nat Nat ℝ) = none :=
  C12x_posterior_declared_without_blobs _ _ _ _ _ _ _ rfl rfl

/-! ### obligations on the tables regenerated from `run_sampling`, `_not_termination`, `load/save_sampler_state`,
    `_initialize_fresh`, `compute_evidence` and `compute_posterior` (translator G12): the source still has the shape
    `Model.RunEntry` and `Model.PosteriorX` mirror -/

/-- the entry of `run_sampling`: three arms in this order (path first, then the history test), `_initialize_from_resume` only
    in the first, `_initialize_fresh` only in the last, `t0` from `iter` in the first two and `0` in the last; no arm writes the
    StateManager directly except the legacy default `set_current("iter", t0)` of the first (files without `iter`) -/
theorem C12x_gen_entry_arms :
    Gen.RunEntry.runEntryTests = ["resume_state_path is not None", "self.state.get_history_length() > 0", "else"] ∧
    Gen.RunEntry.runEntryCalls = [["_initialize_from_resume"], [], ["_initialize_fresh"]] ∧
    Gen.RunEntry.runEntryT0 = ["int(iter_val) if iter_val is not None else 0", "int(iter_val) if iter_val is not None else 0", "0"] ∧
    Gen.RunEntry.runEntryStateWrites = ["'iter', t0", "", ""] := by
  decide

/-- `self.n_total = int(n_total)` is assigned exactly once in `run_sampling`: AFTER the entry chain (so after a checkpoint's
    value was loaded) and BEFORE the loop; nothing between it and the loop loads a file; the loop calls only the guard and
    `execute_iteration`; the guard reads the attribute; `load_sampler_state` writes it from the file, `save_sampler_state`
    stores it -/
theorem C12x_gen_ntotal_flow :
    Gen.RunEntry.runNTotalAssign = ["after_entry_before_loop: int(n_total)"] ∧
    Gen.RunEntry.runPreLoopSelfCalls = ["_update_progress_bar_initial"] ∧
    Gen.RunEntry.runLoopSelfCalls = ["_not_termination", "execute_iteration"] ∧
    Gen.RunEntry.termNTotalReads = ["getattr(self, 'n_total', 0)"] ∧
    Gen.RunEntry.loadNTotalAssign = ["'n_total' in d: d['n_total']"] ∧
    Gen.RunEntry.saveNTotal = ["getattr(self, 'n_total', None)"] := by
  decide

/-- `_initialize_fresh` writes the four counters/values `Model.RunEntry.initFresh` resets (and may seed); `compute_evidence`
    reads the current `logz` -/
theorem C12x_gen_fresh_and_evidence :
    Gen.RunEntry.initFreshWrites = ["'iter'=0", "'calls'=0", "'beta'=0.0", "'logz'=0.0"] ∧
    Gen.RunEntry.initFreshOtherCalls = ["np.random.seed"] ∧
    Gen.RunEntry.evidenceReads = ["self.state.get_current('logz')"] := by
  decide

/-- the blob gate of `compute_posterior` (declared OR present ⇒ the flat blob history, else `None`) and the two guarded
    gathers, as `Model.PosteriorX.blobsOf` / `gatherBlobs` have them -/
theorem C12x_gen_blob_gate :
    Gen.RunEntry.posteriorBlobGate =
      ["self.config.blobs_dtype is not None or self.state.get_current('blobs') is not None",
       "self.state.get_history('blobs', flat=True)", "None"] ∧
    Gen.RunEntry.posteriorBlobGatherGuards = ["blobs is not None", "blobs is not None"] := by
  decide

/-- look a return tuple up in the regenerated two-level selector -/
def selectorLookup (tbl : List (String × String × List String)) (outer inner : String) : Option (List String) :=
  (tbl.find? fun r => r.1 == outer && r.2.1 == inner).map (·.2.2)

/-- which flag selects which tuple — left to the dynamic suite in the first pass — now read from the source: for every value
    of `return_blobs`, `return_logw` and of "blobs exist", the arm of the regenerated selector taken is the model's tuple -/
theorem C12x_gen_selector (haveBlobs rb rl res trim : Bool) :
    selectorLookup Gen.RunEntry.posteriorSelector
        (if rb && haveBlobs then "return_blobs and blobs is not None" else "else") (if rl then "return_logw" else "else")
      = some (returnNames haveBlobs ⟨res, trim, rb, rl⟩) := by
  cases haveBlobs <;> cases rb <;> cases rl <;> cases res <;> cases trim <;> decide

end Props.C12
