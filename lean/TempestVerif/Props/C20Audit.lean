import TempestVerif.Props.C20
import Mathlib.Tactic
/-
  C20 — clause audit, part 1 (ESS and trimming).  Theorems are about the SAME definitions the driver executes
  (`Model.Ess`, `Model.Trim`), at `ℝ`.

    ESS       : ess_eq_kish (Kish form (Σw)²/Σw²), C20_ess_single, C20_ess_perm, C20_ess_zeros (zero-weight samples do not
                count), C20_ess_eq_length_iff (ESS = N exactly for uniform weights), C20_compute_ess_single
    trimming  : kish_append_small / C20_upper_set_ess_le (dropping the smallest weights never raises the ESS),
                C20_upper_set_ess_antitone (ESS of the upper set is non-increasing in the threshold),
                C20_step_ratio_le_one, C20_trim_ess_gt_one (a requested fraction > 1 keeps everything: the `TRIM_ESS = 512`
                default of `Trainer.__init__`), C20_trim_bins_one, C20_trim_nonempty, C20_trim_contract (the whole contract in
                one statement, on (sample, weight) pairs)
-/
namespace Props.C20
open Model.Ess Model.Trim

/-! ### ESS: Kish form and its consequences -/

theorem sumsq_map_div (l : List ℝ) (c : ℝ) :
    ((l.map (fun x => x / c)).map (fun x => x * x)).sum = (l.map (fun x => x * x)).sum / (c * c) := by
  induction l with
  | nil => simp
  | cons a l ih =>
    simp only [List.map_cons, List.sum_cons, ih]
    rw [add_div, div_mul_div_comm]

/-- `effective_sample_size(w) = (Σw)² / Σw²` (Kish) -/
theorem ess_eq_kish (w : List ℝ) : ess w = w.sum * w.sum / (w.map (fun x => x * x)).sum := by
  rw [ess_def, sumsq_map_div, one_div_div]

/-- a single particle has ESS 1, whatever its (non-zero) weight -/
theorem C20_ess_single (c : ℝ) (hc : c ≠ 0) : ess [c] = 1 := by
  rw [ess_eq_kish]
  simp only [List.sum_cons, List.sum_nil, List.map_cons, List.map_nil, add_zero]
  exact div_self (mul_ne_zero hc hc)

/-- the ESS does not depend on the order of the weights -/
theorem C20_ess_perm (l1 l2 : List ℝ) (h : l1.Perm l2) : ess l1 = ess l2 := by
  rw [ess_eq_kish, ess_eq_kish, h.sum_eq, (h.map (fun x => x * x)).sum_eq]

theorem sum_filter_ne_zero (w : List ℝ) : (w.filter (fun x => !decide (x = 0))).sum = w.sum := by
  induction w with
  | nil => rfl
  | cons a l ih =>
    by_cases h : a = 0
    · simp [h, ih]
    · simp [h, ih]

theorem sumsq_filter_ne_zero (w : List ℝ) :
    ((w.filter (fun x => !decide (x = 0))).map (fun x => x * x)).sum = (w.map (fun x => x * x)).sum := by
  induction w with
  | nil => rfl
  | cons a l ih =>
    by_cases h : a = 0
    · simp [h, ih]
    · simp [h, ih]

/-- samples of weight zero do not count: the ESS is that of the non-zero weights -/
theorem C20_ess_zeros (w : List ℝ) : ess (w.filter (fun x => !decide (x = 0))) = ess w := by
  rw [ess_eq_kish, ess_eq_kish, sum_filter_ne_zero, sumsq_filter_ne_zero]

/-- hence with zero weights present the bound is sharper: `ESS ≤ #{i | w_i ≠ 0}` -/
theorem C20_ess_le_support (w : List ℝ) (h0 : ∀ x ∈ w, 0 ≤ x) (hs : 0 < w.sum) :
    ess w ≤ ((w.filter (fun x => !decide (x = 0))).length : ℝ) := by
  rw [← C20_ess_zeros]
  refine (C20_ess_bounds _ (fun x hx => h0 x (List.mem_filter.mp hx).1) ?_).2
  rw [sum_filter_ne_zero]; exact hs

theorem sum_sq_dev (l : List ℝ) (m : ℝ) :
    (l.map (fun x => (x - m) * (x - m))).sum
      = (l.map (fun x => x * x)).sum - 2 * m * l.sum + l.length * (m * m) := by
  induction l with
  | nil => simp
  | cons a l ih =>
    simp only [List.map_cons, List.sum_cons, List.length_cons, ih]
    push_cast; ring

theorem sum_sq_eq_zero (l : List ℝ) (h : (l.map (fun x => x * x)).sum = 0) : ∀ x ∈ l, x = 0 := by
  induction l with
  | nil => simp
  | cons a l ih =>
    simp only [List.map_cons, List.sum_cons] at h
    have h1 : 0 ≤ (l.map (fun x => x * x)).sum :=
      List.sum_nonneg (by intro y hy; obtain ⟨z, _, rfl⟩ := List.mem_map.mp hy; exact mul_self_nonneg z)
    have ha : a * a = 0 := by nlinarith [mul_self_nonneg a]
    have hl : (l.map (fun x => x * x)).sum = 0 := by nlinarith [mul_self_nonneg a]
    intro x hx
    rcases List.mem_cons.mp hx with rfl | hx
    · exact mul_self_eq_zero.mp ha
    · exact ih hl x hx

/-- **ESS = N exactly for uniform weights** (equality case of Cauchy–Schwarz): for non-negative weights with positive sum,
    `ESS = N` iff all weights are equal -/
theorem C20_ess_eq_length_iff (w : List ℝ) (h0 : ∀ x ∈ w, 0 ≤ x) (hs : 0 < w.sum) :
    ess w = w.length ↔ ∀ x ∈ w, x = w.sum / w.length := by
  have hne : w ≠ [] := by intro h; rw [h] at hs; simp at hs
  have hN : (0 : ℝ) < w.length := by exact_mod_cast List.length_pos_iff.mpr hne
  obtain ⟨_, _, hq, _, _⟩ := sumsq_normalised_bounds w h0 hs
  have hQ : 0 < (w.map (fun x => x * x)).sum := by
    rw [sumsq_map_div] at hq
    by_contra hc
    have hc' : (w.map (fun x => x * x)).sum ≤ 0 := not_lt.mp hc
    have : (w.map (fun x => x * x)).sum / (w.sum * w.sum) ≤ 0 :=
      div_nonpos_of_nonpos_of_nonneg hc' (mul_self_nonneg _)
    linarith
  have hdev := sum_sq_dev w (w.sum / w.length)
  have hkey : (w.map (fun x => (x - w.sum / w.length) * (x - w.sum / w.length))).sum
      = (w.map (fun x => x * x)).sum - w.sum * w.sum / w.length := by
    rw [hdev]; field_simp; ring
  rw [ess_eq_kish, div_eq_iff hQ.ne']
  constructor
  · intro h x hx
    have hz : (w.map (fun x => (x - w.sum / w.length) * (x - w.sum / w.length))).sum = 0 := by
      rw [hkey, h]; field_simp; ring
    have := sum_sq_eq_zero (w.map (fun x => x - w.sum / w.length)) (by simpa [List.map_map, Function.comp_def] using hz)
    have hx' := this (x - w.sum / w.length) (List.mem_map.mpr ⟨x, hx, rfl⟩)
    linarith
  · intro h
    have hz : (w.map (fun x => (x - w.sum / w.length) * (x - w.sum / w.length))).sum = 0 := by
      apply List.sum_eq_zero
      intro y hy
      obtain ⟨x, hx, rfl⟩ := List.mem_map.mp hy
      rw [h x hx]; ring
    rw [hkey] at hz
    have hQe : (w.map (fun x => x * x)).sum = w.sum * w.sum / w.length := by linarith
    rw [hQe, mul_div_cancel₀ _ hN.ne']

example : ess [(2 : ℝ), 2, 2] = 3 := by
  have := (C20_ess_eq_length_iff [(2 : ℝ), 2, 2] (by simp) (by norm_num)).mpr (by simp; norm_num)
  simpa using this

/-- `compute_ess` of a single log-weight is 1 -/
theorem C20_compute_ess_single (l : ℝ) : computeEss [l] = some 1 := by
  rw [C20_compute_ess _ (by simp)]
  simp [C20_ess_single _ (Real.exp_pos l).ne']

/-! ### trimming: dropping the smallest weights never raises the ESS -/

theorem sumsq_le_mul_sum (M : List ℝ) (b : ℝ) (hM : ∀ x ∈ M, 0 ≤ x ∧ x ≤ b) :
    (M.map (fun x => x * x)).sum ≤ b * M.sum := by
  induction M with
  | nil => simp
  | cons a l ih =>
    have ha := hM a (by simp)
    have := ih (fun x hx => hM x (by simp [hx]))
    simp only [List.map_cons, List.sum_cons]
    nlinarith [mul_nonneg ha.1 (sub_nonneg.mpr ha.2)]

theorem mul_sum_le_sumsq (K : List ℝ) (b : ℝ) (hb : 0 ≤ b) (hK : ∀ x ∈ K, b ≤ x) :
    b * K.sum ≤ (K.map (fun x => x * x)).sum := by
  induction K with
  | nil => simp
  | cons a l ih =>
    have ha := hK a (by simp)
    have := ih (fun x hx => hK x (by simp [hx]))
    simp only [List.map_cons, List.sum_cons]
    nlinarith [mul_nonneg (le_trans hb ha) (sub_nonneg.mpr ha)]

theorem sumsq_pos_of_sum_pos (K : List ℝ) (hs : 0 < K.sum) : 0 < (K.map (fun x => x * x)).sum := by
  have h := sq_sum_le_length_mul K
  by_contra hc
  have hc' : (K.map (fun x => x * x)).sum ≤ 0 := not_lt.mp hc
  have : (K.length : ℝ) * (K.map (fun x => x * x)).sum ≤ 0 :=
    mul_nonpos_of_nonneg_of_nonpos (Nat.cast_nonneg _) hc'
  nlinarith

/-- **the inequality behind the trimming search.**  Appending a block `M` of non-negative weights none of which exceeds any
    weight already present does not lower the ESS:  `(S+s)²/(Q+q) ≥ S²/Q`  because  `q ≤ b·s`  and  `Q ≥ b·S`. -/
theorem kish_append_small (K M : List ℝ) (b : ℝ) (hb : 0 ≤ b)
    (hK : ∀ x ∈ K, b ≤ x) (hM : ∀ x ∈ M, 0 ≤ x ∧ x ≤ b) (hKpos : 0 < K.sum) :
    ess K ≤ ess (K ++ M) := by
  rw [ess_eq_kish, ess_eq_kish]
  simp only [List.map_append, List.sum_append]
  set S := K.sum
  set Q := (K.map (fun x => x * x)).sum
  set s := M.sum
  set q := (M.map (fun x => x * x)).sum
  have hQ : 0 < Q := sumsq_pos_of_sum_pos K hKpos
  have hs0 : 0 ≤ s := List.sum_nonneg (fun x hx => (hM x hx).1)
  have hq0 : 0 ≤ q := List.sum_nonneg (by
    intro y hy; obtain ⟨z, _, rfl⟩ := List.mem_map.mp hy; exact mul_self_nonneg z)
  have h1 : q ≤ b * s := sumsq_le_mul_sum M b hM
  have h2 : b * S ≤ Q := mul_sum_le_sumsq K b hb hK
  rw [div_le_div_iff₀ hQ (by linarith)]
  have hSs : 0 ≤ S * s := mul_nonneg hKpos.le hs0
  nlinarith [mul_nonneg hSs (sub_nonneg.mpr h2), mul_nonneg (mul_self_nonneg S) (sub_nonneg.mpr h1),
    mul_nonneg (mul_self_nonneg s) hQ.le, mul_nonneg hSs hQ.le]

/-- **ESS of the upper set is non-increasing in the threshold**: a higher threshold keeps fewer samples and a smaller ESS -/
theorem C20_upper_set_ess_antitone (w : List ℝ) (h0 : ∀ x ∈ w, 0 ≤ x) (θ1 θ2 : ℝ) (h : θ1 ≤ θ2)
    (hpos : 0 < (w.filter (fun x => decide (θ2 ≤ x))).sum) :
    ess (w.filter (fun x => decide (θ2 ≤ x))) ≤ ess (w.filter (fun x => decide (θ1 ≤ x))) := by
  set L1 := w.filter (fun x => decide (θ1 ≤ x)) with hL1
  have hK : L1.filter (fun x => decide (θ2 ≤ x)) = w.filter (fun x => decide (θ2 ≤ x)) := by
    rw [hL1, List.filter_filter]
    apply List.filter_congr
    intro x _
    by_cases hx : θ2 ≤ x
    · simp [hx, le_trans h hx]
    · simp [hx]
  have hperm := List.filter_append_perm (fun x => decide (θ2 ≤ x)) L1
  rw [← C20_ess_perm _ _ hperm, hK]
  refine kish_append_small _ _ (max θ2 0) (le_max_right _ _) ?_ ?_ hpos
  · intro x hx
    obtain ⟨hxw, hx2⟩ := List.mem_filter.mp hx
    exact max_le (by simpa using hx2) (h0 x hxw)
  · intro x hx
    obtain ⟨hx1, hx2⟩ := List.mem_filter.mp hx
    have hxw : x ∈ w := (List.mem_filter.mp hx1).1
    have hlt : x < θ2 := by simpa using hx2
    exact ⟨h0 x hxw, le_trans hlt.le (le_max_left _ _)⟩

/-- in particular no upper set has a larger ESS than the whole vector -/
theorem C20_upper_set_ess_le (w : List ℝ) (h0 : ∀ x ∈ w, 0 ≤ x) (θ : ℝ)
    (hpos : 0 < (w.filter (fun x => decide (θ ≤ x))).sum) :
    ess (w.filter (fun x => decide (θ ≤ x))) ≤ ess w := by
  have h := C20_upper_set_ess_antitone w h0 (min θ 0) θ (min_le_left _ _) hpos
  have hall : w.filter (fun x => decide (min θ 0 ≤ x)) = w := by
    rw [List.filter_eq_self]
    intro x hx
    simpa using le_trans (min_le_right θ 0) (h0 x hx)
  rwa [hall] at h

example : ess ([(1 : ℝ), 1, 2].filter (fun x => decide ((2 : ℝ) ≤ x))) ≤ ess [(1 : ℝ), 1, 2] :=
  C20_upper_set_ess_le _ (by simp) 2 (by norm_num [List.filter])

/-- the ESS of normalised weights (sum one) is `1 / Σw²` -/
theorem ess_of_sum_one (l : List ℝ) (h : l.sum = 1) : ess l = 1 / sumSq l := by
  show Sc.div Sc.one (sumSq (normalise l)) = _
  rw [normalise_of_sum_one _ h]; simp

/-- what the ratio of one pass is, in terms of the ESS of the kept upper set -/
theorem step_ratio_eq (w : List ℝ) (h0 : ∀ x ∈ w, 0 ≤ x) (hs : 0 < w.sum) (p : ℝ) (hp0 : 0 ≤ p) (s : Step ℝ)
    (hstep : step (normalise w) (sortAsc (normalise w)) (ess w) p = some s) :
    s.wt.sum = 1 ∧ 0 < ((normalise w).filter (fun x => decide (s.thr ≤ x))).sum ∧
    s.ratio = ess ((normalise w).filter (fun x => decide (s.thr ≤ x))) / ess w := by
  obtain ⟨h1, hnn, _, hne⟩ := wn_facts w h0 hs
  obtain ⟨hp, hm, hw, hratio⟩ := step_spec _ _ _ _ _ hstep
  have hkept : filterMask (normalise w) s.mask = (normalise w).filter (fun x => decide (s.thr ≤ x)) := by
    rw [hm, filterMask_map_eq_filter]; congr 1
  have hpos := kept_sum_pos (normalise w) h1 hnn hne p s.thr hp0 hp
  have hsum : s.wt.sum = 1 := by
    rw [hw, hkept, normalise_def, sum_map_div]; exact div_self hpos.ne'
  refine ⟨hsum, hpos, ?_⟩
  rw [hratio]
  have e1 : ess s.wt = 1 / sumSq s.wt := ess_of_sum_one _ hsum
  have e2 : ess s.wt = ess ((normalise w).filter (fun x => decide (s.thr ≤ x))) := by
    rw [hw, hkept, normalise_def]
    have := C20_ess_scale_invariant (1 / ((normalise w).filter (fun x => decide (s.thr ≤ x))).sum) (by positivity)
      ((normalise w).filter (fun x => decide (s.thr ≤ x)))
    rw [← this]
    congr 1
    apply List.map_congr_left
    intro x _
    rw [div_eq_mul_inv, mul_comm, one_div]
  rw [← e1, e2]

/-- **no pass reaches a ratio above 1**: trimming can only lower the ESS -/
theorem C20_step_ratio_le_one (w : List ℝ) (h0 : ∀ x ∈ w, 0 ≤ x) (hs : 0 < w.sum) (p : ℝ) (hp0 : 0 ≤ p) (s : Step ℝ)
    (hstep : step (normalise w) (sortAsc (normalise w)) (ess w) p = some s) : s.ratio ≤ 1 := by
  obtain ⟨h1, hnn, _, _⟩ := wn_facts w h0 hs
  obtain ⟨_, hpos, hr⟩ := step_ratio_eq w h0 hs p hp0 s hstep
  have hle := C20_upper_set_ess_le (normalise w) hnn s.thr hpos
  have hwn : ess (normalise w) = ess w := by
    show Sc.div Sc.one (sumSq (normalise (normalise w))) = Sc.div Sc.one (sumSq (normalise w))
    rw [normalise_of_sum_one _ h1]
  rw [hwn] at hle
  have hpos' : 0 < ess w := lt_of_lt_of_le one_pos (C20_ess_bounds w h0 hs).1
  rw [hr, div_le_one hpos']
  exact hle

/-- **a requested fraction above 1 keeps everything** (e.g. the default `TRIM_ESS = 512` of `Trainer.__init__`):
    every pass fails the test, the loop runs to the bottom of the grid and returns all samples with the normalised weights -/
theorem C20_trim_ess_gt_one {σ : Type} (samples : List σ) (w : List ℝ) (e : ℝ) (bins : Nat)
    (h0 : ∀ x ∈ w, 0 ≤ x) (hs : 0 < w.sum) (hl : samples.length = w.length) (hb : 0 < bins) (he : 1 < e) :
    trim samples w e bins = some (samples, normalise w) := by
  obtain ⟨⟨s', w'⟩, h⟩ := C20_trim_terminates_any samples w e bins h0 hs hb
  obtain ⟨h1, h2⟩ := C20_trim_bottom samples w e bins h0 hs hl s' w' h (by
    intro k _ hk st hst
    have := C20_step_ratio_le_one w h0 hs _ (linspace_range bins k hk).1 st hst
    linarith)
  rw [h, h1, h2]

/-- **`bins = 1`**: the grid is `[0.]`, the only pass keeps everything -/
theorem C20_trim_bins_one {σ : Type} (samples : List σ) (w : List ℝ) (e : ℝ)
    (h0 : ∀ x ∈ w, 0 ≤ x) (hs : 0 < w.sum) (hl : samples.length = w.length) :
    trim samples w e 1 = some (samples, normalise w) := by
  obtain ⟨⟨s', w'⟩, h⟩ := C20_trim_terminates_any samples w e 1 h0 hs one_pos
  obtain ⟨h1, h2⟩ := C20_trim_bottom samples w e 1 h0 hs hl s' w' h (by intro k hk0 hk1; omega)
  rw [h, h1, h2]

/-- **the whole contract of `trim_weights` in one statement.**  For non-negative weights with positive sum, as many samples
    as weights, `bins ≥ 1` and a requested fraction `e ≤ 1` the call returns `(s', w')` and there is a threshold `θ` with:
    the surviving (sample, normalised weight) pairs are exactly the original pairs whose normalised weight is `≥ θ`, in the
    original order; `w'` is those kept weights divided by their sum; the result is non-empty, aligned in length, a subsequence
    of the input; `w'` is non-negative and sums to 1; and `e · ESS(all) ≤ ESS(w') ≤ ESS(all)`. -/
theorem C20_trim_contract {σ : Type} (samples : List σ) (w : List ℝ) (e : ℝ) (bins : Nat)
    (h0 : ∀ x ∈ w, 0 ≤ x) (hs : 0 < w.sum) (hl : samples.length = w.length) (hb : 0 < bins) (he : e ≤ 1) :
    ∃ s' w' θ, trim samples w e bins = some (s', w') ∧
      s'.zip ((normalise w).filter (fun x => decide (θ ≤ x)))
        = (samples.zip (normalise w)).filter (fun q => decide (θ ≤ q.2)) ∧
      w' = ((normalise w).filter (fun x => decide (θ ≤ x))).map
            (fun x => x / ((normalise w).filter (fun x => decide (θ ≤ x))).sum) ∧
      s'.length = w'.length ∧ s' ≠ [] ∧ s'.Sublist samples ∧
      w'.sum = 1 ∧ (∀ x ∈ w', 0 ≤ x) ∧ e * ess w ≤ ess w' ∧ ess w' ≤ ess w := by
  obtain ⟨⟨s', w'⟩, h⟩ := C20_trim_terminates_any samples w e bins h0 hs hb
  obtain ⟨θ, j, hj, hp, hm⟩ := C20_trim_upper_set samples w e bins s' w' h
  obtain ⟨hs', hw', hf⟩ := hm
  obtain ⟨h1, hnn, _, hne⟩ := wn_facts w h0 hs
  have hlen : samples.length = (normalise w).length := by rw [normalise_def, List.length_map, hl]
  obtain ⟨hz, hlen', hsub⟩ := C20_trim_aligned samples (normalise w) θ hlen
  have hsum := C20_trim_normalised samples w e bins h0 hs s' w' h
  have hpos := kept_sum_pos (normalise w) h1 hnn hne _ θ (linspace_range bins j hj).1 hp
  have hwlen : s'.length = w'.length := by
    have hnl : ∀ l : List ℝ, (normalise l).length = l.length := fun l => by rw [normalise_def, List.length_map]
    rw [hs', hw', hnl]; exact hlen'
  have hw'ne : w' ≠ [] := by intro hnil; rw [hnil] at hsum; simp at hsum
  refine ⟨s', w', θ, h, ?_, ?_, hwlen, ?_, ?_, hsum, ?_, C20_trim_ess samples w e bins h0 hs he s' w' h, ?_⟩
  · rw [hs', ← hf]; exact hz
  · rw [hw', hf, normalise_def]
  · intro hnil; rw [hnil] at hwlen; exact hw'ne (List.length_eq_zero_iff.mp hwlen.symm)
  · rw [hs']; exact hsub
  · intro x hx
    rw [hw', hf, normalise_def] at hx
    obtain ⟨y, hy, rfl⟩ := List.mem_map.mp hx
    exact div_nonneg (hnn y (List.mem_filter.mp hy).1) hpos.le
  · -- ESS(w') = ESS(kept) ≤ ESS(normalise w) = ESS(w)
    have hle := C20_upper_set_ess_le (normalise w) hnn θ hpos
    have hwn : ess (normalise w) = ess w := by
      show Sc.div Sc.one (sumSq (normalise (normalise w))) = Sc.div Sc.one (sumSq (normalise w))
      rw [normalise_of_sum_one _ h1]
    have e2 : ess w' = ess ((normalise w).filter (fun x => decide (θ ≤ x))) := by
      rw [hw', hf, normalise_def]
      have := C20_ess_scale_invariant (1 / ((normalise w).filter (fun x => decide (θ ≤ x))).sum) (by positivity)
        ((normalise w).filter (fun x => decide (θ ≤ x)))
      rw [← this]
      congr 1
      apply List.map_congr_left
      intro x _
      rw [div_eq_mul_inv, mul_comm, one_div]
    rw [e2, ← hwn]; exact hle

/-- non-vacuity of the contract: three weights, the sampler's constants -/
example : ∃ s' w', trim ["a", "b", "c"] [(1 : ℝ), 1, 2] (99 / 100) 1000 = some (s', w') ∧ w'.sum = 1 ∧ s' ≠ [] := by
  obtain ⟨s', w', _, h, _, _, _, hne, _, hsum, _⟩ :=
    C20_trim_contract ["a", "b", "c"] [(1 : ℝ), 1, 2] (99 / 100) 1000 (by simp) (by norm_num) rfl (by norm_num) (by norm_num)
  exact ⟨s', w', h, hsum, hne⟩

theorem normalise_smul (c : ℝ) (hc : c ≠ 0) (w : List ℝ) : normalise (w.map (fun y => c * y)) = normalise w := by
  rw [normalise_def, normalise_def, List.map_map]
  have hsum : (w.map (fun y => c * y)).sum = c * w.sum := by
    have := List.sum_map_mul_left w (fun y => y) c
    simpa using this
  rw [hsum]
  apply List.map_congr_left
  intro y _
  simp only [Function.comp]
  rw [mul_div_mul_left _ _ hc]


/-- **trimming does not depend on the scale of the weights**: they are normalised before anything else, so `c·w` (any `c ≠ 0`)
    selects the same samples and returns the same weights -/
theorem C20_trim_scale_invariant {σ : Type} (samples : List σ) (w : List ℝ) (c : ℝ) (hc : c ≠ 0) (e : ℝ) (bins : Nat) :
    trim samples (w.map (fun y => c * y)) e bins = trim samples w e bins := by
  unfold trim trimStop
  simp only [normalise_smul c hc]

/-- in particular `compute_posterior`, which hands over weights that already sum to one, gets them back unchanged by the
    in-place normalisation -/
theorem C20_trim_inplace_noop_on_normalised (w : List ℝ) (h : w.sum = 1) : normalise w = w :=
  normalise_of_sum_one w h

/-! ### the passing grid indices form an initial segment: the search from the top finds THE largest one -/

/-- `np.percentile` (linear method) of a sorted non-empty array, case by case -/
theorem percentile_cases (sorted : List ℝ) (hne : sorted ≠ []) (p : ℝ) (hp0 : 0 ≤ p) :
    (((sorted.length - 1 : ℕ) : ℝ) ≤ ((sorted.length - 1 : ℕ) : ℝ) * (p / 100) ∧
        percentileLinear sorted p = some (sorted.getLast hne)) ∨
    (∃ (lo : ℕ) (h1 : lo + 1 < sorted.length),
        (lo : ℝ) ≤ ((sorted.length - 1 : ℕ) : ℝ) * (p / 100) ∧
        ((sorted.length - 1 : ℕ) : ℝ) * (p / 100) < (lo : ℝ) + 1 ∧
        percentileLinear sorted p = some (sorted[lo] + (sorted[lo + 1] - sorted[lo]) *
          (((sorted.length - 1 : ℕ) : ℝ) * (p / 100) - lo))) := by
  unfold percentileLinear
  simp only [ScReal.mul_def, ScReal.div_def, ScReal.ofNat_def, ScReal.sub_def, ScReal.le_def, Nat.cast_ofNat]
  have hnpos : 0 < sorted.length := List.length_pos_iff.mpr hne
  have hn1 : (0 : ℝ) ≤ ((sorted.length - 1 : ℕ) : ℝ) := Nat.cast_nonneg _
  have hv0 : 0 ≤ ((sorted.length - 1 : ℕ) : ℝ) * (p / 100) := by positivity
  by_cases hcase : ((sorted.length - 1 : ℕ) : ℝ) ≤ ((sorted.length - 1 : ℕ) : ℝ) * (p / 100)
  · left
    simp only [hcase, if_true]
    exact ⟨trivial, List.getLast?_eq_some_getLast hne⟩
  · right
    simp only [hcase, if_false]
    obtain ⟨h1, h2, h3⟩ := floorIdx_spec (((sorted.length - 1 : ℕ) : ℝ) * (p / 100)) hv0 (sorted.length - 1)
    generalize floorIdx (((sorted.length - 1 : ℕ) : ℝ) * (p / 100)) (sorted.length - 1) = lo at h1 h2 h3 ⊢
    have hlt : lo < sorted.length - 1 := by
      have : (lo : ℝ) < ((sorted.length - 1 : ℕ) : ℝ) := lt_of_le_of_lt h1 (not_le.mp hcase)
      exact_mod_cast this
    have hγ1 : ((sorted.length - 1 : ℕ) : ℝ) * (p / 100) < (lo : ℝ) + 1 := by
      rcases h3 with h3 | h3
      · exact h3
      · omega
    have hlo_lt : lo < sorted.length := by omega
    have hlo1_lt : lo + 1 < sorted.length := by omega
    refine ⟨lo, hlo1_lt, h1, hγ1, ?_⟩
    rw [List.getElem?_eq_getElem hlo_lt, List.getElem?_eq_getElem hlo1_lt]
    simp only [lerp_def]

theorem sorted_le_getLast (sorted : List ℝ) (hs : sorted.Pairwise (· ≤ ·)) (hne : sorted ≠ []) :
    ∀ x ∈ sorted, x ≤ sorted.getLast hne := by
  intro x hx
  obtain ⟨i, hi, rfl⟩ := List.getElem_of_mem hx
  rw [List.getLast_eq_getElem]
  by_cases h : i = sorted.length - 1
  · subst h; exact le_refl _
  · exact (List.pairwise_iff_getElem.mp hs) i (sorted.length - 1) hi (by omega) (by omega)

theorem sorted_mono (sorted : List ℝ) (hs : sorted.Pairwise (· ≤ ·)) (i j : ℕ) (hij : i ≤ j) (hj : j < sorted.length) :
    sorted[i]'(by omega) ≤ sorted[j] := by
  by_cases h : i = j
  · subst h; exact le_refl _
  · exact (List.pairwise_iff_getElem.mp hs) i j (by omega) hj (by omega)

/-- **`np.percentile(a, ·)` is non-decreasing** (linear method, sorted data) -/
theorem percentile_mono (sorted : List ℝ) (hs : sorted.Pairwise (· ≤ ·)) (hne : sorted ≠ [])
    (p1 p2 : ℝ) (hp1 : 0 ≤ p1) (h12 : p1 ≤ p2) (θ1 θ2 : ℝ)
    (h1 : percentileLinear sorted p1 = some θ1) (h2 : percentileLinear sorted p2 = some θ2) : θ1 ≤ θ2 := by
  have hn1 : (0 : ℝ) ≤ ((sorted.length - 1 : ℕ) : ℝ) := Nat.cast_nonneg _
  have hv12 : ((sorted.length - 1 : ℕ) : ℝ) * (p1 / 100) ≤ ((sorted.length - 1 : ℕ) : ℝ) * (p2 / 100) := by
    apply mul_le_mul_of_nonneg_left _ hn1
    linarith
  rcases percentile_cases sorted hne p2 (le_trans hp1 h12) with ⟨_, e2⟩ | ⟨lo2, hlo2, hl2, hu2, e2⟩
  · -- p2 is at the top: the result is the maximum
    rw [h2] at e2; injection e2 with e2; subst e2
    obtain ⟨θ, hθ, x, hx, hle⟩ := percentile_spec sorted hs hne p1 hp1
    rw [h1] at hθ; injection hθ with hθ; subst hθ
    exact le_trans hle (sorted_le_getLast sorted hs hne x hx)
  · rw [h2] at e2; injection e2 with e2
    rcases percentile_cases sorted hne p1 hp1 with ⟨htop, _⟩ | ⟨lo1, hlo1, hl1, hu1, e1⟩
    · -- impossible: v1 ≥ n-1 > v2 ≥ v1
      exfalso
      have : (lo2 : ℝ) + 1 ≤ ((sorted.length - 1 : ℕ) : ℝ) := by
        have : lo2 + 1 ≤ sorted.length - 1 := by omega
        exact_mod_cast this
      linarith
    · rw [h1] at e1; injection e1 with e1
      have hlo12 : lo1 ≤ lo2 := by
        have : (lo1 : ℝ) < (lo2 : ℝ) + 1 := by linarith
        have : lo1 < lo2 + 1 := by exact_mod_cast this
        omega
      have ha1 : sorted[lo1] ≤ sorted[lo1 + 1] := sorted_mono sorted hs lo1 (lo1 + 1) (by omega) hlo1
      have ha2 : sorted[lo2] ≤ sorted[lo2 + 1] := sorted_mono sorted hs lo2 (lo2 + 1) (by omega) hlo2
      rw [e1, e2]
      by_cases heq : lo1 = lo2
      · subst heq
        nlinarith
      · have hmid : sorted[lo1 + 1] ≤ sorted[lo2] := sorted_mono sorted hs (lo1 + 1) lo2 (by omega) (by omega)
        nlinarith

theorem linspace_mono (bins j k : Nat) (hjk : j ≤ k) (hk : k < bins) :
    (linspace0_99 bins j : ℝ) ≤ linspace0_99 bins k := by
  by_cases hlast : k + 1 = bins
  · have h99 : (linspace0_99 bins k : ℝ) = 99 ∨ bins ≤ 1 := by
      by_cases h1 : bins ≤ 1
      · exact Or.inr h1
      · left; unfold linspace0_99; simp [h1, hlast]
    rcases h99 with h99 | h1
    · rw [h99]; exact (linspace_range bins j (by omega)).2
    · have hj0 : j = 0 := by omega
      have hk0 : k = 0 := by omega
      rw [hj0, hk0]
  · unfold linspace0_99
    have h1 : ¬ bins ≤ 1 := by omega
    have h2 : ¬ (j + 1 = bins) := by omega
    simp only [h1, h2, hlast, if_false, ScReal.mul_def, ScReal.div_def, ScReal.ofNat_def, Nat.cast_ofNat]
    have hb : (0 : ℝ) < ((bins - 1 : ℕ) : ℝ) := by
      have : 0 < bins - 1 := by omega
      exact_mod_cast this
    have : (j : ℝ) ≤ k := by exact_mod_cast hjk
    apply mul_le_mul_of_nonneg_right this
    positivity

/-- **the ESS ratio is non-increasing along the grid**: a higher grid percentile trims more and keeps a smaller ESS -/
theorem C20_step_ratio_antitone (w : List ℝ) (h0 : ∀ x ∈ w, 0 ≤ x) (hs : 0 < w.sum) (bins j k : Nat)
    (hjk : j ≤ k) (hk : k < bins) (sj sk : Step ℝ)
    (hsj : step (normalise w) (sortAsc (normalise w)) (ess w) (linspace0_99 bins j) = some sj)
    (hsk : step (normalise w) (sortAsc (normalise w)) (ess w) (linspace0_99 bins k) = some sk) :
    sk.ratio ≤ sj.ratio := by
  obtain ⟨h1, hnn, _, hne⟩ := wn_facts w h0 hs
  have hne' : sortAsc (normalise w) ≠ [] := by
    intro h; have := (sortAsc_perm (normalise w)).length_eq; rw [h] at this
    exact hne (List.length_eq_zero_iff.mp this.symm)
  have hpj := (linspace_range bins j (by omega)).1
  have hpk := (linspace_range bins k hk).1
  obtain ⟨_, _, hrj⟩ := step_ratio_eq w h0 hs _ hpj sj hsj
  obtain ⟨_, hposk, hrk⟩ := step_ratio_eq w h0 hs _ hpk sk hsk
  have hθ : sj.thr ≤ sk.thr :=
    percentile_mono _ (sortAsc_sorted _) hne' _ _ hpj (linspace_mono bins j k hjk hk) _ _
      (step_spec _ _ _ _ _ hsj).1 (step_spec _ _ _ _ _ hsk).1
  have hanti := C20_upper_set_ess_antitone (normalise w) hnn sj.thr sk.thr hθ hposk
  have hpos' : 0 < ess w := lt_of_lt_of_le one_pos (C20_ess_bounds w h0 hs).1
  rw [hrj, hrk]
  exact div_le_div_of_nonneg_right hanti hpos'.le

/-- **the search result is the largest passing grid index, and everything below it passes too.**  With `e ≤ 1`: the pass
    at the returned index `j` meets the test, every pass above `j` fails it, every pass at or below `j` meets it — so the
    linear search from the top returns exactly the most aggressive trim the grid allows. -/
theorem C20_trim_passing_initial_segment {σ : Type} (samples : List σ) (w : List ℝ) (e : ℝ) (bins : Nat)
    (h0 : ∀ x ∈ w, 0 ≤ x) (hs : 0 < w.sum) (he : e ≤ 1)
    (s' : List σ) (w' : List ℝ) (h : trim samples w e bins = some (s', w')) :
    ∃ j, j < bins ∧ ∀ k, k < bins → ∀ st,
      step (normalise w) (sortAsc (normalise w)) (ess w) (linspace0_99 bins k) = some st →
        (e ≤ st.ratio ↔ k ≤ j) := by
  obtain ⟨j, stj, hj, hstepj, _, _, hr, hmax⟩ := C20_trim_maximal samples w e bins s' w' h
  have hrj : e ≤ stj.ratio := by
    rcases hr with hr | rfl
    · exact hr
    · rw [(step_zero w h0 hs bins stj hstepj).2.2]; exact he
  refine ⟨j, hj, fun k hk st hst => ⟨fun hpass => ?_, fun hkj => ?_⟩⟩
  · by_contra hnot
    obtain ⟨st', hst', hlt⟩ := hmax k (by omega) hk
    rw [hst] at hst'; injection hst' with hst'; subst hst'
    linarith
  · exact le_trans hrj (C20_step_ratio_antitone w h0 hs bins k j hkj hj st stj hst hstepj)

/-! ### structure of the result for EVERY scalar instance (also the `Float` and `Rat` models the driver runs) -/
section Generic
variable {α : Type} [Sc α]

theorem step_spec_generic (wn sorted : List α) (eT p : α) (s : Step α) (h : step wn sorted eT p = some s) :
    percentileLinear sorted p = some s.thr ∧
    s.mask = wn.map (fun x => Sc.le s.thr x) ∧
    s.wt = normalise (filterMask wn s.mask) := by
  unfold step at h
  cases hp : percentileLinear sorted p with
  | none => simp [hp] at h
  | some θ =>
    simp only [hp, Option.map_some, Option.some.injEq] at h
    subst h
    simp

theorem search_spec_generic (wn sorted : List α) (eT e : α) (bins i j : Nat) (s : Step α)
    (h : search wn sorted eT e bins i = some (j, s)) :
    j ≤ i ∧ step wn sorted eT (linspace0_99 bins j) = some s ∧ (Sc.le e s.ratio = true ∨ j = 0) := by
  induction i with
  | zero =>
    unfold search at h
    cases hs : step wn sorted eT (linspace0_99 bins 0) with
    | none => simp [hs] at h
    | some s0 =>
      simp only [hs, Option.some.injEq, Prod.mk.injEq] at h
      obtain ⟨rfl, rfl⟩ := h
      exact ⟨le_refl _, hs, Or.inr rfl⟩
  | succ i ih =>
    unfold search at h
    cases hs : step wn sorted eT (linspace0_99 bins (i + 1)) with
    | none => simp [hs] at h
    | some s0 =>
      simp only [hs] at h
      by_cases hr : Sc.le e s0.ratio = true
      · simp only [hr, if_true, Option.some.injEq, Prod.mk.injEq] at h
        obtain ⟨rfl, rfl⟩ := h
        exact ⟨le_refl _, hs, Or.inl hr⟩
      · simp only [hr, Bool.false_eq_true, if_false] at h
        obtain ⟨h1, h2, h3⟩ := ih h
        exact ⟨by omega, h2, h3⟩

/-- **upper set + alignment in every arithmetic.**  Whatever scalar type the model is run at — `ℝ`, `Rat`, or the `Float` the
    driver executes next to the real code — the result of `trim_weights` is obtained from ONE mask `m_i = (θ ≤ wn_i)` (the
    instance's own comparison) on the computed normalised weights `wn`, with `θ` the computed percentile at a grid point:
    samples are `samples[m]`, weights are `wn[m]` renormalised, and the two have the same length when the inputs have. -/
theorem C20_trim_upper_set_generic {σ : Type} (samples : List σ) (w : List α) (e : α) (bins : Nat)
    (s' : List σ) (w' : List α) (h : trim samples w e bins = some (s', w')) :
    ∃ (θ : α) (j : Nat), j < bins ∧
      percentileLinear (sortAsc (normalise w)) (linspace0_99 bins j) = some θ ∧
      s' = filterMask samples ((normalise w).map (fun x => Sc.le θ x)) ∧
      w' = normalise (filterMask (normalise w) ((normalise w).map (fun x => Sc.le θ x))) ∧
      (samples.length = w.length → s'.length = w'.length) := by
  unfold trim trimStop at h
  by_cases hb : bins = 0
  · simp [hb] at h
  · simp only [hb, if_false] at h
    cases hs : search (normalise w) (sortAsc (normalise w)) (Sc.div Sc.one (sumSq (normalise w))) e bins (bins - 1) with
    | none => rw [hs] at h; simp at h
    | some r =>
      obtain ⟨j, st⟩ := r
      rw [hs] at h
      simp only [Option.map_some, Option.some.injEq, Prod.mk.injEq] at h
      obtain ⟨hj, hstep, _⟩ := search_spec_generic _ _ _ _ _ _ _ _ hs
      obtain ⟨hp, hm, hw⟩ := step_spec_generic _ _ _ _ _ hstep
      refine ⟨st.thr, j, by omega, hp, ?_, ?_, ?_⟩
      · rw [← h.1, hm]
      · rw [← h.2, hw, hm]
      · intro hl
        rw [← h.1, ← h.2, hw, hm]
        have hnl : ∀ l : List α, (normalise l).length = l.length := fun l => by simp [normalise]
        rw [hnl]
        exact filterMask_length_eq _ _ _ (by rw [hnl]; exact hl)

end Generic

end Props.C20
