import TempestVerif.Props.C04Round
/-
  C04, second clause pass — clause 7b with the side conditions of `C04_rounded_finite` discharged from the
  statement's own quantifier, at the binary64 parameters.

  `C04_rounded_finite` has magnitude hypotheses (`|ℓ β_t| ≤ L`, `|z_t| ≤ Z`, `log N ≤ G`, `N·u ≤ 1/2`,
  `40(L+Z+G+N+1) ≤ Ω`).  Here they are derived from what the statement quantifies over — temperatures in [0, 1],
  log-likelihoods and evidence values of ANY magnitude up to 10^300, up to 10^15 stored particles — for the constants of
  IEEE binary64 (u = 2^-52, η = 2^-1074, Ω = 2^1023).  What is left is H-IEEE alone: that the hardware's `+ − ×` and
  numpy's `exp`/`log` round within `u|x| + η` (suite `ieee-H` samples this on every run).
-/
namespace Props.C04Round
open Model.Weights
set_option exponentiation.threshold 2000

variable {rnd : ℝ → ℝ}

/-- **finiteness for the whole quantifier domain (and far beyond), binary64 constants.** -/
theorem C04_rounded_finite_binary64 (rm : RoundModel rnd (1 / 2 ^ 52) (1 / 2 ^ 1074) (2 ^ 1023))
    (h : List (Batch (Rd rnd))) (β : Rd rnd) (nrm : Bool) (Lm Z : ℝ)
    (hne : h ≠ []) (hn : ∀ b ∈ h, 1 ≤ b.logl.length)
    (hl : ∀ l ∈ flatLogl h, |l.v| ≤ Lm) (hLm : Lm ≤ 10 ^ 300)
    (hb : ∀ b ∈ h, 0 ≤ b.beta.v ∧ b.beta.v ≤ 1) (hβ : 0 ≤ β.v ∧ β.v ≤ 1)
    (hZ : ∀ b ∈ h, |b.logz.v| ≤ Z) (hZm : Z ≤ 10 ^ 300)
    (hN : nTotal h ≤ 10 ^ 15) :
    (∀ x ∈ (logw h β nrm).1, |x.v| ≤ 30 * (Lm + Z + 2 * (nTotal h : ℝ) + 1)) ∧
    (∃ z, (logw h β nrm).2 = some z ∧ |z.v| ≤ 30 * (Lm + Z + 2 * (nTotal h : ℝ) + 1)) := by
  obtain ⟨b0, hb0⟩ := List.exists_mem_of_ne_nil h hne
  have hNpos : 1 ≤ nTotal h := (hn b0 hb0).trans (length_le_nTotal h b0 hb0)
  have hN1 : (1 : ℝ) ≤ (nTotal h : ℝ) := by exact_mod_cast hNpos
  have hNr : (nTotal h : ℝ) ≤ 10 ^ 15 := by exact_mod_cast hN
  have hG : Real.log (nTotal h : ℝ) ≤ (nTotal h : ℝ) := by
    have := Real.log_le_sub_one_of_pos (by linarith : (0 : ℝ) < (nTotal h : ℝ)); linarith
  have hmul : ∀ (l t : ℝ), |l| ≤ Lm → 0 ≤ t → t ≤ 1 → |l * t| ≤ Lm := by
    intro l t hl' h0 h1
    rw [abs_mul, abs_of_nonneg h0]
    have := abs_nonneg l
    nlinarith
  have key := C04_rounded_finite rm h β nrm Lm Z (nTotal h : ℝ) hne hn
    (fun b hb' l hl' => hmul l.v b.beta.v (hl l hl') (hb b hb').1 (hb b hb').2)
    (fun l hl' => hmul l.v β.v (hl l hl') hβ.1 hβ.2)
    hZ hG
    (by
      have : (2 : ℝ) ^ 51 * (1 / 2 ^ 52) = 1 / 2 := by norm_num
      have h51 : (nTotal h : ℝ) ≤ 2 ^ 51 := hNr.trans (by norm_num)
      nlinarith)
    (by
      have : (40 : ℝ) * (10 ^ 300 + 10 ^ 300 + 10 ^ 15 + 10 ^ 15 + 1) ≤ 2 ^ 1023 := by norm_num
      linarith)
  refine ⟨fun x hx => (key.1 x hx).trans (by linarith), ?_⟩
  obtain ⟨z, hz, hzb⟩ := key.2
  exact ⟨z, hz, hzb.trans (by linarith)⟩

/-! ### non-vacuity: a non-identity rounding function at the binary64 constants, a history at |ℓ| = 10^300 -/

noncomputable def rnd64 (x : ℝ) : ℝ := if |x| ≤ 2 ^ 1023 then x * (1 + 1 / 2 ^ 53) else 0

theorem rm_rnd64 : RoundModel rnd64 (1 / 2 ^ 52) (1 / 2 ^ 1074) (2 ^ 1023) where
  u_nonneg := by positivity
  u_le := by norm_num
  η_nonneg := by positivity
  η_le := by
    have : (1 : ℝ) / 2 ^ 1074 ≤ 1 / 2 ^ 3 := by
      apply one_div_le_one_div_of_le (by positivity)
      exact pow_le_pow_right₀ (by norm_num) (by norm_num)
    linarith [this, (by norm_num : (1 : ℝ) / 2 ^ 3 = 1 / 8)]
  err := by
    intro x hx
    have h0 := abs_nonneg x
    have : rnd64 x - x = x * (1 / 2 ^ 53) := by simp [rnd64, hx]; ring
    rw [this, abs_mul, abs_of_pos (by positivity : (0 : ℝ) < 1 / 2 ^ 53)]
    have hη : (0 : ℝ) ≤ 1 / 2 ^ 1074 := by positivity
    nlinarith

/-- β_t = (0, 1), z = (0, −10^299), sizes (2, 1), log-likelihoods ±10^300 -/
noncomputable def hHuge : List (Batch (Rd rnd64)) :=
  [⟨⟨0⟩, ⟨0⟩, [⟨10 ^ 300⟩, ⟨-10 ^ 300⟩]⟩, ⟨⟨1⟩, ⟨-10 ^ 299⟩, [⟨3 * 10 ^ 299⟩]⟩]

example : (∀ x ∈ (logw hHuge (⟨1⟩ : Rd rnd64) true).1, |x.v| ≤ 30 * (10 ^ 300 + 10 ^ 299 + 2 * 3 + 1)) ∧
    ∃ z, (logw hHuge (⟨1⟩ : Rd rnd64) true).2 = some z := by
  have hN : nTotal hHuge = 3 := by simp [hHuge, nTotal]
  have hfl : ∀ l ∈ flatLogl hHuge, |l.v| ≤ 10 ^ 300 := by
    intro l hl
    simp only [hHuge, flatLogl, List.flatMap_cons, List.flatMap_nil, List.append_nil, List.cons_append, List.nil_append,
      List.mem_cons, List.not_mem_nil, or_false] at hl
    rcases hl with rfl | rfl | rfl <;> norm_num [abs_le]
  have hb : ∀ b ∈ hHuge, (0 ≤ b.beta.v ∧ b.beta.v ≤ 1) ∧ |b.logz.v| ≤ 10 ^ 299 ∧ 1 ≤ b.logl.length := by
    intro b hb
    simp only [hHuge, List.mem_cons, List.not_mem_nil, or_false] at hb
    rcases hb with rfl | rfl <;> norm_num
  have := C04_rounded_finite_binary64 rm_rnd64 hHuge ⟨1⟩ true (10 ^ 300) (10 ^ 299) (by simp [hHuge])
    (fun b hb' => (hb b hb').2.2) hfl (le_refl _) (fun b hb' => (hb b hb').1) (by norm_num)
    (fun b hb' => (hb b hb').2.1) (by norm_num) (by rw [hN]; norm_num)
  rw [hN] at this
  obtain ⟨h1, z, hz, _⟩ := this
  exact ⟨by exact_mod_cast h1, z, hz⟩

end Props.C04Round
