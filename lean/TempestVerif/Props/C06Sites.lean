import TempestVerif.Props.C06X
import TempestVerif.Props.C20Sites
import TempestVerif.Props.C06Fp
/-
  C06, second pass (2): the link to C20's model of the Trainer.

  `Model.TrimSites.weightsAfterTrainer` (C20) is the array `execute_iteration` passes on to `resampler.run` after
  `trainer.run(weights)`; `Model.ResampleX.weightsAtResampler` (C06) is what the resampler model is fed.  Over ℝ they are the
  same vector, so `C06_iteration_syst_law` / `C06_iteration_syst_unbiased` / `C06_iteration_mult_valid` speak about the weights
  C20 proves the Trainer leaves behind (`C20_weights_after_trainer`).
-/
namespace Props.C06
open Model.Resample Model.ResampleX

/-- the Reweighter's `weights / np.sum(weights)` handed through C20's `Trainer.run` model arrives at the resampler as
    C06's `weightsAtResampler` — in the warm-up branch (`beta == 0`, untouched) and in the annealing branch (normalised
    once more in place by `trim_weights`) -/
theorem C06_trainer_hands_over {σ : Type} (u : List σ) (w : List ℝ) (e : ℝ) (bins : Nat)
    (hw0 : ∀ x ∈ w, 0 ≤ x) (hs : 0 < w.sum) (hl : u.length = w.length) (hb : 0 < bins) :
    Model.TrimSites.weightsAfterTrainer true u (normaliseNp w) e bins = some (weightsAtResampler true w) ∧
    Model.TrimSites.weightsAfterTrainer false u (normaliseNp w) e bins = some (weightsAtResampler false w) := by
  have h1 := normaliseNp_sum w hs.ne'
  have hnn := normaliseNp_nonneg w hw0 hs
  have hl' : u.length = (normaliseNp w).length := by rw [normaliseNp_length]; exact hl
  obtain ⟨ht, hf, _, _⟩ := Props.C20.C20_weights_after_trainer u (normaliseNp w) e bins hnn (by rw [h1]; norm_num) hl' hb
  refine ⟨?_, ?_⟩
  · rw [ht]; simp [weightsAtResampler]
  · rw [hf, (weightsAtResampler_real false w hw0 hs).1, h1]
    simp [normaliseNp_real]

/-- non-vacuity of `C06_trainer_hands_over`: unnormalised weights `[2, 1, 1]`, three pool rows, the sampler's trimming constants -/
example : Model.TrimSites.weightsAfterTrainer false ["a", "b", "c"] (normaliseNp ([2, 1, 1] : List ℝ)) (99 / 100) 1000
    = some (weightsAtResampler false ([2, 1, 1] : List ℝ)) :=
  (C06_trainer_hands_over ["a", "b", "c"] [2, 1, 1] (99 / 100) 1000
    (by intro x hx; simp at hx; rcases hx with rfl | rfl <;> norm_num) (by norm_num) (by simp) (by norm_num)).2

/-! ### from ANY vector of log-weights: non-negativity and a positive total are facts, not hypotheses -/

/-- **one iteration of a run, systematic scheme, from the log-weights**: `w = exp(logw − max logw)` (what
    `_compute_metric_and_weights` returns, for ANY non-empty log-weight vector `x :: xs`) is handed through
    `_finalize_iteration`, `Trainer.run` and `Resampler.run`; the indices gathered with obey the literal floor/ceil law for
    `w/Σw` and zero weights are not selected — no hypothesis on the weights is left (`C20_expShift_valid` discharges it). -/
theorem C06_iteration_from_logw (x : ℝ) (xs : List ℝ) (n : ℕ) (u0 : ℝ) (us : List ℝ) (idx : List ℕ) (hn : 1 ≤ n)
    (h0 : 0 ≤ u0) (h1 : u0 < 1)
    (h : iterationResample false Scheme.syst n (Model.TrimSites.expShift x xs) u0 us = RunResult.indices idx) :
    let w := Model.TrimSites.expShift x xs
    idx.length = n ∧ (∀ r ∈ idx, r < w.length) ∧ idx.Pairwise (· ≤ ·) ∧
    ∀ (j : ℕ) (hj : j < w.length),
      ((idx.count j : ℤ) = ⌊n * (w[j] / w.sum)⌋ ∨ (idx.count j : ℤ) = ⌈n * (w[j] / w.sum)⌉) ∧
      (w[j] = 0 → idx.count j = 0) := by
  intro w
  obtain ⟨hpos, _, hsum, _⟩ := Props.C20.C20_expShift_valid x xs
  exact C06_iteration_syst_law n w u0 us idx hn (fun y hy => (hpos y hy).1.le) (by linarith) h0 h1 h

/-- **`posterior(resample=True, trim_importance_weights=False)` from the log-weights**: the `len` indices obey the literal law -/
theorem C06_posterior_from_logw (x : ℝ) (xs : List ℝ) (u0 : ℝ) (idx : List ℕ) (h0 : 0 ≤ u0) (h1 : u0 < 1)
    (h : posteriorResampleNoTrim (Model.TrimSites.expShift x xs) u0 = some idx) :
    let w := Model.TrimSites.expShift x xs
    idx.length = w.length ∧ (∀ r ∈ idx, r < w.length) ∧ idx.Pairwise (· ≤ ·) ∧
    ∀ (j : ℕ) (hj : j < w.length),
      (idx.count j : ℤ) = ⌊w.length * (w[j] / w.sum)⌋ ∨ (idx.count j : ℤ) = ⌈w.length * (w[j] / w.sum)⌉ := by
  intro w
  obtain ⟨hpos, _, hsum, _⟩ := Props.C20.C20_expShift_valid x xs
  exact C06_posterior_law_notrim w u0 idx (fun y hy => (hpos y hy).1.le) (by linarith) h0 h1 h

/-- non-vacuity: log-weights `[0, -log 2]`... kept symbolic: the run exists for every offset (the routine never fails on a
    non-empty vector), so the hypothesis `h` of the two theorems above is met by `idx :=` its result -/
example (x : ℝ) (xs : List ℝ) (u0 : ℝ) : ∃ idx, posteriorResampleNoTrim (Model.TrimSites.expShift x xs) u0 = some idx := by
  have hne : normaliseNp (Model.TrimSites.expShift x xs) ≠ [] := by
    intro e
    have := congrArg List.length e
    rw [normaliseNp_length, (Props.C20.C20_expShift_valid x xs).2.2.2] at this
    simp at this
  obtain ⟨c0, t, _, h2⟩ := systematicWith_some (npSum (normaliseNp (Model.TrimSites.expShift x xs)))
    (normaliseNp (Model.TrimSites.expShift x xs)).length (normaliseNp (Model.TrimSites.expShift x xs)) u0 hne
  exact ⟨_, h2⟩

/-! ### `Resampler.run` in rounded arithmetic -/

/-- **`Resampler.run`, systematic scheme, rounded (floating-point) arithmetic** — with `np.sum` inside the model (its
    pairwise rounding errors only enter through which branch of the renormalisation is taken): whenever the inputs are floats
    and the effective weights are non-negative, the number of copies of `j` is within `1 + n·(|S − 1| + 6·eps + 4·m·eps·S)` of
    `n·v_j` (`v` the effective weights, `S` their exact sum), and a zero-weight particle is not selected (any index). -/
theorem C06_fp_resampler_run (R : Fp.Rnd) (n : ℕ) (w : List (Fp.Fl R)) (u0 : Fp.Fl R) (us : List (Fp.Fl R)) (idx : List ℕ)
    (hn : 1 ≤ n) (heps : R.eps ≤ 1 / 4) (hm : (w.length : ℝ) * R.eps ≤ 1 / 2)
    (hv0 : ∀ x ∈ renorm (npSum w) w, 0 ≤ Fp.toR x) (hrep : ∀ x ∈ w, R.rnd (Fp.toR x) = Fp.toR x)
    (h0 : 0 ≤ Fp.toR u0) (h1 : Fp.toR u0 < 1)
    (h : resamplerRunX false Scheme.syst n w u0 us = RunResult.indices idx) :
    (∀ (j : ℕ) (hj : j < (renorm (npSum w) w).length),
      |((idx.count j : ℕ) : ℝ) - n * Fp.toR (renorm (npSum w) w)[j]|
        < 1 + n * (|Fp.rsum (renorm (npSum w) w) - 1| + 6 * R.eps
                    + 4 * (w.length : ℝ) * R.eps * Fp.rsum (renorm (npSum w) w))) ∧
    (∀ (j : ℕ) (hj : j < (renorm (npSum w) w).length), (∃ x ∈ renorm (npSum w) w, 0 < Fp.toR x) →
      Fp.toR (renorm (npSum w) w)[j] = 0 → idx.count j = 0) := by
  have hs : systematicWith (npSum w) n w u0 = some idx := by
    simp only [resamplerRunX, Bool.false_eq_true, if_false, systematicNp] at h
    cases hsy : systematicWith (npSum w) n w u0 with
    | none => rw [hsy] at h; cases h
    | some l => rw [hsy] at h; injection h with h; rw [h]
  have hrep' := Fp.C06_fp_renorm_rep R (npSum w) w hrep
  exact ⟨fun j hj => Fp.C06_fp_count_bound R (npSum w) n w u0 idx hn heps hm hv0 hrep' h0 h1 hs j hj,
    fun j hj hpos hz => Fp.C06_fp_zero_weight_never R (npSum w) n w u0 idx heps hv0 hrep' hpos h0 h1 hs j hj hz⟩

end Props.C06
