import TempestVerif.Props.C03InvP
import TempestVerif.Props.C03Modes
import TempestVerif.Props.C03Run
import Mathlib.Tactic
/-
  C03 capstone: the invariance theorems with the hypothesis H_modes DISCHARGED by the model of `ModeStatistics.__init__`, and the
  per-walker statement for the ensemble model (any cluster assignment).
-/
set_option linter.unusedSimpArgs false
set_option linter.unusedVariables false
namespace Props.C03
open Real MeasureTheory ProbabilityTheory Set Model.Kernel Lemmas.MHKernel Matrix
open Lemmas.GaussJordan (matOf)
open scoped ENNReal NNReal

variable {d : ℕ}

/-- **no H_modes left**: for a symmetric positive definite covariance `Σ` the executable `ModeStatistics` model
    (`Model.ModeStatsNum.chol`, `Model.Student.inv`) answers with a factor `L` and the inverse `Σ⁻¹`, and with THESE statistics the
    law of one step of the kernel model leaves the tempered target invariant — tpCN for `0 < σ < 1`, `ν > 0`; RWM for `σ ≠ 0`;
    RWM with periodic coordinates `per`; every measurable log-likelihood, every mean `μ`, every β. -/
theorem C03_step_law_invariant_model_modes (Sg : Matrix (Fin d) (Fin d) ℝ) (hS : Sg.PosDef) :
    ∃ L : Matrix (Fin d) (Fin d) ℝ,
      Model.ModeStatsNum.chol (matOf Sg) = some (matOf L) ∧ Model.Student.inv (matOf Sg) = some (matOf Sg⁻¹) ∧
      (∀ (ℓ : V d → ℝ), Measurable ℓ → ∀ (μ : V d) (ν σ β : ℝ), 0 < ν → 0 < σ → σ < 1 →
        (targetV ℓ β).bind (tpcnLawV ℓ μ L Sg⁻¹ ν σ β) = targetV ℓ β) ∧
      (∀ (ℓ : V d → ℝ), Measurable ℓ → ∀ (μ : V d) (ν σ β : ℝ), σ ≠ 0 →
        (targetV ℓ β).bind (rwmLawV ℓ μ L Sg⁻¹ ν σ β) = targetV ℓ β) ∧
      (∀ (ℓ : V d → ℝ), Measurable ℓ → ∀ (per : List Nat) (μ : V d) (ν σ β : ℝ), σ ≠ 0 →
        (targetV ℓ β).bind (rwmLawVP ℓ per μ L Sg⁻¹ ν σ β) = targetV ℓ β) := by
  obtain ⟨L, hc, hi, -, -, hu, -, hinv⟩ := C03_model_modes_hypotheses Sg hS
  have hL : L.det ≠ 0 := isUnit_iff_ne_zero.1 hu
  refine ⟨L, hc, hi, ?_, ?_, ?_⟩
  · intro ℓ hℓ μ ν σ β hν h0 h1
    exact C03_tpcn_step_law_invariant hℓ μ L Sg⁻¹ ν σ β hν h0 h1 hL hinv
  · intro ℓ hℓ μ ν σ β hσ
    exact C03_rwm_step_law_invariant hℓ μ L Sg⁻¹ ν σ β hL hσ
  · intro ℓ hℓ per μ ν σ β hσ
    exact C03_rwm_periodic_step_law_invariant hℓ per μ L Sg⁻¹ ν σ β hL hσ

/-- non-vacuity: the correlated 3 × 3 covariance of `Props/C03Modes.lean` -/
example : ∃ L : Matrix (Fin 3) (Fin 3) ℝ, Model.ModeStatsNum.chol (matOf exS) = some (matOf L) ∧
    ∀ (ℓ : V 3 → ℝ), Measurable ℓ → ∀ (μ : V 3) (ν σ β : ℝ), 0 < ν → 0 < σ → σ < 1 →
      (targetV ℓ β).bind (tpcnLawV ℓ μ L exS⁻¹ ν σ β) = targetV ℓ β := by
  obtain ⟨L, hc, -, h, -⟩ := C03_step_law_invariant_model_modes exS exS_posDef
  exact ⟨L, hc, h⟩

/-- **any cluster assignment**: in the ensemble model a walker assigned to mode `a` is stepped with the statistics and the step
    size of mode `a` (`C03_walker_uses_own_mode`); if that mode is `(μ, L, S, ν)` in vector form and the walker sits at `x`, its
    step IS the closed single-walker step whose law the theorems above are about — whatever `a` is -/
theorem C03_walker_step_is_closed_step (i : RunIn ℝ) (w : Walker ℝ) (o : StepOut ℝ) (h : walkerStep i w = some o)
    (μ : V d) (L S : Matrix (Fin d) (Fin d) ℝ) (ν σ : ℝ) (x z : V d)
    (hmode : i.modes[w.assign]? = some { mu := List.ofFn μ, chol := matOf L, invcov := matOf S, nu := ν })
    (hsig : i.sigmas[w.assign]? = some σ) (hu : w.u = List.ofFn x) (hz : w.z = List.ofFn z)
    (hper : i.per = []) (hrefl : i.refl = []) :
    o = step { inD i.kind μ L S ν σ i.beta w.l w.lp x w.g z w.r with } := by
  obtain ⟨m, sg, hm, hs, ho⟩ := C03_walker_uses_own_mode i w o h
  rw [hmode] at hm
  rw [hsig] at hs
  simp only [Option.some.injEq] at hm hs
  subst hm hs
  rw [ho, hu, hz, hper, hrefl]
  rfl

end Props.C03
