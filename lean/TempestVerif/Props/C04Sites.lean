import TempestVerif.Gen.WeightSites
/-
  C04, second clause pass — the STATIC tie: what the hand-written models mirror, read from /repo's source by translator
  G13 (`translate/g13_wsites.py` → `Gen/WeightSites.lean`, regenerated on every run of the check).

  The obligations below are closed facts about the regenerated tables (`decide`).  When the source changes they stop
  checking, and the models (`Model.Weights`, `Model.WeightsKeys`, `Model.ClosedLoop.posteriorArrs / finalLogz / evidence`)
  have to be re-mirrored — a refactoring that keeps the meaning but not the text is meant to trip them.
-/
namespace Props.C04Sites
open Gen.WeightSites

/-- the statements `Model.Weights.logw` / `Model.WeightsKeys.logwK` mirror, one by one -/
theorem C04_source_logw_body : logwBody =
    ["beta = np.asarray(self.get_history('beta'))",
     "if beta.size == 0: {return (np.array([]), -np.inf)}",
     "logz_iter = np.asarray(self.get_history('logz'))",
     "logl_all = self.get_history('logl', flat=True)",
     "A = logl_all * beta_final",
     "logl_per_iter = self._history.get('logl')",
     "n_per_iter = np.array([len(logl_per_iter[t]) for t in range(len(beta))])",
     "N_total = n_per_iter.sum()",
     "b = logl_all[:, None] * beta[None, :] - logz_iter[None, :]",
     "log_mixture_weights = np.log(n_per_iter) - np.log(N_total)",
     "b_weighted = b + log_mixture_weights[None, :]",
     "B = np.logaddexp.reduce(b_weighted, axis=1)",
     "logw = A - B",
     "logz_new = np.logaddexp.reduce(logw) - np.log(logw.size)",
     "if normalize and logw.size: {logw = logw - np.logaddexp.reduce(logw)}",
     "return (logw, logz_new)"] := by decide

/-- `normalize` defaults to `True`, the target to 1 -/
theorem C04_source_signature : logwSignature = ["self", "beta_final=1.0", "normalize=True"] := by decide

/-- **closed world of callers.**  Every call of the weight function in the package passes exactly one positional
    argument and no keyword — so `normalize=True` everywhere — and these are all the calls there are:
    the epilogue of `run_sampling`, `compute_posterior`, the guard and `compute_results` at the literal `1.0`
    (`Model.ClosedLoop.finalLogz / posteriorArrs / contGuard`, `Model.WeightsKeys.computeResults`), the reweighting step at
    its trial temperature (`Model.Pipeline.oracleM / oracleZ`) -/
theorem C04_source_call_sites : logwCallSites.map (fun s => (s.2.1, s.2.2.1, s.2.2.2)) =
    [("SamplerCore.run_sampling", "1.0", "(_, logz)"),
     ("SamplerCore.compute_posterior", "1.0", "(logw, logz)"),
     ("SamplerCore._not_termination", "1.0", "(logw, _)"),
     ("StateManager.compute_results", "1.0", "(logw, _)"),
     ("Reweighter._compute_metric_and_weights", "beta", "(logw, _)"),
     ("Reweighter.run", "beta", "(_, logz)"),
     ("Reweighter.run", "beta", "(_, logz)")] := by decide

/-- **cache discipline.**  Every method of `StateManager` that writes `_history` or `_current` calls
    `_invalidate_cache()` (the `Op`s of `Model.WeightsKeys.step` that change the state all reset the cache) -/
theorem C04_source_cache_discipline : ∀ m ∈ stateWriters, m ∈ cacheInvalidators := by decide

/-- the cache is written in three places only: created empty, reset to `None`, filled by `compute_results` -/
theorem C04_source_cache_writers :
    cacheWriters = ["__init__", "_invalidate_cache", "compute_results"] ∧ invalidateBody = ["self._results_dict = None"] := by
  decide

/-- the text `Model.WeightsKeys.computeResults` mirrors — note `self._results_dict = dict()` BEFORE the loop that can raise
    (finding `C04K_results_partial_after_raise`) -/
theorem C04_source_results_body : resultsBody =
    ["if self._results_dict is None: {self._results_dict = dict(); for key in self._history.keys(): {self._results_dict[key] = self.get_history(key)}; logw, _ = self.compute_logw_and_logz(1.0); self._results_dict['logw'] = logw}",
     "return {k: self._ensure_copy(v) for k, v in self._results_dict.items()}"] := rfl

/-- what the two observation points hand out: `evidence()` is the current `logz` slot (written by the epilogue),
    `posterior()` starts from the normalised β = 1 weights and exponentiates them after subtracting the maximum -/
theorem C04_source_handout :
    evidenceBody = ["logz = self.state.get_current('logz')", "return (logz, getattr(self, 'logz_err', None))"] ∧
    posteriorHead = ["logw, logz = self.state.compute_logw_and_logz(1.0)", "weights = np.exp(logw - np.max(logw))",
                     "weights /= np.sum(weights)"] := by decide

end Props.C04Sites
