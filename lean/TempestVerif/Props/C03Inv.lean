import TempestVerif.Props.C03
import TempestVerif.Lemmas.MHKernel
import Mathlib.Probability.Distributions.Gaussian.Real
import Mathlib.Probability.Distributions.Gamma
import Mathlib.MeasureTheory.Measure.Count
import Mathlib.Probability.Kernel.Composition.Lemmas
import Mathlib.Probability.Kernel.Composition.KernelLemmas
import Mathlib.Tactic
/-
  C03, clause 14 — "leaves that distribution unchanged": from detailed balance to invariance of the LAW, formally.
-/
set_option linter.unusedSimpArgs false
set_option linter.unusedVariables false
namespace Props.C03
open Real MeasureTheory ProbabilityTheory Set Model.Kernel Lemmas.MHKernel
open scoped ENNReal NNReal

/-! ## A. detailed balance ⇒ invariance, on any measurable space (clause 14)

  `Lemmas.MHKernel`: for an s-finite reference measure `μ` on a measurable space `X`, a jointly measurable sub-density
  `k x y` (proposal density × acceptance probability, total mass ≤ 1) defines the Markov kernel
  `K(x, B) = ∫_B k x y dμ(y) + (1 − ∫ k x y dμ(y)) 1_B(x)`; pointwise detailed balance `p x · k x y = p y · k y x` makes it
  reversible (Mathlib's `Kernel.IsReversible`) and hence invariant (`Kernel.Invariant`: `(μ.withDensity p).bind K = μ.withDensity p`)
  — the rejection mass included.  Instances: a finite state space with the counting measure, ℝ^d with Lebesgue measure. -/

/-- **detailed balance ⇒ the target law is invariant**, any measurable space, any s-finite reference measure -/
theorem C03_db_implies_invariant {X : Type*} [MeasurableSpace X] (μ : Measure X) [SFinite μ] {k : X → X → ℝ≥0∞}
    (hk : Measurable (Function.uncurry k)) (hm : ∀ x, ∫⁻ y, k x y ∂μ ≤ 1) {p : X → ℝ≥0∞} (hp : Measurable p)
    (hdb : ∀ x y, p x * k x y = p y * k y x) :
    (μ.withDensity p).bind (mhKernel μ k) = μ.withDensity p :=
  mhKernel_invariant μ hk hm hp hdb

/-- the kernel of the statement above as a set function: move with the sub-density, stay with the rejection mass -/
theorem C03_mh_kernel_apply {X : Type*} [MeasurableSpace X] (μ : Measure X) [SFinite μ] {k : X → X → ℝ≥0∞}
    (hk : Measurable (Function.uncurry k)) (x : X) {B : Set X} (hB : MeasurableSet B) :
    mhKernel μ k x B = ∫⁻ y in B, k x y ∂μ + (1 - ∫⁻ y, k x y ∂μ) * B.indicator 1 x :=
  mhKernel_apply μ hk x hB

/-- … and it is reversible in Mathlib's sense: the flow from `A` to `B` equals the flow from `B` to `A` -/
theorem C03_db_implies_reversible {X : Type*} [MeasurableSpace X] (μ : Measure X) [SFinite μ] {k : X → X → ℝ≥0∞}
    (hk : Measurable (Function.uncurry k)) {p : X → ℝ≥0∞} (hp : Measurable p)
    (hdb : ∀ x y, p x * k x y = p y * k y x) {A B : Set X} (hA : MeasurableSet A) (hB : MeasurableSet B) :
    ∫⁻ x in A, mhKernel μ k x B ∂(μ.withDensity p) = ∫⁻ x in B, mhKernel μ k x A ∂(μ.withDensity p) :=
  mhKernel_reversible μ hk hp hdb hA hB

/-- finite state space (counting measure): `Σ_y k x y ≤ 1` and `p x k x y = p y k y x` ⇒ `p` is invariant -/
theorem C03_db_implies_invariant_finite {X : Type*} [Fintype X] [MeasurableSpace X] [MeasurableSingletonClass X]
    (k : X → X → ℝ≥0∞) (p : X → ℝ≥0∞) (hm : ∀ x, ∑ y, k x y ≤ 1) (hdb : ∀ x y, p x * k x y = p y * k y x) :
    (Measure.count.withDensity p).bind (mhKernel Measure.count k) = Measure.count.withDensity p := by
  refine mhKernel_invariant Measure.count (Measurable.of_discrete) (fun x => ?_) (Measurable.of_discrete) hdb
  unfold moveMass
  rw [lintegral_count, tsum_fintype]
  exact hm x

/-- real-valued version: `k`, `p` given as non-negative reals -/
theorem C03_db_implies_invariant_finite_real {X : Type*} [Fintype X] [MeasurableSpace X] [MeasurableSingletonClass X]
    (k : X → X → ℝ) (p : X → ℝ) (hk : ∀ x y, 0 ≤ k x y) (hp : ∀ x, 0 ≤ p x) (hm : ∀ x, ∑ y, k x y ≤ 1)
    (hdb : ∀ x y, p x * k x y = p y * k y x) :
    (Measure.count.withDensity fun x => ENNReal.ofReal (p x)).bind
        (mhKernel Measure.count fun x y => ENNReal.ofReal (k x y))
      = Measure.count.withDensity fun x => ENNReal.ofReal (p x) := by
  refine C03_db_implies_invariant_finite _ _ (fun x => ?_) (fun x y => ?_)
  · rw [← ENNReal.ofReal_sum_of_nonneg fun y _ => hk x y]
    simpa using ENNReal.ofReal_le_ofReal (hm x)
  · rw [← ENNReal.ofReal_mul (hp x), ← ENNReal.ofReal_mul (hp y), hdb]

/-- non-vacuity on three states: a lazy walk, non-uniform target `(1, 2, 1)`, non-trivial rejection mass -/
example :
    let k : Fin 3 → Fin 3 → ℝ := fun x y =>
      if x = 0 ∧ y = 1 then 1 / 2 else if x = 1 ∧ y = 0 then 1 / 4 else
      if x = 1 ∧ y = 2 then 1 / 4 else if x = 2 ∧ y = 1 then 1 / 2 else 0
    let p : Fin 3 → ℝ := fun x => if x = 1 then 2 else 1
    (Measure.count.withDensity fun x => ENNReal.ofReal (p x)).bind
        (mhKernel Measure.count fun x y => ENNReal.ofReal (k x y))
      = Measure.count.withDensity fun x => ENNReal.ofReal (p x) := by
  intro k p
  refine C03_db_implies_invariant_finite_real k p (fun x y => ?_) (fun x => ?_) (fun x => ?_) (fun x y => ?_)
  · simp only [k]; split_ifs <;> norm_num
  · simp only [p]; split_ifs <;> norm_num
  · fin_cases x <;> simp [k, Fin.sum_univ_three] <;> norm_num
  · fin_cases x <;> fin_cases y <;> simp [k, p] <;> norm_num

/-! ### H_assign is necessary: a kernel CHOSEN BY THE START POINT is not invariant even if every candidate kernel is reversible

  Two states, uniform target, `P₀` = stay (identity), `P₁` = swap: both reversible w.r.t. the uniform law.  Selecting the kernel by
  the current state (`c 0 = 0`, `c 1 = 1`, as `clusterer.predict(u)` does in the pipeline) gives the kernel "go to 0", which maps
  the uniform law to the point mass at 0.  With the assignment a function of the walker INDEX (what the runner sees and never
  writes: `C03_run_assignments_fixed`) each walker has ONE kernel and the theorems above apply. -/

/-- transition probabilities of the two candidate kernels on `Fin 2` -/
def selK (c : Fin 2) (x y : Fin 2) : ℚ := if c = 0 then (if x = y then 1 else 0) else (if x = y then 0 else 1)

theorem C03_state_dependent_assignment_not_invariant :
    (∀ c x y, (1 / 2 : ℚ) * selK c x y = (1 / 2 : ℚ) * selK c y x) ∧
    (∀ c y, ∑ x, (1 / 2 : ℚ) * selK c x y = 1 / 2) ∧
    (∑ x : Fin 2, (1 / 2 : ℚ) * selK x x 0 = 1 ∧ ∑ x : Fin 2, (1 / 2 : ℚ) * selK x x 1 = 0) := by
  refine ⟨?_, ?_, ?_, ?_⟩
  · intro c x y; fin_cases c <;> fin_cases x <;> fin_cases y <;> simp [selK]
  · intro c y; fin_cases c <;> fin_cases y <;> simp [selK, Fin.sum_univ_two]
  · simp [selK, Fin.sum_univ_two]; norm_num
  · simp [selK, Fin.sum_univ_two]

/-! ## B. the executable kernel model in d = 1 (hard boundaries), closed over the likelihood -/

/-- one-walker input of `Model.Kernel.step` in dimension 1 with hard boundaries -/
noncomputable def in1 (kind : Kind) (m L ic ν σ β lx lp x g z r : ℝ) : StepIn ℝ :=
  { kind, u := [x], mu := [m], chol := [[L]], invcov := [[ic]], nu := ν, sigma := σ, beta := β, l := lx, lp := lp,
    g := g, r := r, z := [z], per := [], refl := [] }

/-- raw tpCN candidate `μ + √(1−σ²)(x−μ) + σ √(1/g) L z` -/
noncomputable def cand1T (m L σ x g z : ℝ) : ℝ := m + √(1 - σ * σ) * (x - m) + σ * √(1 / g) * L * z
/-- raw RWM candidate `x + σ L z` -/
noncomputable def cand1R (L σ x z : ℝ) : ℝ := x + σ * L * z

theorem step_cand_tpcn (m L ic ν σ β lx lp x g z r : ℝ) :
    (step (in1 .tpcn m L ic ν σ β lx lp x g z r)).cand = [cand1T m L σ x g z] := by
  simp [step, finish, in1, cand1T, Model.Boundary.apply, tpcnProposal, vadd, Model.Kernel.vsub, matVec, scaleMat, dotv, Sc.sum,
    diffCoef, noiseScale, sFromGamma]

theorem step_cand_rwm (m L ic ν σ β lx lp x g z r : ℝ) :
    (step (in1 .rwm m L ic ν σ β lx lp x g z r)).cand = [cand1R L σ x z] := by
  simp [step, finish, in1, cand1R, Model.Boundary.apply, rwmProposal, vadd, matVec, scaleMat, dotv, Sc.sum]

/-- the kernel model closed over the user's log-likelihood `ℓ` (a function of the point in the cube; `prior_transform` is
    absorbed into it): `l` is `ℓ` at the current point and `lp` is `ℓ` at the point the step passes on (`prop`: the candidate, or
    the current point when the candidate failed `check_bounds`) — `run` evaluates `log_likelihood(prior_transform(u_prime))` -/
noncomputable def closedStep (ℓ : List ℝ → ℝ) (i : StepIn ℝ) : StepOut ℝ :=
  step { i with l := ℓ i.u, lp := ℓ (step i).prop }

/-- acceptance probability of the tpCN model as a function of the current point and the RAW candidate, d = 1, hard walls -/
noncomputable def acc1T (ℓ : ℝ → ℝ) (m ic ν β x c : ℝ) : ℝ :=
  if 0 ≤ c ∧ c ≤ 1 then
    min 1 (exp (β * (ℓ c - ℓ x) + tpcnLogFactor (1 : ℝ) ν ((x - m) * ic * (x - m)) ((c - m) * ic * (c - m))))
  else 0

noncomputable def acc1R (ℓ : ℝ → ℝ) (β x c : ℝ) : ℝ :=
  if 0 ≤ c ∧ c ≤ 1 then min 1 (exp (β * (ℓ c - ℓ x))) else 0

theorem acc1T_nonneg (ℓ : ℝ → ℝ) (m ic ν β x c : ℝ) : 0 ≤ acc1T ℓ m ic ν β x c := by
  unfold acc1T; split
  · exact le_min zero_le_one (exp_pos _).le
  · exact le_rfl

theorem acc1T_le_one (ℓ : ℝ → ℝ) (m ic ν β x c : ℝ) : acc1T ℓ m ic ν β x c ≤ 1 := by
  unfold acc1T; split
  · exact min_le_left _ _
  · exact zero_le_one

theorem acc1R_nonneg (ℓ : ℝ → ℝ) (β x c : ℝ) : 0 ≤ acc1R ℓ β x c := by
  unfold acc1R; split
  · exact le_min zero_le_one (exp_pos _).le
  · exact le_rfl

theorem acc1R_le_one (ℓ : ℝ → ℝ) (β x c : ℝ) : acc1R ℓ β x c ≤ 1 := by
  unfold acc1R; split
  · exact min_le_left _ _
  · exact zero_le_one

theorem raw_tpcn (m L σ x g z : ℝ) :
    Model.Boundary.apply ([] : List Nat) [] (tpcnProposal [m] [x - m] [[L]] σ (sFromGamma g) [z])
      = [cand1T m L σ x g z] := by
  simp [cand1T, Model.Boundary.apply, tpcnProposal, vadd, Model.Kernel.vsub, matVec, scaleMat, dotv, Sc.sum,
    diffCoef, noiseScale, sFromGamma]

theorem raw_rwm (L σ x z : ℝ) :
    Model.Boundary.apply ([] : List Nat) [] (rwmProposal [x] [[L]] σ [z]) = [cand1R L σ x z] := by
  simp [cand1R, Model.Boundary.apply, rwmProposal, vadd, matVec, scaleMat, dotv, Sc.sum]

theorem checkBounds_single (c : ℝ) :
    Model.Boundary.checkBounds ([] : List Nat) [] [c] = decide (0 ≤ c ∧ c ≤ 1) := by
  simp [Model.Boundary.checkBounds, Model.Boundary.inUnit, Sc.le]

theorem qform_single (a ic : ℝ) : qform [a] [[ic]] = a * ic * a := by
  simp [qform, vecMat, columns, dotv, Sc.sum]

theorem vsub_single (a b : ℝ) : Model.Kernel.vsub [a] [b] = [a - b] := by simp [Model.Kernel.vsub]

/-- **the model's step in d = 1 IS an accept/reject step**: for a uniform draw `r ≥ 0` the new state of the closed tpCN model is
    `if r < acc(x, c) then c else x` with `c` the raw candidate (an out-of-cube candidate has `acc = 0`: the walker stays) -/
theorem closedStep_tpcn_1d (ℓ : List ℝ → ℝ) (m L ic ν σ β lx lp x g z r : ℝ) (hr : 0 ≤ r) :
    (closedStep ℓ (in1 .tpcn m L ic ν σ β lx lp x g z r)).newU
      = [acceptReject x (acc1T (fun c => ℓ [c]) m ic ν β x) (cand1T m L σ x g z, r)] := by
  simp only [closedStep, step, in1, finish, raw_tpcn, checkBounds_single, vsub_single, qform_single]
  by_cases hin : 0 ≤ cand1T m L σ x g z ∧ cand1T m L σ x g z ≤ 1
  · simp [hin, acceptReject, acc1T, boundedAlpha, acceptDecision, model_acceptProb, vsub_single, qform_single]
    split <;> rfl
  · simp [hin, acceptReject, acc1T, boundedAlpha, acceptDecision, model_acceptProb, vsub_single, qform_single,
      alphaOutOfBounds, not_lt.2 hr]

theorem closedStep_rwm_1d (ℓ : List ℝ → ℝ) (m L ic ν σ β lx lp x g z r : ℝ) (hr : 0 ≤ r) :
    (closedStep ℓ (in1 .rwm m L ic ν σ β lx lp x g z r)).newU
      = [acceptReject x (acc1R (fun c => ℓ [c]) β x) (cand1R L σ x z, r)] := by
  simp only [closedStep, step, in1, finish, raw_rwm, checkBounds_single]
  by_cases hin : 0 ≤ cand1R L σ x z ∧ cand1R L σ x z ≤ 1
  · simp [hin, acceptReject, acc1R, boundedAlpha, acceptDecision, model_acceptProb, rwmLogFactor]
    split <;> rfl
  · simp [hin, acceptReject, acc1R, boundedAlpha, acceptDecision, model_acceptProb, rwmLogFactor,
      alphaOutOfBounds, not_lt.2 hr]

/-- the gamma parameters the tpCN model hands to `np.random.gamma` depend on the current point only -/
theorem closedStep_tpcn_gamma (ℓ : List ℝ → ℝ) (m L ic ν σ β lx lp x g z r : ℝ) :
    (closedStep ℓ (in1 .tpcn m L ic ν σ β lx lp x g z r)).shape = gammaShape (1 : ℝ) ν ∧
    (closedStep ℓ (in1 .tpcn m L ic ν σ β lx lp x g z r)).scale = gammaScale ν ((x - m) * ic * (x - m)) := by
  simp [closedStep, step, in1, finish, vsub_single, qform_single]

/-! ## C. the LAW of the step, and its invariance (d = 1, hard walls)

  Tapes: `z ~ N(0,1)` (`np.random.randn`), `r ~ U[0,1)` (`np.random.rand`), for tpCN `g ~ Gamma(shape, scale)` with the shape
  and scale the model hands to `np.random.gamma` (Mathlib's `gammaMeasure a r` has RATE `r = 1/scale`), all independent.
  The new state is a measurable function of (x, tapes): the closed model step.  Its law is a Markov kernel; the theorems say that
  this kernel leaves `exp(β ℓ) · 1_[0,1] · Lebesgue` invariant — for EVERY measurable log-likelihood `ℓ`, every β, every mode. -/

/-- target (unnormalised): `exp(β ℓ)` on the unit interval, nothing outside -/
noncomputable def target1 (ℓ : ℝ → ℝ) (β : ℝ) : Measure ℝ :=
  volume.withDensity fun x => ENNReal.ofReal ((Icc (0 : ℝ) 1).indicator (fun x => exp (β * ℓ x)) x)

/-- a log-likelihood on points of the 1-dimensional cube, as the model sees it (a function of the coordinate list) -/
noncomputable def liftL (ℓ : ℝ → ℝ) : List ℝ → ℝ
  | [c] => ℓ c
  | _ => 0

/-- the new state of the closed model step in d = 1 as a real number (`newU` is a one-element list: `newState1_eq_*`) -/
noncomputable def newState1 (kind : Kind) (ℓ : ℝ → ℝ) (m L ic ν σ β x g z r : ℝ) : ℝ :=
  match (closedStep (liftL ℓ) (in1 kind m L ic ν σ β 0 0 x g z r)).newU with
  | [y] => y
  | _ => x

theorem newState1_eq_rwm (ℓ : ℝ → ℝ) (m L ic ν σ β x g z r : ℝ) (hr : 0 ≤ r) :
    newState1 .rwm ℓ m L ic ν σ β x g z r = acceptReject x (acc1R ℓ β x) (cand1R L σ x z, r) := by
  unfold newState1
  rw [closedStep_rwm_1d (liftL ℓ) m L ic ν σ β 0 0 x g z r hr]
  rfl

theorem newState1_eq_tpcn (ℓ : ℝ → ℝ) (m L ic ν σ β x g z r : ℝ) (hr : 0 ≤ r) :
    newState1 .tpcn ℓ m L ic ν σ β x g z r = acceptReject x (acc1T ℓ m ic ν β x) (cand1T m L σ x g z, r) := by
  unfold newState1
  rw [closedStep_tpcn_1d (liftL ℓ) m L ic ν σ β 0 0 x g z r hr]
  rfl

theorem measurable_acc1R {ℓ : ℝ → ℝ} (hℓ : Measurable ℓ) (β : ℝ) :
    Measurable (Function.uncurry (acc1R ℓ β)) := by
  unfold acc1R Function.uncurry
  refine Measurable.ite ?_ ?_ measurable_const
  · exact (measurableSet_le measurable_const measurable_snd).inter (measurableSet_le measurable_snd measurable_const)
  · exact measurable_const.min (measurable_exp.comp (measurable_const.mul
      ((hℓ.comp measurable_snd).sub (hℓ.comp measurable_fst))))

/-- variance `(σ L)²` of the RWM increment as an `ℝ≥0` -/
noncomputable def varR (L σ : ℝ) : ℝ≥0 := ⟨(σ * L) ^ 2, sq_nonneg _⟩

theorem varR_ne_zero {L σ : ℝ} (h : σ * L ≠ 0) : varR L σ ≠ 0 := by
  intro h0
  have : ((varR L σ : ℝ≥0) : ℝ) = 0 := by rw [h0]; rfl
  exact h (pow_eq_zero_iff (two_ne_zero) |>.1 this)

/-- law of the RWM candidate `x + σ L z`, `z ~ N(0,1)`: `N(x, (σL)²)` -/
theorem rwm_candidate_law (L σ x : ℝ) :
    (gaussianReal 0 1).map (cand1R L σ x) = gaussianReal x (varR L σ) := by
  have h1 : cand1R L σ x = (fun y => x + y) ∘ fun z => (σ * L) * z := by
    funext z; simp [cand1R]
  rw [h1, ← Measure.map_map (by fun_prop) (by fun_prop), gaussianReal_map_const_mul, gaussianReal_map_const_add]
  congr 1
  · ring
  · ext; simp [varR]; rfl

/-- the law of the new state of one RWM step of the closed model (d = 1, hard walls) from the current point `x` -/
noncomputable def rwmLaw1 (ℓ : ℝ → ℝ) (m L ic ν σ β x : ℝ) : Measure ℝ :=
  ((gaussianReal 0 1).prod unif).map fun w => newState1 .rwm ℓ m L ic ν σ β x 0 w.1 w.2

/-- sub-density of the RWM kernel: Gaussian proposal density × the model's acceptance probability -/
noncomputable def rwmSub1 (ℓ : ℝ → ℝ) (L σ β : ℝ) (x y : ℝ) : ℝ≥0∞ :=
  gaussianPDF x (varR L σ) y * ENNReal.ofReal (acc1R ℓ β x y)

theorem measurable_gaussianPDF_pair (v : ℝ≥0) : Measurable (Function.uncurry fun x y : ℝ => gaussianPDF x v y) := by
  have := measurable_uncurry_gaussianPDF
  exact this.comp (measurable_fst.prodMk (measurable_const.prodMk measurable_snd))

/-- **the law of the model's RWM step is the Metropolis kernel** with the Gaussian proposal density and the model's acceptance -/
theorem rwmLaw1_eq_mhKernel {ℓ : ℝ → ℝ} (hℓ : Measurable ℓ) (m L ic ν σ β : ℝ) (h : σ * L ≠ 0) (x : ℝ) :
    rwmLaw1 ℓ m L ic ν σ β x = mhKernel volume (rwmSub1 ℓ L σ β) x := by
  have hv := varR_ne_zero h
  unfold rwmLaw1
  rw [tapeStep_law (gaussianReal 0 1) (c := cand1R L σ x) (by unfold cand1R; fun_prop) x
    ((measurable_acc1R hℓ β).of_uncurry_left) (fun z r hr => newState1_eq_rwm ℓ m L ic ν σ β x 0 z r hr),
    rwm_candidate_law, gaussianReal_of_var_ne_zero _ hv]
  exact acceptReject_eq_mhKernel volume (q := fun x y => gaussianPDF x (varR L σ) y) (measurable_gaussianPDF_pair _)
    (fun x => lintegral_gaussianPDF_eq_one x hv) (measurable_acc1R hℓ β) (acc1R_nonneg ℓ β) (acc1R_le_one ℓ β) x

theorem gaussianPDF_symm (v : ℝ≥0) (x y : ℝ) : gaussianPDF x v y = gaussianPDF y v x := by
  unfold gaussianPDF gaussianPDFReal
  congr 3; ring

/-- pointwise detailed balance of the RWM sub-density w.r.t. `exp(β ℓ) 1_[0,1]` — for EVERY pair of real numbers -/
theorem rwmSub1_detailed_balance (ℓ : ℝ → ℝ) (L σ β x y : ℝ) :
    ENNReal.ofReal ((Icc (0 : ℝ) 1).indicator (fun x => exp (β * ℓ x)) x) * rwmSub1 ℓ L σ β x y
      = ENNReal.ofReal ((Icc (0 : ℝ) 1).indicator (fun x => exp (β * ℓ x)) y) * rwmSub1 ℓ L σ β y x := by
  unfold rwmSub1 acc1R
  by_cases hx : x ∈ Icc (0 : ℝ) 1 <;> by_cases hy : y ∈ Icc (0 : ℝ) 1
  · have hx' : 0 ≤ x ∧ x ≤ 1 := hx
    have hy' : 0 ≤ y ∧ y ≤ 1 := hy
    simp only [hx, hy, hx', hy', indicator_of_mem, if_true, and_self]
    have e1 : exp (β * (ℓ y - ℓ x)) = exp (β * ℓ y) * 1 / (exp (β * ℓ x) * 1) := by
      rw [mul_one, mul_one, ← exp_sub]; congr 1; ring
    have e2 : exp (β * (ℓ x - ℓ y)) = exp (β * ℓ x) * 1 / (exp (β * ℓ y) * 1) := by
      rw [mul_one, mul_one, ← exp_sub]; congr 1; ring
    rw [e1, e2]
    exact mh_flow_symm _ _ 1 1 (exp_pos _) (exp_pos _) one_pos one_pos _ _ (by rw [gaussianPDF_symm])
  · have hy' : ¬ (0 ≤ y ∧ y ≤ 1) := hy
    simp [hx, hy, hy']
  · have hx' : ¬ (0 ≤ x ∧ x ≤ 1) := hx
    simp [hx, hy, hx']
  · simp [hx, hy]

/-- **RWM, d = 1, hard walls: the law of the model's step leaves the tempered target invariant** — for every measurable
    log-likelihood, every β, every proposal scale `L` and every step size σ with `σ L ≠ 0`. -/
theorem C03_rwm_step_law_invariant_1d {ℓ : ℝ → ℝ} (hℓ : Measurable ℓ) (m L ic ν σ β : ℝ) (h : σ * L ≠ 0) :
    (target1 ℓ β).bind (rwmLaw1 ℓ m L ic ν σ β) = target1 ℓ β := by
  have hfun : rwmLaw1 ℓ m L ic ν σ β = ⇑(mhKernel volume (rwmSub1 ℓ L σ β)) :=
    funext fun x => rwmLaw1_eq_mhKernel hℓ m L ic ν σ β h x
  have hk : Measurable (Function.uncurry (rwmSub1 ℓ L σ β)) :=
    (measurable_gaussianPDF_pair _).mul (ENNReal.measurable_ofReal.comp (measurable_acc1R hℓ β))
  have hp : Measurable fun x => ENNReal.ofReal ((Icc (0 : ℝ) 1).indicator (fun x => exp (β * ℓ x)) x) :=
    ENNReal.measurable_ofReal.comp ((measurable_exp.comp (measurable_const.mul hℓ)).indicator measurableSet_Icc)
  rw [hfun]
  exact mhKernel_invariant volume hk
    (moveMass_le_one volume (fun x => lintegral_gaussianPDF_eq_one x (varR_ne_zero h)) (acc1R_le_one ℓ β)) hp
    (rwmSub1_detailed_balance ℓ L σ β)

/-! ### tpCN, d = 1 -/

/-- `dot_product` of the model in d = 1 -/
noncomputable def dlt (m ic x : ℝ) : ℝ := (x - m) * ic * (x - m)
/-- rate of the gamma draw: `1 / scale` -/
noncomputable def rateT (m ic ν x : ℝ) : ℝ := (ν + dlt m ic x) / 2
/-- mean of the tpCN candidate given the current point -/
noncomputable def meanT (m σ x : ℝ) : ℝ := m + √(1 - σ * σ) * (x - m)
/-- variance of the tpCN candidate given the gamma draw: `(σ √(1/g) L)²` -/
noncomputable def varT (L σ g : ℝ) : ℝ≥0 := ⟨(σ * √(1 / g) * L) ^ 2, sq_nonneg _⟩

theorem dlt_nonneg (m L ic x : ℝ) (hic : ic = (L * L)⁻¹) : 0 ≤ dlt m ic x := by
  unfold dlt
  have : 0 ≤ ic := by rw [hic]; exact inv_nonneg.2 (mul_self_nonneg L)
  nlinarith [mul_self_nonneg (x - m), mul_nonneg this (mul_self_nonneg (x - m))]

theorem varT_coe (L σ g : ℝ) (hg : 0 < g) : ((varT L σ g : ℝ≥0) : ℝ) = σ ^ 2 * L ^ 2 / g := by
  change (σ * √(1 / g) * L) ^ 2 = _
  rw [mul_pow, mul_pow, sq_sqrt (by positivity)]; ring

theorem varT_ne_zero {L σ g : ℝ} (h : σ * L ≠ 0) (hg : 0 < g) : varT L σ g ≠ 0 := by
  intro h0
  have h1 : ((varT L σ g : ℝ≥0) : ℝ) = 0 := by rw [h0]; rfl
  rw [varT_coe L σ g hg] at h1
  have hσ : σ ≠ 0 := left_ne_zero_of_mul h
  have hL : L ≠ 0 := right_ne_zero_of_mul h
  have : σ ^ 2 * L ^ 2 / g ≠ 0 := by positivity
  exact this h1

theorem varT_nonpos (L σ g : ℝ) (hg : g ≤ 0) : varT L σ g = 0 := by
  ext
  change (σ * √(1 / g) * L) ^ 2 = 0
  have : √(1 / g) = 0 := sqrt_eq_zero_of_nonpos (by rw [one_div]; exact inv_nonpos.2 hg)
  rw [this]; ring

theorem measurable_varT (L σ : ℝ) : Measurable (varT L σ) := by
  unfold varT
  exact Measurable.subtype_mk (by fun_prop)

/-- given the gamma draw, the law of the tpCN candidate `μ + √(1−σ²)(x−μ) + σ √(1/g) L z`, `z ~ N(0,1)` -/
theorem tpcn_candidate_law_given_g (m L σ x g : ℝ) :
    (gaussianReal 0 1).map (fun z => cand1T m L σ x g z) = gaussianReal (meanT m σ x) (varT L σ g) := by
  have h1 : (fun z => cand1T m L σ x g z) = (fun y => meanT m σ x + y) ∘ fun z => (σ * √(1 / g) * L) * z := by
    funext z; simp only [cand1T, meanT, Function.comp]
  rw [h1, ← Measure.map_map (measurable_const_add _) (measurable_const_mul _), gaussianReal_map_const_mul, gaussianReal_map_const_add]
  congr 1
  · ring
  · ext; simp [varT]; rfl

/-- integrand of the tpCN proposal density: gamma density of the scale draw × Gaussian density of the candidate -/
noncomputable def mixT (m L ic ν σ : ℝ) (x g y : ℝ) : ℝ≥0∞ :=
  gammaPDF (gammaShape (1 : ℝ) ν) (rateT m ic ν x) g * gaussianPDF (meanT m σ x) (varT L σ g) y

/-- density of the tpCN candidate w.r.t. Lebesgue measure: the scale mixture over the gamma draw -/
noncomputable def qT (m L ic ν σ : ℝ) (x y : ℝ) : ℝ≥0∞ := ∫⁻ g, mixT m L ic ν σ x g y

theorem measurable_gammaPDF_rate (a : ℝ) : Measurable fun p : ℝ × ℝ => gammaPDF a p.1 p.2 := by
  unfold gammaPDF gammaPDFReal
  refine ENNReal.measurable_ofReal.comp (Measurable.ite ?_ ?_ measurable_const)
  · exact measurableSet_le measurable_const measurable_snd
  · exact (((measurable_fst.pow_const a).div_const _).mul (measurable_snd.pow_const _)).mul
      (measurable_exp.comp (measurable_fst.mul measurable_snd).neg)

theorem measurable_mixT (m L ic ν σ : ℝ) :
    Measurable fun p : (ℝ × ℝ) × ℝ => mixT m L ic ν σ p.1.1 p.2 p.1.2 := by
  unfold mixT
  have hA : Measurable fun p : (ℝ × ℝ) × ℝ => gammaPDF (gammaShape (1 : ℝ) ν) (rateT m ic ν p.1.1) p.2 := by
    refine (measurable_gammaPDF_rate _).comp (Measurable.prodMk ?_ measurable_snd)
    unfold dlt; fun_prop
  have hB : Measurable fun p : (ℝ × ℝ) × ℝ => gaussianPDF (meanT m σ p.1.1) (varT L σ p.2) p.1.2 := by
    refine measurable_uncurry_gaussianPDF.comp (Measurable.prodMk ?_ (Measurable.prodMk ?_ ?_))
    · unfold meanT; fun_prop
    · exact (measurable_varT L σ).comp measurable_snd
    · exact measurable_snd.comp measurable_fst
  exact hA.mul hB

theorem measurable_qT (m L ic ν σ : ℝ) : Measurable (Function.uncurry (qT m L ic ν σ)) :=
  Measurable.lintegral_prod_right' (measurable_mixT m L ic ν σ)

/-- joint law of the tapes that build the tpCN candidate: the gamma draw with the MODEL's shape and scale (rate = 1/scale) and an
    independent standard normal -/
noncomputable def tapeT (m ic ν x : ℝ) : Measure (ℝ × ℝ) :=
  (gammaMeasure (gammaShape (1 : ℝ) ν) (rateT m ic ν x)).prod (gaussianReal 0 1)

theorem measurable_cand1T_pair (m L σ x : ℝ) : Measurable fun t : ℝ × ℝ => cand1T m L σ x t.1 t.2 := by
  unfold cand1T; fun_prop

theorem measurable_gammaPDF' (a r : ℝ) : Measurable (gammaPDF a r) :=
  ENNReal.measurable_ofReal.comp (measurable_gammaPDFReal a r)

/-- **the law of the tpCN candidate has the mixture density `qT` w.r.t. Lebesgue measure** (Tonelli: the gamma draw is
    integrated out; no change of variables `s = 1/g` is needed) -/
theorem tpcn_candidate_law (m L ic ν σ x : ℝ) (h : σ * L ≠ 0) :
    (tapeT m ic ν x).map (fun t => cand1T m L σ x t.1 t.2) = volume.withDensity (qT m L ic ν σ x) := by
  have hc := measurable_cand1T_pair m L σ x
  ext B hB
  rw [Measure.map_apply hc hB, tapeT, Measure.prod_apply (hc hB), withDensity_apply _ hB]
  have hsec : ∀ g, (gaussianReal 0 1) (Prod.mk g ⁻¹' ((fun t : ℝ × ℝ => cand1T m L σ x t.1 t.2) ⁻¹' B))
      = gaussianReal (meanT m σ x) (varT L σ g) B := by
    intro g
    rw [← tpcn_candidate_law_given_g, Measure.map_apply (by unfold cand1T; fun_prop) hB]
    rfl
  simp_rw [hsec]
  have hmeasG : Measurable fun g => gaussianReal (meanT m σ x) (varT L σ g) B := by
    have h1 : Measurable fun g => gaussianReal (meanT m σ x) (varT L σ g) :=
      measurable_gaussianReal.comp (measurable_const.prodMk (measurable_varT L σ))
    exact (Measure.measurable_coe hB).comp h1
  unfold gammaMeasure
  rw [lintegral_withDensity_eq_lintegral_mul _ (measurable_gammaPDF' _ _) hmeasG]
  have hae : ∀ᵐ g ∂(volume : Measure ℝ), g ≠ 0 := by
    rw [ae_iff]; simp
  have e1 : ∫⁻ g, (gammaPDF (gammaShape (1 : ℝ) ν) (rateT m ic ν x) *
        fun g => gaussianReal (meanT m σ x) (varT L σ g) B) g
      = ∫⁻ g, ∫⁻ y in B, mixT m L ic ν σ x g y := by
    refine lintegral_congr_ae (hae.mono fun g hg => ?_)
    simp only [Pi.mul_apply, mixT]
    rcases lt_or_gt_of_ne hg with hneg | hpos
    · simp [gammaPDF_of_neg hneg]
    · rw [gaussianReal_apply _ (varT_ne_zero h hpos), lintegral_const_mul _ (measurable_gaussianPDF _ _)]
  rw [e1]
  have hm : Measurable fun p : ℝ × ℝ => mixT m L ic ν σ x p.1 p.2 :=
    (measurable_mixT m L ic ν σ).comp (f := fun p : ℝ × ℝ => ((x, p.2), p.1))
      ((measurable_const.prodMk measurable_snd).prodMk measurable_fst)
  have hsw := lintegral_lintegral_swap (μ := (volume : Measure ℝ)) (ν := (volume : Measure ℝ).restrict B)
    (f := fun g y => mixT m L ic ν σ x g y) hm.aemeasurable
  rw [hsw]
  rfl

theorem rateT_pos (m L ic ν x : ℝ) (hν : 0 < ν) (hic : ic = (L * L)⁻¹) : 0 < rateT m ic ν x := by
  unfold rateT; have := dlt_nonneg m L ic x hic; positivity

theorem gammaShape_pos (ν : ℝ) (hν : 0 < ν) : 0 < gammaShape (1 : ℝ) ν := by
  rw [model_gammaShape]; positivity

theorem lintegral_qT (m L ic ν σ x : ℝ) (h : σ * L ≠ 0) (hν : 0 < ν) (hic : ic = (L * L)⁻¹) :
    ∫⁻ y, qT m L ic ν σ x y = 1 := by
  have := isProbabilityMeasure_gammaMeasure (gammaShape_pos ν hν) (rateT_pos m L ic ν x hν hic)
  have hp : IsProbabilityMeasure (tapeT m ic ν x) := by unfold tapeT; infer_instance
  have h1 : (volume.withDensity (qT m L ic ν σ x)) univ = 1 := by
    rw [← tpcn_candidate_law m L ic ν σ x h, Measure.map_apply (measurable_cand1T_pair m L σ x) MeasurableSet.univ]
    simp
  rwa [withDensity_apply _ MeasurableSet.univ, Measure.restrict_univ] at h1

/-- exponent of (gamma density × Gaussian density) is symmetric in the two states when `a₀² + σ² = 1` -/
theorem expo_symm (A B a0 σ g L ν : ℝ) (h : a0 ^ 2 = 1 - σ ^ 2) (hσ : σ ≠ 0) (hL : L ≠ 0) (hg : g ≠ 0) :
    -((ν + A * (L * L)⁻¹ * A) / 2 * g) + -(B - a0 * A) ^ 2 / (2 * (σ ^ 2 * L ^ 2 / g))
      = -((ν + B * (L * L)⁻¹ * B) / 2 * g) + -(A - a0 * B) ^ 2 / (2 * (σ ^ 2 * L ^ 2 / g)) := by
  field_simp
  linear_combination (B ^ 2 - A ^ 2) * h

/-- **pointwise in the gamma draw `g`** (no change of variables): Student-t weight of the start point × gamma density of the
    scale draw given the start point (shape and RATE of the model) × Gaussian density of the candidate is symmetric -/
theorem tpcn_mix_symm_real (m L ic ν σ x y g : ℝ) (hg : 0 < g) (hν : 0 < ν) (hσ0 : 0 < σ) (hσ1 : σ < 1) (hL : L ≠ 0)
    (hic : ic = (L * L)⁻¹) :
    tker 1 ν (dlt m ic x) * (gammaPDFReal (gammaShape (1 : ℝ) ν) (rateT m ic ν x) g
        * gaussianPDFReal (meanT m σ x) (varT L σ g) y)
      = tker 1 ν (dlt m ic y) * (gammaPDFReal (gammaShape (1 : ℝ) ν) (rateT m ic ν y) g
        * gaussianPDFReal (meanT m σ y) (varT L σ g) x) := by
  have hx := dlt_nonneg m L ic x hic
  have hy := dlt_nonneg m L ic y hic
  have ha0 : (√(1 - σ * σ)) ^ 2 = 1 - σ ^ 2 := by
    rw [sq_sqrt (by nlinarith)]; ring
  have hgen : ∀ u w : ℝ, 0 ≤ dlt m ic u →
      tker 1 ν (dlt m ic u) * (gammaPDFReal (gammaShape (1 : ℝ) ν) (rateT m ic ν u) g
        * gaussianPDFReal (meanT m σ u) (varT L σ g) w)
      = (ν / 2) ^ ((1 + ν) / 2) / Real.Gamma ((1 + ν) / 2) * g ^ ((1 + ν) / 2 - 1) * (√(2 * π * (σ ^ 2 * L ^ 2 / g)))⁻¹
        * exp (-((ν + (u - m) * (L * L)⁻¹ * (u - m)) / 2 * g)
          + -((w - m) - √(1 - σ * σ) * (u - m)) ^ 2 / (2 * (σ ^ 2 * L ^ 2 / g))) := by
    intro u w hu
    unfold gammaPDFReal gaussianPDFReal
    rw [if_pos hg.le, varT_coe L σ g hg, model_gammaShape, exp_add,
      ← key ν (dlt m ic u) ((1 + ν) / 2) hν hu]
    unfold tker rateT meanT
    have e1 : w - (m + √(1 - σ * σ) * (u - m)) = (w - m) - √(1 - σ * σ) * (u - m) := by ring
    have e2 : dlt m ic u = (u - m) * (L * L)⁻¹ * (u - m) := by unfold dlt; rw [hic]
    rw [e1, e2]
    ring
  rw [hgen x y hx, hgen y x hy, expo_symm (x - m) (y - m) _ σ g L ν ha0 hσ0.ne' hL hg.ne']

theorem mixT_reversible (m L ic ν σ x y g : ℝ) (hν : 0 < ν) (hσ0 : 0 < σ) (hσ1 : σ < 1) (hL : L ≠ 0)
    (hic : ic = (L * L)⁻¹) :
    ENNReal.ofReal (tker 1 ν (dlt m ic x)) * mixT m L ic ν σ x g y
      = ENNReal.ofReal (tker 1 ν (dlt m ic y)) * mixT m L ic ν σ y g x := by
  unfold mixT
  rcases lt_trichotomy g 0 with hneg | h0 | hpos
  · simp [gammaPDF_of_neg hneg]
  · subst h0; simp [varT_nonpos L σ 0 le_rfl, gaussianPDF_zero_var]
  · have hx := dlt_nonneg m L ic x hic
    have hy := dlt_nonneg m L ic y hic
    have ha := gammaShape_pos ν hν
    unfold gammaPDF gaussianPDF
    rw [← ENNReal.ofReal_mul (gammaPDFReal_nonneg ha (rateT_pos m L ic ν x hν hic) g),
      ← ENNReal.ofReal_mul (gammaPDFReal_nonneg ha (rateT_pos m L ic ν y hν hic) g),
      ← ENNReal.ofReal_mul (tker_pos 1 ν _ hν hx).le, ← ENNReal.ofReal_mul (tker_pos 1 ν _ hν hy).le,
      tpcn_mix_symm_real m L ic ν σ x y g hpos hν hσ0 hσ1 hL hic]

/-- **the tpCN proposal density is reversible w.r.t. the Student-t kernel of the mode**: `t(x) q(x,y) = t(y) q(y,x)` — as
    densities w.r.t. Lebesgue measure with ALL normalising constants (Γ(shape), √(2πv)) -/
theorem qT_reversible (m L ic ν σ x y : ℝ) (hν : 0 < ν) (hσ0 : 0 < σ) (hσ1 : σ < 1) (hL : L ≠ 0)
    (hic : ic = (L * L)⁻¹) :
    ENNReal.ofReal (tker 1 ν (dlt m ic x)) * qT m L ic ν σ x y
      = ENNReal.ofReal (tker 1 ν (dlt m ic y)) * qT m L ic ν σ y x := by
  unfold qT
  have hmx : Measurable fun g => mixT m L ic ν σ x g y :=
    (measurable_mixT m L ic ν σ).comp (f := fun g : ℝ => ((x, y), g)) (measurable_const.prodMk measurable_id)
  have hmy : Measurable fun g => mixT m L ic ν σ y g x :=
    (measurable_mixT m L ic ν σ).comp (f := fun g : ℝ => ((y, x), g)) (measurable_const.prodMk measurable_id)
  rw [← lintegral_const_mul _ hmx, ← lintegral_const_mul _ hmy]
  exact lintegral_congr fun g => mixT_reversible m L ic ν σ x y g hν hσ0 hσ1 hL hic

/-- the model's tpCN acceptance ratio is the Metropolis–Hastings ratio with the Student-t reference weight -/
theorem acc1T_ratio (ℓ : ℝ → ℝ) (m L ic ν β x c : ℝ) (hν : 0 < ν) (hic : ic = (L * L)⁻¹) :
    exp (β * (ℓ c - ℓ x) + tpcnLogFactor (1 : ℝ) ν ((x - m) * ic * (x - m)) ((c - m) * ic * (c - m)))
      = exp (β * ℓ c) * tker 1 ν (dlt m ic x) / (exp (β * ℓ x) * tker 1 ν (dlt m ic c)) := by
  have hx := dlt_nonneg m L ic x hic
  have hc := dlt_nonneg m L ic c hic
  change exp (β * (ℓ c - ℓ x) + tpcnLogFactor (1 : ℝ) ν (dlt m ic x) (dlt m ic c)) = _
  simp only [tpcnLogFactor, ScReal.add_def, ScReal.neg_def]
  rw [← exp_logT 1 ν _ hν hx, ← exp_logT 1 ν _ hν hc, ← exp_add, ← exp_add, ← exp_sub]
  congr 1; ring

theorem measurable_acc1T {ℓ : ℝ → ℝ} (hℓ : Measurable ℓ) (m ic ν β : ℝ) :
    Measurable (Function.uncurry (acc1T ℓ m ic ν β)) := by
  unfold acc1T Function.uncurry
  refine Measurable.ite ?_ ?_ measurable_const
  · exact (measurableSet_le measurable_const measurable_snd).inter (measurableSet_le measurable_snd measurable_const)
  · refine measurable_const.min (measurable_exp.comp (Measurable.add ?_ ?_))
    · exact measurable_const.mul ((hℓ.comp measurable_snd).sub (hℓ.comp measurable_fst))
    · simp only [tpcnLogFactor, logT, ScReal.add_def, ScReal.neg_def, ScReal.mul_def, ScReal.lit_def, ScReal.log_def,
        ScReal.one_def, ScReal.div_def]
      fun_prop

/-- the law of the new state of one tpCN step of the closed model (d = 1, hard walls) from the current point `x`: tapes
    `g ~ Gamma(model shape, model scale)`, `z ~ N(0,1)`, `r ~ U[0,1)`, independent -/
noncomputable def tpcnLaw1 (ℓ : ℝ → ℝ) (m L ic ν σ β x : ℝ) : Measure ℝ :=
  ((tapeT m ic ν x).prod unif).map fun w => newState1 .tpcn ℓ m L ic ν σ β x w.1.1 w.1.2 w.2

/-- sub-density of the tpCN kernel: mixture proposal density × the model's acceptance probability -/
noncomputable def tpcnSub1 (ℓ : ℝ → ℝ) (m L ic ν σ β : ℝ) (x y : ℝ) : ℝ≥0∞ :=
  qT m L ic ν σ x y * ENNReal.ofReal (acc1T ℓ m ic ν β x y)

/-- **the law of the model's tpCN step is the Metropolis–Hastings kernel** with the scale-mixture proposal density and the
    model's acceptance probability -/
theorem tpcnLaw1_eq_mhKernel {ℓ : ℝ → ℝ} (hℓ : Measurable ℓ) (m L ic ν σ β : ℝ) (h : σ * L ≠ 0) (hν : 0 < ν)
    (hic : ic = (L * L)⁻¹) (x : ℝ) :
    tpcnLaw1 ℓ m L ic ν σ β x = mhKernel volume (tpcnSub1 ℓ m L ic ν σ β) x := by
  have := isProbabilityMeasure_gammaMeasure (gammaShape_pos ν hν) (rateT_pos m L ic ν x hν hic)
  have hp : IsProbabilityMeasure (tapeT m ic ν x) := by unfold tapeT; infer_instance
  unfold tpcnLaw1
  rw [tapeStep_law (tapeT m ic ν x) (c := fun t => cand1T m L σ x t.1 t.2) (measurable_cand1T_pair m L σ x) x
    ((measurable_acc1T hℓ m ic ν β).of_uncurry_left)
    (fun t r hr => newState1_eq_tpcn ℓ m L ic ν σ β x t.1 t.2 r hr),
    tpcn_candidate_law m L ic ν σ x h]
  exact acceptReject_eq_mhKernel volume (q := qT m L ic ν σ) (measurable_qT m L ic ν σ)
    (fun x => lintegral_qT m L ic ν σ x h hν hic) (measurable_acc1T hℓ m ic ν β) (acc1T_nonneg ℓ m ic ν β)
    (acc1T_le_one ℓ m ic ν β) x

/-- pointwise detailed balance of the tpCN sub-density w.r.t. `exp(β ℓ) 1_[0,1]` — for EVERY pair of real numbers -/
theorem tpcnSub1_detailed_balance (ℓ : ℝ → ℝ) (m L ic ν σ β x y : ℝ) (hν : 0 < ν) (hσ0 : 0 < σ) (hσ1 : σ < 1)
    (hL : L ≠ 0) (hic : ic = (L * L)⁻¹) :
    ENNReal.ofReal ((Icc (0 : ℝ) 1).indicator (fun x => exp (β * ℓ x)) x) * tpcnSub1 ℓ m L ic ν σ β x y
      = ENNReal.ofReal ((Icc (0 : ℝ) 1).indicator (fun x => exp (β * ℓ x)) y) * tpcnSub1 ℓ m L ic ν σ β y x := by
  unfold tpcnSub1 acc1T
  by_cases hx : x ∈ Icc (0 : ℝ) 1 <;> by_cases hy : y ∈ Icc (0 : ℝ) 1
  · have hx' : 0 ≤ x ∧ x ≤ 1 := hx
    have hy' : 0 ≤ y ∧ y ≤ 1 := hy
    simp only [hx, hy, hx', hy', indicator_of_mem, if_true, and_self]
    rw [acc1T_ratio ℓ m L ic ν β x y hν hic, acc1T_ratio ℓ m L ic ν β y x hν hic]
    exact mh_flow_symm _ _ _ _ (exp_pos _) (exp_pos _) (tker_pos 1 ν _ hν (dlt_nonneg m L ic x hic))
      (tker_pos 1 ν _ hν (dlt_nonneg m L ic y hic)) _ _ (qT_reversible m L ic ν σ x y hν hσ0 hσ1 hL hic)
  · have hy' : ¬ (0 ≤ y ∧ y ≤ 1) := hy
    simp [hx, hy, hy']
  · have hx' : ¬ (0 ≤ x ∧ x ≤ 1) := hx
    simp [hx, hy, hx']
  · simp [hx, hy]

/-- **tpCN, d = 1, hard walls: the law of the model's step leaves the tempered target invariant** — for every measurable
    log-likelihood, every β, every mode (mean `m`, Cholesky factor `L ≠ 0` with `inv_cov = (L L)⁻¹`, dof `ν > 0`) and every
    step size `0 < σ < 1`.  Nothing is assumed about densities, Jacobians or the change of variables `s = 1/g`: the tapes have
    Mathlib's `gammaMeasure`, `gaussianReal 0 1` and the uniform law on `[0,1)`. -/
theorem C03_tpcn_step_law_invariant_1d {ℓ : ℝ → ℝ} (hℓ : Measurable ℓ) (m L ic ν σ β : ℝ) (hν : 0 < ν) (hσ0 : 0 < σ)
    (hσ1 : σ < 1) (hL : L ≠ 0) (hic : ic = (L * L)⁻¹) :
    (target1 ℓ β).bind (tpcnLaw1 ℓ m L ic ν σ β) = target1 ℓ β := by
  have h : σ * L ≠ 0 := mul_ne_zero hσ0.ne' hL
  have hfun : tpcnLaw1 ℓ m L ic ν σ β = ⇑(mhKernel volume (tpcnSub1 ℓ m L ic ν σ β)) :=
    funext fun x => tpcnLaw1_eq_mhKernel hℓ m L ic ν σ β h hν hic x
  have hk : Measurable (Function.uncurry (tpcnSub1 ℓ m L ic ν σ β)) :=
    (measurable_qT m L ic ν σ).mul (ENNReal.measurable_ofReal.comp (measurable_acc1T hℓ m ic ν β))
  have hp : Measurable fun x => ENNReal.ofReal ((Icc (0 : ℝ) 1).indicator (fun x => exp (β * ℓ x)) x) :=
    ENNReal.measurable_ofReal.comp ((measurable_exp.comp (measurable_const.mul hℓ)).indicator measurableSet_Icc)
  rw [hfun]
  exact mhKernel_invariant volume hk
    (moveMass_le_one volume (fun x => lintegral_qT m L ic ν σ x h hν hic) (acc1T_le_one ℓ m ic ν β)) hp
    (fun x y => tpcnSub1_detailed_balance ℓ m L ic ν σ β x y hν hσ0 hσ1 hL hic)

/-! ## D. non-vacuity of the law theorems, and the ensemble -/

/-- concrete instance: tilted target `ℓ x = 3x`, β = 1/2, mode (0.3, L = 0.2, inv_cov = 25, ν = 2.5), σ = 1/2 -/
example : (target1 (fun x => 3 * x) (1 / 2)).bind (tpcnLaw1 (fun x => 3 * x) (3 / 10) (1 / 5) 25 (5 / 2) (1 / 2) (1 / 2))
    = target1 (fun x => 3 * x) (1 / 2) :=
  C03_tpcn_step_law_invariant_1d (by fun_prop) _ _ _ _ _ _ (by norm_num) (by norm_num) (by norm_num) (by norm_num)
    (by norm_num)

/-- RWM with a step size above 1 (the code starts at 2.38/√d and does not clip) and a negative one -/
example : (target1 (fun x => 3 * x) 1).bind (rwmLaw1 (fun x => 3 * x) 0 (1 / 5) 25 3 (238 / 100) 1)
    = target1 (fun x => 3 * x) 1 :=
  C03_rwm_step_law_invariant_1d (by fun_prop) _ _ _ _ _ _ (by norm_num)

example : (target1 (fun x => -x ^ 2) (1 / 3)).bind (rwmLaw1 (fun x => -x ^ 2) 0 (1 / 5) 25 3 (-1 / 5) (1 / 3))
    = target1 (fun x => -x ^ 2) (1 / 3) :=
  C03_rwm_step_law_invariant_1d (by fun_prop) _ _ _ _ _ _ (by norm_num)

/-- the target is not the zero measure (the statements above are not about `0 = 0`): mass of `[0,1]` under `ℓ = 0` is 1 -/
example : target1 (fun _ => 0) 1 (Icc 0 1) = 1 := by
  unfold target1
  rw [withDensity_apply _ measurableSet_Icc]
  have : ∀ x ∈ Icc (0 : ℝ) 1, ENNReal.ofReal ((Icc (0 : ℝ) 1).indicator (fun _ => exp (1 * 0)) x) = 1 := by
    intro x hx; simp [hx]
  rw [setLIntegral_congr_fun measurableSet_Icc this]
  simp

/-- **independent walkers**: two kernels that leave their targets invariant, run side by side on independent draws, leave
    the product target invariant (iterate for N walkers: each walker of `Model.Kernel.runStep` is stepped by `walkerStep`
    from its own state, its own mode and its own tapes — `C03_ensemble_walkers_independent`) -/
theorem C03_invariant_prod {X Y : Type*} [MeasurableSpace X] [MeasurableSpace Y] (κ : Kernel X X) (η : Kernel Y Y)
    [IsSFiniteKernel κ] [IsSFiniteKernel η] (μ : Measure X) (ν : Measure Y) [SFinite μ] [SFinite ν]
    (hκ : μ.bind κ = μ) (hη : ν.bind η = ν) : (μ.prod ν).bind (κ ∥ₖ η) = μ.prod ν := by
  have h1 : κ ∥ₖ η = (Kernel.id ∥ₖ η) ∘ₖ (κ ∥ₖ Kernel.id) := by
    rw [Kernel.parallelComp_id_left_comp_parallelComp, Kernel.comp_id]
  rw [h1, ← Measure.comp_assoc, ← Measure.prod_comp_left, ← Measure.prod_comp_right, hκ, hη]

theorem mapM_getElem_some {α β : Type} (f : α → Option β) :
    ∀ (l : List α) (os : List β), l.mapM f = some os → ∀ (k : Nat) (a : α), l[k]? = some a →
      ∃ o, os[k]? = some o ∧ f a = some o := by
  intro l
  induction l with
  | nil => intro os _ k a ha; simp at ha
  | cons b l ih =>
    intro os h k a ha
    rw [List.mapM_cons] at h
    cases hb : f b with
    | none => simp [hb] at h
    | some ob =>
      cases hl : l.mapM f with
      | none => simp [hb, hl] at h
      | some ol =>
        simp only [hb, hl, Option.pure_def, Option.bind_eq_bind, Option.bind_some, Option.some.injEq] at h
        subst h
        cases k with
        | zero =>
          simp only [List.getElem?_cons_zero, Option.some.injEq] at ha
          subst ha
          exact ⟨ob, by simp, hb⟩
        | succ k =>
          simp only [List.getElem?_cons_succ] at ha ⊢
          exact ih ol hl k a ha

/-- in the ensemble model the result of walker `k` is `walkerStep` of walker `k` alone (its state, its mode, its tapes; the
    modes, step sizes, β and boundary sets are shared constants of the step): no walker reads another walker -/
theorem C03_ensemble_walkers_independent {α : Type} [ScT α] (i : RunIn α) (outs : List (StepOut α)) (sg : List α)
    (h : runStep i = some (outs, sg)) (k : Nat) (w : Walker α) (hw : i.walkers[k]? = some w) :
    ∃ o, outs[k]? = some o ∧ walkerStep i w = some o := by
  unfold runStep at h
  cases hm : i.walkers.mapM (walkerStep i) with
  | none => simp [hm] at h
  | some os =>
    simp only [hm, Option.some.injEq, Prod.mk.injEq] at h
    obtain ⟨rfl, -⟩ := h
    exact mapM_getElem_some (walkerStep i) i.walkers os hm k w hw

end Props.C03
