import TempestVerif.Model.Ess
import TempestVerif.Lemmas.ScRound
import Mathlib.Tactic
/-
  C20 — clause audit, part 4: what survives of the ESS statements in ROUNDED arithmetic.

  The same definition `Model.Ess.ess` the driver executes at `Float` is evaluated at the rounded reals `RR r`
  (`Lemmas/ScRound.lean`): every `+ * /` is the exact operation followed by a rounding `r.rnd` that is only assumed MONOTONE,
  IDEMPOTENT and to fix 0 and 1 (true of IEEE round-to-nearest and of the directed roundings; nothing about accuracy is used).
  Inputs are representable numbers (`r.rnd x = x`).

    C20_round_sum_ge          the rounded running sum of non-negative representable weights dominates every weight
    C20_round_normalised_unit every normalised weight `fl(w_i / fl Σw)` lies in [0, 1]
    C20_round_ess_single      a single particle has ESS exactly 1 — also in floating point
    C20_round_ess_scale       if the rounding commutes with multiplication by `c` (binary64: `c = 2^k`, no over/underflow) the
                              computed ESS of `c·w` is THE SAME NUMBER as that of `w` (bit-identical, not merely close)

  NOT a theorem in rounded arithmetic: `1 ≤ ESS ≤ N` and `ESS = N` for uniform weights.  They are false by an ulp on the real
  code (`effective_sample_size(np.ones(21)) = 21.000000000000007`, `np.ones(5)` gives `4.999999999999999`); suite ess-property-F checks them with a relative allowance and
  counts the excursions.
-/
namespace Props.C20
open Model.Ess

variable {r : Rounding}

@[simp] theorem rr_mul_val (a b : RR r) : (Sc.mul a b).val = r.rnd (a.val * b.val) := rfl
@[simp] theorem rr_div_val (a b : RR r) : (Sc.div a b).val = r.rnd (a.val / b.val) := rfl

/-- the left fold `np.sum` is modelled by, in rounded arithmetic -/
def rsum (r : Rounding) (acc : ℝ) : List ℝ → ℝ
  | [] => acc
  | a :: l => rsum r (r.rnd (acc + a)) l

theorem foldl_add_val (l : List (RR r)) (acc : RR r) :
    (l.foldl Sc.add acc).val = rsum r acc.val (l.map RR.val) := by
  induction l generalizing acc with
  | nil => rfl
  | cons a l ih => simp only [List.foldl_cons, List.map_cons, rsum]; rw [ih]; rfl

theorem sum_val (l : List (RR r)) : (Sc.sum l).val = rsum r 0 (l.map RR.val) := by
  unfold Sc.sum; rw [foldl_add_val]; simp

/-- the rounded running sum never falls below its start value nor below any (non-negative, representable) term -/
theorem rsum_ge (l : List ℝ) (acc : ℝ) (hacc : r.rnd acc = acc) (hacc0 : 0 ≤ acc)
    (hl : ∀ x ∈ l, r.rnd x = x ∧ 0 ≤ x) :
    acc ≤ rsum r acc l ∧ ∀ x ∈ l, x ≤ rsum r acc l := by
  induction l generalizing acc with
  | nil => simp [rsum]
  | cons a l ih =>
    obtain ⟨ha, ha0⟩ := hl a (by simp)
    have h1 : acc ≤ r.rnd (acc + a) := by
      have := r.mono (show acc ≤ acc + a by linarith); rwa [hacc] at this
    have h2 : a ≤ r.rnd (acc + a) := by
      have := r.mono (show a ≤ acc + a by linarith); rwa [ha] at this
    obtain ⟨i1, i2⟩ := ih (r.rnd (acc + a)) (r.idem _) (le_trans hacc0 h1) (fun x hx => hl x (by simp [hx]))
    simp only [rsum]
    refine ⟨le_trans h1 i1, ?_⟩
    intro x hx
    rcases List.mem_cons.mp hx with rfl | hx
    · exact le_trans h2 i1
    · exact i2 x hx

/-- `fl(Σw) ≥ w_i` for every `i` -/
theorem C20_round_sum_ge (w : List (RR r)) (hw : ∀ x ∈ w, r.rnd x.val = x.val ∧ 0 ≤ x.val) :
    ∀ x ∈ w, x.val ≤ (Sc.sum w).val := by
  intro x hx
  rw [sum_val]
  refine (rsum_ge (w.map RR.val) 0 r.rnd_zero (le_refl _) ?_).2 x.val (List.mem_map.mpr ⟨x, hx, rfl⟩)
  intro y hy
  obtain ⟨z, hz, rfl⟩ := List.mem_map.mp hy
  exact hw z hz

/-- **normalised weights stay in the unit interval in floating point** -/
theorem C20_round_normalised_unit (w : List (RR r)) (hw : ∀ x ∈ w, r.rnd x.val = x.val ∧ 0 ≤ x.val)
    (hs : 0 < (Sc.sum w).val) : ∀ u ∈ normalise w, 0 ≤ u.val ∧ u.val ≤ 1 := by
  intro u hu
  simp only [normalise, List.mem_map] at hu
  obtain ⟨x, hx, rfl⟩ := hu
  have hle := C20_round_sum_ge w hw x hx
  have h0 := (hw x hx).2
  rw [rr_div_val]
  constructor
  · have := r.mono (show (0 : ℝ) ≤ x.val / (Sc.sum w).val from div_nonneg h0 hs.le)
    rwa [r.rnd_zero] at this
  · have := r.mono (show x.val / (Sc.sum w).val ≤ 1 from (div_le_one hs).mpr hle)
    rwa [r.rnd_one] at this

/-- **a single particle has ESS exactly 1 in floating point** (any representable non-zero weight) -/
theorem C20_round_ess_single (c : ℝ) (hc : c ≠ 0) (hrep : r.rnd c = c) :
    (ess [RR.mk r c]).val = 1 := by
  have hsum : (Sc.sum [RR.mk r c]).val = c := by
    rw [sum_val]; simp [rsum, hrep]
  have hn : (normalise [RR.mk r c]).map RR.val = [1] := by
    simp only [normalise, List.map_cons, List.map_nil, rr_div_val, hsum, RR.val_mk, div_self hc, r.rnd_one]
  have hq : (sumSq (normalise [RR.mk r c])).val = 1 := by
    unfold sumSq
    rw [sum_val, List.map_map]
    have : (normalise [RR.mk r c]).map (RR.val ∘ fun x => Sc.mul x x) = [1] := by
      have h2 : (normalise [RR.mk r c]).map (RR.val ∘ fun x => Sc.mul x x)
          = ((normalise [RR.mk r c]).map RR.val).map (fun v => r.rnd (v * v)) := by
        rw [List.map_map]; rfl
      rw [h2, hn]; simp [r.rnd_one]
    rw [this]; simp [rsum, r.rnd_one]
  unfold ess
  rw [rr_div_val, hq]
  simp [r.rnd_one]

theorem rsum_scale (c : ℝ) (hscale : ∀ x, r.rnd (c * x) = c * r.rnd x) (l : List ℝ) (acc : ℝ) :
    rsum r (c * acc) (l.map (fun x => c * x)) = c * rsum r acc l := by
  induction l generalizing acc with
  | nil => rfl
  | cons a l ih =>
    simp only [List.map_cons, rsum]
    rw [← mul_add, hscale, ih]

/-- **binary scaling is exact.**  If the rounding commutes with multiplication by `c ≠ 0` (binary64: `c` a power of two and no
    overflow / underflow on the way), the ESS computed for `c·w` is the very same number as the ESS computed for `w`. -/
theorem C20_round_ess_scale (c : ℝ) (hc : c ≠ 0) (hscale : ∀ x, r.rnd (c * x) = c * r.rnd x) (w : List (RR r)) :
    (ess (w.map fun x => RR.mk r (c * x.val))).val = (ess w).val := by
  have hsum : (Sc.sum (w.map fun x => RR.mk r (c * x.val))).val = c * (Sc.sum w).val := by
    rw [sum_val, sum_val, List.map_map]
    have : w.map (RR.val ∘ fun x => RR.mk r (c * x.val)) = (w.map RR.val).map (fun x => c * x) := by
      rw [List.map_map]; rfl
    rw [this]
    have := rsum_scale c hscale (w.map RR.val) 0
    rwa [mul_zero] at this
  have hnorm : normalise (w.map fun x => RR.mk r (c * x.val)) = normalise w := by
    unfold normalise
    rw [List.map_map]
    apply List.map_congr_left
    intro x _
    apply RR.ext
    simp only [Function.comp, rr_div_val, RR.val_mk, hsum]
    rw [mul_div_mul_left _ _ hc]
  unfold ess
  rw [hnorm]

/-- the hypothesis of `C20_round_ess_scale` is satisfiable by a genuine rounding: rounding up to the next integer commutes with
    … nothing but `c = 1`; exact arithmetic commutes with every `c` -/
example (c : ℝ) (hc : c ≠ 0) (w : List (RR ScRound.exact)) :
    (ess (w.map fun x => RR.mk ScRound.exact (c * x.val))).val = (ess w).val :=
  C20_round_ess_scale c hc (fun _ => rfl) w

example : (ess [RR.mk ScRound.ceilR 3]).val = 1 :=
  C20_round_ess_single 3 (by norm_num) (by simp [ScRound.ceilR])

end Props.C20
