import TempestVerif.Props.C17
import TempestVerif.Lemmas.StateMgrX
/-
  C17, whole-run statements (clause audit).  Same model, same `Inv` as `Props/C17.lean`; new here:

    * append-only over a whole run (any number of operations, caller writes included): `C17_run_history_prefix`,
      `C17_run_history_length`
    * one sampler iteration (`execute_iteration` = pipeline steps; commit; `get_current()`): exactly one batch per
      recorded quantity, earlier batches untouched, the returned per-iteration dictionary is made of new arrays:
      `C17_iteration_appends_one_batch`, `C17_iterations_append_only`
-/
namespace Props.C17
open Model.StateMgr

/-- payload of the history list of one key -/
def histP (s : State) (k : Key) : Option (List PVal) := (lookup k s.history).map fun l => l.map (deref s.heap)

/-- Append-only over a whole run: whatever the caller does — any operations except `update_from_dict`, any number of
    in-place writes to arrays it holds, `copy=False` stores included — the committed batches of every key, as payloads,
    stay a prefix of what is committed later. -/
theorem C17_run_history_prefix (ops : List Op) (s : State) (h : Inv s) (hni : ∀ o ∈ ops, o.isImport = false)
    (k : Key) (l : List Val) (hl : lookup k s.history = some l) :
    ∃ l' : List Val, lookup k (run s ops).history = some l' ∧
      l.map (deref s.heap) <+: l'.map (deref (run s ops).heap) := by
  induction ops generalizing s l with
  | nil => exact ⟨l, hl, List.prefix_refl _⟩
  | cons o os ih =>
    obtain ⟨l1, h1, p1⟩ := C17_history_prefix_stable s o h (hni o (by simp)) k l hl
    obtain ⟨l2, h2, p2⟩ := ih (step s o).1 (C17_step_inv s o h) (fun x hx => hni x (List.mem_cons_of_mem _ hx)) l1 h1
    exact ⟨l2, h2, p1.trans p2⟩

/-- … from a fresh manager in particular -/
theorem C17_reachable_history_prefix (pre ops : List Op) (hni : ∀ o ∈ ops, o.isImport = false)
    (k : Key) (l : List Val) (hl : lookup k (run init pre).history = some l) :
    ∃ l' : List Val, lookup k (run init (pre ++ ops)).history = some l' ∧
      l.map (deref (run init pre).heap) <+: l'.map (deref (run init (pre ++ ops)).heap) := by
  rw [run_append]
  exact C17_run_history_prefix ops _ (C17_reachable_inv pre) hni k l hl

/-- what one operation adds to the history list of key `k`: one batch at a successful commit at which `k` is recorded
    (a current key, a history key, current value not `None`), nothing otherwise -/
def commitInc (k : Key) (s : State) : Op → Nat
  | .commit strict =>
    if (step s (.commit strict)).2 = .unit ∧ k ∈ commitKeys ∧ isNone (lookup k s.current) = false then 1 else 0
  | _ => 0

/-- number of batches a run adds to key `k` -/
def commitsOf (k : Key) : State → List Op → Nat
  | _, [] => 0
  | s, o :: os => commitInc k s o + commitsOf k (step s o).1 os

theorem isNone_false_iff {o : Option Val} : isNone o = false ↔ ∃ v, o = some v ∧ v ≠ Val.none := by
  cases o with
  | none => simp [isNone]
  | some v => cases v <;> simp [isNone]

/-- "each iteration appends exactly one batch per recorded quantity", counted over a whole run: the history list of
    key `k` grows by exactly the number of successful commits at which `k` was recorded — nothing else ever appends,
    nothing ever removes -/
theorem C17_run_history_length (ops : List Op) (s : State) (h : Inv s) (hni : ∀ o ∈ ops, o.isImport = false)
    (k : Key) (l : List Val) (hl : lookup k s.history = some l) :
    ∃ l' : List Val, lookup k (run s ops).history = some l' ∧ l'.length = l.length + commitsOf k s ops := by
  induction ops generalizing s l with
  | nil => exact ⟨l, hl, rfl⟩
  | cons o os ih =>
    have hI' := C17_step_inv s o h
    have hos : ∀ x ∈ os, x.isImport = false := fun x hx => hni x (List.mem_cons_of_mem _ hx)
    have key : ∃ l1 : List Val, lookup k (step s o).1.history = some l1 ∧
        l1.length = l.length + commitInc k s o := by
      cases hcm : o.isCommit with
      | false =>
        have := step_history_eq s o hcm (hni o (by simp))
        refine ⟨l, by rw [this]; exact hl, ?_⟩
        cases o <;> simp_all [Op.isCommit, commitInc]
      | true =>
        cases o with
        | commit strict =>
          by_cases hok : (step s (.commit strict)).2 = .unit
          · obtain ⟨ext, e1, _, e3⟩ := C17_commit_appends_one s strict h hok k l hl
            refine ⟨l ++ ext, e1, ?_⟩
            have hlen := congrArg List.length e3
            simp only [List.length_map] at hlen
            simp only [List.length_append, commitInc, hok, true_and]
            by_cases hk : k ∈ commitKeys
            · cases hc : lookup k s.current with
              | none => simp [hk, hc, isNone] at hlen ⊢; exact hlen
              | some v =>
                by_cases hv : v = Val.none
                · subst hv; simp [hk, hc, isNone] at hlen ⊢; exact hlen
                · have : isNone (some v) = false := isNone_false_iff.2 ⟨v, rfl, hv⟩
                  simp [hk, hc, hv, this] at hlen ⊢; exact hlen
            · simp [hk] at hlen ⊢; exact hlen
          · have hst : (step s (.commit strict)).1 = s := by
              by_cases hc : (strict && (isNone (lookup "beta" s.current) || isNone (lookup "logl" s.current))) = true
              · simp [step, hc]
              · exfalso; apply hok; simp [step, hc]
            exact ⟨l, by rw [hst]; exact hl, by simp [commitInc, hok]⟩
        | _ => simp [Op.isCommit] at hcm
    obtain ⟨l1, h1, n1⟩ := key
    obtain ⟨l2, h2, n2⟩ := ih (step s o).1 hI' hos l1 h1
    refine ⟨l2, h2, ?_⟩
    simp only [commitsOf]
    omega

/-- One sampler iteration.  `body` is whatever the four pipeline steps do to the manager — any operations except commit
    and import (in particular their own in-place writes to arrays they created and `copy=False` stores are allowed).
    Then: (1) the commit succeeds; (2) the history list of every key is the old list plus `ext`; (3) the old batches keep
    their payloads; (4) `ext` holds exactly one batch — the payload of the current value at commit time — when the key is
    recorded, and nothing otherwise; (5) the dictionary `sample()` returns carries the current payloads, (6) in arrays
    allocated by that very call: none of them is reachable from internal state. -/
theorem C17_iteration_appends_one_batch (s : State) (body : List Op) (h : Inv s) (hb : ∀ o ∈ body, o.isBody = true) :
    (step (run s body) (.commit false)).2 = .unit ∧
    (∀ (k : Key) (l : List Val), lookup k s.history = some l →
      ∃ ext : List Val,
        lookup k (iteration s body).1.history = some (l ++ ext) ∧
        l.map (deref (iteration s body).1.heap) = l.map (deref s.heap) ∧
        ext.map (deref (iteration s body).1.heap) =
          (if k ∈ commitKeys then
            match lookup k (run s body).current with
            | some v => if v = Val.none then [] else [deref (run s body).heap v]
            | none => []
           else [])) ∧
    (∃ d : List (Key × Val), (iteration s body).2 = .dict d ∧
      derefDict (iteration s body).1.heap d = derefDict (run s body).heap (run s body).current ∧
      ∀ b : Nat, b ∈ dictAddrs d → b ∉ reach (iteration s body).1 ∧ b ∈ (iteration s body).1.escaped) := by
  have hI1 : Inv (run s body) := (C17_inv_iff _).2 (run_inv body s ((C17_inv_iff s).1 h))
  have hok : (step (run s body) (.commit false)).2 = .unit := by simp [step]
  have hI2 : Inv (step (run s body) (.commit false)).1 := C17_step_inv _ _ hI1
  have hM2 := (C17_inv_iff _).1 hI2
  have hM1 := (C17_inv_iff _).1 hI1
  have hhist : (run s body).history = s.history := run_history_eq body s hb
  have hni : ∀ o ∈ body, o.isImport = false := fun o ho => (isBody_spec (hb o ho)).2
  -- the final `get_current()`
  have hg : iteration s body =
      ({ (step (run s body) (.commit false)).1 with
           heap := (copyDict (step (run s body) (.commit false)).1.heap (step (run s body) (.commit false)).1.current).1,
           escaped := dictAddrs (copyDict (step (run s body) (.commit false)).1.heap (step (run s body) (.commit false)).1.current).2
             ++ (step (run s body) (.commit false)).1.escaped },
       .dict (copyDict (step (run s body) (.commit false)).1.heap (step (run s body) (.commit false)).1.current).2) := by
    simp [iteration, step]
  have hext := copyDict_ext (step (run s body) (.commit false)).1.heap (step (run s body) (.commit false)).1.current
  have hcur2 : (step (run s body) (.commit false)).1.current = (run s body).current := by
    simp [step, (commitLoop_frame commitKeys (run s body)).1]
  have hext12 : Ext (run s body).heap (step (run s body) (.commit false)).1.heap := step_ext _ _ rfl
  refine ⟨hok, fun k l hl => ?_, ?_⟩
  · -- history
    have hl1 : lookup k (run s body).history = some l := by rw [hhist]; exact hl
    obtain ⟨ext, e1, e2, e3⟩ := C17_commit_appends_one (run s body) false hI1 hok k l hl1
    -- payload of the old batches across the body
    obtain ⟨l', hl', hp⟩ := C17_run_history_prefix body s h hni k l hl
    have hll : l' = l := by rw [hl1] at hl'; exact (Option.some.inj hl').symm
    rw [hll] at hp
    have hbody : l.map (deref (run s body).heap) = l.map (deref s.heap) :=
      (List.IsPrefix.eq_of_length hp (by simp)).symm
    have hb2 : ∀ b : Nat, b ∈ listAddrs (l ++ ext) → b < (step (run s body) (.commit false)).1.heap.length :=
      fun b hb => hM2.reach_lt b (mem_reach.2 (Or.inr (Or.inl (mem_histAddrs.2
        ⟨k, l ++ ext, lookup_mem e1, mem_listAddrs.1 hb⟩))))
    have hfin := derefList_ext hext hb2
    rw [List.map_append, List.map_append] at hfin
    have hlen : (l.map (deref (copyDict (step (run s body) (.commit false)).1.heap
        (step (run s body) (.commit false)).1.current).1)).length =
        (l.map (deref (step (run s body) (.commit false)).1.heap)).length := by simp
    obtain ⟨f1, f2⟩ := List.append_inj hfin hlen
    refine ⟨ext, by rw [hg]; exact e1, by rw [hg]; simp only; rw [f1, e2, hbody], by rw [hg]; simp only; rw [f2]; exact e3⟩
  · refine ⟨_, by rw [hg], ?_, fun b hb => ?_⟩
    · rw [hg]
      simp only
      rw [copyDict_deref _ _ (fun b hb => hM2.reach_lt b (mem_reach.2 (Or.inl hb))), hcur2]
      exact derefDict_ext hext12 (fun b hb => hM1.reach_lt b (mem_reach.2 (Or.inl hb)))
    · have hf := copyDict_fresh hb
      rw [hg]
      refine ⟨fun hr => ?_, by simp only [List.mem_append]; exact Or.inl hb⟩
      have : b ∈ reach (step (run s body) (.commit false)).1 := hr
      have := hM2.reach_lt b this
      omega

/-- The per-iteration dictionary really is non-trivial and the theorem is about it: concrete instance below. -/
def demoBody : List Op :=
  [.setCurrent "iter" (.scalar 1) true, .updateCurrent [("u", .fresh [1, 2]), ("logl", .fresh [5]), ("beta", .scalar 0)] true,
   .scribble 0 [7, 7], .setCurrent "u" (.held 0) true, .getHistory "u" none true]

example : ∀ o ∈ demoBody, o.isBody = true := by decide
example : lookup "u" (iteration init demoBody).1.history = some [Val.ref 5] ∧
    rd (iteration init demoBody).1.heap 5 = some [7, 7] ∧
    lookup "x" (iteration init demoBody).1.history = some [] := by decide

/-- Any number of iterations, with anything the caller likes in between (accessor calls, in-place writes to what it
    was given — everything except import): the batches committed so far stay, as payloads, a prefix of the history. -/
theorem C17_iterations_append_only (s : State) (h : Inv s) (rounds : List (List Op × List Op))
    (hr : ∀ r ∈ rounds, (∀ o ∈ r.1, o.isBody = true) ∧ (∀ o ∈ r.2, o.isImport = false))
    (k : Key) (l : List Val) (hl : lookup k s.history = some l) :
    ∃ l' : List Val, lookup k (run s (rounds.flatMap fun r => iterationOps r.1 ++ r.2)).history = some l' ∧
      l.map (deref s.heap) <+: l'.map (deref (run s (rounds.flatMap fun r => iterationOps r.1 ++ r.2)).heap) := by
  apply C17_run_history_prefix _ s h _ k l hl
  intro o ho
  simp only [List.mem_flatMap, List.mem_append, iterationOps, List.mem_cons, List.not_mem_nil, or_false] at ho
  obtain ⟨r, hrm, ho⟩ := ho
  rcases ho with (ho | ho | ho) | ho
  · exact (isBody_spec ((hr r hrm).1 o ho)).2
  · subst ho; rfl
  · subst ho; rfl
  · exact (hr r hrm).2 o ho

theorem run_iterationOps (s : State) (body : List Op) : run s (iterationOps body) = (iteration s body).1 := by
  simp [iterationOps, run_append, run, iteration]

/-! ### `Sampler.posterior()` -/

/-- `compute_posterior` does not touch the manager's dictionaries (it never commits, never fills the results cache),
    keeps the invariant, and therefore leaves every observable read as it was. -/
theorem C17_posterior_read_only (s : State) (o : PostOpts) (h : Inv s) :
    (posterior s o).1.current = s.current ∧ (posterior s o).1.history = s.history ∧
    (posterior s o).1.cache = s.cache ∧ (posterior s o).1.imported = s.imported ∧ Inv (posterior s o).1 := by
  have sp := (posterior_spec s o).1
  exact ⟨sp.cur, sp.hist, sp.cache, sp.imp, (C17_inv_iff _).2 (sp.inv ((C17_inv_iff s).1 h))⟩

/-- Every array in the tuple `posterior()` returns — for every combination of `resample`, `return_blobs`,
    `trim_importance_weights`, `return_logw`, with or without a declared blobs dtype, in every state — was allocated
    during the call, is recorded as held by the caller, and is not reachable from internal state. -/
theorem C17_posterior_returns_new_arrays (s : State) (o : PostOpts) (h : Inv s) (b : Nat)
    (hb : b ∈ (posterior s o).2.addrs) :
    s.next ≤ b ∧ b ∈ (posterior s o).1.escaped ∧ b ∉ reach (posterior s o).1 := by
  have sp := posterior_spec s o
  have h1 := sp.2 b hb
  refine ⟨h1.1, h1.2, fun hr => ?_⟩
  rw [sp.1.reach_eq] at hr
  have := ((C17_inv_iff s).1 h).reach_lt b hr
  have := h1.1
  omega

/-- the slots of the returned tuple, by option (the documented signatures) -/
theorem C17_posterior_tuple (o : PostOpts) (v : PostVals) (w : Val) :
    (postTuple o v w).map Prod.fst =
      ["x", "weights", "logl"] ++ (if o.returnBlobs && v.blobs != Val.none then ["blobs"] else []) ++
        (if o.returnLogw then ["logw"] else []) := by
  simp only [postTuple]
  split <;> split <;> simp

/-- non-vacuity: after two commits, `posterior(return_logw=True, trim_importance_weights=False)` hands out `x`, `logl`
    (the concatenated batches), `weights`, `logw`: addresses 12..16 are new, nothing internal points to them -/
def demoPost : List Op :=
  [.updateCurrent [("u", .fresh [1, 2]), ("x", .fresh [3, 4]), ("logl", .fresh [5]), ("beta", .scalar 0), ("logz", .scalar 0)] true,
   .commit false, .commit false]

example : (posterior (run init demoPost) ⟨false, false, false, true, false⟩).2 =
    .dict [("x", .ref 15), ("weights", .ref 13), ("logl", .ref 16), ("logw", .ref 12)] ∧
    rd (posterior (run init demoPost) ⟨false, false, false, true, false⟩).1.heap 15 = some [3, 4, 3, 4] ∧
    (run init demoPost).next = 12 := by decide
example : (posterior (run init demoPost) ⟨true, true, true, true, false⟩).2 =
    .dict [("x", .ref 23), ("weights", .ref 26), ("logl", .ref 24), ("logw", .ref 25)] := by decide
/-- with an empty history `np.max(logw)` raises -/
example : (posterior init ⟨false, false, true, false, false⟩).2 = .err .valueError := by decide

/-! ### internal state only acquires arrays the manager allocated itself -/

/-- For every operation except the two `copy=False` stores: an array reachable from `_current`, `_history` or the
    results cache afterwards was reachable before, or was allocated by this very operation.  No array the caller ever
    held — none it created, none it was handed — becomes internal. -/
theorem C17_internal_arrays_are_library_allocated (s : State) (o : Op) (ho : o.optIn = false) (a : Nat)
    (ha : a ∈ reach (step s o).1) : a ∈ reach s ∨ s.next ≤ a :=
  step_reach_new s o ho a ha

/-! ### resume: `update_from_dict` of an exported dictionary into a newly constructed manager -/

/-- a newly constructed manager beside `s` satisfies the invariant -/
theorem C17_freshIn_inv (s : State) (h : Inv s) : Inv (freshIn s) :=
  (C17_inv_iff _).2 (freshIn_inv ((C17_inv_iff s).1 h))

/-- The resumed manager (export, `update_from_dict` into a fresh manager, the defaults of `load_sampler_state`) satisfies
    the invariant — so every theorem above applies to the run that continues from it — and shares NOTHING with what
    existed before: every array it reaches was allocated after the export, hence is neither one of the old manager's
    arrays nor one of the arrays of the exported dictionary (which stay in the caller's hands). -/
theorem C17_resume_shares_nothing (s : State) (h : Inv s) :
    Inv (resume s) ∧ (∀ a : Nat, a ∈ reach (resume s) → (step s .toDict).1.next ≤ a) ∧
    (∀ a : Nat, a ∈ reach (resume s) → a ∉ reach s ∧ a ∉ (step s .toDict).2.addrs) := by
  have hI := (C17_inv_iff s).1 h
  have hI1 := step_inv s .toDict hI
  have hx : ∃ c hh, step s .toDict = ((step s .toDict).1, Res.export c hh) := ⟨_, _, rfl⟩
  obtain ⟨c, hh, hx⟩ := hx
  have hres : resume s = defaultsLoop resumeDefaults (step (freshIn (step s .toDict).1) (exportArgs c hh)).1 := by
    unfold resume; rw [hx]
  have hF := freshIn_inv hI1
  have hA0 : Above (step s .toDict).1.heap.length (freshIn (step s .toDict).1) := fun a ha => by
    have : reach (freshIn (step s .toDict).1) = reach init := rfl
    rw [this, reach_init] at ha; cases ha
  have hA1 := hA0.step (Nat.le_refl _) (exportArgs c hh) rfl
  have l1 := step_heap_length_le (freshIn (step s .toDict).1) (exportArgs c hh)
  have hA2 := defaultsLoop_above resumeDefaults _ _ hA1 (by simpa [freshIn] using l1)
  have hInv : Model.StateMgr.Inv (resume s) := by
    rw [hres]; exact defaultsLoop_inv _ _ (step_inv _ _ hF)
  have hAb : ∀ a : Nat, a ∈ reach (resume s) → (step s .toDict).1.heap.length ≤ a := by
    rw [hres]; exact hA2.1
  refine ⟨(C17_inv_iff _).2 hInv, hAb, fun a ha => ⟨fun hr => ?_, fun hr => ?_⟩⟩
  · have := hI.reach_lt a hr
    have := hAb a ha
    have := step_heap_length_le s .toDict
    omega
  · have h1 := hI1.esc_lt a (step_res_escaped s .toDict a hr)
    have := hAb a ha
    omega

/-- Resume restores the committed history exactly (payloads, key by key, batch by batch), in new arrays
    (`C17_resume_shares_nothing`): what was committed before the checkpoint is what the resumed run starts from. -/
theorem C17_resume_restores_history (s : State) (h : Inv s) (hk : s.history.map Prod.fst = historyKeys) :
    derefHist (resume s).heap (resume s).history = derefHist s.heap s.history :=
  resume_history s ((C17_inv_iff s).1 h) hk

/-- … for every state reached from a fresh manager without imports (any number of iterations, accessor calls, caller
    writes), and the run that continues from the resumed manager only appends to the restored batches. -/
theorem C17_resume_then_append_only (pre post : List Op) (hpre : ∀ o ∈ pre, o.isImport = false)
    (hpost : ∀ o ∈ post, o.isImport = false) (k : Key) (l : List Val) (hl : lookup k (run init pre).history = some l) :
    ∃ l' : List Val, lookup k (run (resume (run init pre)) post).history = some l' ∧
      l.map (deref (run init pre).heap) <+: l'.map (deref (run (resume (run init pre)) post).heap) := by
  have hI := C17_reachable_inv pre
  have hk : (run init pre).history.map Prod.fst = historyKeys := by
    rw [run_history_keys pre init hpre]; decide
  have hr := C17_resume_restores_history _ hI hk
  -- the restored list of key k
  have h1 : lookup k (derefHist (run init pre).heap (run init pre).history) = some (l.map (deref (run init pre).heap)) := by
    simp only [derefHist, lookup_map, hl, Option.map_some]
  rw [← hr] at h1
  simp only [derefHist, lookup_map] at h1
  cases hl2 : lookup k (resume (run init pre)).history with
  | none => rw [hl2] at h1; cases h1
  | some l2 =>
    rw [hl2] at h1
    simp only [Option.map_some, Option.some.injEq] at h1
    obtain ⟨l', e1, e2⟩ := C17_run_history_prefix post _ (C17_resume_shares_nothing _ hI).1 hpost k l2 hl2
    exact ⟨l', e1, by rw [← h1]; exact e2⟩

/-- non-vacuity: the resumed manager of `demo` holds copies at new addresses -/
example : reach (resume (run init demo)) = [7, 8] ∧ reach (run init demo) = [1, 2] ∧
    (step (run init demo) .toDict).2.addrs = [5, 6] ∧
    lookup "u" (observe (resume (run init demo))).history = some [PVal.arr [3, 4]] ∧
    lookup "iter" (observe (resume (run init demo))).current = some (PVal.scalar 0) := by decide

/-! ### `compute_results()` caching -/

/-- After ANY operation sequence from a fresh manager (imports restricted to history keys `get_history` accepts — every
    exported dictionary qualifies), what `compute_results()` returns — whether it comes from the cache or is computed
    now — is `resultsP` of the committed history payloads: a function of the committed history alone.  In particular
    the cache is never stale, and nothing the caller writes anywhere can change it (the history payloads do not depend
    on caller-held arrays: `C17_history_indep_of_scribble`). -/
theorem C17_results_function_of_history (ops : List Op) (hvi : ∀ o ∈ ops, o.validImport = true) :
    (observe (run init ops)).results = .dict (resultsP (derefHist (run init ops).heap (run init ops).history)) := by
  obtain ⟨h1, h2⟩ := run_cacheOk ops init init_inv init_cacheOk.1 init_cacheOk.2 hvi
  exact results_eq_resultsP _ (run_inv ops init init_inv) h1 h2

/-- caching is transparent: dropping the cache does not change what `compute_results()` returns -/
theorem C17_cache_transparent (ops : List Op) (hvi : ∀ o ∈ ops, o.validImport = true) :
    (observe { run init ops with cache := none }).results = (observe (run init ops)).results := by
  obtain ⟨h1, h2⟩ := run_cacheOk ops init init_inv init_cacheOk.1 init_cacheOk.2 hvi
  have hI := run_inv ops init init_inv
  rw [results_eq_resultsP _ hI h1 h2]
  exact results_eq_resultsP { run init ops with cache := none } (inv_cache_none hI) h1 (cacheOk_none rfl)

/-- non-vacuity: a cached result, then more commits through the cache-invalidating path, then the cached result again -/
def demoCache : List Op :=
  demo ++ [.setCurrent "logl" (.fresh [5, 6]) true, .setCurrent "logz" (.scalar 0) true, .commit false, .computeResults,
           .scribble 9 [-9, -9], .computeResults, .commit false, .computeResults]

example : ∀ o ∈ demoCache, o.validImport = true := by decide
example : (run init demoCache).cache ≠ none ∧
    lookup "u" (resultsP (derefHist (run init demoCache).heap (run init demoCache).history)) = some (PVal.arr [3, 4, 3, 4, 3, 4]) := by
  decide

end Props.C17
