import TempestVerif.Model.RecSM
import TempestVerif.Model.RecSM2
import TempestVerif.Props.C07
import Mathlib.Tactic
/-
  C07 (clause audit) — coherence of every stored / returned record on the StateManager-level model
  `Model.RecSM`: per-key histories, `None` slots, the `have_blobs` gates, out-of-cube proposals replaced by
  the walker's own position, `execute_iteration`'s return value, `compute_posterior`, `results()`, checkpoints.

  Coherence is stated array-wise (`x = map T u`, `logl = map (fst ∘ Lk) x`, `blobs = map (snd ∘ Lk) x`): every
  movement primitive is natural in the element type (`gather?_map`, `maskSet_map`, `scatterFrom_map`,
  `List.map_flatten`), which is exactly "whole records move, never single fields".  `C07_sm_rowwise` restates
  the invariant row by row, in the words of the property.
-/
namespace Props.C07SM
open Model.Records (gather? maskSet scatterFrom)
open Model.RecSM

variable {U X L B W α β : Type}

/-! ### the movement primitives commute with pointwise maps -/

theorem gather?_map (f : α → β) (xs : List α) (idx : List Nat) :
    gather? (xs.map f) idx = (gather? xs idx).map (List.map f) := by
  induction idx with
  | nil => simp [gather?]
  | cons i is ih =>
    simp only [gather?, ih, List.getElem?_map]
    cases xs[i]? <;> cases gather? xs is <;> simp

theorem gather?_mem {xs : List α} {idx : List Nat} {ys : List α} (h : gather? xs idx = some ys) :
    ∀ y ∈ ys, y ∈ xs := by
  induction idx generalizing ys with
  | nil => simp [gather?] at h; subst h; simp
  | cons i is ih =>
    simp only [gather?] at h
    split at h
    · rename_i x r hx hr
      injection h with h; subst h
      intro y hy
      rcases List.mem_cons.mp hy with rfl | hy
      · exact List.mem_of_getElem? hx
      · exact ih hr y hy
    · cases h

theorem maskSet_map (f : α → β) (c q : List α) (m : List Bool) :
    maskSet (c.map f) (q.map f) m = (maskSet c q m).map f := by
  induction c generalizing q m with
  | nil => cases q <;> cases m <;> simp [maskSet]
  | cons a c ih =>
    cases q with
    | nil => simp [maskSet]
    | cons b q =>
      cases m with
      | nil => simp [maskSet]
      | cons t m => cases t <;> simp [maskSet, ih]

theorem maskSet_mem (c q : List α) (m : List Bool) : ∀ y ∈ maskSet c q m, y ∈ c ∨ y ∈ q := by
  induction c generalizing q m with
  | nil => cases q <;> cases m <;> simp [maskSet]
  | cons a c ih =>
    cases q with
    | nil => intro y hy; simp [maskSet] at hy; left; simpa using hy
    | cons b q =>
      cases m with
      | nil => intro y hy; simp [maskSet] at hy; left; simpa using hy
      | cons t m =>
        intro y hy
        simp only [maskSet, List.mem_cons] at hy
        rcases hy with rfl | hy
        · cases t <;> simp
        · rcases ih q m y hy with h | h
          · left; simp [h]
          · right; simp [h]

theorem scatterFrom_map (f : α → β) (xs : List α) (tgt src : List Nat) :
    scatterFrom (xs.map f) tgt src = (scatterFrom xs tgt src).map f := by
  induction tgt generalizing src with
  | nil => simp [scatterFrom]
  | cons t ts ih =>
    cases src with
    | nil => simp [scatterFrom]
    | cons s ss =>
      simp only [scatterFrom, List.getElem?_map]
      cases xs[s]? with
      | none => simpa using ih ss
      | some v => simp [ih ss, List.map_set]

theorem scatterFrom_mem (xs : List α) (tgt src : List Nat) : ∀ y ∈ scatterFrom xs tgt src, y ∈ xs := by
  induction tgt generalizing src with
  | nil => simp [scatterFrom]
  | cons t ts ih =>
    cases src with
    | nil => simp [scatterFrom]
    | cons s ss =>
      simp only [scatterFrom]
      cases hs : xs[s]? with
      | none => simpa using ih ss
      | some v =>
        intro y hy
        simp only at hy
        rcases List.mem_or_eq_of_mem_set hy with h | h
        · exact ih ss y h
        · subst h; exact List.mem_of_getElem? hs

theorem flat?_map (f : α → β) (h : List (List α)) :
    flat? (h.map (List.map f)) = (flat? h).map (List.map f) := by
  cases h with
  | nil => rfl
  | cons a t => simp [flat?, List.map_flatten]

theorem flat?_mem {h : List (List α)} {ys : List α} (hf : flat? h = some ys) :
    ∀ y ∈ ys, ∃ bt ∈ h, y ∈ bt := by
  cases h with
  | nil => cases hf
  | cons a t =>
    simp only [flat?, Option.some.injEq] at hf; subst hf
    intro y hy
    exact List.mem_flatten.mp hy

theorem substitute_mem (p : List U) (c : List Bool) (u : List U) :
    ∀ y ∈ substitute p c u, (∃ i : Nat, p[i]? = some y ∧ c[i]? = some true) ∨ y ∈ u := by
  induction p generalizing c u with
  | nil => simp [substitute]
  | cons a p ih =>
    cases c with
    | nil => simp [substitute]
    | cons b c =>
      cases u with
      | nil => simp [substitute]
      | cons v u =>
        intro y hy
        simp only [substitute, List.mem_cons] at hy
        rcases hy with rfl | hy
        · cases b
          · right; simp
          · left; exact ⟨0, by simp⟩
        · rcases ih c u y hy with ⟨i, h1, h2⟩ | h
          · left; exact ⟨i + 1, by simpa using h1, by simpa using h2⟩
          · right; simp [h]

/-! ### coherence -/

section coh
variable (T : U → X) (Lk : X → L × B) (inCube : U → Prop) (cfg : Cfg)

/-- what the blobs slot must hold beside the physical coordinates `x` -/
def blobsOf (x : List X) : Option (List B) :=
  if cfg.lkBlobs then some (x.map fun x => (Lk x).2) else none

/-- the arrays are coherent records row by row -/
def CohArr (u : List U) (x : List X) (l : List L) (b : Option (List B)) : Prop :=
  x = u.map T ∧ l = x.map (fun x => (Lk x).1) ∧ (∀ v ∈ u, inCube v) ∧ b = blobsOf Lk cfg x

/-- the current slots hold coherent arrays -/
def CurCoh (c : Cur U X L B) : Prop :=
  ∃ u x l, c.u = some u ∧ c.x = some x ∧ c.l = some l ∧ CohArr T Lk inCube cfg u x l c.b

/-- the per-key histories stay aligned batch by batch and every batch is coherent -/
def HistInv (h : Hist U X L B) : Prop :=
  h.x = h.u.map (List.map T) ∧ h.l = h.x.map (List.map fun x => (Lk x).1) ∧
  (∀ bt ∈ h.u, ∀ v ∈ bt, inCube v) ∧
  h.b = if cfg.lkBlobs then h.x.map (List.map fun x => (Lk x).2) else []

/-- either nothing has happened yet (`StateManager.__init__`), or the current slots are coherent; the history always is -/
def Inv (s : St U X L B) : Prop :=
  (s = init ∨ CurCoh T Lk inCube cfg s.cur) ∧ HistInv T Lk inCube cfg s.hist

/-- the blob gate is the one of the code as it is (declared OR present); the pre-9130321 gate (declared only) is
    sound exactly when a blob-returning likelihood comes with a declaration -/
def GateOk : Prop := cfg.stateGate = true ∨ (cfg.lkBlobs = true → cfg.haveBlobs = true)

/-- the invariant once anything has been drawn: what every step establishes -/
def Live (s : St U X L B) : Prop := CurCoh T Lk inCube cfg s.cur ∧ HistInv T Lk inCube cfg s.hist

theorem Live.inv {s : St U X L B} (h : Live T Lk inCube cfg s) : Inv T Lk inCube cfg s := ⟨Or.inr h.1, h.2⟩

theorem C07_sm_init : Inv T Lk inCube cfg (init : St U X L B) := by
  refine ⟨Or.inl rfl, rfl, rfl, ?_, ?_⟩
  · intro bt hbt; simp [init] at hbt
  · simp [init]

theorem histInv_append {h : Hist U X L B} (hh : HistInv T Lk inCube cfg h) {u : List U} {x : List X} {l : List L}
    {b : Option (List B)} (hc : CohArr T Lk inCube cfg u x l b) :
    HistInv T Lk inCube cfg ⟨h.u ++ [u], h.x ++ [x], h.l ++ [l], appendSome h.b b⟩ := by
  obtain ⟨hx, hl, hcube, hb⟩ := hh
  obtain ⟨hx', hl', hcu, hb'⟩ := hc
  refine ⟨by simp [hx, hx'], by simp [hl, hl'], ?_, ?_⟩
  · intro bt hbt v hv
    rcases List.mem_append.mp hbt with h | h
    · exact hcube bt h v hv
    · simp at h; subst h; exact hcu v hv
  · simp only [hb', hb, blobsOf]
    by_cases hk : cfg.lkBlobs = true <;> simp [hk, appendSome]

/-- `commit_current_to_history` appends the whole current record set: all keys or none -/
theorem commit_inv {s : St U X L B} (hs : Inv T Lk inCube cfg s) : Inv T Lk inCube cfg (commit s) := by
  obtain ⟨hc, hh⟩ := hs
  rcases hc with rfl | ⟨u, x, l, h1, h2, h3, hco⟩
  · exact C07_sm_init T Lk inCube cfg
  · refine ⟨Or.inr ⟨u, x, l, h1, h2, h3, hco⟩, ?_⟩
    simp only [commit, h1, h2, h3, appendSome]
    exact histInv_append T Lk inCube cfg hh hco

/-- under the history invariant the flat pool is itself one coherent array set -/
theorem flat_coherent {h : Hist U X L B} (hh : HistInv T Lk inCube cfg h) {u : List U} (hu : flat? h.u = some u) :
    flat? h.x = some (u.map T) ∧ flat? h.l = some ((u.map T).map fun x => (Lk x).1) ∧
    (∀ v ∈ u, inCube v) ∧
    (cfg.lkBlobs = true → flat? h.b = some ((u.map T).map fun x => (Lk x).2)) ∧
    (cfg.lkBlobs = false → h.b = []) := by
  obtain ⟨hx, hl, hcube, hb⟩ := hh
  refine ⟨?_, ?_, ?_, ?_, ?_⟩
  · rw [hx, flat?_map, hu]; rfl
  · rw [hl, hx, flat?_map, flat?_map, hu]; rfl
  · intro v hv
    obtain ⟨bt, hbt, hvb⟩ := flat?_mem hu v hv
    exact hcube bt hbt v hvb
  · intro hk
    rw [hb, if_pos hk, hx, flat?_map, flat?_map, hu]; rfl
  · intro hk
    rw [hb]; simp [hk]

/-- with a coherent current set the gate is open exactly as the blobs require (or the step raises) -/
theorem gate_of_coh (hg : GateOk cfg) {x : List X} (hk : cfg.lkBlobs = true) :
    cfg.gate (blobsOf Lk cfg x) = true := by
  rcases hg with h | h
  · simp [Cfg.gate, blobsOf, hk, h]
  · simp [Cfg.gate, h hk]

theorem gate_no_blobs {x : List X} (hk : cfg.lkBlobs = false) :
    cfg.gate (blobsOf Lk cfg x) = cfg.haveBlobs := by
  simp [Cfg.gate, blobsOf, hk]

/-- Resampler.run: ONE index vector applied to the flat pool of every key -/
theorem resample_inv (hg : GateOk cfg) {s s' : St U X L B} (idx : List Nat) (hs : Inv T Lk inCube cfg s)
    (h : resample cfg idx s = some s') : Live T Lk inCube cfg s' := by
  obtain ⟨hc, hh⟩ := hs
  unfold resample at h
  cases hu : flat? s.hist.u with
  | none => simp [hu] at h
  | some u =>
    obtain ⟨fx, fl, fcube, fb1, fb0⟩ := flat_coherent T Lk inCube cfg hh hu
    have hcur : CurCoh T Lk inCube cfg s.cur := by
      rcases hc with rfl | hc
      · simp [init, flat?] at hu
      · exact hc
    obtain ⟨u0, x0, l0, e1, e2, e3, -, -, -, eb⟩ := hcur
    simp only [hu, fx, fl, Option.bind_some, gather?_map] at h
    cases hgth : gather? u idx with
    | none => simp [hgth] at h
    | some u' =>
      have hcube' : ∀ v ∈ u', inCube v := fun v hv => fcube v (gather?_mem hgth v hv)
      by_cases hk : cfg.lkBlobs = true
      · have hgt : cfg.gate s.cur.b = true := by rw [eb]; exact gate_of_coh Lk cfg hg hk
        simp only [hgt, if_true, fb1 hk, Option.map_some, Option.bind_some, hgth, gather?_map] at h
        injection h with h; subst h
        exact ⟨⟨u', _, _, rfl, rfl, rfl, rfl, rfl, hcube', by simp [blobsOf, hk]⟩, hh⟩
      · have hk' : cfg.lkBlobs = false := by simpa using hk
        have hgt : cfg.gate s.cur.b = cfg.haveBlobs := by rw [eb]; exact gate_no_blobs Lk cfg hk'
        by_cases hb : cfg.haveBlobs = true
        · simp [hgt, hb, fb0 hk', flat?] at h
        · have hb' : cfg.haveBlobs = false := by simpa using hb
          simp only [hgt, hb', Bool.false_eq_true, if_false, Option.bind_some, hgth, Option.map_some] at h
          injection h with h; subst h
          refine ⟨⟨u', _, _, rfl, rfl, rfl, rfl, rfl, hcube', ?_⟩, hh⟩
          show s.cur.b = _
          rw [eb]; simp [blobsOf, hk']

theorem logLike_snd (x : List X) : (logLike cfg Lk x).2 = blobsOf Lk cfg x := rfl

/-- a batch built the way the code builds prior draws and proposals -/
theorem build_coh {us : List U} (hin : ∀ v ∈ us, inCube v) :
    CohArr T Lk inCube cfg us (us.map T) (logLike cfg Lk (us.map T)).1 (logLike cfg Lk (us.map T)).2 :=
  ⟨rfl, rfl, hin, rfl⟩

/-- Mutator.run at beta = 0: fresh draws; −inf rows overwritten by whole copies of picked rows -/
theorem warmupKept_inv (hg : GateOk cfg) (isInf : L → Bool) {s s' : St U X L B} (us : List U) (picks : List Nat)
    (hdraw : ∀ v ∈ us, inCube v) (hs : Inv T Lk inCube cfg s)
    (h : warmupKept cfg T Lk isInf us picks s = some s') : Live T Lk inCube cfg s' := by
  obtain ⟨-, hh⟩ := hs
  unfold warmupKept at h
  simp only at h
  split at h
  · injection h with h; subst h
    exact ⟨⟨us, _, _, rfl, rfl, rfl, build_coh T Lk inCube cfg hdraw⟩, hh⟩
  · split at h
    · cases h
    have hcube' : ∀ v ∈ scatterFrom us (infIdx isInf (logLike cfg Lk (us.map T)).1) picks, inCube v :=
      fun v hv => hdraw v (scatterFrom_mem _ _ _ v hv)
    by_cases hk : cfg.lkBlobs = true
    · have hgt : cfg.gate (logLike cfg Lk (us.map T)).2 = true := by
        rw [logLike_snd]; exact gate_of_coh Lk cfg hg hk
      rw [if_pos hgt] at h
      have hb : (logLike cfg Lk (us.map T)).2 = some ((us.map T).map fun x => (Lk x).2) := by
        simp [logLike, hk]
      rw [hb] at h
      simp only at h
      injection h with h; subst h
      refine ⟨⟨_, _, _, rfl, rfl, rfl, ?_, ?_, hcube', ?_⟩, hh⟩
      · exact scatterFrom_map T us _ picks
      · simp only [logLike]
        rw [scatterFrom_map, scatterFrom_map]
      · simp only [blobsOf, hk, if_true, Option.some.injEq]
        rw [scatterFrom_map, scatterFrom_map]
    · have hk' : cfg.lkBlobs = false := by simpa using hk
      have hb : (logLike cfg Lk (us.map T)).2 = none := by simp [logLike, hk']
      have hgt : cfg.gate (logLike cfg Lk (us.map T)).2 = cfg.haveBlobs := by
        rw [logLike_snd]; exact gate_no_blobs Lk cfg hk'
      by_cases hbb : cfg.haveBlobs = true
      · rw [if_pos (by rw [hgt]; exact hbb), hb] at h
        cases h
      · rw [if_neg (by rw [hgt]; exact hbb), hb] at h
        injection h with h; subst h
        refine ⟨⟨_, _, _, rfl, rfl, rfl, ?_, ?_, hcube', ?_⟩, hh⟩
        · exact scatterFrom_map T us _ picks
        · simp only [logLike]
          rw [scatterFrom_map, scatterFrom_map]
        · simp [blobsOf, hk']

theorem drawLoop_mem (allInfB : List U → Bool) (n : Nat) (rest : List (List U)) (b : List U) (drawn : Nat)
    {kept : List U × Nat} (h : drawLoop allInfB n rest b drawn = some kept) :
    (kept.1 = b ∨ kept.1 ∈ rest) ∧ allInfB kept.1 = false := by
  induction rest generalizing b drawn with
  | nil =>
    simp only [drawLoop] at h
    split at h
    · cases h
    · rename_i hb; injection h with h; subst h; exact ⟨Or.inl rfl, by simpa using hb⟩
  | cons b' bs ih =>
    simp only [drawLoop] at h
    split at h
    · split at h
      · cases h
      · rcases ih b' _ h with ⟨h1 | h1, h2⟩
        · exact ⟨Or.inr (by simp [h1]), h2⟩
        · exact ⟨Or.inr (by simp [h1]), h2⟩
    · rename_i hb; injection h with h; subst h; exact ⟨Or.inl rfl, by simpa using hb⟩

/-- Mutator.run at beta = 0 (with the redraw loop): the batch that is kept is one of the drawn batches -/
theorem warmup_inv (hg : GateOk cfg) (isInf : L → Bool) {s s' : St U X L B} (batches : List (List U)) (picks : List Nat)
    (hdraw : ∀ b ∈ batches, ∀ v ∈ b, inCube v) (hs : Inv T Lk inCube cfg s)
    (h : warmupR cfg T Lk isInf batches picks s = some s') : Live T Lk inCube cfg s' := by
  cases batches with
  | nil => simp [warmupR] at h
  | cons b0 rest =>
    simp only [warmupR, Option.bind_eq_some_iff] at h
    obtain ⟨kept, hk, h⟩ := h
    have hm := (drawLoop_mem _ _ _ _ _ hk).1
    refine warmupKept_inv T Lk inCube cfg hg isInf kept.1 picks ?_ hs h
    rcases hm with hm | hm
    · rw [hm]; exact hdraw b0 (by simp)
    · exact hdraw kept.1 (by simp [hm])

/-- the runner's private arrays are coherent -/
def RunCoh (r : Runner U X L B) : Prop := CohArr T Lk inCube cfg r.u r.x r.l r.b

/-- one pass of the MCMC loop: proposals that fail the bounds check are replaced by the walker's own position, the rest
    passed it, so every evaluated point lies in the cube; the accept mask is applied to all arrays at once -/
theorem mcmcStep_inv (negInf : L → Bool) (fold : U → U) (chk : U → Bool) (hfold : ∀ p, chk (fold p) = true → inCube (fold p))
    {r r' : Runner U X L B} (st : Step U) (hr : RunCoh T Lk inCube cfg r)
    (h : mcmcStepR cfg T Lk negInf fold chk r st = some r') : RunCoh T Lk inCube cfg r' := by
  obtain ⟨hx, hl, hcube, hb⟩ := hr
  unfold mcmcStepR at h
  split at h
  · cases h
  · simp only at h
    have hsub : ∀ v ∈ substitute (st.raw.map fold) ((st.raw.map fold).map chk) r.u, inCube v := by
      intro v hv
      rcases substitute_mem _ _ _ v hv with ⟨i, h1, h2⟩ | hmem
      · simp only [List.getElem?_map, Option.map_eq_some_iff] at h1 h2
        obtain ⟨a, _, rfl⟩ := h1
        obtain ⟨b, ⟨a', ha', rfl⟩, hb2⟩ := h2
        have : a' = a := by
          rename_i ha
          rw [ha] at ha'; exact (Option.some.inj ha').symm
        subst this
        exact hfold a' hb2
      · exact hcube v hmem
    have hmem : ∀ (m : List Bool) v, v ∈ maskSet r.u (substitute (st.raw.map fold) ((st.raw.map fold).map chk) r.u) m →
        inCube v := by
      intro m v hv
      rcases maskSet_mem _ _ _ v hv with h1 | h1
      · exact hcube v h1
      · exact hsub v h1
    by_cases hk : cfg.lkBlobs = true
    · have hrb : r.b = some (r.x.map fun x => (Lk x).2) := by rw [hb]; simp [blobsOf, hk]
      rw [hrb] at h
      simp only [logLike, hk, if_true] at h
      injection h with h; subst h
      refine ⟨?_, ?_, hmem _, ?_⟩
      · simp only [hx]; exact maskSet_map T _ _ _
      · simp only [hl, hx]
        rw [maskSet_map, maskSet_map]
      · simp only [blobsOf, hk, if_true, Option.some.injEq, hx]
        rw [maskSet_map, maskSet_map]
    · have hk' : cfg.lkBlobs = false := by simpa using hk
      have hrb : r.b = none := by rw [hb]; simp [blobsOf, hk']
      rw [hrb] at h
      simp only at h
      injection h with h; subst h
      refine ⟨?_, ?_, hmem _, ?_⟩
      · simp only [hx]; exact maskSet_map T _ _ _
      · simp only [hl, hx, logLike]
        rw [maskSet_map, maskSet_map]
      · simp [blobsOf, hk']

theorem mcmcSteps_inv (negInf : L → Bool) (fold : U → U) (chk : U → Bool) (hfold : ∀ p, chk (fold p) = true → inCube (fold p))
    (sts : List (Step U)) {r r' : Runner U X L B} (hr : RunCoh T Lk inCube cfg r)
    (h : mcmcStepsR cfg T Lk negInf fold chk r sts = some r') : RunCoh T Lk inCube cfg r' := by
  induction sts generalizing r with
  | nil => simp only [mcmcStepsR, Option.some.injEq] at h; subst h; exact hr
  | cons st sts ih =>
    simp only [mcmcStepsR, Option.bind_eq_some_iff] at h
    obtain ⟨r1, h1, h2⟩ := h
    exact ih (mcmcStep_inv T Lk inCube cfg negInf fold chk hfold st hr h1) h2

/-- Mutator.run at beta > 0 -/
theorem mutate_inv (hg : GateOk cfg) (negInf : L → Bool) (fold : U → U) (chk : U → Bool)
    (hfold : ∀ p, chk (fold p) = true → inCube (fold p)) (sts : List (Step U)) {s s' : St U X L B}
    (hs : Inv T Lk inCube cfg s) (h : mutateR cfg T Lk negInf fold chk sts s = some s') : Live T Lk inCube cfg s' := by
  obtain ⟨hc, hh⟩ := hs
  rcases hc with rfl | ⟨u, x, l, e1, e2, e3, hco⟩
  · simp [mutateR, init] at h
  · unfold mutateR at h
    rw [e1, e2, e3] at h
    simp only [Option.bind_eq_some_iff] at h
    obtain ⟨r, hrun, h⟩ := h
    have hb0 : (if cfg.gate s.cur.b = true then s.cur.b else none) = s.cur.b := by
      by_cases hk : cfg.lkBlobs = true
      · rw [if_pos (by rw [hco.2.2.2]; exact gate_of_coh Lk cfg hg hk)]
      · have : s.cur.b = none := by rw [hco.2.2.2]; simp [blobsOf, hk]
        rw [this]; simp
    rw [hb0] at hrun
    have hr : RunCoh T Lk inCube cfg r :=
      mcmcSteps_inv T Lk inCube cfg negInf fold chk hfold sts (r := ⟨u, x, l, s.cur.b⟩) hco hrun
    obtain ⟨rx, rl, rc, rb⟩ := hr
    by_cases hk : cfg.lkBlobs = true
    · have hgt : cfg.gate s.cur.b = true := by rw [hco.2.2.2]; exact gate_of_coh Lk cfg hg hk
      rw [if_pos hgt] at h
      have : r.b = some (r.x.map fun x => (Lk x).2) := by rw [rb]; simp [blobsOf, hk]
      rw [this] at h
      injection h with h; subst h
      exact ⟨⟨r.u, r.x, r.l, rfl, rfl, rfl, rx, rl, rc, by simp [blobsOf, hk]⟩, hh⟩
    · have hk' : cfg.lkBlobs = false := by simpa using hk
      have hsb : s.cur.b = none := by rw [hco.2.2.2]; simp [blobsOf, hk']
      have hrb : r.b = none := by rw [rb]; simp [blobsOf, hk']
      by_cases hbb : cfg.haveBlobs = true
      · have hgt : cfg.gate s.cur.b = true := by simp [Cfg.gate, hbb]
        rw [if_pos hgt, hrb] at h
        cases h
      · have hgt : ¬ cfg.gate s.cur.b = true := by simp [Cfg.gate, hbb, hsb]
        rw [if_neg hgt] at h
        injection h with h; subst h
        exact ⟨⟨r.u, r.x, r.l, rfl, rfl, rfl, rx, rl, rc, by show s.cur.b = _; rw [hsb]; simp [blobsOf, hk']⟩, hh⟩

theorem commit_live {s : St U X L B} (hs : Live T Lk inCube cfg s) : Live T Lk inCube cfg (commit s) := by
  obtain ⟨⟨u, x, l, h1, h2, h3, hco⟩, hh⟩ := hs
  refine ⟨⟨u, x, l, h1, h2, h3, hco⟩, ?_⟩
  simp only [commit, h1, h2, h3, appendSome]
  exact histInv_append T Lk inCube cfg hh hco

/-- the hypotheses about what is on the tape of one iteration: the prior draws lie in the cube (`np.random.rand`) -/
def TapeOk (t : TapeR U) : Prop := t.warm = true → ∀ b ∈ t.draws, ∀ v ∈ b, inCube v

/-- C07, "at every step boundary of an iteration": the state after `resampler.run`, after `mutator.run` and after the
    commit are all coherent (current set and every committed batch) -/
theorem C07_sm_step_boundaries (hg : GateOk cfg) (isInf : L → Bool) (fold : U → U) (chk : U → Bool)
    (hfold : ∀ p, chk (fold p) = true → inCube (fold p)) {s : St U X L B} {t : TapeR U}
    (ht : TapeOk inCube t) (hs : Inv T Lk inCube cfg s) {r : St U X L B × St U X L B × St U X L B}
    (h : iterateStatesR cfg T Lk isInf fold chk s t = some r) :
    Inv T Lk inCube cfg r.1 ∧ Live T Lk inCube cfg r.2.1 ∧ Live T Lk inCube cfg r.2.2 := by
  unfold iterateStatesR at h
  by_cases hw : t.warm = true
  · rw [if_pos hw] at h
    simp only [Option.map_eq_some_iff] at h
    obtain ⟨s2, h2, rfl⟩ := h
    have l2 := warmup_inv T Lk inCube cfg hg isInf t.draws t.picks (ht hw) hs h2
    exact ⟨hs, l2, commit_live T Lk inCube cfg l2⟩
  · rw [if_neg hw] at h
    simp only [Option.bind_eq_some_iff, Option.map_eq_some_iff] at h
    obtain ⟨s1, h1, s2, h2, rfl⟩ := h
    have l1 := resample_inv T Lk inCube cfg hg t.idx hs h1
    have l2 := mutate_inv T Lk inCube cfg hg isInf fold chk hfold t.steps l1.inv h2
    exact ⟨l1.inv, l2, commit_live T Lk inCube cfg l2⟩

/-- `Sampler.sample()`: the new state is coherent and the dictionary handed to the user is its current record set -/
theorem C07_sm_sample (hg : GateOk cfg) (isInf : L → Bool) (fold : U → U) (chk : U → Bool)
    (hfold : ∀ p, chk (fold p) = true → inCube (fold p)) {s s' : St U X L B} {t : TapeR U} {ret : Cur U X L B}
    (ht : TapeOk inCube t) (hs : Inv T Lk inCube cfg s)
    (h : iterateR cfg T Lk isInf fold chk s t = some (s', ret)) :
    Live T Lk inCube cfg s' ∧ CurCoh T Lk inCube cfg ret := by
  simp only [iterateR, Option.map_eq_some_iff, Prod.mk.injEq] at h
  obtain ⟨r, hr, rfl, rfl⟩ := h
  have := (C07_sm_step_boundaries T Lk inCube cfg hg isInf fold chk hfold ht hs hr).2.2
  exact ⟨this, this.1⟩

/-- C07 over a whole run: for EVERY number of iterations and every tape, the final state is coherent and so is every
    dictionary `sample()` returned on the way -/
theorem C07_sm_run (hg : GateOk cfg) (isInf : L → Bool) (fold : U → U) (chk : U → Bool)
    (hfold : ∀ p, chk (fold p) = true → inCube (fold p)) (ts : List (TapeR U)) {s s' : St U X L B}
    {rets : List (Cur U X L B)} (hts : ∀ t ∈ ts, TapeOk inCube t) (hs : Inv T Lk inCube cfg s)
    (h : runItersR cfg T Lk isInf fold chk s ts = some (s', rets)) :
    Inv T Lk inCube cfg s' ∧ rets.length = ts.length ∧ ∀ c ∈ rets, CurCoh T Lk inCube cfg c := by
  induction ts generalizing s rets with
  | nil =>
    simp only [runItersR, Option.some.injEq, Prod.mk.injEq] at h
    obtain ⟨rfl, rfl⟩ := h
    exact ⟨hs, rfl, by simp⟩
  | cons t ts ih =>
    simp only [runItersR, Option.bind_eq_some_iff, Option.map_eq_some_iff, Prod.mk.injEq] at h
    obtain ⟨⟨s1, c1⟩, h1, ⟨s2, cs⟩, h2, rfl, rfl⟩ := h
    obtain ⟨l1, hc1⟩ := C07_sm_sample T Lk inCube cfg hg isInf fold chk hfold (hts t (by simp)) hs h1
    obtain ⟨i2, hlen, hall⟩ := ih (fun t' ht' => hts t' (by simp [ht'])) l1.inv h2
    refine ⟨i2, by simp [hlen], ?_⟩
    intro c hc
    rcases List.mem_cons.mp hc with rfl | hc
    · exact hc1
    · exact hall c hc

/-- … in particular from a freshly constructed sampler -/
theorem C07_sm_run_fresh (hg : GateOk cfg) (isInf : L → Bool) (fold : U → U) (chk : U → Bool)
    (hfold : ∀ p, chk (fold p) = true → inCube (fold p)) (ts : List (TapeR U)) {s' : St U X L B}
    {rets : List (Cur U X L B)} (hts : ∀ t ∈ ts, TapeOk inCube t)
    (h : runItersR cfg T Lk isInf fold chk init ts = some (s', rets)) :
    Inv T Lk inCube cfg s' ∧ rets.length = ts.length ∧ ∀ c ∈ rets, CurCoh T Lk inCube cfg c :=
  C07_sm_run T Lk inCube cfg hg isInf fold chk hfold ts hts (C07_sm_init T Lk inCube cfg) h

/-! ### the invariant in the words of the property: row by row -/

theorem cohArr_rows {u : List U} {x : List X} {l : List L} {b : Option (List B)} (h : CohArr T Lk inCube cfg u x l b) :
    x.length = u.length ∧ l.length = u.length ∧ (∀ bs, b = some bs → bs.length = u.length) ∧
    (b.isSome = cfg.lkBlobs) ∧
    ∀ (i : Nat) (ui : U), u[i]? = some ui →
      x[i]? = some (T ui) ∧ l[i]? = some (Lk (T ui)).1 ∧ inCube ui ∧
      ∀ bs, b = some bs → bs[i]? = some (Lk (T ui)).2 := by
  obtain ⟨hx, hl, hc, hb⟩ := h
  subst hx hl
  refine ⟨by simp, by simp, ?_, ?_, ?_⟩
  · intro bs hbs
    rw [hb] at hbs
    unfold blobsOf at hbs
    split at hbs
    · injection hbs with hbs; subst hbs; simp
    · cases hbs
  · rw [hb]; unfold blobsOf; split <;> simp_all
  · intro i ui hui
    refine ⟨by simp [hui], by simp [hui], hc ui (List.mem_of_getElem? hui), ?_⟩
    intro bs hbs
    rw [hb] at hbs
    unfold blobsOf at hbs
    split at hbs
    · injection hbs with hbs; subst hbs; simp [hui]
    · cases hbs

/-- C07 row by row, for the current particle set: all arrays have one length, the blobs array exists exactly when the
    likelihood returns blobs, and row i of x, logl, blobs is T(u_i), Lk(T(u_i)), with u_i in the cube -/
theorem C07_sm_rowwise_current {c : Cur U X L B} (h : CurCoh T Lk inCube cfg c) :
    ∃ u x l, c.u = some u ∧ c.x = some x ∧ c.l = some l ∧
      x.length = u.length ∧ l.length = u.length ∧ (∀ bs, c.b = some bs → bs.length = u.length) ∧
      (c.b.isSome = cfg.lkBlobs) ∧
      ∀ (i : Nat) (ui : U), u[i]? = some ui →
        x[i]? = some (T ui) ∧ l[i]? = some (Lk (T ui)).1 ∧ inCube ui ∧
        ∀ bs, c.b = some bs → bs[i]? = some (Lk (T ui)).2 := by
  obtain ⟨u, x, l, h1, h2, h3, hco⟩ := h
  exact ⟨u, x, l, h1, h2, h3, cohArr_rows T Lk inCube cfg hco⟩

/-- C07 row by row, for the history (what `results()` and `get_history` return): every key has the same number of
    committed batches, batch k has the same length under every key, and row i of batch k is one coherent record -/
theorem C07_sm_rowwise_history {h : Hist U X L B} (hh : HistInv T Lk inCube cfg h) :
    h.x.length = h.u.length ∧ h.l.length = h.u.length ∧ h.b.length = (if cfg.lkBlobs then h.u.length else 0) ∧
    ∀ (k : Nat) (uk : List U), h.u[k]? = some uk →
      ∃ xk lk, h.x[k]? = some xk ∧ h.l[k]? = some lk ∧
        CohArr T Lk inCube cfg uk xk lk (if cfg.lkBlobs then h.b[k]? else none) := by
  obtain ⟨hx, hl, hc, hb⟩ := hh
  refine ⟨by simp [hx], by simp [hl, hx], ?_, ?_⟩
  · rw [hb]; split <;> simp [hx]
  · intro k uk huk
    refine ⟨uk.map T, (uk.map T).map fun x => (Lk x).1, by simp [hx, huk], by simp [hl, hx, huk], rfl, rfl,
      hc uk (List.mem_of_getElem? huk), ?_⟩
    unfold blobsOf
    split
    · simp [*]
    · rfl

/-! ### compute_posterior: every returned row is a whole pool row, hence coherent -/

/-- the pool as `compute_posterior` reads it -/
def PoolCoh (w : Work U X L B W) : Prop := CohArr T Lk inCube cfg w.u w.x w.l w.b

theorem gatherWork_coh {idx : List Nat} {w w' : Work U X L B W} (hw : PoolCoh T Lk inCube cfg w)
    (h : gatherWork idx w = some w') :
    PoolCoh T Lk inCube cfg w' ∧ w'.u.length = idx.length ∧ w'.lw.length = idx.length ∧
    ∀ (k i : Nat), idx[k]? = some i → w'.u[k]? = w.u[i]? ∧ w'.lw[k]? = w.lw[i]? := by
  obtain ⟨hx, hl, hc, hb⟩ := hw
  unfold gatherWork at h
  cases hu : gather? w.u idx with
  | none => simp [hu] at h
  | some u' =>
    cases hlw : gather? w.lw idx with
    | none => simp [hu, hl, hx, gather?_map, hlw] at h
    | some lw' =>
      have hrows : ∀ (k i : Nat), idx[k]? = some i → u'[k]? = w.u[i]? ∧ lw'[k]? = w.lw[i]? := fun k i hk =>
        ⟨Props.C07.gather?_get hu k i hk, Props.C07.gather?_get hlw k i hk⟩
      have hcube : ∀ v ∈ u', inCube v := fun v hv => hc v (gather?_mem hu v hv)
      by_cases hk : cfg.lkBlobs = true
      · have hwb : w.b = some ((w.u.map T).map fun x => (Lk x).2) := by rw [hb, hx]; simp [blobsOf, hk]
        simp only [hl, hx, hwb, gather?_map, hu, hlw, Option.map_some, Option.bind_some, Option.some.injEq] at h
        subst h
        exact ⟨⟨rfl, rfl, hcube, by simp [blobsOf, hk]⟩, Props.C07.gather?_length hu, Props.C07.gather?_length hlw, hrows⟩
      · have hwb : w.b = none := by rw [hb]; simp [blobsOf, hk]
        simp only [hl, hx, hwb, gather?_map, hu, hlw, Option.map_some, Option.bind_some, Option.some.injEq] at h
        subst h
        exact ⟨⟨rfl, rfl, hcube, by simp [blobsOf, hk]⟩, Props.C07.gather?_length hu, Props.C07.gather?_length hlw, hrows⟩

theorem poolWork_coh (hg : GateOk cfg) {s : St U X L B} (hs : Inv T Lk inCube cfg s) (logw : List W)
    {w : Work U X L B W} (h : poolWork cfg logw s = some w) :
    PoolCoh T Lk inCube cfg w ∧ flat? s.hist.u = some w.u ∧ w.lw = logw := by
  obtain ⟨hc, hh⟩ := hs
  unfold poolWork at h
  cases hu : flat? s.hist.u with
  | none => simp [hu] at h
  | some u =>
    obtain ⟨fx, fl, fcube, fb1, fb0⟩ := flat_coherent T Lk inCube cfg hh hu
    have hcur : CurCoh T Lk inCube cfg s.cur := by
      rcases hc with rfl | hc
      · simp [init, flat?] at hu
      · exact hc
    obtain ⟨u0, x0, l0, e1, e2, e3, -, -, -, eb⟩ := hcur
    simp only [hu, fx, fl, Option.bind_some] at h
    by_cases hk : cfg.lkBlobs = true
    · have hgt : cfg.gate s.cur.b = true := by rw [eb]; exact gate_of_coh Lk cfg hg hk
      simp only [hgt, if_true, fb1 hk, Option.map_some, Option.some.injEq] at h
      subst h
      exact ⟨⟨rfl, rfl, fcube, by simp [blobsOf, hk]⟩, rfl, rfl⟩
    · have hk' : cfg.lkBlobs = false := by simpa using hk
      have hgt : cfg.gate s.cur.b = cfg.haveBlobs := by rw [eb]; exact gate_no_blobs Lk cfg hk'
      by_cases hb : cfg.haveBlobs = true
      · simp [hgt, hb, fb0 hk', flat?] at h
      · have hb' : cfg.haveBlobs = false := by simpa using hb
        simp only [hgt, hb', Bool.false_eq_true, if_false, Option.map_some, Option.some.injEq] at h
        subst h
        exact ⟨⟨rfl, rfl, fcube, by simp [blobsOf, hk']⟩, rfl, rfl⟩

/-- row k of `w'` is, in every array, row i of `w` — for ONE i -/
def RowsFrom (w' w : Work U X L B W) : Prop :=
  w'.lw.length = w'.u.length ∧
  ∀ k, k < w'.u.length → ∃ i, i < w.u.length ∧ w'.u[k]? = w.u[i]? ∧ w'.lw[k]? = w.lw[i]?

theorem optGather_coh {idx? : Option (List Nat)} {w w' : Work U X L B W} (hw : PoolCoh T Lk inCube cfg w)
    (hlen : w.lw.length = w.u.length) (h : optGather idx? w = some w') :
    PoolCoh T Lk inCube cfg w' ∧ RowsFrom w' w := by
  cases idx? with
  | none =>
    simp only [optGather, Option.some.injEq] at h; subst h
    exact ⟨hw, hlen, fun k hk => ⟨k, hk, rfl, rfl⟩⟩
  | some idx =>
    obtain ⟨hc, hl1, hl2, hrows⟩ := gatherWork_coh T Lk inCube cfg hw h
    refine ⟨hc, by omega, ?_⟩
    intro k hk
    have hki : k < idx.length := by omega
    obtain ⟨r1, r2⟩ := hrows k idx[k] (List.getElem?_eq_getElem hki)
    refine ⟨idx[k], ?_, r1, r2⟩
    by_contra hcon
    rw [List.getElem?_eq_getElem hk, List.getElem?_eq_none (by omega)] at r1
    cases r1

theorem RowsFrom.trans {a b c : Work U X L B W} (h1 : RowsFrom a b) (h2 : RowsFrom b c) : RowsFrom a c := by
  refine ⟨h1.1, ?_⟩
  intro k hk
  obtain ⟨i, hi, e1, e2⟩ := h1.2 k hk
  obtain ⟨j, hj, f1, f2⟩ := h2.2 i hi
  exact ⟨j, hj, e1.trans f1, e2.trans f2⟩

/-- C07 for `posterior()`: whatever the options and whatever index vectors trimming and resampling produce, every returned
    row is ONE row of the stored pool in x, logl, blobs and logw alike (`i` below), and it is a coherent record:
    logl and blob are the likelihood's values at the returned x, which is the transform of a cube point -/
theorem C07_sm_posterior (hg : GateOk cfg) {s : St U X L B} (hs : Inv T Lk inCube cfg s) (logw : List W)
    (trimIdx resIdx : Option (List Nat)) (rb : Bool) {p : Post X L B W}
    (hlw : ∀ u0, flat? s.hist.u = some u0 → logw.length = u0.length)
    (h : posterior cfg logw trimIdx resIdx rb s = some p) :
    ∃ u0 u', flat? s.hist.u = some u0 ∧
      CohArr T Lk inCube cfg u' p.x p.l (blobsOf Lk cfg p.x) ∧
      p.b = (if rb then blobsOf Lk cfg p.x else none) ∧ p.lw.length = u'.length ∧
      ∀ k, k < u'.length → ∃ i, i < u0.length ∧ u'[k]? = u0[i]? ∧ p.lw[k]? = logw[i]? := by
  simp only [posterior, posteriorWork, Option.map_eq_some_iff, Option.bind_eq_some_iff] at h
  obtain ⟨w2, ⟨w0, h0, w1, h1, h2⟩, rfl⟩ := h
  obtain ⟨c0, hu0, hlw0⟩ := poolWork_coh T Lk inCube cfg hg hs logw h0
  have hlen0 : w0.lw.length = w0.u.length := by rw [hlw0]; exact hlw _ hu0
  obtain ⟨c1, r1⟩ := optGather_coh T Lk inCube cfg c0 hlen0 h1
  obtain ⟨c2, r2⟩ := optGather_coh T Lk inCube cfg c1 r1.1 h2
  have r := r2.trans r1
  refine ⟨w0.u, w2.u, hu0, ⟨c2.1, c2.2.1, c2.2.2.1, rfl⟩, ?_, r.1, ?_⟩
  · simp only [c2.2.2.2]
  · intro k hk
    obtain ⟨i, hi, e1, e2⟩ := r.2 k hk
    exact ⟨i, hi, e1, by rw [e2, hlw0]⟩

/-! ### results(), checkpoints -/

/-- what `results()` returns is the committed history itself: coherent batch by batch (`C07_sm_rowwise_history`) -/
theorem C07_sm_results {s : St U X L B} (hs : Inv T Lk inCube cfg s) : HistInv T Lk inCube cfg (results s) := hs.2

/-- saving and loading (`to_dict` → `update_from_dict` with every key present) gives back a coherent state, into whatever
    sampler it is loaded; `C07_sm_run` then applies to the resumed run, since it starts from ANY state with `Inv` -/
theorem C07_sm_resume {s : St U X L B} (s0 : St U X L B) (hs : Inv T Lk inCube cfg s) :
    Inv T Lk inCube cfg (updateFromDict s0 (toDict s)) ∧ updateFromDict s0 (toDict s) = s := by
  have : updateFromDict s0 (toDict s) = s := rfl
  exact ⟨this ▸ hs, this⟩

end coh

/-! ### "whole records, never individual fields": structural provenance, for ANY state (coherent or not) -/

/-- Resampler.run: row k of every array of the new current set is row `idx[k]` of that key's flat pool — the SAME pool row
    under every key (blobs included whenever the gate is open) -/
theorem C07_sm_resample_whole_rows (cfg : Cfg) {s s' : St U X L B} (idx : List Nat) (h : resample cfg idx s = some s') :
    ∃ pu px pl u' x' l', flat? s.hist.u = some pu ∧ flat? s.hist.x = some px ∧ flat? s.hist.l = some pl ∧
      s'.cur.u = some u' ∧ s'.cur.x = some x' ∧ s'.cur.l = some l' ∧ s'.hist = s.hist ∧
      (∀ (k i : Nat), idx[k]? = some i → u'[k]? = pu[i]? ∧ x'[k]? = px[i]? ∧ l'[k]? = pl[i]?) ∧
      (cfg.gate s.cur.b = true → ∃ pb b', flat? s.hist.b = some pb ∧ s'.cur.b = some b' ∧
        ∀ (k i : Nat), idx[k]? = some i → b'[k]? = pb[i]?) ∧
      (cfg.gate s.cur.b = false → s'.cur.b = s.cur.b) := by
  unfold resample at h
  simp only [Option.bind_eq_some_iff] at h
  obtain ⟨pu, hpu, px, hpx, pl, hpl, b?, hb?, u', hu', x', hx', l', hl', h⟩ := h
  have rows : ∀ (k i : Nat), idx[k]? = some i → u'[k]? = pu[i]? ∧ x'[k]? = px[i]? ∧ l'[k]? = pl[i]? := fun k i hk =>
    ⟨Props.C07.gather?_get hu' k i hk, Props.C07.gather?_get hx' k i hk, Props.C07.gather?_get hl' k i hk⟩
  by_cases hg : cfg.gate s.cur.b = true
  · rw [if_pos hg] at hb?
    simp only [Option.map_eq_some_iff] at hb?
    obtain ⟨pb, hpb, rfl⟩ := hb?
    simp only [Option.map_eq_some_iff] at h
    obtain ⟨b', hb', rfl⟩ := h
    exact ⟨pu, px, pl, u', x', l', hpu, hpx, hpl, rfl, rfl, rfl, rfl, rows,
      fun _ => ⟨pb, b', hpb, rfl, fun k i hk => Props.C07.gather?_get hb' k i hk⟩, fun hf => by rw [hg] at hf; cases hf⟩
  · rw [if_neg hg] at hb?
    injection hb? with hb?; subst hb?
    simp only [Option.some.injEq] at h
    subst h
    exact ⟨pu, px, pl, u', x', l', hpu, hpx, hpl, rfl, rfl, rfl, rfl, rows, fun ht => absurd ht hg, fun _ => rfl⟩

/-- Mutator.run at beta = 0, on the batch kept by the redraw loop: after the replacement of the −inf draws, row k of EVERY array is row `srcOf … k` of the freshly
    drawn arrays — one source row for u, x, logl (and blobs whenever the gate is open), never a mixture -/
theorem C07_sm_warmup_whole_rows (cfg : Cfg) (T : U → X) (Lk : X → L × B) (isInf : L → Bool) (us : List U)
    (picks : List Nat) {s s' : St U X L B} (h : warmupKept cfg T Lk isInf us picks s = some s') :
    ∃ (src : Nat → Nat) (u' : List U) (x' : List X) (l' : List L),
      s'.cur.u = some u' ∧ s'.cur.x = some x' ∧ s'.cur.l = some l' ∧ s'.hist = s.hist ∧
      ∀ k, k < us.length →
        u'[k]? = us[src k]? ∧ x'[k]? = (us.map T)[src k]? ∧ l'[k]? = (logLike cfg Lk (us.map T)).1[src k]? ∧
        ∀ b b', cfg.gate (logLike cfg Lk (us.map T)).2 = true → (logLike cfg Lk (us.map T)).2 = some b →
          s'.cur.b = some b' → b'[k]? = b[src k]? := by
  unfold warmupKept at h
  simp only at h
  split at h
  · injection h with h; subst h
    refine ⟨id, us, us.map T, (logLike cfg Lk (us.map T)).1, rfl, rfl, rfl, rfl, ?_⟩
    intro k _
    refine ⟨rfl, rfl, rfl, ?_⟩
    intro b b' _ hb hb'
    simp only at hb'
    rw [hb] at hb'; injection hb' with hb'; subst hb'; rfl
  · split at h
    · cases h
    set ii := infIdx isInf (logLike cfg Lk (us.map T)).1 with hii
    have hlx : (us.map T).length = us.length := by simp
    have hll : (logLike cfg Lk (us.map T)).1.length = us.length := by simp [logLike]
    have rowU : ∀ k, k < us.length → (scatterFrom us ii picks)[k]? = us[Props.C07.srcOf us.length ii picks k]? :=
      fun k hk => Props.C07.scatterFrom_get us ii picks k hk
    have rowX : ∀ k, k < us.length → (scatterFrom (us.map T) ii picks)[k]? = (us.map T)[Props.C07.srcOf us.length ii picks k]? := by
      intro k hk
      have := Props.C07.scatterFrom_get (us.map T) ii picks k (by rw [hlx]; exact hk)
      rwa [hlx] at this
    have rowL : ∀ k, k < us.length → (scatterFrom (logLike cfg Lk (us.map T)).1 ii picks)[k]?
        = (logLike cfg Lk (us.map T)).1[Props.C07.srcOf us.length ii picks k]? := by
      intro k hk
      have := Props.C07.scatterFrom_get (logLike cfg Lk (us.map T)).1 ii picks k (by rw [hll]; exact hk)
      rwa [hll] at this
    split at h
    · cases hb2 : (logLike cfg Lk (us.map T)).2 with
      | none => rw [hb2] at h; cases h
      | some b =>
        rw [hb2] at h
        injection h with h; subst h
        refine ⟨Props.C07.srcOf us.length ii picks, _, _, _, rfl, rfl, rfl, rfl, ?_⟩
        intro k hk
        refine ⟨rowU k hk, rowX k hk, rowL k hk, ?_⟩
        intro b0 b' _ h0 h1
        injection h0 with h0; subst h0
        simp only at h1
        injection h1 with h1; subst h1
        have hbl : b.length = us.length := by
          simp only [logLike] at hb2
          split at hb2
          · injection hb2 with hb2; subst hb2; simp
          · cases hb2
        have := Props.C07.scatterFrom_get b ii picks k (by rw [hbl]; exact hk)
        rwa [hbl] at this
    · rename_i hgate
      injection h with h; subst h
      refine ⟨Props.C07.srcOf us.length ii picks, _, _, _, rfl, rfl, rfl, rfl, ?_⟩
      intro k hk
      refine ⟨rowU k hk, rowX k hk, rowL k hk, ?_⟩
      intro b b' hg _ _
      exact absurd hg hgate

/-- one MCMC pass: row k of the runner's arrays afterwards is, under EVERY key at once, either its old row k or row k of
    the proposal arrays (`u' = substitute …`, `x' = map T u'`, `(logl', blobs') = logLike x'`) -/
theorem C07_sm_mcmc_whole_rows (cfg : Cfg) (T : U → X) (Lk : X → L × B) (negInf : L → Bool) (fold : U → U) (chk : U → Bool)
    {r r' : Runner U X L B} (st : Step U) (hx : r.x.length = r.u.length) (hl : r.l.length = r.u.length)
    (hb : ∀ b, r.b = some b → b.length = r.u.length) (h : mcmcStepR cfg T Lk negInf fold chk r st = some r') :
    ∃ (u' : List U), u'.length = r.u.length ∧ ∀ k : Nat,
      (r'.u[k]? = r.u[k]? ∧ r'.x[k]? = r.x[k]? ∧ r'.l[k]? = r.l[k]? ∧
        ∀ b b', r.b = some b → r'.b = some b' → b'[k]? = b[k]?) ∨
      (r'.u[k]? = u'[k]? ∧ r'.x[k]? = (u'.map T)[k]? ∧ r'.l[k]? = (logLike cfg Lk (u'.map T)).1[k]? ∧
        ∀ b b' pb, r.b = some b → r'.b = some b' → (logLike cfg Lk (u'.map T)).2 = some pb → b'[k]? = pb[k]?) := by
  unfold mcmcStepR at h
  split at h
  · cases h
  · rename_i hlen
    rw [not_or, not_not, not_not] at hlen
    have hsublen : ∀ (p : List U) (c : List Bool) (u : List U), p.length = u.length → c.length = u.length →
        (substitute p c u).length = u.length := by
      intro p
      induction p with
      | nil => intro c u h1 _; cases u <;> simp_all [substitute]
      | cons a p ih =>
        intro c u h1 h2
        cases c with
        | nil => cases u <;> simp_all
        | cons b c =>
          cases u with
          | nil => simp at h1
          | cons v u => simp only [substitute, List.length_cons]; rw [ih c u (by simpa using h1) (by simpa using h2)]
    refine ⟨substitute (st.raw.map fold) ((st.raw.map fold).map chk) r.u,
      hsublen _ _ _ (by simp [hlen.1]) (by simp [hlen.1]), ?_⟩
    intro k
    simp only at h
    set u' := substitute (st.raw.map fold) ((st.raw.map fold).map chk) r.u with hu'
    set mask := andMask (andMask st.acc ((st.raw.map fold).map chk))
      ((logLike cfg Lk (u'.map T)).1.map fun v => !negInf v) with hmask
    have hul : u'.length = r.u.length := hsublen _ _ _ (by simp [hlen.1]) (by simp [hlen.1])
    cases hrb : r.b with
    | none =>
      rw [hrb] at h
      simp only [Option.some.injEq] at h
      subst h
      simp only [Props.C07.maskSet_get, hx, hl, List.length_map, hul, logLike]
      cases Props.C07.takes r.u.length r.u.length mask k
      · left; simp
      · right; simp
    | some b =>
      rw [hrb] at h
      cases hll : (logLike cfg Lk (u'.map T)).2 with
      | none => rw [hll] at h; cases h
      | some pb =>
        rw [hll] at h
        simp only [Option.some.injEq] at h
        subst h
        have hpbl : pb.length = r.u.length := by
          simp only [logLike] at hll
          split at hll
          · injection hll with hll; subst hll; simp [hul]
          · cases hll
        have eb : (maskSet b pb mask)[k]? =
            if Props.C07.takes r.u.length r.u.length mask k then pb[k]? else b[k]? := by
          rw [Props.C07.maskSet_get, hb b hrb, hpbl]
        simp only [Props.C07.maskSet_get, hx, hl, List.length_map, hul, logLike]
        cases ht : Props.C07.takes r.u.length r.u.length mask k
        · left
          rw [ht] at eb
          refine ⟨by simp, by simp, by simp, ?_⟩
          intro b0 b1 h0 h1
          injection h0 with h0; injection h1 with h1; subst h0 h1
          simpa using eb
        · right
          rw [ht] at eb
          refine ⟨by simp, by simp, by simp, ?_⟩
          intro b0 b1 pb0 h0 h1 h2
          injection h0 with h0; injection h1 with h1; subst h0 h1
          have : pb0 = pb := by
            simp only [logLike] at hll h2
            exact (Option.some.inj h2).symm
          subst this
          simpa using eb

/-! ### no stored particle has an infinite log-likelihood (since /repo 959029e: for EVERY tape)

  Structural: no hypothesis about `T`, `Lk`, the cube or the tape.  The warm-up keeps only a batch with a finite draw and
  overwrites every infinite row by a row picked among the finite ones; a proposal of infinite log-likelihood is never
  accepted; resampling and commits only copy stored rows. -/

def NoInf (isInf : L → Bool) (l : List L) : Prop := ∀ v ∈ l, isInf v = false

/-- neither the current set nor any committed batch holds a particle of infinite log-likelihood -/
def Finite (isInf : L → Bool) (s : St U X L B) : Prop :=
  (∀ l, s.cur.l = some l → NoInf isInf l) ∧ ∀ bt ∈ s.hist.l, NoInf isInf bt

theorem finite_init (isInf : L → Bool) : Finite isInf (init : St U X L B) :=
  ⟨fun l h => by simp [init] at h, fun bt h => by simp [init] at h⟩

theorem finite_commit (isInf : L → Bool) {s : St U X L B} (h : Finite isInf s) : Finite isInf (commit s) := by
  refine ⟨h.1, ?_⟩
  intro bt hbt
  simp only [commit] at hbt
  cases hl : s.cur.l with
  | none => rw [hl] at hbt; exact h.2 bt hbt
  | some l =>
    rw [hl] at hbt
    rcases List.mem_append.mp hbt with hb | hb
    · exact h.2 bt hb
    · have : bt = l := by simpa using hb
      rw [this]; exact h.1 l hl

theorem finite_resample (isInf : L → Bool) (cfg : Cfg) {s s' : St U X L B} (idx : List Nat) (hs : Finite isInf s)
    (h : resample cfg idx s = some s') : Finite isInf s' := by
  obtain ⟨pu, px, pl, u', x', l', -, -, hpl, -, -, hl', hh, -, -, -⟩ := C07_sm_resample_whole_rows cfg idx h
  have hgl : gather? pl idx = some l' := by
    unfold resample at h
    simp only [Option.bind_eq_some_iff] at h
    obtain ⟨_, _, _, _, pl0, hpl0, b?, _, _, _, _, _, l0, hl0, h⟩ := h
    rw [hpl] at hpl0; injection hpl0 with hpl0; subst hpl0
    have : s'.cur.l = some l0 := by
      cases b? with
      | none => simp only [Option.some.injEq] at h; subst h; rfl
      | some b => simp only [Option.map_eq_some_iff] at h; obtain ⟨_, _, rfl⟩ := h; rfl
    rw [hl'] at this; injection this with this; subst this; exact hl0
  refine ⟨?_, by rw [hh]; exact hs.2⟩
  intro l hl v hv
  rw [hl'] at hl; injection hl with hl; subst hl
  obtain ⟨bt, hbt, hvb⟩ := flat?_mem hpl v (gather?_mem hgl v hv)
  exact hs.2 bt hbt v hvb

theorem infIdx_mem {isInf : L → Bool} {l : List L} {i : Nat} :
    i ∈ infIdx isInf l ↔ ∃ v, l[i]? = some v ∧ isInf v = true := by
  simp only [infIdx, List.mem_filter, List.mem_range]
  constructor
  · rintro ⟨hi, h⟩
    rw [List.getElem?_eq_getElem hi] at h
    exact ⟨l[i], List.getElem?_eq_getElem hi, by simpa using h⟩
  · rintro ⟨v, hv, hiv⟩
    have hi : i < l.length := by
      by_contra hc; rw [List.getElem?_eq_none (by omega)] at hv; cases hv
    exact ⟨hi, by rw [hv]; simpa using hiv⟩

theorem finIdx_mem {isInf : L → Bool} {l : List L} {i : Nat} :
    i ∈ finIdx isInf l ↔ ∃ v, l[i]? = some v ∧ isInf v = false := by
  simp only [finIdx, List.mem_filter, List.mem_range]
  constructor
  · rintro ⟨hi, h⟩
    rw [List.getElem?_eq_getElem hi] at h
    exact ⟨l[i], List.getElem?_eq_getElem hi, by simpa using h⟩
  · rintro ⟨v, hv, hiv⟩
    have hi : i < l.length := by
      by_contra hc; rw [List.getElem?_eq_none (by omega)] at hv; cases hv
    exact ⟨hi, by rw [hv]; simpa using hiv⟩

/-- where a row of `xs[tgt] = xs[src]` comes from: a hit position takes one of the sources, the others keep their own -/
theorem srcOf_cases (n : Nat) (tgt src : List Nat) (hlen : tgt.length = src.length) (hsrc : ∀ s ∈ src, s < n) (i : Nat) :
    (i ∈ tgt → Props.C07.srcOf n tgt src i ∈ src) ∧ (i ∉ tgt → Props.C07.srcOf n tgt src i = i) := by
  induction tgt generalizing src with
  | nil => cases src <;> simp [Props.C07.srcOf]
  | cons t ts ih =>
    cases src with
    | nil => simp at hlen
    | cons s ss =>
      have hs : s < n := hsrc s (by simp)
      obtain ⟨ih1, ih2⟩ := ih ss (by simpa using hlen) (fun q hq => hsrc q (by simp [hq]))
      simp only [Props.C07.srcOf, hs, true_and]
      constructor
      · intro hi
        by_cases hit : i = t
        · simp [hit]
        · rw [if_neg hit]
          rcases List.mem_cons.mp hi with h | h
          · exact absurd h hit
          · exact List.mem_cons_of_mem _ (ih1 h)
      · intro hi
        have hit : i ≠ t := fun h => hi (by simp [h])
        rw [if_neg hit]
        exact ih2 (fun h => hi (List.mem_cons_of_mem _ h))

theorem finite_warmupKept (isInf : L → Bool) (cfg : Cfg) (T : U → X) (Lk : X → L × B) (us : List U) (picks : List Nat)
    {s s' : St U X L B} (hs : Finite isInf s) (h : warmupKept cfg T Lk isInf us picks s = some s') :
    Finite isInf s' := by
  set l := (logLike cfg Lk (us.map T)).1 with hl
  have key : s'.hist = s.hist ∧ ∃ l', s'.cur.l = some l' ∧ NoInf isInf l' := by
    unfold warmupKept at h
    simp only at h
    split at h
    · rename_i hii
      injection h with h; subst h
      refine ⟨rfl, l, rfl, ?_⟩
      intro v hv
      obtain ⟨i, hi, rfl⟩ := List.getElem_of_mem hv
      by_contra hc
      have : i ∈ infIdx isInf l := infIdx_mem.mpr ⟨l[i], List.getElem?_eq_getElem hi, by simpa using hc⟩
      rw [List.isEmpty_iff] at hii
      rw [hl, hii] at this; cases this
    · split at h
      · cases h
      · rename_i hpk
        rw [not_or, not_not] at hpk
        obtain ⟨hplen, hpall⟩ := hpk
        have hpall' : ∀ p ∈ picks, p ∈ finIdx isInf l := by
          have : (picks.all fun p => (finIdx isInf l).contains p) = true := by simpa using hpall
          intro p hp
          have := List.all_eq_true.mp this p hp
          simpa using this
        have hfin : NoInf isInf (scatterFrom l (infIdx isInf l) picks) := by
          intro v hv
          obtain ⟨k, hk, rfl⟩ := List.getElem_of_mem hv
          have hkl : k < l.length := by rwa [Props.C07.scatterFrom_length] at hk
          have hget := Props.C07.scatterFrom_get l (infIdx isInf l) picks k hkl
          rw [List.getElem?_eq_getElem hk] at hget
          obtain ⟨c1, c2⟩ := srcOf_cases l.length (infIdx isInf l) picks hplen.symm
            (fun q hq => by
              obtain ⟨v, hv, -⟩ := finIdx_mem.mp (hpall' q hq)
              by_contra hc; rw [List.getElem?_eq_none (by omega)] at hv; cases hv) k
          by_cases hki : k ∈ infIdx isInf l
          · obtain ⟨w, hw, hwf⟩ := finIdx_mem.mp (hpall' _ (c1 hki))
            rw [hw] at hget; injection hget with hget; rw [hget]; exact hwf
          · rw [c2 hki, List.getElem?_eq_getElem hkl] at hget
            injection hget with hget; rw [hget]
            by_contra hc
            exact hki (infIdx_mem.mpr ⟨l[k], List.getElem?_eq_getElem hkl, by simpa using hc⟩)
        split at h
        · split at h
          · cases h
          · injection h with h; subst h; exact ⟨rfl, _, rfl, hfin⟩
        · injection h with h; subst h; exact ⟨rfl, _, rfl, hfin⟩
  obtain ⟨hh, l', hl', hn⟩ := key
  refine ⟨?_, by rw [hh]; exact hs.2⟩
  intro l0 hl0
  rw [hl'] at hl0; injection hl0 with hl0; subst hl0; exact hn

theorem finite_warmup (isInf : L → Bool) (cfg : Cfg) (T : U → X) (Lk : X → L × B) (batches : List (List U))
    (picks : List Nat) {s s' : St U X L B} (hs : Finite isInf s) (h : warmupR cfg T Lk isInf batches picks s = some s') :
    Finite isInf s' := by
  cases batches with
  | nil => simp [warmupR] at h
  | cons b0 rest =>
    simp only [warmupR, Option.bind_eq_some_iff] at h
    obtain ⟨kept, _, h⟩ := h
    exact finite_warmupKept isInf cfg T Lk kept.1 picks hs h

/-- an accept mask that carries the factor "the proposal's logl is not infinite" never lets an infinite value in -/
theorem maskSet_andMask_mem (f : α → Bool) (c q : List α) (m : List Bool) :
    ∀ y ∈ maskSet c q (andMask m (q.map f)), y ∈ c ∨ f y = true := by
  induction c generalizing q m with
  | nil => cases q <;> cases m <;> simp [maskSet, andMask]
  | cons a c ih =>
    cases q with
    | nil => intro y hy; cases m <;> simp [maskSet, andMask] at hy <;> left <;> simpa using hy
    | cons b q =>
      cases m with
      | nil => intro y hy; simp [maskSet, andMask] at hy; left; simpa using hy
      | cons t m =>
        intro y hy
        simp only [List.map_cons, andMask, maskSet, List.mem_cons] at hy
        rcases hy with rfl | hy
        · by_cases hb : (t && f b) = true
          · rw [if_pos hb]; right; simp only [Bool.and_eq_true] at hb; exact hb.2
          · rw [if_neg hb]; left; simp
        · rcases ih q m y hy with h | h
          · left; simp [h]
          · right; exact h

theorem finite_mcmcStep (negInf : L → Bool) (cfg : Cfg) (T : U → X) (Lk : X → L × B) (fold : U → U) (chk : U → Bool)
    {r r' : Runner U X L B} (st : Step U) (hr : NoInf negInf r.l)
    (h : mcmcStepR cfg T Lk negInf fold chk r st = some r') : NoInf negInf r'.l := by
  unfold mcmcStepR at h
  split at h
  · cases h
  · simp only at h
    have key : ∀ (m : List Bool) (q : List L), NoInf negInf (maskSet r.l q (andMask m (q.map fun v => !negInf v))) := by
      intro m q v hv
      rcases maskSet_andMask_mem (fun v => !negInf v) r.l q m v hv with h1 | h1
      · exact hr v h1
      · simpa using h1
    cases hrb : r.b with
    | none => rw [hrb] at h; injection h with h; subst h; exact key _ _
    | some b =>
      rw [hrb] at h
      simp only at h
      cases hll : (logLike cfg Lk (List.map T (substitute (List.map fold st.raw) (List.map chk (List.map fold st.raw)) r.u))).2 with
      | none => rw [hll] at h; cases h
      | some pb => rw [hll] at h; injection h with h; subst h; exact key _ _

theorem finite_mcmcSteps (negInf : L → Bool) (cfg : Cfg) (T : U → X) (Lk : X → L × B) (fold : U → U) (chk : U → Bool)
    (sts : List (Step U)) {r r' : Runner U X L B} (hr : NoInf negInf r.l)
    (h : mcmcStepsR cfg T Lk negInf fold chk r sts = some r') : NoInf negInf r'.l := by
  induction sts generalizing r with
  | nil => simp only [mcmcStepsR, Option.some.injEq] at h; subst h; exact hr
  | cons st sts ih =>
    simp only [mcmcStepsR, Option.bind_eq_some_iff] at h
    obtain ⟨r1, h1, h2⟩ := h
    exact ih (finite_mcmcStep negInf cfg T Lk fold chk st hr h1) h2

theorem finite_mutate (negInf : L → Bool) (cfg : Cfg) (T : U → X) (Lk : X → L × B) (fold : U → U) (chk : U → Bool)
    (sts : List (Step U)) {s s' : St U X L B} (hs : Finite negInf s)
    (h : mutateR cfg T Lk negInf fold chk sts s = some s') : Finite negInf s' := by
  unfold mutateR at h
  split at h
  · rename_i u x l hu hx hl
    simp only [Option.bind_eq_some_iff] at h
    obtain ⟨r, hrun, h⟩ := h
    have hr := finite_mcmcSteps negInf cfg T Lk fold chk sts (r := ⟨u, x, l, _⟩) (hs.1 l hl) hrun
    have key : s'.hist = s.hist ∧ s'.cur.l = some r.l := by
      split at h
      · split at h
        · cases h
        · injection h with h; subst h; exact ⟨rfl, rfl⟩
      · injection h with h; subst h; exact ⟨rfl, rfl⟩
    refine ⟨?_, by rw [key.1]; exact hs.2⟩
    intro l0 hl0
    rw [key.2] at hl0; injection hl0 with hl0; subst hl0; exact hr
  · cases h

/-- C07 (strengthened after /repo 959029e): for EVERY run — any number of iterations, any tape, any user functions — no
    particle of infinite log-likelihood is ever in the current set at a step boundary, in a committed batch, or in a
    dictionary `sample()` returns.  (Before 959029e a warm-up batch without a finite draw was stored as it was:
    `C07_old_warmup_stores_inf`.) -/
theorem C07_sm_run_finite (isInf : L → Bool) (cfg : Cfg) (T : U → X) (Lk : X → L × B) (fold : U → U) (chk : U → Bool)
    (ts : List (TapeR U)) {s s' : St U X L B} {rets : List (Cur U X L B)} (hs : Finite isInf s)
    (h : runItersR cfg T Lk isInf fold chk s ts = some (s', rets)) :
    Finite isInf s' ∧ ∀ c ∈ rets, ∀ l, c.l = some l → NoInf isInf l := by
  induction ts generalizing s rets with
  | nil =>
    simp only [runItersR, Option.some.injEq, Prod.mk.injEq] at h
    obtain ⟨rfl, rfl⟩ := h
    exact ⟨hs, by simp⟩
  | cons t ts ih =>
    simp only [runItersR, Option.bind_eq_some_iff, Option.map_eq_some_iff, Prod.mk.injEq] at h
    obtain ⟨⟨s1, c1⟩, h1, ⟨s2, cs⟩, h2, rfl, rfl⟩ := h
    have f1 : Finite isInf s1 ∧ c1 = s1.cur := by
      simp only [iterateR, iterateStatesR, Option.map_eq_some_iff, Prod.mk.injEq] at h1
      obtain ⟨r, hr, rfl, rfl⟩ := h1
      refine ⟨?_, rfl⟩
      split at hr
      · simp only [Option.map_eq_some_iff] at hr
        obtain ⟨s2', hw, rfl⟩ := hr
        exact finite_commit isInf (finite_warmup isInf cfg T Lk _ _ hs hw)
      · simp only [Option.bind_eq_some_iff, Option.map_eq_some_iff] at hr
        obtain ⟨sa, ha, sb, hb, rfl⟩ := hr
        exact finite_commit isInf (finite_mutate isInf cfg T Lk fold chk _ (finite_resample isInf cfg _ hs ha) hb)
    obtain ⟨i2, hall⟩ := ih f1.1 h2
    refine ⟨i2, ?_⟩
    intro c hc
    rcases List.mem_cons.mp hc with rfl | hc
    · rw [f1.2]; exact f1.1.1
    · exact hall c hc

/-! ### the blob gate: why /repo 9130321 was needed, and non-vacuity -/

namespace Ex
/-- a concrete sampler on natural numbers: `T u = 10 u`, `Lk x = (logl, blob)` with logl = 0 ("−inf") on multiples of 70 -/
def T : Nat → Nat := fun u => 10 * u
def Lk : Nat → Nat × Nat := fun x => (if x % 70 = 0 then 0 else x + 1, x + 2)
def isInf : Nat → Bool := fun l => l == 0
/-- fold: numbers ≥ 1000 are "wrapped" back by 1000; the bounds check accepts u < 100 -/
def fold : Nat → Nat := fun u => if 1000 ≤ u then u - 1000 else u
def chk : Nat → Bool := fun u => decide (u < 100)
def inCube : Nat → Prop := fun u => u < 100

/-- two warm-up iterations (the second first draws a batch with no finite draw — 7, 14, 21 — which is discarded and drawn
    again; the redrawn batch has one −inf draw, u = 7, replaced by a copy of row 0) and one annealing iteration
    with a wrapped proposal (1004 ↦ 4), a proposal outside the cube (500: rejected, evaluated at the walker's own
    position) and a mixed accept mask -/
def tapes : List (TapeR Nat) :=
  [ ⟨true, [[1, 2, 3]], [], [], []⟩,
    ⟨true, [[7, 14, 21], [5, 7, 6]], [0], [], []⟩,
    ⟨false, [], [], [5, 5, 0], [⟨[1004, 500, 8], [true, true, true]⟩, ⟨[9, 11, 12], [false, true, false]⟩]⟩ ]

def declared : Cfg := ⟨true, true, true⟩
def undeclared : Cfg := ⟨false, true, true⟩       -- tuple-returning likelihood, no blobs_dtype: the documented form
def undeclaredOld : Cfg := ⟨false, true, false⟩   -- … under the gate as it was before /repo 9130321
def noBlobs : Cfg := ⟨false, false, true⟩
def declaredButNone : Cfg := ⟨true, false, true⟩

/-- (history u, x, blobs; the blobs slot of each dictionary `sample()` returned) -/
def xb (cfg : Cfg) : Option (List (List (List Nat)) × List (Option (List Nat))) :=
  (runItersR cfg T Lk isInf fold chk init tapes).map fun r => ([r.1.hist.u, r.1.hist.x, r.1.hist.b], r.2.map (·.b))
end Ex

theorem ex_hfold : ∀ p, Ex.chk (Ex.fold p) = true → Ex.inCube (Ex.fold p) := by
  intro p h; simpa [Ex.chk, Ex.inCube] using h

/-- with the present gate the undeclared-blobs run moves blobs with their records … -/
example : Ex.xb Ex.undeclared =
    some ([[[1, 2, 3], [5, 5, 6], [4, 11, 8]], [[10, 20, 30], [50, 50, 60], [40, 110, 80]],
           [[12, 22, 32], [52, 52, 62], [42, 112, 82]]],
          [some [12, 22, 32], some [52, 52, 62], some [42, 112, 82]]) := by decide

/-- … exactly as the declared one, and without blobs nothing is stored -/
example : Ex.xb Ex.declared = Ex.xb Ex.undeclared := by decide
example : Ex.xb Ex.noBlobs =
    some ([[[1, 2, 3], [5, 5, 6], [4, 11, 8]], [[10, 20, 30], [50, 50, 60], [40, 110, 80]], []], [none, none, none]) := by
  decide
/-- a declared dtype with a likelihood that returns bare numbers raises at the first blob movement (TypeError) -/
example : Ex.xb Ex.declaredButNone = none := by decide

/-- the hypotheses of `C07_sm_run_fresh` are satisfiable: the run above meets them -/
example : ∃ s' rets, runItersR Ex.undeclared Ex.T Ex.Lk Ex.isInf Ex.fold Ex.chk init Ex.tapes = some (s', rets) ∧
    Inv Ex.T Ex.Lk Ex.inCube Ex.undeclared s' ∧ ∀ c ∈ rets, CurCoh Ex.T Ex.Lk Ex.inCube Ex.undeclared c := by
  have hts : ∀ t ∈ Ex.tapes, TapeOk Ex.inCube t := by
    intro t ht _
    simp only [Ex.tapes, List.mem_cons, List.not_mem_nil, or_false] at ht
    rcases ht with rfl | rfl | rfl <;> simp [Ex.inCube]
  cases h : runItersR Ex.undeclared Ex.T Ex.Lk Ex.isInf Ex.fold Ex.chk init Ex.tapes with
  | none =>
    have : (runItersR Ex.undeclared Ex.T Ex.Lk Ex.isInf Ex.fold Ex.chk init Ex.tapes).isSome = true := by decide
    rw [h] at this; cases this
  | some r =>
    obtain ⟨s', rets⟩ := r
    have := C07_sm_run_fresh Ex.T Ex.Lk Ex.inCube Ex.undeclared (Or.inl rfl) Ex.isInf Ex.fold Ex.chk ex_hfold
      Ex.tapes hts h
    exact ⟨s', rets, rfl, this.1, this.2.2⟩

/-- non-vacuity of `C07_sm_posterior`: trimming to rows [0,2,4,8] of the 9-row pool, then resampling rows [3,3,1] of those;
    every returned row is one pool row under x, logl, blobs and logw alike (pool rows 8, 8, 2) -/
example : ((runItersR Ex.undeclared Ex.T Ex.Lk Ex.isInf Ex.fold Ex.chk init Ex.tapes).bind fun r =>
      (posterior Ex.undeclared [100, 101, 102, 103, 104, 105, 106, 107, 108] (some [0, 2, 4, 8]) (some [3, 3, 1]) true r.1).map
        fun p => (p.x, p.l, p.b, p.lw))
    = some ([80, 80, 30], [81, 81, 31], some [82, 82, 32], [108, 108, 102]) := by decide

/-- an out-of-range index (IndexError) makes `posterior` fail instead of returning misaligned arrays -/
example : ((runItersR Ex.undeclared Ex.T Ex.Lk Ex.isInf Ex.fold Ex.chk init Ex.tapes).bind fun r =>
      (posterior Ex.undeclared [100, 101, 102, 103, 104, 105, 106, 107, 108] (some [0, 9]) none true r.1).map
        fun p => p.x) = none := by decide

/-- FINDING F29 (fixed in /repo 9130321), on the model: with the OLD gate (`have_blobs = blobs_dtype is not None`
    alone) and a tuple-returning likelihood without `blobs_dtype`, the run completes and commits blobs that are not the
    likelihood's blobs of the committed x: the −inf replacement, the resampling and the accept mask all leave the blobs
    behind.  So `GateOk` cannot be dropped from the run theorems. -/
theorem C07_old_gate_stale :
    ∃ s' rets, runItersR Ex.undeclaredOld Ex.T Ex.Lk Ex.isInf Ex.fold Ex.chk init Ex.tapes = some (s', rets) ∧
      (∀ t ∈ Ex.tapes, TapeOk Ex.inCube t) ∧
      s'.hist.x = [[10, 20, 30], [50, 50, 60], [40, 110, 80]] ∧
      s'.hist.b = [[12, 22, 32], [52, 72, 62], [52, 72, 62]] ∧
      ¬ Inv Ex.T Ex.Lk Ex.inCube Ex.undeclaredOld s' := by
  have hts : ∀ t ∈ Ex.tapes, TapeOk Ex.inCube t := by
    intro t ht _
    simp only [Ex.tapes, List.mem_cons, List.not_mem_nil, or_false] at ht
    rcases ht with rfl | rfl | rfl <;> simp [Ex.inCube]
  cases h : runItersR Ex.undeclaredOld Ex.T Ex.Lk Ex.isInf Ex.fold Ex.chk init Ex.tapes with
  | none =>
    have : (runItersR Ex.undeclaredOld Ex.T Ex.Lk Ex.isInf Ex.fold Ex.chk init Ex.tapes).isSome = true := by decide
    rw [h] at this; cases this
  | some r =>
    obtain ⟨s', rets⟩ := r
    have hx : (runItersR Ex.undeclaredOld Ex.T Ex.Lk Ex.isInf Ex.fold Ex.chk init Ex.tapes).map (fun r => r.1.hist.x)
        = some [[10, 20, 30], [50, 50, 60], [40, 110, 80]] := by decide
    have hb : (runItersR Ex.undeclaredOld Ex.T Ex.Lk Ex.isInf Ex.fold Ex.chk init Ex.tapes).map (fun r => r.1.hist.b)
        = some [[12, 22, 32], [52, 72, 62], [52, 72, 62]] := by decide
    rw [h] at hx hb
    simp only [Option.map_some, Option.some.injEq] at hx hb
    refine ⟨s', rets, rfl, hts, hx, hb, ?_⟩
    intro hinv
    have := hinv.2.2.2.2
    rw [hb, hx] at this
    revert this
    decide

/-- F8 (fixed in /repo 959029e), on the model: the OLD warm-up (`Model.RecSM.warmup`, left as committed) stored a batch without a single finite draw as it was -/
theorem C07_old_warmup_stores_inf :
    ∃ s' : St Nat Nat Nat Nat, warmup Ex.declared Ex.T Ex.Lk Ex.isInf [7, 14, 21] [] init = some s' ∧
      s'.cur.l = some [0, 0, 0] ∧ ¬ Finite Ex.isInf s' := by
  refine ⟨_, rfl, by decide, ?_⟩
  intro hf
  have := hf.1 [0, 0, 0] (by decide) 0 (by simp)
  simp [Ex.isInf] at this

end Props.C07SM
