import TempestVerif.Model.CallsRun
import TempestVerif.Model.Steps
import TempestVerif.Props.C13LogLike
import TempestVerif.Props.C13
import Mathlib.Tactic
/-
  C13 over a WHOLE run (Model/CallsRun.lean): for every sampler whose numerical parts are arbitrary functions of the state
  and of the likelihood VALUES they were handed (`Algo`), for every way a run starts (fresh, resumed from a checkpoint, resumed
  from an old checkpoint without a `calls` entry), every number of warm-up and annealing iterations and every (adaptive)
  number of accept/reject steps:

    * `state["calls"]` = (value it started from) + number of points in the batches handed to `_log_like`     (C13_run_calls)
    * = number of points at which the user's likelihood was evaluated, under every strategy and completion order
                                                                                                              (C13_run_calls_evaluated)
    * the whole run — final state, counter, batches asked — is the same under any two strategies              (C13_run_strategy_independent)
    * a resumed run continues the count of the run that wrote the checkpoint                                   (C13_resume_continues)
    * one mutation evaluates between min(n_steps, n_max)·d and max 1 (n_max·d) batches of n_walkers points     (C13_mutation_steps)

  The increments, the initial values and the set of places that write `calls` are the ones regenerated from source.
-/
namespace Props.C13
open Model.CallsRun Model.Dispatch Model.LLEval

/-- the accounting expressions regenerated from /repo -/
def runTable : RunTable :=
  ⟨⟨Gen.Dispatch.warmupIncrement, Gen.Dispatch.warmupBatch, Gen.Dispatch.stepIncrement, Gen.Dispatch.stepBatch⟩,
   Gen.Dispatch.nCallsInit, Gen.Dispatch.freshCalls, Gen.Dispatch.resumeDefault,
   Gen.Dispatch.warmupDrawnInit, Gen.Dispatch.warmupDrawnStep,
   Gen.Dispatch.warmupCap⟩

/-! ### obligations on the regenerated source facts -/

/-- FRAME: the only places of the package that write the current-state key `calls` are the four the model has:
    `_initialize_fresh` (0), the default of `load_sampler_state` (0, only when the loaded value is None), and the two sites of
    `Mutator.run` that store the local `calls = get_current("calls") + <increment>` -/
theorem C13_calls_frame :
    Gen.Dispatch.callsWriters =
      [("core.py:load_sampler_state:default", "0"), ("core.py:_initialize_fresh:set", "0"),
       ("steps/mutate.py:run:update", "calls"), ("steps/mutate.py:run:set", "calls")] ∧
    Gen.Dispatch.freshCalls = "0" ∧ Gen.Dispatch.resumeDefault = "0" ∧ Gen.Dispatch.resumeDefaultOnlyIfNone = "1" ∧
    Gen.Dispatch.nCallsInit = "0" := by decide

/-- ONE evaluation per counted batch, on the batch the model says: the warm-up branch calls the likelihood once before its redraw
    loop and once per turn of it (cap test, then the call, then `n_drawn += n_particles`), each time on a fresh
    `[prior_transform(u[i]) for i in range(n_particles)]`, adds `n_drawn` and returns; the rest of `Mutator.run` never calls it directly but
    hands it to `parallel_mcmc`; `_evaluate_likelihood` evaluates its own argument (in both blobs branches); the runner calls
    it on `[prior_transform(u_p) for u_p in u_prime]` with `u_prime = np.empty_like(self.u)`; the loop is a `while True` left
    only through `if _check_convergence(...): break`; each dispatch branch of `_log_like` is one statement and the user's
    function is referenced exactly once per branch -/
theorem C13_source_one_evaluation_per_site :
    Gen.Dispatch.warmupLikelihoodArgs =
      ["prior_transform over range(self.n_particles)", "prior_transform over range(self.n_particles)"] ∧
    Gen.Dispatch.warmupLoop = "while np.all(np.isinf(logl))" ∧ Gen.Dispatch.warmupLoopCalls = "before=1 inside=1 after=0" ∧
    Gen.Dispatch.warmupLoopOrder = "If,Assign,AugAssign" ∧
    Gen.Dispatch.warmupIncrement = "n_drawn" ∧ Gen.Dispatch.warmupDrawnInit = "self.n_particles" ∧
    Gen.Dispatch.warmupDrawnStep = "self.n_particles" ∧ Gen.Dispatch.warmupCap = "1000 * self.n_particles" ∧
    Gen.Dispatch.mutateOtherLikelihoodArgs = [] ∧ Gen.Dispatch.warmupEndsWithReturn = "1" ∧
    Gen.Dispatch.mcmcLikelihoodArg = "self.log_likelihood" ∧
    Gen.Dispatch.evaluateLikelihoodArgs = ["param", "param"] ∧
    Gen.Dispatch.stepBatchBuilt = ["prior_transform over u_prime"] ∧ Gen.Dispatch.proposalRows = ["np.empty_like(self.u)"] ∧
    Gen.Dispatch.mcmcLoop = "while True|breaks=1|guard=self._check_convergence" ∧
    Gen.Dispatch.logLikeBranchStmts = "1,1,1" ∧ Gen.Dispatch.logLikeUserRefs = "3" := by decide

/-- how a run starts: a resume path ⇒ `_initialize_from_resume`; else a committed history ⇒ nothing is initialised (the counter
    keeps its value); else `_initialize_fresh` -/
theorem C13_source_start :
    Gen.Dispatch.runStart = [("path", "resume"), ("history", "continue"), ("else", "fresh")] ∧
    (∀ n, startKind Gen.Dispatch.runStart true n = some .resume) ∧
    (∀ n, 0 < n → startKind Gen.Dispatch.runStart false n = some .continued) ∧
    startKind Gen.Dispatch.runStart false 0 = some .fresh := by
  refine ⟨by decide, fun n => by simp [startKind, Gen.Dispatch.runStart], fun n hn => ?_, by decide⟩
  have : ¬ n = 0 := by omega
  simp [startKind, Gen.Dispatch.runStart, hn]

/-- `FunctionWrapper` is `f(x, *args, **kwargs)` with `None` replaced by the empty list / dict -/
theorem C13_source_wrapper :
    Gen.Dispatch.wrapperCall = "f(x,*args,**kwargs)" ∧
    Gen.Dispatch.wrapperInit = ["f", "args:None->[]", "kwargs:None->{}"] := by decide

/-! ### sizes of the batches -/

variable {S M X V : Type}

/-- what the code's construction of the batches guarantees (discharged for the real code by `C13_source_one_evaluation_per_site`
    — `range(self.n_particles)`, `np.empty_like(self.u)` — and checked on every recorded `_log_like` call by suite `whole-run`) -/
structure Sized (A : Algo S M X V) (nP : Nat) (rows : M → Nat) : Prop where
  draw : ∀ s, (A.draw s).length = nP
  propose : ∀ m, (A.propose m).length = rows m
  accept : ∀ m xp v, rows (A.accept m xp v) = rows m
  init : ∀ s, rows (A.mcmcInit s) = A.nWalkers s

theorem points_append (a b : List (List X)) : points (a ++ b) = points a + points b := by
  simp [points, List.sum_append]

theorem points_single (x : List X) : points [x] = x.length := by simp [points]

theorem stepInc_eval (nP nw : Nat) : exprSize ⟨nP, nw⟩ runTable.calls.stepIncrement = some nw := by
  simp [runTable, Gen.Dispatch.stepIncrement, exprSize]

theorem warmInit_eval (nP nw : Nat) : exprSize ⟨nP, nw⟩ runTable.warmDrawnInit = some nP := by
  simp [runTable, Gen.Dispatch.warmupDrawnInit, exprSize]

theorem warmStep_eval (nP nw : Nat) : exprSize ⟨nP, nw⟩ runTable.warmDrawnStep = some nP := by
  simp [runTable, Gen.Dispatch.warmupDrawnStep, exprSize]

theorem warmInc_eval (e : Env) (nDrawn : Nat) : warmIncrement e nDrawn runTable.calls.warmupIncrement = some nDrawn := by
  simp [runTable, Gen.Dispatch.warmupIncrement, warmIncrement]

/-! ### the counter follows the batches -/

/-- the accept/reject loop: the per-run counter grows by the number of points in the batches it evaluated, each batch has
    `n_walkers` points, and at least one batch is evaluated -/
theorem mcmcLoop_calls (A : Algo S M X V) (ev : Nat → List X → Option V) (nP nw : Nat) (rows : M → Nat)
    (hp : ∀ m, (A.propose m).length = rows m) (ha : ∀ m xp v, rows (A.accept m xp v) = rows m)
    (fuel : Nat) (m : M) (n0 : Nat) (asked : List (List X)) (hm : rows m = nw)
    (m' : M) (nc : Nat) (asked' : List (List X))
    (h : mcmcLoop runTable A ev ⟨nP, nw⟩ fuel m n0 asked = some (m', nc, asked')) :
    ∃ bs, asked' = asked ++ bs ∧ nc = n0 + points bs ∧ bs ≠ [] ∧ (∀ b ∈ bs, b.length = nw) ∧ nc = n0 + bs.length * nw := by
  induction fuel generalizing m n0 asked with
  | zero => simp [mcmcLoop] at h
  | succ fuel ih =>
    simp only [mcmcLoop, Option.bind_eq_some_iff] at h
    obtain ⟨v, _, inc, hinc, h⟩ := h
    rw [stepInc_eval] at hinc
    injection hinc with hinc; subst hinc
    have hlen : (A.propose m).length = nw := by rw [hp, hm]
    split at h
    · injection h with h
      simp only [Prod.mk.injEq] at h
      obtain ⟨_, rfl, rfl⟩ := h
      exact ⟨[A.propose m], rfl, by simp [points_single, hlen], by simp, by simp [hlen], by simp⟩
    · obtain ⟨bs, h1, h2, _, h4, h5⟩ := ih (A.accept m (A.propose m) v) (n0 + nw) (asked ++ [A.propose m])
        (by rw [ha, hm]) h
      refine ⟨A.propose m :: bs, by simp [h1], ?_, by simp, ?_, ?_⟩
      · rw [h2]; simp [points, hlen]; omega
      · intro b hb
        rcases List.mem_cons.mp hb with rfl | hb
        · exact hlen
        · exact h4 b hb
      · rw [h5]; simp [Nat.succ_mul]; omega

/-- the redraw loop: `n_drawn` grows by the number of points in the batches it evaluated, each of `n_particles` points -/
theorem warmLoop_calls (A : Algo S M X V) (ev : Nat → List X → Option V) (nP nw : Nat) (cap : Option Nat)
    (hd : ∀ s, (A.draw s).length = nP) (fuel : Nat) (s : S) (x : List X) (v : V) (n0 : Nat) (asked : List (List X))
    (s' : S) (x' : List X) (v' : V) (n1 : Nat) (asked' : List (List X))
    (h : warmLoop runTable A ev ⟨nP, nw⟩ cap fuel s x v n0 asked = some (s', x', v', n1, asked')) :
    ∃ bs, asked' = asked ++ bs ∧ n1 = n0 + points bs ∧ (∀ b ∈ bs, b.length = nP) ∧ n1 = n0 + bs.length * nP ∧
      A.allInf v' = false := by
  induction fuel generalizing s x v n0 asked with
  | zero =>
    simp only [warmLoop] at h
    by_cases hv : A.allInf v = true
    · simp [hv] at h
    · simp only [hv, Bool.false_eq_true, if_false, Option.some.injEq, Prod.mk.injEq] at h
      obtain ⟨_, _, rfl, rfl, rfl⟩ := h
      exact ⟨[], by simp, by simp [points], by simp, by simp, by simpa using hv⟩
  | succ fuel ih =>
    simp only [warmLoop] at h
    by_cases hv : A.allInf v = true
    · simp only [hv, if_true] at h
      by_cases hc : capReached cap n0 = true
      · simp [hc] at h
      · simp only [hc, Bool.false_eq_true, if_false, Option.bind_eq_some_iff] at h
        obtain ⟨v1, _, inc, hinc, h⟩ := h
        rw [warmStep_eval] at hinc
        injection hinc with hinc; subst hinc
        obtain ⟨bs, h1, h2, h3, h4, h5⟩ := ih _ _ _ _ _ h
        refine ⟨A.draw s :: bs, by simp [h1], ?_, ?_, ?_, h5⟩
        · rw [h2]; simp [points, hd]; omega
        · intro b hb
          rcases List.mem_cons.mp hb with rfl | hb
          · exact hd s
          · exact h3 b hb
        · rw [h4]; simp [Nat.succ_mul]; omega
    · simp only [hv, Bool.false_eq_true, if_false, Option.some.injEq, Prod.mk.injEq] at h
      obtain ⟨_, _, rfl, rfl, rfl⟩ := h
      exact ⟨[], by simp, by simp [points], by simp, by simp, by simpa using hv⟩

/-- `Mutator.run`: the counter grows by exactly the number of points in the batches evaluated during the call — in the
    warm-up branch that is the first draw plus every redraw -/
theorem mutate_calls (A : Algo S M X V) (ev : Nat → List X → Option V) (nP : Nat) (rows : M → Nat)
    (hs : Sized A nP rows) (fuel : Nat) (r r' : RS S X) (wfuel : Nat)
    (h : mutate runTable A ev nP fuel r wfuel = some r') :
    ∃ bs, r'.asked = r.asked ++ bs ∧ r'.calls = r.calls + points bs ∧ bs ≠ [] := by
  unfold mutate at h
  split at h
  · simp only [Option.bind_eq_some_iff, Option.map_eq_some_iff] at h
    obtain ⟨v, _, n0, hn0, cap, _, ⟨s', x', v', nDrawn, asked'⟩, hl, inc, hinc, rfl⟩ := h
    rw [warmInit_eval] at hn0
    injection hn0 with hn0; subst hn0
    rw [warmInc_eval] at hinc
    injection hinc with hinc; subst hinc
    obtain ⟨bs, h1, h2, _, _, _⟩ := warmLoop_calls A ev nP _ cap hs.draw wfuel _ _ _ _ _ _ _ _ _ _ hl
    refine ⟨A.draw r.s :: bs, by simp [h1], ?_, by simp⟩
    simp only [h2]
    simp [points, hs.draw]
  · simp only [Option.bind_eq_some_iff, Option.map_eq_some_iff] at h
    obtain ⟨n0, hn0, ⟨m, nc, asked'⟩, hl, rfl⟩ := h
    have : n0 = 0 := by
      simp [runTable, Gen.Dispatch.nCallsInit, litNat] at hn0; exact hn0.symm
    subst this
    obtain ⟨bs, h1, h2, h3, _⟩ := mcmcLoop_calls A ev nP (A.nWalkers r.s) rows hs.propose hs.accept fuel _ 0 r.asked
      (hs.init r.s) m nc asked' hl
    exact ⟨bs, h1, by simp [h2], h3⟩

/-- a warm-up iteration that needed `k` redraws reports `(k + 1)·n_particles` more calls, and the batch it keeps has a finite draw -/
theorem C13_warmup_redraws (A : Algo S M X V) (ev : Nat → List X → Option V) (nP : Nat) (rows : M → Nat)
    (hs : Sized A nP rows) (fuel : Nat) (r r' : RS S X) (wfuel : Nat) (hb : A.beta0 r.s = true)
    (h : mutate runTable A ev nP fuel r wfuel = some r') :
    ∃ k, r'.asked.length = r.asked.length + (k + 1) ∧ r'.calls = r.calls + (k + 1) * nP := by
  unfold mutate at h
  simp only [hb, if_true, Option.bind_eq_some_iff, Option.map_eq_some_iff] at h
  obtain ⟨v, _, n0, hn0, cap, _, ⟨s', x', v', nDrawn, asked'⟩, hl, inc, hinc, rfl⟩ := h
  rw [warmInit_eval] at hn0
  injection hn0 with hn0; subst hn0
  rw [warmInc_eval] at hinc
  injection hinc with hinc; subst hinc
  obtain ⟨bs, h1, _, _, h4, _⟩ := warmLoop_calls A ev nP _ cap hs.draw wfuel _ _ _ _ _ _ _ _ _ _ hl
  refine ⟨bs.length, ?_, ?_⟩
  · simp [h1]
  · simp only [h4]; ring

theorem iteration_calls (A : Algo S M X V) (ev : Nat → List X → Option V) (nP : Nat) (rows : M → Nat)
    (hs : Sized A nP rows) (fuel : Nat) (r r' : RS S X) (h : iteration runTable A ev nP fuel r = some r') :
    ∃ bs, r'.asked = r.asked ++ bs ∧ r'.calls = r.calls + points bs ∧ bs ≠ [] := by
  simp only [iteration, Option.map_eq_some_iff] at h
  obtain ⟨r1, h1, rfl⟩ := h
  obtain ⟨bs, a, b, c⟩ := mutate_calls A ev nP rows hs fuel _ r1 1001 h1
  exact ⟨bs, a, b, c⟩

/-- the invariant `calls − (points asked) = constant` over any number of iterations -/
theorem iterN_calls (A : Algo S M X V) (ev : Nat → List X → Option V) (nP : Nat) (rows : M → Nat)
    (hs : Sized A nP rows) (fuel k : Nat) (r r' : RS S X) (h : iterN runTable A ev nP fuel k r = some r') :
    ∃ bs, r'.asked = r.asked ++ bs ∧ r'.calls = r.calls + points bs ∧ k ≤ bs.length := by
  induction k generalizing r with
  | zero => simp [iterN] at h; subst h; exact ⟨[], by simp, by simp [points], by simp⟩
  | succ k ih =>
    simp only [iterN, Option.bind_eq_some_iff] at h
    obtain ⟨r1, h1, h2⟩ := h
    obtain ⟨b1, a1, c1, n1⟩ := iteration_calls A ev nP rows hs fuel r r1 h1
    obtain ⟨b2, a2, c2, n2⟩ := ih r1 h2
    refine ⟨b1 ++ b2, by simp [a2, a1], by rw [c2, c1, points_append]; omega, ?_⟩
    have : 1 ≤ b1.length := by
      cases b1 with
      | nil => exact absurd rfl n1
      | cons _ _ => simp
    simp; omega

theorem loop_calls (A : Algo S M X V) (ev : Nat → List X → Option V) (nP : Nat) (rows : M → Nat)
    (hs : Sized A nP rows) (fuel n : Nat) (r r' : RS S X) (h : loop runTable A ev nP fuel n r = some r') :
    ∃ bs, r'.asked = r.asked ++ bs ∧ r'.calls = r.calls + points bs := by
  induction n generalizing r with
  | zero =>
    simp only [loop] at h
    split at h
    · simp at h
    · injection h with h; subst h; exact ⟨[], by simp, by simp [points]⟩
  | succ n ih =>
    simp only [loop] at h
    split at h
    · simp only [Option.bind_eq_some_iff] at h
      obtain ⟨r1, h1, h2⟩ := h
      obtain ⟨b1, a1, c1, _⟩ := iteration_calls A ev nP rows hs fuel r r1 h1
      obtain ⟨b2, a2, c2⟩ := ih r1 h2
      exact ⟨b1 ++ b2, by simp [a2, a1], by rw [c2, c1, points_append]; omega⟩
    · injection h with h; subst h; exact ⟨[], by simp, by simp [points]⟩

/-- the value the counter starts from -/
def startCalls : Start S → Nat
  | .fresh _ => 0
  | .resume _ (some c) => c
  | .resume _ none => 0
  | .continued _ c => c

theorem begin_eq (st : Start S) : ∃ s, begin (X := X) runTable st = some ⟨s, startCalls st, []⟩ := by
  cases st with
  | fresh s => exact ⟨s, by simp [begin, runTable, Gen.Dispatch.freshCalls, startCalls, litNat]⟩
  | resume s c =>
    cases c with
    | some c => exact ⟨s, rfl⟩
    | none => exact ⟨s, by simp [begin, runTable, Gen.Dispatch.resumeDefault, startCalls, litNat]⟩
  | continued s c => exact ⟨s, rfl⟩

/-- C13 (calls, whole run): when `run_sampling` returns, the reported number of calls is the value the run started from
    (0 for a fresh run, the checkpoint's count for a resumed one) plus the number of points in all batches handed to
    `_log_like` by this process -/
theorem C13_run_calls (A : Algo S M X V) (ev : Nat → List X → Option V) (nP : Nat) (rows : M → Nat)
    (hs : Sized A nP rows) (fuel iters : Nat) (st : Start S) (r : RS S X)
    (h : runSampling runTable A ev nP fuel iters st = some r) :
    r.calls = startCalls st + points r.asked := by
  simp only [runSampling, Option.bind_eq_some_iff, Option.map_eq_some_iff] at h
  obtain ⟨r0, h0, r1, h1, rfl⟩ := h
  obtain ⟨s, hb⟩ := begin_eq (X := X) st
  rw [hb] at h0; injection h0 with h0; subst h0
  obtain ⟨bs, a, c⟩ := loop_calls A ev nP rows hs fuel iters _ r1 h1
  simp only [List.nil_append] at a
  simp [a, c]

/-! ### … and the batches are what the user's likelihood was evaluated at -/

theorem evaluatedPoints_length (how : HowV) (sched : Nat → Nat → List Nat)
    (hsched : ∀ j n, (sched j n).Perm (List.range n)) (j : Nat) (bs : List (List X)) :
    (evaluatedPoints how sched j bs).length = points bs := by
  induction bs generalizing j with
  | nil => simp [evaluatedPoints, points]
  | cons b bs ih =>
    simp only [evaluatedPoints, List.length_append, ih (j + 1)]
    rw [(C13_logLike_evaluates_batch how (sched j b.length) b (hsched j b.length)).2]
    simp [points]

/-- every point of every batch is evaluated once, whatever the strategy: the evaluation log is a permutation of the batches -/
theorem evaluatedPoints_perm (how : HowV) (sched : Nat → Nat → List Nat)
    (hsched : ∀ j n, (sched j n).Perm (List.range n)) (j : Nat) (bs : List (List X)) :
    (evaluatedPoints how sched j bs).Perm bs.flatten := by
  induction bs generalizing j with
  | nil => simp [evaluatedPoints]
  | cons b bs ih =>
    simp only [evaluatedPoints, List.flatten_cons]
    exact ((C13_logLike_evaluates_batch how (sched j b.length) b (hsched j b.length)).1).append (ih (j + 1))

/-- C13 (second sentence of the statement, whole run): the reported number of likelihood calls equals the number of points at
    which the user's likelihood was actually evaluated — for every strategy, every completion order of every batch, every
    start (fresh / resumed), every sequence of warm-up and annealing iterations with any number of accept/reject steps -/
theorem C13_run_calls_evaluated {Y B : Type} (A : Algo S M X (Out Y B)) (nP : Nat) (rows : M → Nat) (hs : Sized A nP rows)
    (how : HowV) (sched : Nat → Nat → List Nat) (hsched : ∀ j n, (sched j n).Perm (List.range n))
    (f : X → Res Y B) (fvec : List X → List Y) (fuel iters : Nat) (st : Start S) (r : RS S X)
    (h : runSampling runTable A (evOf how sched f fvec) nP fuel iters st = some r) :
    r.calls = startCalls st + (evaluatedPoints how sched 0 r.asked).length := by
  rw [evaluatedPoints_length how sched hsched, C13_run_calls A _ nP rows hs fuel iters st r h]

/-! ### the run is a function of the likelihood's values only -/

/-- two evaluators that return the same values give the same run: final state, counter and batches asked -/
theorem C13_run_values_only (A : Algo S M X V) (ev ev' : Nat → List X → Option V) (hev : ∀ j xs, ev j xs = ev' j xs)
    (nP fuel iters : Nat) (st : Start S) :
    runSampling runTable A ev nP fuel iters st = runSampling runTable A ev' nP fuel iters st := by
  have : ev = ev' := by funext j xs; exact hev j xs
  rw [this]

/-- C13 (first sentence, whole run): a likelihood returning numbers, a pointwise identical vectorised form, ANY two
    strategies and ANY completion orders ⇒ the two runs are identical (state = histories, weights, evidence; counter; batches) -/
theorem C13_run_strategy_independent {Y B : Type} (A : Algo S M X (Out Y B)) (how how' : HowV)
    (sched sched' : Nat → Nat → List Nat) (hsched : ∀ j n, (sched j n).Perm (List.range n))
    (hsched' : ∀ j n, (sched' j n).Perm (List.range n)) (L : X → Y) (fvec : List X → List Y)
    (hvec : ∀ xs, fvec xs = xs.map L) (nP fuel iters : Nat) (st : Start S) :
    runSampling runTable A (evOf how sched (fun x => (Res.val (L x) : Res Y B)) fvec) nP fuel iters st
      = runSampling runTable A (evOf how' sched' (fun x => (Res.val (L x) : Res Y B)) fvec) nP fuel iters st := by
  apply C13_run_values_only
  intro j xs
  simp only [evOf]
  exact C13_logLike_configs_agree_how how how' (sched j xs.length) (sched' j xs.length) L fvec hvec xs
    (hsched j xs.length) (hsched' j xs.length)

/-- … and with blobs (any per-point results) among the point-by-point strategies -/
theorem C13_run_strategy_independent_blobs {Y B : Type} (A : Algo S M X (Out Y B)) (how how' : HowV)
    (hh : how ≠ .direct) (hh' : how' ≠ .direct)
    (sched sched' : Nat → Nat → List Nat) (hsched : ∀ j n, (sched j n).Perm (List.range n))
    (hsched' : ∀ j n, (sched' j n).Perm (List.range n)) (f : X → Res Y B) (fvec : List X → List Y)
    (nP fuel iters : Nat) (st : Start S) :
    runSampling runTable A (evOf how sched f fvec) nP fuel iters st
      = runSampling runTable A (evOf how' sched' f fvec) nP fuel iters st := by
  apply C13_run_values_only
  intro j xs
  simp only [evOf]
  rw [C13_logLike_pointwise how hh _ f fvec xs (hsched j xs.length),
    C13_logLike_pointwise how' hh' _ f fvec xs (hsched' j xs.length)]

/-! ### resuming from a checkpoint continues the count -/

/-- a first process runs `k` iterations from a fresh start and writes a checkpoint holding its counter; a second process
    resumes from it (its own evaluation log starts empty) and runs to completion: the final count is the number of points
    evaluated by BOTH processes -/
theorem C13_resume_continues (A : Algo S M X V) (ev ev2 : Nat → List X → Option V) (nP : Nat) (rows : M → Nat)
    (hs : Sized A nP rows) (fuel k iters : Nat) (s0 s1 : S) (r1 r2 : RS S X)
    (h1 : (begin runTable (.fresh s0)).bind (iterN runTable A ev nP fuel k) = some r1)
    (h2 : runSampling runTable A ev2 nP fuel iters (.resume s1 (some r1.calls)) = some r2) :
    r2.calls = points r1.asked + points r2.asked := by
  have e2 := C13_run_calls A ev2 nP rows hs fuel iters _ r2 h2
  simp only [startCalls] at e2
  simp only [Option.bind_eq_some_iff] at h1
  obtain ⟨r0, h0, h1⟩ := h1
  obtain ⟨s, hb⟩ := begin_eq (X := X) (Start.fresh s0)
  rw [hb] at h0; injection h0 with h0; subst h0
  obtain ⟨bs, a, c, _⟩ := iterN_calls A ev nP rows hs fuel k _ r1 h1
  simp only [List.nil_append, startCalls, Nat.zero_add] at a c
  rw [e2, c, a]

/-- an old checkpoint without a `calls` entry: the count restarts from the default 0, i.e. it reports the points evaluated
    since the resume -/
theorem C13_resume_missing_calls (A : Algo S M X V) (ev : Nat → List X → Option V) (nP : Nat) (rows : M → Nat)
    (hs : Sized A nP rows) (fuel iters : Nat) (s1 : S) (r : RS S X)
    (h : runSampling runTable A ev nP fuel iters (.resume s1 none) = some r) :
    r.calls = points r.asked := by
  have := C13_run_calls A ev nP rows hs fuel iters _ r h
  simpa [startCalls] using this

/-- a second `run()` on the same sampler, or `load_state()` followed by `run()` (committed history, no resume path): the counter is
    NOT reset — the final count is the value it had plus the points evaluated by this call of `run()` -/
theorem C13_second_run_continues (A : Algo S M X V) (ev : Nat → List X → Option V) (nP : Nat) (rows : M → Nat)
    (hs : Sized A nP rows) (fuel iters : Nat) (s1 : S) (c : Nat) (r : RS S X)
    (h : runSampling runTable A ev nP fuel iters (.continued s1 c) = some r) :
    r.calls = c + points r.asked := by
  have := C13_run_calls A ev nP rows hs fuel iters _ r h
  simpa [startCalls] using this

/-! ### how many batches one mutation evaluates -/

/-- generic bound: if the stopping test is implied by `cap ≤ iteration` and implies `lo ≤ iteration`, the loop started at
    iteration 0 evaluates `k` batches with `lo ≤ k ≤ cap` (given that the likelihood never raises and `cap` fuel) -/
theorem mcmcLoop_steps (A : Algo S M X V) (ev : Nat → List X → Option V) (hev : ∀ j xs, (ev j xs).isSome)
    (nP nw : Nat) (iter : M → Nat) (cap lo : Nat)
    (hit : ∀ m xp v, iter (A.accept m xp v) = iter m + 1)
    (hhi : ∀ m, cap ≤ iter m → A.converged m = true) (hlo : ∀ m, A.converged m = true → lo ≤ iter m)
    (fuel : Nat) (m : M) (n0 : Nat) (asked : List (List X)) (hf : cap ≤ iter m + fuel) (hm : iter m < cap) :
    ∃ m' nc asked', mcmcLoop runTable A ev ⟨nP, nw⟩ fuel m n0 asked = some (m', nc, asked') ∧
      iter m < iter m' ∧ iter m' ≤ cap ∧ lo ≤ iter m' ∧ asked'.length = asked.length + (iter m' - iter m) := by
  induction fuel generalizing m n0 asked with
  | zero => omega
  | succ fuel ih =>
    obtain ⟨v, hv⟩ := Option.isSome_iff_exists.mp (hev asked.length (A.propose m))
    simp only [mcmcLoop, hv, Option.bind_some, stepInc_eval]
    by_cases hc : A.converged (A.accept m (A.propose m) v) = true
    · simp only [hc, if_true]
      refine ⟨_, _, _, rfl, by rw [hit]; omega, by rw [hit]; omega, hlo _ hc, by rw [hit]; simp⟩
    · simp only [hc, Bool.false_eq_true, if_false]
      have hlt : iter (A.accept m (A.propose m) v) < cap := by
        by_contra hge
        exact hc (hhi _ (by omega))
      obtain ⟨m', nc, asked', e, h1, h2, h3, h4⟩ := ih (A.accept m (A.propose m) v) (n0 + nw) (asked ++ [A.propose m])
        (by rw [hit]; omega) hlt
      rw [hit] at h1 h4
      refine ⟨m', nc, asked', e, by omega, h2, h3, ?_⟩
      rw [h4]; simp; omega

open Model.Steps in
/-- the real stopping rule is implied by `max 1 (n_max·d) ≤ iteration` -/
theorem steps_converged_of_cap (nSteps nMax d k : Nat) (acc ws s0 : ℝ) (h : max 1 (nMax * d) ≤ k) :
    converged nSteps nMax d k acc ws s0 = true := by
  simp only [converged, adaptiveSteps, ScReal.le_def, ScReal.floor_def, ScReal.ofNat_def]
  have hb := (adaptiveRaw_bounds nSteps nMax d acc ws s0).1
  have h1 : ((⌊adaptiveRaw nSteps nMax d acc ws s0⌋ : ℤ) : ℝ) ≤ adaptiveRaw nSteps nMax d acc ws s0 := Int.floor_le _
  have h2 : ((nMax * d : ℕ) : ℝ) ≤ ((k : ℕ) : ℝ) := by
    have : nMax * d ≤ k := by omega
    exact_mod_cast this
  linarith

open Model.Steps in
/-- … and implies `min(n_steps·d, n_max·d) ≤ iteration` -/
theorem steps_lo_of_converged (nSteps nMax d k : Nat) (acc ws s0 : ℝ)
    (h : converged nSteps nMax d k acc ws s0 = true) : min (nSteps * d) (nMax * d) ≤ k := by
  simp only [converged, adaptiveSteps, ScReal.le_def, ScReal.floor_def, ScReal.ofNat_def] at h
  have hlow := (adaptiveRaw_bounds nSteps nMax d acc ws s0).2
  have hfl : ((min (nSteps * d) (nMax * d) : ℕ) : ℤ) ≤ ⌊adaptiveRaw nSteps nMax d acc ws s0⌋ := by
    rw [Int.le_floor]
    have : (((min (nSteps * d) (nMax * d) : ℕ) : ℤ) : ℝ) = min ((nSteps * d : ℕ) : ℝ) ((nMax * d : ℕ) : ℝ) := by
      push_cast; rfl
    rw [this]; exact hlow
  have h' : (((min (nSteps * d) (nMax * d) : ℕ) : ℤ) : ℝ) ≤ (⌊adaptiveRaw nSteps nMax d acc ws s0⌋ : ℝ) := by
    exact_mod_cast hfl
  have h'' : (((min (nSteps * d) (nMax * d) : ℕ) : ℤ) : ℝ) = ((min (nSteps * d) (nMax * d) : ℕ) : ℝ) := by push_cast; rfl
  have : ((min (nSteps * d) (nMax * d) : ℕ) : ℝ) ≤ ((k : ℕ) : ℝ) := by linarith
  exact_mod_cast this

open Model.Steps in
/-- C13 (adaptive steps inside the run model): a sampler whose runner stops by the real rule — `converged` evaluated on the
    runner's iteration counter, last acceptance rate and weighted step size, whatever those are — evaluates in one mutation
    `k` batches with `min(n_steps·d, n_max·d) ≤ k ≤ max 1 (n_max·d)`, so the mutation adds `k · n_walkers` to `calls` -/
theorem C13_mutation_steps (A : Algo S M X V) (ev : Nat → List X → Option V) (hev : ∀ j xs, (ev j xs).isSome)
    (nP : Nat) (rows : M → Nat) (hs : Sized A nP rows)
    (nSteps nMax d : Nat) (s0 : ℝ) (iter : M → Nat) (acc ws : M → ℝ)
    (hconv : ∀ m, A.converged m = converged nSteps nMax d (iter m) (acc m) (ws m) s0)
    (hit : ∀ m xp v, iter (A.accept m xp v) = iter m + 1) (hi0 : ∀ s, iter (A.mcmcInit s) = 0)
    (r : RS S X) (hb : A.beta0 r.s = false) (fuel : Nat) (hf : max 1 (nMax * d) ≤ fuel) :
    ∃ r' k, mutate runTable A ev nP fuel r = some r' ∧ min (nSteps * d) (nMax * d) ≤ k ∧ 1 ≤ k ∧ k ≤ max 1 (nMax * d) ∧
      r'.calls = r.calls + k * A.nWalkers r.s ∧ r'.asked.length = r.asked.length + k := by
  obtain ⟨m', nc, asked', e, h1, h2, h3, h4⟩ := mcmcLoop_steps A ev hev nP (A.nWalkers r.s) iter (max 1 (nMax * d))
    (min (nSteps * d) (nMax * d)) hit
    (fun m hm => by rw [hconv]; exact steps_converged_of_cap nSteps nMax d (iter m) (acc m) (ws m) s0 hm)
    (fun m hm => by rw [hconv] at hm; exact steps_lo_of_converged nSteps nMax d (iter m) (acc m) (ws m) s0 hm)
    fuel (A.mcmcInit r.s) 0 r.asked (by rw [hi0]; omega) (by rw [hi0]; omega)
  rw [hi0] at h1 h4
  obtain ⟨bs, a1, a2, _, _, a5⟩ := mcmcLoop_calls A ev nP (A.nWalkers r.s) rows hs.propose hs.accept fuel _ 0 r.asked
    (hs.init r.s) m' nc asked' e
  have hlen : bs.length = iter m' := by
    have := congrArg List.length a1
    simp at this; omega
  refine ⟨⟨A.mcmcStore r.s m', r.calls + nc, asked'⟩, iter m', ?_, h3, by omega, h2, ?_, by simpa using h4⟩
  · have hn : litNat runTable.nCallsInit = some 0 := by simp [runTable, Gen.Dispatch.nCallsInit, litNat]
    simp only [mutate, hb, Bool.false_eq_true, if_false, hn, Option.bind_some, e, Option.map_some]
  · simp [a5, hlen]

/-! ### non-vacuity: a concrete scripted run (the instance the driver executes) -/

example : (runSampling runTable (scripted 8 8) (scriptEv (scriptFlags [.warm 2, .warm 0, .mcmc 3, .mcmc 2])) 8 100 50
      (.fresh [.warm 2, .warm 0, .mcmc 3, .mcmc 2])).map
    (fun r => (r.calls, r.asked.map List.length)) = some (72, [8, 8, 8, 8, 8, 8, 8, 8, 8]) := by decide
example : (runSampling runTable (scripted 8 8) (scriptEv (scriptFlags [.mcmc 2])) 8 100 50 (.resume [.mcmc 2] (some 40))).map
    (fun r => (r.calls, r.asked.map List.length)) = some (56, [8, 8]) := by decide
example : (runSampling runTable (scripted 8 8) (scriptEv (scriptFlags [.warm 1])) 8 100 50 (.continued [.warm 1] 56)).map
    (fun r => (r.calls, r.asked.map List.length)) = some (72, [8, 8]) := by decide
example : Sized (scripted 8 8) 8 (fun _ => 8) := ⟨fun _ => by simp [scripted], fun _ => by simp [scripted], fun _ _ _ => rfl, fun _ => rfl⟩

/-- a runner that stops by the REAL rule (n_steps = 1, n_max = 2, d = 2, constant acceptance 1 and step size 1): instance of the
    hypotheses of `C13_mutation_steps` -/
noncomputable def stepAlgo : Algo Unit Nat Unit Unit where
  notTerm _ := false
  prep s := s
  beta0 _ := false
  draw _ := List.replicate 4 ()
  afterDraw s := s
  allInf _ := false
  warmStore s _ _ _ := s
  mcmcInit _ := 0
  nWalkers _ := 4
  propose _ := List.replicate 4 ()
  accept m _ _ := m + 1
  converged m := Model.Steps.converged (α := ℝ) 1 2 2 m 1 1 1
  mcmcStore s _ := s
  commit s := s
  finish s := s

example : ∃ r' k, mutate runTable stepAlgo (fun _ _ => some ()) 4 10 ⟨(), 0, []⟩ = some r' ∧ min (1 * 2) (2 * 2) ≤ k ∧ 1 ≤ k ∧
    k ≤ max 1 (2 * 2) ∧ r'.calls = 0 + k * 4 ∧ r'.asked.length = 0 + k :=
  C13_mutation_steps stepAlgo (fun _ _ => some ()) (fun _ _ => rfl) 4 (fun _ => 4)
    ⟨fun _ => by simp [stepAlgo], fun _ => by simp [stepAlgo], fun _ _ _ => rfl, fun _ => rfl⟩
    1 2 2 1 (fun m => m) (fun _ => 1) (fun _ => 1) (fun _ => rfl) (fun _ _ _ => rfl) (fun _ => rfl)
    ⟨(), 0, []⟩ rfl 10 (by norm_num)

end Props.C13
