import TempestVerif.Props.C11Stat
import TempestVerif.Lemmas.MIS
import Mathlib.Tactic
/-
  C11 (second pass) — the β = 0 part of H_nominal of `C11_final`: "the warm-up batches are draws from the prior RESTRICTED
  to the supported region".  In the first pass this was a sentence in a doc-comment.  Here it is a theorem about the
  replacement rule of `Mutator.run`:

    a stored particle is its own draw when that draw is finite, otherwise a copy of a draw picked UNIFORMLY among the
    finite draws of the same batch (`np.random.choice(finite_idx, …)`), and the batch is storable iff it has a finite draw.

  Over n i.i.d. prior draws (law p on a finite space, A = "likelihood finite") and the uniform picks:

    C11_value_indep_of_pattern     given the finiteness PATTERN of the batch, the value of a finite draw is distributed as
                                   p(·|A) — for any function φ of the pattern:  E[1_A(ω_j) g(ω_j) φ(pattern)] · f
                                   = E[g; A] · E[1_A(ω_j) φ(pattern)]
    C11_stored_particle_law        E[g(stored_i); batch storable] · f = E[g; A] · P(batch storable)  — every position i, any
                                   batch size: conditional on the batch being storable (no F8), the MARGINAL law of each
                                   stored particle is exactly the prior restricted to the supported region
    C11_stored_law_is_piB0         … which is `piB p' L' 0`, the nominal β = 0 law that `C11_final` assumes, with
                                   A = {L > 0}
  The joint law of a batch is NOT i.i.d. (copies) — finding B of the first pass; the balance-heuristic identity
  (`Lemmas.MIS.mis_core`, `C11_final`) is linear in the batch laws and needs only the marginals.
-/
namespace Props.C11
open Finset

section law
variable {Ω : Type} [Fintype Ω]

/-- finiteness pattern of a batch -/
def pat (A : Ω → Prop) [DecidablePred A] {n : ℕ} (ω : Fin n → Ω) : Fin n → Bool := fun i => decide (A (ω i))

omit [Fintype Ω] in
/-- the indicator of "the pattern of ω is b" factorises over the draws -/
theorem pat_indicator (A : Ω → Prop) [DecidablePred A] {n : ℕ} (ω : Fin n → Ω) (b : Fin n → Bool) :
    (if pat A ω = b then (1 : ℝ) else 0) = ∏ i, (if decide (A (ω i)) = b i then (1 : ℝ) else 0) := by
  rw [Finset.prod_ite_zero]
  simp only [Finset.prod_const_one, Finset.mem_univ, forall_true_left]
  congr 1
  apply propext
  constructor
  · intro h i; rw [← h]; rfl
  · intro h; funext i; exact h i

/-- one pattern at a time: the value of the finite draw `j` is distributed as `p(·|A)` -/
theorem value_indep_one_pattern (p : Ω → ℝ) (A : Ω → Prop) [DecidablePred A] (g : Ω → ℝ) (n : ℕ) (j : Fin n)
    (b : Fin n → Bool) :
    (∑ ω : Fin n → Ω, (∏ i, p (ω i)) * ((if A (ω j) then g (ω j) else 0) * (if pat A ω = b then 1 else 0))) * mass p A
      = (∑ x, if A x then p x * g x else 0) *
        ∑ ω : Fin n → Ω, (∏ i, p (ω i)) * ((if A (ω j) then 1 else 0) * (if pat A ω = b then 1 else 0)) := by
  -- both sums factorise over the draws; the factors differ only at j
  have hfac : ∀ h : Ω → ℝ, ∑ ω : Fin n → Ω, (∏ i, p (ω i)) * (h (ω j) * (if pat A ω = b then 1 else 0))
      = ∏ i, ∑ x, (p x * (if decide (A x) = b i then (1 : ℝ) else 0) * (if i = j then h x else 1)) := by
    intro h
    rw [← sum_pi_prod (fun i x => p x * (if decide (A x) = b i then (1 : ℝ) else 0) * (if i = j then h x else 1))]
    refine Finset.sum_congr rfl fun ω _ => ?_
    rw [Finset.prod_mul_distrib, Finset.prod_mul_distrib, ← pat_indicator,
      Finset.prod_ite_eq' Finset.univ j (fun i => h (ω i))]
    simp only [Finset.mem_univ, if_true]
    ring
  rw [hfac (fun x => if A x then g x else 0), hfac (fun x => if A x then 1 else 0)]
  rw [← Finset.mul_prod_erase Finset.univ _ (Finset.mem_univ j), ← Finset.mul_prod_erase Finset.univ _ (Finset.mem_univ j)]
  have hrest : ∏ i ∈ Finset.univ.erase j, ∑ x, (p x * (if decide (A x) = b i then (1 : ℝ) else 0) *
        (if i = j then (fun x => if A x then g x else 0) x else 1))
      = ∏ i ∈ Finset.univ.erase j, ∑ x, (p x * (if decide (A x) = b i then (1 : ℝ) else 0) *
        (if i = j then (fun x => if A x then (1 : ℝ) else 0) x else 1)) := by
    refine Finset.prod_congr rfl fun i hi => ?_
    have hij : i ≠ j := Finset.ne_of_mem_erase hi
    simp [hij]
  rw [hrest]
  simp only [if_true]
  -- the factor of draw j
  cases hb : b j with
  | false =>
    have z1 : ∀ h : Ω → ℝ, ∑ x, p x * (if decide (A x) = false then (1 : ℝ) else 0) * (if A x then h x else 0) = 0 := by
      intro h
      refine Finset.sum_eq_zero fun x _ => ?_
      by_cases hx : A x <;> simp [hx]
    rw [z1 g, z1 (fun _ => 1)]; ring
  | true =>
    have z1 : ∀ h : Ω → ℝ, ∑ x, p x * (if decide (A x) = true then (1 : ℝ) else 0) * (if A x then h x else 0)
        = ∑ x, if A x then p x * h x else 0 := by
      intro h
      refine Finset.sum_congr rfl fun x _ => ?_
      by_cases hx : A x <;> simp [hx]
    rw [z1 g, z1 (fun _ => 1)]
    have : (∑ x, if A x then p x * (fun _ => (1 : ℝ)) x else 0) = mass p A := by
      unfold mass; refine Finset.sum_congr rfl fun x _ => ?_; simp
    rw [this]; ring

/-- C11 (value ⟂ pattern): for ANY real function `φ` of the finiteness pattern of the batch — in particular any
    replacement rule that looks only at which draws are finite — the value of a finite draw is distributed as `p(·|A)`:
    `E[1_A(ω_j) g(ω_j) φ(pattern)] · p(A) = E[g; A] · E[1_A(ω_j) φ(pattern)]` -/
theorem C11_value_indep_of_pattern (p : Ω → ℝ) (A : Ω → Prop) [DecidablePred A] (g : Ω → ℝ) (n : ℕ) (j : Fin n)
    (φ : (Fin n → Bool) → ℝ) :
    (∑ ω : Fin n → Ω, (∏ i, p (ω i)) * ((if A (ω j) then g (ω j) else 0) * φ (pat A ω))) * mass p A
      = (∑ x, if A x then p x * g x else 0) *
        ∑ ω : Fin n → Ω, (∏ i, p (ω i)) * ((if A (ω j) then 1 else 0) * φ (pat A ω)) := by
  have hsplit : ∀ (h : Ω → ℝ), ∑ ω : Fin n → Ω, (∏ i, p (ω i)) * (h (ω j) * φ (pat A ω))
      = ∑ b : Fin n → Bool, φ b * ∑ ω : Fin n → Ω, (∏ i, p (ω i)) * (h (ω j) * (if pat A ω = b then 1 else 0)) := by
    intro h
    simp_rw [Finset.mul_sum]
    rw [Finset.sum_comm]
    refine Finset.sum_congr rfl fun ω _ => ?_
    rw [Finset.sum_eq_single (pat A ω)]
    · simp; ring
    · intro b _ hb; simp [Ne.symm hb]
    · intro h; exact absurd (Finset.mem_univ _) h
  rw [hsplit (fun x => if A x then g x else 0), hsplit (fun x => if A x then 1 else 0), Finset.sum_mul, Finset.mul_sum]
  refine Finset.sum_congr rfl fun b _ => ?_
  have := value_indep_one_pattern p A g n j b
  calc φ b * (∑ ω : Fin n → Ω, (∏ i, p (ω i)) * ((if A (ω j) then g (ω j) else 0) * (if pat A ω = b then 1 else 0))) * mass p A
      = φ b * ((∑ ω : Fin n → Ω, (∏ i, p (ω i)) * ((if A (ω j) then g (ω j) else 0) * (if pat A ω = b then 1 else 0))) * mass p A) := by ring
    _ = _ := by rw [this]; ring

/-! ### the replacement rule of `Mutator.run` -/

/-- number of finite draws of the batch -/
def nfin (A : Ω → Prop) [DecidablePred A] {n : ℕ} (ω : Fin n → Ω) : ℕ := (univ.filter fun i => A (ω i)).card

/-- expectation over the pick (uniform on `finite_idx`) of `g` at the particle stored at position `i`: its own draw if that is
    finite, otherwise the MEAN of `g` over the finite draws of the batch -/
noncomputable def storedMean (A : Ω → Prop) [DecidablePred A] (g : Ω → ℝ) {n : ℕ} (ω : Fin n → Ω) (i : Fin n) : ℝ :=
  if A (ω i) then g (ω i) else (∑ j ∈ univ.filter (fun j => A (ω j)), g (ω j)) / (nfin A ω : ℝ)

/-- the weights with which position `i` of the stored batch draws on the draws `j`: a function of the pattern only -/
noncomputable def coef {n : ℕ} (i j : Fin n) (b : Fin n → Bool) : ℝ :=
  (if i = j then 1 else 0) + (if b i then 0 else 1) / ((univ.filter fun k => b k = true).card : ℝ)

omit [Fintype Ω] in
theorem nfin_pat (A : Ω → Prop) [DecidablePred A] {n : ℕ} (ω : Fin n → Ω) :
    (univ.filter fun k => pat A ω k = true).card = nfin A ω := by
  unfold nfin pat
  congr 1
  ext k; simp

omit [Fintype Ω] in
/-- the stored particle as a pattern-weighted combination of the finite draws -/
theorem storedMean_eq (A : Ω → Prop) [DecidablePred A] (g : Ω → ℝ) {n : ℕ} (ω : Fin n → Ω) (i : Fin n) :
    (if 0 < nfin A ω then storedMean A g ω i else 0)
      = ∑ j, (if A (ω j) then g (ω j) else 0) * coef i j (pat A ω) := by
  have hsumfilter : ∑ j ∈ univ.filter (fun j => A (ω j)), g (ω j) = ∑ j, if A (ω j) then g (ω j) else 0 := by
    rw [Finset.sum_filter]
  simp only [coef, mul_add, Finset.sum_add_distrib, nfin_pat]
  have h1 : ∑ j, (if A (ω j) then g (ω j) else 0) * (if i = j then (1 : ℝ) else 0) = if A (ω i) then g (ω i) else 0 := by
    simp
  rw [h1]
  have h2 : ∑ j, (if A (ω j) then g (ω j) else 0) * ((if pat A ω i = true then (0 : ℝ) else 1) / (nfin A ω : ℝ))
      = (if A (ω i) then 0 else (∑ j ∈ univ.filter (fun j => A (ω j)), g (ω j)) / (nfin A ω : ℝ)) := by
    rw [← Finset.sum_mul, ← hsumfilter]
    by_cases hi : A (ω i) <;> simp [pat, hi, div_eq_mul_inv]
  rw [h2]
  by_cases hpos : 0 < nfin A ω
  · simp only [hpos, if_true, storedMean]
    by_cases hi : A (ω i) <;> simp [hi]
  · have h0 : nfin A ω = 0 := by omega
    have hnone : ∀ j, ¬ A (ω j) := by
      intro j hj
      have : j ∈ univ.filter fun i => A (ω i) := by simp [hj]
      have hc : 0 < (univ.filter fun i => A (ω i)).card := Finset.card_pos.mpr ⟨j, this⟩
      unfold nfin at h0; omega
    simp [hnone, h0]

omit [Fintype Ω] in
/-- with `g = 1`: the combination is the indicator of "the batch has a finite draw" -/
theorem storable_eq (A : Ω → Prop) [DecidablePred A] {n : ℕ} (ω : Fin n → Ω) (i : Fin n) :
    (if 0 < nfin A ω then (1 : ℝ) else 0) = ∑ j, (if A (ω j) then 1 else 0) * coef i j (pat A ω) := by
  have := storedMean_eq A (fun _ => (1 : ℝ)) ω i
  rw [← this]
  by_cases hpos : 0 < nfin A ω
  · simp only [hpos, if_true, storedMean]
    by_cases hi : A (ω i)
    · simp [hi]
    · simp only [hi, if_false]
      rw [Finset.sum_const, nsmul_eq_mul, mul_one]
      have : ((univ.filter fun j => A (ω j)).card : ℝ) = (nfin A ω : ℝ) := rfl
      rw [this, div_self]
      exact_mod_cast hpos.ne'
  · simp [hpos]

/-- C11 (H_nominal at β = 0, the law part): over `n` independent prior draws and the uniform replacement picks, for EVERY
    position `i` of the stored batch and every test function `g`:
      `E[g(stored_i); the batch has a finite draw] · p(A) = E[g; A] · P(the batch has a finite draw)`.
    Conditional on the batch being storable, each stored particle is distributed EXACTLY as the prior restricted to the
    supported region — for every batch size `n`, also `n = 1`. -/
theorem C11_stored_particle_law (p : Ω → ℝ) (A : Ω → Prop) [DecidablePred A] (g : Ω → ℝ) (n : ℕ) (i : Fin n) :
    (∑ ω : Fin n → Ω, (∏ k, p (ω k)) * (if 0 < nfin A ω then storedMean A g ω i else 0)) * mass p A
      = (∑ x, if A x then p x * g x else 0) *
        ∑ ω : Fin n → Ω, (∏ k, p (ω k)) * (if 0 < nfin A ω then 1 else 0) := by
  have hL : ∑ ω : Fin n → Ω, (∏ k, p (ω k)) * (if 0 < nfin A ω then storedMean A g ω i else 0)
      = ∑ j, ∑ ω : Fin n → Ω, (∏ k, p (ω k)) * ((if A (ω j) then g (ω j) else 0) * coef i j (pat A ω)) := by
    simp_rw [storedMean_eq A g _ i, Finset.mul_sum]
    exact Finset.sum_comm
  have hR : ∑ ω : Fin n → Ω, (∏ k, p (ω k)) * (if 0 < nfin A ω then (1 : ℝ) else 0)
      = ∑ j, ∑ ω : Fin n → Ω, (∏ k, p (ω k)) * ((if A (ω j) then 1 else 0) * coef i j (pat A ω)) := by
    simp_rw [storable_eq A _ i, Finset.mul_sum]
    exact Finset.sum_comm
  rw [hL, hR, Finset.sum_mul, Finset.mul_sum]
  exact Finset.sum_congr rfl fun j _ => C11_value_indep_of_pattern p A g n j (coef i j)

/-- … in the vocabulary of `C11_final`: with `A = {L > 0}` the conditional law is `piB p' L' 0`, the nominal law of a
    β = 0 batch on the supported region `S = {x // 0 < L x}` -/
theorem C11_stored_law_is_piB0 (p L : Ω → ℝ) (hmass : 0 < mass p (fun x => 0 < L x)) (g : Ω → ℝ) (n : ℕ) (i : Fin n) :
    ∑ ω : Fin n → Ω, (∏ k, p (ω k)) * (if 0 < nfin (fun x => 0 < L x) ω then storedMean (fun x => 0 < L x) g ω i else 0)
      = (∑ x : {x : Ω // 0 < L x}, Lemmas.MIS.piB (fun y : {x : Ω // 0 < L x} => p y.1) (fun y => L y.1) 0 x * g x.1) *
        ∑ ω : Fin n → Ω, (∏ k, p (ω k)) * (if 0 < nfin (fun x => 0 < L x) ω then 1 else 0) := by
  classical
  have h := C11_stored_particle_law p (fun x => 0 < L x) g n i
  have hZ : Lemmas.MIS.Zf (fun y : {x : Ω // 0 < L x} => p y.1) (fun y => L y.1) 0 = mass p (fun x => 0 < L x) := by
    rw [Lemmas.MIS.Zf_zero]
    unfold mass
    rw [← Finset.sum_subtype (Finset.univ.filter fun y : Ω => 0 < L y) (by simp) (fun y : Ω => p y), Finset.sum_filter]
  have hG : (∑ x : {x : Ω // 0 < L x}, Lemmas.MIS.piB (fun y : {x : Ω // 0 < L x} => p y.1) (fun y => L y.1) 0 x * g x.1)
      = (∑ x, if 0 < L x then p x * g x else 0) / mass p (fun x => 0 < L x) := by
    simp only [Lemmas.MIS.piB, Lemmas.MIS.gam, Real.rpow_zero, mul_one, hZ]
    rw [Finset.sum_div]
    rw [← Finset.sum_subtype (Finset.univ.filter fun y : Ω => 0 < L y) (by simp)
      (fun y : Ω => p y / mass p (fun x => 0 < L x) * g y), Finset.sum_filter]
    refine Finset.sum_congr rfl fun x _ => ?_
    split <;> ring
  rw [hG, div_mul_eq_mul_div, eq_div_iff hmass.ne', h]

end law

/-! ### non-vacuity: a fair coin, two draws, `A` = heads; `g` = identity on {0, 1} -/
example : (∑ ω : Fin 2 → Fin 2, (∏ k, (fun _ : Fin 2 => (1 / 2 : ℝ)) (ω k)) *
      (if 0 < nfin (fun x : Fin 2 => x = 1) ω then storedMean (fun x : Fin 2 => x = 1) (fun x => (x.1 : ℝ)) ω 0 else 0))
      * mass (fun _ : Fin 2 => (1 / 2 : ℝ)) (fun x => x = 1)
    = (∑ x : Fin 2, if x = 1 then (1 / 2 : ℝ) * (x.1 : ℝ) else 0) *
      ∑ ω : Fin 2 → Fin 2, (∏ k, (fun _ : Fin 2 => (1 / 2 : ℝ)) (ω k)) * (if 0 < nfin (fun x : Fin 2 => x = 1) ω then 1 else 0) :=
  C11_stored_particle_law (fun _ : Fin 2 => (1 / 2 : ℝ)) (fun x => x = 1) (fun x => (x.1 : ℝ)) 2 0

end Props.C11
