import TempestVerif.Props.C03Inv
import TempestVerif.Lemmas.FoldPushRefl
import Mathlib.Tactic
/-
  C03, clause 8 in ONE dimension: RWM with a reflective coordinate — the law of the model's step leaves the tempered target
  invariant.  (In d ≥ 2 with a correlated covariance the statement is FALSE: finding F21, `C03_reflect_correlated_asymmetric`.)
-/
set_option linter.unusedSimpArgs false
set_option linter.unusedVariables false
namespace Props.C03
open Real MeasureTheory ProbabilityTheory Set Model.Kernel Lemmas.MHKernel Lemmas.FoldPush
open scoped ENNReal NNReal

/-- one-walker RWM input in d = 1 with the coordinate reflective -/
noncomputable def in1Rf (m L ic ν σ β lx lp x g z r : ℝ) : StepIn ℝ :=
  { kind := .rwm, u := [x], mu := [m], chol := [[L]], invcov := [[ic]], nu := ν, sigma := σ, beta := β, l := lx, lp := lp,
    g := g, r := r, z := [z], per := [], refl := [0] }

theorem reflect_eq_tri (c : ℝ) : Model.Boundary.reflect c = tri c := by
  unfold Model.Boundary.reflect tri
  simp only [ScReal.floor_def, ScReal.sub_def, ScReal.one_def, Int.self_sub_floor]
  by_cases h : ⌊c⌋ % 2 = 0
  · have : Sc.isEven ((⌊c⌋ : ℤ) : ℝ) = true := by rw [ScReal.isEven_def, Int.floor_intCast]; exact h
    simp [this, h]
  · have : ¬ Sc.isEven ((⌊c⌋ : ℤ) : ℝ) = true := by rw [ScReal.isEven_def, Int.floor_intCast]; exact h
    simp [this, h]

theorem raw_rwm_refl (L σ x z : ℝ) :
    Model.Boundary.apply ([] : List Nat) [0] (rwmProposal [x] [[L]] σ [z]) = [tri (cand1R L σ x z)] := by
  simp [cand1R, Model.Boundary.apply, rwmProposal, vadd, matVec, scaleMat, dotv, Sc.sum, reflect_eq_tri]

theorem checkBounds_refl_single (c : ℝ) : Model.Boundary.checkBounds ([] : List Nat) [0] [c] = true := by
  simp [Model.Boundary.checkBounds]

/-- acceptance probability as a function of the current point and the FOLDED candidate (no coordinate is hard) -/
noncomputable def acc1Rf (ℓ : ℝ → ℝ) (β x y : ℝ) : ℝ := min 1 (exp (β * (ℓ y - ℓ x)))

theorem acc1Rf_nonneg (ℓ : ℝ → ℝ) (β x y : ℝ) : 0 ≤ acc1Rf ℓ β x y := le_min zero_le_one (exp_pos _).le
theorem acc1Rf_le_one (ℓ : ℝ → ℝ) (β x y : ℝ) : acc1Rf ℓ β x y ≤ 1 := min_le_left _ _

theorem closedStep_rwm_refl_1d (ℓ : List ℝ → ℝ) (m L ic ν σ β lx lp x g z r : ℝ) :
    (closedStep ℓ (in1Rf m L ic ν σ β lx lp x g z r)).newU
      = [acceptReject x (acc1Rf (fun c => ℓ [c]) β x) (tri (cand1R L σ x z), r)] := by
  simp only [closedStep, step, in1Rf, finish, raw_rwm_refl, checkBounds_refl_single]
  simp [acceptReject, acc1Rf, boundedAlpha, acceptDecision, model_acceptProb, rwmLogFactor]
  split <;> rfl

noncomputable def newState1Rf (ℓ : ℝ → ℝ) (m L ic ν σ β x g z r : ℝ) : ℝ :=
  match (closedStep (liftL ℓ) (in1Rf m L ic ν σ β 0 0 x g z r)).newU with
  | [y] => y
  | _ => x

theorem newState1Rf_eq (ℓ : ℝ → ℝ) (m L ic ν σ β x g z r : ℝ) :
    newState1Rf ℓ m L ic ν σ β x g z r = acceptReject x (acc1Rf ℓ β x) (tri (cand1R L σ x z), r) := by
  unfold newState1Rf
  rw [closedStep_rwm_refl_1d (liftL ℓ) m L ic ν σ β 0 0 x g z r]
  rfl

/-- the law of the new state of one RWM step with a reflective coordinate (d = 1) -/
noncomputable def rwmLaw1Rf (ℓ : ℝ → ℝ) (m L ic ν σ β x : ℝ) : Measure ℝ :=
  ((gaussianReal 0 1).prod unif).map fun w => newState1Rf ℓ m L ic ν σ β x 0 w.1 w.2

/-- density of the reflected candidate -/
noncomputable def q1Rf (L σ : ℝ) (x y : ℝ) : ℝ≥0∞ := reflDensity (gaussianPDF x (varR L σ)) y

noncomputable def rwmSub1Rf (ℓ : ℝ → ℝ) (L σ β : ℝ) (x y : ℝ) : ℝ≥0∞ := q1Rf L σ x y * ENNReal.ofReal (acc1Rf ℓ β x y)

theorem measurable_acc1Rf {ℓ : ℝ → ℝ} (hℓ : Measurable ℓ) (β : ℝ) : Measurable (Function.uncurry (acc1Rf ℓ β)) := by
  unfold acc1Rf Function.uncurry
  exact measurable_const.min (measurable_exp.comp (measurable_const.mul
    ((hℓ.comp measurable_snd).sub (hℓ.comp measurable_fst))))

theorem measurable_q1Rf (L σ : ℝ) : Measurable (Function.uncurry (q1Rf L σ)) := by
  unfold q1Rf reflDensity Function.uncurry
  have hs : MeasurableSet {p : ℝ × ℝ | p.2 ∈ Ioo (0 : ℝ) 1} := measurable_snd measurableSet_Ioo
  have hsum : Measurable fun p : ℝ × ℝ => ∑' k : ℤ, (gaussianPDF p.1 (varR L σ) (p.2 + 2 * (k : ℝ))
      + gaussianPDF p.1 (varR L σ) (2 * (k : ℝ) - p.2)) := by
    refine Measurable.tsum fun k => ?_
    have ha : Measurable fun p : ℝ × ℝ => gaussianPDF p.1 (varR L σ) (p.2 + 2 * (k : ℝ)) :=
      (measurable_gaussianPDF_pair (varR L σ)).comp
        (f := fun p : ℝ × ℝ => (p.1, p.2 + 2 * (k : ℝ))) (measurable_fst.prodMk (measurable_snd.add measurable_const))
    have hb : Measurable fun p : ℝ × ℝ => gaussianPDF p.1 (varR L σ) (2 * (k : ℝ) - p.2) :=
      (measurable_gaussianPDF_pair (varR L σ)).comp
        (f := fun p : ℝ × ℝ => (p.1, 2 * (k : ℝ) - p.2)) (measurable_fst.prodMk (measurable_const.sub measurable_snd))
    exact ha.add hb
  have : (fun p : ℝ × ℝ => (Ioo (0 : ℝ) 1).indicator (fun y => ∑' k : ℤ, (gaussianPDF p.1 (varR L σ) (y + 2 * (k : ℝ))
        + gaussianPDF p.1 (varR L σ) (2 * (k : ℝ) - y))) p.2)
      = {p : ℝ × ℝ | p.2 ∈ Ioo (0 : ℝ) 1}.indicator fun p => ∑' k : ℤ, (gaussianPDF p.1 (varR L σ) (p.2 + 2 * (k : ℝ))
        + gaussianPDF p.1 (varR L σ) (2 * (k : ℝ) - p.2)) := by
    funext p
    by_cases hp : p.2 ∈ Ioo (0 : ℝ) 1
    · have : p ∈ {p : ℝ × ℝ | p.2 ∈ Ioo (0 : ℝ) 1} := hp
      rw [indicator_of_mem hp, indicator_of_mem this]
    · have : p ∉ {p : ℝ × ℝ | p.2 ∈ Ioo (0 : ℝ) 1} := hp
      rw [indicator_of_notMem hp, indicator_of_notMem this]
  rw [this]
  exact hsum.indicator hs

theorem rwm_refl_candidate_law (L σ x : ℝ) (h : σ * L ≠ 0) :
    (gaussianReal 0 1).map (fun z => tri (cand1R L σ x z)) = volume.withDensity (q1Rf L σ x) := by
  have hcomp : (fun z => tri (cand1R L σ x z)) = tri ∘ cand1R L σ x := rfl
  rw [hcomp, ← Measure.map_map measurable_tri (by unfold cand1R; fun_prop), rwm_candidate_law,
    gaussianReal_of_var_ne_zero _ (varR_ne_zero h), map_tri_withDensity (measurable_gaussianPDF _ _)]
  rfl

theorem lintegral_q1Rf (L σ x : ℝ) (h : σ * L ≠ 0) : ∫⁻ y, q1Rf L σ x y = 1 := by
  have hp : IsProbabilityMeasure ((gaussianReal 0 1).map fun z => tri (cand1R L σ x z)) :=
    Measure.isProbabilityMeasure_map (measurable_tri.comp (by unfold cand1R; fun_prop)).aemeasurable
  rw [rwm_refl_candidate_law L σ x h] at hp
  have := hp.measure_univ
  rwa [withDensity_apply _ MeasurableSet.univ, Measure.restrict_univ] at this

theorem rwmLaw1Rf_eq_mhKernel {ℓ : ℝ → ℝ} (hℓ : Measurable ℓ) (m L ic ν σ β : ℝ) (h : σ * L ≠ 0) (x : ℝ) :
    rwmLaw1Rf ℓ m L ic ν σ β x = mhKernel volume (rwmSub1Rf ℓ L σ β) x := by
  unfold rwmLaw1Rf
  rw [tapeStep_law (gaussianReal 0 1) (c := fun z => tri (cand1R L σ x z))
    (measurable_tri.comp (by unfold cand1R; fun_prop)) x
    ((measurable_acc1Rf hℓ β).of_uncurry_left) (fun z r _ => newState1Rf_eq ℓ m L ic ν σ β x 0 z r),
    rwm_refl_candidate_law L σ x h]
  exact acceptReject_eq_mhKernel volume (q := q1Rf L σ) (measurable_q1Rf L σ)
    (fun x => lintegral_q1Rf L σ x h) (measurable_acc1Rf hℓ β) (acc1Rf_nonneg ℓ β) (acc1Rf_le_one ℓ β) x

/-- the reflected proposal density is symmetric (one coordinate: every even increment density is even in that coordinate) -/
theorem q1Rf_sum_symm (v : ℝ≥0) (x y : ℝ) :
    ∑' k : ℤ, (gaussianPDF x v (y + 2 * (k : ℝ)) + gaussianPDF x v (2 * (k : ℝ) - y))
      = ∑' k : ℤ, (gaussianPDF y v (x + 2 * (k : ℝ)) + gaussianPDF y v (2 * (k : ℝ) - x)) := by
  rw [ENNReal.tsum_add, ENNReal.tsum_add]
  congr 1
  · rw [← (Equiv.neg ℤ).tsum_eq]
    refine tsum_congr fun k => ?_
    rw [gaussianPDF_symm]
    unfold gaussianPDF gaussianPDFReal
    simp only [Equiv.neg_apply, Int.cast_neg]
    congr 3; ring
  · refine tsum_congr fun k => ?_
    unfold gaussianPDF gaussianPDFReal
    congr 3; ring

/-- target on the OPEN interval (same measure as `target1`: `target1o_eq`) -/
noncomputable def target1o (ℓ : ℝ → ℝ) (β : ℝ) : Measure ℝ :=
  volume.withDensity fun x => ENNReal.ofReal ((Ioo (0 : ℝ) 1).indicator (fun x => exp (β * ℓ x)) x)

theorem target1o_eq (ℓ : ℝ → ℝ) (β : ℝ) : target1o ℓ β = target1 ℓ β := by
  unfold target1o target1
  refine withDensity_congr_ae ?_
  have h0 : ∀ᵐ x : ℝ ∂volume, x ≠ 0 := by rw [ae_iff]; simp
  have h1 : ∀ᵐ x : ℝ ∂volume, x ≠ 1 := by rw [ae_iff]; simp
  filter_upwards [h0, h1] with x hx0 hx1
  have hiff : x ∈ Ioo (0 : ℝ) 1 ↔ x ∈ Icc (0 : ℝ) 1 := by
    simp only [mem_Ioo, mem_Icc]
    constructor
    · rintro ⟨a, b⟩; exact ⟨a.le, b.le⟩
    · rintro ⟨a, b⟩; exact ⟨lt_of_le_of_ne a (Ne.symm hx0), lt_of_le_of_ne b hx1⟩
  by_cases hc : x ∈ Icc (0 : ℝ) 1
  · simp [hc, hiff.2 hc]
  · have : x ∉ Ioo (0 : ℝ) 1 := fun h => hc (hiff.1 h)
    simp [hc, this]

theorem rwmSub1Rf_detailed_balance (ℓ : ℝ → ℝ) (L σ β x y : ℝ) :
    ENNReal.ofReal ((Ioo (0 : ℝ) 1).indicator (fun x => exp (β * ℓ x)) x) * rwmSub1Rf ℓ L σ β x y
      = ENNReal.ofReal ((Ioo (0 : ℝ) 1).indicator (fun x => exp (β * ℓ x)) y) * rwmSub1Rf ℓ L σ β y x := by
  unfold rwmSub1Rf q1Rf reflDensity acc1Rf
  by_cases hx : x ∈ Ioo (0 : ℝ) 1 <;> by_cases hy : y ∈ Ioo (0 : ℝ) 1
  · simp only [hx, hy, indicator_of_mem]
    have e1 : exp (β * (ℓ y - ℓ x)) = exp (β * ℓ y) * 1 / (exp (β * ℓ x) * 1) := by
      rw [mul_one, mul_one, ← exp_sub]; congr 1; ring
    have e2 : exp (β * (ℓ x - ℓ y)) = exp (β * ℓ x) * 1 / (exp (β * ℓ y) * 1) := by
      rw [mul_one, mul_one, ← exp_sub]; congr 1; ring
    rw [e1, e2]
    exact mh_flow_symm _ _ 1 1 (exp_pos _) (exp_pos _) one_pos one_pos _ _ (by rw [q1Rf_sum_symm])
  · simp [hx, hy]
  · simp [hx, hy]
  · simp [hx, hy]

/-- **RWM, d = 1, reflective coordinate: the law of the model's step leaves the tempered target invariant** -/
theorem C03_rwm_reflective_step_law_invariant_1d {ℓ : ℝ → ℝ} (hℓ : Measurable ℓ) (m L ic ν σ β : ℝ) (h : σ * L ≠ 0) :
    (target1 ℓ β).bind (rwmLaw1Rf ℓ m L ic ν σ β) = target1 ℓ β := by
  rw [← target1o_eq]
  have hfun : rwmLaw1Rf ℓ m L ic ν σ β = ⇑(mhKernel volume (rwmSub1Rf ℓ L σ β)) :=
    funext fun x => rwmLaw1Rf_eq_mhKernel hℓ m L ic ν σ β h x
  have hk : Measurable (Function.uncurry (rwmSub1Rf ℓ L σ β)) :=
    (measurable_q1Rf L σ).mul (ENNReal.measurable_ofReal.comp (measurable_acc1Rf hℓ β))
  have hp : Measurable fun x => ENNReal.ofReal ((Ioo (0 : ℝ) 1).indicator (fun x => exp (β * ℓ x)) x) :=
    ENNReal.measurable_ofReal.comp ((measurable_exp.comp (measurable_const.mul hℓ)).indicator measurableSet_Ioo)
  rw [hfun]
  exact mhKernel_invariant volume hk
    (moveMass_le_one volume (q := q1Rf L σ) (fun x => lintegral_q1Rf L σ x h) (acc1Rf_le_one ℓ β)) hp
    (rwmSub1Rf_detailed_balance ℓ L σ β)

example : (target1 (fun x => 3 * x) 1).bind (rwmLaw1Rf (fun x => 3 * x) 0 (1 / 5) 25 3 (1 / 2) 1)
    = target1 (fun x => 3 * x) 1 :=
  C03_rwm_reflective_step_law_invariant_1d (by fun_prop) _ _ _ _ _ _ (by norm_num)

end Props.C03
