import TempestVerif.Model.WarmupR
import TempestVerif.Model.Warmup
import TempestVerif.Model.PipelineR
import TempestVerif.Gen.WarmupSrc
import TempestVerif.Props.C11Pipeline
/-
  C11 — the executable warm-up models are built from the expressions that are in the beta == 0 branch of /repo's
  `tempest/steps/mutate.py: Mutator.run` NOW (as of /repo 959029e: prior draw, redraw loop with its cap, replacement of the
  −inf rows, evidence correction).

  `Gen/WarmupSrc.lean` is regenerated from the source on every run of the check (translator G19): the branch test, the loop
  test, the cap test with its literal `1000`, the counter `n_drawn` (initial value, increment), `calls + n_drawn`, the path
  conditions of the `np.random.choice` call, of the stores and of the write of `logz`, the index vectors
  `all_idx[mask]` / `all_idx[~mask]`, the arguments of `np.random.choice` and the value `np.log(n_finite / n_total)`, each
  compiled to a term over `Nat` (counters), `List Bool` (the mask `np.isinf(logl)`), `List Nat` (index vectors) and the
  scalar interface `Sc α` / `ScT α`; plus tables of every side effect in program order with its path condition.

  The theorems `C11_src_*` say that `Model.WarmupR.drawLoop / draw` (the loop), `Model.Warmup.batchZR` (the linear-space
  rule `warmR.Q` executes), `Model.PipelineR.hasFin / warmupL` (what `warmR.rep` executes) and the test that sends
  `Model.PipelineR.iterateL` into the branch ARE those terms — for EVERY scalar type, so also at `Float` and `Rat` (what the
  driver executes) and at `ℝ` (where `Props/C11*.lean` reason).  Where the model and the source agree in value but not in
  form (the model counts finite draws, `nfin < n`, the source tests a mask, `np.any(mask)`; the model's inner test is "there
  is a finite row to copy from", the source's "there is a row to overwrite") the equality is PROVED here from list
  combinatorics alone (section 1: no fact about the scalars is used anywhere in this file); everything else is `rfl`.

  A change of a literal (`1000`, `0.0`, `0`), of a comparison (`>=`, `>`, `==`), of an operator or operand (`n_drawn +=
  self.n_particles`, `calls + n_drawn`, `n_finite / n_total`), of a mask (`~`), of `np.all`/`np.any`, of a path condition or
  of the order / presence of a side effect changes a generated term or table and breaks the theorem named after it.
-/

namespace Props.C11.Src
open Model.WarmupR Model.Warmup Model.Pipeline Model.PipelineR Model.Records Model.Weights Model.Resample Model.Ess
open Gen.WarmupSrc

/-! ### the mask `np.isinf(logl)` of a block of the model, and counting facts about it (lists only, no scalars) -/

/-- `np.isinf(logl)` on the model's representation of a block's log-likelihoods (`none` = −inf) -/
def infMask {α : Type} (l : List (Option α)) : List Bool := l.map Option.isNone

theorem infMask_length {α : Type} (l : List (Option α)) : (infMask l).length = l.length := by simp [infMask]

theorem npAll_infMask {α : Type} (l : List (Option α)) : npAll (infMask l) = !decide (0 < countSome l) := by
  induction l with
  | nil => rfl
  | cons x xs ih =>
    cases x with
    | none => simpa [npAll, infMask, countSome] using ih
    | some v => simp [npAll, infMask, countSome]

theorem npAny_infMask {α : Type} (l : List (Option α)) : npAny (infMask l) = decide (countSome l < l.length) := by
  induction l with
  | nil => rfl
  | cons x xs ih =>
    have hle : countSome xs ≤ xs.length := List.countP_le_length
    cases x with
    | none =>
      simp only [npAny, infMask, countSome, List.map_cons, Option.isNone_none, List.any_cons, id, Bool.true_or,
        List.countP_cons, Option.isSome_none, Bool.false_eq_true, if_false, List.length_cons]
      simp only [countSome] at hle
      exact (decide_eq_true (by omega)).symm
    | some v =>
      simp only [npAny, infMask, countSome, List.map_cons, Option.isNone_some, List.any_cons, id, Bool.false_or,
        List.countP_cons, Option.isSome_some, if_true, List.length_cons] at ih ⊢
      rw [ih]
      exact decide_eq_decide.mpr (by omega)


theorem map_getD_range (m : List Bool) : (List.range m.length).map (fun i => (m[i]?).getD false) = m := by
  apply List.ext_getElem
  · simp
  · intro i h1 h2
    simp at h1
    simp [h1]

/-- `len(np.arange(len(mask))[mask]) = np.sum(mask)` -/
theorem whereIdx_length (m : List Bool) : (whereIdx m.length m).length = m.count true := by
  unfold whereIdx
  rw [← List.countP_eq_length_filter]
  conv_rhs => rw [← map_getD_range m]
  rw [List.count, List.countP_map]
  apply List.countP_congr
  intro i _
  simp

/-- `all_idx[np.isinf(logl)]` is the index list `Model.Pipeline.warmup` scatters to (`Props.C11.infIdx`) -/
theorem whereIdx_infMask {α : Type} (l : List (Option α)) : whereIdx l.length (infMask l) = Props.C11.infIdx l := by
  unfold whereIdx infMask Props.C11.infIdx
  apply List.filter_congr
  intro i hi
  have hi' : i < l.length := List.mem_range.mp hi
  simp [hi']

/-- `len(all_idx[~np.isinf(logl)])` is the model's count of finite draws -/
theorem count_finite {α : Type} (l : List (Option α)) :
    (whereIdx l.length (maskNot (infMask l))).length = countSome l := by
  have := whereIdx_length (maskNot (infMask l))
  simp only [maskNot, infMask, List.length_map] at this
  simp only [maskNot, infMask]
  rw [this, List.count, List.countP_map, List.countP_map, countSome]
  apply List.countP_congr
  intro x _
  cases x <;> simp

/-- `finite_idx = all_idx[~np.isinf(logl)]`: exactly the positions holding a finite draw -/
theorem mem_finite {α : Type} (l : List (Option α)) (p : Nat) :
    p ∈ whereIdx l.length (maskNot (infMask l)) ↔ ∃ v, l[p]? = some (some v) := by
  unfold whereIdx maskNot infMask
  simp only [List.mem_filter, List.mem_range]
  constructor
  · rintro ⟨hp, h⟩
    simp [hp] at h
    cases hv : l[p] with
    | none => simp [hv] at h
    | some v => exact ⟨v, by simp [hp, hv]⟩
  · rintro ⟨v, hv⟩
    obtain ⟨hp, hv'⟩ := List.getElem?_eq_some_iff.mp hv
    exact ⟨hp, by simp [hp, hv']⟩

theorem count_not_lt_iff (m : List Bool) : List.count true (m.map (!·)) < m.length ↔ m.any id = true := by
  induction m with
  | nil => simp
  | cons b bs ih =>
    have hle : List.count true (List.map (fun x => !x) bs) ≤ bs.length := by
      simpa using List.count_le_length (a := true) (l := List.map (fun x => !x) bs)
    cases b
    · simp only [List.map_cons, Bool.not_false, List.count_cons_self, List.length_cons, Nat.add_lt_add_iff_right,
        List.any_cons, id, Bool.false_or]
      exact ih
    · simp only [List.map_cons, Bool.not_true, List.length_cons, List.any_cons, id, Bool.true_or, iff_true]
      rw [List.count_cons_of_ne (by simp)]
      omega

theorem count_add_count_not (m : List Bool) : m.count true + (m.map (!·)).count true = m.length := by
  induction m with
  | nil => rfl
  | cons b bs ih => cases b <;> simp <;> omega

/-- `len(all_idx[~mask]) < len(mask)` iff `np.any(mask)` -/
theorem finite_lt_iff (m : List Bool) : (whereIdx m.length (maskNot m)).length < m.length ↔ npAny m = true := by
  have h := whereIdx_length (maskNot m)
  simp only [maskNot, List.length_map] at h
  simp only [maskNot, h, npAny]
  exact count_not_lt_iff m

/-! ### the model, written over the generated terms -/
variable {α : Type}

/-- `if beta == 0.0:` — the test that sends `Model.PipelineR.iterateL` into the warm-up branch -/
theorem C11_src_betaTest [Sc α] (b : α) : Model.Reweight.eqv b Sc.zero = betaTest b := rfl

/-- `if n_drawn >= 1000 * self.n_particles: raise`: the literal `Model.WarmupR.capFactor`, the comparison and its operands -/
theorem C11_src_capFactor (n d nd : Nat) (inf : List Bool) : capTest n d nd inf = decide (capFactor * n ≤ nd) := rfl

/-- the loop when no further block is on the tape -/
theorem C11_src_drawLoop_nil {β : Type} (hasFin : β → Bool) (n : Nat) (cur : β) (nd : Nat) :
    drawLoop hasFin n [] cur nd = if hasFin cur then some (cur, nd) else none := rfl

/-- one pass of the loop: the cap test (BEFORE the next draw) and the accumulation `n_drawn += self.n_particles` -/
theorem C11_src_drawLoop_cons {β : Type} (hasFin : β → Bool) (n d : Nat) (inf : List Bool) (b : β) (rest : List β) (cur : β)
    (nd : Nat) :
    drawLoop hasFin n (b :: rest) cur nd =
      if hasFin cur then some (cur, nd)
      else if capTest n d nd inf then none
      else drawLoop hasFin n rest b (nDrawnNext n d nd inf) := by
  simp only [drawLoop, capTest, nDrawnNext, capFactor, decide_eq_true_eq, ge_iff_le]
  rfl

/-- `n_drawn = self.n_particles` before the loop -/
theorem C11_src_draw {β : Type} (hasFin : β → Bool) (n d : Nat) (cur : β) (pending : List β) :
    draw hasFin n cur pending = drawLoop hasFin n pending cur (nDrawnInit n d) := rfl

/-- `while np.all(np.isinf(logl))`: the pipeline model's "the block has a finite draw" is the negation of the loop test -/
theorem C11_src_hasFin (n d nd : Nat) (b : Block α) : hasFin b = !(whileTest n d nd (infMask b.2)) := by
  simp [hasFin, whileTest, npAll_infMask]

/-- the loop of the pipeline model in the source's shape: `while <test>: if <cap>: raise; <next block>; n_drawn += n` -/
theorem C11_src_drawLoop_blocks (n d : Nat) (b : Block α) (rest : List (Block α)) (cur : Block α) (nd : Nat) :
    drawLoop hasFin n (b :: rest) cur nd =
      if whileTest n d nd (infMask cur.2) then
        (if capTest n d nd (infMask cur.2) then none else drawLoop hasFin n rest b (nDrawnNext n d nd (infMask cur.2)))
      else some (cur, nd) := by
  rw [C11_src_drawLoop_cons hasFin n d (infMask cur.2), C11_src_hasFin n d nd cur]
  cases whileTest n d nd (infMask cur.2) <;> rfl

/-- both `np.random.rand` calls draw one `(n_particles, n_dim)` block, and both blocks are made the same way -/
theorem C11_src_blocks (n d : Nat) :
    firstDrawShape n d = [n, d] ∧ nextDrawShape n d = [n, d] ∧ nextBlock = firstBlock := ⟨rfl, rfl, rfl⟩

/-- `calls = self.state.get_current("calls") + n_drawn` -/
theorem C11_src_calls (n d nd rows calls : Nat) (inf : List Bool) : callsAfter n d nd rows calls inf = calls + nd := rfl

/-- the linear-space rule `Model.Warmup.batchZR` on a block of `n` draws with mask `inf`:
    `if np.any(mask) or n_drawn > n: Z := n_finite / n_total` with `n_finite = len(all_idx[~mask])`, `n_total = n_drawn` -/
theorem C11_src_batchZR [Sc α] (h : List (Nat × α)) (d nd calls : Nat) (inf : List Bool) :
    batchZR h inf.length (choicePool inf.length d nd inf.length calls inf).length nd =
      if logzCond inf.length d nd inf.length calls inf then logzArg inf.length d nd inf.length calls inf
      else reweightZ h := by
  have h1 := finite_lt_iff inf
  unfold batchZR choicePool logzCond logzArg
  by_cases ha : npAny inf = true
  · have : (whereIdx inf.length (maskNot inf)).length < inf.length := h1.mpr ha
    simp [ha, this]
  · have h2 : ¬ (whereIdx inf.length (maskNot inf)).length < inf.length := fun hh => ha (h1.mp hh)
    have ha' : npAny inf = false := by simpa using ha
    by_cases hn : inf.length < nd
    · simp [ha', hn]
    · simp [ha', hn, h2]

/-- `logz = np.log(n_finite / n_total)`: the logarithm is applied to exactly the linear-space value -/
theorem C11_src_logzSet [ScT α] (n d nd rows calls : Nat) (inf : List Bool) (z : α) :
    logzSet n d nd rows calls inf z = ScT.log (logzArg n d nd rows calls inf) := rfl

/-- what `np.random.choice(finite_idx, size=len(infinite_idx), replace=True)` is asked for is what the hypothesis
    `Props.C11.PicksOk` of the pipeline theorems grants: as many picks as −inf rows, each a position of a finite draw -/
theorem C11_src_picksOk (n d nd calls : Nat) (l : List (Option α)) (picks : List Nat) :
    Props.C11.PicksOk l picks ↔
      (picks.length = choiceSize n d nd l.length calls (infMask l) ∧
       ∀ p ∈ picks, p ∈ choicePool n d nd l.length calls (infMask l)) := by
  unfold Props.C11.PicksOk choiceSize choicePool
  have hl : l.length = (infMask l).length := (infMask_length l).symm
  rw [whereIdx_infMask]
  constructor
  · rintro ⟨h1, h2⟩
    exact ⟨h1, fun p hp => (mem_finite l p).mpr (h2 p hp)⟩
  · rintro ⟨h1, h2⟩
    exact ⟨h1, fun p hp => (mem_finite l p).mp (h2 p hp)⟩

theorem C11_src_choiceArgs : choiceArgs = ["a=finite_idx", "size=len(infinite_idx)", "replace=True", "p=None"] := rfl

/-- the rows overwritten are `infinite_idx`, under the same condition as the `np.random.choice` call, from the picked rows -/
theorem C11_src_scatter (n d nd rows calls : Nat) (inf : List Bool) :
    scatterCond n d nd rows calls inf = choiceCond n d nd rows calls inf ∧
    (scatterIdx n d nd rows calls inf).length = choiceSize n d nd rows calls inf ∧
    scatterSource = ["logl[picks]"] := ⟨rfl, rfl, rfl⟩

theorem drawLoop_hasFin {β : Type} (hf : β → Bool) (n : Nat) : ∀ (pending : List β) (cur : β) (nd : Nat) (r : β × Nat),
    drawLoop hf n pending cur nd = some r → hf r.1 = true := by
  intro pending
  induction pending with
  | nil =>
    intro cur nd r h
    simp only [drawLoop] at h
    split at h
    · rename_i hc; cases h; exact hc
    · cases h
  | cons b rest ih =>
    intro cur nd r h
    simp only [drawLoop] at h
    split at h
    · rename_i hc; cases h; exact hc
    · split at h
      · cases h
      · exact ih b _ r h

/-- `Model.PipelineR.warmupL` (what `warmR.rep` executes) in the source's shape: the redraw loop, then — on the KEPT block —
    `if np.any(mask) or n_drawn > n:`  [`if len(infinite_idx) > 0:` rows `infinite_idx` of u/x/logl overwritten by the picked
    rows]  `logz := np.log(len(finite_idx) / n_drawn)`; else everything is left as drawn and `logz` stays the reweighting
    step's.  (The model's inner test is "there is a finite row to copy from", the source's "there is a row to overwrite":
    they agree on every block the loop can return.) -/
theorem C11_src_warmupL [ScT α] (n d calls : Nat) (rt : RTape α) (logzRw : α) :
    warmupL n rt logzRw =
      (draw hasFin n (rt.t.drawTags, rt.t.drawL) rt.pending).map fun (kept, nd) =>
        let inf := infMask kept.2
        let rows := kept.2.length
        let pick := choiceCond n d nd rows calls inf
        let tgt := scatterIdx n d nd rows calls inf
        ((if pick then scatterFrom kept.1 tgt rt.t.picks else kept.1),
         (if pick then scatterFrom kept.2 tgt rt.t.picks else kept.2),
         (if logzCond n d nd rows calls inf then logzSet n d nd rows calls inf logzRw else logzRw),
         nd) := by
  unfold warmupL
  cases hd : draw hasFin n (rt.t.drawTags, rt.t.drawL) rt.pending with
  | none => rfl
  | some r =>
    obtain ⟨kept, nd⟩ := r
    have hfin : hasFin kept = true := drawLoop_hasFin hasFin n _ _ _ _ hd
    have hpos : 0 < countSome kept.2 := by simpa [hasFin] using hfin
    simp only [Option.map_some]
    have hany := npAny_infMask kept.2
    have hcnt := count_finite kept.2
    have hidx := whereIdx_infMask kept.2
    have hidxlen : (Props.C11.infIdx kept.2).length + countSome kept.2 = kept.2.length := by
      have h1 := whereIdx_length (infMask kept.2)
      rw [infMask_length, hidx] at h1
      have h2 := whereIdx_length (maskNot (infMask kept.2))
      simp only [maskNot, List.length_map] at h2
      rw [infMask_length] at h2
      have h3 := hcnt
      simp only [maskNot] at h3
      rw [h3] at h2
      have h4 := count_add_count_not (infMask kept.2)
      rw [infMask_length] at h4
      omega
    have hpick : choiceCond n d nd kept.2.length calls (infMask kept.2) = decide (countSome kept.2 < kept.2.length) := by
      unfold choiceCond
      rw [hany, hidx]
      by_cases hc : countSome kept.2 < kept.2.length
      · have : (Props.C11.infIdx kept.2).length > 0 := by omega
        simp [hc, this]
      · have : ¬ (Props.C11.infIdx kept.2).length > 0 := by omega
        simp [hc, this]
    have hlz : logzCond n d nd kept.2.length calls (infMask kept.2) = decide (countSome kept.2 < kept.2.length ∨ n < nd) := by
      unfold logzCond
      rw [hany]
      by_cases hc : countSome kept.2 < kept.2.length <;> by_cases hn : n < nd <;> simp [hc, hn]
    simp only [hpick, hlz, scatterIdx, hidx, logzSet, hcnt, Props.C11.warmup_tags, Props.C11.warmup_ls, hpos, and_true,
      decide_eq_true_eq]


/-- one iteration of the pipeline model: WHICH iterations take the warm-up branch is decided by the source's test on the beta
    the reweighting step has just written, the block size handed to the loop is `n_particles`, and what the iteration reports
    as drawn (`calls` grows by it, `C11_src_calls`) is the loop's `n_drawn` -/
theorem C11_src_iterateL [ScT α] (c : PCfg α) (s : PState α) (rt : RTape α) :
    iterateL c s rt =
      (let hb := batches s.hist
       let r := Model.Reweight.run c.rw hb.isEmpty (oracleM hb) (oracleZ hb) isFin s.beta
       let w := returnedWeights r.weightsTag
       if betaTest r.beta then
         (warmupL c.rw.nPart rt r.logz).bind fun (tags, ls, lz, nd) =>
           (allSome ls).map fun l =>
             ({ hist := s.hist ++ [⟨⟨r.beta, lz, l⟩, tags⟩], beta := r.beta, logz := lz, curTags := tags, curL := l },
              ⟨⟨r.beta, r.ess, r.logz, lz, [], [], r.branch⟩, nd⟩)
       else
         let idx? := if c.syst then
             (match rt.t.resU with | [u0] => systematic c.rw.nPart w u0 | _ => none)
           else multinomial w rt.t.resU
         idx?.bind fun idx =>
           (gather? (poolTags s.hist) idx).bind fun tg =>
             (gather? (flatLogl hb) idx).map fun l =>
               let (tg', l', ms) := mcmcSteps r.beta rt.t.steps tg l
               ({ hist := s.hist ++ [⟨⟨r.beta, r.logz, l'⟩, tg'⟩], beta := r.beta, logz := r.logz, curTags := tg', curL := l' },
                ⟨⟨r.beta, r.ess, r.logz, r.logz, idx, ms, r.branch⟩, 0⟩)) := rfl

/-! ### the side effects the model was written against

  Every random draw, likelihood call, `raise`, in-place store and state write of the branch in program order, each with its
  path condition (`Ck := <test>` first; `[C0 !C1]` = under C0 and not C1).  Names are canonical (roles of a block: `u`, `x`,
  `logl`, `blobs`; `n` = `self.n_particles`, `d` = `self.n_dim`; `infinite_idx`/`finite_idx` = `np.arange(len(x))[mask]` /
  `[~mask]`; `picks` = what `np.random.choice` returned), so the tables do not depend on the local names, on temporaries, on
  helper methods or on `if c: return` versus a nested `if`.  What the model takes from them: a block is ONE
  `np.random.rand(n, d)`, the prior transform of each of its rows and ONE likelihood call on all of them
  (`Model.PipelineR.Block`); inside the loop the cap is tested BEFORE the next block is drawn; the kept block is written to the
  state with `calls + n_drawn`; `np.random.choice` is the only other random call and happens under C0 ∧ C1; whole records
  (x, u, logl and — when blobs are handled — blobs) are overwritten at the same rows from the same picks
  (`scatterFrom … infIdx picks` on tags and log-likelihoods alike); `logz` is written under C0 alone, after the replacement. -/

def expected_firstBlock : List String :=
  ["u = np.random.rand(n, d)",
   "x = np.array(rowmap(prior_transform(row), u, n))",
   "logl = log_likelihood(x)[0]",
   "blobs = log_likelihood(x)[1]"]

theorem C11_src_firstBlock : firstBlock = expected_firstBlock := rfl

def expected_preLoop : List String :=
  ["u = np.random.rand(n, d)",
   "call log_likelihood(x)"]

theorem C11_src_preLoop : preLoop = expected_preLoop := rfl

def expected_loopBody : List String :=
  ["C0 := n_drawn >= 1000 * n",
   "[C0] raise ValueError",
   "[!C0] u = np.random.rand(n, d)",
   "[!C0] call log_likelihood(x)"]

theorem C11_src_loopBody : loopBody = expected_loopBody ∧ capRaises = ["ValueError"] := ⟨rfl, rfl⟩

def expected_postLoop : List String :=
  ["C0 := np.any(np.isinf(logl)) or n_drawn > n",
   "C1 := len(infinite_idx) > 0",
   "C2 := have_blobs",
   "current['u'] := u",
   "current['x'] := x",
   "current['logl'] := logl",
   "current['blobs'] := blobs",
   "current['assignments'] := np.zeros(n, dtype=int)",
   "current['calls'] := state.get_current('calls') + n_drawn",
   "current['steps'] := 1",
   "current['acceptance'] := 1.0",
   "current['efficiency'] := 1.0",
   "[C0 C1] picks = np.random.choice(a=finite_idx, size=len(infinite_idx), replace=True, p=None)",
   "[C0 C1] x[infinite_idx] := x[picks]",
   "[C0 C1] u[infinite_idx] := u[picks]",
   "[C0 C1] logl[infinite_idx] := logl[picks]",
   "[C0 C1 C2] blobs[infinite_idx] := blobs[picks]",
   "[C0 C1] current['x'] := x",
   "[C0 C1] current['u'] := u",
   "[C0 C1] current['logl'] := logl",
   "[C0 C1 C2] current['blobs'] := blobs",
   "[C0] current['logz'] := np.log(len(finite_idx) / n_drawn)"]

theorem C11_src_postLoop : postLoop = expected_postLoop := rfl

/-- the branch ends the call: nothing of the MCMC path runs at beta = 0 -/
theorem C11_src_exit : warmupExit = ["return"] := rfl

/-! ### the theorems are about what runs: the generated terms evaluate (at `Float`, the driver's type) -/

example : (warmupL 2 (⟨⟨[0, 1], [none, none], [0], [], []⟩, [([2, 3], [some (1.0 : Float), none])]⟩ : RTape Float) 0.0).map
    (fun r => (r.1, r.2.2.2)) = some ([2, 2], 4) := by
  rw [C11_src_warmupL 2 1 0]
  decide

example : logzCond 2 1 2 2 0 [false, false] = false ∧ logzCond 2 1 4 2 0 [false, false] = true ∧
    choiceCond 2 1 4 2 0 [false, false] = false ∧ choiceCond 2 1 2 2 0 [true, false] = true ∧
    choicePool 2 1 2 2 0 [true, false] = [1] ∧ scatterIdx 2 1 2 2 0 [true, false] = [0] := by decide

end Props.C11.Src
