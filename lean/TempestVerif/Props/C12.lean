import TempestVerif.Model.Run
import TempestVerif.Model.Posterior
import TempestVerif.Gen.Tables
import TempestVerif.Gen.Constants
import TempestVerif.Lemmas.ScReal
import TempestVerif.Props.C07
import TempestVerif.Props.C06
import TempestVerif.Props.C20
import Mathlib.Tactic
/-
  C12 — run() postconditions and the posterior()/evidence() contract.
  Termination of run() is NOT claimed (liveness); `loop` returns `none` when the fuel runs out.
-/
namespace Props.C12
open Model.Run Model.Posterior Model.Records

/-! ### run(): what holds when it returns -/

theorem loop_post {S : Type} (cont : S → Bool) (iter : S → S) (n : Nat) (s s' : S)
    (h : loop cont iter n s = some s') : cont s' = false := by
  induction n generalizing s with
  | zero =>
    simp only [loop] at h
    split at h
    · cases h
    · rename_i hc; injection h with h; subst h; simpa using hc
  | succ n ih =>
    simp only [loop] at h
    split at h
    · exact ih _ h
    · rename_i hc; injection h with h; subst h; simpa using hc

/-- the state returned by the loop is an iterate of the initial state (nothing else touches it) -/
theorem loop_is_iterate {S : Type} (cont : S → Bool) (iter : S → S) (n : Nat) (s s' : S)
    (h : loop cont iter n s = some s') : ∃ k, k ≤ n ∧ s' = iter^[k] s := by
  induction n generalizing s with
  | zero =>
    simp only [loop] at h
    split at h
    · cases h
    · injection h with h; exact ⟨0, le_refl _, by simp [h]⟩
  | succ n ih =>
    simp only [loop] at h
    split at h
    · obtain ⟨k, hk, e⟩ := ih _ h
      exact ⟨k + 1, by omega, by simp [e, Function.iterate_succ_apply]⟩
    · injection h with h; exact ⟨0, by omega, by simp [h]⟩

/-- the guard over ℝ -/
theorem notTerm_false_iff (tol beta ess nTotal : ℝ) :
    notTerm tol beta ess nTotal = false ↔ 1 - beta < tol ∧ nTotal ≤ ess := by
  simp [notTerm, Bool.or_eq_false_iff]

/-- the exit tolerance regenerated from `_not_termination` is the double nearest to 1e-4 -/
theorem C12_term_tol :
    Gen.Constants.TERM_BETA_TOLNum = 7378697629483821 ∧ Gen.Constants.TERM_BETA_TOLDen = 73786976294838206464 := by
  decide

/-- the generated tolerance as a real number -/
noncomputable def termTol : ℝ := (Gen.Constants.TERM_BETA_TOLNum : ℝ) / (Gen.Constants.TERM_BETA_TOLDen : ℝ)

theorem termTol_le : termTol ≤ 1.0001e-4 := by
  unfold termTol
  rw [C12_term_tol.1, C12_term_tol.2]
  norm_num

/-- structure of run_sampling regenerated from source: the loop body is one `execute_iteration`,
    the guard compares `ess < n_total`, and the evidence is recomputed at beta = 1 right after the loop -/
theorem C12_run_structure :
    Gen.Constants.RUN_LOOP_BODY = "execute_iteration" ∧ Gen.Constants.TERM_ESS_CMP = "lt_n_total" ∧
    Gen.Constants.RUN_EPILOGUE_Z1 = 1 := by decide

/-- regenerated from `_not_termination`: the ESS of the loop guard is computed from `compute_logw_and_logz(1.0)`, i.e. from the
    posterior (beta = 1) weights over the whole history, with the temperature passed explicitly -/
theorem C12_gen_guard_weights_at_one : Gen.Constants.GUARD_WEIGHTS_AT_ONE = 1 := by decide


/-- C12 (run): if `run` returns, then 1 − β < 1.0001e-4 (the double 1e-4), the ESS of the posterior
    weights over the whole history is at least `n_total`, and the stored evidence is the
    mixture-importance-sampling evidence at β = 1 recomputed from the final history. -/
theorem C12_run_post {S : Type} (beta ess : S → ℝ) (nTotal : ℝ) (iter : S → S)
    (z1 : S → ℝ) (setLogz : S → ℝ → S) (getLogz : S → ℝ)
    (hget : ∀ s v, getLogz (setLogz s v) = v)
    (hbeta : ∀ s v, beta (setLogz s v) = beta s) (hess : ∀ s v, ess (setLogz s v) = ess s)
    (hz : ∀ s v, z1 (setLogz s v) = z1 s)
    (fuel : Nat) (s0 sf : S)
    (h : runSampling (fun s => notTerm termTol (beta s) (ess s) nTotal) iter z1 setLogz fuel s0 = some sf) :
    1 - beta sf < 1.0001e-4 ∧ nTotal ≤ ess sf ∧ getLogz sf = z1 sf := by
  simp only [runSampling, Option.map_eq_some_iff] at h
  obtain ⟨s', hl, rfl⟩ := h
  have hp := loop_post _ _ _ _ _ hl
  rw [notTerm_false_iff] at hp
  refine ⟨?_, ?_, ?_⟩
  · rw [hbeta]; exact lt_of_lt_of_le hp.1 termTol_le
  · rw [hess]; exact hp.2
  · rw [hget, hz]

/-! ### posterior(): equal lengths, row alignment, weights -/

def AllPost (fields : List String) : Prop :=
  fields.contains "x" = true ∧ fields.contains "logl" = true ∧ fields.contains "blobs" = true ∧
  fields.contains "logw" = true

variable {X L B W α : Type}

/-- row `k` of `r` is, in all four particle arrays, row `i` of `a` -/
def RowOf (r : Arrs X L B W α) (k : Nat) (a : Arrs X L B W α) (i : Nat) : Prop :=
  r.x[k]? = a.x[i]? ∧ r.l[k]? = a.l[i]? ∧ r.b[k]? = a.b[i]? ∧ r.lw[k]? = a.lw[i]?

def SameLen (a : Arrs X L B W α) (n : Nat) : Prop :=
  a.x.length = n ∧ a.l.length = n ∧ a.b.length = n ∧ a.lw.length = n ∧ a.w.length = n

theorem gatherArrs_rows {fields : List String} (hf : AllPost fields) {idx : List Nat}
    {a r : Arrs X L B W α} (h : gatherArrs fields idx a = some r) :
    r.x.length = idx.length ∧ r.l.length = idx.length ∧ r.b.length = idx.length ∧
    r.lw.length = idx.length ∧ r.w = a.w ∧ ∀ k i, idx[k]? = some i → RowOf r k a i := by
  obtain ⟨h1, h2, h3, h4⟩ := hf
  simp only [gatherArrs, h1, h2, h3, h4, if_true] at h
  split at h
  · rename_i x l b lw hx hl hb hlw
    injection h with h; subst h
    refine ⟨Props.C07.gather?_length hx, Props.C07.gather?_length hl, Props.C07.gather?_length hb,
      Props.C07.gather?_length hlw, rfl, ?_⟩
    intro k i hk
    exact ⟨Props.C07.gather?_get hx k i hk, Props.C07.gather?_get hl k i hk,
      Props.C07.gather?_get hb k i hk, Props.C07.gather?_get hlw k i hk⟩
  · cases h

/-- C12 (posterior): for EVERY combination of `resample` / `trim_importance_weights` and every
    trimming and resampling routine that returns as many weights as indices, all arrays have one length
    and every output row is — in x, logl, blobs and logw alike — one and the same particle of the
    stored history. -/
theorem C12_posterior_aligned {trimFields resFields : List String}
    (ht : AllPost trimFields) (hr : AllPost resFields)
    (trimFn : List α → List Nat × List α) (resFn : List α → List Nat) (uniform : Nat → List α)
    (htrim : ∀ w, (trimFn w).2.length = (trimFn w).1.length)
    (hunif : ∀ n, (uniform n).length = n)
    (o : Opts) {a r : Arrs X L B W α} {n : Nat} (ha : SameLen a n)
    (h : body trimFields resFields trimFn resFn uniform o a = some r) :
    (∃ m, SameLen r m) ∧ ∀ k, k < r.x.length → ∃ i, RowOf r k a i := by
  unfold body at h
  simp only [Option.bind_eq_some_iff] at h
  obtain ⟨a1, h1, h2⟩ := h
  -- first stage
  have st1 : (∃ m, SameLen a1 m) ∧ ∀ k, k < a1.x.length → ∃ i, RowOf a1 k a i := by
    by_cases hto : o.trim = true
    · simp only [hto, if_true, Option.map_eq_some_iff] at h1
      obtain ⟨a', hg, rfl⟩ := h1
      obtain ⟨lx, ll, lb, llw, _, rows⟩ := gatherArrs_rows ht hg
      refine ⟨⟨(trimFn a.w).1.length, lx, ll, lb, llw, htrim a.w⟩, ?_⟩
      intro k hk
      have hk' : k < (trimFn a.w).1.length := by simpa [lx] using hk
      exact ⟨_, rows k _ (List.getElem?_eq_getElem hk')⟩
    · simp only [hto, Bool.false_eq_true, if_false, Option.some.injEq] at h1
      subst h1
      exact ⟨⟨n, ha⟩, fun k _ => ⟨k, rfl, rfl, rfl, rfl⟩⟩
  by_cases hro : o.resample = true
  · simp only [hro, if_true, Option.map_eq_some_iff] at h2
    obtain ⟨a', hg, rfl⟩ := h2
    obtain ⟨lx, ll, lb, llw, _, rows⟩ := gatherArrs_rows hr hg
    refine ⟨⟨(resFn a1.w).length, lx, ll, lb, llw, hunif _⟩, ?_⟩
    intro k hk
    have hk' : k < (resFn a1.w).length := by simpa [lx] using hk
    obtain ⟨r1, r2, r3, r4⟩ := rows k _ (List.getElem?_eq_getElem hk')
    -- compose with the first stage
    by_cases hj : (resFn a1.w)[k] < a1.x.length
    · obtain ⟨i, q1, q2, q3, q4⟩ := st1.2 _ hj
      exact ⟨i, r1.trans q1, r2.trans q2, r3.trans q3, r4.trans q4⟩
    · -- an out-of-range index cannot have produced a row
      exfalso
      have : a'.x[k]? = none := by rw [r1]; exact List.getElem?_eq_none (by omega)
      rw [List.getElem?_eq_getElem (by simpa using hk)] at this
      cases this
  · simp only [hro, Bool.false_eq_true, if_false, Option.some.injEq] at h2
    subst h2
    exact st1

/-- with resampling the weights are uniform -/
theorem C12_posterior_resample_uniform {trimFields resFields : List String}
    (trimFn : List α → List Nat × List α) (resFn : List α → List Nat) (uniform : Nat → List α)
    (o : Opts) (ho : o.resample = true) {a r : Arrs X L B W α}
    (h : body trimFields resFields trimFn resFn uniform o a = some r) :
    ∃ n, r.w = uniform n := by
  unfold body at h
  simp only [Option.bind_eq_some_iff] at h
  obtain ⟨a1, _, h2⟩ := h
  simp only [ho, if_true, Option.map_eq_some_iff] at h2
  obtain ⟨a', _, rfl⟩ := h2
  exact ⟨_, rfl⟩

/-- `np.ones(n) / n` sums to one and is non-negative -/
theorem uniform_sum_one (n : Nat) (hn : 0 < n) : (List.replicate n (1 / (n : ℝ))).sum = 1 := by
  rw [List.sum_replicate]; simp; field_simp

/-- `weights /= np.sum(weights)`: non-negative and sums to one whenever the sum is positive -/
theorem C12_weights_normalised (w : List ℝ) (hw : ∀ x ∈ w, 0 ≤ x) (hs : 0 < w.sum) :
    (w.map (· / w.sum)).sum = 1 ∧ ∀ x ∈ w.map (· / w.sum), 0 ≤ x := by
  constructor
  · have : (w.map (· / w.sum)).sum = w.sum / w.sum := by
      induction w with
      | nil => simp
      | cons a t ih =>
        have e : ∀ (c : ℝ) (l : List ℝ), (l.map (· / c)).sum = l.sum / c := by
          intro c l; induction l with
          | nil => simp
          | cons b l ihl => simp [ihl, add_div]
        exact e _ _
    rw [this, div_self hs.ne']
  · intro x hx
    simp only [List.mem_map] at hx
    obtain ⟨y, hy, rfl⟩ := hx
    exact div_nonneg (hw y hy) hs.le

/-! ### obligations on the tables regenerated from compute_posterior -/

/-- both branches gather x, logl, blobs AND logw with their index vector -/
theorem C12_gather_tables_complete :
    AllPost Gen.Tables.posteriorTrimGather ∧ AllPost Gen.Tables.posteriorResampleGather := by
  refine ⟨⟨?_, ?_, ?_, ?_⟩, ⟨?_, ?_, ?_, ?_⟩⟩ <;> decide

/-- the four return tuples are exactly the model's, and every returned particle array is gathered in both branches -/
theorem C12_return_tuples :
    Gen.Tables.posteriorReturns =
      [returnNames true ⟨false, false, true, true⟩, returnNames true ⟨false, false, true, false⟩,
       returnNames true ⟨false, false, false, true⟩, returnNames true ⟨false, false, false, false⟩] ∧
    ∀ t ∈ Gen.Tables.posteriorReturns, ∀ name ∈ t, name = "weights" ∨
      (name ∈ Gen.Tables.posteriorTrimGather ∧ name ∈ Gen.Tables.posteriorResampleGather) := by
  decide

/-- the aligned-rows theorem instantiated with the generated tables -/
theorem C12_posterior_aligned_gen
    (trimFn : List α → List Nat × List α) (resFn : List α → List Nat) (uniform : Nat → List α)
    (htrim : ∀ w, (trimFn w).2.length = (trimFn w).1.length) (hunif : ∀ n, (uniform n).length = n)
    (o : Opts) {a r : Arrs X L B W α} {n : Nat} (ha : SameLen a n)
    (h : body Gen.Tables.posteriorTrimGather Gen.Tables.posteriorResampleGather trimFn resFn uniform o a = some r) :
    (∃ m, SameLen r m) ∧ ∀ k, k < r.x.length → ∃ i, RowOf r k a i :=
  C12_posterior_aligned C12_gather_tables_complete.1 C12_gather_tables_complete.2 trimFn resFn uniform htrim hunif o ha h


/-! ### run(): the guard with the ESS computed from the stored history, on a concrete state -/

/-- for a `β` that a double in `[1/2, 2]` can hold (an integer multiple of 2^-53) — or any `β < 1/2` — the exit test
    against the double nearest to 1e-4 decides exactly `1 − β < 1e-4`: no multiple of 2^-53 lies between the two -/
theorem C12_tol_exact_for_doubles (beta : ℝ) (h : beta < 1 / 2 ∨ ∃ m : ℤ, beta = (m : ℝ) / 2 ^ 53) :
    1 - beta < termTol ↔ 1 - beta < 1e-4 := by
  rcases h with h | ⟨m, rfl⟩
  · have := termTol_le
    constructor <;> intro h' <;> exfalso <;> linarith
  · unfold termTol
    rw [C12_term_tol.1, C12_term_tol.2]
    have e : (1 : ℝ) - (m : ℝ) / 2 ^ 53 = ((2 ^ 53 - m : ℤ) : ℝ) / 2 ^ 53 := by
      push_cast; rw [sub_div]; norm_num
    rw [e]
    generalize (2 ^ 53 - m : ℤ) = k
    have h1 : ((k : ℝ) / 2 ^ 53 < ((7378697629483821 : ℤ) : ℝ) / ((73786976294838206464 : ℕ) : ℝ)) ↔ k * 8192 < 7378697629483821 := by
      rw [div_lt_div_iff₀ (by positivity) (by positivity)]
      have : ((73786976294838206464 : ℕ) : ℝ) = 8192 * 2 ^ 53 := by norm_num
      rw [this, ← mul_assoc, mul_lt_mul_iff_of_pos_right (by positivity)]
      exact_mod_cast Iff.rfl
    have h2 : ((k : ℝ) / 2 ^ 53 < 1e-4) ↔ k * 10000 < 9007199254740992 := by
      rw [div_lt_iff₀ (by positivity)]
      have : (1e-4 : ℝ) * 2 ^ 53 = 9007199254740992 / 10000 := by norm_num
      rw [this, lt_div_iff₀ (by positivity)]
      exact_mod_cast Iff.rfl
    rw [h1, h2]
    omega

/-- positivity facts of `exp(logw − max)` -/
theorem expShift_pos (x : ℝ) (xs : List ℝ) :
    (∀ y ∈ expShift x xs, 0 < y) ∧ 0 < (expShift x xs).sum ∧ (expShift x xs).length = xs.length + 1 := by
  have hp : ∀ y ∈ expShift x xs, 0 < y := by
    intro y hy
    simp only [expShift, List.mem_map] at hy
    obtain ⟨l, _, rfl⟩ := hy
    exact Real.exp_pos _
  refine ⟨hp, ?_, by simp [expShift]⟩
  have h0 : expShift x xs = Real.exp (x - Model.Ess.maxOf x xs) :: xs.map (fun l => Real.exp (l - Model.Ess.maxOf x xs)) := by
    simp [expShift]
  rw [h0, List.sum_cons]
  have : 0 ≤ (xs.map (fun l => Real.exp (l - Model.Ess.maxOf x xs))).sum :=
    List.sum_nonneg (fun y hy => by
      obtain ⟨l, _, rfl⟩ := List.mem_map.mp hy; exact (Real.exp_pos _).le)
  have := Real.exp_pos (x - Model.Ess.maxOf x xs)
  linarith

/-- the untrimmed posterior weights: defined for a non-empty history, one per stored particle, non-negative, summing to one -/
theorem weights0_facts (logw : List ℝ) (hne : logw ≠ []) :
    ∃ w0, weights0 logw = some w0 ∧ w0.length = logw.length ∧ (∀ y ∈ w0, 0 ≤ y) ∧ w0.sum = 1 := by
  cases logw with
  | nil => exact absurd rfl hne
  | cons x xs =>
    obtain ⟨hp, hs, hl⟩ := expShift_pos x xs
    obtain ⟨h1, h2, _, _⟩ := Props.C20.wn_facts (expShift x xs) (fun y hy => (hp y hy).le) hs
    refine ⟨_, rfl, ?_, h2, h1⟩
    rw [Props.C20.normalise_def]; simp [hl]

/-- the ESS the loop guard tests (of the un-normalised `exp(logw − max)`) IS the ESS of the weights `posterior()`
    returns without trimming -/
theorem C12_guard_ess_is_posterior_ess (x : ℝ) (xs : List ℝ) :
    Model.Ess.ess (Model.Ess.normalise (expShift x xs)) = Model.Ess.ess (expShift x xs) := by
  obtain ⟨_, hs, _⟩ := expShift_pos x xs
  have : Model.Ess.normalise (expShift x xs) = (expShift x xs).map (fun y => (1 / (expShift x xs).sum) * y) := by
    rw [Props.C20.normalise_def]
    apply List.map_congr_left
    intro y _; ring
  rw [this]
  exact Props.C20.C20_ess_scale_invariant _ (by positivity) _

/-- C12 (run), concrete: on the state record (history, β, logz) with the guard computed from the stored history as the
    code does, whenever `run` returns: 1 − β is below the double 1e-4, the history is non-empty, the ESS of the posterior
    weights over the whole history (the vector `posterior(trim_importance_weights=False)` returns) is at least `n_total`,
    and the stored evidence is `Z(1)` of that very history.  No frame hypotheses: `set_current("logz")` is the record update. -/
theorem C12_run_post_concrete {H : Type} (nTotal : ℝ) (logw1 : H → List ℝ) (z1 : H → ℝ)
    (iter : RunState H ℝ → RunState H ℝ) (fuel : Nat) (s0 sf : RunState H ℝ)
    (h : runConcrete termTol nTotal logw1 z1 iter fuel s0 = some sf) :
    1 - sf.beta < termTol ∧
    (∃ w0, weights0 (logw1 sf.hist) = some w0 ∧ w0.length = (logw1 sf.hist).length ∧ nTotal ≤ Model.Ess.ess w0 ∧
        1 ≤ Model.Ess.ess w0 ∧ Model.Ess.ess w0 ≤ w0.length) ∧
    sf.logz = z1 sf.hist ∧ ∃ k, k ≤ fuel ∧ sf.hist = (iter^[k] s0).hist := by
  simp only [runConcrete, runSampling, Option.map_eq_some_iff] at h
  obtain ⟨s', hl, rfl⟩ := h
  have hp := loop_post _ _ _ _ _ hl
  obtain ⟨k, hk, hit⟩ := loop_is_iterate _ _ _ _ _ hl
  show 1 - s'.beta < termTol ∧
    (∃ w0, weights0 (logw1 s'.hist) = some w0 ∧ w0.length = (logw1 s'.hist).length ∧ nTotal ≤ Model.Ess.ess w0 ∧
        1 ≤ Model.Ess.ess w0 ∧ Model.Ess.ess w0 ≤ w0.length) ∧
    z1 s'.hist = z1 s'.hist ∧ ∃ k, k ≤ fuel ∧ s'.hist = (iter^[k] s0).hist
  cases hw : logw1 s'.hist with
  | nil => rw [hw] at hp; simp [notTermination] at hp
  | cons x xs =>
    rw [hw] at hp
    simp only [notTermination] at hp
    rw [notTerm_false_iff] at hp
    obtain ⟨w0, hw0, hlen, hnn, hsum⟩ := weights0_facts (x :: xs) (by simp)
    have hw0' : w0 = Model.Ess.normalise (expShift x xs) := by
      simp only [weights0, Option.some.injEq] at hw0; exact hw0.symm
    have hb := Props.C20.C20_ess_bounds w0 hnn (by rw [hsum]; exact one_pos)
    refine ⟨hp.1, ⟨w0, hw0, hlen, ?_, hb.1, hb.2⟩, rfl, k, hk, by rw [hit]⟩
    rw [hw0', C12_guard_ess_is_posterior_ess]
    exact hp.2

/-! ### posterior(): the whole routine with the modelled trimming (C20) and systematic resampling (C06) -/

theorem gather?_some {σ : Type} (xs : List σ) (idx : List Nat) (h : ∀ i ∈ idx, i < xs.length) :
    ∃ ys, gather? xs idx = some ys := by
  induction idx with
  | nil => exact ⟨[], rfl⟩
  | cons i is ih =>
    obtain ⟨ys, hys⟩ := ih (fun j hj => h j (List.mem_cons_of_mem _ hj))
    have hi := h i List.mem_cons_self
    exact ⟨xs[i] :: ys, by simp [gather?, hys, List.getElem?_eq_getElem hi]⟩

/-- fancy indexing with in-range indices never raises, whatever the field table -/
theorem gatherArrs_some (fields : List String) (idx : List Nat) (a : Arrs X L B W α) (n : Nat)
    (ha : SameLen a n) (h : ∀ i ∈ idx, i < n) : ∃ r, gatherArrs fields idx a = some r := by
  obtain ⟨h1, h2, h3, h4, _⟩ := ha
  obtain ⟨x, hx⟩ := gather?_some a.x idx (by rw [h1]; exact h)
  obtain ⟨l, hl⟩ := gather?_some a.l idx (by rw [h2]; exact h)
  obtain ⟨b, hb⟩ := gather?_some a.b idx (by rw [h3]; exact h)
  obtain ⟨lw, hlw⟩ := gather?_some a.lw idx (by rw [h4]; exact h)
  have e1 : ∃ v, (if fields.contains "x" then gather? a.x idx else some a.x) = some v := by
    split; exacts [⟨x, hx⟩, ⟨_, rfl⟩]
  have e2 : ∃ v, (if fields.contains "logl" then gather? a.l idx else some a.l) = some v := by
    split; exacts [⟨l, hl⟩, ⟨_, rfl⟩]
  have e3 : ∃ v, (if fields.contains "blobs" then gather? a.b idx else some a.b) = some v := by
    split; exacts [⟨b, hb⟩, ⟨_, rfl⟩]
  have e4 : ∃ v, (if fields.contains "logw" then gather? a.lw idx else some a.lw) = some v := by
    split; exacts [⟨lw, hlw⟩, ⟨_, rfl⟩]
  obtain ⟨v1, e1⟩ := e1
  obtain ⟨v2, e2⟩ := e2
  obtain ⟨v3, e3⟩ := e3
  obtain ⟨v4, e4⟩ := e4
  unfold gatherArrs
  rw [e1, e2, e3, e4]
  exact ⟨_, rfl⟩

/-- what the modelled `trim_weights(np.arange(n), w, e, bins)` returns on normalised weights: it does not raise, returns
    as many weights as indices, strictly increasing in-range indices (no particle twice, history order kept), and
    non-negative weights summing to one -/
theorem trim_range_facts (w : List ℝ) (h0 : ∀ y ∈ w, 0 ≤ y) (hs : w.sum = 1) (e : ℝ) (bins : Nat) (hb : 0 < bins) :
    ∃ idx w', Model.Trim.trim (List.range w.length) w e bins = some (idx, w') ∧ idx.length = w'.length ∧
      (∀ i ∈ idx, i < w.length) ∧ idx.Pairwise (· < ·) ∧ (∀ y ∈ w', 0 ≤ y) ∧ w'.sum = 1 := by
  have hpos : 0 < w.sum := by rw [hs]; exact one_pos
  obtain ⟨⟨idx, w'⟩, hr⟩ := Props.C20.C20_trim_terminates_any (List.range w.length) w e bins h0 hpos hb
  have hsum := Props.C20.C20_trim_normalised _ w e bins h0 hpos idx w' hr
  obtain ⟨θ, j, _, _, hm⟩ := Props.C20.C20_trim_upper_set _ w e bins idx w' hr
  obtain ⟨hi, hw', _⟩ := hm
  have hn : Model.Ess.normalise w = w := Props.C20.normalise_of_sum_one w hs
  rw [hn] at hi hw'
  have hsub : idx.Sublist (List.range w.length) := by rw [hi]; exact Props.C20.filterMask_sublist _ _
  refine ⟨idx, w', hr, ?_, ?_, ?_, ?_, hsum⟩
  · rw [hi, hw', Props.C20.normalise_def, List.length_map]
    exact Props.C20.filterMask_length_eq _ _ _ (by simp)
  · intro i hi'; exact List.mem_range.mp (hsub.subset hi')
  · exact List.Pairwise.sublist hsub List.pairwise_lt_range
  · intro y hy
    rw [hw', Props.C20.normalise_def] at hy
    obtain ⟨z, hz, rfl⟩ := List.mem_map.mp hy
    have hz0 : ∀ v ∈ Model.Trim.filterMask w (w.map fun x => Sc.le θ x), 0 ≤ v :=
      fun v hv => h0 v ((Props.C20.filterMask_sublist _ _).subset hv)
    exact div_nonneg (hz0 z hz) (List.sum_nonneg hz0)

/-- the modelled `systematic_resample(len(w), w)` on a non-empty weight vector: does not raise, `len(w)` in-range indices -/
theorem syst_facts (w : List ℝ) (hne : w ≠ []) (u0 : ℝ) :
    ∃ idx, Model.Resample.systematic w.length w u0 = some idx ∧ idx.length = w.length ∧ ∀ i ∈ idx, i < w.length := by
  obtain ⟨c0, t, _, h2⟩ := Props.C06.systematicWith_some (Sc.sum w) w.length w u0 hne
  exact ⟨_, h2, Props.C06.C06_syst_length _ _ _ _ _ h2, Props.C06.C06_syst_range _ _ _ _ _ h2⟩

theorem uniformW_facts (n : Nat) (hn : 0 < n) :
    (uniformW n : List ℝ) = List.replicate n (1 / (n : ℝ)) ∧ (uniformW n : List ℝ).length = n ∧
      (∀ y ∈ (uniformW n : List ℝ), 0 ≤ y) ∧ (uniformW n : List ℝ).sum = 1 := by
  have e : (uniformW n : List ℝ) = List.replicate n (1 / (n : ℝ)) := by simp [uniformW]
  refine ⟨e, by simp [uniformW], ?_, by rw [e]; exact uniform_sum_one n hn⟩
  intro y hy
  rw [e] at hy
  rw [List.eq_of_mem_replicate hy]
  positivity

/-- `body` with in-range index vectors never raises, and its weights are: uniform after resampling, else the trimmed
    weights, else the input weights -/
theorem body_some {trimFields resFields : List String} (ht : AllPost trimFields)
    (t : List Nat × List α) (ridx : List Nat) (uniform : Nat → List α) (o : Opts)
    (a : Arrs X L B W α) (n : Nat) (ha : SameLen a n)
    (h1 : o.trim = true → t.2.length = t.1.length ∧ ∀ i ∈ t.1, i < n)
    (h2 : o.resample = true → ∀ i ∈ ridx, i < (if o.trim then t.1.length else n)) :
    ∃ r, body trimFields resFields (fun _ => t) (fun _ => ridx) uniform o a = some r ∧
      r.w = if o.resample then uniform ridx.length else if o.trim then t.2 else a.w := by
  unfold body
  by_cases hto : o.trim = true
  · obtain ⟨hl, hr1⟩ := h1 hto
    obtain ⟨g1, hg1⟩ := gatherArrs_some trimFields t.1 a n ha hr1
    obtain ⟨lx, ll, lb, llw, _, _⟩ := gatherArrs_rows ht hg1
    have ha1 : SameLen ({ g1 with w := t.2 } : Arrs X L B W α) t.1.length := ⟨lx, ll, lb, llw, hl⟩
    by_cases hro : o.resample = true
    · have hr2 := h2 hro
      simp only [hto, if_true] at hr2
      obtain ⟨g2, hg2⟩ := gatherArrs_some resFields ridx _ _ ha1 hr2
      exact ⟨{ g2 with w := uniform ridx.length }, by simp [hto, hro, hg1, hg2], by simp [hro]⟩
    · exact ⟨{ g1 with w := t.2 }, by simp [hto, hro, hg1], by simp [hto, hro]⟩
  · by_cases hro : o.resample = true
    · have hr2 := h2 hro
      simp only [hto, Bool.false_eq_true, if_false] at hr2
      obtain ⟨g2, hg2⟩ := gatherArrs_some resFields ridx a n ha hr2
      exact ⟨{ g2 with w := uniform ridx.length }, by simp [hto, hro, hg2], by simp [hro]⟩
    · exact ⟨a, by simp [hto, hro], by simp [hto, hro]⟩

/-- **C12 (posterior), the whole routine.**  On any non-empty stored history (arrays of one length `n`, `logw` the vector
    of `compute_logw_and_logz(1.0)`), for EVERY combination of `resample` / `trim_importance_weights` (the two `return_*`
    flags only select among the arrays, `C12_return_tuples`), every real `ess_trim` (also > 1: the loop stops at the bottom of
    the grid, /repo 8ceb8ba), every `bins_trim ≥ 1` and every value
    `u0` of the resampling offset, `compute_posterior` with the modelled `trim_weights` (C20) and `systematic_resample`
    (C06): does not raise; returns arrays of ONE positive length `m`; every returned row is — in x, logl, blobs and logw
    alike — one and the same stored particle; the weights are non-negative and sum to one; with resampling they are
    exactly `1/m` each. -/
theorem C12_posterior_contract {trimFields resFields : List String}
    (ht : AllPost trimFields) (hr : AllPost resFields)
    (e : ℝ) (bins : Nat) (hb : 0 < bins) (u0 : ℝ) (o : Opts)
    (a : Arrs X L B ℝ ℝ) (hne : a.lw ≠ [])
    (hx : a.x.length = a.lw.length) (hl : a.l.length = a.lw.length) (hbl : a.b.length = a.lw.length) :
    ∃ r, posterior trimFields resFields e bins u0 o a = some r ∧
      ∃ m, 0 < m ∧ SameLen r m ∧ (∀ k, k < m → ∃ i, i < a.lw.length ∧ RowOf r k a i) ∧
        (∀ y ∈ r.w, 0 ≤ y) ∧ r.w.sum = 1 ∧ (o.resample = true → r.w = List.replicate m (1 / (m : ℝ))) := by
  obtain ⟨w0, hw0, hlen, hnn, hsum⟩ := weights0_facts a.lw hne
  have hn0 : 0 < a.lw.length := List.length_pos_iff.mpr hne
  have ha0 : SameLen ({ a with w := w0 } : Arrs X L B ℝ ℝ) a.lw.length := ⟨hx, hl, hbl, rfl, hlen⟩
  -- the trimming stage
  obtain ⟨t, htdef, ht1, htw⟩ : ∃ t : List Nat × List ℝ,
      (if o.trim then Model.Trim.trim (List.range w0.length) w0 e bins else some ([], [])) = some t ∧
      t.2.length = t.1.length ∧
      (o.trim = true → (∀ i ∈ t.1, i < a.lw.length) ∧ (∀ y ∈ t.2, 0 ≤ y) ∧ t.2.sum = 1) := by
    by_cases hto : o.trim = true
    · obtain ⟨tidx, tw, htr, htl, htrange, _, htnn, htsum⟩ := trim_range_facts w0 hnn hsum e bins hb
      exact ⟨(tidx, tw), by simp [hto, htr], htl.symm, fun _ => ⟨fun i hi => hlen ▸ htrange i hi, htnn, htsum⟩⟩
    · exact ⟨([], []), by simp [hto], rfl, fun h => absurd h hto⟩
  -- the weights entering the resampling stage
  have hw1 : (∀ y ∈ (if o.trim then t.2 else w0), 0 ≤ y) ∧ (if o.trim then t.2 else w0).sum = 1 ∧
      (if o.trim then t.2 else w0).length = (if o.trim then t.1.length else a.lw.length) := by
    by_cases hto : o.trim = true
    · simp only [hto, if_true]; exact ⟨(htw hto).2.1, (htw hto).2.2, ht1⟩
    · simp only [hto, Bool.false_eq_true, if_false]; exact ⟨hnn, hsum, hlen⟩
  have hw1ne : (if o.trim then t.2 else w0) ≠ [] := by
    intro h; have := hw1.2.1; rw [h] at this; simp at this
  -- the resampling stage
  obtain ⟨ridx, hrdef, hr1⟩ : ∃ ridx : List Nat,
      (if o.resample then Model.Resample.systematic (if o.trim then t.2 else w0).length (if o.trim then t.2 else w0) u0
        else some []) = some ridx ∧
      (o.resample = true → ridx.length = (if o.trim then t.1.length else a.lw.length) ∧
        ∀ i ∈ ridx, i < (if o.trim then t.1.length else a.lw.length)) := by
    by_cases hro : o.resample = true
    · obtain ⟨ridx, hrs, hrl, hrr⟩ := syst_facts _ hw1ne u0
      refine ⟨ridx, by simp [hro, hrs], fun _ => ?_⟩
      rw [← hw1.2.2]; exact ⟨hrl, hrr⟩
    · exact ⟨[], by simp [hro], fun h => absurd h hro⟩
  obtain ⟨r, hbody, hrw⟩ := body_some (resFields := resFields) ht t ridx uniformW o _ _ ha0
    (fun h => ⟨ht1, (htw h).1⟩) (fun h => (hr1 h).2)
  have hpost : posterior trimFields resFields e bins u0 o a = some r := by
    unfold posterior
    rw [hw0]; simp only [Option.bind_some]
    rw [htdef]; simp only [Option.bind_some]
    rw [hrdef]; simp only [Option.bind_some]
    exact hbody
  obtain ⟨⟨m, hm⟩, hrows⟩ := C12_posterior_aligned ht hr (fun _ => t) (fun _ => ridx) uniformW (fun _ => ht1)
    (fun n => by simp [uniformW]) o ha0 hbody
  -- the common length is positive
  have hmw : r.w.length = m := hm.2.2.2.2
  have hmpos_and : 0 < m ∧ (∀ y ∈ r.w, 0 ≤ y) ∧ r.w.sum = 1 ∧ (o.resample = true → r.w = List.replicate m (1 / (m : ℝ))) := by
    by_cases hro : o.resample = true
    · simp only [hro, if_true] at hrw
      have hlen' : ridx.length = m := by rw [← hmw, hrw]; simp [uniformW]
      have hpos : 0 < ridx.length := by
        rw [(hr1 hro).1, ← hw1.2.2]; exact List.length_pos_iff.mpr hw1ne
      obtain ⟨ue, _, unn, usum⟩ := uniformW_facts ridx.length hpos
      rw [hrw]
      exact ⟨hlen' ▸ hpos, unn, usum, fun _ => by rw [ue, hlen']⟩
    · have hrw' : r.w = if o.trim then t.2 else w0 := by simpa [hro] using hrw
      rw [hrw']
      refine ⟨?_, hw1.1, hw1.2.1, fun h => absurd h hro⟩
      rw [← hmw, hrw']; exact List.length_pos_iff.mpr hw1ne
  refine ⟨r, hpost, m, hmpos_and.1, hm, ?_, hmpos_and.2⟩
  intro k hk
  obtain ⟨i, hi⟩ := hrows k (by rw [hm.1]; exact hk)
  refine ⟨i, ?_, hi⟩
  -- the row exists in `r`, hence the source index is in range
  by_contra hcon
  have h1 : r.lw[k]? = none := by rw [hi.2.2.2]; exact List.getElem?_eq_none (by simpa using hcon)
  rw [List.getElem?_eq_getElem (by rw [hm.2.2.2.1]; exact hk)] at h1
  cases h1

/-- the contract instantiated with the tables regenerated from `compute_posterior` -/
theorem C12_posterior_contract_gen (e : ℝ) (bins : Nat) (hb : 0 < bins) (u0 : ℝ) (o : Opts)
    (a : Arrs X L B ℝ ℝ) (hne : a.lw ≠ [])
    (hx : a.x.length = a.lw.length) (hl : a.l.length = a.lw.length) (hbl : a.b.length = a.lw.length) :
    ∃ r, posterior Gen.Tables.posteriorTrimGather Gen.Tables.posteriorResampleGather e bins u0 o a = some r ∧
      ∃ m, 0 < m ∧ SameLen r m ∧ (∀ k, k < m → ∃ i, i < a.lw.length ∧ RowOf r k a i) ∧
        (∀ y ∈ r.w, 0 ≤ y) ∧ r.w.sum = 1 ∧ (o.resample = true → r.w = List.replicate m (1 / (m : ℝ))) :=
  C12_posterior_contract C12_gather_tables_complete.1 C12_gather_tables_complete.2 e bins hb u0 o a hne hx hl hbl

/-! ### non-vacuity -/
example :
    (body Gen.Tables.posteriorTrimGather Gen.Tables.posteriorResampleGather
      (fun _ => ([0, 2, 3], [5, 3, 2])) (fun _ => [1, 1, 2]) (fun n => List.replicate n 7)
      ⟨true, true, true, true⟩
      (⟨[10, 11, 12, 13], [20, 21, 22, 23], [30, 31, 32, 33], [40, 41, 42, 43], [1, 2, 3, 4]⟩ : Arrs Nat Nat Nat Nat Nat)).map
      (fun r => (r.x, r.l, r.b, r.lw, r.w))
      = some ([12, 12, 13], [22, 22, 23], [32, 32, 33], [42, 42, 43], [7, 7, 7]) := by decide

example : loop (fun s : Nat => decide (s < 3)) (· + 1) 10 0 = some 3 := by decide

/-- non-vacuity of `C12_tol_exact_for_doubles`: the largest double `β < 1` side: `1 − β = 900719925474·2^-53 < 1e-4` -/
example : (1 : ℝ) - ((9007199254740992 - 900719925474 : ℤ) : ℝ) / 2 ^ 53 < termTol :=
  (C12_tol_exact_for_doubles _ (Or.inr ⟨_, rfl⟩)).mpr (by norm_num)
/-- … and the next multiple of 2^-53 is on the other side of BOTH thresholds -/
example : ¬ ((1 : ℝ) - ((9007199254740992 - 900719925475 : ℤ) : ℝ) / 2 ^ 53 < termTol) := by
  rw [C12_tol_exact_for_doubles _ (Or.inr ⟨_, rfl⟩)]; norm_num

/-- non-vacuity of `C12_run_post_concrete`: a run that starts on an empty history (guard: continue), commits one
    particle with β = 1 and then stops; the hypotheses of the theorem are met by this run -/
example : ∃ sf, runConcrete termTol (1 : ℝ) (fun h : List ℝ => h) (fun h => h.sum)
    (fun s => ⟨[0], 1, s.logz⟩) 1 ⟨[], 0, 5⟩ = some sf ∧ sf.hist = [0] ∧ sf.logz = 0 := by
  refine ⟨⟨[0], 1, 0⟩, ?_, rfl, rfl⟩
  have hs : notTermination termTol (1 : ℝ) ([0] : List ℝ) 1 = false := by
    simp only [notTermination]
    rw [notTerm_false_iff]
    refine ⟨by unfold termTol; rw [C12_term_tol.1, C12_term_tol.2]; norm_num, ?_⟩
    rw [Props.C20.ess_def]; simp [Model.Ess.maxOf]
  have hs0 : notTermination termTol (0 : ℝ) ([] : List ℝ) 1 = true := rfl
  simp only [runConcrete, runSampling, loop, hs0, hs, if_true, RunState.setLogz]
  simp

/-- non-vacuity of `C12_posterior_contract_gen`: three stored particles, trimming and resampling on -/
example : ∃ r, posterior Gen.Tables.posteriorTrimGather Gen.Tables.posteriorResampleGather (0.99 : ℝ) 1000 0.5
      ⟨true, true, true, true⟩ (⟨[10, 11, 12], [20, 21, 22], [30, 31, 32], [-1, 0, -2], []⟩ : Arrs Nat Nat Nat ℝ ℝ) = some r ∧
      ∃ m, 0 < m ∧ SameLen r m ∧ r.w = List.replicate m (1 / (m : ℝ)) := by
  obtain ⟨r, h, m, hm, hl, _, _, _, hu⟩ := C12_posterior_contract_gen (X := Nat) (L := Nat) (B := Nat) (0.99 : ℝ) 1000
    (by norm_num) 0.5 ⟨true, true, true, true⟩ ⟨[10, 11, 12], [20, 21, 22], [30, 31, 32], [-1, 0, -2], []⟩ (by simp) rfl rfl rfl
  exact ⟨r, h, m, hm, hl, hu rfl⟩

end Props.C12
