import TempestVerif.Model.Run
import TempestVerif.Model.Posterior
import TempestVerif.Gen.Tables
import TempestVerif.Gen.Constants
import TempestVerif.Lemmas.ScReal
import TempestVerif.Props.C07
import Mathlib.Tactic
/-
  C12 — run() postconditions and the posterior()/evidence() contract.
  Termination of run() is NOT claimed (liveness); `loop` returns `none` when the fuel runs out.
-/
namespace Props.C12
open Model.Run Model.Posterior Model.Records

/-! ### run(): what holds when it returns -/

theorem loop_post {S : Type} (cont : S → Bool) (iter : S → S) (n : Nat) (s s' : S)
    (h : loop cont iter n s = some s') : cont s' = false := by
  induction n generalizing s with
  | zero =>
    simp only [loop] at h
    split at h
    · cases h
    · rename_i hc; injection h with h; subst h; simpa using hc
  | succ n ih =>
    simp only [loop] at h
    split at h
    · exact ih _ h
    · rename_i hc; injection h with h; subst h; simpa using hc

/-- the state returned by the loop is an iterate of the initial state (nothing else touches it) -/
theorem loop_is_iterate {S : Type} (cont : S → Bool) (iter : S → S) (n : Nat) (s s' : S)
    (h : loop cont iter n s = some s') : ∃ k, k ≤ n ∧ s' = iter^[k] s := by
  induction n generalizing s with
  | zero =>
    simp only [loop] at h
    split at h
    · cases h
    · injection h with h; exact ⟨0, le_refl _, by simp [h]⟩
  | succ n ih =>
    simp only [loop] at h
    split at h
    · obtain ⟨k, hk, e⟩ := ih _ h
      exact ⟨k + 1, by omega, by simp [e, Function.iterate_succ_apply]⟩
    · injection h with h; exact ⟨0, by omega, by simp [h]⟩

/-- the guard over ℝ -/
theorem notTerm_false_iff (tol beta ess nTotal : ℝ) :
    notTerm tol beta ess nTotal = false ↔ 1 - beta < tol ∧ nTotal ≤ ess := by
  simp [notTerm, Bool.or_eq_false_iff]

/-- the exit tolerance regenerated from `_not_termination` is the double nearest to 1e-4 -/
theorem C12_term_tol :
    Gen.Constants.TERM_BETA_TOLNum = 7378697629483821 ∧ Gen.Constants.TERM_BETA_TOLDen = 73786976294838206464 := by
  decide

/-- the generated tolerance as a real number -/
noncomputable def termTol : ℝ := (Gen.Constants.TERM_BETA_TOLNum : ℝ) / (Gen.Constants.TERM_BETA_TOLDen : ℝ)

theorem termTol_le : termTol ≤ 1.0001e-4 := by
  unfold termTol
  rw [C12_term_tol.1, C12_term_tol.2]
  norm_num

/-- structure of run_sampling regenerated from source: the loop body is one `execute_iteration`,
    the guard compares `ess < n_total`, and the evidence is recomputed at beta = 1 right after the loop -/
theorem C12_run_structure :
    Gen.Constants.RUN_LOOP_BODY = "execute_iteration" ∧ Gen.Constants.TERM_ESS_CMP = "lt_n_total" ∧
    Gen.Constants.RUN_EPILOGUE_Z1 = 1 := by decide

/-- C12 (run): if `run` returns, then 1 − β < 1.0001e-4 (the double 1e-4), the ESS of the posterior
    weights over the whole history is at least `n_total`, and the stored evidence is the
    mixture-importance-sampling evidence at β = 1 recomputed from the final history. -/
theorem C12_run_post {S : Type} (beta ess : S → ℝ) (nTotal : ℝ) (iter : S → S)
    (z1 : S → ℝ) (setLogz : S → ℝ → S) (getLogz : S → ℝ)
    (hget : ∀ s v, getLogz (setLogz s v) = v)
    (hbeta : ∀ s v, beta (setLogz s v) = beta s) (hess : ∀ s v, ess (setLogz s v) = ess s)
    (hz : ∀ s v, z1 (setLogz s v) = z1 s)
    (fuel : Nat) (s0 sf : S)
    (h : runSampling (fun s => notTerm termTol (beta s) (ess s) nTotal) iter z1 setLogz fuel s0 = some sf) :
    1 - beta sf < 1.0001e-4 ∧ nTotal ≤ ess sf ∧ getLogz sf = z1 sf := by
  simp only [runSampling, Option.map_eq_some_iff] at h
  obtain ⟨s', hl, rfl⟩ := h
  have hp := loop_post _ _ _ _ _ hl
  rw [notTerm_false_iff] at hp
  refine ⟨?_, ?_, ?_⟩
  · rw [hbeta]; exact lt_of_lt_of_le hp.1 termTol_le
  · rw [hess]; exact hp.2
  · rw [hget, hz]

/-! ### posterior(): equal lengths, row alignment, weights -/

def AllPost (fields : List String) : Prop :=
  fields.contains "x" = true ∧ fields.contains "logl" = true ∧ fields.contains "blobs" = true ∧
  fields.contains "logw" = true

variable {X L B W α : Type}

/-- row `k` of `r` is, in all four particle arrays, row `i` of `a` -/
def RowOf (r : Arrs X L B W α) (k : Nat) (a : Arrs X L B W α) (i : Nat) : Prop :=
  r.x[k]? = a.x[i]? ∧ r.l[k]? = a.l[i]? ∧ r.b[k]? = a.b[i]? ∧ r.lw[k]? = a.lw[i]?

def SameLen (a : Arrs X L B W α) (n : Nat) : Prop :=
  a.x.length = n ∧ a.l.length = n ∧ a.b.length = n ∧ a.lw.length = n ∧ a.w.length = n

theorem gatherArrs_rows {fields : List String} (hf : AllPost fields) {idx : List Nat}
    {a r : Arrs X L B W α} (h : gatherArrs fields idx a = some r) :
    r.x.length = idx.length ∧ r.l.length = idx.length ∧ r.b.length = idx.length ∧
    r.lw.length = idx.length ∧ r.w = a.w ∧ ∀ k i, idx[k]? = some i → RowOf r k a i := by
  obtain ⟨h1, h2, h3, h4⟩ := hf
  simp only [gatherArrs, h1, h2, h3, h4, if_true] at h
  split at h
  · rename_i x l b lw hx hl hb hlw
    injection h with h; subst h
    refine ⟨Props.C07.gather?_length hx, Props.C07.gather?_length hl, Props.C07.gather?_length hb,
      Props.C07.gather?_length hlw, rfl, ?_⟩
    intro k i hk
    exact ⟨Props.C07.gather?_get hx k i hk, Props.C07.gather?_get hl k i hk,
      Props.C07.gather?_get hb k i hk, Props.C07.gather?_get hlw k i hk⟩
  · cases h

/-- C12 (posterior): for EVERY combination of `resample` / `trim_importance_weights` and every
    trimming and resampling routine that returns as many weights as indices, all arrays have one length
    and every output row is — in x, logl, blobs and logw alike — one and the same particle of the
    stored history. -/
theorem C12_posterior_aligned {trimFields resFields : List String}
    (ht : AllPost trimFields) (hr : AllPost resFields)
    (trimFn : List α → List Nat × List α) (resFn : List α → List Nat) (uniform : Nat → List α)
    (htrim : ∀ w, (trimFn w).2.length = (trimFn w).1.length)
    (hunif : ∀ n, (uniform n).length = n)
    (o : Opts) {a r : Arrs X L B W α} {n : Nat} (ha : SameLen a n)
    (h : body trimFields resFields trimFn resFn uniform o a = some r) :
    (∃ m, SameLen r m) ∧ ∀ k, k < r.x.length → ∃ i, RowOf r k a i := by
  unfold body at h
  simp only [Option.bind_eq_some_iff] at h
  obtain ⟨a1, h1, h2⟩ := h
  -- first stage
  have st1 : (∃ m, SameLen a1 m) ∧ ∀ k, k < a1.x.length → ∃ i, RowOf a1 k a i := by
    by_cases hto : o.trim = true
    · simp only [hto, if_true, Option.map_eq_some_iff] at h1
      obtain ⟨a', hg, rfl⟩ := h1
      obtain ⟨lx, ll, lb, llw, _, rows⟩ := gatherArrs_rows ht hg
      refine ⟨⟨(trimFn a.w).1.length, lx, ll, lb, llw, htrim a.w⟩, ?_⟩
      intro k hk
      have hk' : k < (trimFn a.w).1.length := by simpa [lx] using hk
      exact ⟨_, rows k _ (List.getElem?_eq_getElem hk')⟩
    · simp only [hto, Bool.false_eq_true, if_false, Option.some.injEq] at h1
      subst h1
      exact ⟨⟨n, ha⟩, fun k _ => ⟨k, rfl, rfl, rfl, rfl⟩⟩
  by_cases hro : o.resample = true
  · simp only [hro, if_true, Option.map_eq_some_iff] at h2
    obtain ⟨a', hg, rfl⟩ := h2
    obtain ⟨lx, ll, lb, llw, _, rows⟩ := gatherArrs_rows hr hg
    refine ⟨⟨(resFn a1.w).length, lx, ll, lb, llw, hunif _⟩, ?_⟩
    intro k hk
    have hk' : k < (resFn a1.w).length := by simpa [lx] using hk
    obtain ⟨r1, r2, r3, r4⟩ := rows k _ (List.getElem?_eq_getElem hk')
    -- compose with the first stage
    by_cases hj : (resFn a1.w)[k] < a1.x.length
    · obtain ⟨i, q1, q2, q3, q4⟩ := st1.2 _ hj
      exact ⟨i, r1.trans q1, r2.trans q2, r3.trans q3, r4.trans q4⟩
    · -- an out-of-range index cannot have produced a row
      exfalso
      have : a'.x[k]? = none := by rw [r1]; exact List.getElem?_eq_none (by omega)
      rw [List.getElem?_eq_getElem (by simpa using hk)] at this
      cases this
  · simp only [hro, Bool.false_eq_true, if_false, Option.some.injEq] at h2
    subst h2
    exact st1

/-- with resampling the weights are uniform -/
theorem C12_posterior_resample_uniform {trimFields resFields : List String}
    (trimFn : List α → List Nat × List α) (resFn : List α → List Nat) (uniform : Nat → List α)
    (o : Opts) (ho : o.resample = true) {a r : Arrs X L B W α}
    (h : body trimFields resFields trimFn resFn uniform o a = some r) :
    ∃ n, r.w = uniform n := by
  unfold body at h
  simp only [Option.bind_eq_some_iff] at h
  obtain ⟨a1, _, h2⟩ := h
  simp only [ho, if_true, Option.map_eq_some_iff] at h2
  obtain ⟨a', _, rfl⟩ := h2
  exact ⟨_, rfl⟩

/-- `np.ones(n) / n` sums to one and is non-negative -/
theorem uniform_sum_one (n : Nat) (hn : 0 < n) : (List.replicate n (1 / (n : ℝ))).sum = 1 := by
  rw [List.sum_replicate]; simp; field_simp

/-- `weights /= np.sum(weights)`: non-negative and sums to one whenever the sum is positive -/
theorem C12_weights_normalised (w : List ℝ) (hw : ∀ x ∈ w, 0 ≤ x) (hs : 0 < w.sum) :
    (w.map (· / w.sum)).sum = 1 ∧ ∀ x ∈ w.map (· / w.sum), 0 ≤ x := by
  constructor
  · have : (w.map (· / w.sum)).sum = w.sum / w.sum := by
      induction w with
      | nil => simp
      | cons a t ih =>
        have e : ∀ (c : ℝ) (l : List ℝ), (l.map (· / c)).sum = l.sum / c := by
          intro c l; induction l with
          | nil => simp
          | cons b l ihl => simp [ihl, add_div]
        exact e _ _
    rw [this, div_self hs.ne']
  · intro x hx
    simp only [List.mem_map] at hx
    obtain ⟨y, hy, rfl⟩ := hx
    exact div_nonneg (hw y hy) hs.le

/-! ### obligations on the tables regenerated from compute_posterior -/

/-- both branches gather x, logl, blobs AND logw with their index vector -/
theorem C12_gather_tables_complete :
    AllPost Gen.Tables.posteriorTrimGather ∧ AllPost Gen.Tables.posteriorResampleGather := by
  refine ⟨⟨?_, ?_, ?_, ?_⟩, ⟨?_, ?_, ?_, ?_⟩⟩ <;> decide

/-- the four return tuples are exactly the model's, and every returned particle array is gathered in both branches -/
theorem C12_return_tuples :
    Gen.Tables.posteriorReturns =
      [returnNames true ⟨false, false, true, true⟩, returnNames true ⟨false, false, true, false⟩,
       returnNames true ⟨false, false, false, true⟩, returnNames true ⟨false, false, false, false⟩] ∧
    ∀ t ∈ Gen.Tables.posteriorReturns, ∀ name ∈ t, name = "weights" ∨
      (name ∈ Gen.Tables.posteriorTrimGather ∧ name ∈ Gen.Tables.posteriorResampleGather) := by
  decide

/-- the aligned-rows theorem instantiated with the generated tables -/
theorem C12_posterior_aligned_gen
    (trimFn : List α → List Nat × List α) (resFn : List α → List Nat) (uniform : Nat → List α)
    (htrim : ∀ w, (trimFn w).2.length = (trimFn w).1.length) (hunif : ∀ n, (uniform n).length = n)
    (o : Opts) {a r : Arrs X L B W α} {n : Nat} (ha : SameLen a n)
    (h : body Gen.Tables.posteriorTrimGather Gen.Tables.posteriorResampleGather trimFn resFn uniform o a = some r) :
    (∃ m, SameLen r m) ∧ ∀ k, k < r.x.length → ∃ i, RowOf r k a i :=
  C12_posterior_aligned C12_gather_tables_complete.1 C12_gather_tables_complete.2 trimFn resFn uniform htrim hunif o ha h

/-! ### non-vacuity -/
example :
    (body Gen.Tables.posteriorTrimGather Gen.Tables.posteriorResampleGather
      (fun _ => ([0, 2, 3], [5, 3, 2])) (fun _ => [1, 1, 2]) (fun n => List.replicate n 7)
      ⟨true, true, true, true⟩
      (⟨[10, 11, 12, 13], [20, 21, 22, 23], [30, 31, 32, 33], [40, 41, 42, 43], [1, 2, 3, 4]⟩ : Arrs Nat Nat Nat Nat Nat)).map
      (fun r => (r.x, r.l, r.b, r.lw, r.w))
      = some ([12, 12, 13], [22, 22, 23], [32, 32, 33], [42, 42, 43], [7, 7, 7]) := by decide

example : loop (fun s : Nat => decide (s < 3)) (· + 1) 10 0 = some 3 := by decide

end Props.C12
