import TempestVerif.Props.C04
/-
  C04, second clause pass — iterations that share a temperature, and order-independence at the level of positions.

  * `C04_mix_by_level`: the mixture regrouped by DISTINCT temperature.  Iterations with the same β_t may be collected
    into one term, but only as the sum over ALL of them (wherever they are stored) of `(n_t/N)·exp(−z_t)`; nothing
    else about them may be merged.  (Seeded change C04c collapsed equal-β columns assuming they are stored next to each
    other; this is the law such an optimisation has to satisfy.)
  * `C04_perm_slices`: for ANY permutation of the iterations — repeated β_t, repeated whole batches included — the
    block of weights of an iteration is the same list of numbers, found at the block's new position.
-/
namespace Props.C04
open Model.Weights

/-! ### regrouping by temperature level -/

theorem sum_map_ite_zero (lv : List ℝ) (x c : ℝ) (hx : x ∉ lv) :
    (lv.map fun g => if x = g then c else 0).sum = 0 := by
  induction lv with
  | nil => simp
  | cons g gs ih =>
    have h1 : x ≠ g := fun h => hx (h ▸ List.mem_cons_self)
    have h2 : x ∉ gs := fun h => hx (List.mem_cons_of_mem _ h)
    simp [h1, ih h2]

theorem sum_map_ite_eq (lv : List ℝ) (hnd : lv.Nodup) (x c : ℝ) (hx : x ∈ lv) :
    (lv.map fun g => if x = g then c else 0).sum = c := by
  induction lv with
  | nil => simp at hx
  | cons g gs ih =>
    obtain ⟨hg, hgs⟩ := List.nodup_cons.mp hnd
    by_cases h1 : x = g
    · subst h1
      simp [sum_map_ite_zero gs x c hg]
    · have h2 : x ∈ gs := by
        rcases List.mem_cons.mp hx with h | h
        · exact absurd h h1
        · exact h
      simp [h1, ih hgs h2]

/-- a sum over the iterations, regrouped by a duplicate-free list of levels that contains every stored β_t -/
theorem sum_by_level (h : List (Batch ℝ)) (f : Batch ℝ → ℝ) (lv : List ℝ) (hnd : lv.Nodup)
    (hcov : ∀ b ∈ h, b.beta ∈ lv) :
    (h.map f).sum = (lv.map fun g => ((h.filter fun b => b.beta = g).map f).sum).sum := by
  induction h with
  | nil => simp
  | cons b bs ih =>
    have hb : b.beta ∈ lv := hcov b List.mem_cons_self
    have ih' := ih (fun b' hb' => hcov b' (List.mem_cons_of_mem _ hb'))
    have hsplit : (fun g => (((b :: bs).filter fun b' => b'.beta = g).map f).sum)
        = fun g => (if b.beta = g then f b else 0) + ((bs.filter fun b' => b'.beta = g).map f).sum := by
      funext g
      by_cases hg : b.beta = g
      · simp [hg]
      · simp [hg]
    rw [hsplit, List.sum_map_add, sum_map_ite_eq lv hnd b.beta (f b) hb, ← ih']
    simp

/-- the per-level coefficient: `Σ_{t : β_t = g} (n_t/N)·exp(−z_t)` over ALL iterations stored at temperature `g` -/
noncomputable def levelCoef (h : List (Batch ℝ)) (g : ℝ) : ℝ :=
  ((h.filter fun b => b.beta = g).map fun b => ((b.logl.length : ℝ) / (nTotal h : ℝ)) * Real.exp (-b.logz)).sum

/-- **the mixture by distinct temperature**: `Σ_t (n_t/N) e^{β_t ℓ − z_t} = Σ_g e^{g ℓ} · levelCoef g` for every
    duplicate-free list of levels covering the stored temperatures — wherever in the history equal β_t sit -/
theorem C04_mix_by_level (h : List (Batch ℝ)) (lv : List ℝ) (hnd : lv.Nodup) (hcov : ∀ b ∈ h, b.beta ∈ lv) (l : ℝ) :
    mix h l = (lv.map fun g => Real.exp (g * l) * levelCoef h g).sum := by
  unfold mix
  rw [sum_by_level h _ lv hnd hcov]
  congr 1
  apply List.map_congr_left
  intro g _
  unfold levelCoef
  rw [← List.sum_map_mul_left]
  congr 1
  apply List.map_congr_left
  intro b hb
  have hbg : b.beta = g := by
    have := (List.mem_filter.mp hb).2
    simpa using this
  rw [hbg, sub_eq_add_neg, Real.exp_add]
  ring

/-- the canonical choice of levels: the stored temperatures with duplicates removed -/
theorem C04_mix_by_dedup (h : List (Batch ℝ)) (l : ℝ) :
    mix h l = (((h.map (·.beta)).dedup).map fun g => Real.exp (g * l) * levelCoef h g).sum :=
  C04_mix_by_level h _ (List.nodup_dedup _) (fun _ hb => List.mem_dedup.mpr (List.mem_map_of_mem hb)) l

/-- the same at the level of what the function returns -/
theorem C04_weights_by_level (h : List (Batch ℝ)) (hwf : WF h) (β : ℝ) :
    (logw h β false).1 = (flatLogl h).map fun l =>
      β * l - Real.log ((((h.map (·.beta)).dedup).map fun g => Real.exp (g * l) * levelCoef h g).sum) := by
  rw [C04_formula h hwf]
  apply List.map_congr_left
  intro l _
  unfold specRaw
  rw [C04_mix_by_dedup]

/-- two iterations at one temperature AND with one evidence value are indistinguishable from a single iteration
    holding all their particles: the correct (and only) merge of whole iterations -/
theorem C04_merge_equal_batches (pre post : List (Batch ℝ)) (g z : ℝ) (l1 l2 : List ℝ) (l : ℝ) :
    mix (pre ++ ⟨g, z, l1⟩ :: ⟨g, z, l2⟩ :: post) l = mix (pre ++ ⟨g, z, l1 ++ l2⟩ :: post) l := by
  have hN : nTotal (pre ++ ⟨g, z, l1⟩ :: ⟨g, z, l2⟩ :: post) = nTotal (pre ++ ⟨g, z, l1 ++ l2⟩ :: post) := by
    simp [nTotal, List.sum_append, Nat.add_assoc]
  unfold mix
  rw [hN]
  simp only [List.map_append, List.map_cons, List.sum_append, List.sum_cons, List.length_append, Nat.cast_add]
  ring

/-! ### a single stored iteration (the state after the first `execute_iteration`) -/

/-- with one stored iteration `(β₁, z₁)` every unnormalised log-weight at target β is `(β − β₁)·ℓ + z₁`, whatever the batch
    size: the weights of a first warm-up batch (β₁ = 0) at target β are `β ℓ + z₁`; re-targeting at β₁ itself gives the
    constant `z₁` (`C04_single_batch_fixed_point`) -/
theorem C04_single_batch (b : Batch ℝ) (hb : 1 ≤ b.logl.length) (β : ℝ) :
    (logw [b] β false).1 = b.logl.map fun l => (β - b.beta) * l + b.logz := by
  have hwf : WF [b] := ⟨by simp, by intro b' hb'; simp at hb'; subst hb'; exact hb⟩
  have hn : (0 : ℝ) < (b.logl.length : ℝ) := by exact_mod_cast hb
  rw [C04_formula _ hwf]
  have hflat : flatLogl [b] = b.logl := by simp [flatLogl]
  rw [hflat]
  apply List.map_congr_left
  intro l _
  unfold specRaw mix
  simp only [nTotal, List.map_cons, List.map_nil, List.sum_cons, List.sum_nil, add_zero]
  rw [div_self hn.ne', one_mul, Real.log_exp]
  ring

/-! ### order-independence, position by position -/

theorem flatLogl_append (a b : List (Batch ℝ)) : flatLogl (a ++ b) = flatLogl a ++ flatLogl b := by
  simp [flatLogl, List.flatMap_append]

/-- the block of iteration `b` inside any per-particle image of the flat history -/
theorem slice_of_map (pre post : List (Batch ℝ)) (b : Batch ℝ) (w : ℝ → ℝ) :
    ((((flatLogl (pre ++ b :: post)).map w).drop (nTotal pre)).take b.logl.length) = b.logl.map w := by
  have h1 : flatLogl (pre ++ b :: post) = flatLogl pre ++ (b.logl ++ flatLogl post) := by
    rw [flatLogl_append]; simp [flatLogl, List.flatMap_cons]
  rw [h1, List.map_append, List.map_append]
  have hl : ((flatLogl pre).map w).length = nTotal pre := by rw [List.length_map, length_flatLogl]
  rw [List.drop_left' hl]
  have hl2 : (b.logl.map w).length = b.logl.length := List.length_map _
  rw [List.take_left' hl2]

/-- **order-independence for ANY permutation, block by block.**  Let the same iteration `b` sit behind `pre` in one
    stored order and behind `pre'` in another order of the same iterations (any rearrangement: equal β_t, equal
    evidence values, even identical batches may occur any number of times).  Then the weights the function returns for
    `b`'s particles — the block starting at `Σ_{pre} n_t`, respectively `Σ_{pre'} n_t` — are the same list of numbers,
    for the unnormalised and for the normalised weights; and the evidence is the same. -/
theorem C04_perm_slices (pre post pre' post' : List (Batch ℝ)) (b : Batch ℝ)
    (p : (pre ++ b :: post).Perm (pre' ++ b :: post')) (hwf : WF (pre ++ b :: post)) (β : ℝ) (nrm : Bool) :
    (((logw (pre ++ b :: post) β nrm).1.drop (nTotal pre)).take b.logl.length)
      = (((logw (pre' ++ b :: post') β nrm).1.drop (nTotal pre')).take b.logl.length) ∧
    (logw (pre ++ b :: post) β nrm).2 = (logw (pre' ++ b :: post') β nrm).2 := by
  obtain ⟨w, h1, h2, h3⟩ := C04_perm_invariant p hwf β nrm
  refine ⟨?_, h3⟩
  rw [h1, h2, slice_of_map, slice_of_map]

/-- … and the block is the image of the iteration's own log-likelihoods under the order-independent weight function -/
theorem C04_perm_block_value (pre post : List (Batch ℝ)) (b : Batch ℝ) (hwf : WF (pre ++ b :: post)) (β : ℝ) :
    (((logw (pre ++ b :: post) β false).1.drop (nTotal pre)).take b.logl.length)
        = b.logl.map (specRaw (pre ++ b :: post) β) ∧
    (((logw (pre ++ b :: post) β true).1.drop (nTotal pre)).take b.logl.length)
        = b.logl.map (specNorm (pre ++ b :: post) β) := by
  rw [C04_formula _ hwf, C04_normalised _ hwf, slice_of_map, slice_of_map]
  exact ⟨rfl, rfl⟩

/-! ### non-vacuity -/

/-- β = (0, 1, 3/10, 1): temperature 1 stored twice, NOT next to each other, with different evidence values and sizes -/
noncomputable def hd : List (Batch ℝ) := [⟨0, 0, [-1, -2]⟩, ⟨1, -1/2, [-3/10]⟩, ⟨3/10, 1/4, [2, 5, 7]⟩, ⟨1, 3, [0, 1]⟩]

theorem wf_hd : WF hd := by
  refine ⟨by simp [hd], ?_⟩
  intro b hb
  simp only [hd, List.mem_cons, List.not_mem_nil, or_false] at hb
  rcases hb with rfl | rfl | rfl | rfl <;> simp

/-- the level 1 collects the second AND the fourth iteration -/
example : levelCoef hd 1 = 1 / 8 * Real.exp (1 / 2) + 2 / 8 * Real.exp (-3) := by
  have hN : (nTotal hd : ℝ) = 8 := by norm_num [hd, nTotal]
  unfold levelCoef
  rw [hN]
  have : (hd.filter fun b => b.beta = 1) = [⟨1, -1/2, [-3/10]⟩, ⟨1, 3, [0, 1]⟩] := by
    simp only [hd, List.filter_cons]
    norm_num
  rw [this]
  simp
  norm_num

example (l : ℝ) : mix hd l
    = Real.exp (0 * l) * levelCoef hd 0 + (Real.exp (1 * l) * levelCoef hd 1 + (Real.exp (3 / 10 * l) * levelCoef hd (3/10) + 0)) := by
  have := C04_mix_by_level hd [0, 1, 3/10] (by norm_num) (by
    intro b hb
    simp only [hd, List.mem_cons, List.not_mem_nil, or_false] at hb
    rcases hb with rfl | rfl | rfl | rfl <;> simp) l
  simpa using this

/-- the fourth iteration (behind 6 particles) moved to the front (behind none): the same two numbers -/
noncomputable def hdPre : List (Batch ℝ) := [⟨0, 0, [-1, -2]⟩, ⟨1, -1/2, [-3/10]⟩, ⟨3/10, 1/4, [2, 5, 7]⟩]
noncomputable def bLast : Batch ℝ := ⟨1, 3, [0, 1]⟩
theorem hd_split : hd = hdPre ++ bLast :: [] := rfl

example : (((logw hd 1 true).1.drop 6).take 2) = (((logw (bLast :: hdPre) 1 true).1.drop 0).take 2) := by
  have p : (hdPre ++ bLast :: []).Perm ([] ++ bLast :: hdPre) := by
    exact List.perm_append_comm (l₁ := hdPre) (l₂ := [bLast])
  have h := (C04_perm_slices hdPre [] [] hdPre bLast p (hd_split ▸ wf_hd) 1 true).1
  have e1 : nTotal hdPre = 6 := by simp [hdPre, nTotal]
  have e2 : nTotal ([] : List (Batch ℝ)) = 0 := rfl
  have e3 : bLast.logl.length = 2 := rfl
  rw [e1, e2, e3, ← hd_split] at h
  exact h

/-- targets outside [0, 1]: the formula (and everything derived from it) holds for every real target -/
example : (logw hd 2 false).1 = (flatLogl hd).map (specRaw hd 2) ∧ (logw hd (-1) false).1 = (flatLogl hd).map (specRaw hd (-1)) :=
  ⟨C04_formula hd wf_hd 2, C04_formula hd wf_hd (-1)⟩
example : (((logw hd (-1) true).1).map Real.exp).sum = 1 := C04_normalised_sum_one hd wf_hd (-1)
/-- a warm-up batch of three particles with recorded evidence `log(3/4)`, re-targeted at β = 1/2 -/
example : (logw [(⟨0, Real.log (3 / 4), [2, -4, 6]⟩ : Batch ℝ)] (1 / 2) false).1
    = [(1 / 2 - 0) * 2 + Real.log (3 / 4), (1 / 2 - 0) * (-4) + Real.log (3 / 4), (1 / 2 - 0) * 6 + Real.log (3 / 4)] := by
  rw [C04_single_batch _ (by simp)]; simp

end Props.C04
