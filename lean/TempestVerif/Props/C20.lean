import TempestVerif.Model.Ess
import TempestVerif.Model.Trim
import TempestVerif.Lemmas.ScReal
import TempestVerif.Lemmas.VolVar
import Mathlib.Analysis.SpecialFunctions.Exp
import Mathlib.Tactic
/-
  C20 — weight utilities: ESS bounds, trimming contract, affine-invariant volume metric.
  Theorems are about `Model.Ess`, `Model.Trim` at `ℝ` (exact arithmetic) and about the real-matrix model
  `Lemmas.VolVar.volvar` of `volume_variation`; IEEE rounding is covered by the correspondence check only.
    ESS       : C20_ess_bounds, C20_ess_scale_invariant, C20_ess_uniform, C20_compute_ess, C20_compute_ess_shift, C20_compute_ess_bounds
    trimming  : C20_trim_upper_set (+ C20_trim_mask_raw, C20_trim_aligned), C20_trim_normalised, C20_trim_ess,
                C20_trim_maximal, C20_trim_terminates_any (C20_trim_terminates), C20_trim_bottom
    volume    : C20_volvar_nonneg, C20_volvar_weight_scale_invariant, C20_volvar_affine_invariant (full-rank guard)
-/
namespace Props.C20
open Model.Ess Model.Trim

theorem sum_def (l : List ℝ) : Sc.sum l = l.sum := by
  unfold Sc.sum
  rw [List.sum_eq_foldl]
  simp only [ScReal.zero_def]
  rfl

theorem normalise_def (w : List ℝ) : normalise w = w.map (fun x => x / w.sum) := by
  simp [normalise, sum_def]

theorem sumSq_def (w : List ℝ) : sumSq w = (w.map (fun x => x * x)).sum := by
  simp [sumSq, sum_def]

theorem ess_def (w : List ℝ) : ess w = 1 / (( w.map (fun x => x / w.sum)).map (fun x => x * x)).sum := by
  simp [ess, normalise_def, sumSq_def]

theorem sum_map_div (l : List ℝ) (c : ℝ) : (l.map (fun x => x / c)).sum = l.sum / c := by
  induction l with
  | nil => simp
  | cons a l ih => simp [ih, add_div]

theorem sumsq_le_sq_sum (l : List ℝ) (h : ∀ x ∈ l, 0 ≤ x) :
    (l.map (fun x => x * x)).sum ≤ l.sum * l.sum := by
  induction l with
  | nil => simp
  | cons a l ih =>
    have ha : 0 ≤ a := h a (by simp)
    have hl : ∀ x ∈ l, 0 ≤ x := fun x hx => h x (by simp [hx])
    have hs := List.sum_nonneg hl
    have := ih hl
    simp only [List.map_cons, List.sum_cons]
    nlinarith [mul_nonneg ha hs]

theorem two_mul_sum_le (a : ℝ) (l : List ℝ) :
    2 * a * l.sum ≤ l.length * (a * a) + (l.map (fun x => x * x)).sum := by
  induction l with
  | nil => simp
  | cons b l ih =>
    simp only [List.map_cons, List.sum_cons, List.length_cons]
    push_cast
    nlinarith [sq_nonneg (a - b)]

theorem sq_sum_le_length_mul (l : List ℝ) :
    l.sum * l.sum ≤ l.length * (l.map (fun x => x * x)).sum := by
  induction l with
  | nil => simp
  | cons a l ih =>
    simp only [List.map_cons, List.sum_cons, List.length_cons]
    push_cast
    nlinarith [two_mul_sum_le a l]


/-! ### effective sample size -/

/-- for normalised weights the sum of squares lies in [1/N, 1] -/
theorem sumsq_normalised_bounds (w : List ℝ) (h0 : ∀ x ∈ w, 0 ≤ x) (hs : 0 < w.sum) :
    let u := w.map (fun x => x / w.sum)
    u.sum = 1 ∧ (∀ x ∈ u, 0 ≤ x) ∧ 0 < (u.map (fun x => x * x)).sum ∧
      (u.map (fun x => x * x)).sum ≤ 1 ∧ 1 ≤ (w.length : ℝ) * (u.map (fun x => x * x)).sum := by
  intro u
  have hu1 : u.sum = 1 := by
    show (w.map (fun x => x / w.sum)).sum = 1
    rw [sum_map_div]; exact div_self hs.ne'
  have hu0 : ∀ x ∈ u, 0 ≤ x := by
    intro x hx
    obtain ⟨y, hy, rfl⟩ := List.mem_map.mp hx
    exact div_nonneg (h0 y hy) hs.le
  have h1 := sumsq_le_sq_sum u hu0
  have h2 := sq_sum_le_length_mul u
  have hlen : u.length = w.length := by simp [u]
  rw [hu1] at h1 h2
  rw [hlen] at h2
  refine ⟨hu1, hu0, ?_, by linarith, by linarith⟩
  by_contra hq
  have hq' : (u.map (fun x => x * x)).sum ≤ 0 := not_lt.mp hq
  have : (w.length : ℝ) * (u.map (fun x => x * x)).sum ≤ 0 :=
    mul_nonpos_of_nonneg_of_nonpos (Nat.cast_nonneg _) hq'
  linarith

/-- ESS lies in [1, N] for non-negative weights with positive sum -/
theorem C20_ess_bounds (w : List ℝ) (h0 : ∀ x ∈ w, 0 ≤ x) (hs : 0 < w.sum) :
    1 ≤ ess w ∧ ess w ≤ w.length := by
  obtain ⟨_, _, hq, hq1, hqN⟩ := sumsq_normalised_bounds w h0 hs
  rw [ess_def]
  constructor
  · rw [le_div_iff₀ hq]; linarith
  · rw [div_le_iff₀ hq]; linarith

/-- ESS is invariant under rescaling of the weights -/
theorem C20_ess_scale_invariant (c : ℝ) (hc : 0 < c) (w : List ℝ) :
    ess (w.map (fun x => c * x)) = ess w := by
  rw [ess_def, ess_def]
  have hsum : (w.map (fun x => c * x)).sum = c * w.sum := by
    have := List.sum_map_mul_left w (fun x => x) c
    simpa using this
  have hmap : (w.map (fun x => c * x)).map (fun x => x / (c * w.sum)) = w.map (fun x => x / w.sum) := by
    rw [List.map_map]
    apply List.map_congr_left
    intro x _
    simp only [Function.comp]
    rw [mul_div_mul_left _ _ hc.ne']
  rw [hsum, hmap]

/-- ESS of `N ≥ 1` equal positive weights is `N` -/
theorem C20_ess_uniform (N : Nat) (hN : 0 < N) (c : ℝ) (hc : 0 < c) :
    ess (List.replicate N c) = N := by
  rw [ess_def]
  have hN' : (N : ℝ) ≠ 0 := by exact_mod_cast hN.ne'
  simp only [List.map_replicate, List.sum_replicate, nsmul_eq_mul]
  field_simp


/-- `compute_ess(logw)` = ESS of `exp(logw)` divided by `N`: the max-shift is mathematically a no-op -/
theorem C20_compute_ess (logw : List ℝ) (h : logw ≠ []) :
    computeEss logw = some (ess (logw.map Real.exp) / logw.length) := by
  cases logw with
  | nil => exact absurd rfl h
  | cons x xs =>
    simp only [computeEss, ScReal.exp_def, ScReal.sub_def, ScReal.div_def, ScReal.ofNat_def]
    have hmap : (x :: xs).map (fun l => Real.exp (l - maxOf x xs))
        = ((x :: xs).map Real.exp).map (fun y => Real.exp (-(maxOf x xs)) * y) := by
      rw [List.map_map]
      apply List.map_congr_left
      intro l _
      simp only [Function.comp]
      rw [← Real.exp_add]; congr 1; ring
    have hess : Sc.div Sc.one (sumSq (normalise ((x :: xs).map (fun l => Real.exp (l - maxOf x xs)))))
        = ess ((x :: xs).map Real.exp) := by
      rw [hmap]
      exact C20_ess_scale_invariant _ (Real.exp_pos _) _
    simp only [ScReal.div_def] at hess
    rw [hess]

/-- `compute_ess` is invariant under adding a constant to all log-weights -/
theorem C20_compute_ess_shift (logw : List ℝ) (c : ℝ) :
    computeEss (logw.map (fun l => l + c)) = computeEss logw := by
  cases logw with
  | nil => rfl
  | cons x xs =>
    rw [C20_compute_ess _ (by simp), C20_compute_ess _ (by simp)]
    have hmap : ((x :: xs).map (fun l => l + c)).map Real.exp
        = ((x :: xs).map Real.exp).map (fun y => Real.exp c * y) := by
      rw [List.map_map, List.map_map]
      apply List.map_congr_left
      intro l _
      simp only [Function.comp]
      rw [Real.exp_add, mul_comm]
    rw [hmap, C20_ess_scale_invariant _ (Real.exp_pos _)]
    simp

/-- hence `compute_ess ∈ [1/N, 1]` -/
theorem C20_compute_ess_bounds (logw : List ℝ) (h : logw ≠ []) :
    ∃ v, computeEss logw = some v ∧ 1 / (logw.length : ℝ) ≤ v ∧ v ≤ 1 := by
  refine ⟨_, C20_compute_ess logw h, ?_⟩
  have hpos : ∀ x ∈ logw.map Real.exp, 0 ≤ x := by
    intro x hx; obtain ⟨y, _, rfl⟩ := List.mem_map.mp hx; exact (Real.exp_pos y).le
  have hlen : 0 < logw.length := List.length_pos_iff.mpr h
  have hsum : 0 < (logw.map Real.exp).sum := by
    cases logw with
    | nil => exact absurd rfl h
    | cons x xs =>
      have : 0 ≤ (xs.map Real.exp).sum := List.sum_nonneg (fun y hy => hpos y (by simp at hy ⊢; right; exact hy))
      simp only [List.map_cons, List.sum_cons]
      have := Real.exp_pos x
      linarith
  have hb := C20_ess_bounds _ hpos hsum
  rw [List.length_map] at hb
  have hN : (0 : ℝ) < logw.length := by exact_mod_cast hlen
  constructor
  · exact div_le_div_of_nonneg_right hb.1 hN.le
  · rw [div_le_one hN]; exact hb.2

example : ess [(1 : ℝ), 1, 2] = 8 / 3 := by
  rw [ess_def]; norm_num
example : (1 : ℝ) ≤ ess [(1 : ℝ), 1, 2] ∧ ess [(1 : ℝ), 1, 2] ≤ 3 := by
  have := C20_ess_bounds [1, 1, 2] (by simp) (by norm_num); simpa using this
example : ess [(3 : ℝ), 0, 0] = 1 := by rw [ess_def]; norm_num
example : computeEss ([0, 0] : List ℝ) = some 1 := by
  rw [C20_compute_ess _ (by simp), ess_def]; norm_num


/-! ### building blocks of the trimming loop: sort, mask indexing, percentile, grid -/

theorem sortAsc_perm (w : List ℝ) : (sortAsc w).Perm w := List.mergeSort_perm _ _

theorem sortAsc_sorted (w : List ℝ) : (sortAsc w).Pairwise (· ≤ ·) := by
  have h := List.pairwise_mergeSort (le := fun a b : ℝ => Sc.le a b)
    (by intro a b c hab hbc; simp only [ScReal.le_def] at *; exact le_trans hab hbc)
    (by intro a b; simp only [Bool.or_eq_true, ScReal.le_def]; exact le_total a b) w
  exact h.imp (by intro a b hab; simpa using hab)

theorem filterMask_all_true {σ : Type} (l : List σ) : filterMask l (l.map fun _ => true) = l := by
  induction l with
  | nil => rfl
  | cons a l ih => simp only [List.map_cons, filterMask, if_true, ih]

theorem filterMask_map_eq_filter {σ : Type} (l : List σ) (f : σ → Bool) :
    filterMask l (l.map f) = l.filter f := by
  induction l with
  | nil => rfl
  | cons a l ih =>
    by_cases h : f a = true <;> simp [filterMask, h, ih]

theorem filterMask_sublist {σ : Type} (l : List σ) (m : List Bool) : (filterMask l m).Sublist l := by
  induction l generalizing m with
  | nil => cases m <;> simp [filterMask]
  | cons a l ih =>
    cases m with
    | nil => simp [filterMask]
    | cons b m =>
      cases b
      · simpa [filterMask] using (ih m).cons a
      · simpa [filterMask] using (ih m)

/-- alignment: indexing two arrays of the same length with the same mask selects the same positions -/
theorem filterMask_zip {σ β : Type} (a : List σ) (b : List β) (m : List Bool) :
    (filterMask a m).zip (filterMask b m) = filterMask (a.zip b) m := by
  induction a generalizing b m with
  | nil => cases m <;> simp [filterMask]
  | cons x a ih =>
    cases b with
    | nil => cases m <;> simp [filterMask]
    | cons y b =>
      cases m with
      | nil => simp [filterMask]
      | cons c m => cases c <;> simp [filterMask, ih]

theorem filterMask_length_eq {σ β : Type} (a : List σ) (b : List β) (m : List Bool)
    (h : a.length = b.length) : (filterMask a m).length = (filterMask b m).length := by
  induction a generalizing b m with
  | nil => cases b <;> cases m <;> simp_all [filterMask]
  | cons x a ih =>
    cases b with
    | nil => simp at h
    | cons y b =>
      cases m with
      | nil => simp [filterMask]
      | cons c m =>
        have := ih b m (by simpa using h)
        cases c <;> simp [filterMask, this]

theorem floorIdx_spec (v : ℝ) (hv : 0 ≤ v) (k : Nat) :
    (floorIdx v k : ℝ) ≤ v ∧ floorIdx v k ≤ k ∧ (v < (floorIdx v k : ℝ) + 1 ∨ floorIdx v k = k) := by
  induction k with
  | zero => simp [floorIdx, hv]
  | succ k ih =>
    by_cases h : (k : ℝ) + 1 ≤ v
    · have : floorIdx v (k + 1) = k + 1 := by simp [floorIdx, h]
      rw [this]; exact ⟨by push_cast; exact h, le_refl _, Or.inr rfl⟩
    · have : floorIdx v (k + 1) = floorIdx v k := by simp [floorIdx, h]
      rw [this]
      obtain ⟨h1, h2, h3⟩ := ih
      refine ⟨h1, by omega, Or.inl ?_⟩
      rcases h3 with h3 | h3
      · exact h3
      · rw [h3]; linarith

/-- over ℝ both forms of numpy's `_lerp` are the same affine interpolation -/
theorem lerp_def (a b t : ℝ) : lerp a b t = a + (b - a) * t := by
  unfold lerp
  by_cases h : (5 : ℝ) / 10 ≤ t <;> simp [h]; ring

theorem linspace_range (bins i : Nat) (hi : i < bins) :
    0 ≤ (linspace0_99 bins i : ℝ) ∧ (linspace0_99 bins i : ℝ) ≤ 99 := by
  unfold linspace0_99
  by_cases h1 : bins ≤ 1
  · simp [h1]
  · by_cases h2 : i + 1 = bins
    · simp [h1, h2]
    · simp only [h1, h2, if_false, ScReal.mul_def, ScReal.div_def, ScReal.ofNat_def, Nat.cast_ofNat]
      have hb : (0 : ℝ) < ((bins - 1 : ℕ) : ℝ) := by
        have : 0 < bins - 1 := by omega
        exact_mod_cast this
      have hib : (i : ℝ) ≤ ((bins - 1 : ℕ) : ℝ) := by
        have : i ≤ bins - 1 := by omega
        exact_mod_cast this
      have hi0 : (0 : ℝ) ≤ i := Nat.cast_nonneg i
      constructor
      · positivity
      · rw [← mul_div_assoc, div_le_iff₀ hb]; linarith

theorem linspace_zero (bins : Nat) : (linspace0_99 bins 0 : ℝ) = 0 := by
  unfold linspace0_99
  by_cases h1 : bins ≤ 1
  · simp [h1]
  · have h2 : ¬ (0 + 1 = bins) := by omega
    simp [h1, h2]

/-- the percentile exists for `0 ≤ p` on a non-empty sorted array and does not exceed its maximum -/
theorem percentile_spec (sorted : List ℝ) (hs : sorted.Pairwise (· ≤ ·)) (hne : sorted ≠ [])
    (p : ℝ) (hp0 : 0 ≤ p) :
    ∃ θ, percentileLinear sorted p = some θ ∧ ∃ x ∈ sorted, θ ≤ x := by
  unfold percentileLinear
  simp only [ScReal.mul_def, ScReal.div_def, ScReal.ofNat_def, ScReal.sub_def, ScReal.le_def, Nat.cast_ofNat]
  set n := sorted.length with hn
  have hnpos : 0 < n := List.length_pos_iff.mpr hne
  set v : ℝ := ((n - 1 : ℕ) : ℝ) * (p / 100) with hv
  have hn1 : (0 : ℝ) ≤ ((n - 1 : ℕ) : ℝ) := Nat.cast_nonneg _
  have hv0 : 0 ≤ v := by positivity
  by_cases hcase : ((n - 1 : ℕ) : ℝ) ≤ v
  · simp only [hcase, if_true]
    refine ⟨sorted.getLast hne, List.getLast?_eq_some_getLast hne, _, List.getLast_mem hne, le_refl _⟩
  · simp only [hcase, if_false]
    obtain ⟨h1, h2, h3⟩ := floorIdx_spec v hv0 (n - 1)
    set lo := floorIdx v (n - 1) with hlo
    have hlt : lo < n - 1 := by
      have : (lo : ℝ) < ((n - 1 : ℕ) : ℝ) := lt_of_le_of_lt h1 (not_le.mp hcase)
      exact_mod_cast this
    have hγ1 : v < (lo : ℝ) + 1 := by
      rcases h3 with h3 | h3
      · exact h3
      · omega
    have hlo_lt : lo < sorted.length := by omega
    have hlo1_lt : lo + 1 < sorted.length := by omega
    rw [List.getElem?_eq_getElem hlo_lt, List.getElem?_eq_getElem hlo1_lt]
    refine ⟨lerp sorted[lo] sorted[lo + 1] (v - ↑lo), rfl, sorted[lo + 1], List.getElem_mem _, ?_⟩
    rw [lerp_def]
    have hab : sorted[lo] ≤ sorted[lo + 1] :=
      (List.pairwise_iff_getElem.mp hs) lo (lo + 1) hlo_lt hlo1_lt (by omega)
    nlinarith

/-- percentile 0 is the minimum -/
theorem percentile_zero (sorted : List ℝ) (hs : sorted.Pairwise (· ≤ ·)) (hne : sorted ≠ []) :
    ∃ θ, percentileLinear sorted 0 = some θ ∧ ∀ x ∈ sorted, θ ≤ x := by
  match sorted, hs, hne with
  | [a], _, _ =>
    refine ⟨a, ?_, by simp⟩
    simp [percentileLinear]
  | a :: b :: tl, hs, _ =>
    refine ⟨a, ?_, ?_⟩
    · unfold percentileLinear
      simp only [ScReal.mul_def, ScReal.div_def, ScReal.ofNat_def, ScReal.sub_def, zero_div, mul_zero]
      have hlen : (a :: b :: tl).length - 1 = tl.length + 1 := by simp
      rw [hlen]
      have hcase : ¬ (((tl.length + 1 : ℕ) : ℝ) ≤ 0) := by
        push_cast; intro h; have := Nat.cast_nonneg (α := ℝ) tl.length; linarith
      simp only [ScReal.le_def, hcase, if_false]
      have hfl : floorIdx (0 : ℝ) (tl.length + 1) = 0 := by
        have := (floorIdx_spec 0 (le_refl _) (tl.length + 1)).1
        have h0 : (0 : ℝ) ≤ (floorIdx (0 : ℝ) (tl.length + 1) : ℝ) := Nat.cast_nonneg _
        have : (floorIdx (0 : ℝ) (tl.length + 1) : ℝ) = 0 := le_antisymm this h0
        exact_mod_cast this
      rw [hfl]
      simp [lerp_def]
    · intro x hx
      rcases List.mem_cons.mp hx with rfl | hx
      · exact le_refl _
      · exact (List.pairwise_cons.mp hs).1 x hx


/-! ### the trimming loop -/

/-- what the pass at percentile `p` produced, in ordinary mathematical terms -/
theorem step_spec (wn sorted : List ℝ) (eT p : ℝ) (s : Step ℝ) (h : step wn sorted eT p = some s) :
    percentileLinear sorted p = some s.thr ∧
    s.mask = wn.map (fun x => Sc.le s.thr x) ∧
    s.wt = normalise (filterMask wn s.mask) ∧
    s.ratio = 1 / sumSq s.wt / eT := by
  unfold step at h
  cases hp : percentileLinear sorted p with
  | none => simp [hp] at h
  | some θ =>
    simp only [hp, Option.map_some, Option.some.injEq] at h
    subst h
    simp

/-- the loop stops at the first grid index (from the top) whose pass meets the ESS test, or at index 0 -/
theorem search_spec (wn sorted : List ℝ) (eT e : ℝ) (bins i j : Nat) (s : Step ℝ)
    (h : search wn sorted eT e bins i = some (j, s)) :
    j ≤ i ∧ step wn sorted eT (linspace0_99 bins j) = some s ∧ (e ≤ s.ratio ∨ j = 0) ∧
    ∀ k, j < k → k ≤ i → ∃ s', step wn sorted eT (linspace0_99 bins k) = some s' ∧ s'.ratio < e := by
  induction i with
  | zero =>
    unfold search at h
    cases hs : step wn sorted eT (linspace0_99 bins 0) with
    | none => simp [hs] at h
    | some s0 =>
      simp only [hs, Option.some.injEq, Prod.mk.injEq] at h
      obtain ⟨rfl, rfl⟩ := h
      exact ⟨le_refl _, hs, Or.inr rfl, fun k hk1 hk2 => by omega⟩
  | succ i ih =>
    unfold search at h
    cases hs : step wn sorted eT (linspace0_99 bins (i + 1)) with
    | none => simp [hs] at h
    | some s0 =>
      simp only [hs] at h
      by_cases hr : e ≤ s0.ratio
      · simp only [ScReal.le_def, hr, if_true, Option.some.injEq, Prod.mk.injEq] at h
        obtain ⟨rfl, rfl⟩ := h
        exact ⟨le_refl _, hs, Or.inl hr, fun k hk1 hk2 => by omega⟩
      · simp only [ScReal.le_def, hr, if_false] at h
        obtain ⟨h1, h2, h3, h4⟩ := ih h
        refine ⟨by omega, h2, h3, fun k hk1 hk2 => ?_⟩
        by_cases hk : k = i + 1
        · subst hk; exact ⟨s0, hs, not_le.mp hr⟩
        · exact h4 k hk1 (by omega)

/-- the loop always stops (at index 0 at the latest) if every pass is defined -/
theorem search_total (wn sorted : List ℝ) (eT e : ℝ) (bins i : Nat)
    (hdef : ∀ k, k ≤ i → ∃ s, step wn sorted eT (linspace0_99 bins k) = some s) :
    ∃ r, search wn sorted eT e bins i = some r := by
  induction i with
  | zero =>
    obtain ⟨s, hs⟩ := hdef 0 (le_refl _)
    exact ⟨(0, s), by simp [search, hs]⟩
  | succ i ih =>
    obtain ⟨s, hs⟩ := hdef (i + 1) (le_refl _)
    by_cases hr : e ≤ s.ratio
    · exact ⟨(i + 1, s), by simp [search, hs, hr]⟩
    · obtain ⟨r, hr'⟩ := ih (fun k hk => hdef k (by omega))
      exact ⟨r, by simp [search, hs, hr, hr']⟩

/-- unfolding `trim` into the stopping pass -/
theorem trim_some {σ : Type} (samples : List σ) (w : List ℝ) (e : ℝ) (bins : Nat) (s' : List σ) (w' : List ℝ)
    (h : trim samples w e bins = some (s', w')) :
    ∃ j st, 0 < bins ∧ j ≤ bins - 1 ∧
      search (normalise w) (sortAsc (normalise w)) (Sc.div Sc.one (sumSq (normalise w))) e bins (bins - 1) = some (j, st) ∧
      s' = filterMask samples st.mask ∧ w' = st.wt := by
  unfold trim trimStop at h
  by_cases hb : bins = 0
  · simp [hb] at h
  · simp only [hb, if_false] at h
    cases hs : search (normalise w) (sortAsc (normalise w)) (Sc.div Sc.one (sumSq (normalise w))) e bins (bins - 1) with
    | none => rw [hs] at h; simp at h
    | some r =>
      obtain ⟨j, st⟩ := r
      rw [hs] at h
      simp only [Option.map_some, Option.some.injEq, Prod.mk.injEq] at h
      exact ⟨j, st, by omega, (search_spec _ _ _ _ _ _ _ _ hs).1, rfl, h.1.symm, h.2.symm⟩

/-- **upper set + alignment.** Whatever `trim_weights` returns is obtained from ONE boolean mask
    `m_i = (θ ≤ wn_i)` on the normalised weights `wn`, where `θ` is the percentile of `wn` at one of the grid points:
    the returned samples are `samples[m]`, the returned weights are `wn[m]` renormalised, and `wn[m]` consists of
    exactly the normalised weights that are `≥ θ`. -/
theorem C20_trim_upper_set {σ : Type} (samples : List σ) (w : List ℝ) (e : ℝ) (bins : Nat)
    (s' : List σ) (w' : List ℝ) (h : trim samples w e bins = some (s', w')) :
    ∃ (θ : ℝ) (j : Nat), j < bins ∧
      percentileLinear (sortAsc (normalise w)) (linspace0_99 bins j) = some θ ∧
      let m := (normalise w).map (fun x => Sc.le θ x)
      s' = filterMask samples m ∧
      w' = normalise (filterMask (normalise w) m) ∧
      filterMask (normalise w) m = (normalise w).filter (fun x => decide (θ ≤ x)) := by
  obtain ⟨j, st, hb, hj, hs, rfl, rfl⟩ := trim_some samples w e bins s' w' h
  obtain ⟨_, hstep, _, _⟩ := search_spec _ _ _ _ _ _ _ _ hs
  obtain ⟨hp, hm, hw, _⟩ := step_spec _ _ _ _ _ hstep
  refine ⟨st.thr, j, by omega, hp, ?_⟩
  intro m
  have hmm : st.mask = m := hm
  refine ⟨by rw [hmm], by rw [hw, hmm], ?_⟩
  show filterMask (normalise w) ((normalise w).map _) = _
  rw [filterMask_map_eq_filter]
  congr 1

/-- the same mask expressed on the raw (un-normalised) weights: `w_i ≥ θ·Σw` -/
theorem C20_trim_mask_raw (w : List ℝ) (hs : 0 < w.sum) (θ : ℝ) :
    (normalise w).map (fun x => Sc.le θ x) = w.map (fun x => Sc.le (θ * w.sum) x) := by
  rw [normalise_def, List.map_map]
  apply List.map_congr_left
  intro x _
  simp only [Function.comp, Sc.le]
  congr 1
  rw [le_div_iff₀ hs]

/-- alignment, spelled out on pairs: for arrays of equal length the (sample, weight) pairs that survive are exactly
    the original pairs whose weight is `≥ θ`, in the original order -/
theorem C20_trim_aligned {σ : Type} (samples : List σ) (wn : List ℝ) (θ : ℝ) (hl : samples.length = wn.length) :
    let m := wn.map (fun x => Sc.le θ x)
    (filterMask samples m).zip (filterMask wn m) = (samples.zip wn).filter (fun q => decide (θ ≤ q.2)) ∧
    (filterMask samples m).length = (filterMask wn m).length ∧
    (filterMask samples m).Sublist samples := by
  intro m
  refine ⟨?_, filterMask_length_eq _ _ _ hl, filterMask_sublist _ _⟩
  rw [filterMask_zip]
  have : m = (samples.zip wn).map (fun q => decide (θ ≤ q.2)) := by
    show wn.map _ = _
    have h2 : (samples.zip wn).map (fun q => decide (θ ≤ q.2)) = ((samples.zip wn).map Prod.snd).map (fun x => decide (θ ≤ x)) := by
      rw [List.map_map]; rfl
    rw [h2, List.map_snd_zip (by omega)]
    apply List.map_congr_left
    intro x _
    simp [Sc.le]
  rw [this, filterMask_map_eq_filter]


theorem normalise_of_sum_one (l : List ℝ) (h : l.sum = 1) : normalise l = l := by
  rw [normalise_def, h]; simp

/-- facts about the in-place normalised weights -/
theorem wn_facts (w : List ℝ) (h0 : ∀ x ∈ w, 0 ≤ x) (hs : 0 < w.sum) :
    (normalise w).sum = 1 ∧ (∀ x ∈ normalise w, 0 ≤ x) ∧ 0 < sumSq (normalise w) ∧ normalise w ≠ [] := by
  obtain ⟨h1, h2, h3, _, _⟩ := sumsq_normalised_bounds w h0 hs
  rw [sumSq_def, normalise_def]
  refine ⟨h1, h2, h3, ?_⟩
  intro hnil
  rw [hnil] at h1; simp at h1

/-- the kept weights have positive sum: the threshold never exceeds the largest weight -/
theorem kept_sum_pos (wn : List ℝ) (h1 : wn.sum = 1) (h0 : ∀ x ∈ wn, 0 ≤ x) (hne : wn ≠ [])
    (p θ : ℝ) (hp0 : 0 ≤ p) (hp : percentileLinear (sortAsc wn) p = some θ) :
    0 < (wn.filter (fun x => decide (θ ≤ x))).sum := by
  by_cases hθ : θ ≤ 0
  · have : wn.filter (fun x => decide (θ ≤ x)) = wn := by
      rw [List.filter_eq_self]
      intro x hx; simpa using le_trans hθ (h0 x hx)
    rw [this, h1]; exact one_pos
  · have hne' : sortAsc wn ≠ [] := by
      intro h; have := (sortAsc_perm wn).length_eq; rw [h] at this
      exact hne (List.length_eq_zero_iff.mp this.symm)
    obtain ⟨θ', hθ', x, hx, hle⟩ := percentile_spec (sortAsc wn) (sortAsc_sorted wn) hne' p hp0
    rw [hp] at hθ'; injection hθ' with hθ'; subst hθ'
    have hxw : x ∈ wn := (sortAsc_perm wn).mem_iff.mp hx
    have hxf : x ∈ wn.filter (fun x => decide (θ ≤ x)) := by
      rw [List.mem_filter]; exact ⟨hxw, by simpa using hle⟩
    have hnn : ∀ y ∈ wn.filter (fun x => decide (θ ≤ x)), 0 ≤ y :=
      fun y hy => h0 y (List.mem_filter.mp hy).1
    have := List.single_le_sum hnn x hxf
    linarith [not_le.mp hθ]

/-- **normalisation.** The returned weights sum to 1 -/
theorem C20_trim_normalised {σ : Type} (samples : List σ) (w : List ℝ) (e : ℝ) (bins : Nat)
    (h0 : ∀ x ∈ w, 0 ≤ x) (hs : 0 < w.sum)
    (s' : List σ) (w' : List ℝ) (h : trim samples w e bins = some (s', w')) : w'.sum = 1 := by
  obtain ⟨θ, j, hj, hp, _, hw', hf⟩ := C20_trim_upper_set samples w e bins s' w' h
  obtain ⟨h1, hnn, _, hne⟩ := wn_facts w h0 hs
  have hpos := kept_sum_pos (normalise w) h1 hnn hne _ θ (linspace_range bins j hj).1 hp
  rw [hw', hf, normalise_def, sum_map_div]
  exact div_self hpos.ne'

/-- the pass at grid index 0: percentile 0 is the minimum, the mask keeps everything, the ESS ratio is exactly 1 -/
theorem step_zero (w : List ℝ) (h0 : ∀ x ∈ w, 0 ≤ x) (hs : 0 < w.sum) (bins : Nat) (s : Step ℝ)
    (hstep : step (normalise w) (sortAsc (normalise w)) (Sc.div Sc.one (sumSq (normalise w))) (linspace0_99 bins 0) = some s) :
    s.mask = (normalise w).map (fun _ => true) ∧ s.wt = normalise w ∧ s.ratio = 1 := by
  obtain ⟨h1, hnn, hq, hne⟩ := wn_facts w h0 hs
  have hne' : sortAsc (normalise w) ≠ [] := by
    intro h; have := (sortAsc_perm (normalise w)).length_eq; rw [h] at this
    exact hne (List.length_eq_zero_iff.mp this.symm)
  have hsorted := sortAsc_sorted (normalise w)
  obtain ⟨hp, hm, hw, hratio⟩ := step_spec _ _ _ _ _ hstep
  rw [linspace_zero] at hp
  obtain ⟨θ, hθ, hmin⟩ := percentile_zero _ hsorted hne'
  rw [hp] at hθ; injection hθ with hθ
  have hmask : s.mask = (normalise w).map (fun _ => true) := by
    rw [hm]
    apply List.map_congr_left
    intro x hx
    rw [ScReal.le_def, hθ]
    exact hmin x ((sortAsc_perm _).mem_iff.mpr hx)
  rw [hmask, filterMask_all_true, normalise_of_sum_one _ h1] at hw
  refine ⟨hmask, hw, ?_⟩
  rw [hratio, hw]
  simp only [ScReal.div_def, ScReal.one_def]
  rw [div_self (by positivity)]

/-- **ESS guarantee.** For a requested fraction `e ≤ 1` the ESS of what is returned is at least `e` times the untrimmed ESS
    (either the stop test held, or the loop reached grid index 0 where everything is kept and the ratio is 1) -/
theorem C20_trim_ess {σ : Type} (samples : List σ) (w : List ℝ) (e : ℝ) (bins : Nat)
    (h0 : ∀ x ∈ w, 0 ≤ x) (hs : 0 < w.sum) (he : e ≤ 1)
    (s' : List σ) (w' : List ℝ) (h : trim samples w e bins = some (s', w')) : e * ess w ≤ ess w' := by
  have hsum := C20_trim_normalised samples w e bins h0 hs s' w' h
  obtain ⟨j, st, _, _, hsr, _, rfl⟩ := trim_some samples w e bins s' w' h
  obtain ⟨_, hstep, hr, _⟩ := search_spec _ _ _ _ _ _ _ _ hsr
  have hr' : e ≤ st.ratio := by
    rcases hr with hr | rfl
    · exact hr
    · rw [(step_zero w h0 hs bins st hstep).2.2]; exact he
  obtain ⟨_, _, _, hratio⟩ := step_spec _ _ _ _ _ hstep
  have hw : ess w = Sc.div Sc.one (sumSq (normalise w)) := rfl
  have hw' : ess st.wt = 1 / sumSq st.wt := by
    show Sc.div Sc.one (sumSq (normalise st.wt)) = _
    rw [normalise_of_sum_one _ hsum]; simp
  rw [← hw, ← hw'] at hratio
  have hpos : 0 < ess w := lt_of_lt_of_le one_pos (C20_ess_bounds w h0 hs).1
  rw [hratio, le_div_iff₀ hpos] at hr'
  exact hr'

/-- **maximality.** The search runs from the top of the grid: every grid percentile above the chosen one fails the test;
    the chosen one passes it or is the bottom of the grid -/
theorem C20_trim_maximal {σ : Type} (samples : List σ) (w : List ℝ) (e : ℝ) (bins : Nat)
    (s' : List σ) (w' : List ℝ) (h : trim samples w e bins = some (s', w')) :
    ∃ j st, j < bins ∧
      step (normalise w) (sortAsc (normalise w)) (ess w) (linspace0_99 bins j) = some st ∧
      s' = filterMask samples st.mask ∧ w' = st.wt ∧ (e ≤ st.ratio ∨ j = 0) ∧
      ∀ k, j < k → k < bins →
        ∃ st', step (normalise w) (sortAsc (normalise w)) (ess w) (linspace0_99 bins k) = some st' ∧ st'.ratio < e := by
  obtain ⟨j, st, hb, hj, hsr, hs', hw'⟩ := trim_some samples w e bins s' w' h
  obtain ⟨_, hstep, hr, hmax⟩ := search_spec _ _ _ _ _ _ _ _ hsr
  exact ⟨j, st, by omega, hstep, hs', hw', hr, fun k hk1 hk2 => hmax k hk1 (by omega)⟩

/-- **termination, any requested fraction.** The loop breaks at grid index 0 at the latest (`or i == 0`), and every pass is
    defined (the percentile of a non-empty array exists), so a result is always returned: the index never goes negative. -/
theorem C20_trim_terminates_any {σ : Type} (samples : List σ) (w : List ℝ) (e : ℝ) (bins : Nat)
    (h0 : ∀ x ∈ w, 0 ≤ x) (hs : 0 < w.sum) (hb : 0 < bins) :
    ∃ r, trim samples w e bins = some r := by
  obtain ⟨h1, hnn, hq, hne⟩ := wn_facts w h0 hs
  have hne' : sortAsc (normalise w) ≠ [] := by
    intro h; have := (sortAsc_perm (normalise w)).length_eq; rw [h] at this
    exact hne (List.length_eq_zero_iff.mp this.symm)
  have hsorted := sortAsc_sorted (normalise w)
  obtain ⟨r, hr⟩ := search_total (normalise w) (sortAsc (normalise w)) (Sc.div Sc.one (sumSq (normalise w))) e bins (bins - 1)
    (by
      intro k hk
      obtain ⟨θ, hθ, _⟩ := percentile_spec _ hsorted hne' (linspace0_99 bins k) (linspace_range bins k (by omega)).1
      unfold step; rw [hθ]; exact ⟨_, rfl⟩)
  refine ⟨(filterMask samples r.2.mask, r.2.wt), ?_⟩
  unfold trim trimStop
  simp only [hb.ne', if_false]
  rw [hr]; rfl

/-- **termination** (signature kept for importers; `e ≤ 1` is no longer needed since the `or i == 0` stop) -/
theorem C20_trim_terminates {σ : Type} (samples : List σ) (w : List ℝ) (e : ℝ) (bins : Nat)
    (h0 : ∀ x ∈ w, 0 ≤ x) (hs : 0 < w.sum) (hb : 0 < bins) (he : e ≤ 1) :
    ∃ r, trim samples w e bins = some r :=
  have _ := he
  C20_trim_terminates_any samples w e bins h0 hs hb

/-- when every pass above grid index 0 fails the test, the loop returns every sample with the normalised weights -/
theorem C20_trim_bottom {σ : Type} (samples : List σ) (w : List ℝ) (e : ℝ) (bins : Nat)
    (h0 : ∀ x ∈ w, 0 ≤ x) (hs : 0 < w.sum) (hl : samples.length = w.length)
    (s' : List σ) (w' : List ℝ) (h : trim samples w e bins = some (s', w'))
    (hfail : ∀ k, 0 < k → k < bins → ∀ st, step (normalise w) (sortAsc (normalise w)) (ess w) (linspace0_99 bins k) = some st →
      st.ratio < e) : s' = samples ∧ w' = normalise w := by
  obtain ⟨j, st, hj, hstep, hs', hw', hr, _⟩ := C20_trim_maximal samples w e bins s' w' h
  by_cases hj0 : j = 0
  · subst hj0
    obtain ⟨hm, hwt, _⟩ := step_zero w h0 hs bins st hstep
    refine ⟨?_, by rw [hw', hwt]⟩
    rw [hs', hm]
    have hlen : (normalise w).length = samples.length := by rw [normalise_def, List.length_map, hl]
    have : (normalise w).map (fun _ => true) = samples.map (fun _ => true) := by
      simp only [List.map_const', hlen]
    rw [this, filterMask_all_true]
  · exfalso
    rcases hr with hr | hr
    · exact absurd (hfail j (by omega) hj st hstep) (not_lt.mpr hr)
    · exact hj0 hr

/-! ### non-vacuity: a run of the model on concrete numbers -/

/-- three weights, two grid points: the pass at percentile 99 keeps only the largest weight (ESS ratio 1/1.8 < 0.9),
    the pass at percentile 0 keeps everything — the loop returns all three samples -/
example : ∃ r, trim ["a", "b", "c"] [(1 : ℝ), 1, 2] 0.9 2 = some r :=
  C20_trim_terminates _ _ _ _ (by simp) (by norm_num) (by norm_num) (by norm_num)

/-- the hypotheses of the trimming theorems are jointly satisfiable: the run above returns normalised weights
    whose ESS is at least 0.9 of the untrimmed one, selected by one threshold mask -/
example : ∃ s' w', trim ["a", "b", "c"] [(1 : ℝ), 1, 2] 0.9 2 = some (s', w') ∧ w'.sum = 1 ∧
    0.9 * ess [(1 : ℝ), 1, 2] ≤ ess w' ∧
    ∃ θ : ℝ, s' = filterMask ["a", "b", "c"] ((normalise [(1 : ℝ), 1, 2]).map (fun x => Sc.le θ x)) := by
  have h0 : ∀ x ∈ [(1 : ℝ), 1, 2], 0 ≤ x := by simp
  have hs : (0 : ℝ) < [(1 : ℝ), 1, 2].sum := by norm_num
  obtain ⟨⟨s', w'⟩, h⟩ := C20_trim_terminates ["a", "b", "c"] [(1 : ℝ), 1, 2] 0.9 2 h0 hs (by norm_num) (by norm_num)
  obtain ⟨θ, _, _, _, hm, _, _⟩ := C20_trim_upper_set _ _ _ _ _ _ h
  exact ⟨s', w', h, C20_trim_normalised _ _ _ _ h0 hs _ _ h, C20_trim_ess _ _ _ _ h0 hs (by norm_num) _ _ h, θ, hm⟩

example : sortAsc [(3 : ℝ), 1, 2] = [1, 2, 3] := by
  have hp := sortAsc_perm [(3 : ℝ), 1, 2]
  have hs := sortAsc_sorted [(3 : ℝ), 1, 2]
  have hlen := hp.length_eq
  match hl : sortAsc [(3 : ℝ), 1, 2], hlen with
  | [a, b, c], _ =>
    rw [hl] at hp hs
    have ha := hp.mem_iff (a := a); have hb := hp.mem_iff (a := b); have hc := hp.mem_iff (a := c)
    have hsum := hp.sum_eq
    have hsq := (hp.map (fun x => x * x)).sum_eq
    simp at ha hb hc hs hsum hsq
    obtain ⟨⟨hab, hac⟩, hbc⟩ := hs
    rcases ha with rfl | rfl | rfl <;> rcases hb with rfl | rfl | rfl <;> rcases hc with rfl | rfl | rfl <;>
      first | rfl | (exfalso; linarith)

/-- the 50th percentile of `[1,2,4]` is 2 and the 75th is 3 (numpy: `np.percentile([1,2,4], 75) = 3.0`) -/
example : percentileLinear [(1 : ℝ), 2, 4] 75 = some 3 := by
  have hv : ((3 - 1 : ℕ) : ℝ) * ((75 : ℝ) / 100) = 3 / 2 := by norm_num
  have hf : floorIdx ((3 : ℝ) / 2) 2 = 1 := by
    simp [floorIdx]; norm_num
  simp only [percentileLinear, List.length_cons, List.length_nil, ScReal.mul_def, ScReal.div_def, ScReal.ofNat_def,
    ScReal.sub_def, ScReal.le_def, Nat.cast_ofNat]
  norm_num [hf, lerp_def]


/-! ### volume-variation metric (exact-real model `Lemmas.VolVar.volvar` of `volume_variation`, all branches) -/
section VolVar
open Matrix Lemmas.VolVar
variable {ι κ : Type} [Fintype ι] [Fintype κ] [DecidableEq κ]

/-- the metric is non-negative (on every branch, including the `1e10` fall-backs) -/
theorem C20_volvar_nonneg (x : ι → κ → ℝ) (w0 : ι → ℝ) : 0 ≤ volvar x w0 := volvar_nonneg x w0

/-- rescaling the weights by `c > 0` changes nothing: the first statement normalises them -/
theorem C20_volvar_weight_scale_invariant (c : ℝ) (hc : 0 < c) (x : ι → κ → ℝ) (w0 : ι → ℝ) :
    volvar x (fun i => c * w0 i) = volvar x w0 := volvar_weight_scale c hc.ne' x w0

/-- invariance under `x ↦ A x + b` for invertible `A`, when the weighted covariance has full rank.
    (The guard is essential: the ridge-regularised branch `rank < d` of the code is not affine invariant.) -/
theorem C20_volvar_affine_invariant (A : Matrix κ κ ℝ) (b : κ → ℝ) (hA : IsUnit A.det)
    (x : ι → κ → ℝ) (w0 : ι → ℝ) (hw : ∑ i, w0 i ≠ 0) (hS : IsUnit (wcov x (wnorm w0)).det) :
    volvar (fun i => A *ᵥ x i + b) w0 = volvar x w0 := volvar_affine A b hA x w0 hw hS

/-- the guard is satisfiable and the main branch is the one taken: three points on a line, unit weights -/
example : volvar (fun i => (!![2] : Matrix (Fin 1) (Fin 1) ℝ) *ᵥ exX i + ![5]) exW = volvar exX exW :=
  C20_volvar_affine_invariant _ _ (by simp) exX exW exW_sum ex_guard

end VolVar

end Props.C20
