import TempestVerif.Gen.Kernel
import TempestVerif.Model.Kernel
import TempestVerif.Model.KernelRun
import TempestVerif.Lemmas.ScReal
import TempestVerif.Props.C03
import Mathlib.Tactic
/-
  C03, second audit — the RUN LOOP of `BaseMCMCRunner` around the single step (model: `Model/KernelRun.lean`).

  The unit of the property is ONE mutation step with one step size per cluster (`Model.Kernel.runStep`, `Props/C03.lean`).
  This file proves what the loop around it must guarantee for the one-step theorems to apply at every iteration of a run:

    §1  bridging obligations for the regenerated run-loop expressions (`sigma_0`, `_initialize_sigmas`,
        `_calculate_adaptive_steps`, `_check_convergence`, the two computed return values, the two counters);
    §2  static tables read from the source: who writes `self.assignments`, the mode arrays, `beta`, the boundary sets, `self.sigmas`
        (H_assign for the runner), who calls `_adapt_sigma`, the dispatch and the positional pass-through of the 15 arguments;
    §3  the run as a chain of `runStep` applications: each pass is LITERALLY `runStep` with the step sizes it is given, the step
        sizes of pass t+1 are `adaptAll` of pass t's alphas, assignments never change;
    §4  the hard-boundary rejection rule on the model step (fix 9001dc4) and the cube invariant over the whole run;
    §5  step-size range invariant (tpCN, whole run) and diminishing adaptation `|σ_{t+1} − σ_t| ≤ 0.766/(t+1)` (both kernels);
    §6  bookkeeping: `iteration`, `n_calls`, the exact iteration bounds of the stopping rule, fuel is never the reason the
        model loop stops, efficiency / acceptance are those of the final (post-adaptation) step sizes / the last step.
-/
set_option linter.unusedSimpArgs false
set_option linter.unusedVariables false
namespace Props.C03
open Model.Kernel Model.KernelRun

/-! ## 1. bridging obligations (generated = canonical) -/

macro "run_bridge" : tactic => `(tactic| (
  simp only [Gen.Kernel.sigma0Of, Gen.Kernel.tpcnInitSigma, Gen.Kernel.rwmInitSigma, Gen.Kernel.adaptiveSteps,
    Gen.Kernel.convergedRule, Gen.Kernel.retEfficiency, Gen.Kernel.retAcceptance, Gen.Kernel.iterStep, Gen.Kernel.nCallsStep,
    Model.KernelRun.sigma0, Model.KernelRun.initSigmaTpcn, Model.KernelRun.initSigmaRwm, Model.KernelRun.adaptiveSteps,
    Model.KernelRun.boundedSteps, Model.KernelRun.adaptiveRaw, Model.KernelRun.converged, Model.KernelRun.result,
    gen_npMinimum, model_npMinimum, ScReal.min_def, ScReal.max_def,
    ScReal.add_def, ScReal.sub_def, ScReal.mul_def, ScReal.div_def, ScReal.neg_def, ScReal.ofNat_def,
    ScReal.lit_def, ScReal.zero_def, ScReal.one_def, ScReal.two_def, ScReal.sqrt_def, ScReal.floor_def]
  <;> (try push_cast) <;> (try ring_nf)))

theorem gen_eq_canon_sigma0 (n : ℕ) : Gen.Kernel.sigma0Of (n : ℝ) = Model.KernelRun.sigma0 n := by
  run_bridge

theorem gen_eq_canon_tpcnInitSigma (s0 : ℝ) : Gen.Kernel.tpcnInitSigma s0 = Model.KernelRun.initSigmaTpcn s0 := by
  run_bridge

theorem gen_eq_canon_rwmInitSigma (s0 : ℝ) : Gen.Kernel.rwmInitSigma s0 = Model.KernelRun.initSigmaRwm s0 := by
  run_bridge

theorem gen_eq_canon_adaptiveSteps (nSteps nDim nMax : ℕ) (acc ws s0 : ℝ) :
    Gen.Kernel.adaptiveSteps (nSteps : ℝ) (nDim : ℝ) (nMax : ℝ) acc ws s0
      = Model.KernelRun.adaptiveSteps nSteps nDim nMax acc ws s0 := by
  run_bridge

theorem gen_eq_canon_convergedRule (it : ℕ) (steps : ℝ) :
    Gen.Kernel.convergedRule (it : ℝ) steps = Model.KernelRun.converged it steps := by
  run_bridge

theorem gen_eq_canon_retEfficiency (c : Config ℝ) (s : State ℝ) :
    Gen.Kernel.retEfficiency (mean s.sigmas) (Model.KernelRun.sigma0 c.nDim) (mean s.alpha) = (result c s).efficiency := by
  run_bridge

theorem gen_eq_canon_retAcceptance (c : Config ℝ) (s : State ℝ) :
    Gen.Kernel.retAcceptance (mean s.sigmas) (Model.KernelRun.sigma0 c.nDim) (mean s.alpha) = (result c s).acceptance := by
  run_bridge

theorem gen_eq_canon_iterStep (n : ℕ) : Gen.Kernel.iterStep (n : ℝ) = ((n + 1 : ℕ) : ℝ) := by
  run_bridge

theorem gen_eq_canon_nCallsStep (a b : ℕ) : Gen.Kernel.nCallsStep (a : ℝ) (b : ℝ) = ((a + b : ℕ) : ℝ) := by
  run_bridge

/-! ## 2. static tables (G4) -/

/-- **H_assign for the runner, statically**: in all of tempest/mcmc.py the assignments, the mode arrays, `beta`, the boundary
    index sets, `sigma_0`, `n_steps`, `n_max` and the shape attributes are written ONLY by a constructor and only by plain
    assignment (no subscript store, no augmented assignment, no in-place call); `self.sigmas` is assigned in the base
    constructor and stored into by the two `_adapt_sigma` — nowhere else; the two counters are written by the constructor and by
    `_evaluate_likelihood` (`n_calls`) / the loop head (`iteration`).  The expected sites are present (the table is not empty). -/
theorem C03_run_write_sites :
    (∀ e ∈ Gen.Kernel.writeSites,
      e.1 ∈ [Gen.Kernel.WAttr.assignments, .modeStats, .means, .invCovs, .cholCovs, .dof, .beta, .periodic, .reflective,
             .sigma0, .nSteps, .nMax, .nDim, .nWalkers, .nClusters] →
        e.2.1 ∈ [Gen.Kernel.WFn.baseInit, .tpcnInit, .rwmInit] ∧ e.2.2.1 = .assign) ∧
    (∀ e ∈ Gen.Kernel.writeSites, e.1 = .sigmas →
        (e.2.1 = .baseInit ∧ e.2.2.1 = .assign) ∨ (e.2.1 ∈ [Gen.Kernel.WFn.tpcnAdapt, .rwmAdapt] ∧ e.2.2.1 = .store)) ∧
    (∀ e ∈ Gen.Kernel.writeSites, e.1 = .nCalls →
        (e.2.1 = .baseInit ∧ e.2.2.1 = .assign) ∨ (e.2.1 = .evaluate ∧ e.2.2.1 = .aug)) ∧
    (∀ e ∈ Gen.Kernel.writeSites, e.1 = .iteration →
        (e.2.1 = .baseInit ∧ e.2.2.1 = .assign) ∨ (e.2.1 = .run ∧ e.2.2.1 = .aug)) ∧
    (Gen.Kernel.writeSites.filter (fun e => e.1 == .assignments)).map (fun e => (e.2.1, e.2.2.1)) = [(.baseInit, .assign)] ∧
    (Gen.Kernel.writeSites.filter (fun e => e.1 == .sigmas)).length = 3 ∧
    (Gen.Kernel.writeSites.filter (fun e => e.1 == .nCalls && e.2.1 == .evaluate)).length = 1 ∧
    (Gen.Kernel.writeSites.filter (fun e => e.1 == .iteration && e.2.1 == .run)).length = 1 := by
  decide

/-- `_adapt_sigma`, `_evaluate_likelihood` and `_check_convergence` are referenced exactly once, in `run`;
    `_calculate_adaptive_steps` only by `_check_convergence`; `_initialize_sigmas` only by the base constructor; `.run` is
    invoked by the two wrappers only.  Together with the statement order: one `iteration += 1`, one likelihood evaluation, one
    adaptation and one convergence test per pass, the adaptation after the update and before the convergence test. -/
theorem C03_run_self_refs :
    (∀ e ∈ Gen.Kernel.selfRefs, e.1 ∈ [Gen.Kernel.WCallee.adaptSigma, .evaluate, .checkConvergence, .propose, .factor] →
        e.2.1 = .run) ∧
    (Gen.Kernel.selfRefs.filter (fun e => e.1 == .adaptSigma)).length = 1 ∧
    (Gen.Kernel.selfRefs.filter (fun e => e.1 == .evaluate)).length = 1 ∧
    (Gen.Kernel.selfRefs.filter (fun e => e.1 == .checkConvergence)).length = 1 ∧
    (Gen.Kernel.selfRefs.filter (fun e => e.1 == .calcAdaptive)).map (·.2.1) = [.checkConv] ∧
    (Gen.Kernel.selfRefs.filter (fun e => e.1 == .initSigmas)).map (·.2.1) = [.baseInit] ∧
    (∀ e ∈ Gen.Kernel.selfRefs, e.1 = .runLoop → e.2.1 ∈ [Gen.Kernel.WFn.tpcnWrapper, .rwmWrapper]) ∧
    Gen.Kernel.stepOrder.count .iter = 1 ∧ Gen.Kernel.stepOrder.count .evaluate = 1 ∧
    Gen.Kernel.stepOrder.count .converge = 1 ∧
    Gen.Kernel.stepOrder.idxOf .iter < Gen.Kernel.stepOrder.idxOf .propose ∧
    Gen.Kernel.stepOrder.idxOf .adapt < Gen.Kernel.stepOrder.idxOf .converge := by
  decide

def runAll15 : List Gen.Kernel.Param :=
  [.u, .x, .logl, .blobs, .assignments, .beta, .modeStats, .logLikelihood, .priorTransform, .progressBar, .nSteps, .nMax,
   .periodic, .reflective, .verbose]

/-- `parallel_mcmc`: `sample == "rwm"` selects the RWM wrapper, everything else the tpCN wrapper; each wrapper constructs ITS
    runner class and returns `runner.run()`; at all four call sites every one of the 15 parameters of the callee receives the
    caller's variable of the same name (after Python's positional/keyword binding); the base constructor stores each of them
    under its own name, the five arrays as copies; `run` returns `(u, x, logl, blobs, efficiency, acceptance, iteration,
    n_calls)`; the stopping rule sees `mask_accept.mean()`; the weighted step size pairs the FIRST m step sizes with the m
    non-empty populations (what `Model.KernelRun.weightedSigma` does). -/
theorem C03_run_dispatch_tables :
    Gen.Kernel.dispatchRule = [(.sampleEqRwm, .rwmWrapper), (.otherwise, .tpcnWrapper)] ∧
    Gen.Kernel.wrapperRunner.length = 2 ∧ (.tpcnWrapper, .tpcnRunner) ∈ Gen.Kernel.wrapperRunner ∧
    (.rwmWrapper, .rwmRunner) ∈ Gen.Kernel.wrapperRunner ∧
    Gen.Kernel.bindTable.length = 4 ∧
    (∀ b ∈ Gen.Kernel.bindTable, b.2.map (·.1) = runAll15 ∧ ∀ p ∈ b.2, p.1 = p.2) ∧
    (∀ p ∈ runAll15, (Gen.Kernel.initStores.filter (fun e => e.1 == p)).map (·.2.1) = [p]) ∧
    (∀ p ∈ [Gen.Kernel.Param.u, .x, .logl, .blobs, .assignments], (p, p, true) ∈ Gen.Kernel.initStores) ∧
    Gen.Kernel.returnTuple = [.u, .x, .logl, .blobs, .efficiency, .acceptance, .iteration, .nCalls] ∧
    Gen.Kernel.curAccSource = .maskMean ∧ Gen.Kernel.weightedSigmaPairing = .firstM := by
  decide

/-- the model's dispatch is the generated rule: `"rwm"` ↦ RWM, every other string ↦ tpCN -/
theorem C03_run_dispatch (sample : String) :
    (sample = "rwm" → dispatch sample = .rwm) ∧ (sample ≠ "rwm" → dispatch sample = .tpcn) := by
  constructor <;> intro h <;> simp [dispatch, h]

/-- the constructor model passes every interpreted argument through unchanged and starts the counters at 0 -/
theorem C03_run_construct {α : Type} [ScT α] (kind : Kind) (a : Args α) :
    let cs := construct kind a
    cs.1.kind = kind ∧ cs.1.modes = a.modes ∧ cs.1.beta = a.beta ∧ cs.1.per = a.per ∧ cs.1.refl = a.refl ∧
    cs.1.nSteps = a.nSteps ∧ cs.1.nMax = a.nMax ∧ cs.1.nDim = shapeDim a.x ∧
    cs.2.u = a.u ∧ cs.2.x = a.x ∧ cs.2.logl = a.logl ∧ cs.2.assign = a.assign ∧ cs.2.iteration = 0 ∧ cs.2.nCalls = 0 ∧
    cs.2.sigmas = List.replicate a.modes.length (initSigma kind (Model.KernelRun.sigma0 (shapeDim a.x))) := by
  simp [construct, initSigmas]

example : dispatch "rwm" = .rwm ∧ dispatch "tpcn" = .tpcn ∧ dispatch "other" = .tpcn := by
  refine ⟨(C03_run_dispatch "rwm").1 rfl, (C03_run_dispatch "tpcn").2 (by decide), (C03_run_dispatch "other").2 (by decide)⟩

/-! ## 3. the run as a chain of `runStep` applications -/

section Chain
variable {α : Type} [ScT α]

theorem runStep_eq_some (i : RunIn α) (outs : List (StepOut α)) (sig : List α) :
    runStep i = some (outs, sig) ↔ i.walkers.mapM (walkerStep i) = some outs ∧ sig = adaptAll i (outs.map (·.alpha)) := by
  unfold runStep
  cases h : i.walkers.mapM (walkerStep i) with
  | none => simp
  | some o =>
    simp only [Option.some.injEq, Prod.mk.injEq]
    constructor
    · rintro ⟨rfl, rfl⟩; exact ⟨rfl, rfl⟩
    · rintro ⟨rfl, rfl⟩; exact ⟨rfl, rfl⟩

/-- everything one pass of the loop does, read off the model -/
theorem iterate_spec (c : Config α) (s : State α) (t : List (Draw α)) (r : IterRec α) (h : iterate c s t = some r) :
    r.pre = s ∧ r.tape = t ∧
    runStep (stepInput c s.sigmas s t) = some (r.outs, r.post.sigmas) ∧
    r.post.u = r.outs.map (·.newU) ∧
    r.post.x = select (r.outs.map (·.accept)) (t.map (·.xp)) s.x ∧
    r.post.logl = select (r.outs.map (·.accept)) (t.map (·.lp)) s.logl ∧
    r.post.assign = s.assign ∧ r.post.iteration = s.iteration + 1 ∧ r.post.nCalls = s.nCalls + nWalkers s ∧
    r.post.alpha = r.outs.map (·.alpha) ∧
    r.curAcc = meanBool (r.outs.map (·.accept)) ∧
    r.wsigma = weightedSigma r.post.sigmas (clusterSizes c.modes.length s.assign) ∧
    r.steps = adaptiveSteps c.nSteps c.nDim c.nMax r.curAcc r.wsigma (Model.KernelRun.sigma0 c.nDim) ∧
    r.stop = converged (s.iteration + 1) r.steps := by
  unfold iterate at h
  cases hr : runStep (stepInput c s.sigmas s t) with
  | none => simp [hr] at h
  | some p =>
    obtain ⟨outs, sig⟩ := p
    simp only [hr, Option.some.injEq] at h
    subst h
    simp

/-- `recs` is a chain from `s` to `f`: every record is `iterate` of the state the previous one left -/
def RunChain (c : Config α) : State α → List (IterRec α) → State α → Prop
  | s, [], f => f = s
  | s, r :: rs, f => iterate c s r.tape = some r ∧ RunChain c r.post rs f

theorem run_chain (c : Config α) : ∀ (ts : List (List (Draw α))) (s : State α),
    RunChain c s (run c s ts).recs (run c s ts).final := by
  intro ts
  induction ts with
  | nil => intro s; simp [run, RunChain]
  | cons t ts ih =>
    intro s
    unfold run
    cases hi : iterate c s t with
    | none => simp [RunChain]
    | some r =>
      have ht : r.tape = t := (iterate_spec c s t r hi).2.1
      by_cases hs : r.stop = true
      · simp [hs, RunChain, ht, hi]
      · simp only [hs, Bool.false_eq_true, if_false, RunChain, ht, hi, true_and]
        exact ih r.post

/-- invariants of the loop body are invariants of the run: they hold before and after every executed pass and at the end -/
theorem run_invariant (c : Config α) (P : State α → Prop)
    (hstep : ∀ s t r, P s → iterate c s t = some r → P r.post) :
    ∀ (ts : List (List (Draw α))) (s : State α), P s →
      P (run c s ts).final ∧ ∀ r ∈ (run c s ts).recs, P r.pre ∧ P r.post := by
  intro ts
  induction ts with
  | nil => intro s hs; simp [run, hs]
  | cons t ts ih =>
    intro s hs
    unfold run
    cases hi : iterate c s t with
    | none => simp [hs]
    | some r =>
      have hpre : r.pre = s := (iterate_spec c s t r hi).1
      have hpost := hstep s t r hs hi
      by_cases hst : r.stop = true
      · simp [hst, hpost, hpre, hs]
      · simp only [hst, Bool.false_eq_true, if_false, List.mem_cons, forall_eq_or_imp, hpre, hs, hpost, and_self, true_and]
        exact ih r.post hpost

/-- **the assignments are never written by `run`** (model): after any number of passes the assignment vector is the input's -/
theorem C03_run_assignments_fixed (c : Config α) (s : State α) (ts : List (List (Draw α))) :
    (run c s ts).final.assign = s.assign ∧
    ∀ r ∈ (run c s ts).recs, r.pre.assign = s.assign ∧ r.post.assign = s.assign :=
  run_invariant c (fun st => st.assign = s.assign)
    (fun s' t r hs hi => by rw [(iterate_spec c s' t r hi).2.2.2.2.2.2.1]; exact hs) ts s rfl

/-- **one mutation step for any step size = one application of `Model.Kernel.runStep`**: every executed pass is `runStep` on the
    input assembled from the state at the loop head, the step sizes IT WAS GIVEN (`r.pre.sigmas`, a parameter of `stepInput`),
    and the incremented iteration number; the states are updated from its outputs and the adapted step sizes are stored for
    the NEXT pass only. -/
theorem C03_run_pass_is_runStep (c : Config α) (s : State α) (ts : List (List (Draw α))) :
    ∀ r ∈ (run c s ts).recs,
      runStep (stepInput c r.pre.sigmas r.pre r.tape) = some (r.outs, r.post.sigmas) ∧
      (stepInput c r.pre.sigmas r.pre r.tape).sigmas = r.pre.sigmas ∧
      (stepInput c r.pre.sigmas r.pre r.tape).iter = Sc.ofNat r.post.iteration ∧
      r.post.sigmas = adaptAll (stepInput c r.pre.sigmas r.pre r.tape) (r.outs.map (·.alpha)) ∧
      r.post.u = r.outs.map (·.newU) ∧ r.post.alpha = r.outs.map (·.alpha) := by
  have key : ∀ (rs : List (IterRec α)) (s f : State α), RunChain c s rs f → ∀ r ∈ rs,
      runStep (stepInput c r.pre.sigmas r.pre r.tape) = some (r.outs, r.post.sigmas) ∧
      (stepInput c r.pre.sigmas r.pre r.tape).sigmas = r.pre.sigmas ∧
      (stepInput c r.pre.sigmas r.pre r.tape).iter = Sc.ofNat r.post.iteration ∧
      r.post.sigmas = adaptAll (stepInput c r.pre.sigmas r.pre r.tape) (r.outs.map (·.alpha)) ∧
      r.post.u = r.outs.map (·.newU) ∧ r.post.alpha = r.outs.map (·.alpha) := by
    intro rs
    induction rs with
    | nil => intro s f _ r hr; simp at hr
    | cons r0 rs ih =>
      intro s f hc r hr
      obtain ⟨h0, hrest⟩ := hc
      rcases List.mem_cons.mp hr with rfl | hr'
      · obtain ⟨hpre, -, hrun, hu, -, -, -, hit, -, hal, -⟩ := iterate_spec c s r.tape r h0
        subst hpre
        refine ⟨hrun, rfl, ?_, ((runStep_eq_some _ _ _).mp hrun).2, hu, hal⟩
        simp [stepInput, hit]
      · exact ih r0.post f hrest r hr'
  exact key _ s _ (run_chain c ts s)

/-- **adaptation happens strictly between steps**: the step sizes pass t+1 uses are exactly what pass t stored, i.e.
    `adaptAll` of pass t's acceptance probabilities; the first pass uses the input's -/
theorem C03_run_sigma_handoff (c : Config α) (s : State α) (ts : List (List (Draw α))) :
    (∀ r, (run c s ts).recs.head? = some r → r.pre = s) ∧
    ∀ k (h : k + 1 < (run c s ts).recs.length),
      ((run c s ts).recs[k + 1]).pre = ((run c s ts).recs[k]).post := by
  have key : ∀ (rs : List (IterRec α)) (s f : State α), RunChain c s rs f →
      (∀ r, rs.head? = some r → r.pre = s) ∧ ∀ k (h : k + 1 < rs.length), (rs[k + 1]).pre = (rs[k]).post := by
    intro rs
    induction rs with
    | nil => intro s f _; simp
    | cons r0 rs ih =>
      intro s f hc
      obtain ⟨h0, hrest⟩ := hc
      have hpre := (iterate_spec c s r0.tape r0 h0).1
      obtain ⟨ihh, iht⟩ := ih r0.post f hrest
      refine ⟨by simp [hpre], ?_⟩
      intro k h
      cases k with
      | zero =>
        cases rs with
        | nil => simp at h
        | cons r1 rs' => simpa using ihh r1 rfl
      | succ k => simpa using iht k (by simpa using h)
  exact key _ s _ (run_chain c ts s)

/-- within a pass every walker is handed the step size of ITS cluster from the vector the pass was given: two walkers of the
    same cluster see the same value -/
theorem C03_run_walker_sigma (c : Config α) (sg : List α) (s : State α) (t : List (Draw α)) (w : Walker α) (si : StepIn α)
    (h : walkerInput (stepInput c sg s t) w = some si) : sg[w.assign]? = some si.sigma := by
  unfold walkerInput at h
  simp only [stepInput] at h
  cases hm : c.modes[w.assign]? with
  | none => simp [hm] at h
  | some m =>
    cases hs : sg[w.assign]? with
    | none => simp [hm, hs] at h
    | some v => simp only [hm, hs, Option.some.injEq] at h; subst h; rfl

end Chain

/-! ## 4. hard boundaries: the rejection rule on the model step (fix 9001dc4) and the cube invariant over the run -/

section Hard
variable {α : Type} [ScT α]

/-- **rejection rule, any scalar type**: `inb` is `check_bounds` of the folded candidate; a candidate that fails it is NOT
    passed on — the walker is evaluated at its current point, its acceptance probability is the generated out-of-bounds value
    and its state is unchanged whatever the uniform draw is; a candidate that passes is the point passed on and its alpha is
    the Metropolis–Hastings value. -/
theorem C03_run_hard_reject_rule (i : StepIn α) :
    (step i).inb = Model.Boundary.checkBounds i.per i.refl (step i).cand ∧
    ((step i).inb = false →
      (step i).prop = i.u ∧ (step i).newU = i.u ∧
      (step i).alpha = Model.Kernel.alphaOutOfBounds (acceptProb i.beta i.l i.lp (step i).factor)) ∧
    ((step i).inb = true →
      (step i).prop = (step i).cand ∧ (step i).alpha = acceptProb i.beta i.l i.lp (step i).factor ∧
      (step i).newU = if (step i).accept then (step i).cand else i.u) := by
  unfold step
  cases i.kind <;> simp only [finish, boundedAlpha] <;> refine ⟨by first | rfl | trivial, ?_, ?_⟩ <;> intro h <;> simp [h]

/-- **rejection rule at ℝ, with the GENERATED out-of-bounds value**: alpha is `Gen.Kernel.alphaOutOfBounds … = 0`, so for a
    uniform draw `r ≥ 0` the proposal is rejected -/
theorem C03_run_hard_reject_real (i : StepIn ℝ) (h : (step i).inb = false) :
    (step i).alpha = Gen.Kernel.alphaOutOfBounds (acceptProb i.beta i.l i.lp (step i).factor) ∧ (step i).alpha = 0 ∧
    (step i).prop = i.u ∧ (step i).newU = i.u ∧ (0 ≤ i.r → (step i).accept = false) := by
  obtain ⟨-, hout, -⟩ := C03_run_hard_reject_rule i
  obtain ⟨hp, hn, ha⟩ := hout h
  have h0 : (step i).alpha = 0 := by rw [ha]; simp [Model.Kernel.alphaOutOfBounds]
  refine ⟨by rw [gen_eq_canon_alphaOutOfBounds]; exact ha, h0, hp, hn, ?_⟩
  intro hr
  have hacc : (step i).accept = acceptDecision i.r (step i).alpha := by
    unfold step; cases i.kind <;> simp [finish]
  rw [hacc, h0]
  simp [acceptDecision, hr]

/-- the acceptance probability of the model step is a probability -/
theorem run_step_alpha_unit (i : StepIn ℝ) : 0 ≤ (step i).alpha ∧ (step i).alpha ≤ 1 := by
  have hA : ∀ f : ℝ, 0 ≤ acceptProb i.beta i.l i.lp f ∧ acceptProb i.beta i.l i.lp f ≤ 1 := by
    intro f; rw [model_acceptProb]
    exact ⟨le_min zero_le_one (Real.exp_pos _).le, min_le_left _ _⟩
  obtain ⟨-, hout, hin⟩ := C03_run_hard_reject_rule i
  cases hb : (step i).inb with
  | false => rw [(hout hb).2.2]; simp [Model.Kernel.alphaOutOfBounds]
  | true => rw [(hin hb).2.1]; exact hA _

theorem run_mapM_mem {β γ : Type} (f : β → Option γ) : ∀ (l : List β) (outs : List γ), l.mapM f = some outs →
    ∀ o ∈ outs, ∃ w ∈ l, f w = some o := by
  intro l
  induction l with
  | nil => intro outs h o ho; simp at h; subst h; simp at ho
  | cons a l ih =>
    intro outs h o ho
    rw [List.mapM_cons] at h
    cases hfa : f a with
    | none => simp [hfa] at h
    | some b =>
      cases hl : l.mapM f with
      | none => simp [hfa, hl] at h
      | some bs =>
        simp [hfa, hl] at h
        subst h
        rcases List.mem_cons.mp ho with rfl | ho'
        · exact ⟨a, List.mem_cons_self, hfa⟩
        · obtain ⟨w, hw, hfw⟩ := ih bs hl o ho'
          exact ⟨w, List.mem_cons_of_mem _ hw, hfw⟩

theorem run_mapM_length {β γ : Type} (f : β → Option γ) : ∀ (l : List β) (outs : List γ), l.mapM f = some outs →
    outs.length = l.length := by
  intro l
  induction l with
  | nil => intro outs h; simp at h; subst h; rfl
  | cons a l ih =>
    intro outs h
    rw [List.mapM_cons] at h
    cases hfa : f a with
    | none => simp [hfa] at h
    | some b =>
      cases hl : l.mapM f with
      | none => simp [hfa, hl] at h
      | some bs => simp [hfa, hl] at h; subst h; simp [ih bs hl]

theorem run_mapM_some_of_forall {β γ : Type} (f : β → Option γ) : ∀ (l : List β), (∀ w ∈ l, ∃ o, f w = some o) →
    ∃ outs, l.mapM f = some outs := by
  intro l
  induction l with
  | nil => intro _; exact ⟨[], by simp⟩
  | cons a l ih =>
    intro h
    obtain ⟨b, hb⟩ := h a List.mem_cons_self
    obtain ⟨bs, hbs⟩ := ih (fun w hw => h w (List.mem_cons_of_mem _ hw))
    exact ⟨b :: bs, by rw [List.mapM_cons]; simp [hb, hbs]⟩

omit [ScT α] in
theorem run_mem_walkers : ∀ (us : List (List α)) (as : List Nat) (ls : List α) (ds : List (Draw α)) (w : Walker α),
    w ∈ walkers us as ls ds → w.u ∈ us ∧ w.assign ∈ as := by
  intro us
  induction us with
  | nil => intro as ls ds w h; simp [walkers] at h
  | cons u us ih =>
    intro as ls ds w h
    cases as with
    | nil => simp [walkers] at h
    | cons a as =>
      cases ls with
      | nil => simp [walkers] at h
      | cons l ls =>
        cases ds with
        | nil => simp [walkers] at h
        | cons d ds =>
          simp only [walkers, List.mem_cons] at h
          rcases h with rfl | h
          · simp
          · obtain ⟨h1, h2⟩ := ih as ls ds w h
            exact ⟨List.mem_cons_of_mem _ h1, List.mem_cons_of_mem _ h2⟩

omit [ScT α] in
theorem run_walkers_length : ∀ (n : Nat) (us : List (List α)) (as : List Nat) (ls : List α) (ds : List (Draw α)),
    us.length = n → as.length = n → ls.length = n → ds.length = n → (walkers us as ls ds).length = n := by
  intro n
  induction n with
  | zero => intro us as ls ds h1 _ _ _; cases us <;> simp_all [walkers]
  | succ n ih =>
    intro us as ls ds h1 h2 h3 h4
    cases us with
    | nil => simp at h1
    | cons u us =>
      cases as with
      | nil => simp at h2
      | cons a as =>
        cases ls with
        | nil => simp at h3
        | cons l ls =>
          cases ds with
          | nil => simp at h4
          | cons d ds =>
            simp only [walkers, List.length_cons, Nat.add_right_cancel_iff] at *
            exact ih us as ls ds h1 h2 h3 h4

/-- a walker's result is the model step on an input carrying the walker's own point and the run's boundary sets -/
theorem run_walkerStep_some (i : RunIn α) (w : Walker α) (o : StepOut α) (h : walkerStep i w = some o) :
    ∃ si, walkerInput i w = some si ∧ o = step si ∧ si.u = w.u ∧ si.per = i.per ∧ si.refl = i.refl ∧ si.r = w.r := by
  obtain ⟨m, sg, hm, hs, ho⟩ := C03_walker_uses_own_mode i w o h
  refine ⟨_, ?_, ho, rfl, rfl, rfl, rfl⟩
  simp [walkerInput, hm, hs]

/-- all current points lie in the unit cube (as `check_bounds` with the run's boundary sets sees it) -/
def RunInCube (c : Config α) (s : State α) : Prop := ∀ u ∈ s.u, Model.Boundary.checkBounds c.per c.refl u = true

/-- every output of a pass belongs to a walker of the state at the loop head -/
theorem pass_outs (c : Config α) (s : State α) (t : List (Draw α)) (r : IterRec α) (h : iterate c s t = some r) :
    ∀ o ∈ r.outs, ∃ si : StepIn α, o = step si ∧ si.u ∈ s.u ∧ si.per = c.per ∧ si.refl = c.refl := by
  obtain ⟨-, -, hrun, -⟩ := iterate_spec c s t r h
  obtain ⟨hm, -⟩ := (runStep_eq_some _ _ _).mp hrun
  intro o ho
  obtain ⟨w, hw, hws⟩ := run_mapM_mem _ _ _ hm o ho
  obtain ⟨si, -, hos, hu, hp, hr, -⟩ := run_walkerStep_some _ w o hws
  refine ⟨si, hos, ?_, hp, hr⟩
  rw [hu]
  exact (run_mem_walkers _ _ _ _ w hw).1

/-- **the states stay in the cube over the whole run**: before and after every pass and at the end (accepted points passed
    `check_bounds`, rejected walkers did not move) — the hypothesis "current state inside" of the hard-boundary theorems holds at
    every iteration -/
theorem C03_run_stays_in_cube (c : Config α) (s : State α) (ts : List (List (Draw α))) (h : RunInCube c s) :
    RunInCube c (run c s ts).final ∧ ∀ r ∈ (run c s ts).recs, RunInCube c r.pre ∧ RunInCube c r.post := by
  refine run_invariant c (RunInCube c) ?_ ts s h
  intro s' t r hs hi u hu
  rw [(iterate_spec c s' t r hi).2.2.2.1] at hu
  obtain ⟨o, ho, rfl⟩ := List.mem_map.mp hu
  obtain ⟨si, rfl, hmem, hp, hr⟩ := pass_outs c s' t r hi o ho
  have := C03_step_stays_in_cube si (by rw [hp, hr]; exact hs _ hmem)
  rwa [hp, hr] at this

/-- over the whole run, every walker whose candidate failed `check_bounds` kept its point and had acceptance probability 0 -/
theorem C03_run_hard_reject (c : Config ℝ) (s : State ℝ) (ts : List (List (Draw ℝ))) :
    ∀ r ∈ (run c s ts).recs, ∀ o ∈ r.outs, o.inb = false → o.alpha = 0 ∧ o.newU = o.prop ∧ o.newU ∈ r.pre.u := by
  have key : ∀ (rs : List (IterRec ℝ)) (s f : State ℝ), RunChain c s rs f →
      ∀ r ∈ rs, ∀ o ∈ r.outs, o.inb = false → o.alpha = 0 ∧ o.newU = o.prop ∧ o.newU ∈ r.pre.u := by
    intro rs
    induction rs with
    | nil => intro s f _ r hr; simp at hr
    | cons r0 rs ih =>
      intro s f hc r hr o ho hinb
      obtain ⟨h0, hrest⟩ := hc
      rcases List.mem_cons.mp hr with rfl | hr'
      · obtain ⟨si, rfl, hmem, -, -⟩ := pass_outs c s r.tape r h0 o ho
        obtain ⟨-, ha, hp, hn, -⟩ := C03_run_hard_reject_real si hinb
        rw [(iterate_spec c s r.tape r h0).1]
        exact ⟨ha, by rw [hn, hp], by rw [hn]; exact hmem⟩
      · exact ih r0.post f hrest r hr' o ho hinb
  exact key _ s _ (run_chain c ts s)

end Hard

/-! ## 5. step sizes over the whole run: range invariant (tpCN) and diminishing adaptation (both kernels) -/

section Sigma

theorem run_sc_sum_eq (l : List ℝ) : Sc.sum l = l.sum := by
  unfold Sc.sum
  have : ∀ (l : List ℝ) (a : ℝ), List.foldl Sc.add a l = a + l.sum := by
    intro l
    induction l with
    | nil => intro a; simp
    | cons x l ih => intro a; simp only [List.foldl_cons, List.sum_cons, ih, ScReal.add_def]; ring
  rw [this]; simp

theorem run_sum_unit_bounds : ∀ l : List ℝ, (∀ a ∈ l, 0 ≤ a ∧ a ≤ 1) → 0 ≤ l.sum ∧ l.sum ≤ l.length := by
  intro l
  induction l with
  | nil => intro _; simp
  | cons x l ih =>
    intro h
    obtain ⟨h0, h1⟩ := h x List.mem_cons_self
    obtain ⟨i0, i1⟩ := ih (fun a ha => h a (List.mem_cons_of_mem _ ha))
    simp only [List.sum_cons, List.length_cons, Nat.cast_add, Nat.cast_one]
    constructor <;> linarith

/-- the mean of a non-empty array of probabilities is a probability -/
theorem run_mean_unit (l : List ℝ) (hne : l ≠ []) (h : ∀ a ∈ l, 0 ≤ a ∧ a ≤ 1) : 0 ≤ mean l ∧ mean l ≤ 1 := by
  obtain ⟨h0, h1⟩ := run_sum_unit_bounds l h
  have hlen : (0 : ℝ) < l.length := by
    have : 0 < l.length := List.length_pos_iff.mpr hne
    exact_mod_cast this
  simp only [mean, run_sc_sum_eq, ScReal.div_def, ScReal.ofNat_def]
  exact ⟨div_nonneg h0 hlen.le, (div_le_one hlen).mpr h1⟩

theorem run_mem_clusterAlphas (as : List Nat) (alphas : List ℝ) (c : Nat) (a : ℝ) (h : a ∈ clusterAlphas as alphas c) :
    a ∈ alphas := by
  unfold clusterAlphas at h
  obtain ⟨p, hp, hpa⟩ := List.mem_filterMap.mp h
  split at hpa
  · simp only [Option.some.injEq] at hpa; subst hpa; exact (List.of_mem_zip hp).2
  · simp at hpa

/-- `sigma_0 = 2.38/√n_dim` is positive for `n_dim ≥ 1` -/
theorem run_sigma0_pos (n : ℕ) (h : 1 ≤ n) : (0 : ℝ) < Model.KernelRun.sigma0 n := by
  have hn : (0 : ℝ) < (n : ℝ) := by exact_mod_cast h
  simp only [Model.KernelRun.sigma0, ScReal.div_def, ScReal.lit_def, ScReal.sqrt_def, ScReal.ofNat_def]
  have := Real.sqrt_pos.mpr hn
  positivity

/-- the upper clip of tpCN: `min(sigma_0, 0.99)` -/
noncomputable def sigmaCap (c : Config ℝ) : ℝ := min (Model.KernelRun.sigma0 c.nDim) (99 / 100)

/-- every step size lies in `[0, min(sigma_0, 0.99)]` -/
def SigmaRange (c : Config ℝ) (s : State ℝ) : Prop := ∀ sg ∈ s.sigmas, 0 ≤ sg ∧ sg ≤ sigmaCap c

theorem sigmaCap_pos (c : Config ℝ) (hd : 1 ≤ c.nDim) : 0 < sigmaCap c ∧ sigmaCap c ≤ 99 / 100 :=
  ⟨lt_min (run_sigma0_pos _ hd) (by norm_num), min_le_right _ _⟩

theorem run_tpcnAdapt_eq (sg it acc s0 : ℝ) :
    tpcnAdapt sg it acc s0 = min (max (sg + 1 / (it + 1) * (acc - 234 / 1000)) 0) (min s0 (99 / 100)) := by
  simp only [tpcnAdapt, adaptRaw, ScReal.min_def, ScReal.max_def, ScReal.add_def, ScReal.mul_def, ScReal.div_def,
    ScReal.sub_def, ScReal.one_def, ScReal.zero_def, ScReal.lit_def]
  norm_num

theorem run_rwmAdapt_eq (sg it acc s0 : ℝ) : rwmAdapt sg it acc s0 = sg + 1 / (it + 1) * (acc - 234 / 1000) := by
  simp only [rwmAdapt, adaptRaw, ScReal.add_def, ScReal.mul_def, ScReal.div_def, ScReal.sub_def, ScReal.one_def,
    ScReal.lit_def]
  norm_num

/-- the initial step sizes of the constructed runner: tpCN `min(sigma_0, 0.99) ∈ (0, 0.99]`, RWM `sigma_0 > 0` -/
theorem C03_run_init_sigmas (kind : Kind) (a : Args ℝ) (hd : 1 ≤ shapeDim a.x) :
    (construct kind a).2.sigmas.length = a.modes.length ∧
    (kind = .tpcn → SigmaRange (construct kind a).1 (construct kind a).2 ∧
        ∀ sg ∈ (construct kind a).2.sigmas, 0 < sg ∧ sg ≤ 99 / 100) ∧
    (kind = .rwm → ∀ sg ∈ (construct kind a).2.sigmas, sg = Model.KernelRun.sigma0 (shapeDim a.x) ∧ 0 < sg) := by
  refine ⟨by simp [construct, initSigmas], ?_, ?_⟩
  · rintro rfl
    have hc := sigmaCap_pos (construct Kind.tpcn a).1 (by simpa [construct] using hd)
    have hval : ∀ sg ∈ (construct Kind.tpcn a).2.sigmas, sg = sigmaCap (construct Kind.tpcn a).1 := by
      intro sg hsg
      simp only [construct, initSigmas, initSigma, initSigmaTpcn, List.mem_replicate] at hsg
      rw [hsg.2]
      simp [sigmaCap, construct, model_npMinimum]
      norm_num
    constructor
    · intro sg hsg; rw [hval sg hsg]; exact ⟨hc.1.le, le_rfl⟩
    · intro sg hsg; rw [hval sg hsg]; exact hc
  · rintro rfl sg hsg
    simp only [construct, initSigmas, initSigma, initSigmaRwm, List.mem_replicate] at hsg
    have : sg = Model.KernelRun.sigma0 (shapeDim a.x) := by rw [hsg.2]; simp
    exact ⟨this, by rw [this]; exact run_sigma0_pos _ hd⟩

/-- one entry of the adapted vector -/
theorem run_adaptAll_entry (i : RunIn ℝ) (alphas : List ℝ) (x : ℝ) (hx : x ∈ adaptAll i alphas) :
    ∃ k sg, i.sigmas[k]? = some sg ∧
      x = if (clusterAlphas (i.walkers.map (·.assign)) alphas k).isEmpty then sg
          else adaptOne i.kind sg i.iter (mean (clusterAlphas (i.walkers.map (·.assign)) alphas k)) i.sigma0 := by
  unfold adaptAll at hx
  obtain ⟨k, hk, rfl⟩ := List.mem_mapIdx.mp hx
  exact ⟨k, i.sigmas[k], by simp, rfl⟩

/-- **range invariant over the whole run (tpCN)**: if the step sizes start in `[0, min(sigma_0, 0.99)]` (the constructor's do:
    `C03_run_init_sigmas`) they are there before and after EVERY pass and at the end — in particular `σ ≤ 0.99 < 1`, the
    hypothesis of `C03_tpcn_interior`, at every iteration -/
theorem C03_run_tpcn_sigma_range (c : Config ℝ) (s : State ℝ) (ts : List (List (Draw ℝ))) (hk : c.kind = .tpcn)
    (hd : 1 ≤ c.nDim) (h : SigmaRange c s) :
    SigmaRange c (run c s ts).final ∧ ∀ r ∈ (run c s ts).recs, SigmaRange c r.pre ∧ SigmaRange c r.post := by
  refine run_invariant c (SigmaRange c) ?_ ts s h
  intro s' t r hs hi x hx
  obtain ⟨-, -, hrun, -⟩ := iterate_spec c s' t r hi
  rw [((runStep_eq_some _ _ _).mp hrun).2] at hx
  obtain ⟨k, sg, hsg, rfl⟩ := run_adaptAll_entry _ _ x hx
  have hmem : sg ∈ s'.sigmas := by
    have : (stepInput c s'.sigmas s' t).sigmas = s'.sigmas := rfl
    rw [this] at hsg; exact List.mem_of_getElem? hsg
  split
  · exact hs sg hmem
  · have hs0 : (stepInput c s'.sigmas s' t).sigma0 = Model.KernelRun.sigma0 c.nDim := rfl
    have hkind : (stepInput c s'.sigmas s' t).kind = .tpcn := hk
    simp only [adaptOne, hkind, hs0, run_tpcnAdapt_eq]
    have hcap := sigmaCap_pos c hd
    unfold sigmaCap at hcap ⊢
    exact ⟨le_min (le_max_right _ _) hcap.1.le, min_le_right _ _⟩

/-- one adaptation moves a step size by at most `0.766/(iteration+1)` -/
theorem adapt_move_bound (kind : Kind) (sg it acc s0 : ℝ) (hit : 0 ≤ it) (h0 : 0 ≤ acc) (h1 : acc ≤ 1)
    (hr : kind = .tpcn → 0 ≤ sg ∧ sg ≤ min s0 (99 / 100)) :
    |adaptOne kind sg it acc s0 - sg| ≤ 766 / 1000 / (it + 1) := by
  have hpos : 0 < it + 1 := by linarith
  have hraw : |sg + 1 / (it + 1) * (acc - 234 / 1000) - sg| ≤ 766 / 1000 / (it + 1) := by
    have : sg + 1 / (it + 1) * (acc - 234 / 1000) - sg = (acc - 234 / 1000) / (it + 1) := by field_simp; ring
    rw [this, abs_div, abs_of_pos hpos]
    apply div_le_div_of_nonneg_right _ hpos.le
    rw [abs_le]; constructor <;> linarith
  cases kind with
  | rwm => simpa [adaptOne, run_rwmAdapt_eq] using hraw
  | tpcn =>
    obtain ⟨hs0, hs1⟩ := hr rfl
    simp only [adaptOne, run_tpcnAdapt_eq]
    set raw := sg + 1 / (it + 1) * (acc - 234 / 1000) with hrawdef
    set M := min s0 (99 / 100)
    -- clipping towards an interval that contains the old value only shrinks the move
    have hclip : |min (max raw 0) M - sg| ≤ |raw - sg| := by
      rw [abs_le]
      constructor
      · rcases le_total raw sg with h | h
        · rw [abs_of_nonpos (by linarith)]
          have : raw ≤ min (max raw 0) M := le_min (le_max_left _ _) (by linarith)
          linarith
        · rw [abs_of_nonneg (by linarith)]
          have : sg ≤ min (max raw 0) M := le_min (le_trans h (le_max_left _ _)) hs1
          linarith
      · rcases le_total raw sg with h | h
        · rw [abs_of_nonpos (by linarith)]
          have : min (max raw 0) M ≤ sg := le_trans (min_le_left _ _) (max_le h hs0)
          linarith
        · rw [abs_of_nonneg (by linarith)]
          have : min (max raw 0) M ≤ raw := le_trans (min_le_left _ _) (max_le le_rfl (by linarith))
          linarith
    exact le_trans hclip hraw

/-- **diminishing adaptation over the whole run, both kernels**: the step size of every cluster moves by at most
    `0.766/(t+1)` in the pass that brings the iteration counter to `t` (tpCN: given the range invariant, which
    `C03_run_tpcn_sigma_range` maintains; RWM: unconditionally).  The acceptance means are in `[0,1]` because they are means of
    the model step's acceptance probabilities (`run_step_alpha_unit`) — not an assumption. -/
theorem C03_run_diminishing_adaptation (c : Config ℝ) (s : State ℝ) (ts : List (List (Draw ℝ))) (hd : 1 ≤ c.nDim)
    (h : c.kind = .tpcn → SigmaRange c s) :
    ∀ r ∈ (run c s ts).recs, ∀ (k : Nat) (sg sg' : ℝ), r.pre.sigmas[k]? = some sg → r.post.sigmas[k]? = some sg' →
      |sg' - sg| ≤ 766 / 1000 / ((r.post.iteration : ℝ) + 1) := by
  intro r hr k sg sg' hpre hpost
  have hrange : c.kind = .tpcn → SigmaRange c r.pre := fun hk =>
    ((C03_run_tpcn_sigma_range c s ts hk hd (h hk)).2 r hr).1
  obtain ⟨hrun, -, hiter, hsig, -, -⟩ := C03_run_pass_is_runStep c s ts r hr
  set i := stepInput c r.pre.sigmas r.pre r.tape with hi
  have hentry := C03_adapt_per_cluster i (r.outs.map (·.alpha)) k sg hpre
  rw [← hsig, hpost] at hentry
  simp only [Option.some.injEq] at hentry
  have hbound_nonneg : (0 : ℝ) ≤ 766 / 1000 / ((r.post.iteration : ℝ) + 1) := by positivity
  rw [hentry]
  split
  · simpa using hbound_nonneg
  · rename_i hne
    have hitv : i.iter = (r.post.iteration : ℝ) := by rw [hiter]; rfl
    have halpha : ∀ a ∈ r.outs.map (·.alpha), 0 ≤ a ∧ a ≤ 1 := by
      intro a ha
      obtain ⟨o, ho, rfl⟩ := List.mem_map.mp ha
      obtain ⟨hm, -⟩ := (runStep_eq_some _ _ _).mp hrun
      obtain ⟨w, -, hws⟩ := run_mapM_mem _ _ _ hm o ho
      obtain ⟨si, -, rfl, -⟩ := run_walkerStep_some _ w o hws
      exact run_step_alpha_unit si
    have hmean := run_mean_unit (clusterAlphas (i.walkers.map (·.assign)) (r.outs.map (·.alpha)) k)
      (by intro he; rw [he] at hne; simp at hne)
      (fun a ha => halpha a (run_mem_clusterAlphas _ _ _ a ha))
    have := adapt_move_bound i.kind sg i.iter
      (mean (clusterAlphas (i.walkers.map (·.assign)) (r.outs.map (·.alpha)) k)) i.sigma0
      (by rw [hitv]; positivity) hmean.1 hmean.2
      (by
        intro hk
        have hk' : c.kind = .tpcn := hk
        exact hrange hk' sg (List.mem_of_getElem? hpre))
    rw [hitv] at this ⊢
    exact this

end Sigma

/-! ## 6. bookkeeping: counters, the iteration bounds of the stopping rule, fuel, return values -/

section Book
variable {α : Type} [ScT α]

/-- all per-walker arrays have `n` rows -/
def RunWF (s : State α) (n : Nat) : Prop := s.u.length = n ∧ s.x.length = n ∧ s.logl.length = n ∧ s.assign.length = n

omit [ScT α] in
theorem run_select_length {β : Type} : ∀ (n : Nat) (m : List Bool) (ns os : List β), m.length = n → ns.length = n →
    os.length = n → (select m ns os).length = n := by
  intro n
  induction n with
  | zero => intro m ns os h1 _ _; cases m <;> simp_all [select]
  | succ n ih =>
    intro m ns os h1 h2 h3
    cases m with
    | nil => simp at h1
    | cons b m =>
      cases ns with
      | nil => simp at h2
      | cons x ns =>
        cases os with
        | nil => simp at h3
        | cons y os =>
          simp only [select, List.length_cons, Nat.add_right_cancel_iff] at *
          exact ih m ns os h1 h2 h3

theorem iterate_wf (c : Config α) (s : State α) (t : List (Draw α)) (r : IterRec α) (n : Nat)
    (h : iterate c s t = some r) (hwf : RunWF s n) (ht : t.length = n) : RunWF r.post n ∧ r.outs.length = n := by
  obtain ⟨-, -, hrun, hu, hx, hl, ha, -⟩ := iterate_spec c s t r h
  obtain ⟨hm, -⟩ := (runStep_eq_some _ _ _).mp hrun
  have hlen : r.outs.length = n := by
    rw [run_mapM_length _ _ _ hm]
    exact run_walkers_length n _ _ _ _ hwf.1 hwf.2.2.2 hwf.2.2.1 ht
  refine ⟨⟨by rw [hu]; simpa using hlen, ?_, ?_, by rw [ha]; exact hwf.2.2.2⟩, hlen⟩
  · rw [hx]; exact run_select_length n _ _ _ (by simpa using hlen) (by simpa using ht) hwf.2.1
  · rw [hl]; exact run_select_length n _ _ _ (by simpa using hlen) (by simpa using ht) hwf.2.2.1

/-- **counters**: `iteration` counts the executed passes, `n_calls` grows by `n_walkers` per pass:
    after the run `iteration = iteration₀ + #passes` and `n_calls = n_calls₀ + #passes × n_walkers` -/
theorem C03_run_counters (c : Config α) (n : Nat) : ∀ (ts : List (List (Draw α))) (s : State α), RunWF s n →
    (∀ t ∈ ts, t.length = n) →
    (run c s ts).final.iteration = s.iteration + (run c s ts).recs.length ∧
    (run c s ts).final.nCalls = s.nCalls + (run c s ts).recs.length * n ∧ RunWF (run c s ts).final n := by
  intro ts
  induction ts with
  | nil => intro s hwf _; simp [run, hwf]
  | cons t ts ih =>
    intro s hwf ht
    unfold run
    cases hi : iterate c s t with
    | none => simp [hwf]
    | some r =>
      obtain ⟨-, -, -, -, -, -, -, hit, hnc, -⟩ := iterate_spec c s t r hi
      obtain ⟨hwf', -⟩ := iterate_wf c s t r n hi hwf (ht t List.mem_cons_self)
      have hnw : nWalkers s = n := hwf.2.1
      by_cases hs : r.stop = true
      · simp [hs, hit, hnc, hnw, hwf']
      · obtain ⟨i1, i2, i3⟩ := ih r.post hwf' (fun t' ht' => ht t' (List.mem_cons_of_mem _ ht'))
        simp only [hs, Bool.false_eq_true, if_false, List.length_cons]
        refine ⟨by rw [i1, hit]; omega, ?_, i3⟩
        rw [i2, hnc, hnw, Nat.succ_mul]; omega

/-- the k-th executed pass (0-based) runs with iteration number `iteration₀ + k + 1` -/
theorem C03_run_iteration_numbers (c : Config α) : ∀ (ts : List (List (Draw α))) (s : State α) (k : Nat) (r : IterRec α),
    (run c s ts).recs[k]? = some r → r.pre.iteration = s.iteration + k ∧ r.post.iteration = s.iteration + k + 1 := by
  intro ts
  induction ts with
  | nil => intro s k r h; simp [run] at h
  | cons t ts ih =>
    intro s k r h
    unfold run at h
    cases hi : iterate c s t with
    | none => simp [hi] at h
    | some r0 =>
      obtain ⟨hpre, -, -, -, -, -, -, hit, -⟩ := iterate_spec c s t r0 hi
      by_cases hs : r0.stop = true
      · simp only [hi, hs, ↓reduceIte] at h
        cases k with
        | zero => simp at h; subst h; rw [hpre, hit]; omega
        | succ k => simp at h
      · simp only [hi, hs, Bool.false_eq_true, ↓reduceIte] at h
        cases k with
        | zero => simp at h; subst h; rw [hpre, hit]; omega
        | succ k =>
          simp only [List.getElem?_cons_succ] at h
          obtain ⟨j1, j2⟩ := ih r0.post k r h
          rw [j1, j2, hit]; omega

/-- when the stopping rule fired, the last record is the pass that fired it and the loop was left in its post-state -/
theorem run_done_last (c : Config α) : ∀ (ts : List (List (Draw α))) (s : State α), (run c s ts).status = .done →
    ∃ r, (run c s ts).recs.getLast? = some r ∧ r.stop = true ∧ (run c s ts).final = r.post ∧
      ∀ r' ∈ (run c s ts).recs.dropLast, r'.stop = false := by
  intro ts
  induction ts with
  | nil => intro s h; simp [run] at h
  | cons t ts ih =>
    intro s h
    unfold run at h ⊢
    cases hi : iterate c s t with
    | none => simp [hi] at h
    | some r =>
      by_cases hs : r.stop = true
      · exact ⟨r, by simp [hs]⟩
      · simp only [hi, hs, Bool.false_eq_true, if_false] at h ⊢
        obtain ⟨r1, g1, g2, g3, g4⟩ := ih r.post h
        have hne : (run c r.post ts).recs ≠ [] := by
          intro he; rw [he] at g1; simp at g1
        refine ⟨r1, ?_, g2, g3, ?_⟩
        · rw [List.getLast?_cons_of_ne_nil hne]; exact g1
        · intro r' hr'
          rw [List.dropLast_cons_of_ne_nil hne] at hr'
          rcases List.mem_cons.mp hr' with rfl | hr''
          · simpa using hs
          · exact g4 r' hr''

/-- **return values**: `average_efficiency` is the mean of the FINAL step sizes — those adapted after the last step, which no
    step of this run has used — over `sigma_0`; `average_acceptance` is the mean acceptance probability of the LAST step;
    `iteration` and `n_calls` are the counters -/
theorem C03_run_result (c : Config α) (s : State α) (ts : List (List (Draw α))) (hd : (run c s ts).status = .done) :
    ∃ r, (run c s ts).recs.getLast? = some r ∧ r.stop = true ∧ (run c s ts).final = r.post ∧
      (result c (run c s ts).final).efficiency
        = Sc.div (mean (adaptAll (stepInput c r.pre.sigmas r.pre r.tape) (r.outs.map (·.alpha)))) (Model.KernelRun.sigma0 c.nDim) ∧
      (result c (run c s ts).final).acceptance = mean (r.outs.map (·.alpha)) ∧
      (result c (run c s ts).final).u = r.outs.map (·.newU) ∧
      (result c (run c s ts).final).iteration = r.post.iteration ∧ (result c (run c s ts).final).nCalls = r.post.nCalls := by
  obtain ⟨r, h1, h2, h3, -⟩ := run_done_last c ts s hd
  obtain ⟨-, -, -, hsig, hu, hal⟩ := C03_run_pass_is_runStep c s ts r (List.mem_of_getLast? h1)
  refine ⟨r, h1, h2, h3, ?_, ?_, ?_, ?_, ?_⟩ <;> simp [result, h3, hsig, hal, hu]

/-- the step of every pass can be executed (no IndexError): the step-size vector has one entry per mode and every assignment
    is a mode index -/
def RunValid (c : Config α) (s : State α) : Prop := s.sigmas.length = c.modes.length ∧ ∀ a ∈ s.assign, a < c.modes.length

theorem iterate_some_of_valid (c : Config α) (s : State α) (t : List (Draw α)) (h : RunValid c s) :
    ∃ r, iterate c s t = some r := by
  have hm : ∃ outs, (stepInput c s.sigmas s t).walkers.mapM (walkerStep (stepInput c s.sigmas s t)) = some outs := by
    apply run_mapM_some_of_forall
    intro w hw
    have ha : w.assign < c.modes.length := h.2 _ (run_mem_walkers _ _ _ _ w hw).2
    have h1 : (stepInput c s.sigmas s t).modes[w.assign]? = some (c.modes[w.assign]) := by
      simp [stepInput, ha]
    have h2 : (stepInput c s.sigmas s t).sigmas[w.assign]? = some (s.sigmas[w.assign]'(by rw [h.1]; exact ha)) := by
      simp [stepInput, h.1, ha]
    simp [walkerStep, walkerInput, h1, h2]
  obtain ⟨outs, ho⟩ := hm
  have hrun := (runStep_eq_some (stepInput c s.sigmas s t) outs _).mpr ⟨ho, rfl⟩
  unfold iterate
  rw [hrun]
  exact ⟨_, rfl⟩

theorem valid_post (c : Config α) (s : State α) (t : List (Draw α)) (r : IterRec α) (h : RunValid c s)
    (hi : iterate c s t = some r) : RunValid c r.post := by
  obtain ⟨-, -, hrun, -, -, -, ha, -⟩ := iterate_spec c s t r hi
  refine ⟨?_, by rw [ha]; exact h.2⟩
  rw [((runStep_eq_some _ _ _).mp hrun).2, C03_adapt_length]
  exact h.1

end Book

section Stop

theorem adaptiveSteps_real (nS nD nM : ℕ) (acc ws s0 : ℝ) :
    Model.KernelRun.adaptiveSteps nS nD nM acc ws s0
      = ((⌊min (max ((nS * nD : ℕ) : ℝ) (adaptiveRaw nS nD acc ws s0)) ((nM * nD : ℕ) : ℝ)⌋ : ℤ) : ℝ) := by
  simp only [Model.KernelRun.adaptiveSteps, boundedSteps, ScReal.floor_def, ScReal.min_def, ScReal.max_def, ScReal.ofNat_def]

/-- the stopping rule fires at the latest when the iteration counter reaches `n_max * n_dim` — whatever the acceptance and the
    step sizes are -/
theorem stop_of_iter_ge (c : Config ℝ) (s : State ℝ) (t : List (Draw ℝ)) (r : IterRec ℝ) (h : iterate c s t = some r)
    (hge : c.nMax * c.nDim ≤ s.iteration + 1) : r.stop = true := by
  obtain ⟨-, -, -, -, -, -, -, -, -, -, -, -, hsteps, hstop⟩ := iterate_spec c s t r h
  rw [hstop, hsteps, adaptiveSteps_real]
  simp only [converged, ScReal.le_def, ScReal.ofNat_def]
  have hge' : ((c.nMax * c.nDim : ℕ) : ℝ) ≤ ((s.iteration + 1 : ℕ) : ℝ) := by exact_mod_cast hge
  exact le_trans (Int.floor_le _) (le_trans (min_le_right _ _) hge')

/-- … and not before it reaches `min(n_steps, n_max) * n_dim` -/
theorem iter_ge_of_stop (c : Config ℝ) (s : State ℝ) (t : List (Draw ℝ)) (r : IterRec ℝ) (h : iterate c s t = some r)
    (hst : r.stop = true) : min (c.nSteps * c.nDim) (c.nMax * c.nDim) ≤ s.iteration + 1 := by
  obtain ⟨-, -, -, -, -, -, -, -, -, -, -, -, hsteps, hstop⟩ := iterate_spec c s t r h
  rw [hstop, hsteps, adaptiveSteps_real] at hst
  simp only [converged, ScReal.le_def, ScReal.ofNat_def] at hst
  set B := min (max ((c.nSteps * c.nDim : ℕ) : ℝ) (adaptiveRaw c.nSteps c.nDim r.curAcc r.wsigma (Model.KernelRun.sigma0 c.nDim)))
    ((c.nMax * c.nDim : ℕ) : ℝ)
  have hB : ((min (c.nSteps * c.nDim) (c.nMax * c.nDim) : ℕ) : ℝ) ≤ B := by
    rw [Nat.cast_min]
    exact min_le_min (le_max_left _ _) le_rfl
  have hfl : ((min (c.nSteps * c.nDim) (c.nMax * c.nDim) : ℕ) : ℤ) ≤ ⌊B⌋ := Int.le_floor.mpr (by exact_mod_cast hB)
  have : ((min (c.nSteps * c.nDim) (c.nMax * c.nDim) : ℕ) : ℝ) ≤ ((s.iteration + 1 : ℕ) : ℝ) := by
    have h2 : (((min (c.nSteps * c.nDim) (c.nMax * c.nDim) : ℕ) : ℤ) : ℝ) ≤ ((⌊B⌋ : ℤ) : ℝ) := by exact_mod_cast hfl
    exact le_trans (by exact_mod_cast h2) hst
  exact_mod_cast this

/-- **upper bound on the number of iterations, for every tape**: a runner started below `max(1, n_max*n_dim)` never counts
    beyond it -/
theorem C03_run_iteration_upper (c : Config ℝ) : ∀ (ts : List (List (Draw ℝ))) (s : State ℝ),
    s.iteration < fuelBound c → (run c s ts).final.iteration ≤ fuelBound c := by
  intro ts
  induction ts with
  | nil => intro s h; simp [run]; omega
  | cons t ts ih =>
    intro s h
    unfold run
    cases hi : iterate c s t with
    | none => simp; omega
    | some r =>
      have hit := (iterate_spec c s t r hi).2.2.2.2.2.2.2.1
      by_cases hs : r.stop = true
      · simp [hs, hit]; omega
      · simp only [hs, Bool.false_eq_true, if_false]
        apply ih
        rw [hit]
        have : ¬ c.nMax * c.nDim ≤ s.iteration + 1 := fun hge => hs (stop_of_iter_ge c s t r hi hge)
        have hb : c.nMax * c.nDim ≤ fuelBound c := Nat.le_max_right _ _
        omega

/-- **lower bounds**: when the stopping rule fired, at least one pass was executed and the counter reached
    `min(n_steps, n_max) * n_dim` -/
theorem C03_run_iteration_lower (c : Config ℝ) : ∀ (ts : List (List (Draw ℝ))) (s : State ℝ),
    (run c s ts).status = .done →
    s.iteration + 1 ≤ (run c s ts).final.iteration ∧
    min (c.nSteps * c.nDim) (c.nMax * c.nDim) ≤ (run c s ts).final.iteration := by
  intro ts
  induction ts with
  | nil => intro s h; simp [run] at h
  | cons t ts ih =>
    intro s h
    unfold run at h ⊢
    cases hi : iterate c s t with
    | none => simp [hi] at h
    | some r =>
      have hit := (iterate_spec c s t r hi).2.2.2.2.2.2.2.1
      by_cases hs : r.stop = true
      · have := iter_ge_of_stop c s t r hi hs
        simp only [hs, ↓reduceIte]
        rw [hit]
        exact ⟨le_rfl, this⟩
      · simp only [hi, hs, Bool.false_eq_true, if_false] at h ⊢
        obtain ⟨i1, i2⟩ := ih r.post h
        rw [hit] at i1
        exact ⟨by omega, i2⟩

/-- **fuel is never the reason the model loop stops**: with at least `max(1, n_max*n_dim)` tapes (counted from the current
    iteration) the run does not end by exhausting them -/
theorem C03_run_fuel_suffices (c : Config ℝ) : ∀ (ts : List (List (Draw ℝ))) (s : State ℝ),
    s.iteration < fuelBound c → fuelBound c ≤ s.iteration + ts.length → (run c s ts).status ≠ .outOfTape := by
  intro ts
  induction ts with
  | nil => intro s h1 h2; simp at h2; omega
  | cons t ts ih =>
    intro s h1 h2
    unfold run
    cases hi : iterate c s t with
    | none => simp
    | some r =>
      have hit := (iterate_spec c s t r hi).2.2.2.2.2.2.2.1
      by_cases hs : r.stop = true
      · simp [hs]
      · simp only [hs, Bool.false_eq_true, if_false]
        have : ¬ c.nMax * c.nDim ≤ s.iteration + 1 := fun hge => hs (stop_of_iter_ge c s t r hi hge)
        have hb : c.nMax * c.nDim ≤ fuelBound c := Nat.le_max_right _ _
        apply ih
        · rw [hit]; omega
        · rw [hit]; simp at h2; omega

/-- with enough fuel and valid assignments the run ends by the stopping rule -/
theorem C03_run_done (c : Config ℝ) : ∀ (ts : List (List (Draw ℝ))) (s : State ℝ), RunValid c s →
    s.iteration < fuelBound c → fuelBound c ≤ s.iteration + ts.length → (run c s ts).status = .done := by
  intro ts
  induction ts with
  | nil => intro s _ h1 h2; simp at h2; omega
  | cons t ts ih =>
    intro s hv h1 h2
    obtain ⟨r, hi⟩ := iterate_some_of_valid c s t hv
    have hit := (iterate_spec c s t r hi).2.2.2.2.2.2.2.1
    unfold run
    by_cases hs : r.stop = true
    · simp [hi, hs]
    · simp only [hi, hs, Bool.false_eq_true, if_false]
      have : ¬ c.nMax * c.nDim ≤ s.iteration + 1 := fun hge => hs (stop_of_iter_ge c s t r hi hge)
      have hb : c.nMax * c.nDim ≤ fuelBound c := Nat.le_max_right _ _
      apply ih r.post (valid_post c s t r hv hi)
      · rw [hit]; omega
      · rw [hit]; simp at h2; omega

/-- more tapes than needed change nothing -/
theorem C03_run_fuel_irrelevant {α : Type} [ScT α] (c : Config α) (more : List (List (Draw α))) :
    ∀ (ts : List (List (Draw α))) (s : State α), (run c s ts).status ≠ .outOfTape → run c s (ts ++ more) = run c s ts := by
  intro ts
  induction ts with
  | nil => intro s h; simp [run] at h
  | cons t ts ih =>
    intro s h
    rw [List.cons_append]
    unfold run at h ⊢
    cases hi : iterate c s t with
    | none => rfl
    | some r =>
      by_cases hs : r.stop = true
      · simp [hs]
      · simp only [hi, hs, Bool.false_eq_true, if_false] at h ⊢
        rw [ih r.post h]

/-- **the exact picture for a freshly constructed runner** (`iteration = 0`): the run ends by its own rule after `T` passes with
    `max(1, min(n_steps, n_max)·n_dim) ≤ T ≤ max(1, n_max·n_dim)`; in particular `T = max(1, n_max·n_dim)` exactly whenever
    `n_max ≤ n_steps` (the maximum bound wins over the minimum bound) -/
theorem C03_run_iteration_bounds (c : Config ℝ) (s : State ℝ) (ts : List (List (Draw ℝ))) (hv : RunValid c s)
    (h0 : s.iteration = 0) (hfuel : fuelBound c ≤ ts.length) :
    (run c s ts).status = .done ∧
    (run c s ts).final.iteration = (run c s ts).recs.length ∧
    1 ≤ (run c s ts).final.iteration ∧
    min (c.nSteps * c.nDim) (c.nMax * c.nDim) ≤ (run c s ts).final.iteration ∧
    (run c s ts).final.iteration ≤ fuelBound c ∧
    (c.nMax ≤ c.nSteps → (run c s ts).final.iteration = fuelBound c) := by
  have hpos : s.iteration < fuelBound c := by rw [h0]; exact Nat.lt_of_lt_of_le Nat.zero_lt_one (Nat.le_max_left _ _)
  have hd := C03_run_done c ts s hv hpos (by omega)
  obtain ⟨l1, l2⟩ := C03_run_iteration_lower c ts s hd
  have hu := C03_run_iteration_upper c ts s hpos
  have hlen : (run c s ts).final.iteration = (run c s ts).recs.length := by
    have hchain := run_chain c ts s
    have key : ∀ (rs : List (IterRec ℝ)) (s f : State ℝ), RunChain c s rs f → f.iteration = s.iteration + rs.length := by
      intro rs
      induction rs with
      | nil => intro s f h; simp [RunChain] at h; simp [h]
      | cons r0 rs ih =>
        intro s f h
        obtain ⟨h1, h2⟩ := h
        rw [ih r0.post f h2, (iterate_spec c s r0.tape r0 h1).2.2.2.2.2.2.2.1]; simp; omega
    rw [key _ s _ hchain, h0]; simp
  refine ⟨hd, hlen, by omega, l2, hu, ?_⟩
  intro hle
  have hmul : c.nMax * c.nDim ≤ c.nSteps * c.nDim := Nat.mul_le_mul_right _ hle
  have hmin : min (c.nSteps * c.nDim) (c.nMax * c.nDim) = c.nMax * c.nDim := Nat.min_eq_right hmul
  rw [hmin] at l2
  have : fuelBound c ≤ (run c s ts).final.iteration := Nat.max_le.mpr ⟨by omega, l2⟩
  omega

end Stop

/-! ## 7. everything together, from the arguments of `parallel_mcmc`; non-vacuity -/

section Whole

/-- **the whole call `parallel_mcmc(…)`** for any `sample`, any tapes: for arguments as the pipeline provides them (at least
    one dimension, every assignment a mode index, all points in the cube, consistent shapes) and enough tapes, the run ends by
    its own stopping rule after between 1 and `max(1, n_max·n_dim)` passes; at EVERY pass the assignments are the input's, the
    points lie in the cube, the tpCN step sizes lie in `[0, min(σ₀, 0.99)] ⊂ [0, 1)`, the pass is one `runStep` with the step
    sizes it is handed; afterwards `iteration = #passes`, `n_calls = #passes × n_walkers`. -/
theorem C03_run_whole (sample : String) (a : Args ℝ) (ts : List (List (Draw ℝ))) (n : ℕ)
    (hd : 1 ≤ shapeDim a.x) (hassign : ∀ k ∈ a.assign, k < a.modes.length)
    (hcube : ∀ u ∈ a.u, Model.Boundary.checkBounds a.per a.refl u = true)
    (hwf : a.u.length = n ∧ a.x.length = n ∧ a.logl.length = n ∧ a.assign.length = n)
    (hts : ∀ t ∈ ts, t.length = n) (hfuel : max 1 (a.nMax * shapeDim a.x) ≤ ts.length) :
    (parallelMcmc sample a ts).2.status = .done ∧
    (parallelMcmc sample a ts).2.final.assign = a.assign ∧
    (∀ r ∈ (parallelMcmc sample a ts).2.recs,
        r.pre.assign = a.assign ∧ RunInCube (parallelMcmc sample a ts).1 r.pre ∧ RunInCube (parallelMcmc sample a ts).1 r.post ∧
        ((parallelMcmc sample a ts).1.kind = .tpcn → ∀ sg ∈ r.pre.sigmas, 0 ≤ sg ∧ sg ≤ 99 / 100) ∧
        runStep (stepInput (parallelMcmc sample a ts).1 r.pre.sigmas r.pre r.tape) = some (r.outs, r.post.sigmas)) ∧
    (parallelMcmc sample a ts).2.final.iteration = (parallelMcmc sample a ts).2.recs.length ∧
    (parallelMcmc sample a ts).2.final.nCalls = (parallelMcmc sample a ts).2.recs.length * n ∧
    1 ≤ (parallelMcmc sample a ts).2.recs.length ∧
    (parallelMcmc sample a ts).2.recs.length ≤ max 1 (a.nMax * shapeDim a.x) := by
  set kind := dispatch sample with hkind
  set c := (construct kind a).1 with hc
  set s := (construct kind a).2 with hs
  have hpm : parallelMcmc sample a ts = (c, run c s ts) := rfl
  rw [hpm]
  have hcon := C03_run_construct kind a
  simp only at hcon
  obtain ⟨k1, k2, -, k4, k5, -, k7, k8, k9, k10, k11, k12, k13, k14, k15⟩ := hcon
  have hvalid : RunValid c s := by
    refine ⟨?_, ?_⟩
    · rw [k15, k2]; simp
    · rw [k12, k2]; exact hassign
  have hwfs : RunWF s n := ⟨by rw [k9]; exact hwf.1, by rw [k10]; exact hwf.2.1, by rw [k11]; exact hwf.2.2.1,
    by rw [k12]; exact hwf.2.2.2⟩
  have hcube0 : RunInCube c s := by intro u hu; rw [k9] at hu; rw [k4, k5]; exact hcube u hu
  have hfb : fuelBound c = max 1 (a.nMax * shapeDim a.x) := by
    show Nat.max 1 ((construct kind a).1.nMax * (construct kind a).1.nDim) = _
    rw [k7, k8]
  obtain ⟨b1, b2, b3, -, b5, -⟩ := C03_run_iteration_bounds c s ts hvalid k13 (by rw [hfb]; exact hfuel)
  obtain ⟨a1, a2⟩ := C03_run_assignments_fixed c s ts
  obtain ⟨-, q2⟩ := C03_run_stays_in_cube c s ts hcube0
  obtain ⟨-, n2, -⟩ := C03_run_counters c n ts s hwfs hts
  have hdim : 1 ≤ c.nDim := by rw [k8]; exact hd
  refine ⟨b1, by rw [a1, k12], ?_, b2, by rw [n2, k14]; simp, by rw [← b2]; exact b3, by rw [← b2, ← hfb]; exact b5⟩
  intro r hr
  refine ⟨by rw [(a2 r hr).1, k12], (q2 r hr).1, (q2 r hr).2, ?_, (C03_run_pass_is_runStep c s ts r hr).1⟩
  intro hk
  have hk' : kind = .tpcn := by rw [← k1]; exact hk
  have hinit := (C03_run_init_sigmas kind a hd).2.1 hk'
  have hrange := ((C03_run_tpcn_sigma_range c s ts hk hdim hinit.1).2 r hr).1
  intro sg hsg
  exact ⟨(hrange sg hsg).1, le_trans (hrange sg hsg).2 (sigmaCap_pos c hdim).2⟩

/-! ### non-vacuity -/

noncomputable def exRunArgs : Args ℝ :=
  { u := [[2/5], [7/10], [1]], x := [[2/5], [7/10], [1]], logl := [0, -1, -2], assign := [1, 0, 1], beta := 1 / 2,
    modes := exModes, nSteps := 3, nMax := 2, per := [], refl := [] }

theorem exRunArgs_cube : ∀ u ∈ exRunArgs.u, Model.Boundary.checkBounds exRunArgs.per exRunArgs.refl u = true := by
  intro u hu
  rw [Props.C16.C16_checkBounds_iff]
  simp only [exRunArgs, List.mem_cons, List.not_mem_nil, or_false] at hu
  rcases hu with rfl | rfl | rfl <;> intro i hi _ _ <;>
    (have : i = 0 := by simpa using hi) <;> subst this <;> norm_num

/-- `n_max = 2 ≤ n_steps = 3`, one dimension, two modes of different dof, a point on the cube face: for EVERY tape and both
    kernels the run consists of exactly `max(1, n_max·n_dim) = 2` passes, ends by the stopping rule, and all invariants hold
    at both passes (hypotheses of `C03_run_whole` instantiated, conclusion not vacuous: two records) -/
example (sample : String) (t1 t2 : List (Draw ℝ)) (h1 : t1.length = 3) (h2 : t2.length = 3) :
    (parallelMcmc sample exRunArgs [t1, t2]).2.status = .done ∧ (parallelMcmc sample exRunArgs [t1, t2]).2.recs.length = 2 ∧
    (parallelMcmc sample exRunArgs [t1, t2]).2.final.nCalls = 6 ∧
    (parallelMcmc sample exRunArgs [t1, t2]).2.final.assign = [1, 0, 1] := by
  have hts : ∀ t ∈ [t1, t2], t.length = 3 := by
    intro t ht; simp only [List.mem_cons, List.not_mem_nil, or_false] at ht; rcases ht with rfl | rfl <;> assumption
  have hd : 1 ≤ shapeDim exRunArgs.x := by simp [exRunArgs, shapeDim]
  have hassign : ∀ k ∈ exRunArgs.assign, k < exRunArgs.modes.length := by
    intro k hk; simp only [exRunArgs, exModes, List.mem_cons, List.not_mem_nil, or_false] at hk ⊢
    rcases hk with rfl | rfl | rfl <;> simp
  have hfuel : max 1 (exRunArgs.nMax * shapeDim exRunArgs.x) ≤ [t1, t2].length := by simp [exRunArgs, shapeDim]
  obtain ⟨w1, w2, -, w4, w5, w6, w7⟩ := C03_run_whole sample exRunArgs [t1, t2] 3 hd hassign exRunArgs_cube
    (by simp [exRunArgs]) hts hfuel
  -- exactly two passes: the lower bound min(n_steps, n_max)·n_dim = 2 of the stopping rule
  have hpm : parallelMcmc sample exRunArgs [t1, t2]
      = ((construct (dispatch sample) exRunArgs).1, run (construct (dispatch sample) exRunArgs).1 (construct (dispatch sample) exRunArgs).2 [t1, t2]) := rfl
  have hlow := (C03_run_iteration_lower (construct (dispatch sample) exRunArgs).1 [t1, t2] (construct (dispatch sample) exRunArgs).2
    (by rw [hpm] at w1; exact w1)).2
  rw [hpm] at w1 w2 w4 w5 w7 ⊢
  simp only at w1 w2 w4 w5 w7 ⊢
  have hmin : min ((construct (dispatch sample) exRunArgs).1.nSteps * (construct (dispatch sample) exRunArgs).1.nDim)
      ((construct (dispatch sample) exRunArgs).1.nMax * (construct (dispatch sample) exRunArgs).1.nDim) = 2 := by
    simp [construct, exRunArgs, shapeDim]
  rw [hmin, w4] at hlow
  have hup : (run (construct (dispatch sample) exRunArgs).1 (construct (dispatch sample) exRunArgs).2 [t1, t2]).recs.length ≤ 2 := by
    have : max 1 (exRunArgs.nMax * shapeDim exRunArgs.x) = 2 := by simp [exRunArgs, shapeDim]
    rw [this] at w7; exact w7
  have hlen : (run (construct (dispatch sample) exRunArgs).1 (construct (dispatch sample) exRunArgs).2 [t1, t2]).recs.length = 2 := by omega
  refine ⟨w1, hlen, by rw [w5, hlen], by rw [w2]; rfl⟩

/-- the range invariant's hypothesis holds for the constructed tpCN runner, with a value strictly inside `(0, 0.99]` -/
example : ∀ sg ∈ (construct Kind.tpcn exRunArgs).2.sigmas, 0 < sg ∧ sg ≤ 99 / 100 :=
  ((C03_run_init_sigmas Kind.tpcn exRunArgs (by simp [exRunArgs, shapeDim])).2.1 rfl).2

/-- diminishing adaptation is not vacuous: a concrete adaptation at iteration 1 from σ = 0.5 with mean acceptance 1 moves by
    exactly `0.766/2`, the bound; clipped at the cap it moves less -/
example : |adaptOne Kind.rwm (1/2 : ℝ) 1 1 (238/100) - 1/2| = 766 / 1000 / (1 + 1) ∧
    |adaptOne Kind.tpcn (9/10 : ℝ) 1 1 (238/100) - 9/10| ≤ 766 / 1000 / (1 + 1) ∧
    adaptOne Kind.tpcn (9/10 : ℝ) 1 1 (238/100) = 99 / 100 := by
  refine ⟨?_, adapt_move_bound Kind.tpcn (9/10) 1 1 (238/100) (by norm_num) (by norm_num) (by norm_num)
    (fun _ => ⟨by norm_num, by norm_num [min_def]⟩), ?_⟩
  · rw [adaptOne, run_rwmAdapt_eq]; norm_num
  · rw [adaptOne, run_tpcnAdapt_eq]; norm_num [min_def, max_def]

noncomputable def exRunOutside : StepIn ℝ :=
  { kind := .rwm, u := [2/5], mu := [0], chol := [[1]], invcov := [[1]], nu := 1, sigma := 238/100,
    beta := 1, l := 0, lp := 5, g := 1, r := 0, z := [1], per := [], refl := [] }

/-- rejection rule on a concrete RWM walker: σ·L·z = 2.38·1·1 carries 0.4 to 2.78, outside the cube: alpha 0, point kept -/
example : (step exRunOutside).inb = false ∧ (step exRunOutside).alpha = 0 ∧ (step exRunOutside).newU = [2/5] := by
  have hinb : (step exRunOutside).inb = false := by
    rw [(C03_run_hard_reject_rule _).1]
    simp only [exRunOutside, step, finish, Model.Boundary.apply, List.foldl_nil, rwmProposal, vadd, matVec, scaleMat, dotv,
      List.map_cons, List.map_nil, List.zipWith_cons_cons, List.zipWith_nil_right, run_sc_sum_eq, List.sum_cons, List.sum_nil,
      ScReal.mul_def, ScReal.add_def]
    rw [Bool.eq_false_iff, Ne, Props.C16.C16_checkBounds_iff]
    intro h
    have := h 0 (by simp) (by simp) (by simp)
    norm_num at this
  exact ⟨hinb, (C03_run_hard_reject_real _ hinb).2.1, (C03_run_hard_reject_real _ hinb).2.2.2.1⟩

/-- **what `_calculate_adaptive_steps` averages (suspected defect, affects only the NUMBER of steps)**: the populations of the
    non-empty clusters are paired with the FIRST m step sizes, not with the step sizes of those clusters.  With two modes and
    every walker in mode 1 the "weighted average" is the step size of the EMPTY mode 0 (which is never adapted), whatever mode 1's
    step size is; with three modes and mode 1 empty, mode 2's population weighs mode 1's step size. -/
theorem C03_run_weighted_sigma_pairing (a b e : ℝ) :
    weightedSigma [a, b] (clusterSizes 2 [1, 1, 1, 1]) = a ∧
    weightedSigma [a, b, e] (clusterSizes 3 [0, 0, 0, 2]) = (a * 3 + b * 1) / 4 := by
  constructor
  · have : clusterSizes 2 [1, 1, 1, 1] = [4] := by decide
    rw [this]
    simp [weightedSigma, run_sc_sum_eq]
  · have : clusterSizes 3 [0, 0, 0, 2] = [3, 1] := by decide
    rw [this]
    simp [weightedSigma, run_sc_sum_eq]
    norm_num

/-- the stopping rule on concrete numbers: `n_steps = 2, n_dim = 3, n_max = 10`, acceptance 0.234, weighted σ = σ₀ gives
    exactly the minimum `n_steps·n_dim = 6`; acceptance 0.0585 (a quarter) gives 24; both are capped by `n_max·n_dim = 30` -/
example : Model.KernelRun.adaptiveSteps 2 3 10 (234/1000 : ℝ) (5 : ℝ) 5 = 6 ∧
    Model.KernelRun.adaptiveSteps 2 3 10 (585/10000 : ℝ) (5 : ℝ) 5 = 24 ∧
    Model.KernelRun.adaptiveSteps 2 3 10 (1/1000 : ℝ) (5 : ℝ) 5 = 30 := by
  refine ⟨?_, ?_, ?_⟩ <;> rw [adaptiveSteps_real] <;>
    simp only [adaptiveRaw, ScReal.mul_def, ScReal.div_def, ScReal.lit_def, ScReal.max_def, ScReal.ofNat_def] <;>
    norm_num [Int.floor_eq_iff, max_def, min_def]

end Whole

section MoreExamples
variable (sample : String) (t1 t2 : List (Draw ℝ))

/-- the concrete run of the example above, as a fact to instantiate the remaining theorems on -/
theorem exRun_two_passes (h1 : t1.length = 3) (h2 : t2.length = 3) :
    (run (construct (dispatch sample) exRunArgs).1 (construct (dispatch sample) exRunArgs).2 [t1, t2]).status = .done ∧
    (run (construct (dispatch sample) exRunArgs).1 (construct (dispatch sample) exRunArgs).2 [t1, t2]).recs.length = 2 := by
  have hts : ∀ t ∈ [t1, t2], t.length = 3 := by
    intro t ht; simp only [List.mem_cons, List.not_mem_nil, or_false] at ht; rcases ht with rfl | rfl <;> assumption
  have hd : 1 ≤ shapeDim exRunArgs.x := by simp [exRunArgs, shapeDim]
  have hassign : ∀ k ∈ exRunArgs.assign, k < exRunArgs.modes.length := by
    intro k hk; simp only [exRunArgs, exModes, List.mem_cons, List.not_mem_nil, or_false] at hk ⊢
    rcases hk with rfl | rfl | rfl <;> simp
  have hfuel : max 1 (exRunArgs.nMax * shapeDim exRunArgs.x) ≤ [t1, t2].length := by simp [exRunArgs, shapeDim]
  obtain ⟨w1, -, -, w4, -, -, w7⟩ := C03_run_whole sample exRunArgs [t1, t2] 3 hd hassign exRunArgs_cube
    (by simp [exRunArgs]) hts hfuel
  have hpm : parallelMcmc sample exRunArgs [t1, t2]
      = ((construct (dispatch sample) exRunArgs).1,
         run (construct (dispatch sample) exRunArgs).1 (construct (dispatch sample) exRunArgs).2 [t1, t2]) := rfl
  rw [hpm] at w1 w4 w7
  simp only at w1 w4 w7
  have hlow := (C03_run_iteration_lower _ [t1, t2] _ w1).2
  have hmin : min ((construct (dispatch sample) exRunArgs).1.nSteps * (construct (dispatch sample) exRunArgs).1.nDim)
      ((construct (dispatch sample) exRunArgs).1.nMax * (construct (dispatch sample) exRunArgs).1.nDim) = 2 := by
    simp [construct, exRunArgs, shapeDim]
  rw [hmin, w4] at hlow
  have : max 1 (exRunArgs.nMax * shapeDim exRunArgs.x) = 2 := by simp [exRunArgs, shapeDim]
  rw [this] at w7
  exact ⟨w1, by omega⟩

/-- hand-over between the two passes: the second pass starts from exactly what the first one left (step sizes included) -/
example (h1 : t1.length = 3) (h2 : t2.length = 3) :
    ∃ r0 r1, (run (construct (dispatch sample) exRunArgs).1 (construct (dispatch sample) exRunArgs).2 [t1, t2]).recs = [r0, r1] ∧
      r1.pre = r0.post ∧ r1.pre.sigmas = adaptAll (stepInput (construct (dispatch sample) exRunArgs).1 r0.pre.sigmas r0.pre r0.tape)
        (r0.outs.map (·.alpha)) ∧ r0.stop = false ∧ r1.stop = true := by
  obtain ⟨hd, hlen⟩ := exRun_two_passes sample t1 t2 h1 h2
  set c := (construct (dispatch sample) exRunArgs).1
  set s := (construct (dispatch sample) exRunArgs).2
  obtain ⟨r0, r1, hrecs⟩ : ∃ r0 r1, (run c s [t1, t2]).recs = [r0, r1] := by
    match h : (run c s [t1, t2]).recs, hlen with
    | [a, b], _ => exact ⟨a, b, rfl⟩
  have hand := (C03_run_sigma_handoff c s [t1, t2]).2 0 (by rw [hlen]; decide)
  simp only [hrecs, List.getElem_cons_zero, List.getElem_cons_succ, Nat.zero_add] at hand
  have hp := (C03_run_pass_is_runStep c s [t1, t2] r0 (by rw [hrecs]; simp)).2.2.2.1
  obtain ⟨rl, g1, g2, -, g4⟩ := run_done_last c [t1, t2] s hd
  rw [hrecs] at g1 g4
  simp at g1 g4
  exact ⟨r0, r1, hrecs, hand, by rw [hand]; exact hp, g4, by rw [g1]; exact g2⟩

/-- the return values of that run are those of its last pass; more tapes than the two needed change nothing -/
example (h1 : t1.length = 3) (h2 : t2.length = 3) (more : List (List (Draw ℝ))) :
    (∃ r, (run (construct (dispatch sample) exRunArgs).1 (construct (dispatch sample) exRunArgs).2 [t1, t2]).recs.getLast? = some r ∧
      (result (construct (dispatch sample) exRunArgs).1
        (run (construct (dispatch sample) exRunArgs).1 (construct (dispatch sample) exRunArgs).2 [t1, t2]).final).acceptance
        = mean (r.outs.map (·.alpha))) ∧
    run (construct (dispatch sample) exRunArgs).1 (construct (dispatch sample) exRunArgs).2 ([t1, t2] ++ more)
      = run (construct (dispatch sample) exRunArgs).1 (construct (dispatch sample) exRunArgs).2 [t1, t2] := by
  obtain ⟨hd, -⟩ := exRun_two_passes sample t1 t2 h1 h2
  obtain ⟨r, g1, -, -, -, g5, -⟩ := C03_run_result _ _ [t1, t2] hd
  exact ⟨⟨r, g1, g5⟩, C03_run_fuel_irrelevant _ more [t1, t2] _ (by rw [hd]; decide)⟩

/-- two walkers of the same cluster are handed the same step size (walkers 0 and 2 of the example are both in cluster 1) -/
example (sg : List ℝ) (s : State ℝ) (t : List (Draw ℝ)) (w0 w2 : Walker ℝ) (si0 si2 : StepIn ℝ) (c : Config ℝ)
    (ha : w0.assign = w2.assign) (h0 : walkerInput (stepInput c sg s t) w0 = some si0)
    (h2 : walkerInput (stepInput c sg s t) w2 = some si2) : si0.sigma = si2.sigma := by
  have a := C03_run_walker_sigma c sg s t w0 si0 h0
  have b := C03_run_walker_sigma c sg s t w2 si2 h2
  rw [ha] at a
  rw [a] at b
  exact Option.some.inj b

end MoreExamples

end Props.C03
