import TempestVerif.Model.Resample
import TempestVerif.Model.ResampleX
import TempestVerif.Gen.ResampleSrc
/-
  C06 — the executable model `Model.Resample` is built from the expressions that are in /repo's `tempest/tools.py`
  (`systematic_resample`) and `tempest/steps/resample.py` (`Resampler.run`) NOW.

  `Gen/ResampleSrc.lean` is regenerated from the source on every run of the check (translator G14): every arithmetic
  expression, comparison, literal and index expression of the two functions compiled to a term over `Sc α` (scalars) / `Nat`
  (indices), plus tables of the side effects (seeding, the single uniform draw, every state write with its path condition),
  the scheme dispatch, the arguments of the two sampling calls and the call sites.  The theorems below say that the model's
  definitions UNFOLD TO those generated terms.  They hold for EVERY scalar type — so also at `Float`, which is what the driver
  executes, at `Rat` (regime Q) and at `ℝ` (the proofs of `Props/C06*.lean`).  Sixteen are closed by `rfl`; the other six
  (`C06_src_lastPos`, `C06_src_lastPositive`, `C06_src_systematicWith`, `C06_src_dispatch`, `C06_src_resamplerRun`,
  `C06_src_resamplerRunX_dispatch`) by a structural case split (on a list, an option, the scheme) followed by `rfl` / rewriting with
  the former — no arithmetic fact about the scalars is used anywhere in this file.

  A change of a literal (`1.0`, `0`, `SQRTEPS`), of a comparison (`>`, `>=`, `<`), of an operator or operand order, of an index
  (`weights[j]` read before/after `j += 1`, `positions[i]`), of the scheme strings or of the routine a scheme calls changes a
  generated term and breaks the theorem named after it; a dropped, duplicated or re-guarded side effect changes a table.
-/
namespace Props.C06.Src
open Model.Resample
variable {α : Type} [Sc α]

/-! ### `systematic_resample` -/

/-- `SQRTEPS`: the module constant of tools.py, evaluated by the translator (`math.sqrt(float(np.finfo(np.float64).eps))` with
    `eps = 2^-52`), is the model's `2^-26` -/
theorem C06_src_sqrtEps : (sqrtEps : α) = Gen.ResampleSrc.sqrtEps := rfl

/-- `if abs(np.sum(weights) - 1.0) > SQRTEPS: weights = np.array(weights) / np.sum(weights)` — test, literal, divisor -/
theorem C06_src_renorm (s : α) (w : List α) : renorm s w = Gen.ResampleSrc.normalise s w := rfl

/-- the same, with the two source terms visible: the test on the sum and the elementwise division -/
theorem C06_src_renorm_terms (s : α) (w : List α) :
    renorm s w = if Gen.ResampleSrc.normTest s then w.map (fun x => Gen.ResampleSrc.normElem x s) else w := rfl

/-- `positions = (np.random.random() + np.arange(size)) / size` -/
theorem C06_src_position (n : Nat) (u0 : α) (i : Nat) : position n u0 i = Gen.ResampleSrc.position n u0 i := rfl

/-- `np.asarray(weights) > 0`: the comparison and its literal, one step of the scan for the last positive weight -/
theorem C06_src_lastPos_cons (x : α) (xs : List α) :
    lastPos? (x :: xs) = match lastPos? xs with
      | some k => some (k + 1)
      | none => if Gen.ResampleSrc.posTest x then some 0 else none := rfl

/-- `np.flatnonzero(np.asarray(weights) > 0)[-1]` (when there is one) is the model's scan -/
theorem C06_src_lastPos (v : List α) : lastPos? v = Gen.ResampleSrc.lastWhere? Gen.ResampleSrc.posTest v := by
  induction v with
  | nil => rfl
  | cons x xs ih =>
    show (match lastPos? xs with
          | some k => some (k + 1)
          | none => if Gen.ResampleSrc.posTest x then some 0 else none) = _
    rw [ih]
    rfl

/-- `j_max = positive[-1] if len(positive) else len(weights) - 1` -/
theorem C06_src_lastPositive (v : List α) : lastPositive v = Gen.ResampleSrc.jMax v := by
  show (lastPos? v).getD (v.length - 1) = _
  rw [C06_src_lastPos]
  unfold Gen.ResampleSrc.jMax
  cases Gen.ResampleSrc.lastWhere? Gen.ResampleSrc.posTest v <;> rfl

/-- the inner loop with no fuel left -/
theorem C06_src_advance_zero (w : List α) (jmax : Nat) (pos : α) (j : Nat) (c : α) :
    advance w jmax pos 0 j c = (j, c) := rfl

/-- one pass of `while j < j_max and positions[i] >= cumulative_sum: j += 1; cumulative_sum += weights[j]`:
    the test (both comparisons and their order), the increment, WHICH weight is added (the one at the incremented index) and
    how it is added -/
theorem C06_src_advance_succ (w : List α) (jmax : Nat) (pos : α) (fuel j : Nat) (c : α) :
    advance w jmax pos (fuel + 1) j c =
      if Gen.ResampleSrc.whileTest j jmax pos c then
        match w[Gen.ResampleSrc.bodyIdx j]? with
        | some x => advance w jmax pos fuel (Gen.ResampleSrc.bodyJ j) (Gen.ResampleSrc.bodyC c x)
        | none => (j, c)
      else (j, c) := rfl

theorem C06_src_run_nil (w : List α) (jmax : Nat) (pos : Nat → α) (j : Nat) (c : α) : run w jmax pos [] j c = [] := rfl

/-- one pass of `for i in range(size)`: the position tested is `positions[i]`, the value stored is the index reached, and the
    state `(j, cumulative_sum)` is carried to the next pass -/
theorem C06_src_run_cons (w : List α) (jmax : Nat) (pos : Nat → α) (i : Nat) (is : List Nat) (j : Nat) (c : α) :
    run w jmax pos (i :: is) j c =
      (let st := advance w jmax (pos (Gen.ResampleSrc.posIdx i)) w.length j c
       Gen.ResampleSrc.storeVal st.1 :: run w jmax pos is st.1 st.2) := rfl

/-- shape of the outer loop: `size` passes, a buffer of `size` entries, pass `i` writes entry `i`, one position per pass, and
    exactly one uniform is drawn -/
theorem C06_src_loop_shape :
    (∀ n, Gen.ResampleSrc.loopCount n = n ∧ Gen.ResampleSrc.outLen n = n ∧ Gen.ResampleSrc.positionsLen n = n) ∧
    (∀ i, Gen.ResampleSrc.storeIdx i = i) ∧ Gen.ResampleSrc.uniformDraws = 1 :=
  ⟨fun _ => ⟨rfl, rfl, rfl⟩, fun _ => rfl, rfl⟩

/-- the whole function: renormalise, `IndexError` on the empty vector (`weights[0]`), else the comb from state
    `(j, cumulative_sum) = (0, weights[0])` capped at the last positive weight -/
theorem C06_src_systematicWith (s : α) (n : Nat) (w : List α) (u0 : α) :
    systematicWith s n w u0 =
      (let v := Gen.ResampleSrc.normalise s w
       match v[Gen.ResampleSrc.c0Idx]? with
       | none => none
       | some c0 => some (run v (Gen.ResampleSrc.jMax v) (Gen.ResampleSrc.position n u0)
                            (List.range (Gen.ResampleSrc.loopCount n)) Gen.ResampleSrc.j0 (Gen.ResampleSrc.c0Of c0))) := by
  show (match renorm s w with
        | [] => none
        | c0 :: _ => some (run (renorm s w) (lastPositive (renorm s w)) (position n u0) (List.range n) 0 c0)) = _
  rw [C06_src_lastPositive, C06_src_renorm]
  cases Gen.ResampleSrc.normalise s w <;> rfl

/-- seeding and the draw, in program order: `np.random.seed(random_state)` only under `random_state is not None`, then ONE
    `np.random.random()` (the model's `u0`: the offset is the first uniform after seeding), the filled buffer is returned -/
def expected_systEffects : List String :=
  ["C0 := random_state is not None",
   "[C0] np.random.seed(random_state)",
   "u0 = np.random.random()",
   "return out"]

theorem C06_src_systEffects : Gen.ResampleSrc.systEffects = expected_systEffects := rfl

/-! ### `Resampler.run` -/

/-- `if beta == 0.0: …; return` with `beta = self.state.get_current("beta")`: the flag `betaIsZero` of the model is this test -/
theorem C06_src_betaSkip (beta : α) :
    Gen.ResampleSrc.betaSkipTest beta = (Sc.le beta Sc.zero && Sc.le Sc.zero beta) := rfl

/-- which routine of /repo a scheme of the model stands for -/
def routine : Scheme → String
  | .mult => "np.random.choice"
  | .syst => "systematic_resample"
  | .other => "unbound"

/-- the scheme dispatch: `self.resample == "mult"` → `np.random.choice`, `== "syst"` → `systematic_resample`, anything else
    leaves the index variable unbound; `Scheme.ofString` is how the driver decodes its `scheme=` argument -/
theorem C06_src_dispatch (r : String) : routine (Scheme.ofString r) = Gen.ResampleSrc.dispatch r := by
  unfold Scheme.ofString Gen.ResampleSrc.dispatch
  by_cases h1 : (r == "mult") = true
  · simp only [h1, if_true]; rfl
  · by_cases h2 : (r == "syst") = true
    · simp only [h1, h2, if_true]; rfl
    · simp only [h1, h2]; rfl

/-- what the model does for a routine of /repo: `np.random.choice(…, p=w)` is `multinomial w us` (`ValueError` on the empty
    vector), `systematic_resample(n, w)` is `systematicNp n w u0` (`IndexError` on the empty vector) -/
def callRoutine (name : String) (n : Nat) (w : List α) (u0 : α) (us : List α) : RunResult :=
  if name == "np.random.choice" then
    match multinomial w us with
    | some idx => .indices idx
    | none => .valueError
  else if name == "systematic_resample" then
    match systematicNp n w u0 with
    | some idx => .indices idx
    | none => .indexError
  else .unbound

/-- `Resampler.run` end to end: skipped exactly when the source's test on `beta` holds, otherwise the routine the source's
    dispatch selects for the scheme string -/
theorem C06_src_resamplerRun (beta : α) (r : String) (n : Nat) (w : List α) (u0 : α) (us : List α) :
    resamplerRun (Gen.ResampleSrc.betaSkipTest beta) (Scheme.ofString r) n w u0 us =
      if Gen.ResampleSrc.betaSkipTest beta then .skipped
      else callRoutine (Gen.ResampleSrc.dispatch r) n w u0 us := by
  rw [← C06_src_dispatch]
  cases Scheme.ofString r <;> rfl

/-- the same for the model with numpy's validation inside (`Model.ResampleX.resamplerRunX`, what suite RR executes) -/
theorem C06_src_resamplerRunX_dispatch (r : String) :
    (Scheme.ofString r = .mult ↔ Gen.ResampleSrc.dispatch r = "np.random.choice") ∧
    (Scheme.ofString r = .syst ↔ Gen.ResampleSrc.dispatch r = "systematic_resample") ∧
    (Scheme.ofString r = .other ↔ Gen.ResampleSrc.dispatch r = "unbound") := by
  rw [← C06_src_dispatch]
  cases Scheme.ofString r <;> simp [routine]

/-- arguments of `np.random.choice`, bound to numpy's parameter names: the population is `0 … len(weights)-1` (indices, the
    model's output), `self.n_particles` draws (the length of the tape `us`), WITH replacement, probabilities = the weights -/
def expected_choiceArgs : List String :=
  ["a=np.arange(len(weights))",
   "size=self.n_particles",
   "replace=True",
   "p=weights"]

theorem C06_src_choiceArgs : Gen.ResampleSrc.choiceArgs = expected_choiceArgs := rfl

/-- arguments of `systematic_resample`, bound to the parameter names of its definition in tools.py: `self.n_particles` indices
    from the weights handed to `run`, no reseeding (`systematicNp nParticles w u0`) -/
def expected_systArgs : List String :=
  ["size=self.n_particles",
   "weights=weights",
   "random_state=None"]

theorem C06_src_systArgs : Gen.ResampleSrc.systArgs = expected_systArgs := rfl

/-- every state write of `Resampler.run` with its path condition (`C0` = the skip test), every local name substituted by what
    it holds: under `beta == 0` ONLY the labels are reset (nothing is resampled: `RunResult.skipped`); otherwise `u`, `x`, `logl`
    are gathered from the flat history with the SAME index vector `idx` (the one the dispatch above produced), the labels are
    predicted from the gathered `u`, and the blobs are gathered with `idx` when `have_blobs` -/
def expected_runEffects : List String :=
  ["C0 := self.state.get_current('beta') == 0.0",
   "C1 := self.have_blobs",
   "[C0] current['assignments'] := np.zeros(self.n_particles, dtype=int)",
   "[!C0] current['u'] := self.state.get_history('u', flat=True)[idx]",
   "[!C0] current['x'] := self.state.get_history('x', flat=True)[idx]",
   "[!C0] current['logl'] := self.state.get_history('logl', flat=True)[idx]",
   "[!C0] current['assignments'] := self.clusterer.predict(self.state.get_history('u', flat=True)[idx]) if self.clustering else np.zeros(self.n_particles, dtype=int)",
   "[!C0 C1] current['blobs'] := (self.state.get_history('blobs', flat=True) if self.have_blobs else None)[idx]"]

theorem C06_src_runEffects : Gen.ResampleSrc.runEffects = expected_runEffects := rfl

/-- every call of `systematic_resample` in the package (W = the expression passed as the weights): `compute_posterior` asks for
    as many indices as there are weights (`posteriorResample w u0 = systematicNp w.length w u0`), `Resampler.run` for
    `n_particles`; neither reseeds -/
def expected_callSites : List String :=
  ["tempest/core.py: size=len(W) weights=W random_state=None",
   "tempest/steps/resample.py: size=self.n_particles weights=W random_state=None"]

theorem C06_src_callSites : Gen.ResampleSrc.callSites = expected_callSites := rfl

/-! ### the generated terms compute (non-vacuity): the comb of the docstring example, from generated terms only -/

example : Gen.ResampleSrc.jMax ([3, 0, 2, 0, 0] : List Rat) = 2 := by decide
example : Gen.ResampleSrc.jMax ([0, 0, 0] : List Rat) = 2 := by decide
example : Gen.ResampleSrc.whileTest 0 2 (1/2 : Rat) (1/4) = true ∧ Gen.ResampleSrc.whileTest 2 2 (1/2 : Rat) (1/4) = false ∧
    Gen.ResampleSrc.whileTest 0 2 (1/8 : Rat) (1/4) = false := by decide +kernel
example : Gen.ResampleSrc.normTest (2 : Rat) = true ∧ Gen.ResampleSrc.normTest (1 : Rat) = false := by decide +kernel
example : Gen.ResampleSrc.dispatch "mult" = "np.random.choice" ∧ Gen.ResampleSrc.dispatch "syst" = "systematic_resample" ∧
    Gen.ResampleSrc.dispatch "other" = "unbound" := by decide

end Props.C06.Src
