import TempestVerif.Model.CadenceX
import TempestVerif.Props.C14
import Mathlib.Tactic
/-
  C14, second pass — "… every clustering cadence … and after resuming from a checkpoint", on the extended run model
  `Model.CadenceX`: complete iterations, fresh objects restored from any checkpoint, `load_state` / `run(resume_state_path)` /
  a second `run()` on a USED Sampler (the paths opened by /repo aeb0399), and iterations that raise half-way (finding F24: the
  constructor refusing a degenerate cluster after `clusterer.fit`; the user's likelihood) followed by another `run()`.
  Every fit carries a generation number and every predict records the generation it was served by.

    `C14X_cadence`            for every step list: no predict meets an unfitted object, and — read on the trace alone — every
                              predict is served by the LATEST fit of the clusterer object that exists at that moment
    `C14X_same_generation`    in every complete annealing iteration of every reachable state the training labels and the
                              assignments of the active particles come from ONE fit `g`: the one just made, or the one the
                              object already held — `[fit g,] predict g, predict g`
    `C14X_fitted_at_mutation` when mutation runs the clusterer object is fitted
    `C14X_refines`            restricted to the steps of `Model.Cadence` the extended model IS `Model.Cadence` (with the
                              `_clusterer_fitted` disjunct): the first-pass theorems and C08's bridge talk about the same runs
    `C14X_crash_rerun`, `C14X_load_keeps_fit`   the new paths, concretely
-/
namespace Props.C14
open Model.CadenceX
open Model.Cadence (Verdict)

theorem scanX_append (t : List Ev) (e : Ev) : scan (t ++ [e]) = scanStep (scan t) e := by
  simp [scan, List.foldl_append]

/-- nothing went wrong; the Trainer's flag implies a fitted object; the trace, read on its own, is coherent and ends in the
    state the model carries (current generation, number of fits) -/
def InvX (s : St) : Prop :=
  s.verdict = .ok ∧ (s.flag = true → s.gen.isSome = true) ∧ scan s.trace = some (s.gen, s.nfits)

theorem invX_init (iter0 : Nat) : InvX (init iter0) := by
  simp [InvX, init, scan, scanStep]

theorem invX_emitFit (s : St) (h : InvX s) (f : Bool) :
    InvX { emitFit s with flag := f } ∧ ({ emitFit s with flag := f } : St).gen = some (s.nfits + 1) := by
  obtain ⟨h1, _, h3⟩ := h
  refine ⟨⟨h1, fun _ => rfl, ?_⟩, rfl⟩
  show scan (s.trace ++ [.fit (s.nfits + 1)]) = some (some (s.nfits + 1), s.nfits + 1)
  rw [scanX_append, h3]
  simp [scanStep]

theorem invX_emitPredict (s : St) (h : InvX s) (g : Nat) (hg : s.gen = some g) :
    InvX (emitPredict s) ∧ emitPredict s = { s with trace := s.trace ++ [.predict (some g)] } := by
  obtain ⟨h1, h2, h3⟩ := h
  have he : emitPredict s = { s with trace := s.trace ++ [.predict (some g)] } := by simp [emitPredict, hg]
  refine ⟨?_, he⟩
  rw [he]
  refine ⟨h1, h2, ?_⟩
  show scan (s.trace ++ [.predict (some g)]) = some (s.gen, s.nfits)
  rw [scanX_append, h3, hg]
  simp [scanStep]

theorem bump_inv (s : St) (h : InvX s) : InvX (bump s) := h

/-- `Trainer.run` keeps the invariant; after an annealing call with clustering the object is fitted; what it appended -/
theorem invX_trainer (c : Cfg) (warm : Bool) (s : St) (h : InvX s) :
    InvX (trainer c warm s) ∧ (trainer c warm s).iter = s.iter ∧
    (warm = false → c.clustering = true → ∃ g, (trainer c warm s).gen = some g ∧
      ((trainer c warm s).trace = s.trace ++ [.fit g, .predict (some g)] ∧ g = s.nfits + 1 ∨
       (trainer c warm s).trace = s.trace ++ [.predict (some g)] ∧ s.gen = some g)) := by
  unfold trainer
  split
  · rename_i hw; exact ⟨h, rfl, fun h' => by simp [hw] at h'⟩
  · split
    · -- fit branch
      obtain ⟨hi, hg⟩ := invX_emitFit s h true
      obtain ⟨r1, r2⟩ := invX_emitPredict _ hi _ hg
      refine ⟨r1, by rw [r2]; rfl, fun _ _ => ⟨s.nfits + 1, by rw [r2]; exact hg, Or.inl ⟨?_, rfl⟩⟩⟩
      rw [r2]
      simp [emitFit]
    · rename_i hfit
      split
      · -- reuse branch: off the cadence and the flag is set, so the object holds a fit
        rename_i hre
        have hflag : s.flag = true := by
          simp only [Bool.and_eq_true, Bool.or_eq_true, Bool.not_eq_true', not_and, not_or] at hfit
          simp only [Bool.and_eq_true] at hre
          have := (hfit hre.1).2
          simpa using this
        have hsome := h.2.1 hflag
        obtain ⟨g, hg⟩ := Option.isSome_iff_exists.1 hsome
        obtain ⟨r1, r2⟩ := invX_emitPredict s h g hg
        refine ⟨r1, by rw [r2], fun _ _ => ⟨g, by rw [r2]; exact hg, Or.inr ⟨by rw [r2], hg⟩⟩⟩
      · -- global branch: only with clustering off
        rename_i hre
        refine ⟨h, rfl, fun _ hcl => ?_⟩
        exfalso
        simp only [hcl, Bool.true_and, Bool.not_eq_true] at hfit hre
        simp only [Bool.or_eq_false_iff] at hfit
        simp [hfit.1] at hre

theorem invX_resampler (c : Cfg) (warm : Bool) (s : St) (h : InvX s)
    (hf : warm = false → c.clustering = true → s.gen.isSome = true) : InvX (resampler c warm s) := by
  unfold resampler
  split
  · exact h
  · split
    · exact h
    · rename_i hw
      split
      · rename_i hcl
        obtain ⟨g, hg⟩ := Option.isSome_iff_exists.1 (hf (by simpa using hw) hcl)
        exact (invX_emitPredict s h g hg).1
      · exact h

theorem invX_step (c : Cfg) (s : St) (h : InvX s) (st : StepX) : InvX (step c s st) := by
  have hv : (s.verdict != Verdict.ok) = false := by simp [h.1]
  cases st with
  | iter warm =>
    have e : step c s (.iter warm) = resampler c warm (trainer c warm (bump s)) := by simp [step, hv]
    rw [e]
    obtain ⟨t1, _, t2⟩ := invX_trainer c warm _ (bump_inv s h)
    exact invX_resampler c warm _ t1 (fun a b => by obtain ⟨g, hg, _⟩ := t2 a b; simp [hg])
  | fresh it =>
    have e : step c s (.fresh it) =
        { s with iter := it.getD s.iter, flag := false, gen := none, trace := s.trace ++ [.fresh] } := by simp [step, hv]
    rw [e]
    obtain ⟨h1, _, h3⟩ := h
    refine ⟨h1, ?_, ?_⟩
    · intro hh; simp at hh
    · show scan (s.trace ++ [.fresh]) = some (none, s.nfits)
      rw [scanX_append, h3]; rfl
  | load it =>
    have e : step c s (.load it) = { s with iter := it } := by simp [step, hv]
    rw [e]; exact h
  | crashEarly =>
    have e : step c s .crashEarly = bump s := by simp [step, hv]
    rw [e]; exact h
  | crashTrained =>
    have e : step c s .crashTrained = trainer c false (bump s) := by simp [step, hv]
    rw [e]; exact (invX_trainer c false _ (bump_inv s h)).1
  | crashLate =>
    have e : step c s .crashLate = resampler c false (trainer c false (bump s)) := by simp [step, hv]
    rw [e]
    obtain ⟨t1, _, t2⟩ := invX_trainer c false _ (bump_inv s h)
    exact invX_resampler c false _ t1 (fun a b => by obtain ⟨g, hg, _⟩ := t2 a b; simp [hg])

theorem invX_run (c : Cfg) (steps : List StepX) (s : St) (h : InvX s) : InvX (steps.foldl (step c) s) := by
  induction steps generalizing s with
  | nil => exact h
  | cons st sts ih => exact ih _ (invX_step c s h st)

/-- **C14 (cadence and resume, every history).**  For every `cluster_every`, clustering on or off, every restored `iter`, and
    every run made of complete iterations (arbitrary β = 0 / β > 0), fresh Samplers restored from any checkpoint, `load_state` /
    `run(resume_state_path)` / repeated `run()` on a used Sampler, and iterations that raised early, inside `Trainer.run` after
    the fit, or in `Mutator.run` — in any order and number: no `predict` reaches an unfitted clusterer object, and on the
    trace alone every predict is served by the latest fit of the object that exists at that moment. -/
theorem C14X_cadence (c : Cfg) (iter0 : Nat) (steps : List StepX) :
    (run c iter0 steps).verdict = .ok ∧ coherentTrace (run c iter0 steps).trace = true := by
  have h := invX_run c steps _ (invX_init iter0)
  refine ⟨h.1, ?_⟩
  unfold coherentTrace
  rw [show run c iter0 steps = steps.foldl (step c) (init iter0) from rfl, h.2.2]
  rfl

/-- **one fit per mutation**: a complete annealing iteration (clustering on) from a state satisfying the invariant appends
    `[fit g,] predict g, predict g` — the training labels (`Trainer.run`) and the assignments of the active particles
    (`Resampler.run`) are predictions of the SAME fit `g`, which is the fit just made (`g = nfits + 1`) or the fit the object
    already held; no refit and no other object in between. -/
theorem C14X_same_generation (c : Cfg) (hcl : c.clustering = true) (s : St) (h : InvX s) :
    ∃ (fitGen : Option Nat) (g : Nat),
      (step c s (.iter false)).trace = s.trace ++ annealEvents fitGen g ∧
      (fitGen = some g ∧ g = s.nfits + 1 ∨ fitGen = none ∧ s.gen = some g) ∧
      (step c s (.iter false)).gen = some g ∧ (step c s (.iter false)).verdict = .ok := by
  have hv : (s.verdict != Verdict.ok) = false := by simp [h.1]
  obtain ⟨t1, _, t2⟩ := invX_trainer c false _ (bump_inv s h)
  obtain ⟨g, hg, hcase⟩ := t2 rfl hcl
  have hv' : ((trainer c false (bump s)).verdict != Verdict.ok) = false := by simp [t1.1]
  have hstep : step c s (.iter false) = emitPredict (trainer c false (bump s)) := by
    unfold step
    simp only [hv, Bool.false_eq_true, if_false]
    unfold resampler
    rw [hv']
    simp [hcl]
  obtain ⟨r1, r2⟩ := invX_emitPredict _ t1 g hg
  rw [hstep, r2]
  rcases hcase with ⟨ht, hgn⟩ | ⟨ht, hgs⟩
  · refine ⟨some g, g, ?_, Or.inl ⟨rfl, hgn⟩, hg, t1.1⟩
    show (trainer c false (bump s)).trace ++ [.predict (some g)] = _
    rw [ht]
    simp [annealEvents, bump]
  · refine ⟨none, g, ?_, Or.inr ⟨rfl, hgs⟩, hg, t1.1⟩
    show (trainer c false (bump s)).trace ++ [.predict (some g)] = _
    rw [ht]
    simp [annealEvents, bump]

/-- … for every reachable state -/
theorem C14X_same_generation_run (ce iter0 : Nat) (steps : List StepX) :
    ∃ (fitGen : Option Nat) (g : Nat),
      (run { clusterEvery := ce } iter0 (steps ++ [.iter false])).trace
        = (run { clusterEvery := ce } iter0 steps).trace ++ annealEvents fitGen g ∧
      (fitGen = some g ∨ fitGen = none ∧ (run { clusterEvery := ce } iter0 steps).gen = some g) := by
  have h := invX_run { clusterEvery := ce } steps _ (invX_init iter0)
  obtain ⟨fg, g, h1, h2, _, _⟩ := C14X_same_generation { clusterEvery := ce } rfl _ h
  refine ⟨fg, g, by simpa [run, List.foldl_append] using h1, ?_⟩
  rcases h2 with ⟨a, _⟩ | ⟨a, b⟩
  · exact Or.inl a
  · exact Or.inr ⟨a, b⟩

/-- when mutation runs (a complete annealing iteration, clustering on) the clusterer object holds a fit -/
theorem C14X_fitted_at_mutation (ce iter0 : Nat) (steps : List StepX) :
    ((run { clusterEvery := ce } iter0 (steps ++ [.iter false])).gen).isSome = true := by
  have h := invX_run { clusterEvery := ce } steps _ (invX_init iter0)
  obtain ⟨_, g, _, _, hg, _⟩ := C14X_same_generation { clusterEvery := ce } rfl _ h
  have : run { clusterEvery := ce } iter0 (steps ++ [.iter false])
      = step { clusterEvery := ce } (steps.foldl (step { clusterEvery := ce }) (init iter0)) (.iter false) := by
    simp [run, List.foldl_append]
  rw [this, hg]; rfl

/-! ### the extended model restricted to the old steps IS `Model.Cadence` -/

/-- simulation between the two models -/
def Sim (x : St) (s : Model.Cadence.St) : Prop :=
  x.iter = s.iter ∧ x.flag = s.flag ∧ x.gen.isSome = s.clFitted ∧ x.trace.map eraseEv = s.trace ∧ x.verdict = s.verdict

theorem sim_emitFit (x : St) (s : Model.Cadence.St) (h : Sim x s) (f : Bool) :
    Sim { emitFit x with flag := f } { Model.Cadence.emitFit s with flag := f } := by
  obtain ⟨h1, _, _, h4, h5⟩ := h
  exact ⟨h1, rfl, rfl, by simp [emitFit, Model.Cadence.emitFit, h4, eraseEv], h5⟩

theorem sim_emitPredict (x : St) (s : Model.Cadence.St) (h : Sim x s) :
    Sim (emitPredict x) (Model.Cadence.emitPredict s) := by
  obtain ⟨h1, h2, h3, h4, h5⟩ := h
  unfold emitPredict Model.Cadence.emitPredict
  cases hg : x.gen with
  | none =>
    have : s.clFitted = false := by rw [← h3, hg]; rfl
    simp only [this, Bool.false_eq_true, if_false]
    exact ⟨h1, h2, by simp, by simp [h4, eraseEv], rfl⟩
  | some g =>
    have : s.clFitted = true := by rw [← h3, hg]; rfl
    simp only [this, if_true]
    exact ⟨h1, h2, by simp, by simp [h4, eraseEv], h5⟩

theorem sim_step (ce : Nat) (clustering : Bool) (x : St) (s : Model.Cadence.St) (h : Sim x s) (st : Model.Cadence.Step) :
    Sim (step { clusterEvery := ce, clustering := clustering } x (embed st))
      (Model.Cadence.step { clusterEvery := ce, clustering := clustering, useFlag := true } s st) := by
  obtain ⟨h1, h2, h3, h4, h5⟩ := h
  cases st with
  | resume =>
    simp only [embed, step, Model.Cadence.step, h5]
    split
    · exact ⟨h1, h2, h3, h4, h5⟩
    · exact ⟨by simpa using h1, rfl, rfl, by simp [h4, eraseEv], rfl⟩
  | iter warm =>
    simp only [embed, step, Model.Cadence.step, h5]
    split
    · exact ⟨h1, h2, h3, h4, h5⟩
    · -- trainer
      have hb : Sim (bump x) { s with iter := s.iter + 1 } := ⟨by simp [bump, h1], h2, h3, h4, h5⟩
      have ht : Sim (trainer { clusterEvery := ce, clustering := clustering } warm (bump x))
          (Model.Cadence.trainer { clusterEvery := ce, clustering := clustering, useFlag := true } warm
            { s with iter := s.iter + 1 }) := by
        unfold trainer Model.Cadence.trainer
        cases warm with
        | true => simpa using hb
        | false =>
          simp only [Bool.false_eq_true, if_false]
          have hon : onCadence { clusterEvery := ce, clustering := clustering } (bump x)
              = Model.Cadence.onCadence { clusterEvery := ce, clustering := clustering, useFlag := true }
                  { s with iter := s.iter + 1 } := by
            simp [onCadence, Model.Cadence.onCadence, bump, h1]
          have hfl : (bump x).flag = s.flag := h2
          simp only [Model.Cadence.fitCond, Bool.true_and, hon, hfl]
          split
          · have := sim_emitFit (bump x) _ hb true
            have := sim_emitPredict _ _ this
            simpa using this
          · split
            · exact sim_emitPredict _ _ hb
            · exact hb
      -- resampler
      have t5 := ht.2.2.2.2
      unfold resampler Model.Cadence.resampler
      rw [t5]
      split
      · exact ht
      · split
        · exact ht
        · split
          · exact sim_emitPredict _ _ ht
          · exact ht

/-- **the extended model restricted to complete iterations and fresh-object resumes is `Model.Cadence`** (as it is since
    e0e98d6): same events, verdict, `iter`, flag, fitted status — so `Props.C14.C14_cadence`, `C14_same_fit_generation_run` and
    `Props.C08.C08_components_irrelevant` speak about the runs of this model as well -/
theorem C14X_refines (ce : Nat) (clustering : Bool) (iter0 : Nat) (steps : List Model.Cadence.Step) :
    Sim (run { clusterEvery := ce, clustering := clustering } iter0 (steps.map embed))
      (Model.Cadence.run { clusterEvery := ce, clustering := clustering, useFlag := true } iter0 steps) := by
  have h0 : Sim (init iter0) (Model.Cadence.init iter0) := ⟨rfl, rfl, rfl, rfl, rfl⟩
  unfold run Model.Cadence.run
  generalize init iter0 = x at h0 ⊢
  generalize Model.Cadence.init iter0 = s at h0 ⊢
  induction steps generalizing x s with
  | nil => exact h0
  | cons st sts ih => exact ih _ _ (sim_step ce clustering x s h0 st)

/-! ### the new paths, concretely (non-vacuity) -/

/-- F24 then a second `run()`: the iteration that raised inside `Trainer.run` had fitted the clusterer (generation 1) and set the
    flag; `cluster_every = 3`, the retry at `iter = 3` is on the cadence and refits (generation 2); the next one reuses it -/
theorem C14X_crash_rerun :
    (run { clusterEvery := 3 } 0 [.iter true, .crashTrained, .iter false, .iter false]).trace
      = [.fresh, .fit 1, .predict (some 1), .fit 2, .predict (some 2), .predict (some 2), .predict (some 2), .predict (some 2)] ∧
    (run { clusterEvery := 3 } 0 [.iter true, .crashTrained, .iter false, .iter false]).verdict = .ok := by decide

/-- `load_state` into a USED Sampler (`cluster_every = 5`): the object keeps fit 1 made at `iter = 2`; after the load (`iter = 7`)
    the iterations 8, 9 reuse it and iteration 10 refits — labels and assignments always come from one fit -/
theorem C14X_load_keeps_fit :
    (run { clusterEvery := 5 } 0 [.iter true, .iter false, .load 7, .iter false, .iter false, .iter false]).trace
      = [.fresh, .fit 1, .predict (some 1), .predict (some 1), .predict (some 1), .predict (some 1),
         .predict (some 1), .predict (some 1), .fit 2, .predict (some 2), .predict (some 2)] := by decide

/-- a fresh Sampler restored from that checkpoint instead refits at once (fresh Trainer: flag unset) -/
example : (run { clusterEvery := 5 } 0 [.iter true, .iter false, .fresh (some 7), .iter false, .iter false]).trace
    = [.fresh, .fit 1, .predict (some 1), .predict (some 1), .fresh, .fit 2, .predict (some 2), .predict (some 2),
       .predict (some 2), .predict (some 2)] := by decide

/-- the trace reading rejects a predict served by a fit of a PREVIOUS object, and a predict on an unfitted object -/
example : coherentTrace [.fresh, .fit 1, .predict (some 1), .fresh, .predict (some 1)] = false ∧
    coherentTrace [.fresh, .predict none] = false ∧
    coherentTrace [.fresh, .fit 1, .predict (some 1), .fit 2, .predict (some 1)] = false ∧
    coherentTrace [.fresh, .fit 1, .predict (some 1), .fit 2, .predict (some 2)] = true := by decide

/-- without the `not self._clusterer_fitted` disjunct (before e0e98d6) the manual resume path fails: `Model.Cadence` with
    `useFlag := false`, `cluster_every = 2`, a fresh Sampler restored at `iter = 2` -/
example : (Model.Cadence.run { clusterEvery := 2, useFlag := false } 0
    (Model.Cadence.withResume [true, false, false, false] (some 2))).verdict = .predictBeforeFit := by decide

end Props.C14
