import TempestVerif.Props.C19
import TempestVerif.Model.StudentNu
/-
  C19, clause audit — the ν-update of `fit_mvstud` inside the model.

  `Props/C19.lean` proves well-posedness and equivariance for an UNINTERPRETED `optNu` under the hypothesis
  `hopt : optNu δ = .val ν → 0 < ν` ("given the bisect bracket") and for an uninterpreted median `med` under `hmed`/`hmedbox`.
  Here both are discharged on the executable definitions of `Model/StudentNu.lean` / `Model/Student.lean` at `ℝ`:

  * scipy's `bisect` (model `Model.Student.bisect`, tied to the real routine bit for bit by suite `bisect-F`): for EVERY function
    `f` a returned root lies in the bracket, is an exact zero or has a sign change within `xtol + rtol·|x|`, and with
    `(b − a)/2^iter < xtol` the iteration limit is never the reason to stop (no `RuntimeError`);
  * `opt_nu` (model `optNuWith`/`optNu`, suites `optnu-F`, `func0-T`): answers `inf`, fails (no sign change on `[1e-300, 1e6]`:
    the `ValueError` the loop catches — the explicit fallback) or returns `ν ∈ [1e-300, 1e6]`; it never raises past the loop;
    this holds for every `special.psi` (a parameter) and every data set;
  * `np.median` (model `Model.Student.median`: merge sort, middle element / mean of the two middle ones): lies between the
    minimum and the maximum and commutes with `t ↦ a·t + c` for every real `a` (negative ones reverse the order);
  * hence `C19_fit_wellposed_modelled`, `C19_equivariant_modelled`: the theorems of `Props/C19.lean` with NO hypothesis on
    `opt_nu` or the median.
-/
namespace Props.C19
open Model.Student

/-! ### the scalar predicates at `ℝ` -/

@[simp] theorem isNaN_real (x : ℝ) : isNaN x = false := by simp [isNaN]
@[simp] theorem isZero_real (x : ℝ) : isZero x = true ↔ x = 0 := by
  unfold isZero
  rw [Bool.and_eq_true, ScReal.le_def, ScReal.le_def, ScReal.zero_def]
  exact ⟨fun h => le_antisymm h.1 h.2, fun h => ⟨h.le, h.ge⟩⟩
@[simp] theorem signbit_real (x : ℝ) : signbit x = true ↔ x < 0 := by simp [signbit]

theorem half_lit : (Sc.lit 5 1 : ℝ) = 1 / 2 := by simp; norm_num


theorem signbit_beq_real (x y : ℝ) : (signbit x == signbit y) = true ↔ (x < 0 ↔ y < 0) := by
  have e : ∀ z : ℝ, signbit z = decide (z < 0) := fun z => by
    unfold signbit; rw [Bool.eq_iff_iff]; simp
  rw [e, e, beq_iff_eq, decide_eq_decide]

/-- one turn of the `for` loop of `bisect.c`, in real arithmetic -/
theorem bisectLoop_succ (f : ℝ → ℝ) (xtol rtol fa : ℝ) (k : ℕ) (xa dm : ℝ) (ev : List ℝ) :
    bisectLoop f xtol rtol fa (k+1) xa dm ev =
      if f (xa + dm / 2) = 0 ∨ |dm / 2| < xtol + rtol * |xa + dm / 2| then
        ⟨.root (xa + dm / 2), ((xa + dm / 2) :: ev).reverse⟩
      else bisectLoop f xtol rtol fa k (if (f (xa + dm / 2) < 0 ↔ fa < 0) then xa + dm / 2 else xa) (dm / 2)
        ((xa + dm / 2) :: ev) := by
  have h2 : dm * (Sc.lit 5 1 : ℝ) = dm / 2 := by rw [half_lit]; ring
  simp only [bisectLoop, isNaN_real, ScReal.mul_def, ScReal.add_def, h2, ScReal.abs_def]
  simp only [Bool.false_eq_true, if_false, Bool.or_eq_true, isZero_real, ScReal.lt_def, signbit_beq_real]

/-! ### scipy's `bisect`: for every function `f` -/

/-- a returned root lies between the current left end and the current right end -/
theorem bisectLoop_root_mem (f : ℝ → ℝ) (xtol rtol fa : ℝ) (k : ℕ) (xa dm : ℝ) (ev : List ℝ) (hdm : 0 ≤ dm) (x : ℝ)
    (h : (bisectLoop f xtol rtol fa k xa dm ev).res = .root x) : xa ≤ x ∧ x ≤ xa + dm := by
  induction k generalizing xa dm ev with
  | zero => simp [bisectLoop] at h
  | succ k ih =>
    rw [bisectLoop_succ] at h
    split_ifs at h with hc hs
    · simp only [BisRes.root.injEq] at h; subst h; constructor <;> linarith
    · have := ih _ (dm / 2) _ (by linarith) h
      constructor <;> linarith [this.1, this.2]
    · have := ih _ (dm / 2) _ (by linarith) h
      constructor <;> linarith [this.1, this.2]

/-- once `dm / 2^k < xtol` the tolerance test stops the loop within `k` turns: the iteration limit is not reached -/
theorem bisectLoop_no_convErr (f : ℝ → ℝ) (xtol rtol fa : ℝ) (hr : 0 ≤ rtol) (k : ℕ) (hk : 1 ≤ k) (xa dm : ℝ)
    (ev : List ℝ) (hdm : 0 ≤ dm) (hs : dm / 2 ^ k < xtol) :
    (bisectLoop f xtol rtol fa k xa dm ev).res ≠ .convErr := by
  induction k, hk using Nat.le_induction generalizing xa dm ev with
  | base =>
    rw [bisectLoop_succ]
    have : |dm / 2| < xtol + rtol * |xa + dm / 2| := by
      rw [abs_of_nonneg (by linarith)]
      have := mul_nonneg hr (abs_nonneg (xa + dm / 2))
      simp at hs; linarith
    rw [if_pos (Or.inr this)]; simp
  | succ k hk ih =>
    rw [bisectLoop_succ]
    split_ifs with hc
    · simp
    · exact ih _ (dm / 2) _ (by linarith) (by
        have e : dm / 2 / 2 ^ k = dm / 2 ^ (k + 1) := by rw [pow_succ, div_div, mul_comm]
        rw [e]; exact hs)
    · exact ih _ (dm / 2) _ (by linarith) (by
        have e : dm / 2 / 2 ^ k = dm / 2 ^ (k + 1) := by rw [pow_succ, div_div, mul_comm]
        rw [e]; exact hs)

theorem mul_neg_of_opposite {a b : ℝ} (ha : a ≠ 0) (hb : b ≠ 0) (h : a < 0 ↔ ¬ b < 0) : a * b < 0 := by
  rcases lt_or_gt_of_ne ha with h1 | h1
  · have : 0 < b := lt_of_le_of_ne (not_lt.mp (h.mp h1)) (Ne.symm hb)
    exact mul_neg_of_neg_of_pos h1 this
  · have : b < 0 := by
      by_contra hc
      exact absurd (h.mpr hc) (not_lt.mpr h1.le)
    exact mul_neg_of_pos_of_neg h1 this

/-- the invariant of bisection: `f` keeps the sign of `f(a)` at the left end and the opposite sign at the right end; so a
    returned root is an exact zero or has a point of opposite sign within the tolerance that stopped the loop -/
theorem bisectLoop_root_spec (f : ℝ → ℝ) (xtol rtol fa : ℝ) (k : ℕ) (xa dm : ℝ) (ev : List ℝ)
    (hL : f xa ≠ 0 ∧ (f xa < 0 ↔ fa < 0)) (hR : f (xa + dm) ≠ 0 ∧ (f (xa + dm) < 0 ↔ ¬ fa < 0)) (x : ℝ)
    (h : (bisectLoop f xtol rtol fa k xa dm ev).res = .root x) :
    f x = 0 ∨ ∃ y, |y - x| < xtol + rtol * |x| ∧ f x * f y < 0 := by
  induction k generalizing xa dm ev with
  | zero => simp [bisectLoop] at h
  | succ k ih =>
    rw [bisectLoop_succ] at h
    split_ifs at h with hc hs hs
    · -- stopped at xm
      simp only [BisRes.root.injEq] at h; subst h
      by_cases h0 : f (xa + dm / 2) = 0
      · exact Or.inl h0
      · have htol : |dm / 2| < xtol + rtol * |xa + dm / 2| := hc.resolve_left h0
        right
        by_cases hsg : (f (xa + dm / 2) < 0 ↔ fa < 0)
        · refine ⟨xa + dm, ?_, ?_⟩
          · have : xa + dm - (xa + dm / 2) = dm / 2 := by ring
            rw [this]; exact htol
          · exact mul_neg_of_opposite h0 hR.1 (by rw [hsg]; exact (not_congr hR.2).trans not_not |>.symm)
        · refine ⟨xa, ?_, ?_⟩
          · have : xa - (xa + dm / 2) = -(dm / 2) := by ring
            rw [this, abs_neg]; exact htol
          · exact mul_neg_of_opposite h0 hL.1 (by rw [hL.2]; tauto)
    · -- continue with xa' = xm
      have h0 : f (xa + dm / 2) ≠ 0 := fun h0 => hc (Or.inl h0)
      refine ih (xa + dm / 2) (dm / 2) _ ⟨h0, hs⟩ ?_ h
      have : xa + dm / 2 + dm / 2 = xa + dm := by ring
      rw [this]; exact hR
    · -- continue with xa' = xa
      have h0 : f (xa + dm / 2) ≠ 0 := fun h0 => hc (Or.inl h0)
      exact ih xa (dm / 2) _ hL ⟨h0, by tauto⟩ h

/-- `scipy.optimize.bisect` in real arithmetic -/
theorem bisect_real (f : ℝ → ℝ) (a b xtol rtol : ℝ) (iter : ℕ) :
    bisect f a b xtol rtol iter =
      if f a = 0 then ⟨.root a, [a, b]⟩
      else if f b = 0 then ⟨.root b, [a, b]⟩
      else if (f a < 0 ↔ f b < 0) then ⟨.signErr, [a, b]⟩
      else bisectLoop f xtol rtol (f a) iter a (b - a) [b, a] := by
  simp only [bisect, isNaN_real, Bool.false_eq_true, if_false, isZero_real, signbit_beq_real, ScReal.sub_def]

/-- **bracket.**  Whatever `f` is, a root returned by `bisect(f, a, b)` (`a ≤ b`) lies in `[a, b]` -/
theorem C19_bisect_root_in_bracket (f : ℝ → ℝ) (a b xtol rtol : ℝ) (iter : ℕ) (hab : a ≤ b) (x : ℝ)
    (h : (bisect f a b xtol rtol iter).res = .root x) : a ≤ x ∧ x ≤ b := by
  rw [bisect_real] at h
  split_ifs at h
  · simp only [BisRes.root.injEq] at h; subst h; exact ⟨le_rfl, hab⟩
  · simp only [BisRes.root.injEq] at h; subst h; exact ⟨hab, le_rfl⟩
  · have := bisectLoop_root_mem f xtol rtol (f a) iter a (b - a) _ (by linarith) x h
    exact ⟨this.1, by linarith [this.2]⟩

/-- **no `RuntimeError`.**  If `(b − a)/2^iter < xtol` the iteration limit is never hit (`iter ≥ 1`, `rtol ≥ 0`) -/
theorem C19_bisect_never_convErr (f : ℝ → ℝ) (a b xtol rtol : ℝ) (iter : ℕ) (hab : a ≤ b) (hr : 0 ≤ rtol)
    (hi : 1 ≤ iter) (hs : (b - a) / 2 ^ iter < xtol) : (bisect f a b xtol rtol iter).res ≠ .convErr := by
  rw [bisect_real]
  split_ifs
  · simp
  · simp
  · simp
  · exact bisectLoop_no_convErr f xtol rtol (f a) hr iter hi a (b - a) _ (by linarith) hs

/-- **the root solves the equation to tolerance.**  A returned root is an exact zero of `f` or there is a point within
    `xtol + rtol·|x|` of it where `f` has the opposite (non-zero) sign -/
theorem C19_bisect_root_spec (f : ℝ → ℝ) (a b xtol rtol : ℝ) (iter : ℕ) (x : ℝ)
    (h : (bisect f a b xtol rtol iter).res = .root x) :
    f x = 0 ∨ ∃ y, |y - x| < xtol + rtol * |x| ∧ f x * f y < 0 := by
  rw [bisect_real] at h
  split_ifs at h with ha hb hs
  · simp only [BisRes.root.injEq] at h; subst h; exact Or.inl ha
  · simp only [BisRes.root.injEq] at h; subst h; exact Or.inl hb
  · refine bisectLoop_root_spec f xtol rtol (f a) iter a (b - a) _ ⟨ha, Iff.rfl⟩ ?_ x h
    have : a + (b - a) = b := by ring
    rw [this]
    exact ⟨hb, by tauto⟩

/-- `bisect` raises `ValueError` (in real arithmetic: only for a missing sign change) exactly when `f(a)`, `f(b)` are
    non-zero of the same sign -/
theorem C19_bisect_signErr_iff (f : ℝ → ℝ) (a b xtol rtol : ℝ) (iter : ℕ) :
    (bisect f a b xtol rtol iter).res = .signErr ↔ (f a ≠ 0 ∧ f b ≠ 0 ∧ (f a < 0 ↔ f b < 0)) := by
  constructor
  · intro h
    rw [bisect_real] at h
    split_ifs at h with ha hb hsg
    · exact ⟨ha, hb, hsg⟩
    · exfalso
      -- the loop never answers signErr
      have key : ∀ (k : ℕ) (xa dm : ℝ) (ev : List ℝ), (bisectLoop f xtol rtol (f a) k xa dm ev).res ≠ .signErr := by
        intro k
        induction k with
        | zero => intro xa dm ev; simp [bisectLoop]
        | succ k ih =>
          intro xa dm ev
          rw [bisectLoop_succ]
          split_ifs
          · simp
          · exact ih _ _ _
          · exact ih _ _ _
      exact key _ _ _ _ h
  · rintro ⟨ha, hb, hsg⟩
    rw [bisect_real, if_neg ha, if_neg hb, if_pos hsg]

/-! ### `opt_nu`: bracket `[1e-300, 1e6]`, scipy's default tolerances, 100 iterations -/

theorem nuLo_real : (nuLo : ℝ) = 1 / 10 ^ 300 := by simp [nuLo]
theorem nuMax_real : (nuMax : ℝ) = 1000000 := by simp [nuMax]
theorem nuLo_pos : (0 : ℝ) < nuLo := by rw [nuLo_real]; positivity
theorem nuLo_le_nuMax : (nuLo : ℝ) ≤ nuMax := by
  rw [nuLo_real, nuMax_real]
  have : (1 : ℝ) / 10 ^ 300 ≤ 1 := by
    rw [div_le_one (by positivity)]; exact one_le_pow₀ (by norm_num)
  linarith
theorem bisRtol_nonneg : (0 : ℝ) ≤ bisRtol := by simp [bisRtol]; positivity

/-- `(1e6 − 1e-300)/2^100 < 2e-12`: the bracket of `opt_nu` is exhausted long before scipy's iteration limit -/
theorem nu_bracket_exhausted : ((nuMax : ℝ) - nuLo) / 2 ^ bisIter < bisXtol := by
  have h1 : ((nuMax : ℝ) - nuLo) ≤ 1000000 := by rw [nuMax_real]; linarith [nuLo_pos]
  have h2 : (1000000 : ℝ) / 2 ^ bisIter < bisXtol := by simp [bisIter, bisXtol]; norm_num
  exact lt_of_le_of_lt (div_le_div_of_nonneg_right h1 (by positivity)) h2

/-- `opt_nu` in real arithmetic -/
theorem optNuWith_real (f : ℝ → ℝ) :
    (optNuWith f).1 =
      if 0 ≤ f nuMax then .inf
      else match (bisect f nuLo nuMax bisXtol bisRtol bisIter).res with
        | .root x => .val x
        | .signErr => .fail
        | .nanErr _ => .fail
        | .convErr => .raise := by
  unfold optNuWith
  by_cases h : 0 ≤ f nuMax
  · simp [h]
  · simp [h]
    cases (bisect f nuLo nuMax bisXtol bisRtol bisIter).res <;> rfl

/-- **`ν ∈ (0, ∞]`, without assuming anything about scipy.**  Whatever the score function (any `psi`, any data), a value
    returned by `opt_nu` lies in the bracket `[1e-300, 1e6]` — in particular it is positive and finite -/
theorem C19_optNu_range (f : ℝ → ℝ) (x : ℝ) (h : (optNuWith f).1 = .val x) : nuLo ≤ x ∧ x ≤ nuMax ∧ 0 < x := by
  rw [optNuWith_real] at h
  split_ifs at h
  cases hb : (bisect f nuLo nuMax bisXtol bisRtol bisIter).res with
  | root y =>
    simp only [hb, NuOut.val.injEq] at h; subst h
    have := C19_bisect_root_in_bracket f _ _ _ _ _ nuLo_le_nuMax y hb
    exact ⟨this.1, this.2, lt_of_lt_of_le nuLo_pos this.1⟩
  | signErr => simp [hb] at h
  | nanErr _ => simp [hb] at h
  | convErr => simp [hb] at h

/-- **no exception escapes.**  `opt_nu` never raises past the `except` clause of the loop: `bisect`'s `RuntimeError`
    (no convergence within 100 iterations) cannot occur on `[1e-300, 1e6]` with `xtol = 2e-12` -/
theorem C19_optNu_never_raises (f : ℝ → ℝ) : (optNuWith f).1 ≠ .raise := by
  rw [optNuWith_real]
  split_ifs
  · simp
  · have := C19_bisect_never_convErr f nuLo nuMax bisXtol bisRtol bisIter nuLo_le_nuMax bisRtol_nonneg (by simp [bisIter])
      nu_bracket_exhausted
    cases hb : (bisect f nuLo nuMax bisXtol bisRtol bisIter).res with
    | root y => simp
    | signErr => simp
    | nanErr _ => simp
    | convErr => exact absurd hb this

theorem C19_optNu_inf_iff (f : ℝ → ℝ) : (optNuWith f).1 = .inf ↔ 0 ≤ f nuMax := by
  rw [optNuWith_real]
  constructor
  · intro h
    by_contra hc
    rw [if_neg hc] at h
    cases hb : (bisect f nuLo nuMax bisXtol bisRtol bisIter).res <;> simp [hb] at h
  · intro h; rw [if_pos h]

/-- **the explicit fallback.**  `opt_nu` fails (scipy's `ValueError`, caught by the loop, which then returns its last valid
    estimate) exactly when the score function is negative at BOTH ends of the bracket — there is no sign change to bisect.
    Nothing in the code (and nothing proved here) excludes this for non-degenerate data: suite `optnu-F` reaches it with
    a sample in which one point carries more than `2/d` of the mass. -/
theorem C19_optNu_fail_iff (f : ℝ → ℝ) : (optNuWith f).1 = .fail ↔ (f nuMax < 0 ∧ f nuLo < 0) := by
  rw [optNuWith_real]
  constructor
  · intro h
    by_cases hc : 0 ≤ f nuMax
    · rw [if_pos hc] at h; cases h
    · rw [if_neg hc] at h
      cases hb : (bisect f nuLo nuMax bisXtol bisRtol bisIter).res with
      | root y => simp [hb] at h
      | convErr => simp [hb] at h
      | nanErr y =>
        exfalso
        rw [bisect_real] at hb
        have key : ∀ (k : ℕ) (xa dm : ℝ) (ev : List ℝ),
            (bisectLoop f bisXtol bisRtol (f nuLo) k xa dm ev).res ≠ .nanErr y := by
          intro k
          induction k with
          | zero => intro xa dm ev; simp [bisectLoop]
          | succ k ih =>
            intro xa dm ev
            rw [bisectLoop_succ]
            split_ifs
            · simp
            · exact ih _ _ _
            · exact ih _ _ _
        split_ifs at hb
        exact key _ _ _ _ hb
      | signErr =>
        have := (C19_bisect_signErr_iff f nuLo nuMax bisXtol bisRtol bisIter).mp hb
        exact ⟨not_le.mp hc, this.2.2.mpr (not_le.mp hc)⟩
  · rintro ⟨h1, h2⟩
    rw [if_neg (not_le.mpr h1)]
    have : (bisect f nuLo nuMax bisXtol bisRtol bisIter).res = .signErr :=
      (C19_bisect_signErr_iff f nuLo nuMax bisXtol bisRtol bisIter).mpr ⟨h2.ne, h1.ne, by tauto⟩
    simp [this]

/-- a finite `ν` returned by `opt_nu` solves the score equation to scipy's tolerance: exact zero of `func0`, or a sign
    change within `2e-12 + 4ε·ν` of it -/
theorem C19_optNu_val_spec (f : ℝ → ℝ) (x : ℝ) (h : (optNuWith f).1 = .val x) :
    f x = 0 ∨ ∃ y, |y - x| < bisXtol + bisRtol * |x| ∧ f x * f y < 0 := by
  rw [optNuWith_real] at h
  split_ifs at h
  cases hb : (bisect f nuLo nuMax bisXtol bisRtol bisIter).res with
  | root y =>
    simp only [hb, NuOut.val.injEq] at h; subst h
    exact C19_bisect_root_spec f _ _ _ _ _ y hb
  | signErr => simp [hb] at h
  | nanErr _ => simp [hb] at h
  | convErr => simp [hb] at h

/-! ### non-vacuity of the `opt_nu` theorems: each of the three outcomes occurs -/

example : ∃ x : ℝ, (optNuWith (fun t : ℝ => 1 - t)).1 = .val x ∧ 0 < x := by
  have h1 : ¬ (0 : ℝ) ≤ (fun t : ℝ => 1 - t) nuMax := by rw [nuMax_real]; norm_num
  have h2 : ¬ ((fun t : ℝ => 1 - t) nuLo < 0) := by
    have := nuLo_le_nuMax; have h3 : (nuLo : ℝ) ≤ 1 := by
      rw [nuLo_real, div_le_one (by positivity)]; exact one_le_pow₀ (by norm_num)
    simp only [not_lt]; linarith
  cases h : (optNuWith (fun t : ℝ => 1 - t)).1 with
  | val x => exact ⟨x, rfl, (C19_optNu_range _ x h).2.2⟩
  | inf => exact absurd ((C19_optNu_inf_iff _).mp h) h1
  | fail => exact absurd ((C19_optNu_fail_iff _).mp h).2 h2
  | raise => exact absurd h (C19_optNu_never_raises _)

example : (optNuWith (fun _ : ℝ => (-1 : ℝ))).1 = .fail := (C19_optNu_fail_iff _).mpr ⟨by norm_num, by norm_num⟩
example : (optNuWith (fun _ : ℝ => (0 : ℝ))).1 = .inf := (C19_optNu_inf_iff _).mpr le_rfl

/-! ### `np.median` (the model's `median`: merge sort + middle element / mean of the two middle ones) -/

/-- the comparison the model sorts with, at `ℝ` -/
noncomputable def leB : ℝ → ℝ → Bool := fun a b => Sc.le a b

theorem leB_iff (a b : ℝ) : leB a b = true ↔ a ≤ b := by simp [leB]

/-- the part of `median` after the sort -/
noncomputable def medOfSorted (s : List ℝ) : Option ℝ :=
  if s.length == 0 then none
  else if s.length % 2 == 1 then s[s.length / 2]?
  else do
    let a ← s[s.length / 2 - 1]?
    let b ← s[s.length / 2]?
    some ((a + b) / 2)

theorem median_eq (l : List ℝ) : median l = medOfSorted (l.mergeSort leB) := by
  unfold median medOfSorted leB
  simp only [ScReal.div_def, ScReal.add_def, ScReal.two_def]

theorem sorted_mergeSort (l : List ℝ) : (l.mergeSort leB).Pairwise (fun a b => leB a b = true) :=
  List.pairwise_mergeSort (fun a b c h1 h2 => by rw [leB_iff] at *; linarith)
    (fun a b => by
      rcases le_total a b with h | h
      · simp [(leB_iff a b).mpr h]
      · simp [(leB_iff b a).mpr h]) l

theorem sort_unique (l₁ l₂ : List ℝ) (h1 : l₁.Pairwise (fun a b => leB a b = true))
    (h2 : l₂.Pairwise (fun a b => leB a b = true)) (hp : l₁.Perm l₂) : l₁ = l₂ :=
  List.Perm.eq_of_pairwise (le := fun a b => leB a b = true)
    (fun a b _ _ hab hba => le_antisymm ((leB_iff a b).mp hab) ((leB_iff b a).mp hba)) h1 h2 hp

/-- sorting commutes with a monotone map -/
theorem sort_map_mono (g : ℝ → ℝ) (hg : ∀ a b, a ≤ b → g a ≤ g b) (l : List ℝ) :
    (l.map g).mergeSort leB = (l.mergeSort leB).map g := by
  apply sort_unique _ _ (sorted_mergeSort _)
  · exact (sorted_mergeSort l).map g fun a b hab => (leB_iff _ _).mpr (hg a b ((leB_iff a b).mp hab))
  · exact (List.mergeSort_perm _ _).trans ((List.mergeSort_perm l leB).map g).symm

/-- … and an antitone map reverses the sorted list -/
theorem sort_map_anti (g : ℝ → ℝ) (hg : ∀ a b, a ≤ b → g b ≤ g a) (l : List ℝ) :
    (l.map g).mergeSort leB = ((l.mergeSort leB).map g).reverse := by
  apply sort_unique _ _ (sorted_mergeSort _)
  · rw [List.pairwise_reverse]
    exact (sorted_mergeSort l).map g fun a b hab => (leB_iff _ _).mpr (hg a b ((leB_iff a b).mp hab))
  · exact (List.mergeSort_perm _ _).trans
      (((List.mergeSort_perm l leB).map g).symm.trans (List.reverse_perm _).symm)

theorem medOfSorted_map_affine (a c : ℝ) (s : List ℝ) :
    medOfSorted (s.map fun t => a * t + c) = (medOfSorted s).map fun t => a * t + c := by
  unfold medOfSorted
  simp only [List.length_map, List.getElem?_map]
  split_ifs
  · rfl
  · cases s[s.length / 2]? <;> rfl
  · cases s[s.length / 2 - 1]? <;> cases s[s.length / 2]? <;> simp
    ring

theorem medOfSorted_reverse (s : List ℝ) : medOfSorted s.reverse = medOfSorted s := by
  unfold medOfSorted
  simp only [List.length_reverse]
  by_cases h0 : s.length = 0
  · simp [h0]
  · have hpos : 0 < s.length := Nat.pos_of_ne_zero h0
    by_cases hodd : s.length % 2 = 1
    · simp only [beq_iff_eq, h0, if_false, hodd, if_true]
      rw [List.getElem?_reverse (by omega)]
      congr 1; omega
    · simp only [beq_iff_eq, h0, if_false, hodd]
      have e1 : s.length - 1 - (s.length / 2 - 1) = s.length / 2 := by omega
      have e2 : s.length - 1 - s.length / 2 = s.length / 2 - 1 := by omega
      rw [List.getElem?_reverse (by omega), List.getElem?_reverse (by omega), e1, e2]
      cases s[s.length / 2 - 1]? <;> cases s[s.length / 2]? <;> simp
      ring

/-- **`np.median` is affine-equivariant for every real factor** (a negative factor reverses the order statistics and the
    middle one / the mean of the two middle ones is the same) -/
theorem median_map_affine (a c : ℝ) (l : List ℝ) :
    median (l.map fun t => a * t + c) = (median l).map fun t => a * t + c := by
  rw [median_eq, median_eq]
  rcases le_total 0 a with ha | ha
  · rw [sort_map_mono _ (fun x y hxy => by nlinarith) l, medOfSorted_map_affine]
  · rw [sort_map_anti _ (fun x y hxy => by nlinarith) l, medOfSorted_reverse, medOfSorted_map_affine]

theorem medOfSorted_isSome (s : List ℝ) (h : s ≠ []) : (medOfSorted s).isSome = true := by
  unfold medOfSorted
  have hpos : 0 < s.length := List.length_pos_iff.mpr h
  have h0 : ¬ s.length = 0 := by omega
  simp only [beq_iff_eq, h0, if_false]
  split_ifs
  · rw [List.getElem?_eq_getElem (by omega)]; rfl
  · rw [List.getElem?_eq_getElem (by omega), List.getElem?_eq_getElem (by omega)]; rfl

/-- the median is one of the data or the mean of two of them -/
theorem medOfSorted_mem (s : List ℝ) (m : ℝ) (h : medOfSorted s = some m) :
    ∃ u ∈ s, ∃ v ∈ s, u ≤ m ∧ m ≤ v := by
  unfold medOfSorted at h
  split_ifs at h with h0 h1
  · have := List.mem_of_getElem? h
    exact ⟨m, this, m, this, le_rfl, le_rfl⟩
  · cases hu : s[s.length / 2 - 1]? with
    | none => simp [hu] at h
    | some u =>
      cases hv : s[s.length / 2]? with
      | none => simp [hu, hv] at h
      | some v =>
        simp [hu, hv] at h
        have mu := List.mem_of_getElem? hu
        have mv := List.mem_of_getElem? hv
        rcases le_total u v with huv | huv
        · exact ⟨u, mu, v, mv, by linarith, by linarith⟩
        · exact ⟨v, mv, u, mu, by linarith, by linarith⟩

/-- `np.median` of one coordinate of the data, as a total function (`0` is returned only for `n = 0`, where `np.median`
    answers NaN; every use below has `n ≥ 2` and goes through `median_ofFn`) -/
noncomputable def medR {n : ℕ} (f : Fin n → ℝ) : ℝ :=
  match median (List.ofFn f) with
  | some m => m
  | none => 0

theorem median_ofFn {n : ℕ} (f : Fin n → ℝ) (hn : 0 < n) : median (List.ofFn f) = some (medR f) := by
  unfold medR
  have : (median (List.ofFn f)).isSome = true := by
    rw [median_eq]
    apply medOfSorted_isSome
    intro h
    have := congrArg List.length h
    simp at this
    omega
  cases hm : median (List.ofFn f) with
  | none => simp [hm] at this
  | some m => rfl

theorem medR_affine {n : ℕ} (hn : 0 < n) (f : Fin n → ℝ) (a c : ℝ) :
    medR (fun i => a * f i + c) = a * medR f + c := by
  have h1 := median_ofFn (fun i => a * f i + c) hn
  have h2 := median_ofFn f hn
  have : List.ofFn (fun i => a * f i + c) = (List.ofFn f).map fun t => a * t + c := by
    rw [List.map_ofFn]; rfl
  rw [this, median_map_affine, h2] at h1
  simpa using h1.symm

theorem medR_box {n : ℕ} (hn : 0 < n) (f : Fin n → ℝ) : ∃ i j, f i ≤ medR f ∧ medR f ≤ f j := by
  have h := median_ofFn f hn
  rw [median_eq] at h
  obtain ⟨u, hu, v, hv, h1, h2⟩ := medOfSorted_mem _ _ h
  have hu' : u ∈ List.ofFn f := (List.mergeSort_perm _ _).subset hu
  have hv' : v ∈ List.ofFn f := (List.mergeSort_perm _ _).subset hv
  rw [List.mem_ofFn] at hu' hv'
  obtain ⟨i, rfl⟩ := hu'
  obtain ⟨j, rfl⟩ := hv'
  exact ⟨i, j, h1, h2⟩

/-! ### the theorems of `Props/C19.lean` with `opt_nu` and the median INSIDE the model -/

variable {d n : ℕ}

/-- the model's `opt_nu` (`special.psi` a parameter) in the form the matrix-level loop takes it; the outcome `raise`
    never occurs (`C19_optNu_never_raises`), it is mapped to `fail` only to make the function total -/
noncomputable def optNuR (psi : ℝ → ℝ) (d n : ℕ) (δ : Fin n → ℝ) : NuAns :=
  match optNu psi d n (List.ofFn δ) with
  | .val x => .val x
  | .inf => .inf
  | .fail => .fail
  | .raise => .fail

theorem optNuR_val (psi : ℝ → ℝ) (δ : Fin n → ℝ) (ν : ℝ) (h : optNuR psi d n δ = .val ν) :
    optNu psi d n (List.ofFn δ) = .val ν := by
  unfold optNuR at h
  cases h2 : optNu psi d n (List.ofFn δ) <;> simp [h2] at h
  subst h; rfl

/-- the hypothesis `hopt` of `Props/C19.lean`, proved for the modelled `opt_nu`: a returned `ν` is in `[1e-300, 1e6]` -/
theorem C19_hopt_discharged (psi : ℝ → ℝ) (δ : Fin n → ℝ) (ν : ℝ) (h : optNuR psi d n δ = .val ν) :
    0 < ν ∧ ν ≤ 1000000 := by
  have := C19_optNu_range (func0 psi d n (List.ofFn δ)) ν (optNuR_val psi δ ν h)
  exact ⟨this.2.2, by rw [← nuMax_real]; exact this.2.1⟩

/-- **well-posedness with nothing assumed about `opt_nu` or the median**: for every data set with `n ≥ 2`, every
    `special.psi`, every tolerance and iteration limit, whichever exit the loop takes — the conclusions of
    `C19_fit_wellposed`, with the model's `opt_nu` (scipy's bisect on `[1e-300, 1e6]`) and the model's median -/
theorem C19_fit_wellposed_modelled (psi : ℝ → ℝ) (tol : ℝ) (maxIter : ℕ) (x : Fin n → Fin d → ℝ) (hn : 2 ≤ n) :
    (∀ s ∈ (fitTrace (optNuR psi d n) medR tol maxIter x).1, InBox x s.mu ∧ s.sigma.IsSymm ∧ s.sigma.PosSemidef) ∧
    (fit (optNuR psi d n) medR tol maxIter x).1 ∈ (fitTrace (optNuR psi d n) medR tol maxIter x).1 ∧
    ((fit (optNuR psi d n) medR tol maxIter x).1.sigma.PosDef ∨
      (¬ IsUnit (initSigma x).det ∧ fit (optNuR psi d n) medR tol maxIter x = (init medR x, some 20))) ∧
    (∀ ν, (fit (optNuR psi d n) medR tol maxIter x).2 = some ν → 0 < ν) ∧
    (NonDegenerate x → ∀ s ∈ (fitTrace (optNuR psi d n) medR tol maxIter x).1, s.sigma.PosDef) :=
  C19_fit_wellposed (optNuR psi d n) medR tol maxIter x (fun δ ν h => (C19_hopt_discharged psi δ ν h).1)
    (fun f => medR_box (by omega) f) hn

/-- the returned degrees of freedom are `∞` (`none`), the start value 20, or a value of the bracket: never above `1e6` -/
theorem C19_nu_upper (optNu : (Fin n → ℝ) → NuAns) (tol : ℝ) (x : Fin n → Fin d → ℝ) (B : ℝ)
    (hopt : ∀ δ ν, optNu δ = .val ν → ν ≤ B) (k : ℕ) (s : St d) (ν lastν : ℝ) (hν : ν ≤ B) :
    ∀ ν', (loop optNu tol x k s ν lastν).2 = some ν' → ν' ≤ B := by
  induction k generalizing s ν lastν with
  | zero => intro ν' h; simp [loop] at h; exact h ▸ hν
  | succ k ih =>
    intro ν' h
    unfold loop at h
    split_ifs at h with hc hu
    · cases h3 : optNu (delta x s.mu s.sigma) with
      | fail => simp [h3] at h; exact h ▸ hν
      | inf => simp [h3] at h
      | val ν1 =>
        simp only [h3] at h
        split_ifs at h with hp
        · exact ih (update x s ν1) ν1 ν (hopt _ _ h3) ν' h
        · simp at h; exact h ▸ hν
    · simp at h; exact h ▸ hν
    · simp at h; exact h ▸ hν

theorem C19_fit_nu_range_modelled (psi : ℝ → ℝ) (tol : ℝ) (maxIter : ℕ) (x : Fin n → Fin d → ℝ) :
    ∀ ν, (fit (optNuR psi d n) medR tol maxIter x).2 = some ν → 0 < ν ∧ ν ≤ 1000000 := by
  intro ν h
  refine ⟨C19_nu_range (optNuR psi d n) tol x (fun δ ν h => (C19_hopt_discharged psi δ ν h).1) maxIter _ 20 0
      (by norm_num) ν h, ?_⟩
  exact C19_nu_upper (optNuR psi d n) tol x 1000000 (fun δ ν h => (C19_hopt_discharged psi δ ν h).2) maxIter _ 20 0
    (by norm_num) ν h

/-- **equivariance with nothing assumed about `opt_nu` or the median**: permutation of coordinates × non-zero
    per-coordinate scalings × translation, every data set with `n ≥ 2`, every `special.psi` -/
theorem C19_equivariant_modelled (psi : ℝ → ℝ) (tol : ℝ) (maxIter : ℕ) (x : Fin n → Fin d → ℝ) (hn : 2 ≤ n)
    (σ : Equiv.Perm (Fin d)) (s b : Fin d → ℝ) (hs : ∀ a, s a ≠ 0) :
    fitTrace (optNuR psi d n) medR tol maxIter (aff (mono σ s) b x) =
        ((fitTrace (optNuR psi d n) medR tol maxIter x).1.map (St.map (mono σ s) b),
          (fitTrace (optNuR psi d n) medR tol maxIter x).2) ∧
    fit (optNuR psi d n) medR tol maxIter (aff (mono σ s) b x) =
        ((fit (optNuR psi d n) medR tol maxIter x).1.map (mono σ s) b, (fit (optNuR psi d n) medR tol maxIter x).2) :=
  C19_equivariant (optNuR psi d n) medR tol maxIter x (fun δ ν h => (C19_hopt_discharged psi δ ν h).1)
    (fun f a c => medR_affine (by omega) f a c) hn σ s b hs

/-- non-vacuity: the two-point data set of `Props/C19.lean`, any `psi` -/
example (psi : ℝ → ℝ) (tol : ℝ) (k : ℕ) :
    InBox exX (fit (optNuR psi 1 2) medR tol k exX).1.mu ∧
    (∀ s ∈ (fitTrace (optNuR psi 1 2) medR tol k exX).1, s.sigma.PosDef) :=
  let h := C19_fit_wellposed_modelled psi tol k exX le_rfl
  ⟨(h.1 _ h.2.1).1, h.2.2.2.2 exX_nonDegenerate⟩

/-! ### commit 3acbd02 — "return the last valid estimate" — and what degenerate data do

The loop is a total function: `solve` raising (`¬ IsUnit Σ.det`), `opt_nu` raising `ValueError` and `cholesky(new_Σ)` raising are
exits, not exceptions.  What is returned on each of them is a CONSISTENT triple: -/

open Matrix in
/-- **the returned `ν` belongs to the returned `(μ, Σ)`**: either no update was accepted (the state the loop was entered with
    is returned, with the `ν` it was entered with or `∞`), or the returned state is `update x s' ν'` for the state `s'`
    before it and the returned `ν` is that same `ν'` (or `∞`).  In particular after a rejected `new_Σ` the previous `ν` comes
    back with the previous `(μ, Σ)` (`nu = last_nu; break`) — never the rejected candidate's `ν`. -/
theorem C19_last_valid_estimate (optNu : (Fin n → ℝ) → NuAns) (tol : ℝ) (x : Fin n → Fin d → ℝ) (k : ℕ) (s : St d)
    (ν lastν : ℝ) :
    ((loop optNu tol x k s ν lastν).1 = [s] ∧
        ((loop optNu tol x k s ν lastν).2 = some ν ∨ (loop optNu tol x k s ν lastν).2 = none)) ∨
    (∃ (T : List (St d)) (s' : St d) (ν' : ℝ), (loop optNu tol x k s ν lastν).1 = T ++ [s', update x s' ν'] ∧
        ((loop optNu tol x k s ν lastν).2 = some ν' ∨ (loop optNu tol x k s ν lastν).2 = none)) := by
  induction k generalizing s ν lastν with
  | zero => left; simp [loop]
  | succ k ih =>
    unfold loop
    split_ifs with hc hu
    · cases h3 : optNu (delta x s.mu s.sigma) with
      | fail => left; simp
      | inf => left; simp
      | val ν1 =>
        simp only
        split_ifs with hp
        · right
          rcases ih (update x s ν1) ν1 ν with ⟨h1, h2⟩ | ⟨T, s', ν', h1, h2⟩
          · exact ⟨[], s, ν1, by simp [h1], h2⟩
          · exact ⟨s :: T, s', ν', by simp [h1], h2⟩
        · left; simp
    · left; simp
    · left; simp

open Matrix in
/-- data inside a hyperplane `{v·x = c}`, current location in that hyperplane: the candidate `new_Σ` is singular in the
    direction `v`, so it is NOT positive definite whatever `ν` is — in exact arithmetic the Cholesky test rejects it -/
theorem C19_degenerate_update_not_pd (x : Fin n → Fin d → ℝ) (s : St d) (ν : ℝ) (v : Fin d → ℝ) (c : ℝ) (hv : v ≠ 0)
    (hx : ∀ i, v ⬝ᵥ x i = c) (hμ : v ⬝ᵥ s.mu = c) : ¬ (update x s ν).sigma.PosDef := by
  intro hpd
  have hq := sigmaNext_quadForm x s.mu (wts x s ν) v
  have hz : ∑ i, wts x s ν i * (v ⬝ᵥ (x i - s.mu)) ^ 2 = 0 :=
    Finset.sum_eq_zero fun i _ => by rw [dotProduct_sub, hx i, hμ]; simp
  rw [hz, mul_zero] at hq
  have := hpd.dotProduct_mulVec_pos hv
  simp only [star_trivial] at this
  unfold update at this
  simp only at this
  linarith

open Matrix in
/-- … and an accepted update puts the location INTO the hyperplane (a weighted mean of points of the hyperplane) -/
theorem C19_degenerate_mu_in_plane (x : Fin n → Fin d → ℝ) (s : St d) (ν : ℝ) (v : Fin d → ℝ) (c : ℝ)
    (hx : ∀ i, v ⬝ᵥ x i = c) (hw : ∑ i, wts x s ν i ≠ 0) : v ⬝ᵥ (update x s ν).mu = c := by
  unfold update muNext
  simp only
  rw [dotProduct_smul, dotProduct_sum]
  have : ∀ i, v ⬝ᵥ (wts x s ν i • x i) = wts x s ν i * c := fun i => by rw [dotProduct_smul, hx i]; rfl
  simp only [this, ← Finset.sum_mul, smul_eq_mul]
  field_simp

open Matrix in
/-- **degenerate data: at most one update.**  If the data lie in a hyperplane the loop accepts at most one update (possible
    only when the coordinate-wise median is off the hyperplane) and then leaves through the Cholesky exit: the trace has at
    most two states.  This is what "non-degenerate" has to mean for the positive-definiteness theorems (`NonDegenerate`: not
    inside a hyperplane) — the code itself checks nothing in advance, it relies on these two exits. -/
theorem C19_degenerate_at_most_one_update (optNu : (Fin n → ℝ) → NuAns) (tol : ℝ) (x : Fin n → Fin d → ℝ)
    (hopt : ∀ δ ν, optNu δ = .val ν → 0 < ν) (hn : 0 < n) (v : Fin d → ℝ) (c : ℝ) (hv : v ≠ 0)
    (hx : ∀ i, v ⬝ᵥ x i = c) (k : ℕ) (s : St d) (hS : s.sigma.PosDef) (ν lastν : ℝ) :
    (loop optNu tol x k s ν lastν).1.length ≤ 2 := by
  cases k with
  | zero => simp [loop]
  | succ k =>
    unfold loop
    split_ifs with hc hu
    · cases h3 : optNu (delta x s.mu s.sigma) with
      | fail => simp
      | inf => simp
      | val ν1 =>
        simp only
        split_ifs with hp
        · -- the accepted state has its location in the hyperplane: the next candidate is rejected
          have hμ := C19_degenerate_mu_in_plane x s ν1 v c hx (sum_wts_ne_zero x s hS (hopt _ _ h3) hn)
          have hstop : ∀ (ν2 : ℝ), ¬ (update x (update x s ν1) ν2).sigma.PosDef := fun ν2 =>
            C19_degenerate_update_not_pd x (update x s ν1) ν2 v c hv hx hμ
          cases k with
          | zero => simp [loop]
          | succ k =>
            unfold loop
            split_ifs with hc2 hu2
            · cases h4 : optNu (delta x (update x s ν1).mu (update x s ν1).sigma) with
              | fail => simp
              | inf => simp
              | val ν2 => simp [hstop ν2]
            · simp
            · simp
        · simp
    · simp
    · simp

/-! ### the function-driven loop `loopF` is the tape-driven loop `loop` (the one suite `fit-T` replays) on the tape of its own
`opt_nu` answers — for every scalar type, so also for the `Float` instance the driver runs -/

/-- the tape event of an `opt_nu` outcome that does not escape -/
def toEv {α : Type} : NuOut α → Option (NuEv α)
  | .val x => some (.val x)
  | .inf => some .inf
  | .fail => some .fail
  | .raise => none

theorem C19_loopF_is_loop {α : Type} [Sc α] (optNu : List α → NuOut α) (tol : α) (n : ℕ) (X : Mat α) (k : ℕ)
    (st : State α) (nu last : α) (r : Result α) (h : loopF optNu tol n X k st nu last = some r) :
    ∃ tape : List (NuEv α), Model.Student.loop tol n X k st nu last tape = r ∧ tape.length ≤ k ∧
      ∀ e ∈ tape, ∃ dl, toEv (optNu dl) = some e := by
  induction k generalizing st nu last r with
  | zero =>
    refine ⟨[], ?_, le_rfl, by simp⟩
    simp only [loopF, Option.some.injEq] at h
    simp [Model.Student.loop, h]
  | succ k ih =>
    unfold loopF at h
    by_cases hc : Sc.lt tol (Sc.abs (Sc.sub last nu)) = true
    · rw [if_pos hc] at h
      cases hd : stateDeltas n X st with
      | none =>
        simp only [hd, Option.some.injEq] at h
        exact ⟨[], by unfold Model.Student.loop; rw [if_pos hc]; simp [hd, h], by simp, by simp⟩
      | some dl =>
        simp only [hd] at h
        cases ho : optNu dl with
        | raise => simp [ho] at h
        | fail =>
          simp only [ho, Option.some.injEq] at h
          exact ⟨[.fail], by unfold Model.Student.loop; rw [if_pos hc]; simp [hd, h], by simp,
            by intro e he; simp at he; subst he; exact ⟨dl, by rw [ho]; rfl⟩⟩
        | inf =>
          simp only [ho, Option.some.injEq] at h
          exact ⟨[.inf], by unfold Model.Student.loop; rw [if_pos hc]; simp [hd, h], by simp,
            by intro e he; simp at he; subst he; exact ⟨dl, by rw [ho]; rfl⟩⟩
        | val nu' =>
          simp only [ho] at h
          cases hi : inv (Model.Student.update n X (diffs X st.mu) (weights X.length nu' dl)).sigma with
          | none =>
            simp only [hi, Option.some.injEq] at h
            exact ⟨[.val nu'], by unfold Model.Student.loop; rw [if_pos hc]; simp [hd, hi, h], by simp,
              by intro e he; simp at he; subst he; exact ⟨dl, by rw [ho]; rfl⟩⟩
          | some Si =>
            simp only [hi] at h
            cases hr : loopF optNu tol n X k (Model.Student.update n X (diffs X st.mu) (weights X.length nu' dl)) nu' nu with
            | none => simp [hr] at h
            | some r' =>
              simp only [hr, Option.map_some, Option.some.injEq] at h
              obtain ⟨tape, ht, hl, hev⟩ := ih _ _ _ _ hr
              refine ⟨.val nu' :: tape, ?_, by simp; omega, ?_⟩
              · unfold Model.Student.loop; rw [if_pos hc]; simp [hd, hi, ht, h]
              · intro e he
                simp only [List.mem_cons] at he
                rcases he with rfl | he
                · exact ⟨dl, by rw [ho]; rfl⟩
                · exact hev e he
    · rw [if_neg hc] at h
      simp only [Option.some.injEq] at h
      exact ⟨[], by unfold Model.Student.loop; rw [if_neg hc]; exact h, by simp, by simp⟩

end Props.C19
