import TempestVerif.Props.C06X
import TempestVerif.Props.C01
import TempestVerif.Lemmas.PipelineShift
/-
  C06, second pass (3): the property over WHOLE RUNS of the pipeline model (`Model.Pipeline`: reweight → resample →
  accept/reject → commit, tied to real runs by C01's trace-replay suite).

    C06_pipeline_iterate     one iteration, every scalar type: the recorded indices are valid pool indices; systematic: `n_particles`
                             of them, non-decreasing (or none: warm-up); multinomial: one per uniform on the tape
    runIters_steps           every output of a run was produced by `iterate` from a state whose history is a prefix of the final one
    C06_pipeline_run         … hence the same for every iteration of every run (induction over the run)
    C06_pipeline_count_law   ℝ: in an annealing iteration with the systematic scheme the copies of pool particle `j` are
                             `⌊n·w_j/Σw⌋` or `⌈n·w_j/Σw⌉`, `w` = the pool weights `exp(logw − max)` at the iteration's own β —
                             the literal floor/ceil clause, no side condition on a sum; zero-weight particles are not selected
    C06_pipeline_run_count_law   the same at every annealing iteration of every run
-/
namespace Props.C06
open Model.Pipeline Model.Resample Model.Records Model.Reweight

theorem gather?_range {β : Type} (xs : List β) (idx : List Nat) (ys : List β) (h : gather? xs idx = some ys) :
    ∀ r ∈ idx, r < xs.length := by
  induction idx generalizing ys with
  | nil => simp
  | cons i is ih =>
    simp only [gather?] at h
    cases hx : xs[i]? with
    | none => simp [hx] at h
    | some x =>
      cases hg : gather? xs is with
      | none => simp [hx, hg] at h
      | some r =>
        intro q hq
        rcases List.mem_cons.mp hq with rfl | hq
        · by_contra hlt
          rw [List.getElem?_eq_none (by omega)] at hx; cases hx
        · exact ih r hg q hq

/-- **one iteration of the pipeline model, every scalar type**: the index vector it records consists of valid pool indices;
    with the systematic scheme it is empty (warm-up) or has `n_particles` non-decreasing entries; with the multinomial scheme it
    has one entry per uniform on the tape. -/
theorem C06_pipeline_iterate {α : Type} [ScT α] (cfg : PCfg α) (s : PState α) (t : Tape α) (s1 : PState α) (o : IterOut α)
    (h : iterate cfg s t = some (s1, o)) :
    (∀ r ∈ o.idx, r < (poolTags s.hist).length) ∧
    (cfg.syst = true → o.idx = [] ∨ (o.idx.length = cfg.rw.nPart ∧ o.idx.Pairwise (· ≤ ·))) ∧
    (cfg.syst = false → o.idx = [] ∨ o.idx.length = t.resU.length) := by
  simp only [iterate] at h
  generalize Model.Reweight.run cfg.rw (batches s.hist).isEmpty (oracleM (batches s.hist))
    (oracleZ (batches s.hist)) isFin s.beta = r at h
  by_cases hb : eqv r.beta Sc.zero = true
  · simp only [hb, if_true, Option.map_eq_some_iff, Prod.mk.injEq] at h
    obtain ⟨l, _, _, rfl⟩ := h
    exact ⟨by simp, fun _ => Or.inl rfl, fun _ => Or.inl rfl⟩
  · simp only [hb, Bool.false_eq_true, if_false, Option.bind_eq_some_iff, Option.map_eq_some_iff,
      Prod.mk.injEq] at h
    obtain ⟨idx, hidx, tg, htg, l, _, _, rfl⟩ := h
    refine ⟨gather?_range _ _ _ htg, ?_, ?_⟩
    · intro hs
      right
      simp only [hs, if_true] at hidx
      cases hu : t.resU with
      | nil => simp [hu] at hidx
      | cons u0 rest =>
        cases rest with
        | cons _ _ => simp [hu] at hidx
        | nil =>
          simp only [hu] at hidx
          exact ⟨C06_syst_length _ _ _ _ _ hidx, C06_syst_monotone _ _ _ _ _ hidx⟩
    · intro hs
      right
      simp only [hs, Bool.false_eq_true, if_false] at hidx
      exact C06_mult_length _ _ _ hidx

/-- every output of a run was produced by one `iterate` from a state whose history is a prefix of the final history -/
theorem runIters_steps {α : Type} [ScT α] (cfg : PCfg α) (ts : List (Tape α)) :
    ∀ (s sf : PState α) (os : List (IterOut α)), runIters cfg s ts = some (sf, os) →
      ∀ o ∈ os, ∃ (sk s' : PState α) (t : Tape α), t ∈ ts ∧ iterate cfg sk t = some (s', o) ∧
        (∃ e1 e2, sk.hist = s.hist ++ e1 ∧ sf.hist = sk.hist ++ e2) := by
  induction ts with
  | nil =>
    intro s sf os h
    simp only [runIters, Option.some.injEq, Prod.mk.injEq] at h
    obtain ⟨_, rfl⟩ := h
    simp
  | cons t ts ih =>
    intro s sf os h
    simp only [runIters, Option.bind_eq_some_iff, Option.map_eq_some_iff] at h
    obtain ⟨⟨s1, o1⟩, hi, ⟨sf', os'⟩, hr, he⟩ := h
    simp only [Prod.mk.injEq] at he
    obtain ⟨rfl, rfl⟩ := he
    obtain ⟨hh, _, _⟩ := Lemmas.PipelineShift.iterate_commit cfg s t s1 o1 hi
    obtain ⟨ext, hext, _, _⟩ := Lemmas.PipelineShift.runIters_hist cfg ts s1 sf' os' hr
    intro o ho
    rcases List.mem_cons.mp ho with rfl | ho
    · exact ⟨s, s1, t, by simp, hi, [], _ :: ext, by simp, by rw [hext, hh, List.append_assoc]; rfl⟩
    · obtain ⟨sk, s', t', ht', hit, e1, e2, h1, h2⟩ := ih s1 sf' os' hr o ho
      exact ⟨sk, s', t', by simp [ht'], hit, _ :: e1, e2, by rw [h1, hh, List.append_assoc]; rfl, h2⟩

theorem poolTags_append {α : Type} (a b : List (PBatch α)) : poolTags (a ++ b) = poolTags a ++ poolTags b := by
  simp [poolTags]

/-- **every iteration of every run, every scalar type**: the recorded indices point into the pool as it was before that
    iteration (a prefix of the final pool); systematic: `n_particles` non-decreasing indices or none (warm-up) -/
theorem C06_pipeline_run {α : Type} [ScT α] (cfg : PCfg α) (ts : List (Tape α)) (s sf : PState α) (os : List (IterOut α))
    (h : runIters cfg s ts = some (sf, os)) :
    ∀ o ∈ os, (∃ pre post, sf.hist = pre ++ post ∧ ∀ r ∈ o.idx, r < (poolTags pre).length) ∧
      (∀ r ∈ o.idx, r < (poolTags sf.hist).length) ∧
      (cfg.syst = true → o.idx = [] ∨ (o.idx.length = cfg.rw.nPart ∧ o.idx.Pairwise (· ≤ ·))) := by
  intro o ho
  obtain ⟨sk, s', t, _, hit, e1, e2, _, h2⟩ := runIters_steps cfg ts s sf os h o ho
  obtain ⟨hr, hs, _⟩ := C06_pipeline_iterate cfg sk t s' o hit
  refine ⟨⟨sk.hist, e2, h2, hr⟩, ?_, hs⟩
  intro r hr'
  have := hr r hr'
  rw [h2, poolTags_append, List.length_append]
  omega

/-! ### the count law inside the pipeline (ℝ) -/

/-- the unnormalised pool weights `exp(logw − max logw)` are positive -/
theorem oracleM_pos (h : List (Model.Weights.Batch ℝ)) (β : ℝ) : ∀ x ∈ (oracleM h β).1, 0 < x := by
  intro x hx
  simp only [oracleM] at hx
  split at hx
  · simp at hx
  · simp only [List.mem_map] at hx
    obtain ⟨v, _, rfl⟩ := hx
    exact Real.exp_pos _

/-- **annealing iteration, systematic scheme**: copies of pool particle `j` are `⌊n·w_j/Σw⌋` or `⌈n·w_j/Σw⌉`, where `w` are the
    pool weights at the temperature the iteration reports; the offset is any value in `[0,1)`. -/
theorem C06_pipeline_count_law (cfg : PCfg ℝ) (s : PState ℝ) (t : Tape ℝ) (s1 : PState ℝ) (o : IterOut ℝ)
    (hne : s.hist ≠ []) (h : iterate cfg s t = some (s1, o)) (hb : o.beta ≠ 0) (hsy : cfg.syst = true)
    (hn : 1 ≤ cfg.rw.nPart) (hu : ∀ u ∈ t.resU, 0 ≤ u ∧ u < 1) :
    ∀ (j : ℕ) (hj : j < (oracleM (batches s.hist) o.beta).1.length),
      (o.idx.count j : ℤ) = ⌊cfg.rw.nPart * ((oracleM (batches s.hist) o.beta).1[j] / (oracleM (batches s.hist) o.beta).1.sum)⌋ ∨
      (o.idx.count j : ℤ) = ⌈cfg.rw.nPart * ((oracleM (batches s.hist) o.beta).1[j] / (oracleM (batches s.hist) o.beta).1.sum)⌉ := by
  obtain ⟨_, _, hres⟩ := Props.C01.C01_pipeline_same_temperature cfg s t s1 o hne h
  obtain ⟨hres, _⟩ := hres hb
  set w := (oracleM (batches s.hist) o.beta).1 with hw
  intro j hj
  have hpos : ∀ x ∈ w, 0 < x := oracleM_pos _ _
  have hw0 : ∀ x ∈ w, 0 ≤ x := fun x hx => (hpos x hx).le
  have hne' : w ≠ [] := by rintro e; rw [e] at hj; simp at hj
  have hs : 0 < w.sum := by
    cases hw' : w with
    | nil => exact absurd hw' hne'
    | cons a l =>
      have ha : 0 < a := hpos a (by rw [hw']; simp)
      have hl : 0 ≤ l.sum := List.sum_nonneg (fun x hx => hw0 x (by rw [hw']; simp [hx]))
      simp; linarith
  simp only [Props.C01.resampled, hsy, if_true] at hres
  cases hres_u : t.resU with
  | nil => simp [hres_u] at hres
  | cons u0 rest =>
    cases rest with
    | cons _ _ => simp [hres_u] at hres
    | nil =>
      simp only [hres_u] at hres
      have hu0 := hu u0 (by rw [hres_u]; simp)
      rw [Props.C20.normalise_def] at hres
      set v := w.map (fun x => x / w.sum) with hv
      have hv1 : v.sum = 1 := by rw [hv, sum_map_div, div_self hs.ne']
      have hv0 : ∀ x ∈ v, 0 ≤ x := by
        intro x hx
        obtain ⟨y, hy, rfl⟩ := List.mem_map.mp hx
        exact div_nonneg (hw0 y hy) hs.le
      have hj' : j < v.length := by simpa [hv] using hj
      have := C06_syst_floor_ceil cfg.rw.nPart v u0 o.idx hn hv0 hv1 hu0.1 hu0.2 hres j hj'
      have hvj : v[j] = w[j] / w.sum := by simp [hv]
      rwa [hvj] at this

/-- **every annealing iteration of every run** obeys the literal floor/ceil law with respect to the pool it resampled from -/
theorem C06_pipeline_run_count_law (cfg : PCfg ℝ) (ts : List (Tape ℝ)) (sf : PState ℝ) (os : List (IterOut ℝ))
    (h : runIters cfg init ts = some (sf, os)) (hsy : cfg.syst = true) (hn : 1 ≤ cfg.rw.nPart)
    (hu : ∀ t ∈ ts, ∀ u ∈ t.resU, 0 ≤ u ∧ u < 1) :
    ∀ o ∈ os, o.beta ≠ 0 → ∃ pre post, sf.hist = pre ++ post ∧
      ∀ (j : ℕ) (hj : j < (oracleM (batches pre) o.beta).1.length),
        (o.idx.count j : ℤ) = ⌊cfg.rw.nPart * ((oracleM (batches pre) o.beta).1[j] / (oracleM (batches pre) o.beta).1.sum)⌋ ∨
        (o.idx.count j : ℤ) = ⌈cfg.rw.nPart * ((oracleM (batches pre) o.beta).1[j] / (oracleM (batches pre) o.beta).1.sum)⌉ := by
  intro o ho hb
  obtain ⟨sk, s', t, ht, hit, e1, e2, _, h2⟩ := runIters_steps cfg ts init sf os h o ho
  have hne : sk.hist ≠ [] := by
    intro he
    -- on an empty history the reweighting step reports β = 0
    have hE : (batches sk.hist).isEmpty = true := by rw [he]; rfl
    simp only [iterate, hE] at hit
    have hb0 := (Props.C05.C05_first_iteration cfg.rw (oracleM (batches sk.hist)) (oracleZ (batches sk.hist)) isFin sk.beta).1
    have hz : eqv (Model.Reweight.run cfg.rw true (oracleM (batches sk.hist)) (oracleZ (batches sk.hist)) isFin sk.beta).beta Sc.zero
        = true := by rw [hb0]; simp [eqv]
    simp only [hz, if_true, Option.map_eq_some_iff, Prod.mk.injEq] at hit
    obtain ⟨l, _, _, rfl⟩ := hit
    exact hb hb0
  exact ⟨sk.hist, e2, h2, C06_pipeline_count_law cfg sk t s' o hne hit hb hsy hn (hu t ht)⟩

/-- non-vacuity: the two-iteration run of `Lemmas.PipelineShift` (warm-up, then one annealing iteration with `n = 2` on the
    pool weights `[1, 1]`): both pool particles are copied exactly `2·(1/2) = 1` times -/
example : ∀ o ∈ [(⟨0, 1, 0, 0, [], [], Branch.firstIter⟩ : IterOut ℝ),
      ⟨1, 2, Lemmas.PipelineShift.Ex.z1, Lemmas.PipelineShift.Ex.z1, [0, 1], [[true, false]], Branch.essUpper⟩],
    (∀ r ∈ o.idx, r < (poolTags Lemmas.PipelineShift.Ex.s2.hist).length) :=
  fun o ho => ((C06_pipeline_run Lemmas.PipelineShift.Ex.cfgEx [Lemmas.PipelineShift.Ex.t1, Lemmas.PipelineShift.Ex.t2] init
    Lemmas.PipelineShift.Ex.s2 _ Lemmas.PipelineShift.Ex.run2) o ho).2.1

/-- … and the second (annealing) iteration of that run obeys the count law with respect to a prefix of the final history -/
example : ∃ pre post, Lemmas.PipelineShift.Ex.s2.hist = pre ++ post ∧
    ∀ (j : ℕ) (hj : j < (oracleM (batches pre) (1:ℝ)).1.length),
      ((([0, 1] : List ℕ).count j : ℕ) : ℤ) = ⌊((2:ℕ):ℝ) * ((oracleM (batches pre) (1:ℝ)).1[j] / (oracleM (batches pre) (1:ℝ)).1.sum)⌋ ∨
      ((([0, 1] : List ℕ).count j : ℕ) : ℤ) = ⌈((2:ℕ):ℝ) * ((oracleM (batches pre) (1:ℝ)).1[j] / (oracleM (batches pre) (1:ℝ)).1.sum)⌉ :=
  C06_pipeline_run_count_law Lemmas.PipelineShift.Ex.cfgEx [Lemmas.PipelineShift.Ex.t1, Lemmas.PipelineShift.Ex.t2]
    Lemmas.PipelineShift.Ex.s2 _ Lemmas.PipelineShift.Ex.run2 rfl (by simp [Lemmas.PipelineShift.Ex.cfgEx])
    (by
      intro t ht u hu
      simp at ht
      rcases ht with rfl | rfl
      · simp [Lemmas.PipelineShift.Ex.t1] at hu
      · simp [Lemmas.PipelineShift.Ex.t2] at hu; subst hu; norm_num)
    ⟨1, 2, Lemmas.PipelineShift.Ex.z1, Lemmas.PipelineShift.Ex.z1, [0, 1], [[true, false]], Branch.essUpper⟩
    (by simp) (by norm_num)

end Props.C06
