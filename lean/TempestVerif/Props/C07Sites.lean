import TempestVerif.Gen.Sites
/-
  C07 (clause audit) — CLOSED WORLD of record movement.  `Gen.Sites` is regenerated from /repo's source on every run by
  `translate/g5_sites.py`; the `expected…` tables below are the sites, gates and wiring that `Model.RecSM` /
  `Model.LogLike` model (reviewed by hand against /repo @ 5a51476).  Every theorem here is an OBLIGATION decided on the
  generated tables: a new writer of a record key anywhere in the package, a new fancy index on a record array, a change
  of a blob gate, of the argument order between `Mutator.run` and the runner, of the statement skeleton of one MCMC pass
  or of `_log_like` makes the corresponding `decide` fail — "no movement site outside the model" is checked, not assumed.
-/
namespace Props.C07Sites

def expectedRecordWriters : List (String × String) :=
  [("steps.mutate:Mutator.run", "blobs"),
   ("steps.mutate:Mutator.run", "logl"),
   ("steps.mutate:Mutator.run", "u"),
   ("steps.mutate:Mutator.run", "x"),
   ("steps.resample:Resampler.run", "blobs"),
   ("steps.resample:Resampler.run", "logl"),
   ("steps.resample:Resampler.run", "u"),
   ("steps.resample:Resampler.run", "x")]

/-- OBLIGATION: only `Resampler.run` and `Mutator.run` write record keys of the current state -/
theorem C07_sites_recordWriters : Gen.Sites.recordWriters = expectedRecordWriters := by rfl

def expectedWriterCalls : List (String × String) :=
  [("steps.mutate:Mutator.run", "update_current:u=u,x=x,logl=logl,blobs=blobs,assignments=assignments,calls=calls,steps=1,acceptance=1.0,efficiency=1.0"),
   ("steps.mutate:Mutator.run", "set_current:x=x"),
   ("steps.mutate:Mutator.run", "set_current:u=u"),
   ("steps.mutate:Mutator.run", "set_current:logl=logl"),
   ("steps.mutate:Mutator.run", "set_current:blobs=blobs"),
   ("steps.mutate:Mutator.run", "set_current:logz=logz"),
   ("steps.mutate:Mutator.run", "set_current:assignments=mode_labels"),
   ("steps.mutate:Mutator.run", "update_current:u=u,x=x,logl=logl,efficiency=efficiency,acceptance=acceptance,steps=steps"),
   ("steps.mutate:Mutator.run", "set_current:blobs=blobs.copy()"),
   ("steps.mutate:Mutator.run", "set_current:calls=calls"),
   ("steps.resample:Resampler.run", "set_current:assignments=np.zeros(self.n_particles, dtype=int)"),
   ("steps.resample:Resampler.run", "update_current:u=u_resampled,x=x[idx_resampled],logl=logl[idx_resampled],assignments=self.clusterer.predict(u_resampled) if s"),
   ("steps.resample:Resampler.run", "set_current:blobs=blobs[idx_resampled]")]

/-- OBLIGATION: every writing call of `Resampler.run` / `Mutator.run`, in source order, stores exactly these keys from exactly
    these expressions: u, x, logl (and blobs under its gate) are always written TOGETHER, each from the array of its own name -/
theorem C07_sites_writerCalls : Gen.Sites.writerCalls = expectedWriterCalls := by rfl

def expectedRecordReaders : List (String × String) :=
  [("core:SamplerCore._update_progress_bar", "get_current:*"),
   ("core:SamplerCore.compute_posterior", "get_current:blobs"),
   ("core:SamplerCore.compute_posterior", "get_history:blobs"),
   ("core:SamplerCore.compute_posterior", "get_history:logl"),
   ("core:SamplerCore.compute_posterior", "get_history:u"),
   ("core:SamplerCore.compute_posterior", "get_history:x"),
   ("core:SamplerCore.execute_iteration", "get_current:*"),
   ("state_manager:StateManager.compute_logw_and_logz", "get_history:logl"),
   ("state_manager:StateManager.compute_results", "get_history:*"),
   ("steps.mutate:Mutator.have_blobs", "get_current:blobs"),
   ("steps.mutate:Mutator.run", "get_current:blobs"),
   ("steps.mutate:Mutator.run", "get_current:logl"),
   ("steps.mutate:Mutator.run", "get_current:u"),
   ("steps.mutate:Mutator.run", "get_current:x"),
   ("steps.resample:Resampler.have_blobs", "get_current:blobs"),
   ("steps.resample:Resampler.run", "get_history:blobs"),
   ("steps.resample:Resampler.run", "get_history:logl"),
   ("steps.resample:Resampler.run", "get_history:u"),
   ("steps.resample:Resampler.run", "get_history:x"),
   ("steps.reweight:Reweighter._compute_metric_and_weights", "get_history:u"),
   ("steps.train:Trainer.run", "get_history:u")]

/-- OBLIGATION: who reads record keys (readers get copies: `get_current` / `get_history` copy) -/
theorem C07_sites_recordReaders : Gen.Sites.recordReaders = expectedRecordReaders := by rfl

def expectedStoreInternals : List (String × String) :=
  [("state_manager:StateManager.__init__", "_current:rebind"),
   ("state_manager:StateManager.__init__", "_history:rebind"),
   ("state_manager:StateManager.commit_current_to_history", "_history:append"),
   ("state_manager:StateManager.set_current", "_current:setitem"),
   ("state_manager:StateManager.update_current", "_current:setitem"),
   ("state_manager:StateManager.update_from_dict", "_current:update"),
   ("state_manager:StateManager.update_from_dict", "_history:update"),
   ("state_manager:StateManager.compute_logw_and_logz", "_history:mention"),
   ("state_manager:StateManager.compute_results", "_history:mention"),
   ("state_manager:StateManager.get_current", "_current:mention"),
   ("state_manager:StateManager.get_history", "_history:mention"),
   ("state_manager:StateManager.get_history_length", "_history:mention"),
   ("state_manager:StateManager.get_last_history", "_history:mention"),
   ("state_manager:StateManager.save_state", "_current:mention"),
   ("state_manager:StateManager.save_state", "_history:mention"),
   ("state_manager:StateManager.to_dict", "_current:mention"),
   ("state_manager:StateManager.to_dict", "_history:mention")]

/-- OBLIGATION: only `StateManager`'s own methods touch `_current` / `_history`; the writers are `__init__`, `set_current`, `update_current`, `commit_current_to_history` (append) and `update_from_dict` -/
theorem C07_sites_storeInternals : Gen.Sites.storeInternals = expectedStoreInternals := by rfl

def expectedBlobGates : List (String × String) :=
  [("Resampler.have_blobs", "property:self._have_blobs or self.state.get_current('blobs') is not None"),
   ("Resampler._have_blobs", "have_blobs"),
   ("Mutator.have_blobs", "property:self._have_blobs or self.state.get_current('blobs') is not None"),
   ("Mutator._have_blobs", "have_blobs"),
   ("core:Mutator(have_blobs=)", "config.blobs_dtype is not None"),
   ("core:Resampler(have_blobs=)", "config.blobs_dtype is not None"),
   ("compute_posterior:fetch_blobs_if", "self.config.blobs_dtype is not None or self.state.get_current('blobs') is not None"),
   ("compute_posterior:if", "return_blobs and blobs is not None"),
   ("compute_posterior:if", "blobs is not None"),
   ("Resampler.run:self.state.set_current('blobs', blobs[idx_resampled])", "self.have_blobs"),
   ("Mutator.run:blobs[infinite_idx] = blobs[idx]", "self.have_blobs"),
   ("Mutator.run:self.state.set_current('blobs', blobs)", "self.have_blobs"),
   ("Mutator.run:self.state.set_current('blobs', blobs.copy())", "self.have_blobs"),
   ("BaseMCMCRunner.run:self.blobs[mask_accept] = blobs_prime[mask_accept]", "self.blobs is not None")]

/-- OBLIGATION: the blob gates are the ones of `Model.RecSM` (`Cfg.gate` with `stateGate = true`; runner: `self.blobs is not None`) -/
theorem C07_sites_blobGates : Gen.Sites.blobGates = expectedBlobGates := by rfl

def expectedProposeReturns : List (String × String) :=
  [("RWMRunner._propose", "apply_boundary_conditions(proposal, self.periodic, self.reflective)"),
   ("TPCNRunner._propose", "apply_boundary_conditions(proposal, self.periodic, self.reflective)")]

/-- OBLIGATION: both kernels return `apply_boundary_conditions(proposal, self.periodic, self.reflective)` -/
theorem C07_sites_proposeReturns : Gen.Sites.proposeReturns = expectedProposeReturns := by rfl

def expectedWiring : List (String × String) :=
  [("BaseMCMCRunner.__init__:params", "u,x,logl,blobs,assignments"),
   ("BaseMCMCRunner.__init__:self.blobs", "blobs.copy() if blobs is not None else None"),
   ("BaseMCMCRunner.__init__:self.logl", "logl.copy()"),
   ("BaseMCMCRunner.__init__:self.u", "u.copy()"),
   ("BaseMCMCRunner.__init__:self.x", "x.copy()"),
   ("BaseMCMCRunner._evaluate_likelihood:if", "self.blobs is not None: logl_prime, blobs_prime = self.log_likelihood(x_prime) else: logl_prime, _ = self.log_likelihood(x_prime) ; blobs_prime = None"),
   ("BaseMCMCRunner._evaluate_likelihood:return", "(logl_prime, blobs_prime)"),
   ("BaseMCMCRunner.run:return", "self.u,self.x,self.logl,self.blobs"),
   ("Mutator.run->parallel_mcmc", "pos: kw:u=self.state.get_current('u'),x=self.state.get_current('x'),logl=self.state.get_current('logl'),blobs=blobs,assignments=mode_index,log_likelihood=self.log_likelihood,prior_transform=self.prior_transform,periodic=self.periodic,reflective=self.reflective"),
   ("Mutator.run<-parallel_mcmc", "u,x,logl,blobs"),
   ("parallel_mcmc->parallel_random_walk_metropolis", "pos:u,x,logl,blobs,assignments"),
   ("parallel_mcmc->parallel_t_preconditioned_crank_nicolson", "pos:u,x,logl,blobs,assignments"),
   ("parallel_mcmc:params", "u,x,logl,blobs,assignments"),
   ("parallel_random_walk_metropolis->RWMRunner", "pos:u,x,logl,blobs,assignments"),
   ("parallel_random_walk_metropolis:params", "u,x,logl,blobs,assignments"),
   ("parallel_t_preconditioned_crank_nicolson->TPCNRunner", "pos:u,x,logl,blobs,assignments"),
   ("parallel_t_preconditioned_crank_nicolson:params", "u,x,logl,blobs,assignments")]

/-- OBLIGATION: u, x, logl, blobs travel in this order, by position, from `Mutator.run` to the runner and back; the runner works on copies -/
theorem C07_sites_wiring : Gen.Sites.wiring = expectedWiring := by rfl

def expectedFancySites : List (String × String × String × String) :=
  [("Resampler.run", "u", "idx_resampled", "load"),
   ("Resampler.run", "x", "idx_resampled", "load"),
   ("Resampler.run", "logl", "idx_resampled", "load"),
   ("Resampler.run", "blobs", "idx_resampled", "load"),
   ("Mutator.run", "u", "i", "load"),
   ("Mutator.run", "u", "i", "load"),
   ("Mutator.run", "x", "infinite_idx", "store"),
   ("Mutator.run", "x", "idx", "load"),
   ("Mutator.run", "u", "infinite_idx", "store"),
   ("Mutator.run", "u", "idx", "load"),
   ("Mutator.run", "logl", "infinite_idx", "store"),
   ("Mutator.run", "logl", "idx", "load"),
   ("Mutator.run", "blobs", "infinite_idx", "store"),
   ("Mutator.run", "blobs", "idx", "load"),
   ("BaseMCMCRunner.run", "u_prime", "k", "store"),
   ("BaseMCMCRunner.run", "u_prime", "~in_bounds", "store"),
   ("BaseMCMCRunner.run", "self.u", "~in_bounds", "load"),
   ("BaseMCMCRunner.run", "alpha", "~in_bounds", "store"),
   ("BaseMCMCRunner.run", "self.u", "mask_accept", "store"),
   ("BaseMCMCRunner.run", "u_prime", "mask_accept", "load"),
   ("BaseMCMCRunner.run", "self.x", "mask_accept", "store"),
   ("BaseMCMCRunner.run", "x_prime", "mask_accept", "load"),
   ("BaseMCMCRunner.run", "self.logl", "mask_accept", "store"),
   ("BaseMCMCRunner.run", "logl_prime", "mask_accept", "load"),
   ("BaseMCMCRunner.run", "self.blobs", "mask_accept", "store"),
   ("BaseMCMCRunner.run", "blobs_prime", "mask_accept", "load"),
   ("BaseMCMCRunner.run", "alpha", "mask_cluster", "load"),
   ("SamplerCore.compute_posterior", "u", "idx", "load"),
   ("SamplerCore.compute_posterior", "x", "idx", "load"),
   ("SamplerCore.compute_posterior", "logl", "idx", "load"),
   ("SamplerCore.compute_posterior", "logw", "idx", "load"),
   ("SamplerCore.compute_posterior", "blobs", "idx", "load"),
   ("SamplerCore.compute_posterior", "u", "idx", "load"),
   ("SamplerCore.compute_posterior", "x", "idx", "load"),
   ("SamplerCore.compute_posterior", "logl", "idx", "load"),
   ("SamplerCore.compute_posterior", "logw", "idx", "load"),
   ("SamplerCore.compute_posterior", "blobs", "idx", "load"),
   ("SamplerCore._log_like", "rows", "i", "store")]

/-- OBLIGATION: every fancy index on a record array in the array-handling functions: one index name per site group -/
theorem C07_sites_fancySites : Gen.Sites.fancySites = expectedFancySites := by rfl

def expectedMcmcBody : List String :=
  ["u_prime = np.empty_like(self.u)",
   "for: u_prime[k] = self._propose(k)",
   "in_bounds = np.atleast_1d(check_bounds(u_prime, self.periodic, self.reflective))",
   "u_prime[~in_bounds] = self.u[~in_bounds]",
   "x_prime = np.array([self.prior_transform(u_p) for u_p in u_prime])",
   "logl_prime, blobs_prime = self._evaluate_likelihood(x_prime)",
   "alpha = self._compute_acceptance_factor(u_prime, logl_prime)",
   "alpha = np.exp(self.beta * (logl_prime - self.logl) + alpha)",
   "alpha = np.minimum(1.0, alpha)",
   "alpha = np.nan_to_num(alpha, nan=0.0)",
   "alpha[~in_bounds] = 0.0",
   "u_rand = np.random.rand(self.n_walkers)",
   "mask_accept = u_rand < alpha",
   "self.u[mask_accept] = u_prime[mask_accept]",
   "self.x[mask_accept] = x_prime[mask_accept]",
   "self.logl[mask_accept] = logl_prime[mask_accept]",
   "if self.blobs is not None: self.blobs[mask_accept] = blobs_prime[mask_accept]",
   "current_acceptance = mask_accept.mean()"]

/-- OBLIGATION: the statement skeleton of one pass of `BaseMCMCRunner.run`, in source order -/
theorem C07_sites_mcmcBody : Gen.Sites.mcmcBody = expectedMcmcBody := by rfl

def expectedIterationReturn : List String :=
  ["self.state.get_current()"]

/-- OBLIGATION: `execute_iteration` (= `Sampler.sample`) returns `get_current()` -/
theorem C07_sites_iterationReturn : Gen.Sites.iterationReturn = expectedIterationReturn := by rfl

def expectedLogLikeShape : List String :=
  ["if self.config.vectorize",
   "  return (self.config.log_likelihood(x), None)",
   "if self.config.pool is not None",
   "  results = list(self._get_distribute_func()(self.config.log_likelihood, x))",
   "else",
   "  results = list(map(self.config.log_likelihood, x))",
   "if results and isinstance(results[0], (tuple, list)) and (len(results[0]) > 1)",
   "  blob = [item[1:] for item in results]",
   "  logl = np.array([float(item[0]) for item in results])",
   "  if self.config.blobs_dtype is not None",
   "  else",
   "    try",
   "    except ValueError",
   "    if dt.kind in 'US'",
   "  try",
   "    blob = np.array(blob, dtype=dt)",
   "  except ValueError",
   "    if not all((len(b) == 1 for b in blob))",
   "      raise",
   "    rows = np.empty(len(blob), dtype=dt)",
   "    for (i, b) in enumerate(blob): rows[i] = b[0]",
   "    blob = rows",
   "  if len(shape)",
   "    if len(axes)",
   "      blob = np.squeeze(blob, tuple(axes))",
   "  return (logl, blob)",
   "else",
   "  logl = np.array([float(value) for value in results])",
   "  return (logl, None)"]

/-- OBLIGATION: the branch skeleton of `_log_like` -/
theorem C07_sites_logLikeShape : Gen.Sites.logLikeShape = expectedLogLikeShape := by rfl

def expectedWarmupBody : List String :=
  ["u = np.random.rand(self.n_particles, self.n_dim)",
   "x = np.array([self.prior_transform(u[i]) for i in range(self.n_particles)])",
   "logl, blobs = self.log_likelihood(x)",
   "n_drawn = self.n_particles",
   "while np.all(np.isinf(logl))",
   "  if n_drawn >= 1000 * self.n_particles",
   "    raise ValueError",
   "  u = np.random.rand(self.n_particles, self.n_dim)",
   "  x = np.array([self.prior_transform(u[i]) for i in range(self.n_particles)])",
   "  logl, blobs = self.log_likelihood(x)",
   "  n_drawn += self.n_particles",
   "assignments = np.zeros(self.n_particles, dtype=int)",
   "calls = self.state.get_current('calls') + n_drawn",
   "self.state.update_current(…)",
   "inf_logl_mask = np.isinf(logl)",
   "if np.any(inf_logl_mask) or n_drawn > self.n_particles",
   "  all_idx = np.arange(len(x))",
   "  infinite_idx = all_idx[inf_logl_mask]",
   "  finite_idx = all_idx[~inf_logl_mask]",
   "  if len(infinite_idx) > 0",
   "    idx = np.random.choice(finite_idx, size=len(infinite_idx), replace=True)",
   "    x[infinite_idx] = x[idx]",
   "    u[infinite_idx] = u[idx]",
   "    logl[infinite_idx] = logl[idx]",
   "    if self.have_blobs",
   "      blobs[infinite_idx] = blobs[idx]",
   "    self.state.set_current('x', x)",
   "    self.state.set_current('u', u)",
   "    self.state.set_current('logl', logl)",
   "    if self.have_blobs",
   "      self.state.set_current('blobs', blobs)",
   "  n_finite = len(finite_idx)",
   "  n_total = n_drawn",
   "  logz = np.log(n_finite / n_total)",
   "  self.state.set_current('logz', logz)",
   "return"]

/-- OBLIGATION: the statement skeleton of `Mutator.run`'s beta = 0 branch is the one `Model.RecSM.warmup` mirrors
    (/repo 959029e): redraw while ALL draws are infinite, cap at 1000·n_particles (ValueError), one `update_current` of the
    final batch, the copy guarded by `len(infinite_idx) > 0`, the blob moves under `self.have_blobs` -/
theorem C07_sites_warmupBody : Gen.Sites.warmupBody = expectedWarmupBody := by rfl

end Props.C07Sites
