import TempestVerif.Props.C03Inv
import TempestVerif.Lemmas.GaussianPi
import TempestVerif.Lemmas.CholFactor
import TempestVerif.Lemmas.KernelGeom
import Mathlib.Tactic
/-
  C03, clause 14 in ANY dimension: the law of one step of the executable kernel model (hard walls) leaves the tempered target
  invariant.  State space `V d = Fin d → ℝ` with Lebesgue measure; tapes `z ~ N(0, I_d)` (`Measure.pi` of standard normals =
  `np.random.randn(d)`), `g ~ Gamma(shape, scale)` (tpCN), `r ~ U[0,1)`.
-/
set_option linter.unusedSimpArgs false
set_option linter.unusedVariables false
namespace Props.C03
open Real MeasureTheory ProbabilityTheory Set Model.Kernel Lemmas.MHKernel Matrix Lemmas.GaussianPi Lemmas.CholFactor
open Lemmas.GaussJordan (matOf)
open scoped ENNReal NNReal

variable {d : ℕ}

/-- points of the d-dimensional cube / of ℝ^d -/
abbrev V (d : ℕ) := Fin d → ℝ

/-! ## E. the list model on `List.ofFn` data is a vector expression -/

/-- one-walker input of `Model.Kernel.step` in dimension `d` with hard boundaries (no periodic / reflective coordinate) -/
noncomputable def inD (kind : Kind) (μ : V d) (L S : Matrix (Fin d) (Fin d) ℝ) (ν σ β lx lp : ℝ) (x : V d) (g : ℝ) (z : V d)
    (r : ℝ) : StepIn ℝ :=
  { kind, u := List.ofFn x, mu := List.ofFn μ, chol := matOf L, invcov := matOf S, nu := ν, sigma := σ, beta := β, l := lx,
    lp := lp, g := g, r := r, z := List.ofFn z, per := [], refl := [] }

/-- raw tpCN candidate `μ + √(1−σ²)(x−μ) + σ √(1/g) L z` -/
noncomputable def candVT (μ : V d) (L : Matrix (Fin d) (Fin d) ℝ) (σ : ℝ) (x : V d) (g : ℝ) (z : V d) : V d :=
  μ + √(1 - σ * σ) • (x - μ) + (σ * √(1 / g)) • (L *ᵥ z)
/-- raw RWM candidate `x + σ L z` -/
noncomputable def candVR (L : Matrix (Fin d) (Fin d) ℝ) (σ : ℝ) (x z : V d) : V d := x + σ • (L *ᵥ z)

/-- `dot_product = diff @ inv_cov @ diff` -/
noncomputable def dltV (S : Matrix (Fin d) (Fin d) ℝ) (μ x : V d) : ℝ := (x - μ) ⬝ᵥ (S *ᵥ (x - μ))

/-- the cube -/
def cube (d : ℕ) : Set (V d) := Icc 0 1

theorem apply_nil (v : List ℝ) : Model.Boundary.apply ([] : List Nat) [] v = v := by
  simp [Model.Boundary.apply]

theorem checkBounds_ofFn (c : V d) :
    Model.Boundary.checkBounds ([] : List Nat) [] (List.ofFn c) = true ↔ c ∈ cube d := by
  simp only [Model.Boundary.checkBounds, List.all_eq_true, List.mem_range, List.length_ofFn, List.contains_nil,
    Bool.or_self, Bool.false_eq_true, if_false, cube, mem_Icc, Pi.le_def, Pi.zero_apply, Pi.one_apply]
  constructor
  · intro h
    have h' : ∀ i : Fin d, 0 ≤ c i ∧ c i ≤ 1 := by
      intro i
      have := h i.val i.isLt
      rw [List.getElem?_ofFn] at this
      simpa [Model.Boundary.inUnit, i.isLt] using this
    exact ⟨fun i => (h' i).1, fun i => (h' i).2⟩
  · rintro ⟨h0, h1⟩ k hk
    rw [List.getElem?_ofFn]
    simp [hk, Model.Boundary.inUnit, h0 ⟨k, hk⟩, h1 ⟨k, hk⟩]

/-- a log-likelihood on points of ℝ^d, as the list model sees it -/
noncomputable def liftLV (ℓ : V d → ℝ) (v : List ℝ) : ℝ := if h : v.length = d then ℓ fun i => v[i] else 0

theorem liftLV_ofFn (ℓ : V d → ℝ) (c : V d) : liftLV ℓ (List.ofFn c) = ℓ c := by
  unfold liftLV
  rw [dif_pos (List.length_ofFn)]
  congr 1; funext i; simp

/-- read a list of length `d` back as a vector (`x` otherwise) -/
noncomputable def listToV (v : List ℝ) (x : V d) : V d := if h : v.length = d then fun i => v[i] else x

theorem listToV_ofFn (y x : V d) : listToV (List.ofFn y) x = y := by
  unfold listToV
  rw [dif_pos (List.length_ofFn)]
  funext i; simp

/-- acceptance probability of the tpCN model as a function of the current point and the RAW candidate, hard walls -/
noncomputable def accVT (ℓ : V d → ℝ) (μ : V d) (S : Matrix (Fin d) (Fin d) ℝ) (ν β : ℝ) (x c : V d) : ℝ :=
  open Classical in
  if c ∈ cube d then min 1 (exp (β * (ℓ c - ℓ x) + tpcnLogFactor (d : ℝ) ν (dltV S μ x) (dltV S μ c))) else 0

noncomputable def accVR (ℓ : V d → ℝ) (β : ℝ) (x c : V d) : ℝ :=
  open Classical in
  if c ∈ cube d then min 1 (exp (β * (ℓ c - ℓ x))) else 0

theorem accVT_nonneg (ℓ : V d → ℝ) (μ : V d) (S : Matrix (Fin d) (Fin d) ℝ) (ν β : ℝ) (x c : V d) :
    0 ≤ accVT ℓ μ S ν β x c := by
  unfold accVT; split
  · exact le_min zero_le_one (exp_pos _).le
  · exact le_rfl

theorem accVT_le_one (ℓ : V d → ℝ) (μ : V d) (S : Matrix (Fin d) (Fin d) ℝ) (ν β : ℝ) (x c : V d) :
    accVT ℓ μ S ν β x c ≤ 1 := by
  unfold accVT; split
  · exact min_le_left _ _
  · exact zero_le_one

theorem accVR_nonneg (ℓ : V d → ℝ) (β : ℝ) (x c : V d) : 0 ≤ accVR ℓ β x c := by
  unfold accVR; split
  · exact le_min zero_le_one (exp_pos _).le
  · exact le_rfl

theorem accVR_le_one (ℓ : V d → ℝ) (β : ℝ) (x c : V d) : accVR ℓ β x c ≤ 1 := by
  unfold accVR; split
  · exact min_le_left _ _
  · exact zero_le_one

theorem raw_tpcn_vec (μ : V d) (L : Matrix (Fin d) (Fin d) ℝ) (σ : ℝ) (x : V d) (g : ℝ) (z : V d) :
    Model.Boundary.apply ([] : List Nat) []
        (tpcnProposal (List.ofFn μ) (Model.Kernel.vsub (List.ofFn x) (List.ofFn μ)) (matOf L) σ (sFromGamma g) (List.ofFn z))
      = List.ofFn (candVT μ L σ x g z) := by
  rw [apply_nil, vsub_ofFn, tpcnProposal_ofFn]
  simp [candVT, diffCoef, noiseScale, sFromGamma]

theorem raw_rwm_vec (L : Matrix (Fin d) (Fin d) ℝ) (σ : ℝ) (x z : V d) :
    Model.Boundary.apply ([] : List Nat) [] (rwmProposal (List.ofFn x) (matOf L) σ (List.ofFn z))
      = List.ofFn (candVR L σ x z) := by
  rw [apply_nil, rwmProposal_ofFn]; rfl

theorem qform_vec (S : Matrix (Fin d) (Fin d) ℝ) (μ x : V d) :
    qform (Model.Kernel.vsub (List.ofFn x) (List.ofFn μ)) (matOf S) = dltV S μ x := by
  rw [vsub_ofFn, qform_matOf]; rfl

/-- **the list model's step in dimension d IS an accept/reject step on vectors** (tpCN, hard walls, `0 ≤ r`) -/
theorem closedStep_tpcn_vec (ℓ : V d → ℝ) (μ : V d) (L S : Matrix (Fin d) (Fin d) ℝ) (ν σ β lx lp : ℝ) (x : V d) (g : ℝ)
    (z : V d) (r : ℝ) (hr : 0 ≤ r) :
    (closedStep (liftLV ℓ) (inD .tpcn μ L S ν σ β lx lp x g z r)).newU
      = List.ofFn (acceptReject x (accVT ℓ μ S ν β x) (candVT μ L σ x g z, r)) := by
  simp only [closedStep, step, inD, finish, raw_tpcn_vec, qform_vec, List.length_ofFn]
  by_cases hin : candVT μ L σ x g z ∈ cube d
  · have hb := (checkBounds_ofFn (candVT μ L σ x g z)).2 hin
    simp only [hb, if_true, liftLV_ofFn, qform_vec, boundedAlpha, acceptDecision, model_acceptProb, acceptReject, accVT, hin,
      ScReal.ofNat_def]
    by_cases hlt : r < min 1 (exp (β * (ℓ (candVT μ L σ x g z) - ℓ x) +
        tpcnLogFactor (d : ℝ) ν (dltV S μ x) (dltV S μ (candVT μ L σ x g z))))
    · simp [hlt]
    · simp [hlt]
  · have hb : Model.Boundary.checkBounds ([] : List Nat) [] (List.ofFn (candVT μ L σ x g z)) = false := by
      rw [← Bool.not_eq_true, checkBounds_ofFn]; exact hin
    simp [hb, boundedAlpha, acceptDecision, alphaOutOfBounds, acceptReject, accVT, hin, not_lt.2 hr]

theorem closedStep_rwm_vec (ℓ : V d → ℝ) (μ : V d) (L S : Matrix (Fin d) (Fin d) ℝ) (ν σ β lx lp : ℝ) (x : V d) (g : ℝ)
    (z : V d) (r : ℝ) (hr : 0 ≤ r) :
    (closedStep (liftLV ℓ) (inD .rwm μ L S ν σ β lx lp x g z r)).newU
      = List.ofFn (acceptReject x (accVR ℓ β x) (candVR L σ x z, r)) := by
  simp only [closedStep, step, inD, finish, raw_rwm_vec]
  by_cases hin : candVR L σ x z ∈ cube d
  · have hb := (checkBounds_ofFn (candVR L σ x z)).2 hin
    simp only [hb, if_true, liftLV_ofFn, boundedAlpha, acceptDecision, model_acceptProb, acceptReject, accVR, hin,
      rwmLogFactor, ScReal.zero_def, add_zero]
    by_cases hlt : r < min 1 (exp (β * (ℓ (candVR L σ x z) - ℓ x)))
    · simp [hlt]
    · simp [hlt]
  · have hb : Model.Boundary.checkBounds ([] : List Nat) [] (List.ofFn (candVR L σ x z)) = false := by
      rw [← Bool.not_eq_true, checkBounds_ofFn]; exact hin
    simp [hb, boundedAlpha, acceptDecision, alphaOutOfBounds, acceptReject, accVR, hin, not_lt.2 hr]

/-! ## F. the law of the step and its invariance, dimension d, hard walls -/

/-- target (unnormalised): `exp(β ℓ)` on the unit cube, nothing outside -/
noncomputable def targetV (ℓ : V d → ℝ) (β : ℝ) : Measure (V d) :=
  volume.withDensity fun x => ENNReal.ofReal ((cube d).indicator (fun x => exp (β * ℓ x)) x)

/-- the new state of the closed list-model step, read back as a vector -/
noncomputable def newStateV (kind : Kind) (ℓ : V d → ℝ) (μ : V d) (L S : Matrix (Fin d) (Fin d) ℝ) (ν σ β : ℝ) (x : V d)
    (g : ℝ) (z : V d) (r : ℝ) : V d :=
  listToV (closedStep (liftLV ℓ) (inD kind μ L S ν σ β 0 0 x g z r)).newU x

theorem newStateV_eq_rwm (ℓ : V d → ℝ) (μ : V d) (L S : Matrix (Fin d) (Fin d) ℝ) (ν σ β : ℝ) (x : V d) (g : ℝ) (z : V d)
    (r : ℝ) (hr : 0 ≤ r) :
    newStateV .rwm ℓ μ L S ν σ β x g z r = acceptReject x (accVR ℓ β x) (candVR L σ x z, r) := by
  unfold newStateV
  rw [closedStep_rwm_vec ℓ μ L S ν σ β 0 0 x g z r hr, listToV_ofFn]

theorem newStateV_eq_tpcn (ℓ : V d → ℝ) (μ : V d) (L S : Matrix (Fin d) (Fin d) ℝ) (ν σ β : ℝ) (x : V d) (g : ℝ) (z : V d)
    (r : ℝ) (hr : 0 ≤ r) :
    newStateV .tpcn ℓ μ L S ν σ β x g z r = acceptReject x (accVT ℓ μ S ν β x) (candVT μ L σ x g z, r) := by
  unfold newStateV
  rw [closedStep_tpcn_vec ℓ μ L S ν σ β 0 0 x g z r hr, listToV_ofFn]

/-- the standard normal vector `np.random.randn(d)` -/
noncomputable def stdN (d : ℕ) : Measure (V d) := Measure.pi fun _ => gaussianReal 0 1

instance : IsProbabilityMeasure (stdN d) := by unfold stdN; infer_instance

theorem measurableSet_cube : MeasurableSet (cube d) := measurableSet_Icc

theorem measurable_accVR {ℓ : V d → ℝ} (hℓ : Measurable ℓ) (β : ℝ) : Measurable (Function.uncurry (accVR ℓ β)) := by
  unfold accVR Function.uncurry
  refine Measurable.ite (measurable_snd measurableSet_cube) ?_ measurable_const
  exact measurable_const.min (measurable_exp.comp (measurable_const.mul
    ((hℓ.comp measurable_snd).sub (hℓ.comp measurable_fst))))

theorem affineGaussDensity_symm (L : Matrix (Fin d) (Fin d) ℝ) (c : ℝ) (x y : V d) :
    affineGaussDensity L c x y = affineGaussDensity L c y x := by
  unfold affineGaussDensity
  have : L⁻¹ *ᵥ (x - y) = -(L⁻¹ *ᵥ (y - x)) := by rw [← Matrix.mulVec_neg]; congr 1; abel
  rw [this, neg_dotProduct_neg]

theorem lintegral_affineGaussDensity (L : Matrix (Fin d) (Fin d) ℝ) (hL : L.det ≠ 0) (c : ℝ) (hc : c ≠ 0) (b : V d) :
    ∫⁻ y, ENNReal.ofReal (affineGaussDensity L c b y) = 1 := by
  have h := map_scaled_affine_pi_gaussian' L hL c hc b
  have hp : IsProbabilityMeasure ((Measure.pi fun _ : Fin d => gaussianReal 0 1).map fun z => b + c • (L *ᵥ z)) :=
    Measure.isProbabilityMeasure_map (by fun_prop)
  rw [h] at hp
  have := hp.measure_univ
  rwa [withDensity_apply _ MeasurableSet.univ, Measure.restrict_univ] at this

/-- the law of the new state of one RWM step of the closed list model (dimension d, hard walls) from the point `x` -/
noncomputable def rwmLawV (ℓ : V d → ℝ) (μ : V d) (L S : Matrix (Fin d) (Fin d) ℝ) (ν σ β : ℝ) (x : V d) : Measure (V d) :=
  ((stdN d).prod unif).map fun w => newStateV .rwm ℓ μ L S ν σ β x 0 w.1 w.2

/-- sub-density of the RWM kernel: density of `N(x, σ² L Lᵀ)` × the model's acceptance probability -/
noncomputable def rwmSubV (ℓ : V d → ℝ) (L : Matrix (Fin d) (Fin d) ℝ) (σ β : ℝ) (x y : V d) : ℝ≥0∞ :=
  ENNReal.ofReal (affineGaussDensity L σ x y) * ENNReal.ofReal (accVR ℓ β x y)

theorem measurable_candVR (L : Matrix (Fin d) (Fin d) ℝ) (σ : ℝ) (x : V d) : Measurable (candVR L σ x) := by
  unfold candVR
  exact measurable_const.add ((measurable_mulVec L).const_smul σ)

theorem rwmLawV_eq_mhKernel {ℓ : V d → ℝ} (hℓ : Measurable ℓ) (μ : V d) (L S : Matrix (Fin d) (Fin d) ℝ) (ν σ β : ℝ)
    (hL : L.det ≠ 0) (hσ : σ ≠ 0) (x : V d) :
    rwmLawV ℓ μ L S ν σ β x = mhKernel volume (rwmSubV ℓ L σ β) x := by
  unfold rwmLawV
  rw [tapeStep_law (stdN d) (c := candVR L σ x) (measurable_candVR L σ x) x
    ((measurable_accVR hℓ β).of_uncurry_left) (fun z r hr => newStateV_eq_rwm ℓ μ L S ν σ β x 0 z r hr)]
  have hlaw : (stdN d).map (candVR L σ x) = volume.withDensity fun y => ENNReal.ofReal (affineGaussDensity L σ x y) :=
    map_scaled_affine_pi_gaussian' L hL σ hσ x
  rw [hlaw]
  exact acceptReject_eq_mhKernel volume (q := fun x y => ENNReal.ofReal (affineGaussDensity L σ x y))
    (ENNReal.measurable_ofReal.comp (measurable_affineGaussDensity_pair L σ))
    (fun x => lintegral_affineGaussDensity L hL σ hσ x) (measurable_accVR hℓ β) (accVR_nonneg ℓ β) (accVR_le_one ℓ β) x

theorem rwmSubV_detailed_balance (ℓ : V d → ℝ) (L : Matrix (Fin d) (Fin d) ℝ) (σ β : ℝ) (x y : V d) :
    ENNReal.ofReal ((cube d).indicator (fun x => exp (β * ℓ x)) x) * rwmSubV ℓ L σ β x y
      = ENNReal.ofReal ((cube d).indicator (fun x => exp (β * ℓ x)) y) * rwmSubV ℓ L σ β y x := by
  unfold rwmSubV accVR
  by_cases hx : x ∈ cube d <;> by_cases hy : y ∈ cube d
  · simp only [hx, hy, indicator_of_mem, if_true]
    have e1 : exp (β * (ℓ y - ℓ x)) = exp (β * ℓ y) * 1 / (exp (β * ℓ x) * 1) := by
      rw [mul_one, mul_one, ← exp_sub]; congr 1; ring
    have e2 : exp (β * (ℓ x - ℓ y)) = exp (β * ℓ x) * 1 / (exp (β * ℓ y) * 1) := by
      rw [mul_one, mul_one, ← exp_sub]; congr 1; ring
    rw [e1, e2]
    exact mh_flow_symm _ _ 1 1 (exp_pos _) (exp_pos _) one_pos one_pos _ _ (by rw [affineGaussDensity_symm])
  · simp [hx, hy]
  · simp [hx, hy]
  · simp [hx, hy]

/-- **RWM, any dimension, hard walls: the law of the model's step leaves the tempered target invariant** — every measurable
    log-likelihood, every β, every invertible Cholesky factor `L` (correlated proposals included), every step size σ ≠ 0. -/
theorem C03_rwm_step_law_invariant {ℓ : V d → ℝ} (hℓ : Measurable ℓ) (μ : V d) (L S : Matrix (Fin d) (Fin d) ℝ)
    (ν σ β : ℝ) (hL : L.det ≠ 0) (hσ : σ ≠ 0) :
    (targetV ℓ β).bind (rwmLawV ℓ μ L S ν σ β) = targetV ℓ β := by
  have hfun : rwmLawV ℓ μ L S ν σ β = ⇑(mhKernel volume (rwmSubV ℓ L σ β)) :=
    funext fun x => rwmLawV_eq_mhKernel hℓ μ L S ν σ β hL hσ x
  have hk : Measurable (Function.uncurry (rwmSubV ℓ L σ β)) :=
    (ENNReal.measurable_ofReal.comp (measurable_affineGaussDensity_pair L σ)).mul
      (ENNReal.measurable_ofReal.comp (measurable_accVR hℓ β))
  have hp : Measurable fun x => ENNReal.ofReal ((cube d).indicator (fun x => exp (β * ℓ x)) x) :=
    ENNReal.measurable_ofReal.comp ((measurable_exp.comp (measurable_const.mul hℓ)).indicator measurableSet_cube)
  rw [hfun]
  exact mhKernel_invariant volume hk
    (moveMass_le_one volume (q := fun x y => ENNReal.ofReal (affineGaussDensity L σ x y))
      (fun x => lintegral_affineGaussDensity L hL σ hσ x) (accVR_le_one ℓ β)) hp
    (rwmSubV_detailed_balance ℓ L σ β)

/-! ### tpCN, dimension d -/

/-- rate (= 1/scale) of the gamma draw -/
noncomputable def rateV (S : Matrix (Fin d) (Fin d) ℝ) (μ : V d) (ν : ℝ) (x : V d) : ℝ := (ν + dltV S μ x) / 2
/-- mean of the tpCN candidate given the current point -/
noncomputable def meanV (μ : V d) (σ : ℝ) (x : V d) : V d := μ + √(1 - σ * σ) • (x - μ)
/-- scalar multiplying `L z` given the gamma draw -/
noncomputable def cG (σ g : ℝ) : ℝ := σ * √(1 / g)

theorem candVT_eq (μ : V d) (L : Matrix (Fin d) (Fin d) ℝ) (σ : ℝ) (x : V d) (g : ℝ) (z : V d) :
    candVT μ L σ x g z = meanV μ σ x + cG σ g • (L *ᵥ z) := rfl

theorem cG_ne_zero {σ g : ℝ} (hσ : σ ≠ 0) (hg : 0 < g) : cG σ g ≠ 0 := by
  unfold cG; have : 0 < √(1 / g) := sqrt_pos.2 (by positivity); exact mul_ne_zero hσ this.ne'

theorem cG_sq (σ g : ℝ) (hg : 0 < g) : cG σ g ^ 2 = σ ^ 2 / g := by
  unfold cG; rw [mul_pow, sq_sqrt (by positivity)]; ring

/-- joint law of the tapes that build the tpCN candidate -/
noncomputable def tapeVT (S : Matrix (Fin d) (Fin d) ℝ) (μ : V d) (ν : ℝ) (x : V d) : Measure (ℝ × V d) :=
  (gammaMeasure (gammaShape (d : ℝ) ν) (rateV S μ ν x)).prod (stdN d)

/-- integrand of the tpCN proposal density -/
noncomputable def mixVT (μ : V d) (L S : Matrix (Fin d) (Fin d) ℝ) (ν σ : ℝ) (x : V d) (g : ℝ) (y : V d) : ℝ≥0∞ :=
  gammaPDF (gammaShape (d : ℝ) ν) (rateV S μ ν x) g * ENNReal.ofReal (affineGaussDensity L (cG σ g) (meanV μ σ x) y)

/-- density of the tpCN candidate w.r.t. Lebesgue measure on ℝ^d -/
noncomputable def qVT (μ : V d) (L S : Matrix (Fin d) (Fin d) ℝ) (ν σ : ℝ) (x y : V d) : ℝ≥0∞ :=
  ∫⁻ g, mixVT μ L S ν σ x g y

theorem measurable_dltV (S : Matrix (Fin d) (Fin d) ℝ) (μ : V d) : Measurable (dltV S μ) := by
  unfold dltV
  have h1 : Continuous fun x : V d => x - μ := continuous_id.sub continuous_const
  exact (Continuous.dotProduct h1 (Continuous.matrix_mulVec continuous_const h1)).measurable

theorem measurable_meanV (μ : V d) (σ : ℝ) : Measurable (meanV μ σ) := by
  unfold meanV
  have h1 : Measurable fun x : V d => x - μ := measurable_id.sub measurable_const
  exact measurable_const.add (h1.const_smul (√(1 - σ * σ)))

theorem measurable_mixVT (μ : V d) (L S : Matrix (Fin d) (Fin d) ℝ) (ν σ : ℝ) :
    Measurable fun p : (V d × V d) × ℝ => mixVT μ L S ν σ p.1.1 p.2 p.1.2 := by
  unfold mixVT
  have hA : Measurable fun p : (V d × V d) × ℝ => gammaPDF (gammaShape (d : ℝ) ν) (rateV S μ ν p.1.1) p.2 := by
    refine (measurable_gammaPDF_rate _).comp (Measurable.prodMk ?_ measurable_snd)
    exact (((measurable_dltV S μ).comp (measurable_fst.comp measurable_fst)).const_add ν).div_const 2
  have hB : Measurable fun p : (V d × V d) × ℝ =>
      ENNReal.ofReal (affineGaussDensity L (cG σ p.2) (meanV μ σ p.1.1) p.1.2) := by
    refine (measurable_ofReal_affineGaussDensity L).comp (Measurable.prodMk ?_ (Measurable.prodMk ?_ ?_))
    · fun_prop
    · exact (measurable_meanV μ σ).comp (measurable_fst.comp measurable_fst)
    · exact measurable_snd.comp measurable_fst
  exact hA.mul hB

theorem measurable_qVT (μ : V d) (L S : Matrix (Fin d) (Fin d) ℝ) (ν σ : ℝ) :
    Measurable (Function.uncurry (qVT μ L S ν σ)) :=
  Measurable.lintegral_prod_right' (measurable_mixVT μ L S ν σ)

theorem measurable_candVT_pair (μ : V d) (L : Matrix (Fin d) (Fin d) ℝ) (σ : ℝ) (x : V d) :
    Measurable fun t : ℝ × V d => candVT μ L σ x t.1 t.2 := by
  unfold candVT
  have h1 : Measurable fun t : ℝ × V d => σ * √(1 / t.1) := by fun_prop
  have h2 : Measurable fun t : ℝ × V d => L *ᵥ t.2 := (measurable_mulVec L).comp measurable_snd
  exact measurable_const.add (Measurable.smul (f := fun t : ℝ × V d => σ * √(1 / t.1)) (g := fun t : ℝ × V d => L *ᵥ t.2) h1 h2)

/-- **the law of the tpCN candidate has the mixture density `qVT`** w.r.t. Lebesgue measure on ℝ^d -/
theorem tpcn_candidate_law_vec (μ : V d) (L S : Matrix (Fin d) (Fin d) ℝ) (ν σ : ℝ) (x : V d) (hL : L.det ≠ 0)
    (hσ : σ ≠ 0) :
    (tapeVT S μ ν x).map (fun t => candVT μ L σ x t.1 t.2) = volume.withDensity (qVT μ L S ν σ x) := by
  have hc := measurable_candVT_pair μ L σ x
  ext B hB
  rw [Measure.map_apply hc hB, tapeVT, Measure.prod_apply (hc hB), withDensity_apply _ hB]
  have hmeasG : Measurable fun g => (stdN d) (Prod.mk g ⁻¹' ((fun t : ℝ × V d => candVT μ L σ x t.1 t.2) ⁻¹' B)) :=
    measurable_measure_prodMk_left (hc hB)
  unfold gammaMeasure
  rw [lintegral_withDensity_eq_lintegral_mul _ (measurable_gammaPDF' _ _) hmeasG]
  have hae : ∀ᵐ g ∂(volume : Measure ℝ), g ≠ 0 := by
    rw [ae_iff]; simp
  have e1 : ∫⁻ g, (gammaPDF (gammaShape (d : ℝ) ν) (rateV S μ ν x) *
        fun g => (stdN d) (Prod.mk g ⁻¹' ((fun t : ℝ × V d => candVT μ L σ x t.1 t.2) ⁻¹' B))) g
      = ∫⁻ g, ∫⁻ y in B, mixVT μ L S ν σ x g y := by
    refine lintegral_congr_ae (hae.mono fun g hg => ?_)
    simp only [Pi.mul_apply, mixVT]
    rcases lt_or_gt_of_ne hg with hneg | hpos
    · simp [gammaPDF_of_neg hneg]
    · have hsec : (stdN d) (Prod.mk g ⁻¹' ((fun t : ℝ × V d => candVT μ L σ x t.1 t.2) ⁻¹' B))
          = ((stdN d).map fun z => meanV μ σ x + cG σ g • (L *ᵥ z)) B := by
        have hmz : Measurable fun z : V d => meanV μ σ x + cG σ g • (L *ᵥ z) :=
          measurable_const.add ((measurable_mulVec L).const_smul (cG σ g))
        rw [Measure.map_apply hmz hB]
        rfl
      rw [hsec]
      have hlaw := map_scaled_affine_pi_gaussian' L hL (cG σ g) (cG_ne_zero hσ hpos) (meanV μ σ x)
      unfold stdN
      have hmd : Measurable fun y : V d => ENNReal.ofReal (affineGaussDensity L (cG σ g) (meanV μ σ x) y) :=
        ENNReal.measurable_ofReal.comp ((measurable_affineGaussDensity_pair L (cG σ g)).comp
          (f := fun y : V d => (meanV μ σ x, y)) (measurable_const.prodMk measurable_id))
      rw [hlaw, withDensity_apply _ hB, lintegral_const_mul _ hmd]
  rw [e1]
  have hm : Measurable fun p : ℝ × V d => mixVT μ L S ν σ x p.1 p.2 :=
    (measurable_mixVT μ L S ν σ).comp (f := fun p : ℝ × V d => ((x, p.2), p.1))
      ((measurable_const.prodMk measurable_snd).prodMk measurable_fst)
  have hsw := lintegral_lintegral_swap (μ := (volume : Measure ℝ)) (ν := (volume : Measure (V d)).restrict B)
    (f := fun g y => mixVT μ L S ν σ x g y) hm.aemeasurable
  rw [hsw]
  rfl

section Reversible
open Lemmas.Maha Lemmas.KernelGeom

theorem dltV_eq_maha (L S : Matrix (Fin d) (Fin d) ℝ) (hS : S = (L * Lᵀ)⁻¹) (μ x : V d) :
    dltV S μ x = maha (L * Lᵀ) (x - μ) := by
  subst hS; rfl

theorem dltV_nonneg (L S : Matrix (Fin d) (Fin d) ℝ) (hL : L.det ≠ 0) (hS : S = (L * Lᵀ)⁻¹) (μ x : V d) :
    0 ≤ dltV S μ x := by
  rw [dltV_eq_maha L S hS]; exact maha_chol_nonneg L (isUnit_iff_ne_zero.2 hL) _

/-- the exponent of the Gaussian density of `b + c L z` is the Mahalanobis form of `Σ = L Lᵀ` -/
theorem gaussExp_eq_maha (L : Matrix (Fin d) (Fin d) ℝ) (hL : L.det ≠ 0) (v : V d) :
    (L⁻¹ *ᵥ v) ⬝ᵥ (L⁻¹ *ᵥ v) = maha (L * Lᵀ) v := by
  have hu : IsUnit L.det := isUnit_iff_ne_zero.2 hL
  have hv : L *ᵥ (L⁻¹ *ᵥ v) = v := by rw [mulVec_mulVec, mul_nonsing_inv L hu, one_mulVec]
  have := maha_chol L hu (L⁻¹ *ᵥ v)
  rw [hv] at this
  exact this.symm

theorem expo_symm_d (dx dy dxy a0 σ g ν : ℝ) (h : a0 ^ 2 = 1 - σ ^ 2) (hσ : σ ≠ 0) (hg : g ≠ 0) :
    -((ν + dx) / 2 * g) + -(dy - 2 * a0 * dxy + a0 ^ 2 * dx) / (2 * (σ ^ 2 / g))
      = -((ν + dy) / 2 * g) + -(dx - 2 * a0 * dxy + a0 ^ 2 * dy) / (2 * (σ ^ 2 / g)) := by
  field_simp
  linear_combination (dy - dx) * h

/-- **pointwise in the gamma draw**, dimension d: Student-t weight × gamma density × Gaussian density of the candidate is
    symmetric in the two states -/
theorem tpcn_mix_symm_real_vec (μ : V d) (L S : Matrix (Fin d) (Fin d) ℝ) (ν σ : ℝ) (x y : V d) (g : ℝ) (hg : 0 < g)
    (hν : 0 < ν) (hσ0 : 0 < σ) (hσ1 : σ < 1) (hL : L.det ≠ 0) (hS : S = (L * Lᵀ)⁻¹) :
    tker d ν (dltV S μ x) * (gammaPDFReal (gammaShape (d : ℝ) ν) (rateV S μ ν x) g
        * affineGaussDensity L (cG σ g) (meanV μ σ x) y)
      = tker d ν (dltV S μ y) * (gammaPDFReal (gammaShape (d : ℝ) ν) (rateV S μ ν y) g
        * affineGaussDensity L (cG σ g) (meanV μ σ y) x) := by
  have ha0 : (√(1 - σ * σ)) ^ 2 = 1 - σ ^ 2 := by
    rw [sq_sqrt (by nlinarith)]; ring
  have hgen : ∀ u w : V d,
      tker d ν (dltV S μ u) * (gammaPDFReal (gammaShape (d : ℝ) ν) (rateV S μ ν u) g
        * affineGaussDensity L (cG σ g) (meanV μ σ u) w)
      = (ν / 2) ^ (((d : ℝ) + ν) / 2) / Real.Gamma (((d : ℝ) + ν) / 2) * g ^ (((d : ℝ) + ν) / 2 - 1)
        * (|cG σ g|⁻¹ ^ Fintype.card (Fin d) * |L.det|⁻¹ * (√(2 * π))⁻¹ ^ Fintype.card (Fin d))
        * exp (-((ν + maha (L * Lᵀ) (u - μ)) / 2 * g)
          + -(maha (L * Lᵀ) (w - μ) - 2 * √(1 - σ * σ) * mahaCross (L * Lᵀ) (u - μ) (w - μ)
              + (√(1 - σ * σ)) ^ 2 * maha (L * Lᵀ) (u - μ)) / (2 * (σ ^ 2 / g))) := by
    intro u w
    have hu := dltV_nonneg L S hL hS μ u
    unfold gammaPDFReal affineGaussDensity
    rw [if_pos hg.le, model_gammaShape, exp_add, ← key ν (dltV S μ u) (((d : ℝ) + ν) / 2) hν hu,
      gaussExp_eq_maha L hL, cG_sq σ g hg]
    have e1 : w - meanV μ σ u = (w - μ) - √(1 - σ * σ) • (u - μ) := by unfold meanV; abel
    rw [e1, maha_cn_expand (L * Lᵀ) (isSymm_mul_transpose L), ← dltV_eq_maha L S hS μ u]
    unfold tker rateV
    ring
  rw [hgen x y, hgen y x, mahaCross_comm (L * Lᵀ) (isSymm_mul_transpose L) (y - μ) (x - μ),
    expo_symm_d _ _ _ _ σ g ν ha0 hσ0.ne' hg.ne']

theorem rateV_pos (μ : V d) (L S : Matrix (Fin d) (Fin d) ℝ) (ν : ℝ) (x : V d) (hν : 0 < ν) (hL : L.det ≠ 0)
    (hS : S = (L * Lᵀ)⁻¹) : 0 < rateV S μ ν x := by
  unfold rateV; have := dltV_nonneg L S hL hS μ x; positivity

theorem gammaShapeD_pos (ν : ℝ) (hν : 0 < ν) : 0 < gammaShape (d : ℝ) ν := by
  rw [model_gammaShape]; positivity

theorem mixVT_reversible (μ : V d) (L S : Matrix (Fin d) (Fin d) ℝ) (ν σ : ℝ) (x y : V d) (g : ℝ) (hg : g ≠ 0)
    (hν : 0 < ν) (hσ0 : 0 < σ) (hσ1 : σ < 1) (hL : L.det ≠ 0) (hS : S = (L * Lᵀ)⁻¹) :
    ENNReal.ofReal (tker d ν (dltV S μ x)) * mixVT μ L S ν σ x g y
      = ENNReal.ofReal (tker d ν (dltV S μ y)) * mixVT μ L S ν σ y g x := by
  unfold mixVT
  rcases lt_or_gt_of_ne hg with hneg | hpos
  · simp [gammaPDF_of_neg hneg]
  · have hx := dltV_nonneg L S hL hS μ x
    have hy := dltV_nonneg L S hL hS μ y
    have ha : 0 < gammaShape (d : ℝ) ν := gammaShapeD_pos ν hν
    unfold gammaPDF
    rw [← ENNReal.ofReal_mul (gammaPDFReal_nonneg ha (rateV_pos μ L S ν x hν hL hS) g),
      ← ENNReal.ofReal_mul (gammaPDFReal_nonneg ha (rateV_pos μ L S ν y hν hL hS) g),
      ← ENNReal.ofReal_mul (tker_pos d ν _ hν hx).le, ← ENNReal.ofReal_mul (tker_pos d ν _ hν hy).le,
      tpcn_mix_symm_real_vec μ L S ν σ x y g hpos hν hσ0 hσ1 hL hS]

/-- **the tpCN proposal density on ℝ^d is reversible w.r.t. the Student-t kernel of the mode** -/
theorem qVT_reversible (μ : V d) (L S : Matrix (Fin d) (Fin d) ℝ) (ν σ : ℝ) (x y : V d) (hν : 0 < ν) (hσ0 : 0 < σ)
    (hσ1 : σ < 1) (hL : L.det ≠ 0) (hS : S = (L * Lᵀ)⁻¹) :
    ENNReal.ofReal (tker d ν (dltV S μ x)) * qVT μ L S ν σ x y
      = ENNReal.ofReal (tker d ν (dltV S μ y)) * qVT μ L S ν σ y x := by
  unfold qVT
  have hmx : Measurable fun g => mixVT μ L S ν σ x g y :=
    (measurable_mixVT μ L S ν σ).comp (f := fun g : ℝ => ((x, y), g)) (measurable_const.prodMk measurable_id)
  have hmy : Measurable fun g => mixVT μ L S ν σ y g x :=
    (measurable_mixVT μ L S ν σ).comp (f := fun g : ℝ => ((y, x), g)) (measurable_const.prodMk measurable_id)
  rw [← lintegral_const_mul _ hmx, ← lintegral_const_mul _ hmy]
  have hae : ∀ᵐ g ∂(volume : Measure ℝ), g ≠ 0 := by
    rw [ae_iff]; simp
  exact lintegral_congr_ae (hae.mono fun g hg => mixVT_reversible μ L S ν σ x y g hg hν hσ0 hσ1 hL hS)

theorem lintegral_qVT (μ : V d) (L S : Matrix (Fin d) (Fin d) ℝ) (ν σ : ℝ) (x : V d) (hν : 0 < ν) (hσ : σ ≠ 0)
    (hL : L.det ≠ 0) (hS : S = (L * Lᵀ)⁻¹) : ∫⁻ y, qVT μ L S ν σ x y = 1 := by
  have := isProbabilityMeasure_gammaMeasure (gammaShapeD_pos (d := d) ν hν) (rateV_pos μ L S ν x hν hL hS)
  have hp : IsProbabilityMeasure (tapeVT S μ ν x) := by unfold tapeVT; infer_instance
  have h1 : (volume.withDensity (qVT μ L S ν σ x)) univ = 1 := by
    rw [← tpcn_candidate_law_vec μ L S ν σ x hL hσ,
      Measure.map_apply (measurable_candVT_pair μ L σ x) MeasurableSet.univ]
    simp
  rwa [withDensity_apply _ MeasurableSet.univ, Measure.restrict_univ] at h1

/-- the model's tpCN acceptance ratio is the Metropolis–Hastings ratio with the Student-t reference weight -/
theorem accVT_ratio (ℓ : V d → ℝ) (μ : V d) (L S : Matrix (Fin d) (Fin d) ℝ) (ν β : ℝ) (x c : V d) (hν : 0 < ν)
    (hL : L.det ≠ 0) (hS : S = (L * Lᵀ)⁻¹) :
    exp (β * (ℓ c - ℓ x) + tpcnLogFactor (d : ℝ) ν (dltV S μ x) (dltV S μ c))
      = exp (β * ℓ c) * tker d ν (dltV S μ x) / (exp (β * ℓ x) * tker d ν (dltV S μ c)) := by
  have hx := dltV_nonneg L S hL hS μ x
  have hc := dltV_nonneg L S hL hS μ c
  simp only [tpcnLogFactor, ScReal.add_def, ScReal.neg_def]
  rw [← exp_logT d ν _ hν hx, ← exp_logT d ν _ hν hc, ← exp_add, ← exp_add, ← exp_sub]
  congr 1; ring

theorem measurable_accVT {ℓ : V d → ℝ} (hℓ : Measurable ℓ) (μ : V d) (S : Matrix (Fin d) (Fin d) ℝ) (ν β : ℝ) :
    Measurable (Function.uncurry (accVT ℓ μ S ν β)) := by
  unfold accVT Function.uncurry
  refine Measurable.ite (measurable_snd measurableSet_cube) ?_ measurable_const
  refine measurable_const.min (measurable_exp.comp (Measurable.add ?_ ?_))
  · exact measurable_const.mul ((hℓ.comp measurable_snd).sub (hℓ.comp measurable_fst))
  · have h1 : Measurable fun p : V d × V d => dltV S μ p.1 := (measurable_dltV S μ).comp measurable_fst
    have h2 : Measurable fun p : V d × V d => dltV S μ p.2 := (measurable_dltV S μ).comp measurable_snd
    simp only [tpcnLogFactor, logT, ScReal.add_def, ScReal.neg_def, ScReal.mul_def, ScReal.lit_def, ScReal.log_def,
      ScReal.one_def, ScReal.div_def]
    fun_prop

/-- the law of the new state of one tpCN step of the closed list model (dimension d, hard walls) from the point `x` -/
noncomputable def tpcnLawV (ℓ : V d → ℝ) (μ : V d) (L S : Matrix (Fin d) (Fin d) ℝ) (ν σ β : ℝ) (x : V d) : Measure (V d) :=
  ((tapeVT S μ ν x).prod unif).map fun w => newStateV .tpcn ℓ μ L S ν σ β x w.1.1 w.1.2 w.2

/-- sub-density of the tpCN kernel -/
noncomputable def tpcnSubV (ℓ : V d → ℝ) (μ : V d) (L S : Matrix (Fin d) (Fin d) ℝ) (ν σ β : ℝ) (x y : V d) : ℝ≥0∞ :=
  qVT μ L S ν σ x y * ENNReal.ofReal (accVT ℓ μ S ν β x y)

theorem tpcnLawV_eq_mhKernel {ℓ : V d → ℝ} (hℓ : Measurable ℓ) (μ : V d) (L S : Matrix (Fin d) (Fin d) ℝ) (ν σ β : ℝ)
    (hν : 0 < ν) (hσ : σ ≠ 0) (hL : L.det ≠ 0) (hS : S = (L * Lᵀ)⁻¹) (x : V d) :
    tpcnLawV ℓ μ L S ν σ β x = mhKernel volume (tpcnSubV ℓ μ L S ν σ β) x := by
  have := isProbabilityMeasure_gammaMeasure (gammaShapeD_pos (d := d) ν hν) (rateV_pos μ L S ν x hν hL hS)
  have hp : IsProbabilityMeasure (tapeVT S μ ν x) := by unfold tapeVT; infer_instance
  unfold tpcnLawV
  rw [tapeStep_law (tapeVT S μ ν x) (c := fun t => candVT μ L σ x t.1 t.2) (measurable_candVT_pair μ L σ x) x
    ((measurable_accVT hℓ μ S ν β).of_uncurry_left)
    (fun t r hr => newStateV_eq_tpcn ℓ μ L S ν σ β x t.1 t.2 r hr),
    tpcn_candidate_law_vec μ L S ν σ x hL hσ]
  exact acceptReject_eq_mhKernel volume (q := qVT μ L S ν σ) (measurable_qVT μ L S ν σ)
    (fun x => lintegral_qVT μ L S ν σ x hν hσ hL hS) (measurable_accVT hℓ μ S ν β) (accVT_nonneg ℓ μ S ν β)
    (accVT_le_one ℓ μ S ν β) x

theorem tpcnSubV_detailed_balance (ℓ : V d → ℝ) (μ : V d) (L S : Matrix (Fin d) (Fin d) ℝ) (ν σ β : ℝ) (x y : V d)
    (hν : 0 < ν) (hσ0 : 0 < σ) (hσ1 : σ < 1) (hL : L.det ≠ 0) (hS : S = (L * Lᵀ)⁻¹) :
    ENNReal.ofReal ((cube d).indicator (fun x => exp (β * ℓ x)) x) * tpcnSubV ℓ μ L S ν σ β x y
      = ENNReal.ofReal ((cube d).indicator (fun x => exp (β * ℓ x)) y) * tpcnSubV ℓ μ L S ν σ β y x := by
  unfold tpcnSubV accVT
  by_cases hx : x ∈ cube d <;> by_cases hy : y ∈ cube d
  · simp only [hx, hy, indicator_of_mem, if_true]
    rw [accVT_ratio ℓ μ L S ν β x y hν hL hS, accVT_ratio ℓ μ L S ν β y x hν hL hS]
    exact mh_flow_symm _ _ _ _ (exp_pos _) (exp_pos _) (tker_pos d ν _ hν (dltV_nonneg L S hL hS μ x))
      (tker_pos d ν _ hν (dltV_nonneg L S hL hS μ y)) _ _ (qVT_reversible μ L S ν σ x y hν hσ0 hσ1 hL hS)
  · simp [hx, hy]
  · simp [hx, hy]
  · simp [hx, hy]

/-- **tpCN, any dimension, hard walls: the law of the model's step leaves the tempered target invariant** — for every
    measurable log-likelihood on ℝ^d, every β, every mode (mean μ, invertible Cholesky factor `L` with `inv_cov = (L Lᵀ)⁻¹`, dof
    ν > 0) and every step size 0 < σ < 1.  The tapes carry Mathlib's `gammaMeasure` (with the shape and 1/scale the model hands
    to `np.random.gamma`), the product of `d` standard normals and the uniform law on [0,1). -/
theorem C03_tpcn_step_law_invariant {ℓ : V d → ℝ} (hℓ : Measurable ℓ) (μ : V d) (L S : Matrix (Fin d) (Fin d) ℝ)
    (ν σ β : ℝ) (hν : 0 < ν) (hσ0 : 0 < σ) (hσ1 : σ < 1) (hL : L.det ≠ 0) (hS : S = (L * Lᵀ)⁻¹) :
    (targetV ℓ β).bind (tpcnLawV ℓ μ L S ν σ β) = targetV ℓ β := by
  have hfun : tpcnLawV ℓ μ L S ν σ β = ⇑(mhKernel volume (tpcnSubV ℓ μ L S ν σ β)) :=
    funext fun x => tpcnLawV_eq_mhKernel hℓ μ L S ν σ β hν hσ0.ne' hL hS x
  have hk : Measurable (Function.uncurry (tpcnSubV ℓ μ L S ν σ β)) :=
    (measurable_qVT μ L S ν σ).mul (ENNReal.measurable_ofReal.comp (measurable_accVT hℓ μ S ν β))
  have hp : Measurable fun x => ENNReal.ofReal ((cube d).indicator (fun x => exp (β * ℓ x)) x) :=
    ENNReal.measurable_ofReal.comp ((measurable_exp.comp (measurable_const.mul hℓ)).indicator measurableSet_cube)
  rw [hfun]
  exact mhKernel_invariant volume hk
    (moveMass_le_one volume (fun x => lintegral_qVT μ L S ν σ x hν hσ0.ne' hL hS) (accVT_le_one ℓ μ S ν β)) hp
    (fun x y => tpcnSubV_detailed_balance ℓ μ L S ν σ β x y hν hσ0 hσ1 hL hS)

end Reversible

/-- the gamma law of `tapeVT` is the one the list model asks `np.random.gamma` for: `shape` and `scale` fields of the step -/
theorem closedStep_tpcn_gamma_vec (ℓ : V d → ℝ) (μ : V d) (L S : Matrix (Fin d) (Fin d) ℝ) (ν σ β lx lp : ℝ) (x : V d)
    (g : ℝ) (z : V d) (r : ℝ) :
    (closedStep (liftLV ℓ) (inD .tpcn μ L S ν σ β lx lp x g z r)).shape = gammaShape (d : ℝ) ν ∧
    (closedStep (liftLV ℓ) (inD .tpcn μ L S ν σ β lx lp x g z r)).scale = gammaScale ν (dltV S μ x) := by
  simp [closedStep, step, inD, finish, qform_vec]

/-- Mathlib's `gammaMeasure a r` is parametrised by the RATE: `rateV = 1 / scale` -/
theorem rateV_eq_inv_scale (S : Matrix (Fin d) (Fin d) ℝ) (μ : V d) (ν : ℝ) (x : V d) :
    rateV S μ ν x = 1 / gammaScale ν (dltV S μ x) := by
  rw [model_gammaScale]; unfold rateV; rw [one_div_div]

/-- the lower clip `σ = 0` of tpCN (`np.clip(…, 0, …)`): the candidate is the current point, so the step is the identity for
    every tape — every law is invariant (the case excluded by `0 < σ` above) -/
theorem C03_tpcn_sigma_zero_identity (ℓ : V d → ℝ) (μ : V d) (L S : Matrix (Fin d) (Fin d) ℝ) (ν β : ℝ) (x : V d) (g : ℝ)
    (z : V d) (r : ℝ) (hr : 0 ≤ r) : newStateV .tpcn ℓ μ L S ν 0 β x g z r = x := by
  rw [newStateV_eq_tpcn ℓ μ L S ν 0 β x g z r hr]
  have hc : candVT μ L 0 x g z = x := by
    unfold candVT; simp
  unfold acceptReject
  simp only [hc]
  split <;> rfl

/-! ### non-vacuity: d = 2, correlated mode -/

/-- `L = [[1/5, 0], [1/10, 1/5]]` (so Σ = L Lᵀ is correlated), `S = (L Lᵀ)⁻¹`, ν = 5/2, σ = 1/2, tilted target -/
example : (targetV (fun x : V 2 => 3 * x 0 - x 1) (1 / 2)).bind
      (tpcnLawV (fun x : V 2 => 3 * x 0 - x 1) ![3 / 10, 1 / 2] !![1 / 5, 0; 1 / 10, 1 / 5]
        ((!![1 / 5, 0; 1 / 10, 1 / 5] * !![1 / 5, 0; 1 / 10, 1 / 5]ᵀ)⁻¹) (5 / 2) (1 / 2) (1 / 2))
    = targetV (fun x : V 2 => 3 * x 0 - x 1) (1 / 2) :=
  C03_tpcn_step_law_invariant (by fun_prop) _ _ _ _ _ _ (by norm_num) (by norm_num) (by norm_num)
    (by simp [Matrix.det_fin_two]) rfl

example : (targetV (fun x : V 2 => 3 * x 0 - x 1) 1).bind
      (rwmLawV (fun x : V 2 => 3 * x 0 - x 1) 0 !![1 / 5, 0; 1 / 10, 1 / 5] 1 3 (238 / 100) 1)
    = targetV (fun x : V 2 => 3 * x 0 - x 1) 1 :=
  C03_rwm_step_law_invariant (by fun_prop) _ _ _ _ _ _ (by simp [Matrix.det_fin_two]) (by norm_num)

end Props.C03
