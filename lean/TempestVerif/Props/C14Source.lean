import TempestVerif.Model.Modes
import TempestVerif.Model.Cadence
import TempestVerif.Model.CadenceX
import TempestVerif.Model.ModeGate
import TempestVerif.Model.TrainStep
import TempestVerif.Model.StudentModes
import TempestVerif.Model.Reweight
import TempestVerif.Gen.ModesSrc
/-
  C14 — the executable model (`Model/Modes.lean`, `Model/Cadence.lean`, `Model/CadenceX.lean`, `Model/ModeGate.lean`,
  `Model/TrainStep.lean`, and the `Trainer.run` part of `Model/StudentModes.lean`) is built from the expressions that are in
  /repo's `tempest/modes.py`, `steps/train.py` and `steps/resample.py` NOW.

  `Gen/ModesSrc.lean` is regenerated from the source on every run of the check (translator G20, `translate/g20_modes.py`):
  a substituting evaluator reads `ModeStatistics.mode_index`, the label handling of `from_particles`, the gate of
  `ModeStatistics.__init__`, `Trainer.run` and `Resampler.run` and compiles every index expression, comparison, literal and
  branch condition to a term over `Nat` / `List Nat` / `Bool` / `Sc α` and the numpy vocabulary `Model/NpModes.lean`
  (namespace `NpL`), plus the effects (clusterer calls, trimming, constructors, state writes, raises) in program order with
  their path conditions.  The theorems below say that the hand-written model IS these terms: by `rfl` wherever model and source
  have the same form, by a two-line argument about `Nat` / `Bool` / `List` where they differ in form but not in value
  (`min x h` versus `clip x 0 h`, `if p == q then i else n` versus `if p != q then n else i`, a fused `zipWith` versus
  `map ∘ zipWith`, `∧` of two `decide`s versus a comparison of shape lists) — such a statement holds for every input and every
  scalar type (`Float`, which the driver executes, included) and assumes nothing.  A change of a literal, an operator, an operand
  order, a comparison, a branch condition, the order / arguments / path condition of an effect changes the generated file and
  breaks the theorem named after the definition.
-/
namespace Props.C14.Src
open Model.Modes Gen.ModesSrc

/-! ### `ModeStatistics.mode_index` -/

/-- `np.clip(x, 0, h)` on indices is `min x h` -/
theorem clip_zero (x h : Nat) : NpL.clip x 0 h = min x h := by simp [NpL.clip]

/-- `index = np.clip(np.searchsorted(self.labels, assignments), 0, self.K - 1)` with `K` = the number of stored labels -/
theorem C14_src_index0 (stored : List Nat) (a : Nat) :
    min (searchsorted stored a) (stored.length - 1) = miIndex0 stored stored.length a := by
  simp [miIndex0, NpL.clip]

/-- `missing = self.labels[index] != assignments` is the negation of the model's test -/
theorem C14_src_missing (stored : List Nat) (i a : Nat) : (stored[i]? == some a) = !(miMissing stored i a) := by
  simp [miMissing, bne]

/-- `mode_index`, first component, `self.labels` stored: clip of searchsorted, masked store of the nearest mode -/
theorem C14_src_modeIndex (stored : List Nat) (nearest a : Nat) :
    modeIndex stored nearest a = miIndex stored stored.length nearest a := by
  simp only [modeIndex, miIndex, ← C14_src_index0, C14_src_missing]
  cases miMissing stored (min (searchsorted stored a) (stored.length - 1)) a <;> rfl

/-- the same with the fallback inside the model: `np.argmin(dist, axis=1)` of the particle's row, only where `missing` -/
theorem C14_src_modeIndexD {α : Type} [ScT α] (stored : List Nat) (drow : List α) (a : Nat) :
    modeIndexD stored drow a =
      (let i := miIndex0 stored stored.length a
       if miMissing stored i a then miNearest drow else some i) := by
  simp only [modeIndexD, miNearest, ← C14_src_index0, C14_src_missing]
  cases miMissing stored (min (searchsorted stored a) (stored.length - 1)) a <;> rfl

/-- `if self.labels is None: return assignments, assignments`; otherwise the index above -/
theorem C14_src_modeIndexOpt (stored : Option (List Nat)) (nearest a : Nat) :
    modeIndexOpt stored nearest a =
      (match stored with
       | none => (miNoLabels a).1
       | some st => (miResult st st.length nearest a).1) := by
  cases stored with
  | none => rfl
  | some st => exact C14_src_modeIndex st nearest a

/-- the pair returned on the `labels is None` path is the assignment twice -/
theorem C14_src_noLabels (a : Nat) : miNoLabels a = (a, some a) := rfl

/-- second component `self.labels[index]` (what `Mutator.run` writes back), taken at the index RETURNED -/
theorem C14_src_relabel (stored : List Nat) (nearest a : Nat) :
    relabel stored nearest a = (miResult stored stored.length nearest a).2 := by
  simp only [relabel, miResult, miLabel, C14_src_modeIndex]

/-- the rows of `u` whose distances are computed are selected by the mask the store uses -/
theorem C14_src_masks : miRowMask = miStoreMask := rfl

/-- `ModeStatistics.K` (read by `np.clip(…, 0, self.K - 1)`) is the number of rows of `means` -/
theorem C14_src_K : kDef = ["self.means.shape[0]"] := rfl

/-- the distances whose `argmin` is taken: `np.linalg.norm(u[:, None, :] - means[None, :, :], axis=2)`; the model's squared
    distances are these before the square root (operand order `u − mean` included) -/
theorem C14_src_distRow {α : Type} [ScT α] (means : List (List α)) (u : List α) :
    miDistRow means u = (Model.TrainStep.sqDistRow means u).map ScT.sqrt := by
  simp [miDistRow, Model.TrainStep.sqDistRow, Model.TrainStep.sqDist, NpL.norm, NpL.sumSq, List.map_zipWith]

/-- `Model.TrainStep.mapIndex` (the `mode_index` call of `Mutator.run` for all active particles) on the generated terms -/
theorem C14_src_mapIndex_cons {P α : Type} [ScT α] (stored : List Nat) (dist : P → List α) (u : P) (us : List P) (a : Nat)
    (as : List Nat) :
    Model.TrainStep.mapIndex stored dist (u :: us) (a :: as) =
      (match (let i := miIndex0 stored stored.length a
              if miMissing stored i a then miNearest (dist u) else some i),
             Model.TrainStep.mapIndex stored dist us as with
       | some i, some r => (miLabel stored i).map fun l => ⟨u, a, i, l⟩ :: r
       | _, _ => none) := by
  rw [Model.TrainStep.mapIndex, C14_src_modeIndexD]; rfl

/-! ### label handling of `ModeStatistics.from_particles` -/

/-- `for label in np.unique(labels)`: `idx_cluster = np.where(labels == label)[0]`, one mode appended per pass -/
theorem C14_src_fromParticles (labels : List Nat) : fromParticles labels = fpModes labels := rfl

/-- `labels=unique_labels` of the constructor call is what the loop ran over -/
theorem C14_src_labelsOf (labels : List Nat) :
    labelsOf labels = fpLoopLabels labels ∧ some (labelsOf labels) = fpStored labels := ⟨rfl, rfl⟩

/-- the three constructor arguments are filled once per pass of the same loop: `K` = number of distinct labels present =
    number of stored labels (which is why `self.K - 1` in `mode_index` is `stored.length - 1`) -/
theorem C14_src_ctorArgs (labels : List Nat) :
    fpMeansOver labels = fpLoopLabels labels ∧ fpCovsOver labels = fpLoopLabels labels ∧ fpDofsOver labels = fpLoopLabels labels ∧
    fpStored labels = some (fpMeansOver labels) := ⟨rfl, rfl, rfl, rfl⟩

theorem C14_src_numModes (labels : List Nat) :
    numModes labels = (fpMeansOver labels).length ∧ numModes labels = (labelsOf labels).length := by
  simp [numModes, fromParticles, fpMeansOver, labelsOf]

/-- which rows each fit is fed (`Model.Modes.fitInput`: the tape indexes the MEMBERS of the mode, drawn from
    `range(len(members))`), and what each pass appends -/
def expected_fpFitFlow : List String :=
  ["r0 = np.random.choice(len(u[MEMBERS]), size=len(u[MEMBERS]) * resample_factor, replace=True, p=(weights / np.sum(weights))[MEMBERS] / np.sum((weights / np.sum(weights))[MEMBERS]))",
   "r1 = fit_mvstud(u[MEMBERS][r0])",
   "append: r1[0]",
   "append: r1[1]",
   "append: dof_fallback if ~np.isfinite(r1[2]) else r1[2]"]

theorem C14_src_fitFlow : fpFitFlow = expected_fpFitFlow := rfl

/-! ### the gate of `ModeStatistics.__init__` (on array shapes) -/

/-- `K` modes of dimension `d`: the constructor passes the shape checks iff there are as many covariances and degrees of
    freedom as means -/
theorem C14_src_initGate (K d kc kd : Nat) :
    initGate [K, d] [kc, d, d] [kd] = decide (kc = K ∧ kd = K) := by
  simp [initGate, initMeansShape, initCovShape, initDofShape]
  by_cases h1 : kc = K <;> by_cases h2 : kd = K <;> simp [h1, h2]

/-- no label at all (`np.array([])` three times, shape `(0,)`): `means` becomes `(1, 0)` and the covariance check raises -/
theorem C14_src_initGate_empty : initGate [0] [0] [0] = false := by decide

/-- `Model.Modes.mkModeStats`: the shape gate, then `np.linalg.inv`, then `np.linalg.cholesky` of every covariance -/
theorem C14_src_mkModeStats {V M D : Type} (inv? cholesky? : M → Option M) (means : List V) (covs : List M) (dofs : List D)
    (d : Nat) :
    (mkModeStats inv? cholesky? means covs dofs).isSome =
      (initGate [means.length, d] [covs.length, d, d] [dofs.length] && (mapOpt inv? covs).isSome && (mapOpt cholesky? covs).isSome) := by
  rw [C14_src_initGate]
  unfold mkModeStats
  by_cases h : covs.length = means.length ∧ dofs.length = means.length
  · simp only [h, and_self, if_true, decide_true, Bool.true_and]
    cases mapOpt inv? covs <;> cases mapOpt cholesky? covs <;> rfl
  · simp [h]

/-- the shape `np.array` gives a list of `n` arrays of shape `s` -/
def npArrayShape (n : Nat) (s : List Nat) : List Nat := if n = 0 then [0] else n :: s

/-- `Model.ModeGate.construct` (dimension `d ≥ 1`): `K = 0` raises, otherwise the length checks and the inverses -/
theorem C14_src_construct {α : Type} [Sc α] (ms : Model.StudentModes.MS α) (d : Nat) (hd : 0 < d) :
    (Model.ModeGate.construct ms).isSome =
      (initGate (npArrayShape ms.means.length [d]) (npArrayShape ms.covs.length [d, d]) [ms.dofs.length]
        && (mapOpt Model.Student.inv ms.covs).isSome) := by
  unfold Model.ModeGate.construct npArrayShape
  by_cases h0 : ms.means.length = 0
  · have : d ≠ 0 := by omega
    by_cases hc : ms.covs.length = 0 <;>
      simp [h0, hc, initGate, initMeansShape, initCovShape, initDofShape, NpL.numel, this]
  · by_cases hc : ms.covs.length = 0
    · have : ¬ (0 = ms.means.length) := fun h => h0 h.symm
      simp [h0, hc, initGate, initMeansShape, initCovShape, initDofShape, this]
    · simp only [h0, hc, if_false, C14_src_initGate]
      by_cases h : ms.covs.length = ms.means.length ∧ ms.dofs.length = ms.means.length
      · simp [h]
      · simp [h]

def expected_initEffects : List String :=
  ["C0 := self.means.ndim == 1",
   "C1 := self.covariances.ndim == 2",
   "C2 := self.degrees_of_freedom.ndim == 0",
   "C3 := self.covariances.shape != (self.means.shape[0], self.means.shape[1], self.means.shape[1])",
   "C4 := self.degrees_of_freedom.shape != (self.means.shape[0],)",
   "self.means := means",
   "self.covariances := covariances",
   "self.degrees_of_freedom := degrees_of_freedom",
   "self.labels := None if labels is None else labels",
   "[C0] self.means := self.means.reshape(1, -1)",
   "[C1] self.covariances := self.covariances.reshape(1, *self.covariances.shape)",
   "[C2] self.degrees_of_freedom := np.array([self.degrees_of_freedom])",
   "[C3] raise ValueError",
   "[!C3 C4] raise ValueError",
   "[!C3 !C4] self.inv_covariances := np.linalg.inv(self.covariances)",
   "[!C3 !C4] self.chol_covariances := np.linalg.cholesky(self.covariances)"]

/-- program order of the constructor: attribute writes, the three `ndim` fix-ups, the two raises, then `inv` and `cholesky`
    of `self.covariances` — both only when no check raised -/
theorem C14_src_initEffects : initEffects = expected_initEffects := rfl

/-! ### `Trainer.run`

  The behaviour of the method is generated as a FUNCTION OF THE ATOMIC CONDITIONS of all its branch tests (`trAtoms`, sorted by
  their text; `trAtom0 …` compiled): `trTraceId` is the reduced decision tree telling which of the distinct TRACES
  (`trTrace0 …`: the effects in program order under one valuation, conditional expressions resolved, events renumbered) runs.
  A restructuring of the `if / elif / else` that keeps the behaviour regenerates the same tree and the same traces. -/

theorem C14_src_trAtoms :
    trAtoms = ["self._clusterer_fitted",
               "self.clustering",
               "self.state.get_current('beta') == 0.0",
               "self.state.get_current('iter') % self.cluster_every == 0",
               "self.state.get_current('iter') == 0"] := rfl

/-- the atomic conditions as terms: the Trainer's flag, `self.clustering`, `beta == 0.0` (`Model.Reweight.eqv`, the test the
    closed-loop model uses), and the two halves of the cadence test `Model.Cadence.onCadence` -/
theorem C14_src_trAtomDefs {α : Type} [ScT α] (beta : α) (cl : Bool) (iter ce : Nat) (f : Bool) :
    trAtom0 beta cl iter ce f = f ∧ trAtom1 beta cl iter ce f = cl ∧
    trAtom2 beta cl iter ce f = Model.Reweight.eqv beta Sc.zero ∧
    trAtom3 beta cl iter ce f = (iter % ce == 0) ∧ trAtom4 beta cl iter ce f = (iter == 0) := ⟨rfl, rfl, rfl, rfl, rfl⟩

def expected_trTrace0 : List String :=
  ["r0 = trim_weights(np.arange(len(weights)), weights, ess=self.TRIM_ESS, bins=self.TRIM_BINS)",
   "r1 = ModeStatistics.from_global(self.state.get_history('u', flat=True)[r0[0]], r0[1], dof_fallback=self.DOF_FALLBACK)",
   "return r1"]

def expected_trTrace1 : List String :=
  ["r0 = ModeStatistics(means=np.zeros((1, self.state.n_dim)), covariances=np.eye(self.state.n_dim).reshape(1, self.state.n_dim, self.state.n_dim), degrees_of_freedom=np.array([self.DOF_FALLBACK]))",
   "return r0"]

def expected_trTrace2 : List String :=
  ["r0 = trim_weights(np.arange(len(weights)), weights, ess=self.TRIM_ESS, bins=self.TRIM_BINS)",
   "self.clusterer.fit(self.state.get_history('u', flat=True)[r0[0]], r0[1])",
   "self._clusterer_fitted := True",
   "r1 = self.clusterer.predict(self.state.get_history('u', flat=True)[r0[0]])",
   "r2 = ModeStatistics.from_particles(self.state.get_history('u', flat=True)[r0[0]], r0[1], r1, dof_fallback=self.DOF_FALLBACK)",
   "return r2"]

def expected_trTrace3 : List String :=
  ["r0 = trim_weights(np.arange(len(weights)), weights, ess=self.TRIM_ESS, bins=self.TRIM_BINS)",
   "r1 = self.clusterer.predict(self.state.get_history('u', flat=True)[r0[0]])",
   "r2 = ModeStatistics.from_particles(self.state.get_history('u', flat=True)[r0[0]], r0[1], r1, dof_fallback=self.DOF_FALLBACK)",
   "return r2"]

/-- the four things `Trainer.run` can do — the data flow `Model.TrainStep.annealIter` / `annealCore` was written against:
    0 (no clustering) trim, `from_global(history[kept], trimmed weights)`;  1 (`beta == 0`) nothing but the constructor;
    2 trim FIRST, `fit(u, trimmed weights)` on the pool `u = history[kept]`, the flag, `predict(u)` on the SAME pool,
    `from_particles(u, trimmed weights, labels)`;  3 the same without `fit` and the flag.  The object built is returned. -/
theorem C14_src_trTraces :
    trTraceCount = ["4"] ∧ trTrace0 = expected_trTrace0 ∧ trTrace1 = expected_trTrace1 ∧ trTrace2 = expected_trTrace2 ∧
    trTrace3 = expected_trTrace3 := ⟨rfl, rfl, rfl, rfl, rfl⟩

/-- the clusterer calls of each trace, in order: `fit` BEFORE `predict` -/
theorem C14_src_trClusterer :
    trClusterer0 = [] ∧ trClusterer1 = [] ∧ trClusterer2 = ["fit", "predict"] ∧ trClusterer3 = ["predict"] := ⟨rfl, rfl, rfl, rfl⟩

/-- which path of the model a trace is (read off the tables above) -/
def pathOfTrace : Nat → Option Model.StudentModes.Path
  | 0 => some .global
  | 1 => some .dummy
  | 2 => some .fitPredict
  | 3 => some .predictOnly
  | _ => none

/-- the `if / elif / else` of `Trainer.run` (`Model.StudentModes.trainerPath`) is the generated decision tree -/
theorem C14_src_trainerPath (betaZero clustering a b fitted : Bool) :
    some (Model.StudentModes.trainerPath betaZero clustering (a || b) fitted) =
      pathOfTrace (trTraceId fitted clustering betaZero a b) := by
  cases betaZero <;> cases clustering <;> cases a <;> cases b <;> cases fitted <;> rfl

/-- the same on the inputs of the method -/
theorem C14_src_trainerPath_inputs {α : Type} [ScT α] (beta : α) (clustering fitted : Bool) (iter ce : Nat) :
    some (Model.StudentModes.trainerPath (Model.Reweight.eqv beta Sc.zero) clustering (iter % ce == 0 || iter == 0) fitted) =
      pathOfTrace (trTraceOf beta clustering iter ce fitted) :=
  C14_src_trainerPath _ _ _ _ _

/-- `Model.TrainStep.mustFit` (clustering on, `beta > 0`): exactly when the fitting trace runs -/
theorem C14_src_mustFit (ce : Nat) (flag : Bool) (iter : Nat) :
    Model.TrainStep.mustFit ce flag iter = (trTraceId flag true false (iter % ce == 0) (iter == 0) == 2) := by
  unfold Model.TrainStep.mustFit
  generalize (iter % ce == 0) = a
  generalize (iter == 0) = b
  cases a <;> cases b <;> cases flag <;> rfl

/-- the clusterer calls of a trace as events of `Model.Cadence` -/
def cadenceEvents (calls : List String) : List Model.Cadence.Event :=
  calls.filterMap fun c => if c = "fit" then some .fit else if c = "predict" then some .predict else none

def trClustererOf : Nat → List String
  | 0 => trClusterer0 | 1 => trClusterer1 | 2 => trClusterer2 | 3 => trClusterer3 | _ => []

/-- the three-way branch of the two cadence models on abstract cadence bits -/
theorem trainer_core {σ : Type} (cl warm flag a b : Bool) (s0 X Y : σ) :
    (if warm then s0 else if (cl && ((a || b) || !flag)) then X else if (cl && !(a || b)) then Y else s0) =
      (if trTraceId flag cl warm a b = 2 then X else if trTraceId flag cl warm a b = 3 then Y else s0) := by
  cases cl <;> cases warm <;> cases flag <;> cases a <;> cases b <;> rfl

/-- `Model.Cadence.trainer` (the code as it is now: `useFlag = true`): branch by the generated tree; the fitting trace fits,
    sets the flag, predicts; the predict-only trace predicts; the other two touch nothing -/
theorem C14_src_cadenceTrainer (ce : Nat) (cl warm : Bool) (s : Model.Cadence.St) :
    Model.Cadence.trainer ⟨ce, cl, true⟩ warm s =
      (if trTraceId s.flag cl warm (s.iter % ce == 0) (s.iter == 0) = 2 then
         Model.Cadence.emitPredict { Model.Cadence.emitFit s with flag := true }
       else if trTraceId s.flag cl warm (s.iter % ce == 0) (s.iter == 0) = 3 then Model.Cadence.emitPredict s
       else s) :=
  trainer_core cl warm s.flag (s.iter % ce == 0) (s.iter == 0) s _ _

/-- … and the events it appends are the clusterer calls of the trace, in the order of the source -/
theorem C14_src_cadenceTrainer_events (ce : Nat) (cl warm : Bool) (s : Model.Cadence.St) :
    (Model.Cadence.trainer ⟨ce, cl, true⟩ warm s).trace =
      s.trace ++ cadenceEvents (trClustererOf (trTraceId s.flag cl warm (s.iter % ce == 0) (s.iter == 0))) := by
  rw [C14_src_cadenceTrainer]
  generalize (s.iter % ce == 0) = a
  generalize (s.iter == 0) = b
  obtain ⟨iter, flag, clf, tr, v⟩ := s
  cases a <;> cases b <;> cases flag <;> cases cl <;> cases warm <;> cases clf <;>
    simp [Model.Cadence.emitPredict, Model.Cadence.emitFit, trTraceId, trClustererOf, cadenceEvents, trClusterer0, trClusterer1,
      trClusterer2, trClusterer3]

/-- `Model.CadenceX.trainer` likewise -/
theorem C14_src_cadenceXTrainer (ce : Nat) (cl warm : Bool) (s : Model.CadenceX.St) :
    Model.CadenceX.trainer ⟨ce, cl⟩ warm s =
      (if trTraceId s.flag cl warm (s.iter % ce == 0) (s.iter == 0) = 2 then
         Model.CadenceX.emitPredict { Model.CadenceX.emitFit s with flag := true }
       else if trTraceId s.flag cl warm (s.iter % ce == 0) (s.iter == 0) = 3 then Model.CadenceX.emitPredict s
       else s) :=
  trainer_core cl warm s.flag (s.iter % ce == 0) (s.iter == 0) s _ _

/-- the object returned at `beta == 0`: one mode, zero mean, identity scale, `[self.DOF_FALLBACK]`, no labels -/
theorem C14_src_dummy {α : Type} [ScT α] (fitFns : List (Model.Student.Mat α → Option (Model.StudentModes.FitOut α))) (d : Nat)
    (u : Model.Student.Mat α) (w : List α) (labels : List Nat) (cfgFb : α) (us : List α) :
    Model.StudentModes.trainerRun .dummy fitFns d u w labels cfgFb us =
      .ok ⟨trDummyMeans d, trDummyCovs d, (trDummyDofs cfgFb).map .fin, trDummyLabels⟩ := rfl

/-- … and it passes the shape gate of the constructor for every dimension -/
theorem C14_src_dummy_gate (d : Nat) : initGate [1, d] [1, d, d] [1] = true := by
  rw [C14_src_initGate]; simp

/-! ### `Resampler.run`: the `assignments` hand-off (rows about `assignments`, `current['u']`, the clusterer, and the events
  they refer to) -/

theorem C14_src_rsAtoms :
    rsAtoms = ["self.clustering", "self.resample == 'mult'", "self.resample == 'syst'",
               "self.state.get_current('beta') == 0.0"] := rfl

/-- the skip test of `Resampler.run` is the SAME term as `Trainer.run`'s: one flag `warm` serves both steps in
    `Model.Cadence` / `Model.CadenceX` / `Model.TrainStep` -/
theorem C14_src_rsAtomDefs {α : Type} [ScT α] (beta : α) (cl mult syst f : Bool) (iter ce : Nat) :
    rsAtom0 beta cl mult syst = cl ∧ rsAtom1 beta cl mult syst = mult ∧ rsAtom2 beta cl mult syst = syst ∧
    rsAtom3 beta cl mult syst = trAtom2 beta cl iter ce f := ⟨rfl, rfl, rfl, rfl⟩

def expected_rsTrace1 : List String :=
  ["current['assignments'] := np.zeros(self.n_particles, dtype=int)",
   "return None"]

def expected_rsTrace2 : List String :=
  ["r0 = systematic_resample(self.n_particles, weights=weights)",
   "current['u'] := self.state.get_history('u', flat=True)[r0]",
   "current['assignments'] := np.zeros(self.n_particles, dtype=int)"]

def expected_rsTrace3 : List String :=
  ["r0 = np.random.choice(np.arange(len(weights)), size=self.n_particles, replace=True, p=weights)",
   "current['u'] := self.state.get_history('u', flat=True)[r0]",
   "current['assignments'] := np.zeros(self.n_particles, dtype=int)"]

def expected_rsTrace5 : List String :=
  ["r0 = systematic_resample(self.n_particles, weights=weights)",
   "r1 = self.clusterer.predict(self.state.get_history('u', flat=True)[r0])",
   "current['u'] := self.state.get_history('u', flat=True)[r0]",
   "current['assignments'] := r1"]

def expected_rsTrace6 : List String :=
  ["r0 = np.random.choice(np.arange(len(weights)), size=self.n_particles, replace=True, p=weights)",
   "r1 = self.clusterer.predict(self.state.get_history('u', flat=True)[r0])",
   "current['u'] := self.state.get_history('u', flat=True)[r0]",
   "current['assignments'] := r1"]

/-- `assignments` is the RAW `predict` output of the shared clusterer on exactly the rows `history[idx]` that are written to
    `current['u']` (`Model.TrainStep.annealCore`: `cpredict f ures` with `ures = gather hist idx`), zeros without clustering and
    at `beta == 0` (where nothing else is written).  Traces 0 and 4 are the unreachable `self.resample ∉ {mult, syst}`. -/
theorem C14_src_rsTraces :
    rsTraceCount = ["7"] ∧ rsTrace1 = expected_rsTrace1 ∧ rsTrace2 = expected_rsTrace2 ∧ rsTrace3 = expected_rsTrace3 ∧
    rsTrace5 = expected_rsTrace5 ∧ rsTrace6 = expected_rsTrace6 := ⟨rfl, rfl, rfl, rfl, rfl, rfl⟩

theorem C14_src_rsClusterer :
    rsClusterer1 = [] ∧ rsClusterer2 = [] ∧ rsClusterer3 = [] ∧ rsClusterer5 = ["predict"] ∧ rsClusterer6 = ["predict"] :=
  ⟨rfl, rfl, rfl, rfl, rfl⟩

/-- does the trace call `predict`? (read off the tables above; a valid scheme: exactly one of `mult`, `syst`) -/
def rsPredicts : Nat → Bool
  | 5 => true | 6 => true | _ => false

/-- `Model.Cadence.resampler`: `predict` iff `beta != 0` and `self.clustering`, for both resampling schemes -/
theorem C14_src_cadenceResampler (c : Model.Cadence.Cfg) (warm mult : Bool) (s : Model.Cadence.St) :
    Model.Cadence.resampler c warm s =
      if s.verdict != .ok then s
      else if rsPredicts (rsTraceId c.clustering mult (!mult) warm) then Model.Cadence.emitPredict s else s := by
  unfold Model.Cadence.resampler
  cases c.clustering <;> cases mult <;> cases warm <;> rfl

theorem C14_src_cadenceXResampler (c : Model.CadenceX.Cfg) (warm mult : Bool) (s : Model.CadenceX.St) :
    Model.CadenceX.resampler c warm s =
      if s.verdict != .ok then s
      else if rsPredicts (rsTraceId c.clustering mult (!mult) warm) then Model.CadenceX.emitPredict s else s := by
  unfold Model.CadenceX.resampler
  cases c.clustering <;> cases mult <;> cases warm <;> rfl

/-! ### non-vacuity: the generated terms compute -/

example : miResult [0, 2, 5] 3 1 2 = (1, some 2) := by decide
example : miResult [0, 2, 5] 3 1 4 = (1, some 2) := by decide     -- label 4 has no mode: nearest (= 1) is used
example : miResult [0, 2, 5] 3 0 9 = (0, some 0) := by decide     -- out of range: clipped, then the fallback
example : fpModes [2, 0, 2, 5] = [[1], [0, 2], [3]] := by decide
example : initGate [3, 2] [3, 2, 2] [3] = true ∧ initGate [3, 2] [2, 2, 2] [3] = false ∧ initGate [2] [1, 2, 2] [] = true := by decide
example : trTraceId false true false false false = 2 ∧ trTraceId true true false false false = 3 ∧
    trTraceId true false false true true = 0 ∧ trTraceId true true true true true = 1 := by decide

end Props.C14.Src
