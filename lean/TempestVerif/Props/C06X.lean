import TempestVerif.Props.C06
import TempestVerif.Props.C06Loop
import TempestVerif.Model.ResampleX
/-
  C06, second pass (1): statements the first pass did not have.

    (the loop for every scalar type, `C06_syst_loop_spec`, is in `Props/C06Loop.lean`)
    zero weights      : C06_syst_zero_weight_never (systematic: EVERY index, every sum with a positive total — /repo 5a51476),
                        C06_syst_zero_weight_last_deficit (witness of the defect on the rule before that commit),
                        C06_mult_zero_weight_never
    distributions     : C06_mult_index_law (Lebesgue measure of {u : index = i} is w_i/Σw),
                        C06_syst_copies_law (copies_j = ⌊n·w_j⌋ + 1 on a set of offsets of measure frac(n·w_j), ⌊n·w_j⌋ elsewhere)
    numpy's validation: kahanSum_real, C06_choice_accepts_iff, C06_choice_valid (no hypothesis on the weights),
                        C06_choice_rejects, C06_choice_bias_bound
    call sites        : normaliseNp_real/_sum, weightsAtResampler_real, C06_iteration_skip, C06_iteration_syst_law,
                        C06_iteration_syst_unbiased, C06_iteration_mult_valid, C06_posterior_law_notrim, C06_posterior_law_trim
-/
namespace Props.C06
open Model.Resample Model.ResampleX MeasureTheory Lemmas.CeilComb


/-! ### zero-weight particles are never selected -/

/-- with a positive total the capping index has positive weight -/
theorem lastPositive_pos (v : List ℝ) (hv : ∀ x ∈ v, 0 ≤ x) (hpos : 0 < v.sum) :
    ∃ h : lastPositive v < v.length, 0 < v[lastPositive v] := by
  cases hl : lastPos? v with
  | none =>
    exfalso
    have hz : ∀ x ∈ v, x = 0 := by
      intro x hx
      have h1 : ¬ (0 : ℝ) < x := by simpa [Sc.gt] using lastPos?_none v hl x hx
      exact le_antisymm (not_lt.mp h1) (hv x hx)
    have : v.sum = 0 := List.sum_eq_zero hz
    linarith
  | some k =>
    obtain ⟨hk, ⟨x, hx, hxpos⟩, _⟩ := lastPos?_some v k hl
    have hL : lastPositive v = k := by simp [lastPositive, hl]
    rw [List.getElem?_eq_getElem hk] at hx
    injection hx with hx
    refine ⟨by rw [hL]; exact hk, ?_⟩
    have : (0 : ℝ) < x := by simpa [Sc.gt] using hxpos
    simp only [hL, hx]; exact this

/-- **systematic scheme, EVERY index, EVERY sum** (since /repo 5a51476 the comb stops at the last index of positive
    weight): an index whose effective weight is 0 receives no copy, for every offset in `[0,1)` — also inside the tolerance
    band, where the effective weights are the un-normalised ones. -/
theorem C06_syst_zero_weight_never (s : ℝ) (n : ℕ) (w : List ℝ) (u0 : ℝ) (idx : List ℕ) (hn : 1 ≤ n)
    (hv0 : ∀ x ∈ renorm s w, 0 ≤ x) (hpos : 0 < (renorm s w).sum) (h0 : 0 ≤ u0) (h1 : u0 < 1)
    (h : systematicWith s n w u0 = some idx) (j : ℕ) (hj : j < (renorm s w).length)
    (hz : (renorm s w)[j] = 0) : idx.count j = 0 := by
  obtain ⟨hL, hLpos⟩ := lastPositive_pos _ hv0 hpos
  have hjL : j ≠ lastPositive (renorm s w) := by
    rintro rfl
    rw [hz] at hLpos; exact lt_irrefl _ hLpos
  have hc := count_core _ hv0 n hn u0 h0 h1 idx (C06_syst_spec s n w u0 idx h) j (Or.inl hjL)
  rw [P_succ _ j hj, hz, add_zero, sub_self] at hc
  exact_mod_cast hc

/-- `Σw = 1` -/
theorem C06_syst_zero_weight_sum_one (n : ℕ) (w : List ℝ) (u0 : ℝ) (idx : List ℕ) (hn : 1 ≤ n)
    (hw0 : ∀ x ∈ w, 0 ≤ x) (hw1 : w.sum = 1) (h0 : 0 ≤ u0) (h1 : u0 < 1)
    (h : systematic n w u0 = some idx) (j : ℕ) (hj : j < w.length) (hz : w[j] = 0) : idx.count j = 0 := by
  unfold systematic at h
  rw [sum_real, hw1] at h
  have hre : renorm (1 : ℝ) w = w := renorm_id 1 w (by norm_num)
  have hj' : j < (renorm (1 : ℝ) w).length := by rw [hre]; exact hj
  refine C06_syst_zero_weight_never 1 n w u0 idx hn (by rw [hre]; exact hw0) (by rw [hre, hw1]; norm_num) h0 h1 h j hj' ?_
  rw [List.getElem_of_eq hre hj']; exact hz

/-- inside the tolerance band too: weights used un-normalised, sum `1 − 2^-30`, trailing zero weight, offset next to 1 -/
theorem example_zero_last_run :
    systematic 1 ([1 / 2, 1 / 2 - 1 / 2 ^ 30, 0] : List ℝ) (1 - 1 / 2 ^ 31) = some [1] := by
  have hr : List.range 1 = [0] := by decide
  have hs' : ¬ ((sqrtEps : ℝ) < |(0 + 1 / 2 + (1 / 2 - 1 / 2 ^ 30) + 0 : ℝ) - 1|) := by
    rw [sqrtEps_real]; norm_num [abs_le]
  simp only [systematic, systematicWith, renorm, Sc.sum, List.foldl, ScReal.abs_def, ScReal.add_def,
    ScReal.sub_def, ScReal.zero_def, ScReal.one_def, Sc.gt, ScReal.lt_def, hs']
  simp [hr, run, position]
  norm_num [advance.eq_def, Sc.ge]

theorem example_zero_last_run_old :
    systematicOld 1 ([1 / 2, 1 / 2 - 1 / 2 ^ 30, 0] : List ℝ) (1 - 1 / 2 ^ 31) = some [2] := by
  have hr : List.range 1 = [0] := by decide
  have hs' : ¬ ((sqrtEps : ℝ) < |(0 + 1 / 2 + (1 / 2 - 1 / 2 ^ 30) + 0 : ℝ) - 1|) := by
    rw [sqrtEps_real]; norm_num [abs_le]
  simp only [systematicOld, systematicWithOld, renorm, Sc.sum, List.foldl, ScReal.abs_def, ScReal.add_def,
    ScReal.sub_def, ScReal.zero_def, ScReal.one_def, Sc.gt, ScReal.lt_def, hs']
  simp [hr, run, position]
  norm_num [advance.eq_def, Sc.ge]

/-- **the defect repaired by /repo 5a51476** (witness on the OLD rule `j_max = len(weights) − 1`): inside the tolerance band,
    with a deficit, the last index was selected although its weight is 0 (`w = [1/2, 1/2 − 2^-30, 0]`, `n = 1`,
    `u0 = 1 − 2^-31` → `[2]`); under the current rule the same input gives `[1]` (`example_zero_last_run`). -/
theorem C06_syst_zero_weight_last_deficit :
    ∃ (n : ℕ) (w : List ℝ) (u0 : ℝ) (idx : List ℕ), 1 ≤ n ∧ (∀ x ∈ w, 0 ≤ x) ∧ |w.sum - 1| ≤ 1 / 2 ^ 26 ∧
      0 ≤ u0 ∧ u0 < 1 ∧ systematicOld n w u0 = some idx ∧
      ∃ (j : ℕ) (hj : j < w.length), w[j] = 0 ∧ idx.count j ≠ 0 := by
  refine ⟨1, [1 / 2, 1 / 2 - 1 / 2 ^ 30, 0], 1 - 1 / 2 ^ 31, [2], le_refl _, ?_, ?_, by norm_num, by norm_num,
    example_zero_last_run_old, 2, by simp, by simp, by simp⟩
  · intro x hx; simp at hx; rcases hx with rfl | rfl | rfl <;> norm_num
  · norm_num [abs_le]

/-- … and the current rule on that input: the zero-weight index 2 is not selected -/
example : ([1] : List ℕ).count 2 = 0 :=
  C06_syst_zero_weight_never _ 1 [1 / 2, 1 / 2 - 1 / 2 ^ 30, 0] (1 - 1 / 2 ^ 31) [1] (le_refl _)
    (by
      rw [sum_real, renorm_id _ _ (by norm_num [abs_le])]
      intro x hx; simp at hx; rcases hx with rfl | rfl | rfl <;> norm_num)
    (by rw [sum_real, renorm_id _ _ (by norm_num [abs_le])]; norm_num)
    (by norm_num) (by norm_num) example_zero_last_run 2 (by simp [renorm_length])
    (by
      have hre := renorm_id (Sc.sum ([1 / 2, 1 / 2 - 1 / 2 ^ 30, 0] : List ℝ)) [1 / 2, 1 / 2 - 1 / 2 ^ 30, 0]
        (by rw [sum_real]; norm_num [abs_le])
      rw [List.getElem_of_eq hre]; simp)

/-- **multinomial scheme**: an index of weight 0 is never drawn, whatever the uniforms in `[0,1)` -/
theorem C06_mult_zero_weight_never (w us : List ℝ) (idx : List ℕ) (hw0 : ∀ x ∈ w, 0 ≤ x) (hpos : 0 < w.sum)
    (hus : ∀ u ∈ us, 0 ≤ u) (h : multinomial w us = some idx) (i : ℕ) (hi : i < w.length) (hz : w[i] = 0) :
    idx.count i = 0 := by
  rw [C06_mult_count w us idx hw0 hpos hus h i hi, List.countP_eq_zero]
  intro u _
  simp only [decide_eq_true_eq, not_and, not_lt]
  intro hlo
  rw [P_succ w i hi, hz, add_zero]
  exact hlo

theorem example_zero_mid_run : systematic 2 ([1 / 2, 0, 1 / 2] : List ℝ) (1 / 2) = some [0, 2] := by
  have hr : List.range 2 = [0, 1] := by decide
  simp [systematic, systematicWith, renorm, Sc.sum, ScReal.abs_def, hr, run, position]
  norm_num [advance.eq_def, Sc.ge, sqrtEps_real]

example : ([0, 2] : List ℕ).count 1 = 0 :=
  C06_syst_zero_weight_sum_one 2 [1 / 2, 0, 1 / 2] (1 / 2) [0, 2] (by norm_num)
    (by intro x hx; simp at hx; rcases hx with rfl | rfl | rfl <;> norm_num) (by norm_num) (by norm_num) (by norm_num)
    example_zero_mid_run 1 (by simp) (by simp)

example : ([0, 2, 2] : List ℕ).count 1 = 0 :=
  C06_mult_zero_weight_never [1 / 2, 0, 1 / 2] [0, 1 / 2, 3 / 4] [0, 2, 2]
    (by intro x hx; simp at hx; rcases hx with rfl | rfl | rfl <;> norm_num) (by norm_num)
    (by intro u hu; simp at hu; rcases hu with rfl | rfl | rfl <;> norm_num)
    (by simp [multinomial, normCdf, cumsum, cumsumFrom, searchsortedRight, List.countP_cons]; norm_num) 1 (by simp) (by simp)

/-! ### the laws of the index (multinomial) and of the number of copies (systematic) under a uniform draw -/

/-- **multinomial, law of one draw**: the set of uniforms in `[0,1)` that yield index `i` has Lebesgue measure `w_i/Σw` -/
theorem C06_mult_index_law (w : List ℝ) (hw0 : ∀ x ∈ w, 0 ≤ x) (hpos : 0 < w.sum) (i : ℕ) (hi : i < w.length) :
    volume {u : ℝ | u ∈ Set.Ico (0:ℝ) 1 ∧ multinomial w [u] = some [i]} = ENNReal.ofReal (w[i] / w.sum) := by
  have hne : w ≠ [] := by rintro rfl; simp at hi
  have hlo : 0 ≤ P w i / w.sum := div_nonneg (P_nonneg w hw0 i) hpos.le
  have hhi : P w (i + 1) / w.sum ≤ 1 := by
    rw [div_le_one hpos]; exact P_le_sum w hw0 _
  have hset : {u : ℝ | u ∈ Set.Ico (0:ℝ) 1 ∧ multinomial w [u] = some [i]}
      = Set.Ico (P w i / w.sum) (P w (i + 1) / w.sum) := by
    ext u
    simp only [Set.mem_ofPred_eq, Set.mem_Ico]
    constructor
    · rintro ⟨⟨hu0, _⟩, hm⟩
      rw [multinomial_single w hne u] at hm
      have : searchsortedRight ((List.range w.length).map (fun k => P w (k + 1) / w.sum)) u = i := by
        simpa using hm
      exact (mult_index_cell w hw0 hpos u hu0 i hi).mp this
    · rintro ⟨h1, h2⟩
      have hu0 : 0 ≤ u := le_trans hlo h1
      refine ⟨⟨hu0, lt_of_lt_of_le h2 hhi⟩, ?_⟩
      rw [multinomial_single w hne u, (mult_index_cell w hw0 hpos u hu0 i hi).mpr ⟨h1, h2⟩]
  rw [hset, Real.volume_Ico, C06_mult_cell_length w i hi]

example : volume {u : ℝ | u ∈ Set.Ico (0:ℝ) 1 ∧ multinomial ([1/2, 1/4, 1/4] : List ℝ) [u] = some [1]}
    = ENNReal.ofReal ((1/4) / (1/2 + (1/4 + (1/4 + 0)))) := by
  have := C06_mult_index_law [1/2, 1/4, 1/4]
    (by intro x hx; simp at hx; rcases hx with rfl | rfl | rfl <;> norm_num) (by norm_num) 1 (by simp)
  simpa using this

/-- on `[0,1)` the number of copies is a step function of the offset (two indicator intervals `[c, ∞)`) -/
theorem copies_eq_step (n : ℕ) (w : List ℝ) (hn : 1 ≤ n) (hw0 : ∀ x ∈ w, 0 ≤ x) (hw1 : w.sum = 1) (j : ℕ)
    (hne : w ≠ []) :
    ∃ (K ca cb : ℝ), ∀ u ∈ Set.Ico (0:ℝ) 1,
      copies n w j u = K - (Set.Ici cb).indicator (fun _ => (1:ℝ)) u + (Set.Ici ca).indicator (fun _ => (1:ℝ)) u := by
  refine ⟨((⌈n * P w (j + 1)⌉ - ⌈n * P w j⌉ : ℤ) : ℝ), 1 - ((⌈n * P w j⌉ : ℝ) - n * P w j),
    1 - ((⌈n * P w (j + 1)⌉ : ℝ) - n * P w (j + 1)), ?_⟩
  intro u hu
  obtain ⟨c0, t, _, hsome⟩ := systematicWith_some (Sc.sum w) n w u hne
  have hs : systematic n w u = some _ := hsome
  have := C06_syst_indicator n w u _ hn hw0 hw1 hu.1 hu.2 hs j
  simp only [copies, hs]
  have h2 : ((List.count j (run (c0 :: t) (lastPositive (c0 :: t)) (position n u) (List.range n) 0 c0) : ℕ) : ℝ)
      = (((List.count j (run (c0 :: t) (lastPositive (c0 :: t)) (position n u) (List.range n) 0 c0) : ℕ) : ℤ) : ℝ) := by
    push_cast; rfl
  rw [h2, this]
  simp only [Set.indicator, Set.mem_Ici]
  push_cast
  split <;> split <;> simp

/-- on `[0,1)` the number of copies is `⌊n·w_j⌋` or `⌈n·w_j⌉` (as a real number) -/
theorem copies_floor_ceil (n : ℕ) (w : List ℝ) (hn : 1 ≤ n) (hw0 : ∀ x ∈ w, 0 ≤ x) (hw1 : w.sum = 1) (j : ℕ)
    (hj : j < w.length) (u : ℝ) (hu : u ∈ Set.Ico (0:ℝ) 1) :
    copies n w j u = (⌊n * w[j]⌋ : ℝ) ∨ copies n w j u = (⌈n * w[j]⌉ : ℝ) := by
  have hne : w ≠ [] := by rintro rfl; simp at hj
  obtain ⟨c0, t, _, hsome⟩ := systematicWith_some (Sc.sum w) n w u hne
  have hs : systematic n w u = some _ := hsome
  have := C06_syst_floor_ceil n w u _ hn hw0 hw1 hu.1 hu.2 hs j hj
  simp only [copies, hs]
  rcases this with h | h
  · left; exact_mod_cast h
  · right; exact_mod_cast h

theorem measurableSet_copies_eq (n : ℕ) (w : List ℝ) (hn : 1 ≤ n) (hw0 : ∀ x ∈ w, 0 ≤ x) (hw1 : w.sum = 1) (j : ℕ)
    (hne : w ≠ []) (c : ℝ) : MeasurableSet {u : ℝ | u ∈ Set.Ico (0:ℝ) 1 ∧ copies n w j u = c} := by
  obtain ⟨K, ca, cb, hg⟩ := copies_eq_step n w hn hw0 hw1 j hne
  set g : ℝ → ℝ := fun u => K - (Set.Ici cb).indicator (fun _ => (1:ℝ)) u + (Set.Ici ca).indicator (fun _ => (1:ℝ)) u
  have hgm : Measurable g :=
    (measurable_const.sub (measurable_const.indicator measurableSet_Ici)).add
      (measurable_const.indicator measurableSet_Ici)
  have : {u : ℝ | u ∈ Set.Ico (0:ℝ) 1 ∧ copies n w j u = c} = Set.Ico (0:ℝ) 1 ∩ g ⁻¹' {c} := by
    ext u
    simp only [Set.mem_ofPred_eq, Set.mem_inter_iff, Set.mem_preimage, Set.mem_singleton_iff]
    constructor
    · rintro ⟨hu, h⟩; exact ⟨hu, (hg u hu).symm.trans h⟩
    · rintro ⟨hu, h⟩; exact ⟨hu, (hg u hu).trans h⟩
  rw [this]
  exact measurableSet_Ico.inter (hgm (measurableSet_singleton c))

/-- **systematic, law of the number of copies** (`Σw = 1`, offset uniform on `[0,1)`): index `j` is copied `⌊n·w_j⌋ + 1`
    times on a set of offsets of measure `frac(n·w_j)` and `⌊n·w_j⌋` times on the rest (measure `1 − frac(n·w_j)`).
    Mean `n·w_j`, and no scheme with integer counts and that mean has a smaller variance. -/
theorem C06_syst_copies_law (n : ℕ) (w : List ℝ) (hn : 1 ≤ n) (hw0 : ∀ x ∈ w, 0 ≤ x) (hw1 : w.sum = 1) (j : ℕ)
    (hj : j < w.length) :
    (volume {u : ℝ | u ∈ Set.Ico (0:ℝ) 1 ∧ copies n w j u = (⌊n * w[j]⌋ : ℝ) + 1}).toReal = Int.fract (n * w[j]) ∧
    (volume {u : ℝ | u ∈ Set.Ico (0:ℝ) 1 ∧ copies n w j u = (⌊n * w[j]⌋ : ℝ)}).toReal = 1 - Int.fract (n * w[j]) := by
  have hne : w ≠ [] := by rintro rfl; simp at hj
  set t := (n : ℝ) * w[j] with ht
  set A1 := {u : ℝ | u ∈ Set.Ico (0:ℝ) 1 ∧ copies n w j u = (⌊t⌋ : ℝ) + 1} with hA1
  set A0 := {u : ℝ | u ∈ Set.Ico (0:ℝ) 1 ∧ copies n w j u = (⌊t⌋ : ℝ)} with hA0
  have hm1 : MeasurableSet A1 := measurableSet_copies_eq n w hn hw0 hw1 j hne _
  have hm0 : MeasurableSet A0 := measurableSet_copies_eq n w hn hw0 hw1 j hne _
  have hfc := copies_floor_ceil n w hn hw0 hw1 j hj
  have hint := C06_syst_unbiased_integral n w hn hw0 hw1 j hj
  have hsub1 : A1 ⊆ Set.Ico (0:ℝ) 1 := fun u hu => hu.1
  have hsub0 : A0 ⊆ Set.Ico (0:ℝ) 1 := fun u hu => hu.1
  have hfin1 : volume A1 ≠ ⊤ := ne_top_of_le_ne_top (by simp) (measure_mono hsub1)
  have hfin0 : volume A0 ≠ ⊤ := ne_top_of_le_ne_top (by simp) (measure_mono hsub0)
  by_cases hint_t : (⌈t⌉ : ℝ) = ⌊t⌋
  · -- n·w_j is an integer: always exactly that many copies
    have hfr : Int.fract t = 0 := by
      have h1 := Int.floor_le t
      have h2 := Int.le_ceil t
      have : (⌊t⌋ : ℝ) = t := le_antisymm h1 (by rw [← hint_t]; exact h2)
      rw [Int.fract]; linarith
    have hall : ∀ u ∈ Set.Ico (0:ℝ) 1, copies n w j u = (⌊t⌋ : ℝ) := by
      intro u hu
      rcases hfc u hu with h | h
      · exact h
      · rw [h]; exact hint_t
    have e1 : A1 = ∅ := by
      ext u
      simp only [hA1, Set.mem_ofPred_eq, Set.mem_empty_iff_false, iff_false, not_and]
      intro hu; rw [hall u hu]; linarith
    have e0 : A0 = Set.Ico (0:ℝ) 1 := by
      ext u
      simp only [hA0, Set.mem_ofPred_eq]
      exact ⟨fun h => h.1, fun h => ⟨h, hall u h⟩⟩
    rw [e1, e0, hfr]
    simp
  · -- otherwise ⌈t⌉ = ⌊t⌋ + 1 and the two sets split [0,1)
    have hceil : (⌈t⌉ : ℝ) = ⌊t⌋ + 1 := by
      have hne' : (⌊t⌋ : ℝ) ≠ t := by
        intro h
        apply hint_t
        have : ⌈t⌉ = ⌊t⌋ := by
          rw [← h, Int.ceil_intCast, Int.floor_intCast]
        exact_mod_cast this
      have hlt : (⌊t⌋ : ℝ) < t := lt_of_le_of_ne (Int.floor_le t) hne'
      have : ⌈t⌉ = ⌊t⌋ + 1 := by
        rw [Int.ceil_eq_iff]
        push_cast
        constructor
        · linarith
        · have := Int.lt_floor_add_one t; linarith
      exact_mod_cast this
    have hc1 : Set.EqOn (copies n w j) (fun u => (⌊t⌋ : ℝ) + A1.indicator (fun _ => (1:ℝ)) u) (Set.Ico (0:ℝ) 1) := by
      intro u hu
      by_cases hu1 : u ∈ A1
      · simp only [Set.indicator, hu1, if_true]; exact hu1.2
      · simp only [Set.indicator, hu1, if_false, add_zero]
        rcases hfc u hu with h | h
        · exact h
        · exfalso; apply hu1; exact ⟨hu, by rw [h, hceil]⟩
    have hc0 : Set.EqOn (copies n w j) (fun u => ((⌊t⌋ : ℝ) + 1) - A0.indicator (fun _ => (1:ℝ)) u) (Set.Ico (0:ℝ) 1) := by
      intro u hu
      by_cases hu0 : u ∈ A0
      · simp only [Set.indicator, hu0, if_true]; rw [hu0.2]; ring
      · simp only [Set.indicator, hu0, if_false, sub_zero]
        rcases hfc u hu with h | h
        · exfalso; apply hu0; exact ⟨hu, h⟩
        · rw [h, hceil]
    have hi1 : IntegrableOn (A1.indicator (fun _ => (1:ℝ))) (Set.Ico (0:ℝ) 1) :=
      (integrableOn_const (by simp)).indicator hm1
    have hi0 : IntegrableOn (A0.indicator (fun _ => (1:ℝ))) (Set.Ico (0:ℝ) 1) :=
      (integrableOn_const (by simp)).indicator hm0
    have hic : ∀ c : ℝ, IntegrableOn (fun _ : ℝ => c) (Set.Ico (0:ℝ) 1) := fun c => integrableOn_const (by simp)
    have hv : ∀ (A : Set ℝ), MeasurableSet A → A ⊆ Set.Ico (0:ℝ) 1 →
        ∫ u in Set.Ico (0:ℝ) 1, A.indicator (fun _ => (1:ℝ)) u = (volume A).toReal := by
      intro A hA hsub
      rw [setIntegral_indicator hA, setIntegral_const, Set.inter_eq_self_of_subset_right hsub]
      simp [Measure.real]
    constructor
    · have e := hint
      rw [setIntegral_congr_fun measurableSet_Ico hc1,
        integral_add (hic _) hi1, setIntegral_const, hv A1 hm1 hsub1] at e
      simp only [Measure.real, Real.volume_Ico, sub_zero, ENNReal.toReal_ofReal zero_le_one, smul_eq_mul, one_mul] at e
      rw [Int.fract]; linarith
    · have e := hint
      rw [setIntegral_congr_fun measurableSet_Ico hc0,
        integral_sub (hic _) hi0, setIntegral_const, hv A0 hm0 hsub0] at e
      simp only [Measure.real, Real.volume_Ico, sub_zero, ENNReal.toReal_ofReal zero_le_one, smul_eq_mul, one_mul] at e
      rw [Int.fract]; linarith

/-- `n = 4`, `w = [1/2, 1/4, 1/4]`: all `n·w_j` are integers — the law is a point mass; `n = 2`: index 1 is copied once on
    a set of offsets of measure 1/2 and not at all on the rest -/
example : (volume {u : ℝ | u ∈ Set.Ico (0:ℝ) 1 ∧
      copies 2 ([1/2, 1/4, 1/4] : List ℝ) 1 u = (⌊((2:ℕ):ℝ) * ([1/2, 1/4, 1/4] : List ℝ)[1]⌋ : ℝ) + 1}).toReal
    = Int.fract (((2:ℕ):ℝ) * ([1/2, 1/4, 1/4] : List ℝ)[1]) :=
  (C06_syst_copies_law 2 [1/2, 1/4, 1/4] (by norm_num)
    (by intro x hx; simp at hx; rcases hx with rfl | rfl | rfl <;> norm_num) (by norm_num) 1 (by simp)).1

/-! ### numpy's validation of `p` (the tolerance the multinomial scheme itself accepts) -/

theorem kahanLoop_real (xs : List ℝ) (s : ℝ) : kahanLoop xs s 0 = s + xs.sum := by
  induction xs generalizing s with
  | nil => simp [kahanLoop]
  | cons x xs ih =>
    have hc : Sc.sub (Sc.sub (Sc.add s (Sc.sub x 0)) s) (Sc.sub x 0) = (0 : ℝ) := by simp
    simp only [kahanLoop]
    rw [hc, ih]
    simp [add_assoc]

/-- over `ℝ` the compensation term stays 0 and Kahan's sum is the sum -/
theorem kahanSum_real (w : List ℝ) (hne : w ≠ []) : kahanSum w = some w.sum := by
  cases w with
  | nil => exact absurd rfl hne
  | cons x xs => simp [kahanSum, kahanLoop_real]

/-- **what `choice(p=w)` accepts**: exactly the non-empty, entrywise non-negative vectors with `|Σw − 1| ≤ 2^-26` -/
theorem C06_choice_accepts_iff (size : ℕ) (w : List ℝ) :
    choiceCheck size w = ChoiceCheck.ok ↔ w ≠ [] ∧ (∀ x ∈ w, 0 ≤ x) ∧ |w.sum - 1| ≤ 1 / 2 ^ 26 := by
  by_cases hne : w = []
  · subst hne
    simp [choiceCheck, kahanSum]
    split <;> simp
  · have hk := kahanSum_real w hne
    unfold choiceCheck
    simp only [hk]
    have hle : Sc.le w.sum w.sum = true := by simp
    simp only [hle, Bool.not_true, Bool.false_eq_true, if_false]
    by_cases hneg : (w.any fun x => Sc.lt x Sc.zero) = true
    · simp only [hneg, if_true]
      constructor
      · intro h; cases h
      · rintro ⟨_, h0, _⟩
        exfalso
        obtain ⟨x, hx, hlt⟩ := List.any_eq_true.mp hneg
        have : x < 0 := by simpa using hlt
        linarith [h0 x hx]
    · have h0 : ∀ x ∈ w, 0 ≤ x := by
        intro x hx
        by_contra hlt
        apply hneg
        exact List.any_eq_true.mpr ⟨x, hx, by simpa using not_le.mp hlt⟩
      simp only [hneg, Bool.false_eq_true, if_false]
      by_cases hfar : (sqrtEps : ℝ) < |w.sum - 1|
      · have : Sc.gt (Sc.abs (Sc.sub w.sum Sc.one)) (sqrtEps : ℝ) = true := by
          simp [ScReal.abs_def, hfar]
        simp only [this, if_true]
        constructor
        · intro h; cases h
        · rintro ⟨_, _, hb⟩
          rw [sqrtEps_real] at hfar; linarith
      · have : Sc.gt (Sc.abs (Sc.sub w.sum Sc.one)) (sqrtEps : ℝ) = false := by
          simp only [ScReal.abs_def, ScReal.sub_def, ScReal.one_def, Sc.gt, ScReal.lt_false]; exact not_lt.mp hfar
        simp only [this, Bool.false_eq_true, if_false, true_iff]
        rw [sqrtEps_real] at hfar
        exact ⟨hne, h0, not_lt.mp hfar⟩

/-- acceptance implies a positive sum: `Σw ≥ 1 − 2^-26` -/
theorem accepted_sum_pos (w : List ℝ) (hb : |w.sum - 1| ≤ 1 / 2 ^ 26) : 0 < w.sum := by
  have := (abs_le.mp hb).1
  norm_num at this ⊢
  linarith

/-- when the validation passes, `choice` is the inverse-cdf lookup -/
theorem choice_ok_iff (w us : List ℝ) (idx : List ℕ) :
    choice w us = Except.ok idx ↔ choiceCheck us.length w = ChoiceCheck.ok ∧ multinomial w us = some idx := by
  unfold choice
  cases hc : choiceCheck us.length w <;> simp
  cases hm : multinomial w us <;> simp

/-- **multinomial scheme with numpy's validation inside — NO hypothesis on the weights**: whenever
    `np.random.choice(np.arange(len w), size=n, replace=True, p=w)` returns, it returns one valid index per uniform;
    non-negativity and a positive sum are what the validation itself establishes. -/
theorem C06_choice_valid (w us : List ℝ) (idx : List ℕ) (hus : ∀ u ∈ us, 0 ≤ u ∧ u < 1)
    (h : choice w us = Except.ok idx) :
    idx.length = us.length ∧ (∀ r ∈ idx, r < w.length) ∧ (∀ x ∈ w, 0 ≤ x) ∧ |w.sum - 1| ≤ 1 / 2 ^ 26 := by
  obtain ⟨hc, hm⟩ := (choice_ok_iff w us idx).mp h
  obtain ⟨_, h0, hb⟩ := (C06_choice_accepts_iff us.length w).mp hc
  exact ⟨C06_mult_length w us idx hm, C06_mult_range w us idx h0 (accepted_sum_pos w hb) hus hm, h0, hb⟩

/-- … and it raises `ValueError` on every other weight vector: a negative entry, or a sum off by more than `2^-26` -/
theorem C06_choice_rejects (w us : List ℝ) (hbad : (∃ x ∈ w, x < 0) ∨ 1 / 2 ^ 26 < |w.sum - 1| ∨ w = []) :
    ∃ e, choice w us = Except.error e := by
  have hnot : choiceCheck us.length w ≠ ChoiceCheck.ok := by
    intro hok
    obtain ⟨hne, h0, hb⟩ := (C06_choice_accepts_iff us.length w).mp hok
    rcases hbad with ⟨x, hx, hlt⟩ | hfar | hemp
    · linarith [h0 x hx]
    · linarith
    · exact hne hemp
  unfold choice
  cases hc : choiceCheck us.length w
  · exact absurd hc hnot
  all_goals exact ⟨_, rfl⟩

/-- expected copies under acceptance are `n·w_i/Σw`; that differs from the statement's `n·w_i` by at most the relative
    amount `1/(2^26 − 1)` — the price of the accepted tolerance (the multinomial analogue of finding F20) -/
theorem C06_choice_bias_bound (w : List ℝ) (h0 : ∀ x ∈ w, 0 ≤ x) (hb : |w.sum - 1| ≤ 1 / 2 ^ 26) (i : ℕ)
    (hi : i < w.length) : |w[i] / w.sum - w[i]| ≤ w[i] / (2 ^ 26 - 1) := by
  have hpos := accepted_sum_pos w hb
  have hwi : 0 ≤ w[i] := h0 _ (List.getElem_mem hi)
  have hS := abs_le.mp hb
  have hlow : (1 : ℝ) - 1 / 2 ^ 26 ≤ w.sum := by linarith [hS.1]
  have e : w[i] / w.sum - w[i] = w[i] * ((1 - w.sum) / w.sum) := by field_simp
  rw [e, abs_mul, abs_of_nonneg hwi, div_eq_mul_inv w[i]]
  apply mul_le_mul_of_nonneg_left _ hwi
  rw [abs_div, abs_of_pos hpos, div_le_iff₀ hpos]
  have h1 : |1 - w.sum| ≤ 1 / 2 ^ 26 := by rw [abs_sub_comm]; exact hb
  have h2 : (1 : ℝ) / 2 ^ 26 ≤ (2 ^ 26 - 1)⁻¹ * (1 - 1 / 2 ^ 26) := by norm_num
  have h3 : (0 : ℝ) ≤ (2 ^ 26 - 1)⁻¹ := by norm_num
  calc |1 - w.sum| ≤ 1 / 2 ^ 26 := h1
    _ ≤ (2 ^ 26 - 1)⁻¹ * (1 - 1 / 2 ^ 26) := h2
    _ ≤ (2 ^ 26 - 1)⁻¹ * w.sum := mul_le_mul_of_nonneg_left hlow h3

/-- `Resampler.run` with the validation inside agrees with the first-pass model whenever the validation passes -/
theorem resamplerRunX_eq (b : Bool) (sch : Scheme) (n : ℕ) (w : List ℝ) (u0 : ℝ) (us : List ℝ)
    (hok : sch = Scheme.mult → choiceCheck us.length w = ChoiceCheck.ok) :
    resamplerRunX b sch n w u0 us = resamplerRun b sch n w u0 us := by
  unfold resamplerRunX resamplerRun
  cases b <;> simp only [Bool.false_eq_true, if_false, if_true]
  cases sch with
  | mult =>
    have hc := hok rfl
    unfold choice
    simp only [hc]
    cases multinomial w us <;> simp
  | syst => rfl
  | other => rfl

example : choiceCheck 3 ([1/2, 1/4, 1/4] : List ℝ) = ChoiceCheck.ok :=
  (C06_choice_accepts_iff 3 _).mpr ⟨by simp,
    by intro x hx; simp at hx; rcases hx with rfl | rfl | rfl <;> norm_num, by norm_num⟩

example : ∃ e, choice ([1, 1] : List ℝ) [1/2] = Except.error e :=
  C06_choice_rejects _ _ (Or.inr (Or.inl (by norm_num)))

/-! ### the call sites: what reaches the resampling routines inside a run always sums to 1 -/

theorem normaliseNp_real (w : List ℝ) : normaliseNp w = w.map (fun x => x / w.sum) := by
  simp [normaliseNp, npSum_real]

theorem normaliseNp_sum (w : List ℝ) (hs : w.sum ≠ 0) : (normaliseNp w).sum = 1 := by
  rw [normaliseNp_real, sum_map_div, div_self hs]

theorem normaliseNp_nonneg (w : List ℝ) (hw0 : ∀ x ∈ w, 0 ≤ x) (hs : 0 < w.sum) : ∀ x ∈ normaliseNp w, 0 ≤ x := by
  rw [normaliseNp_real]
  intro x hx
  obtain ⟨y, hy, rfl⟩ := List.mem_map.mp hx
  exact div_nonneg (hw0 y hy) hs.le

/-- normalising an already normalised vector changes nothing (the Trainer's second, in-place, normalisation) -/
theorem normaliseNp_idem (w : List ℝ) (hs : w.sum ≠ 0) : normaliseNp (normaliseNp w) = normaliseNp w := by
  have h1 := normaliseNp_sum w hs
  conv_lhs => rw [normaliseNp_real (normaliseNp w), h1]
  simp

theorem normaliseNp_length (w : List ℝ) : (normaliseNp w).length = w.length := by
  simp [normaliseNp]

/-- **the array `Resampler.run` receives in `execute_iteration`** is `w/Σw` in both branches (`beta == 0` or not): non-negative,
    and its sum is exactly 1 — so inside a run the tolerance band of finding F20 is never entered at exact arithmetic. -/
theorem weightsAtResampler_real (b : Bool) (w : List ℝ) (hw0 : ∀ x ∈ w, 0 ≤ x) (hs : 0 < w.sum) :
    weightsAtResampler b w = w.map (fun x => x / w.sum) ∧ (weightsAtResampler b w).sum = 1 ∧
      (∀ x ∈ weightsAtResampler b w, 0 ≤ x) ∧ (weightsAtResampler b w).length = w.length := by
  have e : weightsAtResampler b w = normaliseNp w := by
    unfold weightsAtResampler
    cases b
    · simp only [Bool.false_eq_true, if_false]; exact normaliseNp_idem w hs.ne'
    · simp
  rw [e]
  exact ⟨normaliseNp_real w, normaliseNp_sum w hs.ne', normaliseNp_nonneg w hw0 hs, normaliseNp_length w⟩

/-- warm-up: nothing is resampled -/
theorem C06_iteration_skip {α : Type} [Sc α] (sch : Scheme) (n : ℕ) (w : List α) (u0 : α) (us : List α) :
    iterationResample true sch n w u0 us = RunResult.skipped := by
  simp [iterationResample, resamplerRunX]

/-- **one iteration of a run, systematic scheme**: for ANY non-negative unnormalised weights with a positive sum (what
    `exp(logw − max)` always is: C20_expShift_valid) and every offset in `[0,1)`, the resampler gathers with exactly
    `n_particles` valid non-decreasing indices and index `j` is copied `⌊n·w_j/Σw⌋` or `⌈n·w_j/Σw⌉` times; a particle of
    weight 0 is never selected.  The literal floor/ceil clause of the statement, with no side condition on the sum. -/
theorem C06_iteration_syst_law (n : ℕ) (w : List ℝ) (u0 : ℝ) (us : List ℝ) (idx : List ℕ) (hn : 1 ≤ n)
    (hw0 : ∀ x ∈ w, 0 ≤ x) (hs : 0 < w.sum) (h0 : 0 ≤ u0) (h1 : u0 < 1)
    (h : iterationResample false Scheme.syst n w u0 us = RunResult.indices idx) :
    idx.length = n ∧ (∀ r ∈ idx, r < w.length) ∧ idx.Pairwise (· ≤ ·) ∧
    ∀ (j : ℕ) (hj : j < w.length),
      ((idx.count j : ℤ) = ⌊n * (w[j] / w.sum)⌋ ∨ (idx.count j : ℤ) = ⌈n * (w[j] / w.sum)⌉) ∧
      (w[j] = 0 → idx.count j = 0) := by
  obtain ⟨he, hsum, hnn, hlen⟩ := weightsAtResampler_real false w hw0 hs
  set v := weightsAtResampler false w with hv
  have hrun : resamplerRun false Scheme.syst n v u0 us = RunResult.indices idx := by
    rw [← resamplerRunX_eq false Scheme.syst n v u0 us (by intro h; cases h)]; exact h
  obtain ⟨hl, hr, hp⟩ := C06_run_syst n v u0 us idx hrun
  have hsys : systematic n v u0 = some idx := by
    unfold resamplerRun at hrun
    simp only [Bool.false_eq_true, if_false] at hrun
    rw [systematicNp_real] at hrun
    cases hsy : systematic n v u0 with
    | none => rw [hsy] at hrun; cases hrun
    | some l => rw [hsy] at hrun; injection hrun with hrun; rw [hrun]
  refine ⟨hl, fun r hr' => by have := hr r hr'; omega, hp, ?_⟩
  intro j hj
  have hj' : j < v.length := by omega
  have hvj : v[j] = w[j] / w.sum := by
    rw [List.getElem_of_eq he hj']; simp
  constructor
  · have := C06_syst_floor_ceil n v u0 idx hn hnn hsum h0 h1 hsys j hj'
    rwa [hvj] at this
  · intro hz
    exact C06_syst_zero_weight_sum_one n v u0 idx hn hnn hsum h0 h1 hsys j hj' (by rw [hvj, hz, zero_div])

/-- copies of `j` in one iteration, as a function of the resampler's offset -/
noncomputable def iterCopies (n : ℕ) (w : List ℝ) (j : ℕ) (u : ℝ) : ℝ :=
  match iterationResample false Scheme.syst n w u [] with
  | RunResult.indices idx => (idx.count j : ℝ)
  | _ => 0

/-- **one iteration of a run is exactly unbiased**: mean copies of `j` over the offset = `n·w_j/Σw` -/
theorem C06_iteration_syst_unbiased (n : ℕ) (w : List ℝ) (hn : 1 ≤ n) (hw0 : ∀ x ∈ w, 0 ≤ x) (hs : 0 < w.sum)
    (j : ℕ) (hj : j < w.length) :
    ∫ u in Set.Ico (0:ℝ) 1, iterCopies n w j u = n * (w[j] / w.sum) := by
  obtain ⟨he, hsum, hnn, hlen⟩ := weightsAtResampler_real false w hw0 hs
  set v := weightsAtResampler false w with hv
  have hj' : j < v.length := by omega
  have hvj : v[j] = w[j] / w.sum := by
    rw [List.getElem_of_eq he hj']; simp
  have hcongr : Set.EqOn (iterCopies n w j) (copies n v j) (Set.Ico (0:ℝ) 1) := by
    intro u _
    simp only [iterCopies, iterationResample, ← hv, copies]
    rw [resamplerRunX_eq false Scheme.syst n v u [] (by intro h; cases h)]
    simp only [resamplerRun, Bool.false_eq_true, if_false, systematicNp_real]
    cases systematic n v u <;> rfl
  rw [setIntegral_congr_fun measurableSet_Ico hcongr, C06_syst_unbiased_integral n v hn hnn hsum j hj', hvj]

/-- **one iteration, multinomial scheme**: numpy's validation always passes on the array the run hands over (its sum is
    exactly 1), so `Resampler.run` never raises there and returns one valid index per uniform; zero weights are never drawn -/
theorem C06_iteration_mult_valid (n : ℕ) (w : List ℝ) (u0 : ℝ) (us : List ℝ) (hw0 : ∀ x ∈ w, 0 ≤ x) (hs : 0 < w.sum)
    (hus : ∀ u ∈ us, 0 ≤ u ∧ u < 1) :
    ∃ idx, iterationResample false Scheme.mult n w u0 us = RunResult.indices idx ∧
      idx.length = us.length ∧ (∀ r ∈ idx, r < w.length) ∧
      ∀ (i : ℕ) (hi : i < w.length), w[i] = 0 → idx.count i = 0 := by
  obtain ⟨he, hsum, hnn, hlen⟩ := weightsAtResampler_real false w hw0 hs
  set v := weightsAtResampler false w with hv
  have hne : v ≠ [] := by
    intro e; rw [e] at hsum; simp at hsum
  have hok : choiceCheck us.length v = ChoiceCheck.ok :=
    (C06_choice_accepts_iff us.length v).mpr ⟨hne, hnn, by rw [hsum]; norm_num⟩
  have hvpos : 0 < v.sum := by rw [hsum]; norm_num
  obtain ⟨idx, hm⟩ : ∃ idx, multinomial v us = some idx := by
    unfold multinomial
    rw [normCdf_real v hne]; exact ⟨_, rfl⟩
  refine ⟨idx, ?_, C06_mult_length v us idx hm, ?_, ?_⟩
  · simp only [iterationResample, ← hv, resamplerRunX, Bool.false_eq_true, if_false]
    rw [(choice_ok_iff v us idx).mpr ⟨hok, hm⟩]
  · intro r hr; have := C06_mult_range v us idx hnn hvpos hus hm r hr; omega
  · intro i hi hz
    have hi' : i < v.length := by omega
    refine C06_mult_zero_weight_never v us idx hnn hvpos (fun u hu => (hus u hu).1) hm i hi' ?_
    rw [List.getElem_of_eq he hi']; simp [hz]

/-- **`posterior(resample=True)` without trimming**: for any non-negative unnormalised weights with positive sum the
    `len(w)` returned indices obey the literal floor/ceil law for `w/Σw`, for every offset in `[0,1)` -/
theorem C06_posterior_law_notrim (w : List ℝ) (u0 : ℝ) (idx : List ℕ)
    (hw0 : ∀ x ∈ w, 0 ≤ x) (hs : 0 < w.sum) (h0 : 0 ≤ u0) (h1 : u0 < 1)
    (h : posteriorResampleNoTrim w u0 = some idx) :
    idx.length = w.length ∧ (∀ r ∈ idx, r < w.length) ∧ idx.Pairwise (· ≤ ·) ∧
    ∀ (j : ℕ) (hj : j < w.length),
      (idx.count j : ℤ) = ⌊w.length * (w[j] / w.sum)⌋ ∨ (idx.count j : ℤ) = ⌈w.length * (w[j] / w.sum)⌉ := by
  unfold posteriorResampleNoTrim at h
  set v := normaliseNp w with hv
  have hlen : v.length = w.length := normaliseNp_length w
  have hsum : v.sum = 1 := normaliseNp_sum w hs.ne'
  have hnn := normaliseNp_nonneg w hw0 hs
  obtain ⟨hl, hr, hp⟩ := C06_posterior_resample v u0 idx h
  have hne : w ≠ [] := by rintro rfl; simp at hs
  have hn : 1 ≤ v.length := by
    rw [hlen]; exact List.length_pos_iff.mpr hne
  refine ⟨by omega, fun r hr' => by have := hr r hr'; omega, hp, ?_⟩
  intro j hj
  have hj' : j < v.length := by omega
  rw [posteriorResample_real] at h
  have := C06_syst_floor_ceil v.length v u0 idx hn hnn hsum h0 h1 h j hj'
  have hvj : v[j] = w[j] / w.sum := by
    rw [List.getElem_of_eq (normaliseNp_real w) hj']; simp
  rwa [hvj, hlen] at this

/-- the weights kept by a trimming mask -/
def keptOf (w : List ℝ) (keep : List Bool) : List ℝ :=
  (w.zip keep).filterMap fun q => if q.2 then some q.1 else none

theorem keptOf_nonneg (w : List ℝ) (keep : List Bool) (hw0 : ∀ x ∈ w, 0 ≤ x) : ∀ x ∈ keptOf w keep, 0 ≤ x := by
  intro x hx
  simp only [keptOf, List.mem_filterMap] at hx
  obtain ⟨q, hq, hq2⟩ := hx
  split at hq2
  · injection hq2 with hq2; subst hq2
    exact hw0 _ (List.of_mem_zip hq).1
  · cases hq2

/-- **`posterior(resample=True)` with trimming**: whatever mask the trimming pass stopped at, as long as the kept weights
    have a positive sum, the resampled indices (into the kept vector `k`) obey the literal law for `k/Σk` -/
theorem C06_posterior_law_trim (w : List ℝ) (keep : List Bool) (u0 : ℝ) (idx : List ℕ)
    (hw0 : ∀ x ∈ w, 0 ≤ x) (hs : 0 < w.sum) (hk : 0 < (keptOf (normaliseNp w) keep).sum) (h0 : 0 ≤ u0) (h1 : u0 < 1)
    (h : posteriorResampleTrim w keep u0 = some idx) :
    let k := keptOf (normaliseNp w) keep
    idx.length = k.length ∧ (∀ r ∈ idx, r < k.length) ∧ idx.Pairwise (· ≤ ·) ∧
    ∀ (j : ℕ) (hj : j < k.length),
      (idx.count j : ℤ) = ⌊k.length * (k[j] / k.sum)⌋ ∨ (idx.count j : ℤ) = ⌈k.length * (k[j] / k.sum)⌉ := by
  intro k
  have hk0 : ∀ x ∈ k, 0 ≤ x := keptOf_nonneg _ keep (normaliseNp_nonneg w hw0 hs)
  have hnt : posteriorResampleNoTrim k u0 = some idx := by
    unfold posteriorResampleTrim at h
    rw [normaliseNp_idem w hs.ne'] at h
    exact h
  exact C06_posterior_law_notrim k u0 idx hk0 hk h0 h1 hnt

theorem example_iteration_run :
    iterationResample false Scheme.syst 4 ([2, 1, 1] : List ℝ) (1/2) [] = RunResult.indices [0, 0, 1, 2] := by
  have hw : weightsAtResampler false ([2, 1, 1] : List ℝ) = [1/2, 1/4, 1/4] := by
    rw [(weightsAtResampler_real false [2, 1, 1]
      (by intro x hx; simp at hx; rcases hx with rfl | rfl <;> norm_num) (by norm_num)).1]
    norm_num
  simp only [iterationResample, hw]
  rw [resamplerRunX_eq false Scheme.syst 4 _ _ _ (by intro h; cases h)]
  exact example_resampler_run

/-- unnormalised weights `[2, 1, 1]` (sum 4, far outside any tolerance): one iteration still copies index 0 exactly
    `4·(2/4) = 2` times -/
example : ((([0, 0, 1, 2] : List ℕ).count 0 : ℕ) : ℤ) = ⌊((4:ℕ):ℝ) * (([2, 1, 1] : List ℝ)[0] / ([2, 1, 1] : List ℝ).sum)⌋ ∨
    ((([0, 0, 1, 2] : List ℕ).count 0 : ℕ) : ℤ) = ⌈((4:ℕ):ℝ) * (([2, 1, 1] : List ℝ)[0] / ([2, 1, 1] : List ℝ).sum)⌉ :=
  ((C06_iteration_syst_law 4 [2, 1, 1] (1/2) [] [0, 0, 1, 2] (by norm_num)
    (by intro x hx; simp at hx; rcases hx with rfl | rfl <;> norm_num) (by norm_num) (by norm_num) (by norm_num)
    example_iteration_run).2.2.2 0 (by simp)).1

example : ∫ u in Set.Ico (0:ℝ) 1, iterCopies 4 ([2, 1, 1] : List ℝ) 1 u
    = ((4:ℕ):ℝ) * (([2, 1, 1] : List ℝ)[1] / ([2, 1, 1] : List ℝ).sum) :=
  C06_iteration_syst_unbiased 4 [2, 1, 1] (by norm_num)
    (by intro x hx; simp at hx; rcases hx with rfl | rfl <;> norm_num) (by norm_num) 1 (by simp)

/-! ### further non-vacuity -/

theorem example_choice_run : choice ([1/2, 1/4, 1/4] : List ℝ) [0, 1/2, 3/4] = Except.ok [0, 1, 2] := by
  rw [choice_ok_iff]
  refine ⟨(C06_choice_accepts_iff 3 _).mpr ⟨by simp,
    by intro x hx; simp at hx; rcases hx with rfl | rfl | rfl <;> norm_num, by norm_num⟩, ?_⟩
  simp [multinomial, normCdf, cumsum, cumsumFrom, searchsortedRight, List.countP_cons]
  norm_num

example : ([0, 1, 2] : List ℕ).length = 3 ∧ (∀ r ∈ ([0, 1, 2] : List ℕ), r < 3) := by
  have := C06_choice_valid [1/2, 1/4, 1/4] [0, 1/2, 3/4] [0, 1, 2]
    (by intro u hu; simp at hu; rcases hu with rfl | rfl | rfl <;> norm_num) example_choice_run
  exact ⟨by simp, by simp⟩

/-- a vector inside the accepted band: `[1/2, 1/2 + 2^-27]` -/
example : |([1/2, 1/2 + 1/2^27] : List ℝ)[1] / ([1/2, 1/2 + 1/2^27] : List ℝ).sum - ([1/2, 1/2 + 1/2^27] : List ℝ)[1]|
    ≤ ([1/2, 1/2 + 1/2^27] : List ℝ)[1] / (2 ^ 26 - 1) :=
  C06_choice_bias_bound [1/2, 1/2 + 1/2^27]
    (by intro x hx; simp at hx; rcases hx with rfl | rfl <;> norm_num) (by norm_num [abs_le]) 1 (by simp)

example : ∃ idx, iterationResample false Scheme.mult 3 ([2, 0, 2] : List ℝ) 0 [0, 1/2, 3/4] = RunResult.indices idx ∧
    idx.length = 3 ∧ (∀ r ∈ idx, r < 3) ∧ idx.count 1 = 0 := by
  obtain ⟨idx, h1, h2, h3, h4⟩ := C06_iteration_mult_valid 3 [2, 0, 2] 0 [0, 1/2, 3/4]
    (by intro x hx; simp only [List.mem_cons, List.mem_nil_iff, or_false] at hx; rcases hx with rfl | rfl | rfl <;> norm_num)
    (by norm_num)
    (by intro u hu; simp at hu; rcases hu with rfl | rfl | rfl <;> norm_num)
  exact ⟨idx, h1, by simpa using h2, by simpa using h3, h4 1 (by simp) (by simp)⟩

theorem example_posterior_run : posteriorResampleNoTrim ([4, 2, 2] : List ℝ) (1/2) = some [0, 1, 2] := by
  have hw : normaliseNp ([4, 2, 2] : List ℝ) = [1/2, 1/4, 1/4] := by
    rw [normaliseNp_real]; norm_num
  have hr : List.range 3 = [0, 1, 2] := by decide
  simp only [posteriorResampleNoTrim, hw, posteriorResample_real]
  simp [systematic, systematicWith, renorm, Sc.sum, ScReal.abs_def, hr, run, position]
  norm_num [advance.eq_def, Sc.ge, sqrtEps_real]

example : ((([0, 1, 2] : List ℕ).count 0 : ℕ) : ℤ) = ⌊(([4, 2, 2] : List ℝ).length : ℝ) * (([4, 2, 2] : List ℝ)[0] / ([4, 2, 2] : List ℝ).sum)⌋ ∨
    ((([0, 1, 2] : List ℕ).count 0 : ℕ) : ℤ) = ⌈(([4, 2, 2] : List ℝ).length : ℝ) * (([4, 2, 2] : List ℝ)[0] / ([4, 2, 2] : List ℝ).sum)⌉ :=
  (C06_posterior_law_notrim [4, 2, 2] (1/2) [0, 1, 2]
    (by intro x hx; simp at hx; rcases hx with rfl | rfl <;> norm_num) (by norm_num) (by norm_num) (by norm_num)
    example_posterior_run).2.2.2 0 (by simp)

end Props.C06
