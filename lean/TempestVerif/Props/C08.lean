import TempestVerif.Model.FS
import TempestVerif.Model.Checkpoint
import TempestVerif.Gen.Checkpoint
import TempestVerif.Gen.CheckpointSM
import TempestVerif.Gen.Tables
import Mathlib.Tactic
/-
  C08 — checkpoints restore exactly, resume continues, saves are crash-safe and work with a pool.

  Model: `Model.FS` (process-crash semantics of the file operations of a save), `Model.Checkpoint`
  (StateManager save/load as maps, defaults loop, resume prologue, save cadence, pool detachment).
  Which protocol / which StateManager method / which cadence test the code in /repo uses is not assumed:
  it is regenerated from the source into `Gen.Checkpoint` and the `C08_gen_*` theorems below are
  obligations on that generated table (they stop checking when the source changes shape).
  dill is trusted: `dec (enc d) = some d`, and `dec` of a strict prefix of a pickle fails.
-/
namespace Props.C08

section FilePart
open Model.FS

/-! ## Part A — the file system -/

theorem lookup_put_eq (p : Path) (c : Bytes) (fs : FS) : lookup p (put p c fs) = some c := by
  induction fs with
  | nil => simp [put, lookup]
  | cons e r ih =>
    obtain ⟨q, c'⟩ := e
    by_cases h : q = p <;> simp [put, lookup, h, ih]

theorem lookup_put_ne {p q : Path} (h : q ≠ p) (c : Bytes) (fs : FS) : lookup q (put p c fs) = lookup q fs := by
  induction fs with
  | nil => simp [put, lookup, Ne.symm h]
  | cons e r ih =>
    obtain ⟨q', c'⟩ := e
    by_cases h' : q' = p
    · subst h'; simp [put, lookup, Ne.symm h]
    · by_cases h'' : q' = q
      · subst h''; simp [put, lookup, h']
      · simp [put, lookup, h', h'', ih]

theorem lookup_erase_ne {p q : Path} (h : q ≠ p) (fs : FS) : lookup q (erase p fs) = lookup q fs := by
  induction fs with
  | nil => simp [erase, lookup]
  | cons e r ih =>
    obtain ⟨q', c'⟩ := e
    by_cases h' : q' = p
    · subst h'; simp [erase, lookup, Ne.symm h, ih]
    · by_cases h'' : q' = q
      · subst h''; simp [erase, lookup, h']
      · simp [erase, lookup, h', h'', ih]

/-- an operation that can change what is stored under `final` -/
def touches (final : Path) : FsOp → Bool
  | .openTrunc p => p = final
  | .write p _ => p = final
  | .rename p q => p = final || q = final
  | _ => false

theorem exec_untouched {final : Path} {o : FsOp} (h : touches final o = false) (fs : FS) :
    lookup final (exec fs o) = lookup final fs := by
  cases o with
  | mkdir p => rfl
  | openTrunc p =>
    simp [touches] at h
    simp [exec, lookup_put_ne (Ne.symm h)]
  | write p b =>
    simp [touches] at h
    simp only [exec]
    split
    · exact lookup_put_ne (Ne.symm h) _ _
    · rfl
  | flush p => rfl
  | fsync p => rfl
  | close p => rfl
  | rename p q =>
    simp [touches] at h
    simp only [exec]
    split
    · split
      · rfl
      · rw [lookup_put_ne (Ne.symm h.2), lookup_erase_ne (Ne.symm h.1)]
    · rfl

theorem during_untouched {final : Path} {o : FsOp} (h : touches final o = false) (fs fs' : FS)
    (hm : fs' ∈ during fs o) : lookup final fs' = lookup final fs := by
  cases o with
  | write p b =>
    simp only [during, List.mem_map] at hm
    obtain ⟨k, _, rfl⟩ := hm
    exact exec_untouched (o := .write p (b.take k)) (by simpa [touches] using h) fs
  | mkdir p => simp [during] at hm; subst hm; rfl
  | openTrunc p => simp [during] at hm; subst hm; rfl
  | flush p => simp [during] at hm; subst hm; rfl
  | fsync p => simp [during] at hm; subst hm; rfl
  | close p => simp [during] at hm; subst hm; rfl
  | rename p q => simp [during] at hm; subst hm; rfl

theorem run_untouched {final : Path} (ops : List FsOp) (h : ∀ o ∈ ops, touches final o = false) (fs : FS) :
    lookup final (run fs ops) = lookup final fs := by
  induction ops generalizing fs with
  | nil => rfl
  | cons o os ih =>
    simp only [run]
    rw [ih (fun o' ho' => h o' (by simp [ho'])), exec_untouched (h o (by simp))]

theorem crash_untouched {final : Path} (ops : List FsOp) (h : ∀ o ∈ ops, touches final o = false) (fs fs' : FS)
    (hm : fs' ∈ crashStates ops fs) : lookup final fs' = lookup final fs := by
  induction ops generalizing fs with
  | nil => simp [crashStates] at hm; subst hm; rfl
  | cons o os ih =>
    simp only [crashStates, List.mem_append] at hm
    rcases hm with hm | hm
    · exact during_untouched (h o (by simp)) fs fs' hm
    · rw [ih (fun o' ho' => h o' (by simp [ho'])) _ hm, exec_untouched (h o (by simp))]

theorem run_append (a b : List FsOp) (fs : FS) : run fs (a ++ b) = run (run fs a) b := by
  induction a generalizing fs with
  | nil => rfl
  | cons o os ih => simp [run, ih]

theorem crashStates_append (a b : List FsOp) (fs fs' : FS) (hm : fs' ∈ crashStates (a ++ b) fs) :
    fs' ∈ crashStates a fs ∨ fs' ∈ crashStates b (run fs a) := by
  induction a generalizing fs with
  | nil => right; simpa [run] using hm
  | cons o os ih =>
    simp only [List.cons_append, crashStates, List.mem_append] at hm ⊢
    rcases hm with hm | hm
    · left; left; exact hm
    · rcases ih _ hm with h | h
      · left; right; exact h
      · right; simpa [run] using h

/-- every byte written by the trace, in order -/
def written : List FsOp → Bytes
  | [] => []
  | .write _ b :: r => b ++ written r
  | _ :: r => written r

/-- the general temp-file shape: optional `mkdir`s, open a temporary `t`, write it in any number of pieces,
    flush, fsync, close, rename onto `final` -/
def tempShape (mk : List Path) (t final : Path) (ws : List Bytes) : List FsOp :=
  mk.map .mkdir ++ ([.openTrunc t] ++ (ws.map (.write t) ++ [.flush t, .fsync t, .close t])) ++ [.rename t final]

theorem run_mkdirs (mk : List Path) (fs : FS) : run fs (mk.map .mkdir) = fs := by
  induction mk with
  | nil => rfl
  | cons p r ih => simpa [run, exec] using ih

theorem run_writes (t : Path) (ws : List Bytes) (fs : FS) (c : Bytes) (h : lookup t fs = some c) :
    lookup t (run fs (ws.map (.write t))) = some (c ++ ws.flatten) := by
  induction ws generalizing fs c with
  | nil => simpa [run] using h
  | cons w r ih =>
    simp only [List.map_cons, run, exec, h]
    rw [ih _ (c ++ w) (lookup_put_eq _ _ _)]
    simp

theorem tempShape_atomic (mk : List Path) {t final : Path} (ht : t ≠ final) (ws : List Bytes) (fs fs' : FS)
    (hm : fs' ∈ crashStates (tempShape mk t final ws) fs) :
    lookup final fs' = lookup final fs ∨ lookup final fs' = some ws.flatten := by
  have hpre : ∀ o ∈ mk.map FsOpOf.mkdir ++ ([FsOpOf.openTrunc t] ++ (ws.map (FsOpOf.write t) ++ [.flush t, .fsync t, .close t])),
      touches final o = false := by
    intro o ho
    simp only [List.mem_append, List.mem_map, List.mem_cons, List.not_mem_nil, or_false] at ho
    rcases ho with ⟨p, _, rfl⟩ | rfl | ⟨b, _, rfl⟩ | rfl | rfl | rfl <;> simp [touches, ht]
  rcases crashStates_append _ _ _ _ hm with h | h
  · left; exact crash_untouched _ hpre _ _ h
  · simp only [crashStates, during, List.mem_append, List.mem_singleton] at h
    rcases h with h | h
    · left; subst h; exact run_untouched _ hpre _
    · -- after the rename
      have hc : lookup t (run fs (mk.map FsOpOf.mkdir ++ ([FsOpOf.openTrunc t] ++ (ws.map (FsOpOf.write t) ++ [.flush t, .fsync t, .close t]))))
          = some ws.flatten := by
        rw [run_append, run_mkdirs, run_append, run_append]
        have := run_writes t ws (run fs [FsOpOf.openTrunc t]) [] (by simp [run, exec, lookup_put_eq])
        simpa [run, exec] using this
      right
      subst h
      simp only [exec, hc, ht, if_false]
      exact lookup_put_eq _ _ _

theorem written_tempShape (mk : List Path) (t final : Path) (ws : List Bytes) :
    written (tempShape mk t final ws) = ws.flatten := by
  have h1 : ∀ (l : List Path) (r : List FsOp), written (l.map FsOpOf.mkdir ++ r) = written r := by
    intro l r; induction l with
    | nil => rfl
    | cons p l ih => simpa [written] using ih
  have h2 : ∀ (l : List Bytes) (r : List FsOp), written (l.map (FsOpOf.write t) ++ r) = l.flatten ++ written r := by
    intro l r; induction l with
    | nil => simp
    | cons b l ih => simp [written, ih]
  simp only [tempShape, List.append_assoc]
  rw [h1]
  simp only [List.singleton_append, written]
  rw [h2]
  simp [written]

theorem tmpOf_ne (final : Path) : tmpOf final ≠ final := by
  intro h
  have := congrArg String.length h
  simp [tmpOf, String.length_append] at this

/-- `C08_tempRename_atomic`: whatever the file system held before (no file under the final name, a complete old
    checkpoint, a stale temporary …), for EVERY payload and EVERY crash state of the temp-file protocol the
    content under the final name is the old content or the complete new payload — never a strict prefix. -/
theorem C08_tempRename_atomic (final : Path) (payload : Bytes) (fs fs' : FS)
    (hm : fs' ∈ crashStates (tempRename final payload) fs) :
    lookup final fs' = lookup final fs ∨ lookup final fs' = some payload := by
  have h : tempRename final payload = tempShape [] (tmpOf final) final [payload] := by
    simp [tempRename, tempShape]
  rw [h] at hm
  simpa using tempShape_atomic [] (tmpOf_ne final) [payload] fs fs' hm

/-- the complete protocol ends with the new payload under the final name -/
theorem C08_tempRename_completes (final : Path) (payload : Bytes) (fs : FS) :
    lookup final (run fs (tempRename final payload)) = some payload := by
  have ht := tmpOf_ne final
  simp [tempRename, run, exec, lookup_put_eq, ht]

section loadable
variable {D : Type} (enc : D → Bytes) (dec : Bytes → Option D)

/-- … hence, with `dec (enc d) = some d`: if the final name was absent or held a complete checkpoint `enc dOld`,
    then in every crash state it is absent, or decodes to the old dictionary, or decodes to the new one. -/
theorem C08_tempRename_loadable (hdec : ∀ d, dec (enc d) = some d) (final : Path) (dNew : D) (old : Option D)
    (fs fs' : FS) (hold : lookup final fs = old.map enc)
    (hm : fs' ∈ crashStates (tempRename final (enc dNew)) fs) :
    (lookup final fs' = none ∧ old = none) ∨
    (∃ c, lookup final fs' = some c ∧ (dec c = some dNew ∨ ∃ dOld, old = some dOld ∧ dec c = some dOld)) := by
  rcases C08_tempRename_atomic final (enc dNew) fs fs' hm with h | h
  · rw [hold] at h
    cases old with
    | none => left; exact ⟨h, rfl⟩
    | some dOld => right; exact ⟨enc dOld, h, Or.inr ⟨dOld, rfl, hdec dOld⟩⟩
  · right; exact ⟨enc dNew, h, Or.inl (hdec dNew)⟩

/-- `C08_direct_not_atomic`: writing in place, EVERY strict prefix of the payload (including the empty file)
    is a crash content under the final name — whatever complete checkpoint was there before is gone. -/
theorem C08_direct_not_atomic (final : Path) (payload : Bytes) (fs : FS) (k : Nat) (hk : k ≤ payload.length) :
    ∃ fs' ∈ crashStates (direct final payload) fs, lookup final fs' = some (payload.take k) := by
  refine ⟨exec (exec fs (.openTrunc final)) (.write final (payload.take k)), ?_, ?_⟩
  · simp only [direct, crashStates, during, List.mem_append, List.mem_map, List.mem_range]
    right; left
    exact ⟨k, by omega, rfl⟩
  · simp [exec, lookup_put_eq]

/-- … and such a file does not load (dill fails on a truncated pickle), although a loadable old checkpoint existed -/
theorem C08_direct_unloadable (hpre : ∀ d (c : Bytes), c <+: enc d → c ≠ enc d → dec c = none)
    (final : Path) (dNew : D) (hne : enc dNew ≠ []) (fs : FS) :
    ∃ fs' ∈ crashStates (direct final (enc dNew)) fs, ∃ c, lookup final fs' = some c ∧ dec c = none := by
  obtain ⟨fs', hm, hl⟩ := C08_direct_not_atomic final (enc dNew) fs 0 (Nat.zero_le _)
  refine ⟨fs', hm, [], by simpa using hl, hpre dNew [] (List.nil_prefix) (Ne.symm hne)⟩

end loadable

/-! ### the classifier -/

section classify
variable {β : Type}

theorem dropMkdirs_spec (tr : List (FsOpOf β)) : ∃ mk : List Path, tr = mk.map .mkdir ++ dropMkdirs tr := by
  induction tr with
  | nil => exact ⟨[], rfl⟩
  | cons o r ih =>
    cases o with
    | mkdir p =>
      obtain ⟨mk, h⟩ := ih
      refine ⟨p :: mk, ?_⟩
      simp only [dropMkdirs, List.map_cons, List.cons_append]
      rw [← h]
    | openTrunc p => exact ⟨[], rfl⟩
    | write p b => exact ⟨[], rfl⟩
    | flush p => exact ⟨[], rfl⟩
    | fsync p => exact ⟨[], rfl⟩
    | close p => exact ⟨[], rfl⟩
    | rename p q => exact ⟨[], rfl⟩

theorem dropWrites_spec (t : Path) (r : List (FsOpOf β)) : ∃ ws : List β, r = ws.map (.write t) ++ dropWrites t r := by
  induction r with
  | nil => exact ⟨[], rfl⟩
  | cons o r ih =>
    cases o with
    | write p b =>
      by_cases h : p = t
      · subst h
        obtain ⟨ws, hw⟩ := ih
        refine ⟨b :: ws, ?_⟩
        simp only [dropWrites, if_true, List.map_cons, List.cons_append]
        rw [← hw]
      · exact ⟨[], by simp [dropWrites, h]⟩
    | mkdir p => exact ⟨[], rfl⟩
    | openTrunc p => exact ⟨[], rfl⟩
    | flush p => exact ⟨[], rfl⟩
    | fsync p => exact ⟨[], rfl⟩
    | close p => exact ⟨[], rfl⟩
    | rename p q => exact ⟨[], rfl⟩

theorem isTempTail_spec {t final : Path} {l : List (FsOpOf β)} (h : isTempTail t final l = true) :
    l = [.flush t, .fsync t, .close t, .rename t final] := by
  unfold isTempTail at h
  split at h
  · simp only [Bool.and_eq_true, decide_eq_true_eq] at h
    obtain ⟨⟨⟨⟨rfl, rfl⟩, rfl⟩, rfl⟩, rfl⟩ := h
    rfl
  · cases h

/-- `C08_classify_sound`: a trace classified as `tempRename` has exactly the shape the atomicity theorem needs:
    after optional `mkdir`s a temporary file DIFFERENT from the final name is opened, written (≥ 1 piece),
    flushed, fsynced and closed, and only then renamed onto the final name; nothing else happens — in
    particular the final name is never opened or written, only ever the target of that one rename. -/
theorem C08_classify_sound (tr : List (FsOpOf β)) (final : Path) (h : classify tr final = some .tempRename) :
    ∃ (mk : List Path) (t : Path) (b : β) (ws : List β), t ≠ final ∧
      tr = mk.map .mkdir ++ ([.openTrunc t] ++ ((b :: ws).map (.write t) ++ [.flush t, .fsync t, .close t])) ++ [.rename t final] := by
  obtain ⟨mk, hmk⟩ := dropMkdirs_spec tr
  unfold classify at h
  split at h
  · rename_i t w b r heq
    split at h
    · rename_i hw
      subst hw
      split at h
      · split at h <;> cases h
      · rename_i hne
        split at h
        · rename_i htail
          obtain ⟨ws, hws⟩ := dropWrites_spec w r
          rw [isTempTail_spec htail] at hws
          refine ⟨mk, w, b, ws, hne, ?_⟩
          rw [hmk, heq, hws]
          simp
        · cases h
    · cases h
  · cases h

/-- the same for `direct`: the final name itself is opened and written in place -/
theorem C08_classify_direct (tr : List (FsOpOf β)) (final : Path) (h : classify tr final = some .direct) :
    ∃ (mk : List Path) (b : β) (r : List (FsOpOf β)), tr = mk.map .mkdir ++ (.openTrunc final :: .write final b :: r) := by
  obtain ⟨mk, hmk⟩ := dropMkdirs_spec tr
  unfold classify at h
  split at h
  · rename_i t w b r heq
    split at h
    · rename_i hw
      subst hw
      split at h
      · rename_i hf
        subst hf
        exact ⟨mk, b, r, by rw [hmk, heq]⟩
      · split at h <;> cases h
    · cases h
  · cases h

end classify

/-- consequence for executable traces: every crash state of ANY trace classified as `tempRename` has the old
    content or everything the trace wrote under the final name -/
theorem C08_classified_atomic (tr : List FsOp) (final : Path) (h : classify tr final = some .tempRename)
    (fs fs' : FS) (hm : fs' ∈ crashStates tr fs) :
    lookup final fs' = lookup final fs ∨ lookup final fs' = some (written tr) := by
  obtain ⟨mk, t, b, ws, hne, htr⟩ := C08_classify_sound tr final h
  have hs : tr = tempShape mk t final (b :: ws) := by rw [htr]; rfl
  rw [hs, written_tempShape]
  rw [hs] at hm
  exact tempShape_atomic mk hne (b :: ws) fs fs' hm

/-- the two model protocols are classified as themselves -/
theorem C08_classify_protocols (final : Path) (payload : Bytes) :
    classify (tempRename final payload) final = some .tempRename ∧
    classify (direct final payload) final = some .direct := by
  have ht := tmpOf_ne final
  constructor
  · simp [classify, tempRename, dropMkdirs, dropWrites, isTempTail, ht]
  · simp [classify, direct, dropMkdirs, dropWrites, isDirectTail]

/-! ### obligations on the protocol extracted from /repo's `save_sampler_state` -/

/-- OBLIGATION: the statically extracted operation sequence of `save_sampler_state` is the temp-file protocol -/
theorem C08_gen_protocol : classify Gen.Checkpoint.saveOps "final" = some .tempRename := by decide

/-- the rename is an atomic replace (`os.replace`; `os.rename` is the same call on POSIX) -/
theorem C08_gen_rename_call : Gen.Checkpoint.renameCall = "os.replace" ∨ Gen.Checkpoint.renameCall = "os.rename" := by decide

/-! ### non-vacuity -/

/-- old checkpoint [1,1,1] under "ck", payload [2,2,2,2]: the contents seen under "ck" over all crash states of
    the temp-file protocol are exactly the old and the new file … -/
example : ((crashStates (tempRename "ck" [2, 2, 2, 2]) [("ck", [1, 1, 1])]).map (lookup "ck")).eraseDups
    = [some [1, 1, 1], some [2, 2, 2, 2]] := by decide

/-- … while the in-place protocol shows every truncation -/
example : ((crashStates (direct "ck" [2, 2, 2, 2]) [("ck", [1, 1, 1])]).map (lookup "ck")).eraseDups
    = [some [1, 1, 1], some [], some [2], some [2, 2], some [2, 2, 2], some [2, 2, 2, 2]] := by decide

example : classify ([.openTrunc "a.tmp", .write "a.tmp" 10, .write "a.tmp" 20, .flush "a.tmp", .fsync "a.tmp",
    .close "a.tmp", .rename "a.tmp" "a"] : List (FsOpOf Nat)) "a" = some .tempRename := by decide
-- the fsync dropped, or the temporary name equal to the final name: not recognised
example : classify ([.openTrunc "a.tmp", .write "a.tmp" 10, .flush "a.tmp", .close "a.tmp", .rename "a.tmp" "a"] : List (FsOpOf Nat)) "a" = none := by decide
example : classify ([.openTrunc "a", .write "a" 10, .flush "a", .fsync "a", .close "a", .rename "a" "a"] : List (FsOpOf Nat)) "a" = none := by decide
example : classify ([.openTrunc "a", .write "a" 10, .close "a"] : List (FsOpOf Nat)) "a" = some .direct := by decide

/-! ### the StateManager's own `save_state` (second generated program) -/

theorem lookup_erase_eq (p : Path) (fs : FS) : lookup p (erase p fs) = none := by
  induction fs with
  | nil => rfl
  | cons e r ih =>
    obtain ⟨q, c⟩ := e
    by_cases h : q = p <;> simp [erase, lookup, h, ih]

/-- OBLIGATION: the operation sequence extracted from `StateManager.save_state` is the temp-file protocol -/
theorem C08_gen_sm_protocol : classify Gen.Checkpoint.stateManagerSave "final" = some .tempRename := by decide

/-- OBLIGATION: how the two temporary names are derived from the final name in the source: both saves APPEND ".temp"
    to the file name (`with_name(name + ".temp")`).  The pre-fix shape of StateManager.save_state, `with_suffix(".temp")`,
    is extracted as "replace_suffix" and makes this obligation fail. -/
theorem C08_gen_tmp_names :
    Gen.Checkpoint.tmpNameKind = "append" ∧ Gen.Checkpoint.tmpSuffix = ".temp" ∧
    Gen.Checkpoint.smTmpNameKind = "append" ∧ Gen.Checkpoint.smTmpSuffix = ".temp" ∧
    (Gen.Checkpoint.smRenameCall = "os.rename" ∨ Gen.Checkpoint.smRenameCall = "os.replace") := by decide

/-- the extracted shape, instantiated with the names `save_state` computes, IS the modelled program -/
theorem sm_program_eq (dir final : Path) (payload : Bytes) :
    instantiate dir (final ++ Gen.Checkpoint.smTmpSuffix) final payload Gen.Checkpoint.stateManagerSave = smSave dir final payload := by
  simp [instantiate, substPath, Gen.Checkpoint.stateManagerSave, Gen.Checkpoint.smTmpSuffix, smSave, tmpOf]

/-- `C08_state_manager_save_crash_safe`: for the program extracted from `StateManager.save_state`, for EVERY final name
    (no condition on its suffix: the temporary name `final ++ ".temp"` differs from every final name), every payload, from
    ANY file system (no file, an old complete file, a stale temporary of an earlier crash …): in EVERY crash state the
    content under the final name is the old content or the complete new payload — never a truncated file. -/
theorem C08_state_manager_save_crash_safe (dir final : Path) (payload : Bytes) (fs fs' : FS)
    (hm : fs' ∈ crashStates (instantiate dir (final ++ Gen.Checkpoint.smTmpSuffix) final payload
                              Gen.Checkpoint.stateManagerSave) fs) :
    lookup final fs' = lookup final fs ∨ lookup final fs' = some payload := by
  rw [sm_program_eq] at hm
  have h : smSave dir final payload = tempShape [dir] (tmpOf final) final [payload] := by
    simp [smSave, tempShape]
  rw [h] at hm
  simpa using tempShape_atomic [dir] (tmpOf_ne final) [payload] fs fs' hm

/-- the complete save leaves the payload under the final name and NO file under the temporary name -/
theorem C08_state_manager_save_completes (dir final : Path) (payload : Bytes) (fs : FS) :
    lookup final (run fs (smSave dir final payload)) = some payload ∧
    lookup (tmpOf final) (run fs (smSave dir final payload)) = none := by
  have ht := tmpOf_ne final
  constructor
  · simp [smSave, run, exec, lookup_put_eq, ht]
  · simp [smSave, run, exec, lookup_put_eq, ht, lookup_put_ne ht, lookup_erase_eq]

/-- `C08_sm_temp_name_injective`: distinct final names have distinct temporary names (no two checkpoints of a
    directory share a temporary file any more; with the pre-fix `with_suffix` naming all `stem.*` shared `stem.temp`) -/
theorem C08_sm_temp_name_injective (a b : Path) (h : tmpOf a = tmpOf b) : a = b :=
  (String.append_left_inj ".temp").mp h

/-- MODEL OF THE PRE-FIX CODE (before /repo b1898a0, `temp = Path(path).with_suffix(".temp")`; witness F27): when the final
    name itself ends in ".temp" the temporary name IS the final name, the save writes in place, and every truncation of
    the payload is a crash content under the final name. -/
theorem C08_state_manager_temp_suffix_in_place (n : PName) (hs : n.suffix = ".temp") (payload : Bytes) (fs : FS)
    (k : Nat) (hk : k ≤ payload.length) :
    ∃ fs' ∈ crashStates (smSaveOld n payload) fs, lookup n.path fs' = some (payload.take k) := by
  have hp : n.withSuffix ".temp" = n.path := by simp [PName.withSuffix, PName.path, hs]
  refine ⟨exec (exec fs (.openTrunc n.path)) (.write n.path (payload.take k)), ?_, ?_⟩
  · simp only [smSaveOld, hp, crashStates, during, exec, List.mem_append, List.mem_map, List.mem_range]
    right; right; left
    exact ⟨k, by omega, rfl⟩
  · simp [exec, lookup_put_eq]

/-- the sampler's program, instantiated the same way, is `tempRename` (so `C08_tempRename_atomic` is a statement
    about the extracted program, not only about its classification) -/
theorem C08_sampler_save_crash_safe (dir final : Path) (payload : Bytes) (fs fs' : FS)
    (hm : fs' ∈ crashStates (instantiate dir (final ++ Gen.Checkpoint.tmpSuffix) final payload Gen.Checkpoint.saveOps) fs) :
    lookup final fs' = lookup final fs ∨ lookup final fs' = some payload := by
  have h : instantiate dir (final ++ Gen.Checkpoint.tmpSuffix) final payload Gen.Checkpoint.saveOps
      = tempShape [dir] (tmpOf final) final [payload] := by
    simp [instantiate, substPath, Gen.Checkpoint.saveOps, Gen.Checkpoint.tmpSuffix, tempShape, tmpOf]
  rw [h] at hm
  simpa using tempShape_atomic [dir] (tmpOf_ne final) [payload] fs fs' hm

example : ((crashStates (smSave "ck/" "ck/a.state" [2, 2, 2, 2]) [("ck/a.state", [1, 1, 1]), ("ck/a.state.temp", [9])]).map
    (lookup "ck/a.state")).eraseDups = [some [1, 1, 1], some [2, 2, 2, 2]] := by decide
-- a final name that already ends in ".temp": now atomic too …
example : ((crashStates (smSave "" "x.temp" [2, 2]) [("x.temp", [1, 1, 1])]).map (lookup "x.temp")).eraseDups
    = [some [1, 1, 1], some [2, 2]] := by decide
-- … whereas the pre-fix naming wrote it in place
example : ((crashStates (smSaveOld ⟨"", "x", ".temp"⟩ [2, 2]) [("x.temp", [1, 1, 1])]).map (lookup "x.temp")).eraseDups
    = [some [1, 1, 1], some [], some [2], some [2, 2]] := by decide

end FilePart

/-! ## Part B — what is saved, what is loaded, how a run continues -/

section StatePart
open Model.Checkpoint

variable {β : Type}

theorem lookup_insert_eq (k : Key) (v : β) (d : List (Key × β)) : lookup k (setKey k v d) = some v := by
  induction d with
  | nil => simp [setKey, lookup]
  | cons e r ih =>
    obtain ⟨k', v'⟩ := e
    by_cases h : k' = k <;> simp [setKey, lookup, h, ih]

theorem lookup_insert_ne {k k' : Key} (h : k' ≠ k) (v : β) (d : List (Key × β)) :
    lookup k' (setKey k v d) = lookup k' d := by
  induction d with
  | nil => simp [setKey, lookup, Ne.symm h]
  | cons e r ih =>
    obtain ⟨k'', v'⟩ := e
    by_cases h1 : k'' = k
    · subst h1; simp [setKey, lookup, Ne.symm h]
    · by_cases h2 : k'' = k'
      · subst h2; simp [setKey, lookup, h1]
      · simp [setKey, lookup, h1, h2, ih]

/-- `d.update(e)` as maps: the loaded keys override, all others are kept -/
theorem lookup_updateAll (k : Key) (d e : List (Key × β)) :
    lookup k (updateAll d e) = match lookup k e with | some v => some v | none => lookup k d := by
  induction e with
  | nil => simp [updateAll, lookup]
  | cons kv r ih =>
    obtain ⟨k', v'⟩ := kv
    by_cases h : k' = k
    · subst h; simp [updateAll, lookup, lookup_insert_eq]
    · simp [updateAll, lookup, h, lookup_insert_ne (Ne.symm h), ih]

theorem lookup_mem {k : Key} {v : β} {d : List (Key × β)} (h : lookup k d = some v) : (k, v) ∈ d := by
  induction d with
  | nil => simp [lookup] at h
  | cons e r ih =>
    obtain ⟨k', v'⟩ := e
    by_cases hk : k' = k
    · subst hk; simp [lookup] at h; subst h; simp
    · simp [lookup, hk] at h; simp [ih h]

/-- the defaults loop as a map: a key holding `None` takes its default (if it has one), everything else stays -/
theorem applyDefaults_spec (dl : List (Key × Val)) (hd : ∀ kv ∈ dl, kv.2 ≠ Val.none)
    (cur cur' : List (Key × Val)) (h : applyDefaults dl cur = some cur') (k : Key) :
    lookup k cur' = match lookup k cur with
      | some Val.none => (match lookup k dl with | some dv => some dv | none => some Val.none)
      | x => x := by
  induction dl generalizing cur with
  | nil => simp only [applyDefaults, Option.some.injEq] at h; subst h; cases hl : lookup k cur with
    | none => rfl
    | some v => cases v <;> simp [lookup]
  | cons kv r ih =>
    obtain ⟨k0, dv⟩ := kv
    have hdv : dv ≠ Val.none := hd (k0, dv) (by simp)
    have hr : ∀ kv ∈ r, kv.2 ≠ Val.none := fun kv hkv => hd kv (by simp [hkv])
    simp only [applyDefaults] at h
    split at h
    · rename_i hk0
      rw [ih hr _ h]
      by_cases hk : k0 = k
      · subst hk
        rw [lookup_insert_eq, hk0]
        simp only [lookup, if_true]
        cases dv <;> simp_all
      · rw [lookup_insert_ne (Ne.symm hk)]
        simp only [lookup, hk, if_false]
    · rename_i v hv hk0
      rw [ih hr _ h]
      by_cases hk : k0 = k
      · subst hk
        rw [hk0]
        cases v <;> simp_all
      · simp only [lookup, hk, if_false]
    · cases h

theorem applyDefaults_isSome (dl : List (Key × Val)) (cur : List (Key × Val))
    (h : ∀ kv ∈ dl, (lookup kv.1 cur).isSome) : (applyDefaults dl cur).isSome := by
  induction dl generalizing cur with
  | nil => simp [applyDefaults]
  | cons kv r ih =>
    obtain ⟨k0, dv⟩ := kv
    have h0 := h (k0, dv) (by simp)
    simp only [applyDefaults]
    cases hl : lookup k0 cur with
    | none => simp [hl] at h0
    | some v =>
      cases v with
      | none =>
        simp only
        apply ih
        intro kv hkv
        by_cases hk : kv.1 = k0
        · rw [hk, lookup_insert_eq]; rfl
        · rw [lookup_insert_ne hk]; exact h kv (by simp [hkv])
      | int n => exact ih _ (fun kv hkv => h kv (by simp [hkv]))
      | real b => exact ih _ (fun kv hkv => h kv (by simp [hkv]))
      | arr t => exact ih _ (fun kv hkv => h kv (by simp [hkv]))

/-- a freshly constructed StateManager: every current key present and `None`, every history list empty -/
def IsFresh (f : State) : Prop :=
  (∀ k ∈ currentKeys, lookup k f.current = some Val.none) ∧
  (∀ kv ∈ f.current, kv.2 = Val.none) ∧
  (∀ kv ∈ f.history, kv.2 = [])

theorem init_isFresh (n : Nat) : IsFresh (init n) := by
  refine ⟨?_, ?_, ?_⟩ <;> simp only [init] <;> decide

/-- the default of a key (`None` for a key without one) -/
def defaultOf (k : Key) : Val := match lookup k defaults with | some dv => dv | none => Val.none

/-- what `load fresh (save s)` holds under `k`:
    * a value that is not `None` in `s`: that value;
    * `None` in `s` (or a key `s` does not define but the fresh sampler does): the default of `load_sampler_state`
      for `iter, calls, beta, logz, steps, acceptance, efficiency`, and `None` for every other key. -/
def expectCur (s f : State) (k : Key) : Option Val :=
  match lookup k s.current with
  | some Val.none => some (defaultOf k)
  | some v => some v
  | none => (lookup k f.current).map fun _ => defaultOf k

theorem defaults_ne_none : ∀ kv ∈ defaults, kv.2 ≠ Val.none := by decide

theorem defaults_sub_current : ∀ kv ∈ defaults, kv.1 ∈ currentKeys := by decide

/-- `C08_restore`: for EVERY state `s` and ANY freshly constructed state `f`, loading the bytes written by saving `s`
    succeeds, and the loaded state has: `current[k]` as described by `expectCur` (= `s.current[k]` wherever that is not
    `None`), `history[k] = s.history[k]` for every key `s` has (other keys keep the fresh, empty list), `n_dim = s.n_dim`. -/
theorem C08_restore (enc : Dict → Bytes) (dec : Bytes → Option Dict) (hdec : ∀ d, dec (enc d) = some d)
    (s f : State) (hf : IsFresh f) :
    ∃ s', load dec f (save enc s) = some s' ∧
      (∀ k, lookup k s'.current = expectCur s f k) ∧
      (∀ k, lookup k s'.history = match lookup k s.history with | some l => some l | none => lookup k f.history) ∧
      s'.nDim = s.nDim := by
  obtain ⟨hf1, hf2, hf3⟩ := hf
  have hsome : (applyDefaults defaults (updateAll f.current s.current)).isSome := by
    apply applyDefaults_isSome
    intro kv hkv
    rw [lookup_updateAll]
    cases lookup kv.1 s.current with
    | some v => rfl
    | none => simp [hf1 kv.1 (defaults_sub_current kv hkv)]
  obtain ⟨c, hc⟩ := Option.isSome_iff_exists.mp hsome
  refine ⟨{ current := c, history := updateAll f.history s.history, nDim := s.nDim }, ?_, ?_, ?_, rfl⟩
  · simp [load, save, hdec, loadDict, updateFromDict, toDict, hc]
  · intro k
    rw [applyDefaults_spec defaults defaults_ne_none _ _ hc k, lookup_updateAll]
    simp only [expectCur, defaultOf]
    cases hs : lookup k s.current with
    | some v =>
      cases v with
      | none => simp; cases lookup k defaults <;> rfl
      | int n => simp
      | real b => simp
      | arr t => simp
    | none =>
      cases hfk : lookup k f.current with
      | none => rfl
      | some v =>
        have : v = Val.none := hf2 (k, v) (lookup_mem hfk)
        subst this
        simp; cases lookup k defaults <;> rfl
  · intro k
    show lookup k (updateAll f.history s.history) = _
    rw [lookup_updateAll]
    cases lookup k s.history <;> rfl

/-- exactness where it matters: every value of `s` that is not `None`, and every `None` under a key without a default
    (e.g. `blobs` when the likelihood has none), is restored as it was.  In a checkpoint written by a run the seven
    keys with defaults are all set (they are committed at every iteration), so nothing is replaced. -/
theorem C08_restore_exact (enc : Dict → Bytes) (dec : Bytes → Option Dict) (hdec : ∀ d, dec (enc d) = some d)
    (s f : State) (hf : IsFresh f) :
    ∃ s', load dec f (save enc s) = some s' ∧
      (∀ k v, lookup k s.current = some v → (v ≠ Val.none ∨ lookup k defaults = none) → lookup k s'.current = some v) ∧
      (∀ k l, lookup k s.history = some l → lookup k s'.history = some l) ∧ s'.nDim = s.nDim := by
  obtain ⟨s', h1, h2, h3, h4⟩ := C08_restore enc dec hdec s f hf
  refine ⟨s', h1, ?_, ?_, h4⟩
  · intro k v hv hcase
    rw [h2 k]
    simp only [expectCur, hv]
    cases v with
    | none =>
      rcases hcase with h | h
      · exact absurd rfl h
      · simp [defaultOf, h]
    | int n => rfl
    | real b => rfl
    | arr t => rfl
  · intro k l hl
    rw [h3 k, hl]

/-- a truncated checkpoint file does not load (so the crash analysis of Part A matters) -/
theorem C08_truncated_fails (enc : Dict → Bytes) (dec : Bytes → Option Dict)
    (hpre : ∀ d (c : Bytes), c <+: enc d → c ≠ enc d → dec c = none) (s f : State) (c : Bytes)
    (h1 : c <+: save enc s) (h2 : c ≠ save enc s) : load dec f c = none := by
  simp [load, hpre (toDict s) c h1 h2]

/-! ### OBLIGATIONS on what `load_sampler_state` in /repo does -/

/-- the unpickled dictionary is handed to `update_from_dict` (in place), not to the classmethod `from_dict` -/
theorem C08_gen_load_method : Gen.Checkpoint.loadMethod = "update_from_dict" := by decide

/-- the defaults table and loop of the source are the modelled ones -/
theorem C08_defaults_match : Gen.Checkpoint.defaults = defaults ∧ Gen.Checkpoint.defaultsLoopShape = true := by decide

/-- the key sets of the model are those of state_manager.py -/
theorem C08_keys_match : currentKeys = Gen.Tables.currentKeys ∧ historyKeys = Gen.Tables.historyKeys := by decide

/-! ### resuming -/

theorem lookup_filter_none (k : Key) (p : Key × β → Bool) (l : List (Key × β)) (hp : ∀ v, p (k, v) = false) :
    lookup k (l.filter p) = none := by
  induction l with
  | nil => rfl
  | cons e r ih =>
    obtain ⟨k', v'⟩ := e
    by_cases hk : k' = k
    · subst hk; simp [List.filter, hp, ih]
    · cases hpe : p (k', v') <;> simp [List.filter, hpe, lookup, hk, ih]

theorem appendHist_lookup {k : Key} {v : Val} {h h' : List (Key × List Val)} (ha : appendHist k v h = some h') (k' : Key) :
    lookup k' h' = if k' = k then (lookup k' h).map (· ++ [v]) else lookup k' h := by
  induction h generalizing h' with
  | nil => simp [appendHist] at ha
  | cons e r ih =>
    obtain ⟨k0, l⟩ := e
    simp only [appendHist] at ha
    split at ha
    · rename_i hk0
      subst hk0
      simp only [Option.some.injEq] at ha; subst ha
      by_cases hk : k0 = k'
      · subst hk; simp [lookup]
      · simp [lookup, hk, Ne.symm hk]
    · rename_i hk0
      simp only [Option.map_eq_some_iff] at ha
      obtain ⟨r', hr', rfl⟩ := ha
      by_cases hk : k0 = k'
      · subst hk; simp [lookup, hk0]
      · simp [lookup, hk, ih hr']

/-- what `commit_current_to_history` does to the list of key `k` -/
def commitVal (cur : List (Key × Val)) (ks : List Key) (k : Key) (l : List Val) : List Val :=
  if k ∈ ks then
    match lookup k cur with
    | some v => if v = Val.none then l else l ++ [v]
    | none => l
  else l

theorem commitLoop_lookup (cur : List (Key × Val)) (ks : List Key) (hnd : ks.Nodup) (h h' : List (Key × List Val))
    (hc : commitLoop cur ks h = some h') (k : Key) :
    lookup k h' = (lookup k h).map (commitVal cur ks k) := by
  induction ks generalizing h with
  | nil =>
    simp only [commitLoop, Option.some.injEq] at hc; subst hc
    have : commitVal cur [] k = id := by funext l; simp [commitVal]
    rw [this]; simp
  | cons k0 ks ih =>
    have hnot : k0 ∉ ks := (List.nodup_cons.mp hnd).1
    have hnd' : ks.Nodup := (List.nodup_cons.mp hnd).2
    simp only [commitLoop] at hc
    split at hc
    · cases hc
    · rename_i hk0
      rw [ih hnd' _ hc]
      congr 1; funext l
      by_cases hk : k = k0
      · subst hk; simp [commitVal, hnot, hk0]
      · simp [commitVal, hk]
    · rename_i v hv hk0
      simp only [Option.bind_eq_some_iff] at hc
      obtain ⟨h1, ha, hc⟩ := hc
      rw [ih hnd' _ hc, appendHist_lookup ha]
      have hvn : v ≠ Val.none := fun e => hv e
      by_cases hk : k = k0
      · subst hk
        simp only [if_true, Option.map_map]
        congr 1; funext l
        simp [commitVal, hnot, hk0, hvn]
      · simp only [hk, if_false]
        congr 1; funext l
        simp [commitVal, hk]

/-- histories only grow: every list of `h` is a prefix of the corresponding list of `h'` -/
def HistExt (h h' : List (Key × List Val)) : Prop :=
  ∀ k l, lookup k h = some l → ∃ l', lookup k h' = some (l ++ l')

theorem HistExt.refl (h : List (Key × List Val)) : HistExt h h := fun _ l hl => ⟨[], by simpa using hl⟩

theorem HistExt.trans {a b c : List (Key × List Val)} (h1 : HistExt a b) (h2 : HistExt b c) : HistExt a c := by
  intro k l hl
  obtain ⟨l1, h1'⟩ := h1 k l hl
  obtain ⟨l2, h2'⟩ := h2 k _ h1'
  exact ⟨l1 ++ l2, by simpa using h2'⟩

theorem commitKeys_nodup : commitKeys.Nodup := by decide

theorem commit_histExt {s s' : State} (h : commit s = some s') : HistExt s.history s'.history ∧ s'.current = s.current := by
  simp only [commit, Option.map_eq_some_iff] at h
  obtain ⟨h', hc, rfl⟩ := h
  refine ⟨?_, rfl⟩
  intro k l hl
  have := commitLoop_lookup s.current commitKeys commitKeys_nodup _ _ hc k
  rw [hl] at this
  simp only [Option.map_some] at this
  refine ⟨(commitVal s.current commitKeys k l).drop l.length, ?_⟩
  rw [this]
  congr 1
  unfold commitVal
  split
  · split
    · split <;> simp
    · simp
  · simp

/-- one iteration: the history is extended, `iter` goes up by one and that number is what is committed,
    `calls` goes up by the evaluations of the iteration -/
theorem iteration_spec {s s' : State} {i : StepIn} (h : iteration s i = some s') :
    HistExt s.history s'.history ∧
    ∃ it ca, getInt "iter" s.current = some it ∧ getInt "calls" s.current = some ca ∧
      getInt "iter" s'.current = some (it + 1) ∧ getInt "calls" s'.current = some (ca + (i.nCalls : Int)) ∧
      (∀ l, lookup "iter" s.history = some l → lookup "iter" s'.history = some (l ++ [Val.int (it + 1)])) := by
  unfold iteration at h
  split at h
  · rename_i it ca hit hca
    obtain ⟨hext, hcur⟩ := commit_histExt h
    refine ⟨hext, it, ca, hit, hca, ?_, ?_, ?_⟩
    · rw [hcur]
      simp only [getInt]
      rw [lookup_insert_ne (by decide), lookup_updateAll,
        lookup_filter_none "iter" _ _ (by intro v; simp [counterKeys]), lookup_insert_eq]
    · rw [hcur]
      simp only [getInt]
      rw [lookup_insert_eq]
    · intro l hl
      simp only [commit, Option.map_eq_some_iff] at h
      obtain ⟨h', hc, rfl⟩ := h
      have := commitLoop_lookup _ commitKeys commitKeys_nodup _ _ hc "iter"
      rw [this, hl]
      simp only [Option.map_some, Option.some.injEq]
      have hin : "iter" ∈ commitKeys := by decide
      simp only [commitVal, hin, if_true]
      rw [lookup_insert_ne (by decide), lookup_updateAll,
        lookup_filter_none "iter" _ _ (by intro v; simp [counterKeys]), lookup_insert_eq]
      simp
  · cases h

/-- `iter` values committed by `n` iterations that start after `t0` -/
def iterVals (t0 : Int) (n : Nat) : List Val := (List.range n).map fun (j : Nat) => Val.int (t0 + (j : Int) + 1)

theorem iterVals_succ (t0 : Int) (n : Nat) : iterVals t0 (n + 1) = Val.int (t0 + 1) :: iterVals (t0 + 1) n := by
  simp only [iterVals, List.range_succ_eq_map, List.map_cons, List.map_map]
  congr 1
  · simp
  · apply List.map_congr_left
    intro j _
    simp only [Function.comp]
    congr 1
    push_cast
    ring

/-- `C08_resume_prefix`: let `s0` be the state after `load_state` (so `t0 = s0.iter` is what `run_sampling` takes as
    `t0`).  For EVERY sequence of iterations that runs from it: each restored history list is a prefix of the later
    one (append-only), `iter` has continued from `t0` (the first resumed iteration is number `t0 + 1`, and those
    numbers are what the history records), and `calls` has continued from the restored count. -/
theorem C08_resume_prefix (s0 s1 : State) (t0 : Int) (ht0 : resumeT0 s0 = some t0) (is : List StepIn)
    (hrun : runIters s0 is = some s1) :
    HistExt s0.history s1.history ∧
    resumeT0 s1 = some (t0 + (is.length : Int)) ∧
    (∀ c0, getInt "calls" s0.current = some c0 → getInt "calls" s1.current = some (c0 + ((is.map (·.nCalls)).sum : Nat))) ∧
    (∀ l, lookup "iter" s0.history = some l → lookup "iter" s1.history = some (l ++ iterVals t0 is.length)) := by
  induction is generalizing s0 t0 with
  | nil =>
    simp only [runIters, Option.some.injEq] at hrun; subst hrun
    refine ⟨HistExt.refl _, by simpa using ht0, fun c0 h => by simpa using h, fun l hl => by simpa [iterVals] using hl⟩
  | cons i is ih =>
    simp only [runIters, Option.bind_eq_some_iff] at hrun
    obtain ⟨sm, hstep, hrest⟩ := hrun
    obtain ⟨hext, it, ca, hit, hca, hit', hca', hhist⟩ := iteration_spec hstep
    have hitt : it = t0 := by
      simp only [resumeT0] at ht0; rw [hit] at ht0; exact Option.some.inj ht0
    subst hitt
    obtain ⟨e2, t2, c2, h2⟩ := ih sm (it + 1) hit' hrest
    refine ⟨hext.trans e2, ?_, ?_, ?_⟩
    · rw [t2]; simp only [List.length_cons]; congr 1; push_cast; ring
    · intro c0 hc0
      rw [hca] at hc0
      have := Option.some.inj hc0; subst this
      rw [c2 _ hca']
      simp only [List.map_cons, List.sum_cons]
      congr 1; push_cast; ring
    · intro l hl
      rw [h2 _ (hhist l hl), List.length_cons, iterVals_succ]
      simp

/-- … and the first resumed iteration has number `t0 + 1` -/
theorem C08_resume_first (s0 s1 : State) (t0 : Int) (ht0 : resumeT0 s0 = some t0) (i : StepIn)
    (h : iteration s0 i = some s1) : resumeT0 s1 = some (t0 + 1) := by
  obtain ⟨_, it, _, hit, _, hit', _⟩ := iteration_spec h
  simp only [resumeT0] at ht0 ⊢
  rw [hit] at ht0
  rw [hit', ← Option.some.inj ht0]

/-- after `load_state` the prologue always finds an integer `iter`, namely the saved one when the checkpoint holds one
    (and `0`, the default, when the saved state had `iter = None`) -/
theorem C08_resume_t0 (enc : Dict → Bytes) (dec : Bytes → Option Dict) (hdec : ∀ d, dec (enc d) = some d)
    (s f : State) (hf : IsFresh f) (t : Int) (hs : lookup "iter" s.current = some (Val.int t)) :
    ∃ s', load dec f (save enc s) = some s' ∧ resumeT0 s' = some t := by
  obtain ⟨s', h1, h2, _, _⟩ := C08_restore enc dec hdec s f hf
  refine ⟨s', h1, ?_⟩
  simp [resumeT0, getInt, h2 "iter", expectCur, hs]

/-! ### the save cadence -/

theorem mem_iterStarts (t0 : Int) (n : Nat) (i : Int) : i ∈ iterStarts t0 n ↔ ∃ m : Nat, m < n ∧ i = t0 + (m : Int) := by
  simp only [iterStarts, List.mem_map, List.mem_range]
  constructor
  · rintro ⟨m, hm, rfl⟩; exact ⟨m, hm, rfl⟩
  · rintro ⟨m, hm, rfl⟩; exact ⟨m, hm, rfl⟩

/-- `C08_save_cadence`: in a run that starts at `t0` (`0`, or the restored `iter`) with `save_every = k ≥ 1` and
    executes `n` iterations, the periodic checkpoints are written exactly at the iterations whose number at the
    START of the iteration is `t0 + j·k` with `j ≥ 1` (i.e. after every `k` completed iterations, and never at `t0`
    itself — the checkpoint one resumed from is not rewritten). -/
theorem C08_save_cadence (t0 k : Int) (hk : 1 ≤ k) (n : Nat) (i : Int) :
    i ∈ periodicSaves t0 k n ↔ ∃ j : Nat, 1 ≤ j ∧ i = t0 + (j : Int) * k ∧ (j : Int) * k < (n : Int) := by
  simp only [periodicSaves, List.mem_filter, mem_iterStarts, savesAt, Bool.and_eq_true, beq_iff_eq, bne_iff_ne, ne_eq]
  constructor
  · rintro ⟨⟨m, hm, rfl⟩, hmod, hne⟩
    have hm0 : (m : Int) ≠ 0 := by intro h; apply hne; rw [h]; ring
    have hdvd : k ∣ (m : Int) := by
      have : t0 + (m : Int) - t0 = (m : Int) := by ring
      rw [this] at hmod
      exact Int.dvd_of_emod_eq_zero hmod
    obtain ⟨c, hc⟩ := hdvd
    have hmpos : (0 : Int) < (m : Int) := by
      have : (0 : Int) ≤ (m : Int) := Int.natCast_nonneg m
      omega
    have hcpos : 0 < c := by
      by_contra hcn
      have : c ≤ 0 := by omega
      have : k * c ≤ 0 := Int.mul_nonpos_of_nonneg_of_nonpos (by omega) this
      omega
    refine ⟨c.toNat, by omega, ?_, ?_⟩
    · rw [Int.toNat_of_nonneg (by omega), hc]; ring
    · rw [Int.toNat_of_nonneg (by omega)]
      have : c * k = (m : Int) := by rw [hc]; ring
      rw [this]; exact_mod_cast hm
  · rintro ⟨j, hj, rfl, hlt⟩
    have hjk : (0 : Int) < (j : Int) * k := by
      have : (1 : Int) ≤ (j : Int) := by exact_mod_cast hj
      positivity
    refine ⟨⟨((j : Int) * k).toNat, ?_, ?_⟩, ?_, ?_⟩
    · have := Int.toNat_of_nonneg (le_of_lt hjk)
      omega
    · rw [Int.toNat_of_nonneg (le_of_lt hjk)]
    · have : t0 + (j : Int) * k - t0 = (j : Int) * k := by ring
      rw [this]
      exact Int.mul_emod_left _ _
    · intro h
      have : (j : Int) * k = 0 := by linarith
      omega

/-- names of the checkpoint files of a run -/
inductive CkName where
  | iter (i : Int)      -- `<label>_<i>.state`
  | final               -- `<label>_final.state`
  deriving DecidableEq, Repr

/-- the checkpoints a run of `n` iterations writes; whether there is a final one is read off the source -/
def checkpoints (finalSave : Bool) (t0 k : Int) (n : Nat) : List CkName :=
  (periodicSaves t0 k n).map .iter ++ (if finalSave then [.final] else [])

/-- OBLIGATION on the source: the test is `(iter − t0) % save_every == 0 and iter != t0`, `iter` is read (and the
    checkpoint written) before `Reweighter.run` increments it, the files are `<label>_<iter>.state`, there is a final
    save `<label>_final.state` after the loop, and on resume `t0` is the restored `iter`. -/
theorem C08_gen_cadence :
    Gen.Checkpoint.cadenceModZero = true ∧ Gen.Checkpoint.cadenceNeT0 = true ∧
    Gen.Checkpoint.iterReadBeforeReweight = true ∧ Gen.Checkpoint.periodicNameOk = true ∧
    Gen.Checkpoint.finalSave = true ∧ Gen.Checkpoint.finalNameOk = true ∧
    Gen.Checkpoint.resumeT0FromIter = true := by decide

/-- the files written by a run with `save_every = k`: the periodic ones of `C08_save_cadence` and the final one -/
theorem C08_checkpoints_written (t0 k : Int) (hk : 1 ≤ k) (n : Nat) (c : CkName) :
    c ∈ checkpoints Gen.Checkpoint.finalSave t0 k n ↔
      c = .final ∨ ∃ j : Nat, 1 ≤ j ∧ c = .iter (t0 + (j : Int) * k) ∧ (j : Int) * k < (n : Int) := by
  have hf : Gen.Checkpoint.finalSave = true := C08_gen_cadence.2.2.2.2.1
  simp only [checkpoints, hf, if_true, List.mem_append, List.mem_map, List.mem_singleton]
  constructor
  · rintro (⟨i, hi, rfl⟩ | rfl)
    · obtain ⟨j, hj, rfl, hlt⟩ := (C08_save_cadence t0 k hk n i).mp hi
      exact Or.inr ⟨j, hj, rfl, hlt⟩
    · exact Or.inl rfl
  · rintro (rfl | ⟨j, hj, rfl, hlt⟩)
    · exact Or.inr rfl
    · exact Or.inl ⟨_, (C08_save_cadence t0 k hk n _).mpr ⟨j, hj, rfl, hlt⟩, rfl⟩

/-! ### saving with a worker pool -/

/-- `C08_pool_detach`: whatever the pickler does — return bytes or raise — after `save` the core is exactly what it
    was (the pool is re-attached), and the object that was pickled carried no pool. -/
theorem C08_pool_detach {P R E B : Type} (pickle : Core P R → Except E B) (c : Core P R) :
    (pickleDetached pickle c).1 = c ∧
    (pickleDetached pickle c).2 = pickle { c with pool := none } ∧
    ({ c with pool := none } : Core P R).pool = none := by
  obtain ⟨pool, rest⟩ := c
  cases pool <;> simp [pickleDetached]

/-- OBLIGATION on the source: the pool is detached before `dill.dumps(self)` and re-attached in a `finally` -/
theorem C08_gen_pool : Gen.Checkpoint.poolDetached = true ∧ Gen.Checkpoint.poolReattachInFinally = true := by decide

/-! ### the StateManager's own `load_state` / `from_dict` / `save_state(exclude=…)` -/

/-- `C08_sm_merge`: `load_state` into ANY manager (fresh or not) is a merge — a key the loaded section holds takes
    the loaded value, every other key keeps what the manager had; an absent section changes nothing. -/
theorem C08_sm_merge (s0 : State) (d : Dict) :
    (∀ k, lookup k (updateFromDict s0 d).current = match d.cur with
        | some c => (match lookup k c with | some v => some v | none => lookup k s0.current)
        | none => lookup k s0.current) ∧
    (∀ k, lookup k (updateFromDict s0 d).history = match d.hist with
        | some h => (match lookup k h with | some l => some l | none => lookup k s0.history)
        | none => lookup k s0.history) ∧
    (updateFromDict s0 d).nDim = (match d.nDim with | some n => n | none => s0.nDim) := by
  refine ⟨?_, ?_, rfl⟩
  · intro k
    cases hc : d.cur with
    | none => simp [updateFromDict, hc]
    | some c =>
      simp only [updateFromDict, hc]
      rw [lookup_updateAll]
      cases lookup k c <;> rfl
  · intro k
    cases hh : d.hist with
    | none => simp [updateFromDict, hh]
    | some h =>
      simp only [updateFromDict, hh]
      rw [lookup_updateAll]
      cases lookup k h <;> rfl

/-- an `exclude` list that names none of the three top-level keys (the default does not) removes nothing -/
theorem excludeDict_id (ex : List String) (h : ex.contains "_current" = false ∧ ex.contains "_history" = false ∧ ex.contains "n_dim" = false)
    (d : Dict) : excludeDict ex d = d := by
  obtain ⟨h1, h2, h3⟩ := h
  unfold excludeDict
  rw [h1, h2, h3]
  rfl

theorem smDefaultExclude_harmless :
    smDefaultExclude.contains "_current" = false ∧ smDefaultExclude.contains "_history" = false ∧
    smDefaultExclude.contains "n_dim" = false := by decide

/-- `C08_state_manager_restore`: `StateManager.save_state(p)` (any `exclude` that names none of `_current`, `_history`,
    `n_dim`; in particular the default) followed by `load_state(p)` into ANY manager `f` succeeds and gives, for every
    key `s` defines, exactly `s`'s value — `None` included, there is no defaults loop here — and `s`'s history list;
    keys `s` does not define keep `f`'s entries; `n_dim = s.n_dim`.  For a fresh `f` that is `s` itself. -/
theorem C08_state_manager_restore (enc : Dict → Bytes) (dec : Bytes → Option Dict) (hdec : ∀ d, dec (enc d) = some d)
    (ex : List String) (hex : ex.contains "_current" = false ∧ ex.contains "_history" = false ∧ ex.contains "n_dim" = false)
    (s f : State) :
    ∃ s', smLoad dec f (enc (smSaveDict ex s)) = some s' ∧
      (∀ k, lookup k s'.current = match lookup k s.current with | some v => some v | none => lookup k f.current) ∧
      (∀ k, lookup k s'.history = match lookup k s.history with | some l => some l | none => lookup k f.history) ∧
      s'.nDim = s.nDim := by
  refine ⟨updateFromDict f (toDict s), ?_, ?_, ?_, rfl⟩
  · simp [smLoad, smSaveDict, excludeDict_id ex hex, hdec]
  · intro k; exact (C08_sm_merge f (toDict s)).1 k
  · intro k; exact (C08_sm_merge f (toDict s)).2.1 k

/-- `C08_from_dict_to_dict`: `StateManager.from_dict(sm.to_dict())` holds `sm`'s value under every key `sm` defines
    (and `None` / an empty list under a state key `sm` lacks), with `sm`'s `n_dim`. -/
theorem C08_from_dict_to_dict (s : State) :
    (∀ k, lookup k (fromDict (toDict s)).current = match lookup k s.current with | some v => some v | none => lookup k (init s.nDim).current) ∧
    (∀ k, lookup k (fromDict (toDict s)).history = match lookup k s.history with | some l => some l | none => lookup k (init s.nDim).history) ∧
    (fromDict (toDict s)).nDim = s.nDim := by
  refine ⟨?_, ?_, rfl⟩
  · intro k; exact (C08_sm_merge (init s.nDim) (toDict s)).1 k
  · intro k; exact (C08_sm_merge (init s.nDim) (toDict s)).2.1 k

/-- what `exclude` can do: dropping a section leaves that part of the receiving manager untouched -/
theorem C08_sm_exclude_section (enc : Dict → Bytes) (dec : Bytes → Option Dict) (hdec : ∀ d, dec (enc d) = some d) (s f : State) :
    (smLoad dec f (enc (smSaveDict ["_history"] s))).map (·.history) = some f.history ∧
    (smLoad dec f (enc (smSaveDict ["_current"] s))).map (·.current) = some f.current ∧
    (smLoad dec f (enc (smSaveDict ["n_dim"] s))).map (·.nDim) = some f.nDim := by
  simp [smLoad, smSaveDict, excludeDict, hdec, updateFromDict, toDict]

/-- OBLIGATIONS on state_manager.py: the pickled dictionary is `{_current, _history, n_dim}` of the manager, the
    default `exclude` and its loop are the modelled ones, `load_state` = unpickle + `update_from_dict`,
    `from_dict` = `cls(state_dict.get("n_dim", 1))` + `update_from_dict`, `update_from_dict` has its three guarded sections -/
theorem C08_gen_sm_io :
    Gen.Checkpoint.smDictKeys = ["_current", "_history", "n_dim"] ∧ Gen.Checkpoint.smDictValuesOk = true ∧
    Gen.Checkpoint.smExcludeDefault = smDefaultExclude ∧ Gen.Checkpoint.smExcludeLoopShape = true ∧
    Gen.Checkpoint.smLoadMethod = "update_from_dict" ∧ Gen.Checkpoint.smLoadShape = true ∧
    Gen.Checkpoint.fromDictViaUpdate = true ∧ Gen.Checkpoint.fromDictDefaultNDim = 1 ∧
    Gen.Checkpoint.updateFromDictShape = true := by decide

end StatePart

/-! ## Part C — the two parts together -/

/-- A save of state `sNew` over a final name that is absent or holds the complete checkpoint of `sOld`, interrupted
    ANYWHERE: loading the final name into any fresh sampler either finds no file (only if there was none before), or
    behaves exactly as loading the complete checkpoint of `sOld`, or exactly as loading the complete checkpoint of
    `sNew` — to both of which `C08_restore` applies. -/
theorem C08_crash_then_load (enc : Model.Checkpoint.Dict → Model.FS.Bytes) (dec : Model.FS.Bytes → Option Model.Checkpoint.Dict)
    (final : Model.FS.Path) (sNew : Model.Checkpoint.State)
    (old : Option Model.Checkpoint.State) (fs fs' : Model.FS.FS)
    (hold : Model.FS.lookup final fs = old.map (Model.Checkpoint.save enc))
    (hm : fs' ∈ Model.FS.crashStates (Model.FS.tempRename final (Model.Checkpoint.save enc sNew)) fs)
    (f : Model.Checkpoint.State) :
    (Model.FS.lookup final fs' = none ∧ old = none) ∨
    (∃ c, Model.FS.lookup final fs' = some c ∧
      (Model.Checkpoint.load dec f c = Model.Checkpoint.load dec f (Model.Checkpoint.save enc sNew) ∨
       ∃ sOld, old = some sOld ∧ Model.Checkpoint.load dec f c = Model.Checkpoint.load dec f (Model.Checkpoint.save enc sOld))) := by
  rcases C08_tempRename_atomic final _ fs fs' hm with h | h
  · rw [hold] at h
    cases old with
    | none => left; exact ⟨h, rfl⟩
    | some sOld => right; exact ⟨_, h, Or.inr ⟨sOld, rfl, rfl⟩⟩
  · right; exact ⟨_, h, Or.inl rfl⟩

/-! ### non-vacuity -/

section Examples
open Model.Checkpoint

/-- a state after two iterations, `blobs = None`, saved and loaded into a fresh StateManager: identical maps -/
def exState : State :=
  { current := [("iter", .int 2), ("calls", .int 64), ("beta", .real 4602678819172646912), ("logz", .arr 1), ("steps", .int 1),
                ("acceptance", .arr 2), ("efficiency", .arr 3), ("u", .arr 4), ("x", .arr 5), ("logl", .arr 6), ("blobs", .none),
                ("assignments", .arr 7), ("ess", .arr 8)]
    history := [("iter", [.int 1, .int 2]), ("u", [.arr 10, .arr 4]), ("beta", [.real 0, .real 4602678819172646912])]
    nDim := 2 }

example : (loadDict (init 1) (toDict exState)).map (fun s => (currentKeys.map (fun k => lookup k s.current), lookup "u" s.history, lookup "blobs" s.history, s.nDim))
    = some (currentKeys.map (fun k => lookup k exState.current), some [.arr 10, .arr 4], some [], 2) := by decide

/-- a state saved before the first iteration (`steps`, `acceptance`, `efficiency` still `None`): those come back as defaults -/
example : (loadDict (init 2) (toDict { init 2 with current := setKey "iter" (.int 0) (init 2).current })).map
      (fun s => (lookup "iter" s.current, lookup "steps" s.current, lookup "acceptance" s.current, lookup "u" s.current))
    = some (some (.int 0), some (.int 0), some (.real 0), some .none) := by decide

/-- resume: two more iterations after loading `exState` → iter 3, 4; calls 64 → 64+32+40; history extended -/
example : (runIters { exState with history := updateAll (init 2).history exState.history }
      [⟨32, [("beta", .real 1), ("u", .arr 20)]⟩, ⟨40, [("u", .arr 21), ("iter", .int 99)]⟩]).map
      (fun s => (lookup "iter" s.current, lookup "calls" s.current, lookup "iter" s.history, lookup "u" s.history))
    = some (some (.int 4), some (.int 136), some [.int 1, .int 2, .int 3, .int 4], some [.arr 10, .arr 4, .arr 20, .arr 21]) := by decide

example : periodicSaves 0 2 8 = [2, 4, 6] := by decide
example : periodicSaves 4 3 4 = [7] := by decide
example : checkpoints true 4 3 4 = [.iter 7, .final] := by decide
example : periodicSaves 0 1 3 = [1, 2] := by decide

/-- pool: the pickler raises — the pool is back; the pickler succeeds — it saw no pool -/
example : (pickleDetached (fun (c : Core Nat String) => if c.pool.isSome then Except.error "cannot pickle pool" else Except.ok c.rest.length)
    ⟨some 7, "core"⟩) = (⟨some 7, "core"⟩, Except.ok 4) := by rfl
example : (pickleDetached (fun (_ : Core Nat String) => (Except.error "boom" : Except String Nat)) ⟨some 7, "core"⟩).1.pool = some 7 := by decide

/-- StateManager round trip: a state with `steps = None` comes back with `steps = None` (no defaults), into a manager
    that had other data the loaded keys override and `assignments` (absent from the file) stays -/
example : (let s := { init 2 with current := setKey "iter" (.int 3) (init 2).current }
           let f : State := { current := [("assignments", .arr 9), ("iter", .int 7)], history := [("u", [.arr 1])], nDim := 5 }
           let r := updateFromDict f (smSaveDict smDefaultExclude { s with current := s.current.filter (·.1 != "assignments") })
           (lookup "iter" r.current, lookup "steps" r.current, lookup "assignments" r.current, lookup "u" r.history, r.nDim))
    = (some (.int 3), some .none, some (.arr 9), some [], 2) := by decide
example : (fromDict { cur := some [("beta", .real 5)], hist := none, nDim := none }).nDim = 1 := by decide

end Examples

end Props.C08
