import TempestVerif.Model.Warmup
import TempestVerif.Lemmas.ScReal
import TempestVerif.Lemmas.MIS
import Mathlib.Tactic
import Mathlib.Algebra.BigOperators.Pi
import Mathlib.Data.Fintype.BigOperators
import Mathlib.Analysis.SpecialFunctions.Log.Basic
/-
  C11 — zero-likelihood prior regions are excluded and counted exactly once.
  Linear-space model (Z = exp logz) of the warm-up phase after the `fix:` that SETS the batch's
  log(n_finite/n) instead of adding it.  `f_t = nfin_t / n_t` is the finite fraction of batch t.
-/
namespace Props.C11
open Model.Warmup
open Model.Records (scatterFrom)

/-! ### the sums behind the reweighting step -/

theorem foldl_add_sum (l : List ℝ) (a : ℝ) : l.foldl (· + ·) a = a + l.sum := by
  induction l generalizing a with
  | nil => simp
  | cons x l ih => simp [ih, add_assoc]

theorem foldl_nat_sum (l : List Nat) (a : Nat) : l.foldl (· + ·) a = a + l.sum := by
  induction l generalizing a with
  | nil => simp
  | cons x l ih => simp [ih, Nat.add_assoc]

theorem total_eq (h : List (Nat × ℝ)) : total h = (h.map (·.1)).sum := by
  simp [total, foldl_nat_sum]

/-- `Σ_t (n_t/N)/Z_t` for an explicit `N` -/
noncomputable def S (N : ℝ) (h : List (Nat × ℝ)) : ℝ := (h.map fun b => ((b.1 : ℝ) / N) / b.2).sum

theorem foldl_S (l : List (Nat × ℝ)) (N a : ℝ) :
    l.foldl (fun acc b => acc + ((b.1 : ℝ) / N) / b.2) a = a + (l.map fun b => ((b.1 : ℝ) / N) / b.2).sum := by
  induction l generalizing a with
  | nil => simp
  | cons x l ih => simp [ih, add_assoc]

theorem invMix_eq (h : List (Nat × ℝ)) : invMix h = S (total h : ℝ) h := by
  unfold invMix S
  simp only [ScReal.add_def, ScReal.div_def, ScReal.ofNat_def, ScReal.zero_def]
  rw [foldl_S]; simp

theorem total_cast (h : List (Nat × ℝ)) : ((total h : ℕ) : ℝ) = (h.map fun b => (b.1 : ℝ)).sum := by
  rw [total_eq, Nat.cast_list_sum, List.map_map]; rfl

theorem S_bounds (N lo hi : ℝ) (hN : 0 < N) (hlo : 0 < lo) (h : List (Nat × ℝ))
    (hb : ∀ b ∈ h, lo ≤ b.2 ∧ b.2 ≤ hi) :
    ((h.map (·.1)).sum : ℝ) / N / hi ≤ S N h ∧ S N h ≤ ((h.map (·.1)).sum : ℝ) / N / lo := by
  induction h with
  | nil => simp [S]
  | cons x l ih =>
    have hx := hb x (by simp)
    have hl := ih (fun b hb' => hb b (by simp [hb']))
    have hx0 : 0 < x.2 := lt_of_lt_of_le hlo hx.1
    have hhi : 0 < hi := lt_of_lt_of_le hx0 hx.2
    have hn : (0 : ℝ) ≤ (x.1 : ℝ) / N := by positivity
    have e1 : (x.1 : ℝ) / N / hi ≤ (x.1 : ℝ) / N / x.2 := div_le_div_of_nonneg_left hn hx0 hx.2
    have e2 : (x.1 : ℝ) / N / x.2 ≤ (x.1 : ℝ) / N / lo := div_le_div_of_nonneg_left hn hlo hx.1
    simp only [S, List.map_cons, List.sum_cons, Nat.cast_add] at *
    constructor
    · have : ((x.1 : ℝ) + ((l.map (·.1)).sum : ℝ)) / N / hi
          = (x.1 : ℝ) / N / hi + ((l.map (·.1)).sum : ℝ) / N / hi := by ring
      rw [this]; linarith [hl.1]
    · have : ((x.1 : ℝ) + ((l.map (·.1)).sum : ℝ)) / N / lo
          = (x.1 : ℝ) / N / lo + ((l.map (·.1)).sum : ℝ) / N / lo := by ring
      rw [this]; linarith [hl.2]

/-- the history-based estimate is a weighted harmonic mean: it stays inside the range of the recorded values -/
theorem reweightZ_bounds (lo hi : ℝ) (hlo : 0 < lo) (h : List (Nat × ℝ)) (hne : h ≠ [])
    (hn : ∀ b ∈ h, 0 < b.1) (hb : ∀ b ∈ h, lo ≤ b.2 ∧ b.2 ≤ hi) :
    lo ≤ reweightZ h ∧ reweightZ h ≤ hi := by
  have hemp : h.isEmpty = false := by cases h <;> simp_all
  have hT : 0 < total h := by
    rw [total_eq]
    cases h with
    | nil => exact absurd rfl hne
    | cons x l => have := hn x (by simp); simp; omega
  have hTr : (0 : ℝ) < (total h : ℝ) := by exact_mod_cast hT
  have hs := S_bounds (total h : ℝ) lo hi hTr hlo h hb
  have hone : ((h.map (·.1)).sum : ℝ) / (total h : ℝ) = 1 := by
    rw [← total_cast]; exact div_self hTr.ne'
  have hhi : 0 < hi := by
    cases h with
    | nil => exact absurd rfl hne
    | cons x l => have := hb x (by simp); linarith
  rw [hone] at hs
  simp only [reweightZ, hemp, Bool.false_eq_true, if_false, invMix_eq]
  simp only [ScReal.div_def, ScReal.one_def]
  have hSpos : 0 < S (total h : ℝ) h := lt_of_lt_of_le (by positivity) hs.1
  constructor
  · rw [le_div_iff₀ hSpos]
    have := hs.2
    rw [le_div_iff₀ hlo] at this; linarith [mul_comm lo (S (total h : ℝ) h)]
  · rw [div_le_iff₀ hSpos]
    have := hs.1
    rw [div_le_iff₀ hhi] at this; linarith [mul_comm hi (S (total h : ℝ) h)]

/-! ### counted once -/

/-- all recorded values lie in [lo, hi], all batch sizes positive -/
def Inv (lo hi : ℝ) (h : List (Nat × ℝ)) : Prop := ∀ b ∈ h, 0 < b.1 ∧ lo ≤ b.2 ∧ b.2 ≤ hi

/-- a batch is admissible when it is non-empty and, if it had -inf draws, its finite fraction lies in [lo, hi] -/
def BatchOk (lo hi : ℝ) (b : Nat × Nat) : Prop :=
  0 < b.1 ∧ (b.2 < b.1 → lo ≤ (b.2 : ℝ) / (b.1 : ℝ) ∧ (b.2 : ℝ) / (b.1 : ℝ) ≤ hi)

theorem batchZ_inv (lo hi : ℝ) (hlo : 0 < lo) (h : List (Nat × ℝ)) (hne : h ≠ []) (hi' : Inv lo hi h)
    (n nfin : Nat) (hb : BatchOk lo hi (n, nfin)) : lo ≤ batchZ h n nfin ∧ batchZ h n nfin ≤ hi := by
  unfold batchZ
  split
  · rename_i hlt; simpa using hb.2 hlt
  · exact reweightZ_bounds lo hi hlo h hne (fun b hb' => (hi' b hb').1) (fun b hb' => (hi' b hb').2)

theorem run_inv (lo hi : ℝ) (hlo : 0 < lo) (bs : List (Nat × Nat)) (h : List (Nat × ℝ)) (hne : h ≠ [])
    (hi' : Inv lo hi h) (hbs : ∀ b ∈ bs, BatchOk lo hi b) : Inv lo hi (run batchZ h bs) := by
  induction bs generalizing h with
  | nil => simpa [run] using hi'
  | cons b bs ih =>
    obtain ⟨n, nfin⟩ := b
    simp only [run]
    have hb := hbs (n, nfin) (by simp)
    have hz := batchZ_inv lo hi hlo h hne hi' n nfin hb
    apply ih
    · simp
    · intro c hc
      rcases List.mem_append.mp hc with hc | hc
      · exact hi' c hc
      · simp at hc; subst hc; exact ⟨hb.1, hz.1, hz.2⟩
    · intro c hc; exact hbs c (by simp [hc])

/-- C11 (counted once): if the first warm-up batch had -inf draws and every batch that had -inf draws has a
    finite fraction in [lo, hi], then EVERY recorded warm-up evidence lies in [lo, hi] — however many
    warm-up iterations occur.  Nothing compounds. -/
theorem C11_once (lo hi : ℝ) (hlo : 0 < lo) (n nfin : Nat) (hfirst : nfin < n) (rest : List (Nat × Nat))
    (hb : ∀ b ∈ (n, nfin) :: rest, BatchOk lo hi b) :
    ∀ e ∈ run batchZ [] ((n, nfin) :: rest), lo ≤ e.2 ∧ e.2 ≤ hi := by
  have h0 := hb (n, nfin) (by simp)
  have hz : batchZ ([] : List (Nat × ℝ)) n nfin = (nfin : ℝ) / (n : ℝ) := by simp [batchZ, hfirst]
  have hinv : Inv lo hi [(n, batchZ ([] : List (Nat × ℝ)) n nfin)] := by
    intro c hc; simp at hc; subst hc
    rw [hz]; exact ⟨h0.1, h0.2 hfirst⟩
  have := run_inv lo hi hlo rest _ (by simp) hinv (fun b hb' => hb b (by simp [hb']))
  intro e he
  simp only [run, List.nil_append] at he
  exact (this e he).2

/-- … in particular, when every batch that had -inf draws shows the same fraction `f`, every recorded warm-up
    evidence is exactly `f`: the fraction is counted once -/
theorem C11_once_exact (f : ℝ) (hf : 0 < f) (n nfin : Nat) (hfirst : nfin < n) (rest : List (Nat × Nat))
    (hb : ∀ b ∈ (n, nfin) :: rest, 0 < b.1 ∧ (b.2 < b.1 → (b.2 : ℝ) / (b.1 : ℝ) = f)) :
    ∀ e ∈ run batchZ [] ((n, nfin) :: rest), e.2 = f := by
  intro e he
  have := C11_once f f hf n nfin hfirst rest
    (fun b hb' => ⟨(hb b hb').1, fun hlt => by rw [(hb b hb').2 hlt]; exact ⟨le_refl _, le_refl _⟩⟩) e he
  linarith [this.1, this.2]

/-- without any assumption on the first batch: every recorded value is at least the smallest fraction and at most 1 -/
theorem C11_bounds_unit (lo : ℝ) (hlo : 0 < lo) (hlo1 : lo ≤ 1) (bs : List (Nat × Nat))
    (hb : ∀ b ∈ bs, BatchOk lo 1 b) : ∀ e ∈ run batchZ [] bs, lo ≤ e.2 ∧ e.2 ≤ 1 := by
  cases bs with
  | nil => intro e he; simp [run] at he
  | cons b rest =>
    obtain ⟨n, nfin⟩ := b
    have h0 := hb (n, nfin) (by simp)
    have hinv : Inv lo 1 [(n, batchZ ([] : List (Nat × ℝ)) n nfin)] := by
      intro c hc; simp at hc; subst hc
      refine ⟨h0.1, ?_⟩
      unfold batchZ
      split
      · rename_i hlt; simpa using h0.2 hlt
      · simp [reweightZ, hlo1]
    have := run_inv lo 1 hlo rest _ (by simp) hinv (fun c hc => hb c (by simp [hc]))
    intro e he
    simp only [run, List.nil_append] at he
    exact (this e he).2

/-- … in log space (what the code stores): `log lo ≤ logz_t ≤ log hi` for every warm-up iteration -/
theorem C11_once_log (lo hi : ℝ) (hlo : 0 < lo) (n nfin : Nat) (hfirst : nfin < n) (rest : List (Nat × Nat))
    (hb : ∀ b ∈ (n, nfin) :: rest, BatchOk lo hi b) :
    ∀ e ∈ run batchZ [] ((n, nfin) :: rest), Real.log lo ≤ Real.log e.2 ∧ Real.log e.2 ≤ Real.log hi := by
  intro e he
  have h := C11_once lo hi hlo n nfin hfirst rest hb e he
  exact ⟨Real.log_le_log hlo h.1, Real.log_le_log (lt_of_lt_of_le hlo h.1) h.2⟩

/-- consistency envelope: if the finite fraction of every batch that had -inf draws is within `ε` of the supported prior
    mass `f`, so is every recorded warm-up evidence — for any number of warm-up iterations and any batch sizes -/
theorem C11_once_eps (f ε : ℝ) (hε : ε < f) (n nfin : Nat) (hfirst : nfin < n) (rest : List (Nat × Nat))
    (hb : ∀ b ∈ (n, nfin) :: rest, 0 < b.1 ∧ (b.2 < b.1 → |(b.2 : ℝ) / (b.1 : ℝ) - f| ≤ ε)) :
    ∀ e ∈ run batchZ [] ((n, nfin) :: rest), |e.2 - f| ≤ ε := by
  intro e he
  have := C11_once (f - ε) (f + ε) (by linarith) n nfin hfirst rest
    (fun b hb' => ⟨(hb b hb').1, fun hlt => by
      have := abs_le.mp ((hb b hb').2 hlt); constructor <;> linarith [this.1, this.2]⟩) e he
  rw [abs_le]; constructor <;> linarith [this.1, this.2]

/-- the history-based estimate is positive when every recorded value is -/
theorem reweightZ_pos (h : List (Nat × ℝ)) (hn : ∀ b ∈ h, 0 < b.1) (hz : ∀ b ∈ h, 0 < b.2) : 0 < reweightZ h := by
  cases h with
  | nil => simp [reweightZ]
  | cons x l =>
    -- a finite list of positive reals has a positive lower and an upper bound
    have hex : ∀ l' : List (Nat × ℝ), (∀ b ∈ l', 0 < b.2) → ∃ lo hi : ℝ, 0 < lo ∧ ∀ b ∈ l', lo ≤ b.2 ∧ b.2 ≤ hi := by
      intro l' hl'
      induction l' with
      | nil => exact ⟨1, 1, one_pos, by simp⟩
      | cons y ys ih =>
        obtain ⟨lo, hi, hlo, hb⟩ := ih (fun b hb => hl' b (by simp [hb]))
        have hy := hl' y (by simp)
        refine ⟨min lo y.2, max hi y.2, lt_min hlo hy, ?_⟩
        intro b hb'
        rcases List.mem_cons.mp hb' with rfl | hb'
        · exact ⟨min_le_right _ _, le_max_right _ _⟩
        · exact ⟨le_trans (min_le_left _ _) (hb b hb').1, le_trans (hb b hb').2 (le_max_left _ _)⟩
    obtain ⟨lo, hi, hlo, hb⟩ := hex (x :: l) hz
    exact lt_of_lt_of_le hlo (reweightZ_bounds lo hi hlo (x :: l) (by simp) hn hb).1

/-! ### the first recorded value is an unbiased estimate of the supported prior mass -/

/-- the first batch records `nfin / n` whatever `nfin` is (all finite: `reweightZ [] = 1 = n/n`; none finite: 0) -/
theorem batchZ_first (n nfin : Nat) (hn : 0 < n) (hle : nfin ≤ n) :
    batchZ ([] : List (Nat × ℝ)) n nfin = (nfin : ℝ) / (n : ℝ) := by
  unfold batchZ
  split
  · simp
  · have : nfin = n := by omega
    subst this
    have : (nfin : ℝ) ≠ 0 := by exact_mod_cast hn.ne'
    simp [reweightZ, this]

section unbiased
open Finset
variable {Ω : Type} [Fintype Ω]

/-- expectation of a function of one coordinate under an i.i.d. product law -/
theorem sum_prod_coord (p g : Ω → ℝ) (hp1 : ∑ x, p x = 1) (n : ℕ) (j : Fin n) :
    ∑ ω : Fin n → Ω, (∏ i, p (ω i)) * g (ω j) = ∑ x, p x * g x := by
  have h1 : ∀ ω : Fin n → Ω, (∏ i, p (ω i)) * g (ω j)
      = ∏ i, (p (ω i) * (if i = j then g (ω i) else 1)) := by
    intro ω
    rw [Finset.prod_mul_distrib]
    congr 1
    rw [Finset.prod_ite_eq']
    simp
  simp_rw [h1]
  have := (Finset.prod_univ_sum (fun _ : Fin n => (Finset.univ : Finset Ω))
    (fun i x => p x * (if i = j then g x else 1))).symm
  rw [Fintype.piFinset_univ] at this
  rw [this]
  rw [Finset.prod_eq_single j]
  · simp
  · intro i _ hij; simp [hij, hp1]
  · simp

/-- C11 (the recorded evidence estimates the supported prior mass): over `n` independent prior draws (law `p` on a finite
    space, `A` = "the likelihood is finite"), the EXPECTATION of the evidence recorded for the first warm-up batch —
    including the batches with no -inf draw (records 1) and with no finite draw (records 0) — is exactly `p(A)`. -/
theorem C11_first_batch_unbiased (p : Ω → ℝ) (hp1 : ∑ x, p x = 1) (A : Ω → Prop) [DecidablePred A]
    (n : ℕ) (hn : 0 < n) :
    ∑ ω : Fin n → Ω, (∏ i, p (ω i)) * batchZ ([] : List (Nat × ℝ)) n (univ.filter fun i => A (ω i)).card
      = ∑ x, if A x then p x else 0 := by
  have hnr : (n : ℝ) ≠ 0 := by exact_mod_cast hn.ne'
  have hcard : ∀ ω : Fin n → Ω, batchZ ([] : List (Nat × ℝ)) n (univ.filter fun i => A (ω i)).card
      = (∑ j, if A (ω j) then (1 : ℝ) else 0) / n := by
    intro ω
    rw [batchZ_first n _ hn (by simpa using Finset.card_filter_le (univ : Finset (Fin n)) _)]
    congr 1
    rw [Finset.card_filter]; push_cast; rfl
  simp_rw [hcard, Finset.sum_div, Finset.mul_sum]
  rw [Finset.sum_comm]
  have : ∀ j : Fin n, ∑ ω : Fin n → Ω, (∏ i, p (ω i)) * ((if A (ω j) then (1 : ℝ) else 0) / n)
      = (∑ x, if A x then p x else 0) / n := by
    intro j
    have := sum_prod_coord p (fun x => (if A x then (1 : ℝ) else 0) / n) hp1 n j
    rw [this, Finset.sum_div]
    refine Finset.sum_congr rfl fun x _ => ?_
    split <;> simp [div_eq_mul_inv]
  simp_rw [this]
  simp [Finset.sum_const]
  field_simp

/-- non-vacuity: a fair coin, `A` = heads, three draws: the expected recorded evidence is 1/2 -/
example : ∑ ω : Fin 3 → Fin 2, (∏ i, (fun _ : Fin 2 => (1 / 2 : ℝ)) (ω i)) *
    batchZ ([] : List (Nat × ℝ)) 3 (univ.filter fun i => ω i = 1).card = 1 / 2 := by
  rw [C11_first_batch_unbiased (fun _ : Fin 2 => (1 / 2 : ℝ)) (by simp) (fun x => x = 1) 3 (by norm_num)]
  simp

end unbiased

/-- the repaired defect, for the record: with the old rule (correction ADDED on top of the history-based
    estimate) two half-supported batches recorded 1/2 and then 1/4; the current rule records 1/2 twice -/
theorem C11_old_rule_compounded :
    (run batchZOld ([] : List (Nat × ℝ)) [(2, 1), (2, 1)]).map (·.2) = [1 / 2, 1 / 4] ∧
    (run batchZ ([] : List (Nat × ℝ)) [(2, 1), (2, 1)]).map (·.2) = [1 / 2, 1 / 2] := by
  constructor
  · simp [run, batchZOld, reweightZ, invMix, total]; norm_num
  · simp [run, batchZ, reweightZ, invMix, total]

/-- the excluded point (recorded known finding): a batch with no finite draw records Z = 0 (logz = -inf) -/
theorem C11_all_inf_batch (h : List (Nat × ℝ)) (n : Nat) (hn : 0 < n) : batchZ h n 0 = 0 := by
  simp [batchZ, hn]

/-! ### no -inf particle is stored (when the batch has a finite draw) -/

variable {L : Type}

theorem scatter_fin_or_old (fin : L → Prop) (l : List L) (tgt src : List Nat)
    (hlen : tgt.length = src.length)
    (hsrc : ∀ s ∈ src, ∃ v, l[s]? = some v ∧ fin v) :
    ∀ (i : Nat) (v : L), (scatterFrom l tgt src)[i]? = some v → fin v ∨ (l[i]? = some v ∧ i ∉ tgt) := by
  induction tgt generalizing src with
  | nil => intro i v h; right; simpa [scatterFrom] using h
  | cons t ts ih =>
    cases src with
    | nil => simp at hlen
    | cons s ss =>
      intro i v h
      obtain ⟨w, hw, hfw⟩ := hsrc s (by simp)
      simp only [scatterFrom, hw] at h
      by_cases hit : i = t
      · subst hit
        by_cases hr : i < (scatterFrom l ts ss).length
        · rw [List.getElem?_set_self hr] at h; injection h with h; subst h; left; exact hfw
        · rw [List.getElem?_eq_none (by simpa using hr)] at h; cases h
      · rw [List.getElem?_set_ne (fun e => hit e.symm)] at h
        rcases ih ss (by simpa using hlen) (fun s' hs' => hsrc s' (by simp [hs'])) i v h with hfin | ⟨hold, hnot⟩
        · left; exact hfin
        · right; exact ⟨hold, by simp [hit, hnot]⟩

/-- every value of the result was a value of the original list (the replacement invents nothing) -/
theorem scatterFrom_mem (l : List L) (tgt src : List Nat) : ∀ v ∈ scatterFrom l tgt src, v ∈ l := by
  induction tgt generalizing src with
  | nil => intro v h; simpa [scatterFrom] using h
  | cons t ts ih =>
    cases src with
    | nil => intro v h; simpa [scatterFrom] using h
    | cons s ss =>
      intro v h
      simp only [scatterFrom] at h
      cases hs : l[s]? with
      | none => rw [hs] at h; exact ih ss v h
      | some w =>
        rw [hs] at h
        rcases List.mem_or_eq_of_mem_set h with h | rfl
        · exact ih ss v h
        · exact List.mem_of_getElem? hs

theorem scatterFrom_length (l : List L) (tgt src : List Nat) : (scatterFrom l tgt src).length = l.length := by
  induction tgt generalizing src with
  | nil => simp [scatterFrom]
  | cons t ts ih =>
    cases src with
    | nil => simp [scatterFrom]
    | cons s ss =>
      simp only [scatterFrom]
      cases l[s]? with
      | none => exact ih ss
      | some w => simp [ih ss]

/-- C11 (no -inf stored): `logl[infinite_idx] = logl[idx]` with `infinite_idx` = all positions holding a
    non-finite value and `idx` drawn among positions holding finite values leaves only finite values -/
theorem C11_no_inf_stored (fin : L → Prop) (l : List L) (tgt src : List Nat)
    (hlen : tgt.length = src.length)
    (hsrc : ∀ s ∈ src, ∃ v, l[s]? = some v ∧ fin v)
    (hcover : ∀ (i : Nat) (v : L), l[i]? = some v → ¬ fin v → i ∈ tgt) :
    ∀ (i : Nat) (v : L), (scatterFrom l tgt src)[i]? = some v → fin v := by
  intro i v h
  rcases scatter_fin_or_old fin l tgt src hlen hsrc i v h with hf | ⟨hold, hnot⟩
  · exact hf
  · by_contra hc; exact hnot (hcover i v hold hc)

/-! ### the final evidence is the integral over the supported region -/
section final
open Lemmas.MIS Finset
variable {Ω T : Type} [Fintype Ω] [Fintype T]

/-- C11 (final evidence): let the likelihood vanish on part of the prior.  Restricted to the supported region
    `Ω⁺ = {x | 0 < L x}` every stored batch — the warm-up batches are draws from the prior RESTRICTED to Ω⁺, recorded with the
    normaliser `Z_0 = p(Ω⁺)`, the supported prior mass counted once — has its nominal tempered law on Ω⁺, so the
    mixture-importance estimator is exactly unbiased for the integral over Ω⁺, and for β > 0 that integral is the whole integral
    (the likelihood contributes nothing outside Ω⁺). -/
theorem C11_final (p L : Ω → ℝ) (n bt : T → ℝ) (β : ℝ) (f : Ω → ℝ)
    (hp : ∀ x, 0 ≤ p x) (hsupp : ∃ x, 0 < L x ∧ 0 < p x) (hL : ∀ x, 0 ≤ L x)
    (hn : ∀ t, 0 ≤ n t) (hN : 0 < ∑ s, n s) (hβ : 0 < β) :
    let S := {x : Ω // 0 < L x}
    let p' : S → ℝ := fun x => p x.1
    let L' : S → ℝ := fun x => L x.1
    let f' : S → ℝ := fun x => f x.1
    -- unbiased for the supported integral …
    (∑ t, (n t / ∑ s, n s) * ∑ x, piB p' L' (bt t) x * (f' x * misW p' L' n bt β x) = ∑ x, gam p' L' β x * f' x) ∧
    -- … the β = 0 normaliser is the supported prior mass …
    Zf p' L' 0 = ∑ x : S, p x.1 ∧
    -- … and the supported integral is the whole integral
    ∑ x : S, gam p' L' β x * f' x = ∑ x, p x * L x ^ β * f x := by
  classical
  intro S p' L' f'
  obtain ⟨x0, hx0L, hx0p⟩ := hsupp
  refine ⟨?_, ?_, ?_⟩
  · exact mis_core p' L' n bt β f' fun x _ =>
      (den_pos p' L' n bt hn hN (fun x => x.2)
        (fun t => Zf_pos p' L' (fun x => hp x.1) ⟨⟨x0, hx0L⟩, hx0p⟩ (fun x => x.2) (bt t)) x).ne'
  · exact Zf_zero p' L'
  · -- sum over the subtype = sum over Ω of the same summand, which vanishes where L = 0
    have : ∑ x : S, gam p' L' β x * f' x = ∑ x : S, (fun y : Ω => p y * L y ^ β * f y) x.1 := by
      refine Finset.sum_congr rfl fun x _ => ?_
      simp [gam, p', L', f']
    rw [this, ← Finset.sum_subtype (Finset.univ.filter fun y : Ω => 0 < L y) (by simp)
      (fun y : Ω => p y * L y ^ β * f y)]
    rw [Finset.sum_filter]
    refine Finset.sum_congr rfl fun y _ => ?_
    by_cases hy : 0 < L y
    · simp [hy]
    · have : L y = 0 := le_antisymm (not_lt.mp hy) (hL y)
      simp [hy, this, Real.zero_rpow hβ.ne']

/-- C11 (warm-up evidence ↔ final evidence): the expectation of the first recorded warm-up evidence is exactly the
    beta = 0 normaliser `Z_0` of the supported region that `C11_final` needs — the supported prior mass, counted once -/
theorem C11_first_batch_is_Z0 {Ω : Type} [Fintype Ω] (p L : Ω → ℝ) (hp1 : ∑ x, p x = 1) (n : ℕ) (hn : 0 < n) :
    ∑ ω : Fin n → Ω, (∏ i, p (ω i)) *
        batchZ ([] : List (Nat × ℝ)) n (Finset.univ.filter fun i => 0 < L (ω i)).card
      = Zf (fun x : {x : Ω // 0 < L x} => p x.1) (fun x => L x.1) 0 := by
  classical
  rw [C11_first_batch_unbiased p hp1 (fun x => 0 < L x) n hn, Zf_zero]
  rw [← Finset.sum_subtype (Finset.univ.filter fun y : Ω => 0 < L y) (by simp) (fun y : Ω => p y), Finset.sum_filter]

/-- non-vacuity: two states, the likelihood vanishes on the first; one warm-up batch (β = 0) and one at β = 1 -/
example : ∑ x : {x : Fin 2 // 0 < (fun i : Fin 2 => if i = 0 then (0 : ℝ) else 2) x},
    gam (fun y => (1 / 2 : ℝ)) (fun y => if y.1 = 0 then (0 : ℝ) else 2) 1 x * 1
    = ∑ x : Fin 2, (1 / 2 : ℝ) * (if x = 0 then (0 : ℝ) else 2) ^ (1 : ℝ) * 1 :=
  (C11_final (fun _ : Fin 2 => (1 / 2 : ℝ)) (fun i => if i = 0 then 0 else 2) (fun _ : Fin 2 => (1 : ℝ))
    (fun t : Fin 2 => if t = 0 then 0 else 1) 1 (fun _ => 1) (by intro x; norm_num)
    ⟨1, by simp, by norm_num⟩ (by intro x; split <;> norm_num) (by intro t; norm_num) (by simp) one_pos).2.2

end final

/-! ### non-vacuity -/
example : scatterFrom [5, 0, 7, 0] [1, 3] [2, 0] = [5, 7, 7, 5] := by decide
example : ∀ e ∈ run batchZ ([] : List (Nat × ℝ)) [(4, 2), (4, 4), (8, 4)], e.2 = 1 / 2 := by
  apply C11_once_exact (1 / 2) (by norm_num) 4 2 (by norm_num)
  intro b hb
  simp at hb
  rcases hb with rfl | rfl | rfl <;> norm_num

end Props.C11
