import TempestVerif.Model.Pipeline
import TempestVerif.Lemmas.ScReal
import TempestVerif.Lemmas.Rounded
import TempestVerif.Props.C04
import TempestVerif.Props.C20
import Mathlib.Tactic
/-
  C10 — "… are unchanged UP TO FLOATING-POINT ROUNDING": how far can rounding move things when `c` is added?

  The theorems of `Props/C10.lean` / `Props/C10Closed.lean` are exact-real statements.  Here the scalar is `Rd rnd`
  (`Lemmas/Rounded.lean`): every `+ − * exp` is the exact operation followed by `rnd`, and

      H_round  (`StdModel rnd u η`):   |rnd x − x| ≤ u·|x| + η   for every x     (binary64: u = 2^-52, η = 2^-1074)

  is the standard model of floating-point arithmetic WITHOUT overflow (all quantities here are below 1e4·1e3).  H_round
  is an assumption (Lean's `Float` is opaque); the suite `rounding-bounds` evaluates the proved bound on the doubles of
  every recorded accept/reject step.

    C10_round_exponent     the Metropolis exponent  β ⊗ (ℓ' ⊖ ℓ) ⊕ factor  — the GENERATED expression of
                           `Gen.Kernel.acceptProb` evaluated at `Rd rnd` — computed from the stored values rnd(ℓ + c),
                           rnd(ℓ' + c) differs from the one computed from ℓ, ℓ' by at most
                           u·(β(8|ℓ'−ℓ| + 2(|ℓ|+|ℓ'|) + 4|c|) + 8|factor|) + 11η        (≈ 1e-12 for |c| = 1000)
    C10_round_alpha        … hence the acceptance probability min(1, exp ·) by at most the same amount: an accept/reject
                           decision can flip only if the uniform lies within that distance of α
    C10_round_ess_stable   (exact arithmetic on perturbed data) if the stored ℓ and z_t of the shifted run deviate from
                           ℓ + c, z_t + β_t c by at most ε, every ESS the temperature search evaluates moves by a factor
                           within exp(±12ε): the schedule can change only at a trial β whose ESS is within that relative
                           distance of the target
-/
namespace Props.C10Round
open Model.Weights Model.Pipeline

/-- H_round: relative-error model of rounding with gradual underflow, no overflow -/
structure StdModel (rnd : ℝ → ℝ) (u η : ℝ) : Prop where
  u_nonneg : 0 ≤ u
  u_le : u ≤ 1 / 8
  η_nonneg : 0 ≤ η
  err : ∀ x, |rnd x - x| ≤ u * |x| + η

variable {rnd : ℝ → ℝ} {u η : ℝ}

/-- the exponent of `alpha = np.exp(self.beta * (logl_prime - self.logl) + alpha)` as the floating-point evaluation
    computes it from the difference `d = logl_prime − logl` -/
noncomputable def chain (rnd : ℝ → ℝ) (β d f : ℝ) : ℝ := rnd (rnd (β * rnd d) + f)

/-- it IS the exponent inside the generated acceptance expression, evaluated at the rounded scalars -/
theorem chain_is_generated (β l lp f : Rd rnd) :
    (Sc.add (Sc.mul β (Sc.sub lp l)) f).v = chain rnd β.v (lp.v - l.v) f.v := by
  simp [chain]

theorem chain_err (sm : StdModel rnd u η) (β d f : ℝ) (hβ0 : 0 ≤ β) (hβ1 : β ≤ 1) :
    |chain rnd β d f - (β * d + f)| ≤ 4 * u * (β * |d| + |f|) + 4 * η := by
  have hu := sm.u_nonneg
  have hu8 := sm.u_le
  have hη := sm.η_nonneg
  have e1 := sm.err d
  have e2 := sm.err (β * rnd d)
  have e3 := sm.err (rnd (β * rnd d) + f)
  set D := rnd d
  set p := rnd (β * D)
  set E := rnd (p + f)
  have ha : 0 ≤ |d| := abs_nonneg d
  have hf : 0 ≤ |f| := abs_nonneg f
  -- |D| ≤ |d| + (u|d| + η)
  have hD : |D| ≤ |d| + (u * |d| + η) := by
    have := abs_sub_abs_le_abs_sub D d
    linarith
  have hβD : |β * D| = β * |D| := by rw [abs_mul, abs_of_nonneg hβ0]
  -- |p − β d| ≤ B1
  have hp : |p - β * d| ≤ u * (β * |D|) + η + β * (u * |d| + η) := by
    have h1 : |p - β * d| ≤ |p - β * D| + |β * D - β * d| := by
      have := abs_sub_le p (β * D) (β * d); exact this
    have h2 : |β * D - β * d| = β * |D - d| := by rw [← mul_sub, abs_mul, abs_of_nonneg hβ0]
    have h3 : β * |D - d| ≤ β * (u * |d| + η) := mul_le_mul_of_nonneg_left e1 hβ0
    rw [hβD] at e2
    linarith
  have hs : |p + f| ≤ β * |d| + |f| + |p - β * d| := by
    have h1 : p + f = (β * d + f) + (p - β * d) := by ring
    rw [h1]
    have h2 := abs_add_le (β * d + f) (p - β * d)
    have h3 := abs_add_le (β * d) f
    have h4 : |β * d| = β * |d| := by rw [abs_mul, abs_of_nonneg hβ0]
    linarith
  have hE : |E - (β * d + f)| ≤ |E - (p + f)| + |p - β * d| := by
    have := abs_sub_le E (p + f) (β * d + f)
    have h2 : p + f - (β * d + f) = p - β * d := by ring
    rw [h2] at this; exact this
  -- numeric: everything is linear once the products u·(…) are bounded with u ≤ 1/8, β ≤ 1
  have k1 : u * (β * |D|) ≤ u * (β * (|d| + (u * |d| + η))) :=
    mul_le_mul_of_nonneg_left (mul_le_mul_of_nonneg_left hD hβ0) hu
  have k2 : u * (β * (u * |d| + η)) ≤ (1 / 8) * (β * (u * |d| + η)) := by
    apply mul_le_mul_of_nonneg_right hu8
    exact mul_nonneg hβ0 (by positivity)
  have k3 : β * η ≤ η := by nlinarith
  have k4 : 0 ≤ u * (β * |d|) := by positivity
  have k5 : 0 ≤ β * |d| := by positivity
  have B1 : |p - β * d| ≤ (17 / 8) * (u * (β * |d|)) + (17 / 8) * η := by
    have : u * (β * (|d| + (u * |d| + η))) = u * (β * |d|) + u * (β * (u * |d| + η)) := by ring
    have h6 : β * (u * |d| + η) = u * (β * |d|) + β * η := by ring
    nlinarith
  have k6 : u * |p + f| ≤ u * (β * |d| + |f| + |p - β * d|) := mul_le_mul_of_nonneg_left hs hu
  have k7 : u * |p - β * d| ≤ (1 / 8) * |p - β * d| := mul_le_mul_of_nonneg_right hu8 (abs_nonneg _)
  have k8 : 0 ≤ u * |f| := by positivity
  have hEe : chain rnd β d f = E := rfl
  rw [hEe]
  have k9 : u * (β * |d| + |f| + |p - β * d|) = u * (β * |d|) + u * |f| + u * |p - β * d| := by ring
  have k10 : 4 * u * (β * |d| + |f|) = 4 * (u * (β * |d|)) + 4 * (u * |f|) := by ring
  linarith

/-- **rounded Metropolis exponent under a shift of the likelihood**: the shifted run stores `rnd(ℓ + c)`, `rnd(ℓ' + c)` and
    computes its exponent from their difference -/
theorem C10_round_exponent (sm : StdModel rnd u η) (β l lp f c : ℝ) (hβ0 : 0 ≤ β) (hβ1 : β ≤ 1) :
    |chain rnd β (rnd (lp + c) - rnd (l + c)) f - chain rnd β (lp - l) f|
      ≤ u * (β * (8 * |lp - l| + 2 * (|l| + |lp|) + 4 * |c|) + 8 * |f|) + 11 * η := by
  have hu := sm.u_nonneg
  have hu8 := sm.u_le
  have hη := sm.η_nonneg
  set d := lp - l
  set d' := rnd (lp + c) - rnd (l + c)
  have c1 := chain_err sm β d f hβ0 hβ1
  have c2 := chain_err sm β d' f hβ0 hβ1
  have e1 := sm.err (l + c)
  have e2 := sm.err (lp + c)
  have hdd : |d' - d| ≤ u * (|l| + |lp| + 2 * |c|) + 2 * η := by
    have h1 : d' - d = (rnd (lp + c) - (lp + c)) - (rnd (l + c) - (l + c)) := by simp only [d', d]; ring
    rw [h1]
    have h2 := abs_sub (rnd (lp + c) - (lp + c)) (rnd (l + c) - (l + c))
    have h3 := abs_add_le l c
    have h4 := abs_add_le lp c
    have h5 : u * |l + c| ≤ u * (|l| + |c|) := mul_le_mul_of_nonneg_left h3 hu
    have h6 : u * |lp + c| ≤ u * (|lp| + |c|) := mul_le_mul_of_nonneg_left h4 hu
    nlinarith
  have hd' : |d'| ≤ |d| + (u * (|l| + |lp| + 2 * |c|) + 2 * η) := by
    have := abs_sub_abs_le_abs_sub d' d
    linarith
  have htri : |chain rnd β d' f - chain rnd β d f|
      ≤ |chain rnd β d' f - (β * d' + f)| + |β * d' - β * d| + |chain rnd β d f - (β * d + f)| := by
    have h1 : chain rnd β d' f - chain rnd β d f
        = (chain rnd β d' f - (β * d' + f)) + (β * d' - β * d) - (chain rnd β d f - (β * d + f)) := by ring
    rw [h1]
    have h2 := abs_sub ((chain rnd β d' f - (β * d' + f)) + (β * d' - β * d)) (chain rnd β d f - (β * d + f))
    have h3 := abs_add_le (chain rnd β d' f - (β * d' + f)) (β * d' - β * d)
    linarith
  have hβd : |β * d' - β * d| = β * |d' - d| := by rw [← mul_sub, abs_mul, abs_of_nonneg hβ0]
  have hS : 0 ≤ |l| + |lp| + 2 * |c| := by positivity
  have hd0 : 0 ≤ |d| := abs_nonneg d
  have hf0 : 0 ≤ |f| := abs_nonneg f
  -- 4uβ|d'| ≤ 4uβ|d| + (1/2) u β S + η
  have q1 : β * |d'| ≤ β * |d| + β * (u * (|l| + |lp| + 2 * |c|) + 2 * η) := by
    have := mul_le_mul_of_nonneg_left hd' hβ0; linarith
  have q2 : β * |d' - d| ≤ β * (u * (|l| + |lp| + 2 * |c|) + 2 * η) := mul_le_mul_of_nonneg_left hdd hβ0
  have q3 : 0 ≤ β * (u * (|l| + |lp| + 2 * |c|)) := by positivity
  have q4 : β * η ≤ η := by nlinarith
  have q5 : 4 * u * (β * (u * (|l| + |lp| + 2 * |c|) + 2 * η)) ≤ (1 / 2) * (β * (u * (|l| + |lp| + 2 * |c|))) + η := by
    have h1 : 4 * u ≤ 1 / 2 := by linarith
    have h2 : 0 ≤ β * (u * (|l| + |lp| + 2 * |c|) + 2 * η) := by positivity
    have h3 := mul_le_mul_of_nonneg_right h1 h2
    nlinarith
  have q6 : 4 * u * (β * |d'|) ≤ 4 * u * (β * |d| + β * (u * (|l| + |lp| + 2 * |c|) + 2 * η)) :=
    mul_le_mul_of_nonneg_left q1 (by positivity)
  have q7 : |d| ≤ |l| + |lp| := by
    have := abs_sub lp l; simp only [d]; linarith
  have q8 : β * (u * (|l| + |lp| + 2 * |c|)) = u * (β * (|l| + |lp| + 2 * |c|)) := by ring
  nlinarith

/-- `x ↦ min 1 (exp x)` is 1-Lipschitz -/
theorem min_one_exp_lipschitz (a b : ℝ) : |min 1 (Real.exp a) - min 1 (Real.exp b)| ≤ |a - b| := by
  wlog h : b ≤ a generalizing a b
  · have := this b a (le_of_not_ge h)
    rwa [abs_sub_comm, abs_sub_comm b a] at this
  have hmono : min 1 (Real.exp b) ≤ min 1 (Real.exp a) := min_le_min le_rfl (Real.exp_le_exp.mpr h)
  rw [abs_of_nonneg (sub_nonneg.mpr hmono), abs_of_nonneg (sub_nonneg.mpr h)]
  -- min(1,e^a) − min(1,e^b) ≤ min(1,e^a)·(1 − e^{b−a}) ≤ 1 − e^{−(a−b)} ≤ a − b
  have h1 : Real.exp b = Real.exp a * Real.exp (b - a) := by rw [← Real.exp_add]; congr 1; ring
  have h2 : 1 - (a - b) ≤ Real.exp (b - a) := by
    have := Real.add_one_le_exp (b - a); linarith
  have h3 : Real.exp (b - a) ≤ 1 := Real.exp_le_one_iff.mpr (by linarith)
  have h4 : 0 < Real.exp (b - a) := Real.exp_pos _
  have hm : min 1 (Real.exp a) * Real.exp (b - a) ≤ min 1 (Real.exp b) := by
    apply le_min
    · calc min 1 (Real.exp a) * Real.exp (b - a) ≤ 1 * 1 :=
            mul_le_mul (min_le_left _ _) h3 h4.le zero_le_one
        _ = 1 := one_mul 1
    · rw [h1]
      exact mul_le_mul_of_nonneg_right (min_le_right _ _) h4.le
  have hm1 : min 1 (Real.exp a) ≤ 1 := min_le_left _ _
  have hm0 : 0 ≤ min 1 (Real.exp a) := le_min zero_le_one (Real.exp_pos a).le
  nlinarith

/-- the (exactly evaluated) acceptance probability of the two rounded exponents: an accept/reject decision `r < α` of the
    shifted run can differ from the unshifted one only if `r` lies within the exponent bound of `α` -/
theorem C10_round_alpha (sm : StdModel rnd u η) (β l lp f c : ℝ) (hβ0 : 0 ≤ β) (hβ1 : β ≤ 1) :
    |min 1 (Real.exp (chain rnd β (rnd (lp + c) - rnd (l + c)) f)) - min 1 (Real.exp (chain rnd β (lp - l) f))|
      ≤ u * (β * (8 * |lp - l| + 2 * (|l| + |lp|) + 4 * |c|) + 8 * |f|) + 11 * η :=
  (min_one_exp_lipschitz _ _).trans (C10_round_exponent sm β l lp f c hβ0 hβ1)

theorem C10_round_decision (sm : StdModel rnd u η) (β l lp f c r : ℝ) (hβ0 : 0 ≤ β) (hβ1 : β ≤ 1)
    (hflip : (r < min 1 (Real.exp (chain rnd β (rnd (lp + c) - rnd (l + c)) f)))
      ≠ (r < min 1 (Real.exp (chain rnd β (lp - l) f)))) :
    |r - min 1 (Real.exp (chain rnd β (lp - l) f))|
      ≤ u * (β * (8 * |lp - l| + 2 * (|l| + |lp|) + 4 * |c|) + 8 * |f|) + 11 * η := by
  have hb := C10_round_alpha sm β l lp f c hβ0 hβ1
  set a' := min 1 (Real.exp (chain rnd β (rnd (lp + c) - rnd (l + c)) f))
  set a := min 1 (Real.exp (chain rnd β (lp - l) f))
  have h := abs_le.mp hb
  by_cases h1 : r < a'
  · by_cases h2 : r < a
    · exact absurd (by simp [h1, h2]) hflip
    · push Not at h2
      rw [abs_of_nonneg (by linarith)]
      linarith [h.2]
  · by_cases h2 : r < a
    · push Not at h1
      rw [abs_of_nonpos (by linarith)]
      linarith [h.1]
    · exact absurd (by simp [h1, h2]) hflip

/-- non-vacuity: exact arithmetic is a `StdModel` (u = η = 0: the bound collapses to the exact theorem), and
    round-to-a-grid of spacing 2η is one with u = 0 -/
theorem stdModel_id : StdModel id 0 0 := ⟨le_rfl, by norm_num, le_rfl, by intro x; simp⟩

example (β l lp f c : ℝ) (hβ0 : 0 ≤ β) (hβ1 : β ≤ 1) :
    chain id β (id (lp + c) - id (l + c)) f = chain id β (lp - l) f := by
  have := C10_round_exponent stdModel_id β l lp f c hβ0 hβ1
  simp only [zero_mul, mul_zero, add_zero] at this
  have h0 := abs_nonneg (chain id β (id (lp + c) - id (l + c)) f - chain id β (lp - l) f)
  exact sub_eq_zero.mp (abs_eq_zero.mp (le_antisymm this h0))

/-- rounding to the nearest multiple of `1/4` (ties up) satisfies H_round with u = 0, η = 1/8 -/
noncomputable def rndQ (x : ℝ) : ℝ := (⌊4 * x + 1 / 2⌋ : ℝ) / 4

theorem stdModel_rndQ : StdModel rndQ 0 (1 / 8) := by
  refine ⟨le_rfl, by norm_num, by norm_num, ?_⟩
  intro x
  simp only [rndQ, zero_mul, zero_add]
  have h1 := Int.floor_le (4 * x + 1 / 2)
  have h2 := Int.lt_floor_add_one (4 * x + 1 / 2)
  rw [abs_le]
  constructor <;> linarith

/-- … and under it the shift by `c = 1000.3` (not on the grid) really changes the computed exponent, within the bound -/
example : |chain rndQ (1 / 2) (rndQ (3 + 1000.3) - rndQ (1 + 1000.3)) 0 - chain rndQ (1 / 2) (3 - 1) 0|
    ≤ 0 * ((1 / 2) * (8 * |(3 : ℝ) - 1| + 2 * (|(1 : ℝ)| + |(3 : ℝ)|) + 4 * |(1000.3 : ℝ)|) + 8 * |(0 : ℝ)|) + 11 * (1 / 8) :=
  C10_round_exponent stdModel_rndQ (1 / 2) 1 3 0 1000.3 (by norm_num) (by norm_num)

/-! ### stability of the ESS the temperature search evaluates, when the stored data of the shifted run carry rounding errors -/

open Props.C04 (WF mix specRaw specNorm sumW)
open Props.C20 (ess_def)

/-- the stored history of the shifted run as it really is: every `ℓ` is `ℓ + c + ε(ℓ)` (for the harness' likelihood
    `ε(ℓ) = rnd(ℓ + c) − (ℓ + c)`), every recorded evidence is `z_t + β_t c + ζ_t` -/
def pertB (c : ℝ) (ε : ℝ → ℝ) (ζ : Batch ℝ → ℝ) (b : Batch ℝ) : Batch ℝ :=
  ⟨b.beta, b.logz + b.beta * c + ζ b, b.logl.map fun l => l + c + ε l⟩
def pertH (c : ℝ) (ε : ℝ → ℝ) (ζ : Batch ℝ → ℝ) (h : List (Batch ℝ)) : List (Batch ℝ) := h.map (pertB c ε ζ)

theorem pert_zero (c : ℝ) (h : List (Batch ℝ)) : pertH c (fun _ => 0) (fun _ => 0) h = Props.C04.shiftH c h := by
  simp [pertH, pertB, Props.C04.shiftH, Props.C04.shiftB]

theorem nTotal_pert (c : ℝ) (ε : ℝ → ℝ) (ζ : Batch ℝ → ℝ) (h : List (Batch ℝ)) : nTotal (pertH c ε ζ h) = nTotal h := by
  simp [nTotal, pertH, pertB, List.map_map, Function.comp_def]

theorem WF_pert (c : ℝ) (ε : ℝ → ℝ) (ζ : Batch ℝ → ℝ) (h : List (Batch ℝ)) (hwf : WF h) : WF (pertH c ε ζ h) := by
  refine ⟨by simpa [pertH] using hwf.1, ?_⟩
  intro b hb
  simp only [pertH, List.mem_map] at hb
  obtain ⟨b', hb', rfl⟩ := hb
  simpa [pertB] using hwf.2 b' hb'

theorem flatLogl_pert (c : ℝ) (ε : ℝ → ℝ) (ζ : Batch ℝ → ℝ) (h : List (Batch ℝ)) :
    flatLogl (pertH c ε ζ h) = (flatLogl h).map fun l => l + c + ε l := by
  induction h with
  | nil => simp [flatLogl, pertH]
  | cons b bs ih =>
    simp only [flatLogl, pertH, List.map_cons, List.flatMap_cons, List.map_append] at ih ⊢
    rw [ih]; simp [pertB]

theorem sum_map_le_mul {X : Type} (xs : List X) (f g : X → ℝ) (k : ℝ) (h : ∀ x ∈ xs, g x ≤ k * f x) :
    (xs.map g).sum ≤ k * (xs.map f).sum := by
  induction xs with
  | nil => simp
  | cons a l ih =>
    simp only [List.map_cons, List.sum_cons, mul_add]
    have h1 := h a (by simp)
    have h2 := ih (fun x hx => h x (by simp [hx]))
    linarith

/-- the mixture density of the perturbed history at the perturbed point is within `exp(±2e)` of the original -/
theorem mix_pert (c e : ℝ) (ε : ℝ → ℝ) (ζ : Batch ℝ → ℝ) (h : List (Batch ℝ)) (l : ℝ)
    (hε : |ε l| ≤ e) (hζ : ∀ b ∈ h, |ζ b| ≤ e) (hβ : ∀ b ∈ h, 0 ≤ b.beta ∧ b.beta ≤ 1) :
    mix (pertH c ε ζ h) (l + c + ε l) ≤ Real.exp (2 * e) * mix h l ∧
    mix h l ≤ Real.exp (2 * e) * mix (pertH c ε ζ h) (l + c + ε l) := by
  have he : 0 ≤ e := (abs_nonneg _).trans hε
  unfold mix
  rw [nTotal_pert]
  simp only [pertH, List.map_map, Function.comp_def, pertB, List.length_map]
  have key : ∀ b ∈ h, |(b.beta * (l + c + ε l) - (b.logz + b.beta * c + ζ b)) - (b.beta * l - b.logz)| ≤ 2 * e := by
    intro b hb
    have h1 : (b.beta * (l + c + ε l) - (b.logz + b.beta * c + ζ b)) - (b.beta * l - b.logz) = b.beta * ε l - ζ b := by ring
    rw [h1]
    have h2 := abs_sub (b.beta * ε l) (ζ b)
    have h3 : |b.beta * ε l| ≤ e := by
      rw [abs_mul, abs_of_nonneg (hβ b hb).1]
      have := mul_le_mul (hβ b hb).2 hε (abs_nonneg _) zero_le_one
      linarith
    linarith [hζ b hb]
  constructor
  · apply sum_map_le_mul
    intro b hb
    have hk := (abs_le.mp (key b hb)).2
    have : Real.exp (b.beta * (l + c + ε l) - (b.logz + b.beta * c + ζ b))
        ≤ Real.exp (2 * e) * Real.exp (b.beta * l - b.logz) := by
      rw [← Real.exp_add]; exact Real.exp_le_exp.mpr (by linarith)
    have hn : 0 ≤ (b.logl.length : ℝ) / (nTotal h : ℝ) := by positivity
    nlinarith [mul_le_mul_of_nonneg_left this hn]
  · apply sum_map_le_mul
    intro b hb
    have hk := (abs_le.mp (key b hb)).1
    have : Real.exp (b.beta * l - b.logz)
        ≤ Real.exp (2 * e) * Real.exp (b.beta * (l + c + ε l) - (b.logz + b.beta * c + ζ b)) := by
      rw [← Real.exp_add]; exact Real.exp_le_exp.mpr (by linarith)
    have hn : 0 ≤ (b.logl.length : ℝ) / (nTotal h : ℝ) := by positivity
    nlinarith [mul_le_mul_of_nonneg_left this hn]

/-- the unnormalised log-weight of a particle: `+ β c` up to `3e` -/
theorem specRaw_pert (c e : ℝ) (ε : ℝ → ℝ) (ζ : Batch ℝ → ℝ) (h : List (Batch ℝ)) (hwf : WF h) (β l : ℝ)
    (hε : |ε l| ≤ e) (hζ : ∀ b ∈ h, |ζ b| ≤ e) (hβh : ∀ b ∈ h, 0 ≤ b.beta ∧ b.beta ≤ 1) (hβ0 : 0 ≤ β) (hβ1 : β ≤ 1) :
    |specRaw (pertH c ε ζ h) β (l + c + ε l) - (specRaw h β l + β * c)| ≤ 3 * e := by
  obtain ⟨m1, m2⟩ := mix_pert c e ε ζ h l hε hζ hβh
  have hp := Props.C04.mix_pos h hwf l
  have hp' := Props.C04.mix_pos (pertH c ε ζ h) (WF_pert c ε ζ h hwf) (l + c + ε l)
  have l1 : Real.log (mix (pertH c ε ζ h) (l + c + ε l)) ≤ 2 * e + Real.log (mix h l) := by
    have := Real.log_le_log hp' m1
    rwa [Real.log_mul (Real.exp_pos _).ne' hp.ne', Real.log_exp] at this
  have l2 : Real.log (mix h l) ≤ 2 * e + Real.log (mix (pertH c ε ζ h) (l + c + ε l)) := by
    have := Real.log_le_log hp m2
    rwa [Real.log_mul (Real.exp_pos _).ne' hp'.ne', Real.log_exp] at this
  have h3 : |β * ε l| ≤ e := by
    rw [abs_mul, abs_of_nonneg hβ0]
    have := mul_le_mul hβ1 hε (abs_nonneg _) zero_le_one
    linarith
  have h4 := abs_le.mp h3
  unfold specRaw
  rw [abs_le]
  constructor <;> nlinarith

/-- ESS of a positive weight list as `(Σw)² / Σw²` -/
theorem ess_ratio {X : Type} (xs : List X) (f : X → ℝ) (_hpos : 0 < (xs.map f).sum) :
    Model.Ess.ess (xs.map f) = (xs.map f).sum ^ 2 / (xs.map fun x => f x * f x).sum := by
  rw [ess_def]
  have key : ((xs.map f).map (fun x => x / (xs.map f).sum)).map (fun x => x * x)
      = xs.map (fun x => (f x * f x) / ((xs.map f).sum ^ 2)) := by
    rw [List.map_map, List.map_map]
    apply List.map_congr_left
    intro x _
    simp only [Function.comp]
    rw [div_mul_div_comm, sq]
  rw [key]
  have h2 : (xs.map (fun x => (f x * f x) / ((xs.map f).sum ^ 2))).sum
      = (xs.map fun x => f x * f x).sum / ((xs.map f).sum ^ 2) := by
    have := Props.C20.sum_map_div (xs.map fun x => f x * f x) ((xs.map f).sum ^ 2)
    rwa [List.map_map] at this
  rw [h2, one_div, inv_div]

/-- multiplying every weight by a factor in `[exp(−d), exp(d)]` moves the ESS by a factor in `[exp(−4d), exp(4d)]` -/
theorem ess_perturb {X : Type} (xs : List X) (hne : xs ≠ []) (f g : X → ℝ) (d : ℝ) (hf : ∀ x ∈ xs, 0 < f x)
    (h1 : ∀ x ∈ xs, g x ≤ Real.exp d * f x) (h2 : ∀ x ∈ xs, f x ≤ Real.exp d * g x) :
    Model.Ess.ess (xs.map g) ≤ Real.exp (4 * d) * Model.Ess.ess (xs.map f) := by
  have hg : ∀ x ∈ xs, 0 < g x := by
    intro x hx
    have := h2 x hx
    have hfx := hf x hx
    by_contra hc
    push Not at hc
    have : Real.exp d * g x ≤ 0 := mul_nonpos_of_nonneg_of_nonpos (Real.exp_pos d).le hc
    linarith
  have sumpos : ∀ (k : X → ℝ), (∀ x ∈ xs, 0 < k x) → 0 < (xs.map k).sum := by
    intro k hk
    apply List.sum_pos
    · intro y hy
      rw [List.mem_map] at hy
      obtain ⟨x, hx, rfl⟩ := hy
      exact hk x hx
    · simpa using hne
  have S1 := sumpos f hf
  have T1 := sumpos g hg
  have S2 := sumpos (fun x => f x * f x) (fun x hx => mul_pos (hf x hx) (hf x hx))
  have T2 := sumpos (fun x => g x * g x) (fun x hx => mul_pos (hg x hx) (hg x hx))
  rw [ess_ratio xs g T1, ess_ratio xs f S1]
  -- Σg ≤ e^d Σf,   Σf² ≤ e^{2d} Σg²
  have a1 : (xs.map g).sum ≤ Real.exp d * (xs.map f).sum := sum_map_le_mul xs f g _ h1
  have a2 : (xs.map fun x => f x * f x).sum ≤ Real.exp (2 * d) * (xs.map fun x => g x * g x).sum := by
    apply sum_map_le_mul
    intro x hx
    have hh := h2 x hx
    have hfx := (hf x hx).le
    have hgx := (hg x hx).le
    have : f x * f x ≤ (Real.exp d * g x) * (Real.exp d * g x) := mul_le_mul hh hh hfx (by positivity)
    have e2 : Real.exp (2 * d) = Real.exp d * Real.exp d := by rw [← Real.exp_add]; congr 1; ring
    rw [e2]; nlinarith
  have e4 : Real.exp (4 * d) = Real.exp d * Real.exp d * Real.exp (2 * d) := by
    rw [← Real.exp_add, ← Real.exp_add]; congr 1; ring
  rw [div_le_iff₀ T2, e4]
  have hsq : (xs.map g).sum ^ 2 ≤ (Real.exp d * (xs.map f).sum) ^ 2 := by
    apply pow_le_pow_left₀ T1.le a1
  -- (Σg)² ≤ e^{2d}(Σf)² = e^{2d} (Σf)²/Σf² · Σf² ≤ e^{2d} (Σf)²/Σf² · e^{2d} Σg²
  have hq : 0 < (xs.map f).sum ^ 2 / (xs.map fun x => f x * f x).sum := by positivity
  calc (xs.map g).sum ^ 2 ≤ (Real.exp d * (xs.map f).sum) ^ 2 := hsq
    _ = Real.exp d * Real.exp d * ((xs.map f).sum ^ 2 / (xs.map fun x => f x * f x).sum)
          * (xs.map fun x => f x * f x).sum := by
        rw [mul_assoc (Real.exp d * Real.exp d), div_mul_cancel₀ _ S2.ne']; ring
    _ ≤ Real.exp d * Real.exp d * ((xs.map f).sum ^ 2 / (xs.map fun x => f x * f x).sum)
          * (Real.exp (2 * d) * (xs.map fun x => g x * g x).sum) := by
        apply mul_le_mul_of_nonneg_left a2; positivity
    _ = Real.exp d * Real.exp d * Real.exp (2 * d) * ((xs.map f).sum ^ 2 / (xs.map fun x => f x * f x).sum)
          * (xs.map fun x => g x * g x).sum := by ring

/-- the ESS `_compute_metric_and_weights` returns is the ESS of `exp(unnormalised log-weight)` (normalisation and the
    max-shift are positive rescalings) -/
theorem oracleM_ess (h : List (Batch ℝ)) (hwf : WF h) (β : ℝ) :
    (oracleM h β).2.1 = Model.Ess.ess ((flatLogl h).map fun l => Real.exp (specRaw h β l)) := by
  unfold oracleM
  rw [Props.C04.C04_normalised h hwf β]
  have hne := Props.C04.flatLogl_ne_nil h hwf
  cases hl : flatLogl h with
  | nil => exact absurd hl hne
  | cons x xs =>
    simp only [List.map_cons]
    set m := Model.Ess.maxOf (specNorm h β x) (xs.map (specNorm h β))
    have hS := Props.C04.sumW_pos h hwf β
    have : (ScT.exp (Sc.sub (specNorm h β x) m) :: List.map (fun v => ScT.exp (Sc.sub v m)) (List.map (specNorm h β) xs))
        = ((x :: xs).map fun l => Real.exp (specRaw h β l)).map (fun w => Real.exp (-Real.log (sumW h β) - m) * w) := by
      simp only [List.map_cons, List.map_map, Function.comp_def, ScReal.exp_def, ScReal.sub_def, specNorm]
      congr 1
      · rw [← Real.exp_add]; congr 1; ring
      · apply List.map_congr_left
        intro l _
        rw [← Real.exp_add]; congr 1; ring
    rw [this, Props.C20.C20_ess_scale_invariant _ (Real.exp_pos _)]
    simp

/-- **how far rounding of the stored data can move the temperature search**: at every trial β ∈ [0,1] the ESS computed
    from the history of the shifted run (stored values within `e` of `ℓ + c`, `z_t + β_t c`) is within the factor
    `exp(±12e)` of the ESS of the unshifted run; a comparison `ESS ≥ target` / `ESS < target` of the bisection can
    therefore come out differently only if the unshifted ESS is within that relative distance of the target -/
theorem C10_round_ess_stable (c e : ℝ) (ε : ℝ → ℝ) (ζ : Batch ℝ → ℝ) (h : List (Batch ℝ)) (hwf : WF h) (β : ℝ)
    (hε : ∀ l ∈ flatLogl h, |ε l| ≤ e) (hζ : ∀ b ∈ h, |ζ b| ≤ e) (hβh : ∀ b ∈ h, 0 ≤ b.beta ∧ b.beta ≤ 1)
    (hβ0 : 0 ≤ β) (hβ1 : β ≤ 1) :
    (oracleM (pertH c ε ζ h) β).2.1 ≤ Real.exp (12 * e) * (oracleM h β).2.1 ∧
    (oracleM h β).2.1 ≤ Real.exp (12 * e) * (oracleM (pertH c ε ζ h) β).2.1 := by
  rw [oracleM_ess h hwf β, oracleM_ess _ (WF_pert c ε ζ h hwf) β, flatLogl_pert, List.map_map]
  have hne := Props.C04.flatLogl_ne_nil h hwf
  -- remove the common factor exp(β c) from the perturbed weights
  have hsc : Model.Ess.ess ((flatLogl h).map ((fun l => Real.exp (specRaw (pertH c ε ζ h) β l)) ∘ fun l => l + c + ε l))
      = Model.Ess.ess ((flatLogl h).map fun l => Real.exp (specRaw (pertH c ε ζ h) β (l + c + ε l) - β * c)) := by
    have := Props.C20.C20_ess_scale_invariant (Real.exp (β * c)) (Real.exp_pos _)
      ((flatLogl h).map fun l => Real.exp (specRaw (pertH c ε ζ h) β (l + c + ε l) - β * c))
    rw [← this, List.map_map]
    congr 1
    apply List.map_congr_left
    intro l _
    simp only [Function.comp]
    rw [← Real.exp_add]; congr 1; ring
  rw [hsc]
  have e12 : Real.exp (12 * e) = Real.exp (4 * (3 * e)) := by congr 1; ring
  rw [e12]
  have key : ∀ l ∈ flatLogl h, |specRaw (pertH c ε ζ h) β (l + c + ε l) - β * c - specRaw h β l| ≤ 3 * e := by
    intro l hl
    have := specRaw_pert c e ε ζ h hwf β l (hε l hl) hζ hβh hβ0 hβ1
    have h2 : specRaw (pertH c ε ζ h) β (l + c + ε l) - β * c - specRaw h β l
        = specRaw (pertH c ε ζ h) β (l + c + ε l) - (specRaw h β l + β * c) := by ring
    rwa [h2]
  constructor
  · apply ess_perturb _ hne _ _ (3 * e) (fun l _ => Real.exp_pos _)
    · intro l hl
      rw [← Real.exp_add]; apply Real.exp_le_exp.mpr
      have := (abs_le.mp (key l hl)).2; linarith
    · intro l hl
      rw [← Real.exp_add]; apply Real.exp_le_exp.mpr
      have := (abs_le.mp (key l hl)).1; linarith
  · apply ess_perturb _ hne _ _ (3 * e) (fun l _ => Real.exp_pos _)
    · intro l hl
      rw [← Real.exp_add]; apply Real.exp_le_exp.mpr
      have := (abs_le.mp (key l hl)).1; linarith
    · intro l hl
      rw [← Real.exp_add]; apply Real.exp_le_exp.mpr
      have := (abs_le.mp (key l hl)).2; linarith

/-- with no error the factor is 1: the exact theorem `C10_oracleM_shift` (ESS component) is the case `e = 0` -/
example (c : ℝ) (h : List (Batch ℝ)) (hwf : WF h) (hβh : ∀ b ∈ h, 0 ≤ b.beta ∧ b.beta ≤ 1) (β : ℝ) (hβ0 : 0 ≤ β) (hβ1 : β ≤ 1) :
    (oracleM (Props.C04.shiftH c h) β).2.1 = (oracleM h β).2.1 := by
  have := C10_round_ess_stable c 0 (fun _ => 0) (fun _ => 0) h hwf β (by simp) (by simp) hβh hβ0 hβ1
  rw [pert_zero] at this
  simp only [mul_zero, Real.exp_zero, one_mul] at this
  exact le_antisymm this.1 this.2

/-- the hypotheses are met by the concrete history of `Props.C04` with rounding to multiples of 1/4 as `ε` -/
example : (oracleM (pertH 1000.3 (fun l => rndQ (l + 1000.3) - (l + 1000.3)) (fun _ => 1 / 8) Props.C04.h0) 1).2.1
    ≤ Real.exp (12 * (1 / 8)) * (oracleM Props.C04.h0 1).2.1 := by
  refine (C10_round_ess_stable 1000.3 (1 / 8) _ _ Props.C04.h0 Props.C04.wf_h0 1 ?_ ?_ ?_ (by norm_num) le_rfl).1
  · intro l _
    have := stdModel_rndQ.err (l + 1000.3)
    simpa using this
  · intro b _; norm_num [abs_le]
  · intro b hb
    simp only [Props.C04.h0, List.mem_cons, List.not_mem_nil, or_false] at hb
    rcases hb with rfl | rfl <;> norm_num

end Props.C10Round
