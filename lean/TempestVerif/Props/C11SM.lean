import TempestVerif.Model.RecSM
import TempestVerif.Model.RecSM2
import TempestVerif.Props.C07SM
import TempestVerif.Props.C11Pipeline
import Mathlib.Tactic
/-
  C11 (second pass) — clause 1b restated on the StateManager-level record model `Model.RecSM` (C07's model of
  `Mutator.run` at beta = 0 with the real glue: the redraw loop of /repo 959029e, `update_current` of all four arrays, the
  −inf rows computed from `logl` itself, the `have_blobs` gate evaluated after the update, joint replacement,
  `set_current`, `commit_current_to_history` key by key; and of the annealing iterations).  The first pass proved "no −inf
  stored" and "records whole" only for (tag, logl) pairs of `Model.Pipeline`; the x and blob fields were ORACLE-ONLY.

  C07's owner re-mirrored the model after 959029e (`Model/RecSM2.lean`, suffix `R`: `warmupR`, `TapeR`, `runItersR`; the
  pre-fix definitions stay in `Model/RecSM.lean`) and proved the two structural facts C11 needs
  (`Props.C07SM.warmup_inv` / `C07_sm_run_fresh`: coherence; `finite_warmup` / `C07_sm_run_finite`: no −inf, for EVERY tape).
  This file states C11's clauses in C11's words on top of them:

    C11_sm_warmup_supported_records every ROW stored by the warm-up mutation — u, x, logl AND blob — is the whole record
                                    (u, T u, Lk(T u).1, Lk(T u).2) of one point u DRAWN in this iteration whose likelihood
                                    is finite — for every tape (any number of discarded blocks)
    C11_sm_run_supported            a whole run from a fresh sampler, warm-up AND annealing iterations, every tape: the
                                    per-key histories are coherent batch by batch and every committed x lies in the
                                    supported region; no returned dictionary carries a −inf
    C11_sm_old_all_inf_unchanged    the rule before the fix (finding F8) on the record model: the pre-fix `warmup` stores a batch with
                                    no finite draw exactly as drawn
    C11_sm_pipeline_same_mask, C11_sm_pipeline_same_replacement
                                    the replacement of `Model.RecSM.warmupKept` and the one of `Model.Pipeline.warmup`
                                    (on which the evidence theorems are stated) are the SAME scatter: same mask, same
                                    picks; the stored u rows are the drawn rows named by the pipeline model's tags
-/
namespace Props.C11
open Model.Records (scatterFrom)
open Model.RecSM (Cfg St Cur Hist TapeR logLike commit appendSome)

section sm
variable {U X L B : Type}

/-- the u rows the warm-up leaves are rows of the kept block -/
theorem sm_warmupKept_u_mem (cfg : Cfg) (T : U → X) (Lk : X → L × B) (isInf : L → Bool) (us : List U) (picks : List Nat)
    {s s' : St U X L B} (h : Model.RecSM.warmupKept cfg T Lk isInf us picks s = some s') :
    ∃ u', s'.cur.u = some u' ∧ ∀ v ∈ u', v ∈ us := by
  unfold Model.RecSM.warmupKept at h
  simp only at h
  split at h
  · injection h with h; subst h; exact ⟨us, rfl, fun v hv => hv⟩
  · split at h
    · cases h
    · split at h
      · split at h
        · cases h
        · injection h with h; subst h; exact ⟨_, rfl, fun v hv => scatterFrom_mem _ _ _ v hv⟩
      · injection h with h; subst h; exact ⟨_, rfl, fun v hv => scatterFrom_mem _ _ _ v hv⟩

theorem sm_warmup_u_mem (cfg : Cfg) (T : U → X) (Lk : X → L × B) (isInf : L → Bool) (batches : List (List U))
    (picks : List Nat) {s s' : St U X L B} (h : Model.RecSM.warmupR cfg T Lk isInf batches picks s = some s') :
    ∃ u', s'.cur.u = some u' ∧ ∃ b ∈ batches, ∀ v ∈ u', v ∈ b := by
  cases batches with
  | nil => simp [Model.RecSM.warmupR] at h
  | cons b0 rest =>
    simp only [Model.RecSM.warmupR, Option.bind_eq_some_iff] at h
    obtain ⟨kept, hk, h⟩ := h
    obtain ⟨u', hu', hm⟩ := sm_warmupKept_u_mem cfg T Lk isInf kept.1 picks h
    have hmem := (Props.C07SM.drawLoop_mem _ _ _ _ _ hk).1
    refine ⟨u', hu', kept.1, ?_, hm⟩
    rcases hmem with e | e
    · rw [e]; simp
    · simp [e]

/-- C11 clause 1b in full (u, x, logl AND blobs), current code, EVERY tape: after the warm-up mutation — whatever blocks of
    draws arrived and however many were discarded — every stored row is the WHOLE record `(u, T u, Lk(T u).1, Lk(T u).2)` of
    one of the points `u` drawn in this iteration, and that point lies in the supported region (`Lk(T u).1` is not −inf);
    the blobs array exists exactly when the likelihood returns blobs.  (Coherence and finiteness are C07's invariants
    `warmup_inv`, `finite_warmup`; "a drawn point of ONE block" and the wording are C11's.) -/
theorem C11_sm_warmup_supported_records (cfg : Cfg) (T : U → X) (Lk : X → L × B) (inCube : U → Prop)
    (hg : Props.C07SM.GateOk cfg) (isInf : L → Bool) (batches : List (List U)) (picks : List Nat) {s s' : St U X L B}
    (hdraw : ∀ b ∈ batches, ∀ v ∈ b, inCube v) (hs : Props.C07SM.Inv T Lk inCube cfg s)
    (hf : Props.C07SM.Finite isInf s)
    (h : Model.RecSM.warmupR cfg T Lk isInf batches picks s = some s') :
    ∃ u' x' l', s'.cur.u = some u' ∧ s'.cur.x = some x' ∧ s'.cur.l = some l' ∧
      x'.length = u'.length ∧ l'.length = u'.length ∧
      (s'.cur.b.isSome = cfg.lkBlobs) ∧ (∀ bs, s'.cur.b = some bs → bs.length = u'.length) ∧
      ∃ b ∈ batches, ∀ (i : Nat) (ui : U), u'[i]? = some ui →
        ui ∈ b ∧ isInf (Lk (T ui)).1 = false ∧
        x'[i]? = some (T ui) ∧ l'[i]? = some (Lk (T ui)).1 ∧
        ∀ bs, s'.cur.b = some bs → bs[i]? = some (Lk (T ui)).2 := by
  have hlive := Props.C07SM.warmup_inv T Lk inCube cfg hg isInf batches picks hdraw hs h
  obtain ⟨u', x', l', e1, e2, e3, r1, r2, r3, r4, rows⟩ :=
    Props.C07SM.C07_sm_rowwise_current T Lk inCube cfg hlive.1
  have hno := (Props.C07SM.finite_warmup isInf cfg T Lk batches picks hf h).1 l' e3
  obtain ⟨u'', e1', b, hb, hmem⟩ := sm_warmup_u_mem cfg T Lk isInf batches picks h
  have huu : u'' = u' := by rw [e1] at e1'; injection e1' with e; exact e.symm
  subst huu
  refine ⟨u'', x', l', e1, e2, e3, r1, r2, r4, r3, b, hb, ?_⟩
  intro i ui hui
  obtain ⟨q1, q2, _, q4⟩ := rows i ui hui
  exact ⟨hmem ui (List.mem_of_getElem? hui), hno _ (List.mem_of_getElem? q2), q1, q2, q4⟩

/-- C11 clauses 1a + 1b + 1c over a WHOLE run of the current code, from a freshly constructed sampler, for EVERY tape
    (warm-up iterations with any number of discarded blocks, annealing iterations with any proposals): the per-key histories
    are coherent batch by batch (C07's invariant: `x = T u`, `logl = Lk(x).1`, `blobs = Lk(x).2` row by row, all keys the same
    number of batches) AND every committed physical point `x` lies in the supported region: its log-likelihood — which IS
    the stored one — is not −inf; no dictionary `sample()` returns carries a −inf -/
theorem C11_sm_run_supported (cfg : Cfg) (T : U → X) (Lk : X → L × B) (isInf : L → Bool) (inCube : U → Prop)
    (hg : Props.C07SM.GateOk cfg) (fold : U → U) (chk : U → Bool)
    (hfold : ∀ p, chk (fold p) = true → inCube (fold p)) (ts : List (TapeR U)) {s' : St U X L B}
    {rets : List (Cur U X L B)} (hts : ∀ t ∈ ts, Props.C07SM.TapeOk inCube t)
    (h : Model.RecSM.runItersR cfg T Lk isInf fold chk Model.RecSM.init ts = some (s', rets)) :
    Props.C07SM.HistInv T Lk inCube cfg s'.hist ∧
    (∀ xb ∈ s'.hist.x, ∀ x ∈ xb, isInf (Lk x).1 = false) ∧
    (∀ c ∈ rets, ∀ l, c.l = some l → ∀ v ∈ l, isInf v = false) := by
  obtain ⟨hinv, _, _⟩ := Props.C07SM.C07_sm_run_fresh T Lk inCube cfg hg isInf fold chk hfold ts hts h
  obtain ⟨hfin, hret⟩ := Props.C07SM.C07_sm_run_finite isInf cfg T Lk fold chk ts (Props.C07SM.finite_init isInf) h
  refine ⟨hinv.2, ?_, hret⟩
  intro xb hxb x hx
  have hl := hinv.2.2.1
  have : xb.map (fun x => (Lk x).1) ∈ s'.hist.l := by rw [hl]; exact List.mem_map_of_mem hxb
  exact hfin.2 _ this _ (List.mem_map_of_mem hx)

/-- the rule BEFORE /repo 959029e on the record model (finding F8): a batch with NO finite draw was stored exactly as drawn —
    every stored log-likelihood −inf (`Model.RecSM.warmup` of `Model/RecSM.lean`: the model as it was before the fix; the current code is `warmupR` of `Model/RecSM2.lean`) -/
theorem C11_sm_old_all_inf_unchanged (cfg : Cfg) (T : U → X) (Lk : X → L × B) (isInf : L → Bool) (us : List U)
    (picks : List Nat) (s : St U X L B)
    (h0 : Model.RecSM.finIdx isInf (logLike cfg Lk (us.map T)).1 = []) :
    Model.RecSM.warmup cfg T Lk isInf us picks s
      = some { s with cur := ⟨some us, some (us.map T), some (logLike cfg Lk (us.map T)).1, (logLike cfg Lk (us.map T)).2⟩ } := by
  unfold Model.RecSM.warmup
  simp [h0]

/-! ### the record model and the pipeline model perform the same replacement -/

/-- the pipeline model's view of a log-likelihood: `none` = −inf -/
def toOpt (isInf : L → Bool) (v : L) : Option L := if isInf v then none else some v

/-- `infinite_idx` of the record model = `infinite_idx` of the pipeline model on the same batch -/
theorem C11_sm_pipeline_same_mask (isInf : L → Bool) (l : List L) :
    Model.RecSM.infIdx isInf l = infIdx (l.map (toOpt isInf)) := by
  unfold Model.RecSM.infIdx infIdx
  rw [List.length_map]
  apply List.filter_congr
  intro i hi
  rw [List.mem_range] at hi
  rw [List.getElem?_map, List.getElem?_eq_getElem hi]
  simp only [Option.map_some, Option.join_some, toOpt]
  cases isInf l[i] <;> simp

/-- the SAME scatter in both models: with draws tagged `0..n-1`, the tags the pipeline model's replacement step
    (`Model.Pipeline.warmup`, about which the evidence theorems speak) leaves are the positions of the drawn rows that the
    record model's replacement step stores; and the stored log-likelihoods agree (`none` = −inf) -/
theorem C11_sm_pipeline_same_replacement (isInf : L → Bool) (us : List U) (l : List L) (picks : List Nat)
    (_hlen : l.length = us.length) :
    (scatterFrom us (Model.RecSM.infIdx isInf l) picks).map some
      = (scatterFrom (List.range us.length) (infIdx (l.map (toOpt isInf))) picks).map (fun i => us[i]?) ∧
    (scatterFrom l (Model.RecSM.infIdx isInf l) picks).map (toOpt isInf)
      = scatterFrom (l.map (toOpt isInf)) (infIdx (l.map (toOpt isInf))) picks := by
  rw [← C11_sm_pipeline_same_mask]
  refine ⟨?_, ?_⟩
  · rw [← Props.C07SM.scatterFrom_map, ← Props.C07SM.scatterFrom_map]
    congr 1
    apply List.ext_getElem?
    intro i
    by_cases hi : i < us.length
    · simp [hi]
    · simp [hi]
  · rw [Props.C07SM.scatterFrom_map]

end sm

/-! ### non-vacuity: warm-up iterations with an UNDECLARED blob; the second iteration discards a block -/
/-- u = 0..5; T u = 10u; likelihood −inf (= 0 here) on x < 30, else x + 1; blob = x + 2 -/
def smExT : Nat → Nat := fun u => 10 * u
def smExLk : Nat → Nat × Nat := fun x => (if x < 30 then 0 else x + 1, x + 2)
def smExInf : Nat → Bool := fun l => l == 0
def smExCube : Nat → Prop := fun u => u < 6
def smExCfg : Cfg := ⟨false, true, true⟩
def smExT1 : TapeR Nat := ⟨true, [[1, 4, 2, 5]], [1, 3], [], []⟩      -- draws 1 and 2 are −inf; picks: rows 1 and 3
def smExT2 : TapeR Nat := ⟨true, [[0, 1, 2, 1], [3, 0, 4, 5]], [0], [], []⟩   -- first block: no finite draw, discarded

theorem smExT1_ok : Props.C07SM.TapeOk smExCube smExT1 := by
  intro _ b hb v hv
  simp [smExT1] at hb; subst hb
  simp at hv; rcases hv with rfl | rfl | rfl | rfl <;> simp [smExCube]
theorem smExT2_ok : Props.C07SM.TapeOk smExCube smExT2 := by
  intro _ b hb v hv
  simp [smExT2] at hb
  rcases hb with rfl | rfl <;> simp at hv <;> rcases hv with rfl | rfl | rfl | rfl <;> simp [smExCube]

/-- the run itself: rows 0 and 2 of the first batch are overwritten by whole copies of rows 1 and 3 — u, x, logl and the
    UNDECLARED blob alike; the all-−inf block of the second iteration leaves no trace -/
example : (Model.RecSM.runItersR smExCfg smExT smExLk smExInf id (fun _ => true) Model.RecSM.init [smExT1, smExT2]).map (·.1.hist)
    = some ⟨[[4, 4, 5, 5], [3, 3, 4, 5]], [[40, 40, 50, 50], [30, 30, 40, 50]], [[41, 41, 51, 51], [31, 31, 41, 51]],
        [[42, 42, 52, 52], [32, 32, 42, 52]]⟩ := by decide

/-- `C11_sm_run_supported` on that run -/
example : ∃ s' rets, Model.RecSM.runItersR smExCfg smExT smExLk smExInf id (fun u => decide (u < 6)) Model.RecSM.init
      [smExT1, smExT2] = some (s', rets) ∧
    Props.C07SM.HistInv smExT smExLk smExCube smExCfg s'.hist ∧
    (∀ xb ∈ s'.hist.x, ∀ x ∈ xb, smExInf (smExLk x).1 = false) := by
  have hsome : (Model.RecSM.runItersR smExCfg smExT smExLk smExInf id (fun u => decide (u < 6)) Model.RecSM.init
      [smExT1, smExT2]).isSome = true := by decide
  obtain ⟨r, h⟩ := Option.isSome_iff_exists.mp hsome
  obtain ⟨s', rets⟩ := r
  obtain ⟨h1, h2, _⟩ := C11_sm_run_supported smExCfg smExT smExLk smExInf smExCube (Or.inl rfl) id
    (fun u => decide (u < 6)) (by intro p hp; simpa [smExCube] using hp) [smExT1, smExT2]
    (by intro t ht; simp at ht; rcases ht with rfl | rfl; exact smExT1_ok; exact smExT2_ok) h
  exact ⟨s', rets, h, h1, h2⟩

/-- the two models perform the same scatter: tags of the pipeline model name the rows the record model stores -/
example : (scatterFrom [1, 4, 2, 5] (Model.RecSM.infIdx smExInf [0, 41, 0, 51]) [1, 3]).map some
    = (scatterFrom (List.range 4) (infIdx ([0, 41, 0, 51].map (toOpt smExInf))) [1, 3]).map (fun i => [1, 4, 2, 5][i]?) :=
  (C11_sm_pipeline_same_replacement smExInf [1, 4, 2, 5] [0, 41, 0, 51] [1, 3] rfl).1

/-- the rule before the fix: a batch with no finite draw was stored as drawn (F8) -/
example : (Model.RecSM.warmup smExCfg smExT smExLk smExInf [1, 2] [] Model.RecSM.init).map (·.cur.l) = some (some [0, 0]) := by decide

end Props.C11
