import TempestVerif.Props.C08
import TempestVerif.Model.Resume
import TempestVerif.Model.Cadence
import TempestVerif.Model.Dispatch
import TempestVerif.Gen.CheckpointCore
import Mathlib.Tactic
import Std.Data.String.ToInt
/-
  C08, clause audit — the whole SamplerCore around a checkpoint (`Model.Resume`):
    Part D  what the checkpoint dictionary holds and what `load_sampler_state` restores (obligations on the regenerated tables
            `Gen/CheckpointCore.lean`; theorems on `saveDict` / `loadCore` / `prologueResume`)
    Part E  `load fresh (save s) = s` LITERALLY for every state a run can write; invariants of a run by induction
    Part F  a resumed run IS the continuation of the uninterrupted run (iteration numbers, call counts, temperatures, particles,
            random stream — and therefore the same termination), under the one hypothesis H_comp; what H_comp means for the
            shared clusterer (`Model.Cadence`), and that it is necessary
-/
namespace Props.C08

section StateSide
open Model.Checkpoint Model.Resume

/-! ## Part D — the dictionary and what is restored -/

/-- OBLIGATION (regenerated from `save_sampler_state`): the pickled dictionary is `self.state.to_dict()` plus exactly the five
    modelled keys with the modelled expressions, all stored before the file is written, and that dictionary is what is dumped -/
theorem C08_gen_ckpt_keys :
    Gen.Checkpoint.ckptBaseToDict = true ∧ Gen.Checkpoint.ckptExtraKeys = ckptExtraKeys ∧
    Gen.Checkpoint.ckptDumpsDict = true ∧ Gen.Checkpoint.ckptKeysBeforeWrite = true := by decide

/-- OBLIGATION: saving changes no attribute of the core and touches the random generator only through `get_state` -/
theorem C08_gen_save_pure :
    Gen.Checkpoint.saveAssignsAttrs = [] ∧ Gen.Checkpoint.saveRandomCalls = ["np.random.get_state"] := by decide

/-- OBLIGATION (regenerated from `load_sampler_state`): besides `update_from_dict(d)` + the defaults loop, exactly `n_total`,
    `logz_err` (when the key is present) and `rng_state` (when not `None`, through `np.random.set_state`) are restored;
    no other key of the dictionary is read — in particular neither `sampler` (the pickled core) nor `random_state` -/
theorem C08_gen_load_table :
    Gen.Checkpoint.loadTable = loadTable ∧ Gen.Checkpoint.loadKeysRead = ["logz_err", "n_total", "rng_state"] ∧
    Gen.Checkpoint.loadDictPassedTo = ["self.state.update_from_dict(d)"] ∧
    Gen.Checkpoint.loadAssignsAttrs = ["logz_err", "n_total"] ∧
    Gen.Checkpoint.loadSelfCalls = ["self.state.get_current", "self.state.set_current", "self.state.update_from_dict"] := by decide

/-- OBLIGATION: loading (and `_initialize_from_resume`) never seeds: the only call into `np.random` is `set_state`;
    `_initialize_from_resume` assigns only `t0`; the resume branch of `run_sampling` does not call `_initialize_fresh`;
    nothing else in `run_sampling` touches the generator -/
theorem C08_gen_load_no_reseed :
    Gen.Checkpoint.loadRandomCalls = ["np.random.set_state"] ∧
    Gen.Checkpoint.resumeInitAssignsAttrs = ["t0"] ∧
    Gen.Checkpoint.resumeInitSelfCalls = ["self.load_sampler_state", "self.state.get_current"] ∧
    Gen.Checkpoint.runResumeBranchCalls = ["self._initialize_from_resume", "self.state.get_current", "self.state.set_current"] ∧
    Gen.Checkpoint.runFreshBranchCalls = ["self._initialize_fresh"] ∧
    Gen.Checkpoint.runRandomCallsOutsideFresh = [] := by decide

/-- OBLIGATION: the attributes `SamplerCore` ever assigns on itself are the modelled ones (a new attribute — e.g. a cached worker
    pool — would be pickled with the core by `dill.dumps(self)` and is not covered by the pool detachment) -/
theorem C08_gen_core_attrs : Gen.Checkpoint.coreSelfAttrs = coreAttrs := by decide

/-- OBLIGATION: `run_sampling` assigns `self.n_total = int(n_total)` (this call's argument) and `self.t0 = t0` after the
    resume/fresh branch and before the loop; after the loop: evidence at β = 1, `logz_err = None`, THEN the final save -/
theorem C08_gen_run_shape :
    Gen.Checkpoint.runNTotalAssign = true ∧
    Gen.Checkpoint.runEpilogueOrder = ["z1", "set_logz", "logz_err_none", "final_save", "pbar_close"] := by decide

/-- OBLIGATION: `_initialize_fresh` seeds iff `random_state is not None` and sets the four counters the model sets -/
theorem C08_gen_fresh :
    Gen.Checkpoint.freshSeedsIffRandomState = true ∧
    Gen.Checkpoint.freshSets = [("iter", "0"), ("calls", "0"), ("beta", "0.0"), ("logz", "0.0")] ∧
    Gen.Checkpoint.freshRandomCalls = ["np.random.seed"] := by decide

section Core
variable {G C B : Type}

/-- `C08_load_ignores_sampler_and_seed`: the pickled sampler object and the stored `random_state` have NO influence on the
    loaded sampler: every component (reweighter, trainer, resampler, mutator, the shared clusterer), the configuration and
    `t0` are those of the RECEIVING sampler -/
theorem C08_load_ignores_sampler_and_seed (w : World G C) (d : CkDict G B) (b : Option B) (r : Option (Option Int)) :
    loadCore w { d with sampler := b, randomState := r } = loadCore w d ∧
    ∀ w', loadCore w d = some w' →
      w'.core.comp = w.core.comp ∧ w'.core.randomState = w.core.randomState ∧ w'.core.t0 = w.core.t0 := by
  refine ⟨rfl, ?_⟩
  intro w' h
  simp only [loadCore, Option.map_eq_some_iff] at h
  obtain ⟨sm', _, rfl⟩ := h
  exact ⟨rfl, rfl, rfl⟩

/-- `C08_load_rng`: after `load_state` the global generator is at the position stored in the checkpoint; a file without the
    key (written before /repo db2b14b) or with `None` leaves the generator where it was.  No other outcome exists — in
    particular the generator is never re-seeded from `random_state` (F31). -/
theorem C08_load_rng (w w' : World G C) (d : CkDict G B) (h : loadCore w d = some w') :
    w'.rng = match d.rngState with | some (some g) => g | _ => w.rng := by
  simp only [loadCore, Option.map_eq_some_iff] at h
  obtain ⟨sm', _, rfl⟩ := h
  rfl

/-- `n_total` / `logz_err`: taken from the file when the key is present (also when its value is `None`), kept otherwise -/
theorem C08_load_meta (w w' : World G C) (d : CkDict G B) (h : loadCore w d = some w') :
    w'.core.nTotal = (match d.nTotal with | some v => some v | none => w.core.nTotal) ∧
    w'.core.logzErr = (match d.logzErr with | some v => some v | none => w.core.logzErr) := by
  simp only [loadCore, Option.map_eq_some_iff] at h
  obtain ⟨sm', _, rfl⟩ := h
  exact ⟨rfl, rfl⟩

end Core

/-! ## Part E — `load fresh (save s) = s`, literally -/

section Identity
variable {β : Type}

theorem lookup_none_of_not_mem {k : Key} {l : List (Key × β)} (h : k ∉ l.map (·.1)) : lookup k l = none := by
  induction l with
  | nil => rfl
  | cons e r ih =>
    obtain ⟨k', v⟩ := e
    simp only [List.map_cons, List.mem_cons, not_or] at h
    simp [lookup, Ne.symm h.1, ih h.2]

theorem lookup_isSome_of_mem {k : Key} {l : List (Key × β)} (h : k ∈ l.map (·.1)) : (lookup k l).isSome := by
  induction l with
  | nil => simp at h
  | cons e r ih =>
    obtain ⟨k', v⟩ := e
    by_cases hk : k' = k
    · simp [lookup, hk]
    · simp only [List.map_cons, List.mem_cons] at h
      rcases h with h | h
      · exact absurd h.symm hk
      · simp [lookup, hk, ih h]

/-- two association lists with the same keys in the same order (each once) and the same `lookup` are equal -/
theorem ext_of_keys (l l' : List (Key × β)) (hk : l.map (·.1) = l'.map (·.1)) (hnd : (l.map (·.1)).Nodup)
    (hl : ∀ k, lookup k l = lookup k l') : l = l' := by
  induction l generalizing l' with
  | nil =>
    cases l' with
    | nil => rfl
    | cons e r => simp at hk
  | cons e r ih =>
    cases l' with
    | nil => simp at hk
    | cons e' r' =>
      obtain ⟨k, v⟩ := e
      obtain ⟨k', v'⟩ := e'
      simp only [List.map_cons, List.cons.injEq] at hk
      obtain ⟨hkk, hr⟩ := hk
      subst hkk
      simp only [List.map_cons, List.nodup_cons] at hnd
      have hv : v = v' := by
        have := hl k
        simpa [lookup] using this
      subst hv
      congr 1
      apply ih r' hr hnd.2
      intro k0
      by_cases h0 : k = k0
      · subst h0
        rw [lookup_none_of_not_mem hnd.1, lookup_none_of_not_mem (by rw [← hr]; exact hnd.1)]
      · have := hl k0
        simpa [lookup, h0] using this

theorem setKey_keys {k : Key} (v : β) {l : List (Key × β)} (h : k ∈ l.map (·.1)) :
    (setKey k v l).map (·.1) = l.map (·.1) := by
  induction l with
  | nil => simp at h
  | cons e r ih =>
    obtain ⟨k', v'⟩ := e
    by_cases hk : k' = k
    · subst hk; simp [setKey]
    · simp only [List.map_cons, List.mem_cons] at h
      rcases h with h | h
      · exact absurd h.symm hk
      · simp [setKey, hk, ih h]

theorem updateAll_keys (d e : List (Key × β)) (h : ∀ kv ∈ e, kv.1 ∈ d.map (·.1)) :
    (updateAll d e).map (·.1) = d.map (·.1) := by
  induction e with
  | nil => rfl
  | cons kv r ih =>
    obtain ⟨k, v⟩ := kv
    have hr : ∀ kv ∈ r, kv.1 ∈ d.map (·.1) := fun kv hkv => h kv (by simp [hkv])
    simp only [updateAll]
    rw [setKey_keys v (by rw [ih hr]; exact h (k, v) (by simp)), ih hr]

/-- `d.update(e)` when `e` has exactly the keys of `d`, in the same order: the result is `e` -/
theorem updateAll_same_keys (d e : List (Key × β)) (hk : d.map (·.1) = e.map (·.1)) (hnd : (e.map (·.1)).Nodup) :
    updateAll d e = e := by
  have hmem : ∀ kv ∈ e, kv.1 ∈ d.map (·.1) := by
    intro kv hkv
    rw [hk]
    exact List.mem_map_of_mem (f := (·.1)) hkv
  apply ext_of_keys
  · rw [updateAll_keys d e hmem, hk]
  · rw [updateAll_keys d e hmem, hk]; exact hnd
  · intro k
    rw [lookup_updateAll]
    cases he : lookup k e with
    | some v => rfl
    | none =>
      by_cases hin : k ∈ e.map (·.1)
      · have := lookup_isSome_of_mem hin
        rw [he] at this
        cases this
      · simp only
        exact lookup_none_of_not_mem (by rw [hk]; exact hin)

theorem applyDefaults_id (dl : List (Key × Val)) (cur : List (Key × Val))
    (h : ∀ kv ∈ dl, ∃ v, lookup kv.1 cur = some v ∧ v ≠ Val.none) : applyDefaults dl cur = some cur := by
  induction dl with
  | nil => rfl
  | cons kv r ih =>
    obtain ⟨k0, dv⟩ := kv
    obtain ⟨v, hv, hne⟩ := h (k0, dv) (by simp)
    simp only [applyDefaults, hv]
    cases v with
    | none => exact absurd rfl hne
    | int n => exact ih (fun kv hkv => h kv (by simp [hkv]))
    | real b => exact ih (fun kv hkv => h kv (by simp [hkv]))
    | arr t => exact ih (fun kv hkv => h kv (by simp [hkv]))

end Identity

theorem currentKeys_nodup : currentKeys.Nodup := by decide
theorem historyKeys_nodup : historyKeys.Nodup := by decide

theorem init_wellKeyed (n : Nat) : WellKeyed (init n) := by
  constructor <;> simp [init, Function.comp_def]

/-- `C08_restore_identity`: for EVERY state whose maps have the StateManager's keys (true of every state a sampler can be in,
    `C08_run_invariants`) and whose seven default keys are set (true after every committed iteration), and for a fresh
    StateManager of ANY dimension: loading the saved dictionary returns that very state — every key of `_current`, every
    history list, `n_dim`; nothing is defaulted, dropped, reordered or added. -/
theorem C08_restore_identity (s : State) (hw : WellKeyed s) (hd : DefaultsSet s) (n : Nat) :
    loadDict (init n) (toDict s) = some s := by
  obtain ⟨hc, hh⟩ := hw
  have h1 : updateAll (init n).current s.current = s.current :=
    updateAll_same_keys _ _ (by rw [hc]; simp [init, Function.comp_def]) (by rw [hc]; exact currentKeys_nodup)
  have h2 : updateAll (init n).history s.history = s.history :=
    updateAll_same_keys _ _ (by rw [hh]; simp [init, Function.comp_def]) (by rw [hh]; exact historyKeys_nodup)
  simp only [loadDict, updateFromDict, toDict, h1, h2]
  rw [applyDefaults_id defaults s.current hd]
  rfl

/-- … through the bytes, with dill trusted (`dec (enc d) = some d`) -/
theorem C08_restore_identity_bytes (enc : Dict → Bytes) (dec : Bytes → Option Dict) (hdec : ∀ d, dec (enc d) = some d)
    (s : State) (hw : WellKeyed s) (hd : DefaultsSet s) (n : Nat) :
    load dec (init n) (save enc s) = some s := by
  simp [load, save, hdec, C08_restore_identity s hw hd n]

/-! ### the two invariants hold along every run -/

theorem appendHist_keys {k : Key} {v : Val} {h h' : List (Key × List Val)} (ha : appendHist k v h = some h') :
    h'.map (·.1) = h.map (·.1) := by
  induction h generalizing h' with
  | nil => simp [appendHist] at ha
  | cons e r ih =>
    obtain ⟨k0, l⟩ := e
    simp only [appendHist] at ha
    split at ha
    · simp only [Option.some.injEq] at ha; subst ha; rfl
    · simp only [Option.map_eq_some_iff] at ha
      obtain ⟨r', hr', rfl⟩ := ha
      simp [ih hr']

theorem commitLoop_keys (cur : List (Key × Val)) (ks : List Key) (h h' : List (Key × List Val))
    (hc : commitLoop cur ks h = some h') : h'.map (·.1) = h.map (·.1) := by
  induction ks generalizing h with
  | nil => simp only [commitLoop, Option.some.injEq] at hc; subst hc; rfl
  | cons k ks ih =>
    simp only [commitLoop] at hc
    split at hc
    · cases hc
    · exact ih _ hc
    · simp only [Option.bind_eq_some_iff] at hc
      obtain ⟨h1, ha, hc⟩ := hc
      rw [ih _ hc, appendHist_keys ha]

/-- the `_current` an iteration leaves behind, as a map -/
theorem iteration_current {s s' : State} {i : StepIn} (h : iteration s i = some s') :
    ∃ it ca, getInt "iter" s.current = some it ∧ getInt "calls" s.current = some ca ∧
      s'.current = setKey "calls" (Val.int (ca + (i.nCalls : Int)))
        (updateAll (setKey "iter" (Val.int (it + 1)) s.current) (i.vals.filter fun kv => !counterKeys.contains kv.1)) ∧
      s'.nDim = s.nDim := by
  unfold iteration at h
  split at h
  · rename_i it ca hit hca
    refine ⟨it, ca, hit, hca, ?_, ?_⟩
    · exact (commit_histExt h).2
    · simp only [commit, Option.map_eq_some_iff] at h
      obtain ⟨h', _, rfl⟩ := h
      rfl
  · cases h

theorem iteration_wellKeyed {s s' : State} {i : StepIn} (hw : WellKeyed s) (hi : ∀ kv ∈ i.vals, kv.1 ∈ currentKeys)
    (h : iteration s i = some s') : WellKeyed s' := by
  obtain ⟨hc, hh⟩ := hw
  obtain ⟨it, ca, _, _, hcur, _⟩ := iteration_current h
  constructor
  · have k1 : (setKey "iter" (Val.int (it + 1)) s.current).map (·.1) = currentKeys := by
      rw [setKey_keys _ (by rw [hc]; decide), hc]
    have k2 : (updateAll (setKey "iter" (Val.int (it + 1)) s.current)
        (i.vals.filter fun kv => !counterKeys.contains kv.1)).map (·.1) = currentKeys := by
      rw [updateAll_keys _ _ (by
        intro kv hkv
        rw [k1]
        exact hi kv (List.mem_of_mem_filter hkv)), k1]
    rw [hcur, setKey_keys _ (by rw [k2]; decide), k2]
  · unfold iteration at h
    split at h
    · simp only [commit, Option.map_eq_some_iff] at h
      obtain ⟨h', hcl, rfl⟩ := h
      show h'.map (·.1) = historyKeys
      rw [commitLoop_keys _ _ _ _ hcl, hh]
    · cases h

theorem iteration_defaultsSet {s s' : State} {i : StepIn} (hi : StepOK i) (h : iteration s i = some s') : DefaultsSet s' := by
  obtain ⟨it, ca, _, _, hcur, _⟩ := iteration_current h
  have key : ∀ k, k ≠ "calls" → lookup k s'.current =
      match lookup k (i.vals.filter fun kv => !counterKeys.contains kv.1) with
      | some v => some v
      | none => lookup k (setKey "iter" (Val.int (it + 1)) s.current) := by
    intro k hk
    rw [hcur, lookup_insert_ne hk, lookup_updateAll]
    cases lookup k (i.vals.filter fun kv => !counterKeys.contains kv.1) <;> rfl
  intro kv hkv
  simp only [defaults, List.mem_cons, List.not_mem_nil, or_false] at hkv
  have five : ∀ k ∈ ["beta", "logz", "steps", "acceptance", "efficiency"], k ≠ "calls" →
      ∃ v, lookup k s'.current = some v ∧ v ≠ Val.none := by
    intro k hk hne
    obtain ⟨v, hv, hvn⟩ := hi.2 k hk
    exact ⟨v, by rw [key k hne, hv], hvn⟩
  rcases hkv with rfl | rfl | rfl | rfl | rfl | rfl | rfl
  · refine ⟨Val.int (it + 1), ?_, by simp⟩
    rw [key "iter" (by decide), lookup_filter_none "iter" _ _ (by intro v; simp [counterKeys]), lookup_insert_eq]
  · exact ⟨_, by rw [hcur, lookup_insert_eq], by simp⟩
  · exact five "beta" (by simp) (by decide)
  · exact five "logz" (by simp) (by decide)
  · exact five "steps" (by simp) (by decide)
  · exact five "acceptance" (by simp) (by decide)
  · exact five "efficiency" (by simp) (by decide)

/-! ## Part F — a resumed run is the continuation of the uninterrupted run -/

section Continue
variable {G C B : Type}

/-- the invariant of a run: StateManager keys in place, the seven default keys set -/
def WorldOK (w : World G C) : Prop := WellKeyed w.core.sm ∧ DefaultsSet w.core.sm

/-- what the iteration oracle writes is admissible (`Model.Resume.StepOK`) at every state -/
def FOK (F : State → G → C → StepIn × G × C) : Prop := ∀ s g c, StepOK (F s g c).1

theorem iterate_ok {F : State → G → C → StepIn × G × C} (hF : FOK F) {w w' : World G C} (hw : WellKeyed w.core.sm)
    (h : iterate F w = some w') : WorldOK w' ∧ w'.core.nTotal = w.core.nTotal ∧ w'.core.t0 = w.core.t0 ∧
      w'.core.logzErr = w.core.logzErr ∧ w'.core.randomState = w.core.randomState := by
  simp only [iterate, Option.map_eq_some_iff] at h
  obtain ⟨sm', hs, rfl⟩ := h
  exact ⟨⟨iteration_wellKeyed hw (hF _ _ _).1 hs, iteration_defaultsSet (hF _ _ _) hs⟩, rfl, rfl, rfl, rfl⟩

/-- `C08_run_invariants`: after ANY positive number of iterations from a sampler whose StateManager has its keys (a fresh one
    after `_initialize_fresh`, or a loaded one) the hypotheses of `C08_restore_identity` hold — so they hold of every
    checkpoint `run(save_every=…)` writes (the first one is written after at least one iteration, `C08_save_cadence`). -/
theorem C08_run_invariants (F : State → G → C → StepIn × G × C) (hF : FOK F) (n : Nat) (w w' : World G C)
    (hw : WellKeyed w.core.sm) (h : iterateN F (n + 1) w = some w') : WorldOK w' := by
  induction n generalizing w with
  | zero =>
    simp only [iterateN, Option.bind_eq_some_iff] at h
    obtain ⟨w1, h1, h2⟩ := h
    simp only [Option.some.injEq] at h2; subst h2
    exact (iterate_ok hF hw h1).1
  | succ n ih =>
    rw [iterateN] at h
    simp only [Option.bind_eq_some_iff] at h
    obtain ⟨w1, h1, h2⟩ := h
    exact ih w1 (iterate_ok hF hw h1).1.1 h2

/-- a fresh sampler after `_initialize_fresh` has its keys -/
theorem prologueFresh_wellKeyed (seed : Int → G) (w : World G C) (hw : WellKeyed w.core.sm) (nT : Int) :
    WellKeyed (prologueFresh seed w nT).core.sm := by
  obtain ⟨hc, hh⟩ := hw
  refine ⟨?_, hh⟩
  simp only [prologueFresh]
  have k1 := setKey_keys (Val.int 0) (k := "iter") (l := w.core.sm.current) (by rw [hc]; decide)
  have k2 := setKey_keys (Val.int 0) (k := "calls") (l := setKey "iter" (Val.int 0) w.core.sm.current) (by rw [k1, hc]; decide)
  have k3 := setKey_keys (Val.real 0) (k := "beta") (l := setKey "calls" (Val.int 0) (setKey "iter" (Val.int 0) w.core.sm.current))
    (by rw [k2, k1, hc]; decide)
  rw [setKey_keys _ (by rw [k3, k2, k1, hc]; decide), k3, k2, k1, hc]

/-- `C08_core_restore`: loading the checkpoint written from world `w` into ANY freshly constructed sampler `f` gives: the
    StateManager of `w` (literally), the generator position of `w`, `n_total` and `logz_err` of `w`; components,
    configuration and `t0` stay those of `f`. -/
theorem C08_core_restore (pickle : Core C → B) (w : World G C) (hw : WorldOK w) (f : World G C) (n : Nat)
    (hf : f.core.sm = init n) :
    loadCore f (saveDict pickle w) = some
      { core := { f.core with sm := w.core.sm, nTotal := some (attrOrNone w.core.nTotal),
                              logzErr := some (attrOrNone w.core.logzErr) }
        rng := w.rng } := by
  simp [loadCore, saveDict, hf, C08_restore_identity _ hw.1 hw.2 n]

/-- `C08_resume_prologue`: `run(resume_state_path=…, n_total=nT)` starts its loop from the StateManager and generator
    position of the writer, with `t0` = the restored iteration counter and `n_total` = THIS call's argument (the stored
    one is overwritten). -/
theorem C08_resume_prologue (pickle : Core C → B) (w : World G C) (hw : WorldOK w) (it : Int)
    (hit : getInt "iter" w.core.sm.current = some it) (f : World G C) (n : Nat) (hf : f.core.sm = init n) (nT : Int) :
    prologueResume f (saveDict pickle w) nT = some
      { core := { f.core with sm := w.core.sm, nTotal := some (Val.int nT),
                              logzErr := some (attrOrNone w.core.logzErr), t0 := it }
        rng := w.rng } := by
  simp [prologueResume, C08_core_restore pickle w hw f n hf, hit]

/-- OBLIGATION (regenerated from `run_sampling`, /repo aeb0399): between the `resume_state_path` branch and the fresh branch there
    is the branch `elif self.state.get_history_length() > 0:` whose body only reads `iter` into `t0` -/
theorem C08_gen_manual_branch :
    Gen.Checkpoint.manualContinueBranch = true ∧
    Gen.Checkpoint.runManualBranchTest = "self.state.get_history_length() > 0" ∧
    Gen.Checkpoint.runManualBranchBody =
      ["iter_val = self.state.get_current('iter')", "t0 = int(iter_val) if iter_val is not None else 0"] := by decide

/-- `C08_manual_resume_eq` — the documented manual resume `load_state(path); run(n_total)` IS `run(resume_state_path=path, n_total)`:
    for EVERY checkpoint dictionary whose loaded history is not empty (every checkpoint a run writes: ≥ 1 committed iteration,
    `iteration_history_nonempty`), every receiving sampler and generator position, the two prologues produce the same world —
    same StateManager (counters NOT reset), same generator position (NOT reseeded, whatever `random_state` the receiver has),
    `t0` = restored `iter`, `n_total` = this call's argument.  Everything that follows (loop, checkpoints, epilogue) is a
    function of that world. -/
theorem C08_manual_resume_eq (seed : Int → G) (f : World G C) (d : CkDict G B) (nT : Int)
    (hne : ∀ w1, loadCore f d = some w1 → ∃ n, historyLength w1.core.sm = some (n + 1)) :
    (loadCore f d).bind (fun w1 => prologueRun seed w1 nT) = prologueResume f d nT := by
  simp only [prologueResume]
  cases h : loadCore f d with
  | none => rfl
  | some w1 =>
    obtain ⟨n, hn⟩ := hne w1 h
    simp only [Option.bind_some, prologueRun, hn]

/-- a second `run()` on a sampler that has committed history (a finished run being extended) continues: counters, temperature,
    generator and history are untouched, `t0` = the current iteration number -/
theorem C08_second_run_continues (seed : Int → G) (w : World G C) (nT : Int) (n : Nat) (it : Int)
    (hh : historyLength w.core.sm = some (n + 1)) (hit : getInt "iter" w.core.sm.current = some it) :
    prologueRun seed w nT = some { w with core := { w.core with t0 := it, nTotal := some (Val.int nT) } } := by
  simp [prologueRun, hh, hit]

/-- … and only a sampler WITHOUT committed history is initialised afresh (counters to 0, seeded iff `random_state` is set) -/
theorem C08_run_fresh_iff_empty (seed : Int → G) (w : World G C) (nT : Int) (hh : historyLength w.core.sm = some 0) :
    prologueRun seed w nT = some (prologueFresh seed w nT) := by
  simp [prologueRun, hh]

/-- every committed iteration makes the history non-empty (so the hypothesis of `C08_manual_resume_eq` holds of every
    checkpoint `run(save_every)` writes) -/
theorem iteration_history_nonempty {s s' : State} {i : StepIn} (hi : StepOK i) (hw : WellKeyed s)
    (h : iteration s i = some s') : ∃ n, historyLength s' = some (n + 1) := by
  obtain ⟨v, hv, hvn⟩ := iteration_defaultsSet hi h ("beta", Val.real 0) (by decide)
  have hcur := (iteration_current h)
  unfold iteration at h
  split at h
  · simp only [commit, Option.map_eq_some_iff] at h
    obtain ⟨h', hc, rfl⟩ := h
    have hl := commitLoop_lookup _ commitKeys commitKeys_nodup _ _ hc "beta"
    obtain ⟨l, hl0⟩ := Option.isSome_iff_exists.mp
      (lookup_isSome_of_mem (l := s.history) (k := "beta") (by rw [hw.2]; decide))
    rw [hl0] at hl
    refine ⟨l.length, ?_⟩
    have hin : "beta" ∈ commitKeys := by decide
    simp only [historyLength, hl, Option.map_some, commitVal, hin, if_true]
    simp only at hv
    rw [hv]
    simp [hvn]
  · cases h

/-- two worlds that agree on the StateManager and on the generator position -/
def SameRun (a b : World G C) : Prop := a.core.sm = b.core.sm ∧ a.rng = b.rng

/-- H_comp: what an iteration writes and where it leaves the generator does not depend on the component state carried
    over from earlier iterations -/
def CompIrrelevant (F : State → G → C → StepIn × G × C) : Prop :=
  ∀ s g c c', (F s g c).1 = (F s g c').1 ∧ (F s g c).2.1 = (F s g c').2.1

theorem iterate_sameRun {F : State → G → C → StepIn × G × C} (hc : CompIrrelevant F) {a b a' : World G C}
    (h : SameRun a b) (ha : iterate F a = some a') :
    ∃ b', iterate F b = some b' ∧ SameRun a' b' ∧ b'.core.nTotal = b.core.nTotal ∧ a'.core.nTotal = a.core.nTotal := by
  obtain ⟨hs, hg⟩ := h
  simp only [iterate, Option.map_eq_some_iff] at ha ⊢
  obtain ⟨sm', hsm, rfl⟩ := ha
  obtain ⟨e1, e2⟩ := hc a.core.sm a.rng a.core.comp b.core.comp
  refine ⟨_, ⟨sm', ?_, rfl⟩, ⟨rfl, ?_⟩, rfl, rfl⟩
  · rw [← hs, ← hg, ← e1]; exact hsm
  · show (F a.core.sm a.rng a.core.comp).2.1 = (F b.core.sm b.rng b.core.comp).2.1
    rw [← hs, ← hg]; exact e2

theorem iterateN_sameRun {F : State → G → C → StepIn × G × C} (hc : CompIrrelevant F) (m : Nat) {a b a' : World G C}
    (h : SameRun a b) (ha : iterateN F m a = some a') : ∃ b', iterateN F m b = some b' ∧ SameRun a' b' := by
  induction m generalizing a b with
  | zero =>
    simp only [iterateN, Option.some.injEq] at ha; subst ha
    exact ⟨b, rfl, h⟩
  | succ m ih =>
    simp only [iterateN, Option.bind_eq_some_iff] at ha
    obtain ⟨a1, h1, h2⟩ := ha
    obtain ⟨b1, hb1, hs1, _, _⟩ := iterate_sameRun hc h h1
    obtain ⟨b', hb', hs'⟩ := ih hs1 h2
    exact ⟨b', by simp [iterateN, hb1, hb'], hs'⟩

/-- `C08_resume_continues_run`: let `w` be the sampler at the moment a checkpoint is written (after ≥ 1 iterations), `f` ANY
    freshly constructed sampler, whatever the position of the global generator in the resuming process.  Under H_comp the
    resumed run and the uninterrupted run coincide from that point on, iteration by iteration, for every number `m` of
    further iterations: the same StateManager — iteration numbers, call counts, temperatures, evidence, particles, the whole
    history — and the same generator position.  (The resumed sampler starts with `t0` = the restored iteration number, its
    own components, and `n_total` = the argument of the resuming call.) -/
theorem C08_resume_continues_run (F : State → G → C → StepIn × G × C) (hc : CompIrrelevant F) (pickle : Core C → B)
    (w : World G C) (hw : WorldOK w) (it : Int) (hit : getInt "iter" w.core.sm.current = some it)
    (f : World G C) (n : Nat) (hf : f.core.sm = init n) (nT : Int) :
    ∃ r, prologueResume f (saveDict pickle w) nT = some r ∧
      r.core.sm = w.core.sm ∧ r.rng = w.rng ∧ r.core.comp = f.core.comp ∧ r.core.t0 = it ∧ r.core.nTotal = some (Val.int nT) ∧
      ∀ m wU, iterateN F m w = some wU → ∃ wR, iterateN F m r = some wR ∧ wR.core.sm = wU.core.sm ∧ wR.rng = wU.rng := by
  refine ⟨_, C08_resume_prologue pickle w hw it hit f n hf nT, rfl, rfl, rfl, rfl, rfl, ?_⟩
  intro m wU hU
  obtain ⟨wR, hR, h1, h2⟩ := iterateN_sameRun hc m (a := w)
    (b := { core := { f.core with sm := w.core.sm, nTotal := some (Val.int nT),
                                  logzErr := some (attrOrNone w.core.logzErr), t0 := it }
            rng := w.rng }) ⟨rfl, rfl⟩ hU
  exact ⟨wR, hR, h1.symm, h2.symm⟩

/-- `C08_resume_same_termination`: … and because the loop guard reads only the StateManager and `n_total`, a resumed run
    called with the `n_total` of the uninterrupted run stops after exactly the same iteration, in the same final state: it
    "terminates with the same postconditions" in the strongest sense. -/
theorem C08_resume_same_termination (F : State → G → C → StepIn × G × C) (hc : CompIrrelevant F)
    (cont : State → Option Val → Bool) (fuel : Nat) {a b a' : World G C} (h : SameRun a b)
    (hn : a.core.nTotal = b.core.nTotal) (ha : loopW F cont fuel a = some a') :
    ∃ b', loopW F cont fuel b = some b' ∧ SameRun a' b' := by
  induction fuel generalizing a b with
  | zero =>
    simp only [loopW] at ha ⊢
    rw [← h.1, ← hn]
    split at ha
    · cases ha
    · rename_i hc0
      simp only [Option.some.injEq] at ha; subst ha
      simp [hc0, h]
  | succ fuel ih =>
    simp only [loopW] at ha ⊢
    rw [← h.1, ← hn]
    split at ha
    · rename_i hc1
      simp only [hc1, if_true]
      simp only [Option.bind_eq_some_iff] at ha
      obtain ⟨a1, h1, h2⟩ := ha
      obtain ⟨b1, hb1, hs1, hnb, hna⟩ := iterate_sameRun hc h h1
      obtain ⟨b', hb', hs'⟩ := ih hs1 (by rw [hna, hnb, hn]) h2
      exact ⟨b', by simp [hb1, hb'], hs'⟩
    · rename_i hc0
      simp only [Option.some.injEq] at ha; subst ha
      simp [hc0, h]

/-- non-vacuity: a counter "generator", an oracle that ignores the components, one iteration, save, load into a fresh
    sampler whose generator sits elsewhere, two more iterations on both sides: identical StateManagers and generators -/
def exF : State → Nat → Bool → StepIn × Nat × Bool := fun _ g c =>
  (⟨32 + g, [("beta", .real (g + 1)), ("logz", .real 7), ("steps", .int 1), ("acceptance", .real 3), ("efficiency", .real 4),
             ("u", .arr (100 + g))]⟩, g + 5, !c)

def exW0 : World Nat Bool :=
  prologueFresh (fun r => r.toNat) ⟨⟨init 2, false, some 11, none, none, 0⟩, 0⟩ 64

example : CompIrrelevant exF := fun _ _ _ _ => ⟨rfl, rfl⟩
example : FOK exF := by
  intro s g c
  refine ⟨by intro kv hkv; simp [exF] at hkv; rcases hkv with rfl | rfl | rfl | rfl | rfl | rfl <;> simp [currentKeys], ?_⟩
  intro k hk
  simp only [List.mem_cons, List.not_mem_nil, or_false] at hk
  rcases hk with rfl | rfl | rfl | rfl | rfl <;> simp [exF, lookup, counterKeys]

example : ((iterateN exF 1 exW0).bind fun w =>
      (prologueResume (⟨⟨init 5, false, none, none, none, 0⟩, 999⟩ : World Nat Bool) (saveDict (fun _ => ()) w) 64).bind fun r =>
        (iterateN exF 2 r).bind fun wR => (iterateN exF 2 w).map fun wU =>
          (decide (wR.core.sm.current = wU.core.sm.current ∧ wR.core.sm.history = wU.core.sm.history) && wR.rng == wU.rng,
           r.core.t0, lookup "iter" wR.core.sm.current, lookup "calls" wR.core.sm.current, wR.core.comp, wU.core.comp))
    = some (true, 1, some (.int 3), some (.int 144), false, true) := by decide

/-- the toy checkpoint again: `load_state` + `run()` and `run(resume_state_path=…)` give the same world; the receiver's
    `random_state = 5` is NOT used to reseed (generator 16 = the writer's position), counters are not reset -/
def exFresh5 : World Nat Bool := ⟨⟨init 5, false, some 5, none, none, 0⟩, 999⟩

example : ((iterateN exF 1 exW0).bind fun w =>
      ((loadCore exFresh5 (saveDict (fun _ => ()) w)).bind fun w1 => prologueRun (fun r => r.toNat) w1 64).bind fun a =>
        (prologueResume exFresh5 (saveDict (fun _ => ()) w) 64).map fun b =>
          decide (a.core.sm.current = b.core.sm.current ∧ a.core.sm.history = b.core.sm.history ∧ a.core.nTotal = b.core.nTotal ∧
                  a.rng = 16 ∧ b.rng = 16 ∧ a.core.t0 = 1 ∧ b.core.t0 = 1 ∧ lookup "calls" a.core.sm.current = some (.int 43)))
    = some true := by decide

end Continue

/-! ### what H_comp means for the shared clusterer (`Model.Cadence`, C14's model of Trainer.run / Resampler.run) -/

section Cadence
open Model.Cadence

/-- the clusterer events without the construction of a fresh object -/
def noFresh (t : List Event) : List Event := t.filter (· != Event.fresh)

/-- simulation between a run and the same run with fresh components somewhere in its past -/
def CadSim (s s' : St) : Prop :=
  s.iter = s'.iter ∧ s.verdict = .ok ∧ s'.verdict = .ok ∧ noFresh s.trace = noFresh s'.trace

theorem noFresh_append (a b : List Event) : noFresh (a ++ b) = noFresh a ++ noFresh b := by simp [noFresh]

theorem cadStep_sim (c : Cfg) (hc : c.clusterEvery = 1 ∨ c.clustering = false) (warm : Bool) {s s' : St}
    (h : CadSim s s') : CadSim (step c s (.iter warm)) (step c s' (.iter warm)) := by
  obtain ⟨hi, hv, hv', ht⟩ := h
  rcases hc with hc | hc
  · -- every annealing iteration fits: the flag and the state of the object do not matter
    cases warm with
    | true => simp [CadSim, step, hv, hv', trainer, resampler, hi, ht]
    | false =>
      by_cases hcl : c.clustering
      · simp [CadSim, step, hv, hv', trainer, resampler, fitCond, onCadence, hc, Nat.mod_one, hcl, emitFit, emitPredict, hi,
          noFresh_append, ht]
      · simp [CadSim, step, hv, hv', trainer, resampler, hcl, hi, ht]
  · cases warm <;> simp [CadSim, step, hv, hv', trainer, resampler, hc, hi, ht]

theorem cadRun_sim (c : Cfg) (hc : c.clusterEvery = 1 ∨ c.clustering = false) (sched : List Bool) {s s' : St}
    (h : CadSim s s') : CadSim ((sched.map Step.iter).foldl (step c) s) ((sched.map Step.iter).foldl (step c) s') := by
  induction sched generalizing s s' with
  | nil => exact h
  | cons w r ih => exact ih (cadStep_sim c hc w h)

/-- `C08_components_irrelevant`: with `cluster_every = 1` (the default) or clustering off, constructing fresh components at
    ANY point `r` of ANY temperature schedule changes nothing about which clusterer fit serves which iteration: the
    fit/predict events of the resumed run are those of the uninterrupted run, and `predict` never meets an unfitted object.
    This is H_comp of `C08_resume_continues_run` read on the cadence model. -/
theorem C08_components_irrelevant (c : Cfg) (hc : c.clusterEvery = 1 ∨ c.clustering = false) (iter0 : Nat)
    (sched : List Bool) (r : Nat) :
    noFresh (run c iter0 (withResume sched (some r))).trace = noFresh (run c iter0 (withResume sched none)).trace ∧
    (run c iter0 (withResume sched (some r))).verdict = .ok ∧ (run c iter0 (withResume sched none)).verdict = .ok ∧
    (run c iter0 (withResume sched (some r))).iter = (run c iter0 (withResume sched none)).iter := by
  have hsplit : sched.map Step.iter = (sched.take r).map Step.iter ++ (sched.drop r).map Step.iter := by
    rw [← List.map_append, List.take_append_drop]
  have h0 : CadSim (init iter0) (init iter0) := ⟨rfl, rfl, rfl, rfl⟩
  have h1 := cadRun_sim c hc (sched.take r) h0
  set s1 := ((sched.take r).map Step.iter).foldl (step c) (init iter0) with hs1
  have h2 : CadSim (step c s1 .resume) s1 := by
    obtain ⟨_, hv, _, _⟩ := h1
    simp [CadSim, step, hv, noFresh]
  have h3 := cadRun_sim c hc (sched.drop r) h2
  simp only [run, withResume, hsplit, List.foldl_append, List.foldl_cons, ← hs1]
  exact ⟨h3.2.2.2, h3.2.1, h3.2.2.1, h3.1⟩

/-- … and it is NECESSARY: with `cluster_every = 3`, resuming before the 4th annealing iteration makes the fresh Trainer fit
    at an iteration where the uninterrupted run reuses the fit of iteration 3 — the runs may differ from there on
    (both are valid runs; the statement asks for the same postconditions, not the same trajectory). -/
theorem C08_components_matter_cluster_every_3 :
    noFresh (run ⟨3, true, true⟩ 0 (withResume [false, false, false, false] (some 3))).trace ≠
    noFresh (run ⟨3, true, true⟩ 0 (withResume [false, false, false, false] none)).trace := by decide

example : noFresh (run ⟨1, true, true⟩ 0 (withResume [true, false, false, false] (some 2))).trace
    = [.fit, .predict, .predict, .fit, .predict, .predict, .fit, .predict, .predict] := by decide

end Cadence

/-! ### every kind of worker pool -/

section PoolKinds
open Model.Checkpoint

/-- the `pool` slot of the frozen config as `save_sampler_state` tests it (`self.config.pool is not None`): an integer
    (ANY integer, also 0 and 1), a `multiprocess` pool object and a pool-like object with `.map` are all "not None" -/
def poolSlot : Model.Dispatch.PoolCfg → Option Model.Dispatch.PoolCfg
  | .none => none
  | p => some p

/-- `C08_pool_kinds_save`: if dill can pickle a core whose config carries no pool (H_dill; that no OTHER attribute of the core
    holds a pool is the obligation `C08_gen_core_attrs`), then `save_state` succeeds for EVERY kind of pool — none, integer,
    pool object, pool-like — and leaves the core exactly as it was (pool re-attached). -/
theorem C08_pool_kinds_save {R E B : Type} (pickle : Core Model.Dispatch.PoolCfg R → Except E B)
    (hp : ∀ r, ∃ b, pickle ⟨none, r⟩ = .ok b) (kind : Model.Dispatch.PoolCfg) (r : R) :
    (∃ b, (pickleDetached pickle ⟨poolSlot kind, r⟩).2 = .ok b) ∧
    (pickleDetached pickle ⟨poolSlot kind, r⟩).1 = ⟨poolSlot kind, r⟩ := by
  obtain ⟨b, hb⟩ := hp r
  obtain ⟨h1, h2, _⟩ := C08_pool_detach pickle ⟨poolSlot kind, r⟩
  exact ⟨⟨b, by rw [h2]; exact hb⟩, h1⟩

example : (pickleDetached (fun (c : Core Model.Dispatch.PoolCfg String) =>
      if c.pool.isSome then (Except.error "cannot pickle a pool" : Except String Nat) else .ok c.rest.length)
    ⟨poolSlot (.int 2), "core"⟩) = (⟨some (.int 2), "core"⟩, .ok 4) := by rfl

end PoolKinds

end StateSide

/-! ## Part G — the files of a whole run -/

section Files
open Model.FS

theorem samplerSave_eq_smSave (dir final : Path) (payload : Bytes) : samplerSave dir final payload = smSave dir final payload := rfl

/-- OBLIGATION-backed: the operation sequence extracted from `save_sampler_state`, instantiated with the names it computes,
    IS the program `samplerSave` the run model executes -/
theorem sampler_program_eq (dir final : Path) (payload : Bytes) :
    instantiate dir (final ++ Gen.Checkpoint.tmpSuffix) final payload Gen.Checkpoint.saveOps = samplerSave dir final payload := by
  simp [instantiate, substPath, Gen.Checkpoint.saveOps, Gen.Checkpoint.tmpSuffix, samplerSave, tempRename, tmpOf]

theorem samplerSave_touches {dir final q : Path} (payload : Bytes) (h1 : q ≠ final) (h2 : q ≠ tmpOf final) :
    ∀ o ∈ samplerSave dir final payload, touches q o = false := by
  intro o ho
  simp only [samplerSave, tempRename, List.mem_cons, List.not_mem_nil, or_false] at ho
  rcases ho with rfl | rfl | rfl | rfl | rfl | rfl | rfl <;> simp [touches, Ne.symm h1, Ne.symm h2]

/-- `C08_save_frame`: a save of `final` — complete or interrupted anywhere — changes NO other file: every path except
    `final` and `final + ".temp"` holds what it held before, in every crash state (so a later checkpoint of a run can
    never damage an earlier one) -/
theorem C08_save_frame (dir final q : Path) (payload : Bytes) (h1 : q ≠ final) (h2 : q ≠ tmpOf final) (fs fs' : FS)
    (hm : fs' ∈ crashStates (samplerSave dir final payload) fs) : lookup q fs' = lookup q fs :=
  crash_untouched _ (samplerSave_touches payload h1 h2) fs fs' hm

theorem save_frame_run (dir final q : Path) (payload : Bytes) (h1 : q ≠ final) (h2 : q ≠ tmpOf final) (fs : FS) :
    lookup q (run fs (samplerSave dir final payload)) = lookup q fs :=
  run_untouched _ (samplerSave_touches payload h1 h2) fs

/-- `C08_sampler_save_completes`: from ANY file system — in particular one holding a stale `final + ".temp"` left by an
    earlier crash, with any content — a complete `save_state` ends with the payload under the final name and NO temporary file -/
theorem C08_sampler_save_completes (dir final : Path) (payload : Bytes) (fs : FS) :
    lookup final (run fs (samplerSave dir final payload)) = some payload ∧
    lookup (tmpOf final) (run fs (samplerSave dir final payload)) = none :=
  C08_state_manager_save_completes dir final payload fs

/-- crash states of the sampler's program itself (not only of its classification) -/
theorem samplerSave_atomic (dir final : Path) (payload : Bytes) (fs fs' : FS)
    (hm : fs' ∈ crashStates (samplerSave dir final payload) fs) :
    lookup final fs' = lookup final fs ∨ lookup final fs' = some payload := by
  rw [← sampler_program_eq] at hm
  exact C08_sampler_save_crash_safe dir final payload fs fs' hm

/-- `C08_crash_then_resave`: a save interrupted ANYWHERE (it may leave a partial `.temp` behind) followed by a later save of
    the same name: the later save is again atomic over whatever the crash left, and when it completes the final name holds
    its payload and the leftover temporary file is gone -/
theorem C08_crash_then_resave (dir final : Path) (p1 p2 : Bytes) (fs fs1 : FS)
    (h1 : fs1 ∈ crashStates (samplerSave dir final p1) fs) :
    (∀ fs2 ∈ crashStates (samplerSave dir final p2) fs1,
        lookup final fs2 = lookup final fs ∨ lookup final fs2 = some p1 ∨ lookup final fs2 = some p2) ∧
    lookup final (run fs1 (samplerSave dir final p2)) = some p2 ∧
    lookup (tmpOf final) (run fs1 (samplerSave dir final p2)) = none := by
  refine ⟨?_, (C08_sampler_save_completes dir final p2 fs1).1, (C08_sampler_save_completes dir final p2 fs1).2⟩
  intro fs2 h2
  rcases samplerSave_atomic dir final p2 fs1 fs2 h2 with h | h
  · rcases samplerSave_atomic dir final p1 fs fs1 h1 with h' | h'
    · left; rw [h, h']
    · right; left; rw [h, h']
  · right; right; exact h

/-- stale temporary with arbitrary bytes, old checkpoint [1,1,1]: contents under the final name over all crash states -/
example : ((crashStates (samplerSave "ck/" "ck/ps_3.state" [2, 2, 2, 2]) [("ck/ps_3.state", [1, 1, 1]), ("ck/ps_3.state.temp", [9, 9])]).map
    (lookup "ck/ps_3.state")).eraseDups = [some [1, 1, 1], some [2, 2, 2, 2]] := by decide

/-- `C08_concurrent_same_name_mixes`: two writers saving the SAME final name at the same time share one temporary file.
    In this interleaving (both open, both write, the first renames) the final name holds the concatenation of the two
    payloads — neither the old content nor either complete payload.  The ASSUMPTION "no second process writes the same
    checkpoint name concurrently" is therefore needed; within one sampler saves are sequential (`Model.Resume.loop`). -/
theorem C08_concurrent_same_name_mixes :
    ∃ tr, Interleave (tempRename "ck" [1, 1]) (tempRename "ck" [2, 2]) tr ∧
      lookup "ck" (run [("ck", [7])] tr) = some [1, 1, 2, 2] := by
  refine ⟨[.openTrunc "ck.temp", .openTrunc "ck.temp", .write "ck.temp" [1, 1], .write "ck.temp" [2, 2], .flush "ck.temp",
           .fsync "ck.temp", .close "ck.temp", .rename "ck.temp" "ck", .flush "ck.temp", .fsync "ck.temp", .close "ck.temp",
           .rename "ck.temp" "ck"], ?_, by decide⟩
  exact .left _ (.right _ (.left _ (.right _ (.left _ (.left _ (.left _ (.left _ (.right _ (.right _ (.right _ (.right _ .nil)))))))))))

end Files

section Concurrent
open Model.FS

theorem lookup_put (r p : Path) (c : Bytes) (fs : FS) : lookup r (put p c fs) = if r = p then some c else lookup r fs := by
  by_cases h : r = p
  · subst h; simp [lookup_put_eq]
  · simp [h, lookup_put_ne h]

theorem lookup_erase (r p : Path) (fs : FS) : lookup r (erase p fs) = if r = p then none else lookup r fs := by
  by_cases h : r = p
  · subst h; simp [lookup_erase_eq]
  · simp [h, lookup_erase_ne h]

/-- the operation involves neither `final` nor its temporary file -/
def foreign (final : Path) (o : FsOp) : Bool := (opPaths o).all fun p => p != final && p != tmpOf final

/-- the operation involves only `final` and its temporary file -/
def inside (final : Path) (o : FsOp) : Bool := (opPaths o).all fun p => p == final || p == tmpOf final

/-- two file systems that hold the same under `final` and under its temporary name -/
def Agree (final : Path) (a b : FS) : Prop :=
  lookup final a = lookup final b ∧ lookup (tmpOf final) a = lookup (tmpOf final) b

theorem foreign_touches {final : Path} {o : FsOp} (h : foreign final o = true) :
    touches final o = false ∧ touches (tmpOf final) o = false := by
  cases o <;> simp_all [foreign, opPaths, touches]

theorem exec_foreign {final : Path} {o : FsOp} (h : foreign final o = true) (fs : FS) : Agree final (exec fs o) fs :=
  ⟨exec_untouched (foreign_touches h).1 fs, exec_untouched (foreign_touches h).2 fs⟩

theorem during_foreign {final : Path} {o : FsOp} (h : foreign final o = true) (fs fs' : FS) (hm : fs' ∈ during fs o) :
    Agree final fs' fs :=
  ⟨during_untouched (foreign_touches h).1 fs fs' hm, during_untouched (foreign_touches h).2 fs fs' hm⟩

theorem exec_inside {final : Path} {o : FsOp} (h : inside final o = true) {a b : FS} (hab : Agree final a b) :
    Agree final (exec a o) (exec b o) := by
  obtain ⟨h1, h2⟩ := hab
  have ht := tmpOf_ne final
  cases o with
  | mkdir p => exact ⟨h1, h2⟩
  | flush p => exact ⟨h1, h2⟩
  | fsync p => exact ⟨h1, h2⟩
  | close p => exact ⟨h1, h2⟩
  | openTrunc p =>
    simp only [inside, opPaths, List.all_cons, List.all_nil, Bool.and_true, Bool.or_eq_true, beq_iff_eq] at h
    simp only [Agree, exec, lookup_put]
    rcases h with rfl | rfl <;> simp [h1, h2, ht, Ne.symm ht]
  | write p c =>
    simp only [inside, opPaths, List.all_cons, List.all_nil, Bool.and_true, Bool.or_eq_true, beq_iff_eq] at h
    simp only [Agree, exec]
    rcases h with rfl | rfl
    · rw [← h1]; cases lookup p a <;> simp [lookup_put, h1, h2, ht]
    · rw [← h2]; cases lookup (tmpOf final) a <;> simp [lookup_put, h1, h2, Ne.symm ht]
  | rename p q =>
    simp only [inside, opPaths, List.all_cons, List.all_nil, Bool.and_true, Bool.and_eq_true, Bool.or_eq_true, beq_iff_eq] at h
    obtain ⟨hp, hq⟩ := h
    have hpa : lookup p b = lookup p a := by rcases hp with rfl | rfl <;> simp [h1, h2]
    simp only [exec, hpa]
    cases lookup p a with
    | none => exact ⟨h1, h2⟩
    | some c =>
      by_cases hpq : p = q
      · simp only [hpq, if_true]; exact ⟨h1, h2⟩
      · simp only [hpq, if_false, Agree, lookup_put, lookup_erase]
        rcases hp with rfl | rfl <;> rcases hq with rfl | rfl <;> simp_all

theorem during_inside {final : Path} {o : FsOp} (h : inside final o = true) {a b : FS} (hab : Agree final a b) (fs' : FS)
    (hm : fs' ∈ during a o) : ∃ fs'' ∈ during b o, Agree final fs' fs'' := by
  cases o with
  | write p c =>
    simp only [during, List.mem_map, List.mem_range] at hm ⊢
    obtain ⟨k, hk, rfl⟩ := hm
    exact ⟨_, ⟨k, hk, rfl⟩, exec_inside (o := .write p (c.take k)) (by simpa [inside, opPaths] using h) hab⟩
  | mkdir p => simp only [during, List.mem_singleton] at hm ⊢; subst hm; exact ⟨b, rfl, hab⟩
  | openTrunc p => simp only [during, List.mem_singleton] at hm ⊢; subst hm; exact ⟨b, rfl, hab⟩
  | flush p => simp only [during, List.mem_singleton] at hm ⊢; subst hm; exact ⟨b, rfl, hab⟩
  | fsync p => simp only [during, List.mem_singleton] at hm ⊢; subst hm; exact ⟨b, rfl, hab⟩
  | close p => simp only [during, List.mem_singleton] at hm ⊢; subst hm; exact ⟨b, rfl, hab⟩
  | rename p q => simp only [during, List.mem_singleton] at hm ⊢; subst hm; exact ⟨b, rfl, hab⟩

/-- the first crash state of any program is (map-equal to) the state it starts from -/
theorem crash_first (ops : List FsOp) (fs : FS) : ∃ fs0 ∈ crashStates ops fs, ∀ q, lookup q fs0 = lookup q fs := by
  cases ops with
  | nil => exact ⟨fs, by simp [crashStates], fun _ => rfl⟩
  | cons o os =>
    cases o with
    | write p c =>
      refine ⟨exec fs (.write p (c.take 0)), ?_, ?_⟩
      · simp only [crashStates, during, List.mem_append, List.mem_map, List.mem_range]
        exact Or.inl ⟨0, by omega, rfl⟩
      · intro q
        simp only [exec, List.take_zero, List.append_nil]
        cases hl : lookup p fs with
        | none => rfl
        | some c0 =>
          simp only [lookup_put]
          split
          · rename_i hq; rw [hq, hl]
          · rfl
    | mkdir p => exact ⟨fs, by simp [crashStates, during], fun _ => rfl⟩
    | openTrunc p => exact ⟨fs, by simp [crashStates, during], fun _ => rfl⟩
    | flush p => exact ⟨fs, by simp [crashStates, during], fun _ => rfl⟩
    | fsync p => exact ⟨fs, by simp [crashStates, during], fun _ => rfl⟩
    | close p => exact ⟨fs, by simp [crashStates, during], fun _ => rfl⟩
    | rename p q => exact ⟨fs, by simp [crashStates, during], fun _ => rfl⟩

theorem Agree.trans {final : Path} {a b c : FS} (h1 : Agree final a b) (h2 : Agree final b c) : Agree final a c :=
  ⟨h1.1.trans h2.1, h1.2.trans h2.2⟩

/-- `C08_foreign_ops_irrelevant`: in a trace whose operations each concern either only `final` and its temporary file or
    neither of them (e.g. any interleaving of a save of `final` with saves of other checkpoints by other processes), the
    foreign operations can be deleted: every crash state of the trace agrees, on `final` and on its temporary file, with a
    crash state of the trace without them. -/
theorem C08_foreign_ops_irrelevant (final : Path) :
    ∀ (tr : List FsOp) (a b : FS), (∀ o ∈ tr, foreign final o = true ∨ inside final o = true) → Agree final a b →
      ∀ fs' ∈ crashStates tr a,
        ∃ fs'' ∈ crashStates (tr.filter fun o => !foreign final o) b, Agree final fs' fs'' := by
  intro tr
  induction tr with
  | nil =>
    intro a b _ hab fs' hm
    simp only [crashStates, List.mem_singleton] at hm
    subst hm
    exact ⟨b, by simp [crashStates], hab⟩
  | cons o os ih =>
    intro a b hall hab fs' hm
    have hos : ∀ o' ∈ os, foreign final o' = true ∨ inside final o' = true := fun o' ho' => hall o' (by simp [ho'])
    simp only [crashStates, List.mem_append] at hm
    by_cases hf : foreign final o = true
    · simp only [List.filter_cons, hf, Bool.not_true, Bool.false_eq_true, if_false]
      rcases hm with hm | hm
      · obtain ⟨fs0, h0, hq⟩ := crash_first (os.filter fun o => !foreign final o) b
        exact ⟨fs0, h0, (during_foreign hf a fs' hm).trans (hab.trans ⟨(hq _).symm, (hq _).symm⟩)⟩
      · exact ih (exec a o) b hos ((exec_foreign hf a).trans hab) fs' hm
    · have hi : inside final o = true := by
        rcases hall o (by simp) with h | h
        · exact absurd h hf
        · exact h
      simp only [List.filter_cons, hf, Bool.not_false, if_true, crashStates, List.mem_append]
      rcases hm with hm | hm
      · obtain ⟨fs'', h1, h2⟩ := during_inside hi hab fs' hm
        exact ⟨fs'', Or.inl h1, h2⟩
      · obtain ⟨fs'', h1, h2⟩ := ih (exec a o) (exec b o) hos (exec_inside hi hab) fs' hm
        exact ⟨fs'', Or.inr h1, h2⟩

theorem interleave_mem {a b t : List FsOp} (h : Interleave a b t) : ∀ o ∈ t, o ∈ a ∨ o ∈ b := by
  induction h with
  | nil => simp
  | left x _ ih =>
    intro o ho
    rcases List.mem_cons.mp ho with rfl | ho
    · simp
    · rcases ih o ho with h | h
      · exact Or.inl (by simp [h])
      · exact Or.inr h
  | right y _ ih =>
    intro o ho
    rcases List.mem_cons.mp ho with rfl | ho
    · simp
    · rcases ih o ho with h | h
      · exact Or.inl h
      · exact Or.inr (by simp [h])

theorem interleave_filter {a b t : List FsOp} (p : FsOp → Bool) (h : Interleave a b t) (hb : ∀ o ∈ b, p o = false) :
    t.filter p = a.filter p := by
  induction h with
  | nil => rfl
  | left x _ ih => simp only [List.filter_cons]; rw [ih hb]
  | right y _ ih =>
    have hy : p y = false := hb y (by simp)
    simp only [List.filter_cons, hy, Bool.false_eq_true, if_false]
    exact ih (fun o ho => hb o (by simp [ho]))

/-- `C08_concurrent_distinct_names_safe`: a save of `f1` interleaved IN ANY WAY with a save of another name `f2` (another
    process writing another checkpoint into the same directory), where neither name is the other's temporary name: in every
    crash state of the interleaving — either process may die anywhere — `f1` holds its old content or its complete payload. -/
theorem C08_concurrent_distinct_names_safe (d1 d2 f1 f2 : Path) (p1 p2 : Bytes)
    (h12 : f2 ≠ f1) (h1 : f2 ≠ tmpOf f1) (h2 : tmpOf f2 ≠ f1) (tr : List FsOp)
    (hi : Interleave (samplerSave d1 f1 p1) (samplerSave d2 f2 p2) tr) (fs fs' : FS) (hm : fs' ∈ crashStates tr fs) :
    lookup f1 fs' = lookup f1 fs ∨ lookup f1 fs' = some p1 := by
  have h3 : tmpOf f2 ≠ tmpOf f1 := fun e => h12 (C08_sm_temp_name_injective _ _ e)
  have ht := tmpOf_ne f1
  have hA : ∀ o ∈ samplerSave d1 f1 p1, foreign f1 o = true ∨ inside f1 o = true := by
    intro o ho
    simp only [samplerSave, tempRename, List.mem_cons, List.not_mem_nil, or_false] at ho
    rcases ho with rfl | rfl | rfl | rfl | rfl | rfl | rfl <;> simp [foreign, inside, opPaths]
  have hB : ∀ o ∈ samplerSave d2 f2 p2, foreign f1 o = true := by
    intro o ho
    simp only [samplerSave, tempRename, List.mem_cons, List.not_mem_nil, or_false] at ho
    rcases ho with rfl | rfl | rfl | rfl | rfl | rfl | rfl <;> simp [foreign, opPaths, h12, h1, h2, h3]
  have hall : ∀ o ∈ tr, foreign f1 o = true ∨ inside f1 o = true := by
    intro o ho
    rcases interleave_mem hi o ho with h | h
    · exact hA o h
    · exact Or.inl (hB o h)
  obtain ⟨fs'', hm'', hag⟩ := C08_foreign_ops_irrelevant f1 tr fs fs hall ⟨rfl, rfl⟩ fs' hm
  rw [interleave_filter _ hi (by intro o ho; simp [hB o ho])] at hm''
  have hfil : (samplerSave d1 f1 p1).filter (fun o => !foreign f1 o) = tempRename f1 p1 := by
    simp [samplerSave, tempRename, foreign, opPaths]
  rw [hfil] at hm''
  rw [hag.1]
  exact C08_tempRename_atomic f1 p1 fs fs'' hm''

end Concurrent

section RunFiles
open Model.Resume
variable {G C B : Type}

/-- what the run-level theorem needs of the checkpoint file names: distinct iterations get distinct names, none of them is
    the final name, and no checkpoint name is the temporary name of another (`C08_state_names_ok` proves the last three
    for names of the form `… .state`) -/
structure NamesOK (env : Env G C B) : Prop where
  inj : ∀ i j, env.periodic i = env.periodic j → i = j
  fin : ∀ i, env.periodic i ≠ env.final
  tmpP : ∀ i j, Model.FS.tmpOf (env.periodic i) ≠ env.periodic j
  tmpPF : ∀ i, Model.FS.tmpOf (env.periodic i) ≠ env.final
  tmpFP : ∀ i, Model.FS.tmpOf env.final ≠ env.periodic i

theorem saveTo_spec (env : Env G C B) (p : Model.FS.Path) (w : World G C) (fs : Model.FS.FS) :
    Model.FS.lookup p (saveTo env p w fs) = some (env.enc (saveDict env.pickle w)) ∧
    Model.FS.lookup (Model.FS.tmpOf p) (saveTo env p w fs) = none ∧
    ∀ q, q ≠ p → q ≠ Model.FS.tmpOf p → Model.FS.lookup q (saveTo env p w fs) = Model.FS.lookup q fs :=
  ⟨(C08_sampler_save_completes _ _ _ _).1, (C08_sampler_save_completes _ _ _ _).2,
   fun _ h1 h2 => save_frame_run _ _ _ _ h1 h2 _⟩

theorem iterate_iter {F : Model.Checkpoint.State → G → C → Model.Checkpoint.StepIn × G × C} {w w' : World G C} {it : Int}
    (hit : Model.Checkpoint.getInt "iter" w.core.sm.current = some it) (h : iterate F w = some w') :
    Model.Checkpoint.getInt "iter" w'.core.sm.current = some (it + 1) ∧ w'.core.t0 = w.core.t0 := by
  simp only [iterate, Option.map_eq_some_iff] at h
  obtain ⟨sm', hs, rfl⟩ := h
  obtain ⟨_, it', _, hit', _, hit'', _⟩ := iteration_spec hs
  rw [hit] at hit'
  obtain rfl := Option.some.inj hit'
  exact ⟨hit'', rfl⟩

theorem iterStarts_succ (t0 : Int) (n : Nat) :
    Model.Checkpoint.iterStarts t0 (n + 1) = t0 :: Model.Checkpoint.iterStarts (t0 + 1) n := by
  simp only [Model.Checkpoint.iterStarts, List.range_succ_eq_map, List.map_cons, List.map_map]
  congr 1
  · simp
  · apply List.map_congr_left
    intro j _
    simp only [Function.comp]
    push_cast
    ring

theorem periodicSave_spec (env : Env G C B) (kk : Int) (w : World G C) (fs fs1 : Model.FS.FS)
    (l1 : List (Model.FS.Path × World G C)) (it : Int)
    (hit : Model.Checkpoint.getInt "iter" w.core.sm.current = some it)
    (h : periodicSave env (some kk) w fs = some (fs1, l1)) :
    (Model.Checkpoint.savesAt w.core.t0 kk it = true ∧ fs1 = saveTo env (env.periodic it) w fs ∧ l1 = [(env.periodic it, w)]) ∨
    (Model.Checkpoint.savesAt w.core.t0 kk it = false ∧ fs1 = fs ∧ l1 = []) := by
  simp only [periodicSave, hit] at h
  split at h
  · rename_i hs
    simp only [Option.some.injEq, Prod.mk.injEq] at h
    exact Or.inl ⟨hs, h.1.symm, h.2.symm⟩
  · rename_i hs
    simp only [Option.some.injEq, Prod.mk.injEq] at h
    exact Or.inr ⟨by simpa using hs, h.1.symm, h.2.symm⟩

/-- the loop of `run_sampling` with `save_every = kk`, by induction over the iterations -/
theorem loop_files (env : Env G C B) (hN : NamesOK env) (kk : Int) :
    ∀ (fuel : Nat) (w : World G C) (fs : Model.FS.FS) (it : Int) (wE : World G C) (fsE : Model.FS.FS)
      (log : List (Model.FS.Path × World G C)),
      Model.Checkpoint.getInt "iter" w.core.sm.current = some it →
      loop env (some kk) fuel w fs = some (wE, fsE, log) →
      ∃ n : Nat, Model.Checkpoint.getInt "iter" wE.core.sm.current = some (it + (n : Int)) ∧ wE.core.t0 = w.core.t0 ∧
        iterateN env.F n w = some wE ∧
        log.map (·.1) = ((Model.Checkpoint.iterStarts it n).filter (Model.Checkpoint.savesAt w.core.t0 kk)).map env.periodic ∧
        (∀ e ∈ log, ∃ j : Nat, j < n ∧ e.1 = env.periodic (it + (j : Int)) ∧ iterateN env.F j w = some e.2 ∧
                    Model.Checkpoint.savesAt w.core.t0 kk (it + (j : Int)) = true) ∧
        (∀ e ∈ log, Model.FS.lookup e.1 fsE = some (env.enc (saveDict env.pickle e.2)) ∧
                    Model.FS.lookup (Model.FS.tmpOf e.1) fsE = none) ∧
        (∀ q, (∀ j : Nat, j < n → q ≠ env.periodic (it + (j : Int)) ∧ q ≠ Model.FS.tmpOf (env.periodic (it + (j : Int)))) →
              Model.FS.lookup q fsE = Model.FS.lookup q fs) := by
  intro fuel
  induction fuel with
  | zero =>
    intro w fs it wE fsE log hit h
    simp only [loop] at h
    split at h
    · cases h
    · simp only [Option.some.injEq, Prod.mk.injEq] at h
      obtain ⟨rfl, rfl, rfl⟩ := h
      exact ⟨0, by simpa using hit, rfl, rfl, by simp [Model.Checkpoint.iterStarts], by simp, by simp, fun _ _ => rfl⟩
  | succ fuel ih =>
    intro w fs it wE fsE log hit h
    simp only [loop] at h
    split at h
    · simp only [Option.bind_eq_some_iff, Option.map_eq_some_iff] at h
      obtain ⟨⟨fs1, l1⟩, hps, w', hw', ⟨wE', fsE', log'⟩, hl, heq⟩ := h
      simp only [Prod.mk.injEq] at heq
      obtain ⟨rfl, rfl, rfl⟩ := heq
      obtain ⟨hit', ht0'⟩ := iterate_iter hit hw'
      obtain ⟨n', hitE, ht0E, hN', hnames, hlog, hcont, hframe⟩ := ih w' fs1 (it + 1) wE' fsE' log' hit' hl
      have cast1 : ∀ j : Nat, it + 1 + (j : Int) = it + ((j + 1 : Nat) : Int) := by intro j; push_cast; ring
      refine ⟨n' + 1, by rw [hitE, cast1], by rw [ht0E, ht0'], by simp [iterateN, hw', hN'], ?_, ?_, ?_, ?_⟩
      · -- names
        rw [iterStarts_succ, List.map_append, hnames, ht0']
        rcases periodicSave_spec env kk w fs fs1 l1 it hit hps with ⟨hs, _, rfl⟩ | ⟨hs, _, rfl⟩
        · simp [hs]
        · simp [hs]
      · -- which world each entry is
        intro e he
        rcases List.mem_append.mp he with he | he
        · rcases periodicSave_spec env kk w fs fs1 l1 it hit hps with ⟨hs, _, rfl⟩ | ⟨_, _, rfl⟩
          · simp only [List.mem_singleton] at he
            subst he
            exact ⟨0, by omega, by simp, rfl, by simpa using hs⟩
          · simp at he
        · obtain ⟨j, hj, hp, hw, hsv⟩ := hlog e he
          exact ⟨j + 1, by omega, by rw [hp, cast1], by simp [iterateN, hw', hw], by rw [← cast1, ← ht0']; exact hsv⟩
      · -- contents
        intro e he
        rcases List.mem_append.mp he with he | he
        · rcases periodicSave_spec env kk w fs fs1 l1 it hit hps with ⟨_, rfl, rfl⟩ | ⟨_, _, rfl⟩
          · simp only [List.mem_singleton] at he
            subst he
            obtain ⟨s1, s2, _⟩ := saveTo_spec env (env.periodic it) w fs
            have hne : ∀ j : Nat, it ≠ it + 1 + (j : Int) := by intro j; omega
            constructor
            · rw [hframe (env.periodic it) (fun j _ =>
                ⟨fun e => hne j (hN.inj _ _ e), fun e => hN.tmpP _ _ e.symm⟩)]
              exact s1
            · rw [hframe (Model.FS.tmpOf (env.periodic it)) (fun j _ =>
                ⟨fun e => hN.tmpP _ _ e, fun e => hne j (hN.inj _ _ (C08_sm_temp_name_injective _ _ e))⟩)]
              exact s2
          · simp at he
        · exact hcont e he
      · -- frame
        intro q hq
        rw [hframe q (fun j hj => by
          have := hq (j + 1) (by omega)
          rwa [← cast1] at this)]
        rcases periodicSave_spec env kk w fs fs1 l1 it hit hps with ⟨_, rfl, _⟩ | ⟨_, rfl, _⟩
        · have h0 := hq 0 (by omega)
          simp only [Nat.cast_zero, add_zero] at h0
          exact (saveTo_spec env (env.periodic it) w fs).2.2 q h0.1 h0.2
        · rfl
    · simp only [Option.some.injEq, Prod.mk.injEq] at h
      obtain ⟨rfl, rfl, rfl⟩ := h
      exact ⟨0, by simpa using hit, rfl, rfl, by simp [Model.Checkpoint.iterStarts], by simp, by simp, fun _ _ => rfl⟩

/-- `C08_run_checkpoints` — the whole `run(save_every = kk)` from a sampler whose prologue has run (`t0 = iter = it`: a fresh
    one with `it = 0`, or a resumed one), for EVERY iteration oracle, guard, payload encoding and initial file system:
    when the run returns after `n` iterations,
    * the checkpoint files written are, in order, `<label>_<i>.state` for exactly the `i` of the cadence
      (`periodicSaves it kk n`, characterised by `C08_save_cadence`) and then `<label>_final.state`;
    * EVERY one of them holds — at the END of the run, after all later saves — the complete pickle of the dictionary of the
      sampler as it was when that checkpoint was written: for `<label>_<it+j>.state` the sampler after exactly `j ≥ 1`
      iterations (before iteration `j+1` touched it), for the final one the sampler the run returns (evidence epilogue
      included); no later save damaged an earlier file, and no temporary file is left;
    * every other path of the file system is untouched. -/
theorem C08_run_checkpoints (env : Env G C B) (hN : NamesOK env) (kk : Int) (fuel : Nat) (w : World G C)
    (fs : Model.FS.FS) (it : Int) (hit : Model.Checkpoint.getInt "iter" w.core.sm.current = some it) (ht0 : w.core.t0 = it)
    (wE : World G C) (fsE : Model.FS.FS) (log : List (Model.FS.Path × World G C))
    (h : runFrom env (some kk) fuel w fs = some (wE, fsE, log)) :
    ∃ (n : Nat) (wL : World G C), iterateN env.F n w = some wL ∧ wE = (epilogue env (some kk) wL fs).1 ∧
      log.map (·.1) = (Model.Checkpoint.periodicSaves it kk n).map env.periodic ++ [env.final] ∧
      (∀ e ∈ log, Model.FS.lookup e.1 fsE = some (env.enc (saveDict env.pickle e.2)) ∧
                  Model.FS.lookup (Model.FS.tmpOf e.1) fsE = none) ∧
      (∀ e ∈ log, (e.1 = env.final ∧ e.2 = wE) ∨
                  ∃ j : Nat, 1 ≤ j ∧ j < n ∧ e.1 = env.periodic (it + (j : Int)) ∧ iterateN env.F j w = some e.2) ∧
      (∀ q, q ≠ env.final → q ≠ Model.FS.tmpOf env.final →
            (∀ j : Nat, j < n → q ≠ env.periodic (it + (j : Int)) ∧ q ≠ Model.FS.tmpOf (env.periodic (it + (j : Int)))) →
            Model.FS.lookup q fsE = Model.FS.lookup q fs) := by
  simp only [runFrom, Option.map_eq_some_iff] at h
  obtain ⟨⟨wL, fsL, logL⟩, hl, heq⟩ := h
  obtain ⟨n, _, _, hN', hnames, hlog, hcont, hframe⟩ := loop_files env hN kk fuel w fs it wL fsL logL hit hl
  simp only [epilogue, Prod.mk.injEq] at heq
  obtain ⟨rfl, rfl, rfl⟩ := heq
  obtain ⟨s1, s2, s3⟩ := saveTo_spec env env.final
    ({ wL with core := { wL.core with
        sm := { wL.core.sm with current := Model.Checkpoint.setKey "logz" (env.z1 wL.core.sm) wL.core.sm.current },
        logzErr := some Model.Checkpoint.Val.none } } : World G C) fsL
  refine ⟨n, wL, hN', by simp [epilogue], ?_, ?_, ?_, ?_⟩
  · rw [List.map_append, hnames, ht0]; rfl
  · intro e he
    rcases List.mem_append.mp he with he | he
    · obtain ⟨j, _, hp, _, _⟩ := hlog e he
      obtain ⟨c1, c2⟩ := hcont e he
      constructor
      · rw [s3 e.1 (by rw [hp]; exact hN.fin _) (by rw [hp]; exact fun e' => hN.tmpFP _ e'.symm)]; exact c1
      · rw [s3 _ (by rw [hp]; exact hN.tmpPF _)
          (by rw [hp]; exact fun e' => hN.fin _ (C08_sm_temp_name_injective _ _ e'))]; exact c2
    · simp only [List.mem_singleton] at he
      subst he
      exact ⟨s1, s2⟩
  · intro e he
    rcases List.mem_append.mp he with he | he
    · obtain ⟨j, hj, hp, hw, hsv⟩ := hlog e he
      right
      refine ⟨j, ?_, hj, hp, hw⟩
      rw [ht0] at hsv
      by_contra hj0
      have : j = 0 := by omega
      subst this
      simp [Model.Checkpoint.savesAt] at hsv
    · simp only [List.mem_singleton] at he
      subst he
      exact Or.inl ⟨rfl, rfl⟩
  · intro q h1 h2 hq
    rw [s3 q h1 h2, hframe q hq]

/-- `C08_every_checkpoint_restores` — "every checkpoint written during a run, loaded into a freshly constructed sampler,
    restores exactly the particle state and the full history that existed when it was written": for every periodic
    checkpoint file of the run of `C08_run_checkpoints`, decoding what the file holds at the end of the run and loading it
    into ANY fresh sampler (whatever its generator position) yields the StateManager — literally — and the generator
    position the writer had after exactly `j` iterations, and its `n_total`/`logz_err`.  (dill trusted: `dec ∘ enc = some`.) -/
theorem C08_every_checkpoint_restores (env : Env G C B) (hN : NamesOK env) (hF : FOK env.F)
    (dec : Model.FS.Bytes → Option (CkDict G B)) (hdec : ∀ d, dec (env.enc d) = some d)
    (kk : Int) (fuel : Nat) (w : World G C) (hw : Model.Resume.WellKeyed w.core.sm)
    (fs : Model.FS.FS) (it : Int) (hit : Model.Checkpoint.getInt "iter" w.core.sm.current = some it) (ht0 : w.core.t0 = it)
    (wE : World G C) (fsE : Model.FS.FS) (log : List (Model.FS.Path × World G C))
    (h : runFrom env (some kk) fuel w fs = some (wE, fsE, log))
    (e : Model.FS.Path × World G C) (he : e ∈ log) (hper : e.1 ≠ env.final)
    (f : World G C) (m : Nat) (hf : f.core.sm = Model.Checkpoint.init m) :
    ∃ c r, Model.FS.lookup e.1 fsE = some c ∧ (dec c).bind (loadCore f) = some r ∧
      r.core.sm = e.2.core.sm ∧ r.rng = e.2.rng ∧ r.core.comp = f.core.comp ∧
      ∃ j : Nat, 1 ≤ j ∧ iterateN env.F j w = some e.2 ∧
        Model.Checkpoint.getInt "iter" e.2.core.sm.current = some (it + (j : Int)) := by
  obtain ⟨n, wL, _, _, _, hcont, hwho, _⟩ := C08_run_checkpoints env hN kk fuel w fs it hit ht0 wE fsE log h
  rcases hwho e he with ⟨hfin, _⟩ | ⟨j, hj1, _, _, hjw⟩
  · exact absurd hfin hper
  · obtain ⟨j', rfl⟩ : ∃ j', j = j' + 1 := ⟨j - 1, by omega⟩
    have hok : WorldOK e.2 := C08_run_invariants env.F hF j' w e.2 hw hjw
    refine ⟨_, { core := { f.core with sm := e.2.core.sm, nTotal := some (attrOrNone e.2.core.nTotal),
                                       logzErr := some (attrOrNone e.2.core.logzErr) }
                 rng := e.2.rng }, (hcont e he).1, ?_, rfl, rfl, rfl, j' + 1, hj1, hjw, ?_⟩
    · rw [hdec]
      exact C08_core_restore env.pickle e.2 hok f m hf
    · -- the iteration counter of the logged world
      have : ∀ (k : Nat) (a b : World G C) (i0 : Int), Model.Checkpoint.getInt "iter" a.core.sm.current = some i0 →
          iterateN env.F k a = some b → Model.Checkpoint.getInt "iter" b.core.sm.current = some (i0 + (k : Int)) := by
        intro k
        induction k with
        | zero => intro a b i0 ha hb; simp only [iterateN, Option.some.injEq] at hb; subst hb; simpa using ha
        | succ k ih =>
          intro a b i0 ha hb
          simp only [iterateN, Option.bind_eq_some_iff] at hb
          obtain ⟨a1, h1, h2⟩ := hb
          rw [ih a1 b (i0 + 1) (iterate_iter ha h1).1 h2]
          congr 1; push_cast; ring
      exact this _ _ _ _ hit hjw

/-! ### the names `output_dir / f"{label}_{iter}.state"` meet `NamesOK` -/

theorem repr_ne_final (i : Int) : Int.repr i ≠ "final" := by
  intro h
  have h1 : ("final" : String).isInt = true := by rw [← h]; exact Int.isInt_repr i
  rw [String.isInt_iff] at h1
  rcases h1 with h1 | ⟨t, ht, _⟩
  · rw [String.isNat_iff] at h1
    have := h1.2.1 'f' (by decide)
    revert this; decide
  · have := congrArg String.toList ht
    simp [String.toList_append] at this

/-- a name ending in ".state" is never the temporary name (`… + ".temp"`) of anything -/
theorem tmpOf_ne_state (a b : String) : Model.FS.tmpOf a ≠ b ++ ".state" := by
  intro h
  have h2 := congrArg String.toList h
  simp only [Model.FS.tmpOf, String.toList_append] at h2
  have h3 := congrArg List.getLast? h2
  simp at h3

/-- `C08_state_names_ok`: with `pre = output_dir/label_`, the names the sampler really uses — `pre ++ str(iter) ++ ".state"`
    (Python's `f"{iter_val}"` of an int is its decimal representation, `Int.repr`) and `pre ++ "final.state"` — satisfy every
    requirement of the run-level theorems: no hypothesis about file names is left open. -/
theorem C08_state_names_ok (env : Env G C B) (pre : String)
    (hp : ∀ i, env.periodic i = pre ++ Int.repr i ++ ".state") (hf : env.final = pre ++ "final" ++ ".state") : NamesOK env where
  inj := by
    intro i j h
    rw [hp, hp] at h
    exact Int.repr_injective ((String.append_right_inj pre).mp ((String.append_left_inj ".state").mp h))
  fin := by
    intro i h
    rw [hp, hf] at h
    exact repr_ne_final i ((String.append_right_inj pre).mp ((String.append_left_inj ".state").mp h))
  tmpP := by intro i j; rw [hp j]; exact tmpOf_ne_state _ _
  tmpPF := by intro i; rw [hf]; exact tmpOf_ne_state _ _
  tmpFP := by intro i; rw [hp i]; exact tmpOf_ne_state _ _

/-- non-vacuity of the run-level theorems: a run of three iterations with `save_every = 1` from a fresh sampler.  The files at
    the end: `ps_1`, `ps_2` (written before iterations 2 and 3) and `ps_final`, each holding the generator position of the
    moment it was written (the toy encoding keeps only that), no temporary file left. -/
def exEnv : Env Nat Bool Unit :=
  { F := exF
    cont := fun s _ => match Model.Checkpoint.getInt "iter" s.current with | some i => decide (i < 3) | none => false
    z1 := fun _ => Model.Checkpoint.Val.real 9
    enc := fun d => match d.rngState with | some (some g) => [g] | _ => []
    pickle := fun _ => ()
    dir := "out/"
    periodic := fun i => if i = 1 then "out/ps_1.state" else if i = 2 then "out/ps_2.state" else "out/ps_other.state"
    final := "out/ps_final.state" }

example : (runFrom exEnv (some 1) 10 exW0 [("out/ps_1.state.temp", [7, 7])]).map
      (fun r => (r.2.2.map (·.1), r.2.1, Model.Checkpoint.lookup "iter" r.1.core.sm.current, r.1.core.logzErr)) =
    some (["out/ps_1.state", "out/ps_2.state", "out/ps_final.state"],
          [("out/ps_1.state", [16]), ("out/ps_2.state", [21]), ("out/ps_final.state", [26])],
          some (Model.Checkpoint.Val.int 3), some Model.Checkpoint.Val.none) := by decide

end RunFiles

end Props.C08
