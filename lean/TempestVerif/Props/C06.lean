import TempestVerif.Model.Resample
import TempestVerif.Lemmas.ScReal
import Mathlib.Tactic
import Mathlib.MeasureTheory.Integral.Bochner.Set
import Mathlib.MeasureTheory.Measure.Lebesgue.Basic
/-
  C06 — resampling returns exactly n valid indices and is unbiased.
  Theorems are about `Model.Resample` (the code as it is now: half-open cells `[C_{j-1}, C_j)`, index capped at the
  last one).  Structure (length / range / monotone) is proved for EVERY scalar type, hence also for the `Float`
  instance the correspondence executes; everything else at `ℝ`.

    systematic  : C06_syst_length, C06_syst_range, C06_syst_monotone            (no assumption on weights or sum)
                  C06_syst_spec  (index = least j with position < C_j, capped)    (any weights, any sum)
                  C06_syst_count_closed_form, C06_syst_floor_ceil                 (w ≥ 0, Σw = 1, every u0 ∈ [0,1))
                  C06_syst_floor_ceil_renormalised                                (|Σw − 1| > 2^-26: law for w/Σw)
                  C06_syst_count_below_last, C06_syst_floor_ceil_deficit          (tolerance band: indices below the last)
                  C06_syst_floor_ceil_needs_exact_sum                             (the band cannot be covered in full: witness)
                  C06_syst_indicator, C06_syst_unbiased_algebraic, C06_syst_unbiased_integral
    multinomial : C06_mult_length, C06_mult_range, C06_mult_cell, C06_mult_cell_length, C06_mult_unbiased_integral
-/
namespace Props.C06
open Model.Resample MeasureTheory

/-! ### structure of the two-pointer loop: valid for EVERY scalar type (also `Float`) -/
section generic
variable {α : Type} [Sc α]

theorem advance_bounds (w : List α) (jmax : Nat) (pos : α) (fuel j : Nat) (c : α) :
    j ≤ (advance w jmax pos fuel j c).1 ∧ (j ≤ jmax → (advance w jmax pos fuel j c).1 ≤ jmax) := by
  induction fuel generalizing j c with
  | zero => simp [advance]
  | succ fuel ih =>
    unfold advance
    split
    · rename_i h
      simp only [Bool.and_eq_true, decide_eq_true_eq] at h
      split
      · rename_i x hx
        have := ih (j + 1) (Sc.add c x)
        exact ⟨by omega, fun _ => this.2 (by omega)⟩
      · exact ⟨le_refl _, id⟩
    · exact ⟨le_refl _, id⟩

theorem run_length (w : List α) (jmax : Nat) (pos : Nat → α) (is : List Nat) (j : Nat) (c : α) :
    (run w jmax pos is j c).length = is.length := by
  induction is generalizing j c with
  | nil => simp [run]
  | cons i is ih => simp [run, ih]

theorem run_bounds (w : List α) (jmax : Nat) (pos : Nat → α) (is : List Nat) (j : Nat) (c : α)
    (hj : j ≤ jmax) : ∀ r ∈ run w jmax pos is j c, j ≤ r ∧ r ≤ jmax := by
  induction is generalizing j c with
  | nil => simp [run]
  | cons i is ih =>
    intro r hr
    simp only [run, List.mem_cons] at hr
    have hb := advance_bounds w jmax (pos i) w.length j c
    rcases hr with rfl | hr
    · exact ⟨hb.1, hb.2 hj⟩
    · have := ih _ _ (hb.2 hj) r hr
      exact ⟨by omega, this.2⟩

theorem run_sorted (w : List α) (jmax : Nat) (pos : Nat → α) (is : List Nat) (j : Nat) (c : α)
    (hj : j ≤ jmax) : (run w jmax pos is j c).Pairwise (· ≤ ·) := by
  induction is generalizing j c with
  | nil => simp [run]
  | cons i is ih =>
    simp only [run, List.pairwise_cons]
    have hb := advance_bounds w jmax (pos i) w.length j c
    exact ⟨fun r hr => (run_bounds w jmax pos is _ _ (hb.2 hj) r hr).1, ih _ _ (hb.2 hj)⟩

theorem renorm_length (s : α) (w : List α) : (renorm s w).length = w.length := by
  unfold renorm; split <;> simp

/-- on a non-empty vector the routine does not fail, and its result is the loop started at `(0, w[0])` -/
theorem systematicWith_some (s : α) (n : Nat) (w : List α) (u0 : α) (hw : w ≠ []) :
    ∃ c0 t, renorm s w = c0 :: t ∧
      systematicWith s n w u0 = some (run (c0 :: t) t.length (position n u0) (List.range n) 0 c0) := by
  have hl := renorm_length s w
  unfold systematicWith
  cases hv : renorm s w with
  | nil => rw [hv] at hl; simp at hl; exact absurd hl.symm (by simpa using hw)
  | cons c0 t => exact ⟨c0, t, rfl, by simp⟩

/-- `IndexError` exactly on the empty vector -/
theorem systematicWith_none_iff (s : α) (n : Nat) (w : List α) (u0 : α) :
    systematicWith s n w u0 = none ↔ w = [] := by
  constructor
  · intro h
    by_contra hw
    obtain ⟨c0, t, _, h2⟩ := systematicWith_some s n w u0 hw
    rw [h2] at h; cases h
  · rintro rfl
    unfold systematicWith renorm; split <;> simp

/-- exactly `n` indices — any scalar type, any weights, any sum, any offset -/
theorem C06_syst_length (s : α) (n : Nat) (w : List α) (u0 : α) (idx : List Nat)
    (h : systematicWith s n w u0 = some idx) : idx.length = n := by
  have hw : w ≠ [] := fun e => by
    rw [(systematicWith_none_iff s n w u0).mpr e] at h; cases h
  obtain ⟨c0, t, _, h2⟩ := systematicWith_some s n w u0 hw
  rw [h2] at h; injection h with h; subst h
  simp [run_length]

/-- every index is a valid index into the weight vector -/
theorem C06_syst_range (s : α) (n : Nat) (w : List α) (u0 : α) (idx : List Nat)
    (h : systematicWith s n w u0 = some idx) : ∀ r ∈ idx, r < w.length := by
  have hw : w ≠ [] := fun e => by
    rw [(systematicWith_none_iff s n w u0).mpr e] at h; cases h
  obtain ⟨c0, t, h1, h2⟩ := systematicWith_some s n w u0 hw
  rw [h2] at h; injection h with h; subst h
  intro r hr
  have := (run_bounds (c0 :: t) t.length (position n u0) (List.range n) 0 c0 (Nat.zero_le _) r hr).2
  have hl := renorm_length s w
  rw [h1] at hl; simp at hl; omega

/-- the indices are non-decreasing -/
theorem C06_syst_monotone (s : α) (n : Nat) (w : List α) (u0 : α) (idx : List Nat)
    (h : systematicWith s n w u0 = some idx) : idx.Pairwise (· ≤ ·) := by
  have hw : w ≠ [] := fun e => by
    rw [(systematicWith_none_iff s n w u0).mpr e] at h; cases h
  obtain ⟨c0, t, _, h2⟩ := systematicWith_some s n w u0 hw
  rw [h2] at h; injection h with h; subst h
  exact run_sorted _ _ _ _ _ _ (Nat.zero_le _)

end generic

/-! ### exact arithmetic: the loop finds the first cumulative sum above the position -/

/-- sum of the first `k` weights (`P v (j+1)` is the cumulative sum `C_j`, `P v j` is `C_{j-1}`, `P v 0 = 0`) -/
noncomputable def P (v : List ℝ) (k : ℕ) : ℝ := (v.take k).sum

theorem P_zero (v : List ℝ) : P v 0 = 0 := by simp [P]

theorem P_succ (v : List ℝ) (k : ℕ) (hk : k < v.length) : P v (k + 1) = P v k + v[k] := by
  simp [P, List.sum_take_succ _ _ hk]

theorem P_length (v : List ℝ) : P v v.length = v.sum := by simp [P]

theorem P_mono (v : List ℝ) (hv : ∀ x ∈ v, 0 ≤ x) {a b : ℕ} (hab : a ≤ b) : P v a ≤ P v b := by
  induction b with
  | zero => have : a = 0 := by omega
            subst this; exact le_refl _
  | succ b ih =>
    rcases Nat.lt_or_ge a (b + 1) with h | h
    · have h1 := ih (by omega)
      by_cases hb : b < v.length
      · rw [P_succ v b hb]; have := hv _ (List.getElem_mem hb); linarith
      · have e : P v (b + 1) = P v b := by
          simp only [P]; rw [List.take_of_length_le (by omega), List.take_of_length_le (by omega)]
        rw [e]; exact h1
    · have : a = b + 1 := by omega
      subst this; exact le_refl _

theorem advance_spec (v : List ℝ) (p : ℝ) (fuel j : ℕ) (c : ℝ) (hj : j < v.length)
    (hc : c = P v (j + 1)) (hf : v.length - 1 - j ≤ fuel) :
    (advance v (v.length - 1) p fuel j c).2 = P v ((advance v (v.length - 1) p fuel j c).1 + 1) ∧
    ((advance v (v.length - 1) p fuel j c).1 < v.length - 1 →
        p < P v ((advance v (v.length - 1) p fuel j c).1 + 1)) ∧
    (∀ k, j ≤ k → k < (advance v (v.length - 1) p fuel j c).1 → P v (k + 1) ≤ p) := by
  induction fuel generalizing j c with
  | zero =>
    simp only [advance]
    exact ⟨hc, fun h => by omega, fun k h1 h2 => by omega⟩
  | succ fuel ih =>
    unfold advance
    by_cases hcond : j < v.length - 1 ∧ c ≤ p
    · have hj1 : j + 1 < v.length := by omega
      have hget : v[j + 1]? = some v[j + 1] := List.getElem?_eq_getElem hj1
      simp only [hcond.1, decide_true, Bool.true_and, ScReal.ge_def, hcond.2, if_true, hget]
      have := ih (j + 1) (Sc.add c v[j + 1]) hj1 (by simp [hc, P_succ v (j + 1) hj1]) (by omega)
      refine ⟨this.1, this.2.1, ?_⟩
      intro k h1 h2
      rcases Nat.eq_or_lt_of_le h1 with rfl | h3
      · rw [← hc]; exact hcond.2
      · exact this.2.2 k (by omega) h2
    · have hif : (decide (j < v.length - 1) && Sc.ge p c) = false := by
        by_cases h1 : j < v.length - 1
        · have : ¬ c ≤ p := fun h => hcond ⟨h1, h⟩
          simp [h1, Sc.ge]; exact not_le.mp this
        · simp [h1]
      simp only [hif]
      refine ⟨hc, ?_, fun k h1 h2 => by simp at h2; omega⟩
      intro h1
      simp only [Bool.false_eq_true, if_false] at h1 ⊢
      rw [← hc]
      by_contra h2
      exact hcond ⟨h1, not_lt.mp h2⟩

/-- `r` is the least index whose cumulative sum exceeds `p`, capped at the last index -/
def Cover (v : List ℝ) (p : ℝ) (r : ℕ) : Prop :=
  r ≤ v.length - 1 ∧ (r < v.length - 1 → p < P v (r + 1)) ∧ (∀ k < r, P v (k + 1) ≤ p)

theorem Cover_unique (v : List ℝ) (p : ℝ) (r r' : ℕ) (h : Cover v p r) (h' : Cover v p r') : r = r' := by
  rcases lt_trichotomy r r' with hlt | heq | hgt
  · have := h.2.1 (by have := h'.1; omega); have := h'.2.2 r hlt; linarith
  · exact heq
  · have := h'.2.1 (by have := h.1; omega); have := h.2.2 r' hgt; linarith

theorem run_spec (v : List ℝ) (pos : ℕ → ℝ) (is : List ℕ) (j : ℕ) (c : ℝ) (hj : j < v.length)
    (hc : c = P v (j + 1)) (hpos : is.Pairwise (fun a b => pos a ≤ pos b))
    (hinv : ∀ i ∈ is, ∀ k < j, P v (k + 1) ≤ pos i) :
    List.Forall₂ (fun i r => Cover v (pos i) r) is (run v (v.length - 1) pos is j c) := by
  induction is generalizing j c with
  | nil => simp [run]
  | cons i is ih =>
    simp only [run]
    have hb := advance_bounds v (v.length - 1) (pos i) v.length j c
    have hs := advance_spec v (pos i) v.length j c hj hc (by omega)
    rw [List.pairwise_cons] at hpos
    refine List.Forall₂.cons ⟨hb.2 (by omega), hs.2.1, ?_⟩ ?_
    · intro k hk
      by_cases hkj : k < j
      · exact hinv i (by simp) k hkj
      · exact hs.2.2 k (by omega) hk
    · refine ih _ _ (by have := hb.2 (by omega); omega) hs.1 hpos.2 ?_
      intro i' hi' k hk
      have h1 : P v (k + 1) ≤ pos i := by
        by_cases hkj : k < j
        · exact hinv i (by simp) k hkj
        · exact hs.2.2 k (by omega) hk
      exact le_trans h1 (hpos.1 i' hi')

theorem position_real (n : ℕ) (u0 : ℝ) (i : ℕ) : position n u0 i = (u0 + i) / n := by
  simp [position]

theorem position_mono (n : ℕ) (u0 : ℝ) {a b : ℕ} (h : a ≤ b) : position n u0 a ≤ position n u0 b := by
  rw [position_real, position_real]
  have : (a : ℝ) ≤ b := by exact_mod_cast h
  exact div_le_div_of_nonneg_right (by linarith) (Nat.cast_nonneg n)

/-- **specification of the two-pointer loop**: for every position `(u0+i)/n` the returned index is the least
    `j` with `position < C_j` (capped at the last index) — for any weights (of either sign), any sum,
    any offset. `renorm s w` is the weight vector the loop works on (`w` itself, or `w/s`). -/
theorem C06_syst_spec (s : ℝ) (n : ℕ) (w : List ℝ) (u0 : ℝ) (idx : List ℕ)
    (h : systematicWith s n w u0 = some idx) :
    List.Forall₂ (fun (i : ℕ) r => Cover (renorm s w) ((u0 + i) / n) r) (List.range n) idx := by
  have hw : w ≠ [] := fun e => by
    rw [(systematicWith_none_iff s n w u0).mpr e] at h; cases h
  obtain ⟨c0, t, h1, h2⟩ := systematicWith_some s n w u0 hw
  rw [h2] at h; injection h with h; subst h
  rw [h1]
  have := run_spec (c0 :: t) (position n u0) (List.range n) 0 c0 (by simp)
    (by rw [P_succ _ 0 (by simp), P_zero]; simp)
    (List.Pairwise.imp (fun {a b} hab => position_mono n u0 (le_of_lt hab)) List.pairwise_lt_range)
    (by intro i _ k hk; omega)
  simpa [position_real] using this

/-! ### counting: how many positions fall into cell `j` -/

theorem countP_range_Ico (A B : ℤ) (hA : 0 ≤ A) (hAB : A ≤ B) (n : ℕ) :
    (((List.range n).countP (fun (i : ℕ) => decide (A ≤ (i : ℤ) ∧ (i : ℤ) < B)) : ℕ) : ℤ)
      = min B n - min A n := by
  induction n with
  | zero => simp; omega
  | succ n ih =>
    rw [List.range_succ, List.countP_append]
    push_cast
    rw [ih]
    by_cases h : A ≤ (n : ℤ) ∧ (n : ℤ) < B
    · simp [h]; omega
    · simp [h]; omega

theorem count_of_forall2 (q : ℕ → Prop) [DecidablePred q] (j : ℕ) (is rs : List ℕ)
    (h : List.Forall₂ (fun i r => (r = j ↔ q i)) is rs) :
    rs.count j = is.countP (fun i => decide (q i)) := by
  induction h with
  | nil => simp
  | @cons a b l1 l2 hab _ ih =>
    rw [List.count_cons, List.countP_cons, ih]
    by_cases hq : q a
    · have : b = j := hab.mpr hq
      simp [hq, this]
    · have : ¬ b = j := fun e => hq (hab.mp e)
      simp [hq, this]

theorem forall2_mem {β γ : Type} {R : β → γ → Prop} {l1 : List β} {l2 : List γ}
    (h : List.Forall₂ R l1 l2) : List.Forall₂ (fun a b => a ∈ l1 ∧ R a b) l1 l2 := by
  induction h with
  | nil => exact .nil
  | cons hab _ ih =>
    exact .cons ⟨List.mem_cons_self, hab⟩
      (ih.imp (fun _ _ h => ⟨List.mem_cons_of_mem _ h.1, h.2⟩))

/-- `⌈a + y⌉ − ⌈a⌉` is `⌊y⌋` or `⌈y⌉` -/
theorem ceil_diff (a y : ℝ) : ⌈a + y⌉ - ⌈a⌉ = ⌊y⌋ ∨ ⌈a + y⌉ - ⌈a⌉ = ⌈y⌉ := by
  have h1 := Int.ceil_lt_add_one a
  have h2 := Int.le_ceil a
  have h3 := Int.ceil_lt_add_one (a + y)
  have h4 := Int.le_ceil (a + y)
  have h5 := Int.floor_le y
  have h8 := Int.le_ceil y
  have h9 := Int.ceil_le_floor_add_one y
  have hA : (⌊y⌋ : ℝ) < (⌈a + y⌉ - ⌈a⌉ : ℤ) + 1 := by push_cast; linarith
  have hB : ((⌈a + y⌉ - ⌈a⌉ : ℤ) : ℝ) < ⌈y⌉ + 1 := by push_cast; linarith
  have hA' : ⌊y⌋ < (⌈a + y⌉ - ⌈a⌉) + 1 := by exact_mod_cast hA
  have hB' : (⌈a + y⌉ - ⌈a⌉) < ⌈y⌉ + 1 := by exact_mod_cast hB
  omega

theorem P_le_sum (v : List ℝ) (hv : ∀ x ∈ v, 0 ≤ x) (k : ℕ) : P v k ≤ v.sum := by
  rw [← P_length v]
  rcases Nat.le_total k v.length with h | h
  · exact P_mono v hv h
  · simp only [P]; rw [List.take_of_length_le h, List.take_of_length_le (le_refl _)]

theorem P_nonneg (v : List ℝ) (hv : ∀ x ∈ v, 0 ≤ x) (k : ℕ) : 0 ≤ P v k := by
  rw [← P_zero v]; exact P_mono v hv (Nat.zero_le k)

/-- position `p` is given index `j` exactly when it lies in the half-open cell `[C_{j−1}, C_j)` -/
theorem cell_iff (v : List ℝ) (hne : v ≠ []) (hv : ∀ x ∈ v, 0 ≤ x) (p : ℝ) (hp : 0 ≤ p) (r j : ℕ)
    (hc : Cover v p r) (hlast : j + 1 < v.length ∨ p < v.sum) :
    r = j ↔ (P v j ≤ p ∧ p < P v (j + 1)) := by
  have hlen : 0 < v.length := List.length_pos_iff.mpr hne
  constructor
  · rintro rfl
    constructor
    · rcases Nat.eq_zero_or_pos r with h0 | hpos
      · rw [h0, P_zero]; exact hp
      · have := hc.2.2 (r - 1) (by omega)
        rwa [Nat.sub_add_cancel hpos] at this
    · by_cases hr : r < v.length - 1
      · exact hc.2.1 hr
      · have hr' : r + 1 = v.length := by have := hc.1; omega
        rw [hr', P_length]
        rcases hlast with h | h
        · omega
        · exact h
  · rintro ⟨h1, h2⟩
    rcases lt_trichotomy r j with hlt | heq | hgt
    · exfalso
      have hmono : P v (r + 1) ≤ P v j := P_mono v hv hlt
      by_cases hr : r < v.length - 1
      · have := hc.2.1 hr; linarith
      · rcases hlast with h | h
        · omega
        · have hr' : r + 1 = v.length := by have := hc.1; omega
          rw [hr', P_length] at hmono; linarith
    · exact heq
    · exfalso; have := hc.2.2 j hgt; linarith

/-- core counting lemma: the number of positions `(u0+i)/n`, `i < n`, that receive index `j` -/
theorem count_core (v : List ℝ) (hne : v ≠ []) (hv : ∀ x ∈ v, 0 ≤ x) (n : ℕ) (hn : 1 ≤ n) (u0 : ℝ)
    (h0 : 0 ≤ u0) (h1 : u0 < 1) (idx : List ℕ)
    (hF : List.Forall₂ (fun (i : ℕ) r => Cover v ((u0 + i) / n) r) (List.range n) idx) (j : ℕ)
    (hlast : j + 1 < v.length ∨ 1 ≤ v.sum) :
    (idx.count j : ℤ) = min ⌈n * P v (j + 1) - u0⌉ (n : ℤ) - min ⌈n * P v j - u0⌉ (n : ℤ) := by
  classical
  have hnpos : (0 : ℝ) < n := by exact_mod_cast hn
  have hF' := (forall2_mem hF).imp (S := fun (i : ℕ) r =>
      (r = j ↔ (P v j ≤ (u0 + i) / n ∧ (u0 + i) / n < P v (j + 1)))) (by
    intro i r ⟨hi, hc⟩
    have hi' : i < n := List.mem_range.mp hi
    have hin : (i : ℝ) + 1 ≤ n := by exact_mod_cast hi'
    have hp0 : 0 ≤ (u0 + i) / n := div_nonneg (by positivity) hnpos.le
    have hp1 : (u0 + i) / n < 1 := by rw [div_lt_one hnpos]; linarith
    refine cell_iff v hne hv _ hp0 r j hc ?_
    rcases hlast with h | h
    · exact Or.inl h
    · exact Or.inr (lt_of_lt_of_le hp1 h))
  rw [count_of_forall2 _ j _ _ hF']
  have hmono : P v j ≤ P v (j + 1) := P_mono v hv (Nat.le_succ j)
  have hPj := P_nonneg v hv j
  have hA : 0 ≤ ⌈n * P v j - u0⌉ := by
    have : ((-1 : ℤ) : ℝ) < n * P v j - u0 := by
      push_cast; have := mul_nonneg hnpos.le hPj; linarith
    have := Int.lt_ceil.mpr this; omega
  have hAB : ⌈n * P v j - u0⌉ ≤ ⌈n * P v (j + 1) - u0⌉ :=
    Int.ceil_le_ceil (by have := mul_le_mul_of_nonneg_left hmono hnpos.le; linarith)
  rw [← countP_range_Ico _ _ hA hAB n]
  congr 1
  apply List.countP_congr
  intro i _
  simp only [decide_eq_true_eq]
  rw [Int.ceil_le, Int.lt_ceil, le_div_iff₀ hnpos, div_lt_iff₀ hnpos]
  push_cast
  constructor
  · rintro ⟨a, b⟩; constructor <;> nlinarith
  · rintro ⟨a, b⟩; constructor <;> nlinarith

/-! ### the renormalisation switch at exact arithmetic -/

theorem sum_real (w : List ℝ) : Sc.sum w = w.sum := by
  have : ∀ (l : List ℝ) (a : ℝ), l.foldl Sc.add a = a + l.sum := by
    intro l
    induction l with
    | nil => simp
    | cons x l ih => intro a; simp [List.foldl_cons, ih, add_assoc]
  simp [Sc.sum, this]

theorem sqrtEps_real : (sqrtEps : ℝ) = 1 / 2 ^ 26 := by
  simp [sqrtEps]; norm_num

/-- within the tolerance the weights are used as they are … -/
theorem renorm_id (s : ℝ) (w : List ℝ) (hs : |s - 1| ≤ 1 / 2 ^ 26) : renorm s w = w := by
  unfold renorm
  have : ¬ (sqrtEps : ℝ) < |s - 1| := by rw [sqrtEps_real]; exact not_lt.mpr hs
  simp [ScReal.abs_def, this]

/-- … outside it they are divided by their sum -/
theorem renorm_div (s : ℝ) (w : List ℝ) (hs : 1 / 2 ^ 26 < |s - 1|) :
    renorm s w = w.map (fun x => x / s) := by
  unfold renorm
  have : (sqrtEps : ℝ) < |s - 1| := by rw [sqrtEps_real]; exact hs
  simp [ScReal.abs_def, this]

theorem sum_map_div (w : List ℝ) (s : ℝ) : (w.map (fun x => x / s)).sum = w.sum / s := by
  induction w with
  | nil => simp
  | cons x w ih => simp [ih, add_div]

/-! ### count law for a weight vector that sums to exactly 1 -/

theorem some_ne_nil {α : Type} [Sc α] {s : α} {n : ℕ} {w : List α} {u0 : α} {idx : List ℕ}
    (h : systematicWith s n w u0 = some idx) : w ≠ [] := fun e => by
  rw [(systematicWith_none_iff s n w u0).mpr e] at h; cases h

/-- closed form in terms of the effective weights `v = renorm s w` (non-negative, sum exactly 1) -/
theorem closed_form_eff (s : ℝ) (n : ℕ) (w : List ℝ) (u0 : ℝ) (idx : List ℕ) (hn : 1 ≤ n)
    (hv0 : ∀ x ∈ renorm s w, 0 ≤ x) (hv1 : (renorm s w).sum = 1) (h0 : 0 ≤ u0) (h1 : u0 < 1)
    (h : systematicWith s n w u0 = some idx) (j : ℕ) :
    (idx.count j : ℤ) = ⌈n * P (renorm s w) (j + 1) - u0⌉ - ⌈n * P (renorm s w) j - u0⌉ := by
  have hne : renorm s w ≠ [] := by
    intro e
    have := renorm_length s w
    rw [e] at this
    exact some_ne_nil h (List.length_eq_zero_iff.mp this.symm)
  have hnpos : (0 : ℝ) < n := by exact_mod_cast hn
  rw [count_core _ hne hv0 n hn u0 h0 h1 idx (C06_syst_spec s n w u0 idx h) j (Or.inr hv1.ge)]
  have hle : ∀ k, ⌈n * P (renorm s w) k - u0⌉ ≤ (n : ℤ) := by
    intro k
    rw [Int.ceil_le]
    have := P_le_sum _ hv0 k
    rw [hv1] at this
    have := mul_le_mul_of_nonneg_left this hnpos.le
    push_cast; linarith
  rw [min_eq_left (hle _), min_eq_left (hle _)]

theorem floor_ceil_eff (s : ℝ) (n : ℕ) (w : List ℝ) (u0 : ℝ) (idx : List ℕ) (hn : 1 ≤ n)
    (hv0 : ∀ x ∈ renorm s w, 0 ≤ x) (hv1 : (renorm s w).sum = 1) (h0 : 0 ≤ u0) (h1 : u0 < 1)
    (h : systematicWith s n w u0 = some idx) (j : ℕ) (hj : j < (renorm s w).length) :
    (idx.count j : ℤ) = ⌊n * (renorm s w)[j]⌋ ∨ (idx.count j : ℤ) = ⌈n * (renorm s w)[j]⌉ := by
  rw [closed_form_eff s n w u0 idx hn hv0 hv1 h0 h1 h j]
  have e : n * P (renorm s w) (j + 1) - u0 = (n * P (renorm s w) j - u0) + n * (renorm s w)[j] := by
    rw [P_succ _ j hj]; ring
  rw [e]
  exact ceil_diff _ _

/-- **closed form of the number of copies**, `Σw = 1` exactly, every offset in `[0,1)`:
    `count_j = ⌈n·C_j − u0⌉ − ⌈n·C_{j−1} − u0⌉`  (`P w (j+1) = C_j`, `P w j = C_{j−1}`, `P w 0 = 0`). -/
theorem C06_syst_count_closed_form (n : ℕ) (w : List ℝ) (u0 : ℝ) (idx : List ℕ) (hn : 1 ≤ n)
    (hw0 : ∀ x ∈ w, 0 ≤ x) (hw1 : w.sum = 1) (h0 : 0 ≤ u0) (h1 : u0 < 1)
    (h : systematic n w u0 = some idx) (j : ℕ) :
    (idx.count j : ℤ) = ⌈n * P w (j + 1) - u0⌉ - ⌈n * P w j - u0⌉ := by
  unfold systematic at h
  rw [sum_real, hw1] at h
  have hre : renorm (1 : ℝ) w = w := renorm_id 1 w (by norm_num)
  have := closed_form_eff 1 n w u0 idx hn (by rw [hre]; exact hw0) (by rw [hre]; exact hw1) h0 h1 h j
  rwa [hre] at this

/-- **floor/ceil law**: with `Σw = 1` index `j` is copied `⌊n·w_j⌋` or `⌈n·w_j⌉` times, for every offset -/
theorem C06_syst_floor_ceil (n : ℕ) (w : List ℝ) (u0 : ℝ) (idx : List ℕ) (hn : 1 ≤ n)
    (hw0 : ∀ x ∈ w, 0 ≤ x) (hw1 : w.sum = 1) (h0 : 0 ≤ u0) (h1 : u0 < 1)
    (h : systematic n w u0 = some idx) (j : ℕ) (hj : j < w.length) :
    (idx.count j : ℤ) = ⌊n * w[j]⌋ ∨ (idx.count j : ℤ) = ⌈n * w[j]⌉ := by
  rw [C06_syst_count_closed_form n w u0 idx hn hw0 hw1 h0 h1 h j]
  have e : n * P w (j + 1) - u0 = (n * P w j - u0) + n * w[j] := by
    rw [P_succ _ j hj]; ring
  rw [e]
  exact ceil_diff _ _

/-- the same law when the sum is far from 1 and the routine renormalises: copies of `j` are
    `⌊n·w_j/Σw⌋` or `⌈n·w_j/Σw⌉` -/
theorem C06_syst_floor_ceil_renormalised (n : ℕ) (w : List ℝ) (u0 : ℝ) (idx : List ℕ) (hn : 1 ≤ n)
    (hw0 : ∀ x ∈ w, 0 ≤ x) (hpos : 0 < w.sum) (hfar : 1 / 2 ^ 26 < |w.sum - 1|)
    (h0 : 0 ≤ u0) (h1 : u0 < 1)
    (h : systematic n w u0 = some idx) (j : ℕ) (hj : j < w.length) :
    (idx.count j : ℤ) = ⌊n * (w[j] / w.sum)⌋ ∨ (idx.count j : ℤ) = ⌈n * (w[j] / w.sum)⌉ := by
  unfold systematic at h
  rw [sum_real] at h
  have hre := renorm_div w.sum w hfar
  have hv0 : ∀ x ∈ renorm w.sum w, 0 ≤ x := by
    rw [hre]; intro x hx
    obtain ⟨y, hy, rfl⟩ := List.mem_map.mp hx
    exact div_nonneg (hw0 y hy) hpos.le
  have hv1 : (renorm w.sum w).sum = 1 := by
    rw [hre, sum_map_div, div_self hpos.ne']
  have hj' : j < (renorm w.sum w).length := by rw [renorm_length]; exact hj
  have := floor_ceil_eff w.sum n w u0 idx hn hv0 hv1 h0 h1 h j hj'
  have e : (renorm w.sum w)[j] = w[j] / w.sum := by
    rw [List.getElem_of_eq hre hj']; simp
  rwa [e] at this

/-- any sum (inside the tolerance band the weights are used un-normalised): every index **below the last**
    still obeys the closed form, with the cumulative sums clamped at 1 (positions never reach 1);
    the last index receives the remaining copies (`C06_syst_length`). -/
theorem C06_syst_count_below_last (s : ℝ) (n : ℕ) (w : List ℝ) (u0 : ℝ) (idx : List ℕ) (hn : 1 ≤ n)
    (hv0 : ∀ x ∈ renorm s w, 0 ≤ x) (h0 : 0 ≤ u0) (h1 : u0 < 1)
    (h : systematicWith s n w u0 = some idx) (j : ℕ) (hj : j + 1 < w.length) :
    (idx.count j : ℤ) =
      min ⌈n * P (renorm s w) (j + 1) - u0⌉ (n : ℤ) - min ⌈n * P (renorm s w) j - u0⌉ (n : ℤ) := by
  have hne : renorm s w ≠ [] := by
    intro e
    have := renorm_length s w
    rw [e] at this
    exact some_ne_nil h (List.length_eq_zero_iff.mp this.symm)
  exact count_core _ hne hv0 n hn u0 h0 h1 idx (C06_syst_spec s n w u0 idx h) j
    (Or.inl (by rw [renorm_length]; exact hj))

/-- … in particular, when the (un-normalised) sum falls short of 1, floor/ceil holds below the last index -/
theorem C06_syst_floor_ceil_deficit (s : ℝ) (n : ℕ) (w : List ℝ) (u0 : ℝ) (idx : List ℕ) (hn : 1 ≤ n)
    (hv0 : ∀ x ∈ renorm s w, 0 ≤ x) (hv1 : (renorm s w).sum ≤ 1) (h0 : 0 ≤ u0) (h1 : u0 < 1)
    (h : systematicWith s n w u0 = some idx) (j : ℕ) (hj : j + 1 < w.length) :
    (idx.count j : ℤ) = ⌊n * (renorm s w)[j]'(by rw [renorm_length]; omega)⌋ ∨
    (idx.count j : ℤ) = ⌈n * (renorm s w)[j]'(by rw [renorm_length]; omega)⌉ := by
  have hnpos : (0 : ℝ) < n := by exact_mod_cast hn
  rw [C06_syst_count_below_last s n w u0 idx hn hv0 h0 h1 h j hj]
  have hle : ∀ k, ⌈n * P (renorm s w) k - u0⌉ ≤ (n : ℤ) := by
    intro k
    rw [Int.ceil_le]
    have := le_trans (P_le_sum _ hv0 k) hv1
    have := mul_le_mul_of_nonneg_left this hnpos.le
    push_cast; linarith
  rw [min_eq_left (hle _), min_eq_left (hle _)]
  have hj' : j < (renorm s w).length := by rw [renorm_length]; omega
  have e : n * P (renorm s w) (j + 1) - u0 = (n * P (renorm s w) j - u0) + n * (renorm s w)[j] := by
    rw [P_succ _ j hj']; ring
  rw [e]
  exact ceil_diff _ _

/-! ### unbiasedness: the count as a function of the offset -/

/-- shifting by an offset `u ∈ [0,1)` lowers the ceiling by one exactly on the interval `[1 − δ, 1)`, `δ = ⌈x⌉ − x` -/
theorem ceil_sub_offset (x u : ℝ) (h0 : 0 ≤ u) (h1 : u < 1) :
    ⌈x - u⌉ = ⌈x⌉ - (if 1 - ((⌈x⌉ : ℝ) - x) ≤ u then 1 else 0) := by
  have hc1 := Int.ceil_lt_add_one x
  have hc2 := Int.le_ceil x
  split
  · rename_i h
    rw [Int.ceil_eq_iff]; push_cast; constructor <;> linarith
  · rename_i h
    rw [Int.ceil_eq_iff]; push_cast; rw [not_le] at h; constructor <;> linarith

/-- **indicator decomposition** (`Σw = 1`): with `a = n·C_{j−1}`, `b = n·C_j`, `δ_x = ⌈x⌉ − x`,
    `count_j(u0) = ⌈b⌉ − ⌈a⌉ − [u0 ≥ 1 − δ_b] + [u0 ≥ 1 − δ_a]`; both indicator sets are intervals `[1 − δ, 1)`
    of length `δ`. -/
theorem C06_syst_indicator (n : ℕ) (w : List ℝ) (u0 : ℝ) (idx : List ℕ) (hn : 1 ≤ n)
    (hw0 : ∀ x ∈ w, 0 ≤ x) (hw1 : w.sum = 1) (h0 : 0 ≤ u0) (h1 : u0 < 1)
    (h : systematic n w u0 = some idx) (j : ℕ) :
    (idx.count j : ℤ) = (⌈n * P w (j + 1)⌉ - ⌈n * P w j⌉)
      - (if 1 - ((⌈n * P w (j + 1)⌉ : ℝ) - n * P w (j + 1)) ≤ u0 then 1 else 0)
      + (if 1 - ((⌈n * P w j⌉ : ℝ) - n * P w j) ≤ u0 then 1 else 0) := by
  rw [C06_syst_count_closed_form n w u0 idx hn hw0 hw1 h0 h1 h j,
    ceil_sub_offset _ u0 h0 h1, ceil_sub_offset _ u0 h0 h1]
  ring

/-- **unbiasedness, algebraic form**: the constant term minus the length `δ_b` of the first indicator interval
    plus the length `δ_a` of the second is exactly `n·w_j` — the mean of `count_j(u0)` over `u0 ~ U[0,1)`. -/
theorem C06_syst_unbiased_algebraic (n : ℕ) (w : List ℝ) (j : ℕ) (hj : j < w.length) :
    ((⌈n * P w (j + 1)⌉ - ⌈n * P w j⌉ : ℤ) : ℝ)
      - ((⌈n * P w (j + 1)⌉ : ℝ) - n * P w (j + 1)) + ((⌈n * P w j⌉ : ℝ) - n * P w j) = n * w[j] := by
  rw [P_succ w j hj]; push_cast; ring

/-- the two interval lengths are in `[0,1)`, so the intervals `[1 − δ, 1)` lie inside `[0,1)` -/
theorem delta_range (x : ℝ) : 0 ≤ (⌈x⌉ : ℝ) - x ∧ (⌈x⌉ : ℝ) - x < 1 := by
  have hc1 := Int.ceil_lt_add_one x
  have hc2 := Int.le_ceil x
  constructor <;> linarith

/-! ### unbiasedness as an integral over the offset `u0 ~ U[0,1)` -/

theorem integral_step (c : ℝ) (hc0 : 0 ≤ c) (hc1 : c ≤ 1) :
    ∫ u in Set.Ico (0:ℝ) 1, (if c ≤ u then (1:ℝ) else 0) = 1 - c := by
  have e : (fun u : ℝ => if c ≤ u then (1:ℝ) else 0) = (Set.Ici c).indicator (fun _ => (1:ℝ)) := by
    funext u; simp [Set.indicator, Set.mem_Ici]
  rw [e, setIntegral_indicator measurableSet_Ici]
  have : Set.Ico (0:ℝ) 1 ∩ Set.Ici c = Set.Ico c 1 := by
    ext x; simp only [Set.mem_inter_iff, Set.mem_Ico, Set.mem_Ici]; constructor
    · rintro ⟨⟨_, h2⟩, h3⟩; exact ⟨h3, h2⟩
    · rintro ⟨h1, h2⟩; exact ⟨⟨le_trans hc0 h1, h2⟩, h1⟩
  rw [this, setIntegral_const, Real.volume_real_Ico_of_le hc1]; simp

theorem integrable_step (c : ℝ) :
    IntegrableOn (fun u : ℝ => if c ≤ u then (1:ℝ) else 0) (Set.Ico (0:ℝ) 1) := by
  have e : (fun u : ℝ => if c ≤ u then (1:ℝ) else 0) = (Set.Ici c).indicator (fun _ => (1:ℝ)) := by
    funext u; simp [Set.indicator, Set.mem_Ici]
  rw [e]
  exact (integrableOn_const (by simp)).indicator measurableSet_Ici

/-- copies of index `j` as a function of the offset (`0` only in the `IndexError` case `w = []`) -/
noncomputable def copies (n : ℕ) (w : List ℝ) (j : ℕ) (u : ℝ) : ℝ :=
  match systematic n w u with
  | some idx => (idx.count j : ℝ)
  | none => 0

/-- **unbiasedness**: the mean number of copies of index `j` over a uniform offset is `n·w_j` (Lebesgue integral
    over `[0,1)`; `Σw = 1`) -/
theorem C06_syst_unbiased_integral (n : ℕ) (w : List ℝ) (hn : 1 ≤ n)
    (hw0 : ∀ x ∈ w, 0 ≤ x) (hw1 : w.sum = 1) (j : ℕ) (hj : j < w.length) :
    ∫ u in Set.Ico (0:ℝ) 1, copies n w j u = n * w[j] := by
  have hne : w ≠ [] := by rintro rfl; simp at hj
  set a := (n : ℝ) * P w j with ha
  set b := (n : ℝ) * P w (j + 1) with hb
  have hcongr : Set.EqOn (copies n w j)
      (fun u => ((⌈b⌉ - ⌈a⌉ : ℤ) : ℝ) - (if 1 - ((⌈b⌉ : ℝ) - b) ≤ u then (1:ℝ) else 0)
        + (if 1 - ((⌈a⌉ : ℝ) - a) ≤ u then (1:ℝ) else 0)) (Set.Ico (0:ℝ) 1) := by
    intro u hu
    obtain ⟨c0, t, _, hsome⟩ := systematicWith_some (Sc.sum w) n w u hne
    have hs : systematic n w u = some _ := hsome
    have := C06_syst_indicator n w u _ hn hw0 hw1 hu.1 hu.2 hs j
    simp only [copies, hs]
    have h2 : ((List.count j (run (c0 :: t) t.length (position n u) (List.range n) 0 c0) : ℕ) : ℝ)
        = (((List.count j (run (c0 :: t) t.length (position n u) (List.range n) 0 c0) : ℕ) : ℤ) : ℝ) := by
      push_cast; rfl
    rw [h2, this]
    push_cast
    split <;> split <;> simp [ha, hb]
  rw [setIntegral_congr_fun measurableSet_Ico hcongr]
  have hda := delta_range a
  have hdb := delta_range b
  have i1 : IntegrableOn (fun _ : ℝ => ((⌈b⌉ - ⌈a⌉ : ℤ) : ℝ)) (Set.Ico (0:ℝ) 1) := integrableOn_const (by simp)
  have i2 := integrable_step (1 - ((⌈b⌉ : ℝ) - b))
  have i3 := integrable_step (1 - ((⌈a⌉ : ℝ) - a))
  have e1 := integral_add (μ := volume.restrict (Set.Ico (0:ℝ) 1))
    (f := fun u => ((⌈b⌉ - ⌈a⌉ : ℤ) : ℝ) - (if 1 - ((⌈b⌉ : ℝ) - b) ≤ u then (1:ℝ) else 0))
    (g := fun u => if 1 - ((⌈a⌉ : ℝ) - a) ≤ u then (1:ℝ) else 0) (i1.sub i2) i3
  have e2 := integral_sub (μ := volume.restrict (Set.Ico (0:ℝ) 1))
    (f := fun _ => ((⌈b⌉ - ⌈a⌉ : ℤ) : ℝ))
    (g := fun u => if 1 - ((⌈b⌉ : ℝ) - b) ≤ u then (1:ℝ) else 0) i1 i2
  rw [e1, e2, integral_step _ (by linarith) (by linarith),
    integral_step _ (by linarith) (by linarith), setIntegral_const, Real.volume_real_Ico_of_le (by norm_num)]
  have := C06_syst_unbiased_algebraic n w j hj
  simp only [← ha, ← hb] at this
  rw [← this]; simp

/-! ### multinomial scheme: inverse-cdf lookup -/

theorem cumsumFrom_length {α : Type} [Sc α] (acc : α) (xs : List α) :
    (cumsumFrom acc xs).length = xs.length := by
  induction xs generalizing acc with
  | nil => simp [cumsumFrom]
  | cons x xs ih => simp [cumsumFrom, ih]

theorem cumsum_length {α : Type} [Sc α] (w : List α) : (cumsum w).length = w.length := by
  cases w with
  | nil => simp [cumsum]
  | cons x xs => simp [cumsum, cumsumFrom_length]

/-- exactly one index per uniform draw (any scalar type) -/
theorem C06_mult_length {α : Type} [Sc α] (w us : List α) (idx : List ℕ)
    (h : multinomial w us = some idx) : idx.length = us.length := by
  unfold multinomial at h
  cases hc : normCdf w with
  | none => rw [hc] at h; cases h
  | some cdf => rw [hc] at h; simp at h; subst h; simp

theorem cumsumFrom_getElem_some (acc : ℝ) (xs : List ℝ) (k : ℕ) (hk : k < xs.length) :
    (cumsumFrom acc xs)[k]? = some (acc + (xs.take (k + 1)).sum) := by
  induction xs generalizing acc k with
  | nil => simp at hk
  | cons x xs ih =>
    cases k with
    | zero => simp [cumsumFrom]
    | succ k =>
      simp only [cumsumFrom, List.getElem?_cons_succ]
      rw [ih _ k (by simpa using hk)]
      simp [add_assoc]

theorem cumsum_getElem_some (w : List ℝ) (k : ℕ) (hk : k < w.length) :
    (cumsum w)[k]? = some (P w (k + 1)) := by
  cases w with
  | nil => simp at hk
  | cons x xs =>
    cases k with
    | zero => simp [cumsum, P]
    | succ k =>
      simp only [cumsum, List.getElem?_cons_succ]
      rw [cumsumFrom_getElem_some _ _ k (by simpa using hk)]
      simp [P]

theorem cumsum_eq (w : List ℝ) : cumsum w = (List.range w.length).map (fun k => P w (k + 1)) := by
  apply List.ext_getElem?
  intro k
  by_cases hk : k < w.length
  · rw [cumsum_getElem_some w k hk]; simp [hk]
  · have h1 : (cumsum w).length ≤ k := by rw [cumsum_length]; omega
    rw [List.getElem?_eq_none h1, List.getElem?_eq_none (by simp; omega)]

/-- `cdf = cumsum p; cdf /= cdf[-1]` is the list of `C_k / Σw` -/
theorem normCdf_real (w : List ℝ) (hne : w ≠ []) :
    normCdf w = some ((List.range w.length).map (fun k => P w (k + 1) / w.sum)) := by
  have hlen : 0 < w.length := List.length_pos_iff.mpr hne
  have hlast : (cumsum w).getLast? = some w.sum := by
    rw [List.getLast?_eq_getElem?, cumsum_length, cumsum_getElem_some w (w.length - 1) (by omega),
      Nat.sub_add_cancel hlen, P_length]
  unfold normCdf
  simp only [hlast]
  rw [cumsum_eq]
  simp [List.map_map, Function.comp_def]

/-- counting the entries `≤ u` of a non-decreasing sequence -/
theorem countP_mono_range (f : ℕ → ℝ) (hf : Monotone f) (u : ℝ) (m : ℕ) :
    (List.range m).countP (fun k => decide (f k ≤ u)) ≤ m ∧
    (∀ k < (List.range m).countP (fun k => decide (f k ≤ u)), f k ≤ u) ∧
    ((List.range m).countP (fun k => decide (f k ≤ u)) < m →
      u < f ((List.range m).countP (fun k => decide (f k ≤ u)))) := by
  induction m with
  | zero => simp
  | succ m ih =>
    rw [List.range_succ, List.countP_append]
    obtain ⟨ih1, ih2, ih3⟩ := ih
    by_cases hm : f m ≤ u
    · have hc : (List.range m).countP (fun k => decide (f k ≤ u)) = m := by
        by_contra hne
        have hlt : (List.range m).countP (fun k => decide (f k ≤ u)) < m := by omega
        have h1 := ih3 hlt
        have h2 := hf (le_of_lt hlt)
        linarith
      rw [hc]
      simp only [List.countP_cons, List.countP_nil, hm, decide_true, if_true]
      refine ⟨by omega, ?_, fun h => by omega⟩
      intro k hk
      exact le_trans (hf (by omega)) hm
    · simp only [List.countP_cons, List.countP_nil, hm, decide_false, Bool.false_eq_true, if_false,
        Nat.add_zero]
      refine ⟨by omega, ih2, ?_⟩
      intro h
      by_cases hlt : (List.range m).countP (fun k => decide (f k ≤ u)) < m
      · exact ih3 hlt
      · have : (List.range m).countP (fun k => decide (f k ≤ u)) = m := by omega
        rw [this]; exact not_le.mp hm

/-- `searchsorted(side='right')` on the normalised cdf, as a count over `range` -/
theorem searchsorted_real (w : List ℝ) (u : ℝ) :
    searchsortedRight ((List.range w.length).map (fun k => P w (k + 1) / w.sum)) u =
      (List.range w.length).countP (fun k => decide (P w (k + 1) / w.sum ≤ u)) := by
  unfold searchsortedRight
  rw [List.countP_map]
  apply List.countP_congr
  intro k _
  simp

theorem cdf_mono (w : List ℝ) (hw0 : ∀ x ∈ w, 0 ≤ x) (hpos : 0 < w.sum) :
    Monotone (fun k => P w (k + 1) / w.sum) := by
  intro a b hab
  exact div_le_div_of_nonneg_right (P_mono w hw0 (by omega)) hpos.le

/-- a draw `u ∈ [0,1)` is mapped to a valid index -/
theorem mult_index_range (w : List ℝ) (hw0 : ∀ x ∈ w, 0 ≤ x) (hpos : 0 < w.sum) (u : ℝ) (hu1 : u < 1) :
    searchsortedRight ((List.range w.length).map (fun k => P w (k + 1) / w.sum)) u < w.length := by
  rw [searchsorted_real]
  obtain ⟨h1, h2, _⟩ := countP_mono_range _ (cdf_mono w hw0 hpos) u w.length
  by_contra hge
  have hne : w ≠ [] := by rintro rfl; simp at hpos
  have hlen : 0 < w.length := List.length_pos_iff.mpr hne
  have := h2 (w.length - 1) (by omega)
  simp only [Nat.sub_add_cancel hlen, P_length, div_self hpos.ne'] at this
  linarith

/-- a draw `u ∈ [0,1)` is mapped to `i` exactly when `C_{i−1}/Σw ≤ u < C_i/Σw` -/
theorem mult_index_cell (w : List ℝ) (hw0 : ∀ x ∈ w, 0 ≤ x) (hpos : 0 < w.sum) (u : ℝ) (hu0 : 0 ≤ u)
    (i : ℕ) (hi : i < w.length) :
    searchsortedRight ((List.range w.length).map (fun k => P w (k + 1) / w.sum)) u = i ↔
      (P w i / w.sum ≤ u ∧ u < P w (i + 1) / w.sum) := by
  rw [searchsorted_real]
  have hmono := cdf_mono w hw0 hpos
  obtain ⟨h1, h2, h3⟩ := countP_mono_range _ hmono u w.length
  constructor
  · intro hc
    rw [hc] at h2 h3
    refine ⟨?_, h3 hi⟩
    rcases Nat.eq_zero_or_pos i with h0 | hp
    · rw [h0, P_zero]; simpa using hu0
    · have := h2 (i - 1) (by omega)
      simpa [Nat.sub_add_cancel hp] using this
  · rintro ⟨ha, hb⟩
    rcases lt_trichotomy ((List.range w.length).countP
        (fun k => decide (P w (k + 1) / w.sum ≤ u))) i with hlt | heq | hgt
    · exfalso
      have hu := h3 (by omega)
      have hm : P w ((List.range w.length).countP (fun k => decide (P w (k + 1) / w.sum ≤ u)) + 1) / w.sum
          ≤ P w i / w.sum := div_le_div_of_nonneg_right (P_mono w hw0 (by omega)) hpos.le
      linarith
    · exact heq
    · exfalso; have := h2 i hgt; linarith

theorem multinomial_real (w us : List ℝ) (idx : List ℕ) (h : multinomial w us = some idx) :
    w ≠ [] ∧ idx = us.map (searchsortedRight ((List.range w.length).map (fun k => P w (k + 1) / w.sum))) := by
  have hne : w ≠ [] := by
    rintro rfl; simp [multinomial, normCdf, cumsum] at h
  refine ⟨hne, ?_⟩
  unfold multinomial at h
  rw [normCdf_real w hne] at h
  simpa using h.symm

/-- every multinomial index is a valid index into the weight vector -/
theorem C06_mult_range (w us : List ℝ) (idx : List ℕ) (hw0 : ∀ x ∈ w, 0 ≤ x) (hpos : 0 < w.sum)
    (hus : ∀ u ∈ us, 0 ≤ u ∧ u < 1) (h : multinomial w us = some idx) : ∀ r ∈ idx, r < w.length := by
  obtain ⟨_, rfl⟩ := multinomial_real w us idx h
  intro r hr
  obtain ⟨u, hu, rfl⟩ := List.mem_map.mp hr
  exact mult_index_range w hw0 hpos u (hus u hu).2

/-- **cell law**: the `k`-th draw `u` yields index `i` exactly when `cdf_{i−1} ≤ u < cdf_i` for the
    normalised cdf `cdf_i = C_i/Σw` (`cdf_{−1} = 0`) -/
theorem C06_mult_cell (w us : List ℝ) (idx : List ℕ) (hw0 : ∀ x ∈ w, 0 ≤ x) (hpos : 0 < w.sum)
    (hus : ∀ u ∈ us, 0 ≤ u ∧ u < 1) (h : multinomial w us = some idx)
    (k : ℕ) (hk : k < us.length) (hk' : k < idx.length) (i : ℕ) (hi : i < w.length) :
    idx[k] = i ↔ (P w i / w.sum ≤ us[k] ∧ us[k] < P w (i + 1) / w.sum) := by
  obtain ⟨_, rfl⟩ := multinomial_real w us idx h
  rw [List.getElem_map]
  exact mult_index_cell w hw0 hpos us[k] (hus _ (List.getElem_mem hk)).1 i hi

/-- the cell of index `i` has length `w_i/Σw`: a uniform draw hits it with that probability, so `n` draws give
    `n·w_i/Σw` expected copies -/
theorem C06_mult_cell_length (w : List ℝ) (i : ℕ) (hi : i < w.length) :
    P w (i + 1) / w.sum - P w i / w.sum = w[i] / w.sum := by
  rw [P_succ w i hi]; ring

/-- **unbiasedness of the multinomial scheme**: one uniform draw yields index `i` with probability `w_i/Σw`
    (Lebesgue measure of its cell), so `n` independent draws give `n·w_i/Σw` expected copies -/
theorem C06_mult_unbiased_integral (w : List ℝ) (hw0 : ∀ x ∈ w, 0 ≤ x) (hpos : 0 < w.sum)
    (i : ℕ) (hi : i < w.length) :
    ∫ u in Set.Ico (0:ℝ) 1, (if multinomial w [u] = some [i] then (1:ℝ) else 0) = w[i] / w.sum := by
  have hne : w ≠ [] := by rintro rfl; simp at hi
  have hlo : 0 ≤ P w i / w.sum := div_nonneg (P_nonneg w hw0 i) hpos.le
  have hhi : P w (i + 1) / w.sum ≤ 1 := by
    rw [div_le_one hpos]; exact P_le_sum w hw0 _
  have hle : P w i / w.sum ≤ P w (i + 1) / w.sum :=
    div_le_div_of_nonneg_right (P_mono w hw0 (Nat.le_succ i)) hpos.le
  have hcongr : Set.EqOn (fun u : ℝ => if multinomial w [u] = some [i] then (1:ℝ) else 0)
      ((Set.Ico (P w i / w.sum) (P w (i + 1) / w.sum)).indicator (fun _ => (1:ℝ))) (Set.Ico (0:ℝ) 1) := by
    intro u hu
    have hm : multinomial w [u] = some [searchsortedRight
        ((List.range w.length).map (fun k => P w (k + 1) / w.sum)) u] := by
      unfold multinomial; rw [normCdf_real w hne]; simp
    have hcell := mult_index_cell w hw0 hpos u hu.1 i hi
    simp only [hm, Set.indicator, Set.mem_Ico]
    by_cases hc : P w i / w.sum ≤ u ∧ u < P w (i + 1) / w.sum
    · have := hcell.mpr hc
      simp [this, hc]
    · have : ¬ searchsortedRight ((List.range w.length).map (fun k => P w (k + 1) / w.sum)) u = i :=
        fun e => hc (hcell.mp e)
      simp [this, hc]
  rw [setIntegral_congr_fun measurableSet_Ico hcongr, setIntegral_indicator measurableSet_Ico]
  have : Set.Ico (0:ℝ) 1 ∩ Set.Ico (P w i / w.sum) (P w (i + 1) / w.sum)
      = Set.Ico (P w i / w.sum) (P w (i + 1) / w.sum) := by
    ext x; simp only [Set.mem_inter_iff, Set.mem_Ico]; constructor
    · rintro ⟨_, h⟩; exact h
    · rintro ⟨h1, h2⟩; exact ⟨⟨le_trans hlo h1, lt_of_lt_of_le h2 hhi⟩, h1, h2⟩
  rw [this, setIntegral_const, Real.volume_real_Ico_of_le hle, ← C06_mult_cell_length w i hi]; simp

/-! ### non-vacuity: the hypotheses are met by concrete inputs, and the model computes what the code does -/

/-- the docstring-sized example: `n = 4`, `w = [1/2, 1/4, 1/4]`, `u0 = 1/2` gives `[0, 0, 1, 2]` -/
theorem example_run : systematic 4 ([1/2, 1/4, 1/4] : List ℝ) (1/2) = some [0, 0, 1, 2] := by
  have hr : List.range 4 = [0, 1, 2, 3] := by decide
  simp [systematic, systematicWith, renorm, Sc.sum, ScReal.abs_def, hr, run, position]
  norm_num [advance.eq_def, Sc.ge, sqrtEps_real]

example : ([0, 0, 1, 2] : List ℕ).length = 4 :=
  C06_syst_length (α := ℝ) _ 4 [1/2, 1/4, 1/4] (1/2) _ example_run
example : ∀ r ∈ ([0, 0, 1, 2] : List ℕ), r < 3 :=
  C06_syst_range (α := ℝ) _ 4 [1/2, 1/4, 1/4] (1/2) _ example_run
example : ([0, 0, 1, 2] : List ℕ).Pairwise (· ≤ ·) :=
  C06_syst_monotone (α := ℝ) _ 4 [1/2, 1/4, 1/4] (1/2) _ example_run
example : List.Forall₂ (fun (i : ℕ) r => Cover (renorm (Sc.sum ([1/2, 1/4, 1/4] : List ℝ)) [1/2, 1/4, 1/4])
    ((1/2 + i) / (4 : ℕ)) r) (List.range 4) [0, 0, 1, 2] :=
  C06_syst_spec _ 4 [1/2, 1/4, 1/4] (1/2) _ example_run
example : ((([0, 0, 1, 2] : List ℕ).count 0 : ℕ) : ℤ) = ⌊((4 : ℕ) : ℝ) * (1/2)⌋ ∨
    ((([0, 0, 1, 2] : List ℕ).count 0 : ℕ) : ℤ) = ⌈((4 : ℕ) : ℝ) * (1/2)⌉ := by
  have := C06_syst_floor_ceil 4 [1/2, 1/4, 1/4] (1/2) _ (by norm_num)
    (by intro x hx; simp at hx; rcases hx with rfl | rfl | rfl <;> norm_num) (by norm_num) (by norm_num) (by norm_num)
    example_run 0 (by simp)
  simpa using this

/-- offset 0 (a value `numpy.random.random()` can return): position 0 goes to the first index with positive weight -/
example : systematic 1 ([0, 1] : List ℝ) 0 = some [1] := by
  have hr : List.range 1 = [0] := by decide
  simp [systematic, systematicWith, renorm, Sc.sum, ScReal.abs_def, hr, run, position]
  norm_num [advance.eq_def, Sc.ge, sqrtEps_real]

example : systematic 2 ([1/2, 1/2] : List ℝ) 0 = some [0, 1] := by
  have hr : List.range 2 = [0, 1] := by decide
  simp [systematic, systematicWith, renorm, Sc.sum, ScReal.abs_def, hr, run, position]
  norm_num [advance.eq_def, Sc.ge, sqrtEps_real]

/-- renormalising branch: `Σw = 2` -/
example : systematic 2 ([1, 1] : List ℝ) (1/2) = some [0, 1] := by
  have hr : List.range 2 = [0, 1] := by decide
  have hs : (sqrtEps : ℝ) < 1 := by rw [sqrtEps_real]; norm_num
  simp [systematic, systematicWith, renorm, Sc.sum, ScReal.abs_def, hr, run, position]
  norm_num [hs]
  norm_num [advance.eq_def, Sc.ge]

/-- the hypothesis `Σw = 1` of the floor/ceil law cannot be relaxed to the tolerance band the routine accepts:
    `w = [2^-30, 1]` (sum `1 + 2^-30`, no renormalisation), `n = 2`, `u0 = 0` gives `[0, 1]`, so index 1 is copied
    once although `n·w_1 = 2`. -/
theorem C06_syst_floor_ceil_needs_exact_sum :
    ∃ (n : ℕ) (w : List ℝ) (u0 : ℝ) (idx : List ℕ), 1 ≤ n ∧ (∀ x ∈ w, 0 ≤ x) ∧ |w.sum - 1| ≤ 1 / 2 ^ 26 ∧
      0 ≤ u0 ∧ u0 < 1 ∧ systematic n w u0 = some idx ∧
      ∃ (j : ℕ) (hj : j < w.length), (idx.count j : ℤ) ≠ ⌊n * w[j]⌋ ∧ (idx.count j : ℤ) ≠ ⌈n * w[j]⌉ := by
  refine ⟨2, [1 / 2 ^ 30, 1], 0, [0, 1], by norm_num, ?_, ?_, le_refl _, by norm_num, ?_, 1, by simp, ?_, ?_⟩
  · intro x hx; simp at hx; rcases hx with rfl | rfl <;> norm_num
  · norm_num [abs_le]
  · have hr : List.range 2 = [0, 1] := by decide
    have hs : ¬ ((sqrtEps : ℝ) < |(1 / 2 ^ 30 + 1 : ℝ) - 1|) := by
      rw [sqrtEps_real]; norm_num [abs_le]
    simp only [systematic, systematicWith, renorm, Sc.sum, List.foldl, ScReal.abs_def, ScReal.add_def,
      ScReal.sub_def, ScReal.zero_def, ScReal.one_def, zero_add, Sc.gt, ScReal.lt_def, hs]
    simp [hr, run, position]
    norm_num [advance.eq_def, Sc.ge]
  · norm_num
  · norm_num

example : multinomial ([1/2, 1/4, 1/4] : List ℝ) [0, 1/2, 3/4, 7/8, 1/3] = some [0, 1, 2, 2, 0] := by
  simp [multinomial, normCdf, cumsum, cumsumFrom, searchsortedRight, List.countP_cons]
  norm_num

example : ∫ u in Set.Ico (0:ℝ) 1, copies 4 ([1/2, 1/4, 1/4] : List ℝ) 0 u = ((4:ℕ):ℝ) * (1/2) := by
  have := C06_syst_unbiased_integral 4 [1/2, 1/4, 1/4] (by norm_num)
    (by intro x hx; simp at hx; rcases hx with rfl | rfl | rfl <;> norm_num) (by norm_num) 0 (by simp)
  simpa using this

example : ∫ u in Set.Ico (0:ℝ) 1, (if multinomial ([1/2, 1/4, 1/4] : List ℝ) [u] = some [1] then (1:ℝ) else 0)
    = (1/4) / (1/2 + (1/4 + (1/4 + 0))) := by
  have := C06_mult_unbiased_integral [1/2, 1/4, 1/4]
    (by intro x hx; simp at hx; rcases hx with rfl | rfl | rfl <;> norm_num) (by norm_num) 1 (by simp)
  simpa using this

end Props.C06
